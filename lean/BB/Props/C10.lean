import BB.Proofs.StoreHier
/-!
# C10 - Hierarchical CAS: objects visible exactly under the uploader's instance subtree

Keys are opaque: `ck` is the canonical key of a digest (`KeyWithoutInstance`), `lk` a lookup key
(`KeyWithInstance` of the digest under one instance name), `lks` the lookup keys of all ancestors of
the reader's instance name, least specific first (`getAllLookupKeys`).  That distinct
(digest, instance name) pairs give distinct key strings, that canonical and lookup keys never
coincide, and that `GetDigestsWithParentInstanceNames` is exactly the chain of component prefixes are
C20's theorems (`C20_key_injective`, `C20_ancestors`); here they are what "lookup key of an ancestor"
means.
-/
namespace BB.C10
open BB.Store
open BB.BlockMap (Ticket)

/-- **Only the uploader's key.** The end of an upload writes the canonical key and the lookup key of
the uploader's own instance name, and nothing at all unless the complete content was supplied and
matched the digest; any other key resolves afterwards only if it did before. -/
theorem put_grants_only_own (c : Cfg) (s : St) (h : SInv c s) (t : Ticket) (ck lk : Nat) (copied : Bool) (q : Nat)
    (hq : q ≠ ck) (hn : lookup c s q = none)
    (hvis : lookup c (hierPutEnd c s t ck lk copied).2 q ≠ none) : q = lk ∧ copied = true := by
  have g := grows_hierPutEnd h t ck lk copied
  cases copied
  · exact absurd (g.no_new h q (by simp) hn) hvis
  · by_cases hlk : q = lk
    · exact ⟨hlk, rfl⟩
    · exact absurd (g.no_new h q (by simp [hq, hlk]) hn) hvis

/-- **Existing object: access only against the content.** If the digest already exists under another
name (dedup branch), the uploader's key is added only after the whole buffer was read without
error (`copied`), and no other key changes. -/
theorem existing_needs_content (c : Cfg) (s : St) (h : SInv c s) (ck lk : Nat) (copied : Bool) (q : Nat)
    (hn : lookup c s q = none) (hvis : lookup c (hierPutDedupEnd c s ck lk copied).2 q ≠ none) :
    q = lk ∧ copied = true := by
  have g := grows_hierPutDedupEnd h ck lk copied
  cases copied
  · exact absurd (g.no_new h q (by simp) hn) hvis
  · by_cases hlk : q = lk
    · exact ⟨hlk, rfl⟩
    · exact absurd (g.no_new h q (by simp [hlk]) hn) hvis

/-- **Reads never widen visibility.** The first part of `Get` (fast path, canonical sync, reservation
for a refresh) writes at most the lookup key it found, which already resolved. -/
theorem get_never_widens (c : Cfg) (s : St) (h : SInv c s) (lks : List Nat) (ck q : Nat)
    (hn : lookup c s q = none) :
    match hierGetBegin c s lks ck with
    | .done _ s' => lookup c s' q = none
    | .refresh _ _ s' => lookup c s' q = none
    | .broken => False := by
  have g := grows_hierGetBegin h lks ck
  cases hb : hierGetBegin c s lks ck with
  | done r s' =>
    rw [hb] at g
    obtain ⟨W, gw, hr, _⟩ := g
    exact gw.no_new h q (fun hm => hr q hm hn) hn
  | refresh t src s' =>
    rw [hb] at g
    exact g.1.no_new h q (by simp) hn
  | broken => rw [hb] at g; exact g

theorem findMissing_never_widens (c : Cfg) (s : St) (h : SInv c s) (lks : List Nat) (ck q : Nat)
    (hn : lookup c s q = none) :
    match hierFindMissingBegin c s lks ck with
    | .done _ s' => lookup c s' q = none
    | .refresh _ _ s' => lookup c s' q = none
    | .broken => False := by
  have g := grows_hierFindMissingBegin h lks ck
  cases hb : hierFindMissingBegin c s lks ck with
  | done r s' =>
    rw [hb] at g
    obtain ⟨W, gw, hr, _⟩ := g
    exact gw.no_new h q (fun hm => hr q hm hn) hn
  | refresh t src s' =>
    rw [hb] at g
    exact g.1.no_new h q (by simp) hn
  | broken => rw [hb] at g; exact g

/-- **Refresh writes the same key.** The end of a refresh registers the copy under the canonical key
and the lookup key that was found - no other key starts to resolve, for any state the store is in
when the copy completes (other operations may have run in between). -/
theorem refresh_same_key (c : Cfg) (s : St) (h : SInv c s) (t : Ticket) (src : Loc) (ck lk q : Nat)
    (hq : q ≠ ck) (hlk : q ≠ lk) (hn : lookup c s q = none) :
    lookup c (hierRefreshEnd c s t src ck lk).1 q = none :=
  (grows_hierRefreshEnd h t src ck lk).no_new h q (by simp [hq, hlk]) hn

/-! ### Histories of whole operations -/

inductive HOp
  | put (ck lk size : Nat) (copied : Bool)
  | get (ck : Nat) (lks : List Nat)
  | findMissing (ck : Nat) (lks : List Nat)

def refreshTail (c : Cfg) (s : St) (lks : List Nat) (ck : Nat) : Begin → St
  | .done _ s1 => s1
  | .refresh t src s1 =>
    match hierFoundKey c s lks with
    | some lk => (hierRefreshEnd c (copyLoc s1 t src) t src ck lk).1
    | none => s1
  | .broken => s

def putTail (c : Cfg) (s : St) (ck lk : Nat) (copied : Bool) : HierPut → St
  | .dedup s1 => (hierPutDedupEnd c s1 ck lk copied).2
  | .alloc (.ok t s1) => (hierPutEnd c s1 t ck lk copied).2
  | .alloc (.err _ s1) => s1
  | .alloc .broken => s

def hstep (c : Cfg) (s : St) : HOp → St
  | .put ck lk size copied => putTail c s ck lk copied (hierPutBegin c s ck size)
  | .get ck lks => refreshTail c s lks ck (hierGetBegin c s lks ck)
  | .findMissing ck lks => refreshTail c s lks ck (hierFindMissingBegin c s lks ck)

def canonicalOf : HOp → Nat
  | .put ck _ _ _ => ck
  | .get ck _ => ck
  | .findMissing ck _ => ck

theorem refreshTail_spec (c : Cfg) (s : St) (h : SInv c s) (lks : List Nat) (ck : Nat) (b : Begin)
    (hb : BeginOK c s lks b) (q : Nat) (hq : q ≠ ck) (hn : lookup c s q = none) :
    SInv c (refreshTail c s lks ck b) ∧ lookup c (refreshTail c s lks ck b) q = none := by
  cases b with
  | done r s1 =>
    obtain ⟨W, gw, hr, _⟩ := hb
    exact ⟨gw.inv, gw.no_new h q (fun hm => hr q hm hn) hn⟩
  | refresh t src s1 =>
    obtain ⟨g1, lk, hls⟩ := hb
    have hf : hierFoundKey c s lks = some lk := by simp [hierFoundKey, hls]
    simp only [refreshTail, hf]
    have hlk := (leastSpecific_some hls).2
    have g2 := grows_copyLoc g1.inv t src
    have g3 := grows_hierRefreshEnd g2.inv t src ck lk
    have hn1 := g1.no_new h q (by simp) hn
    have hn2 := g2.no_new g1.inv q (by simp) hn1
    have hqlk : q ≠ lk := by intro e; rw [e, hlk] at hn; simp at hn
    exact ⟨g3.inv, g3.no_new g2.inv q (by simp [hq, hqlk]) hn2⟩
  | broken => exact hb.elim

/-- One whole operation: the invariant is kept, and a key that is neither the operation's canonical key
nor the lookup key of a valid upload does not start to resolve. -/
theorem hstep_spec (c : Cfg) (s : St) (h : SInv c s) (op : HOp) (q : Nat) (hq : q ≠ canonicalOf op)
    (hn : lookup c s q = none) (hnp : ∀ ck size, op ≠ .put ck q size true) :
    SInv c (hstep c s op) ∧ lookup c (hstep c s op) q = none := by
  cases op with
  | put ck lk size copied =>
    simp only [canonicalOf] at hq
    have hne : ¬ (q = lk ∧ copied = true) := by
      intro ⟨e1, e2⟩; exact hnp ck size (by rw [e1, e2])
    have hb : hierPutBegin c s ck size = .dedup s ∨ hierPutBegin c s ck size = .alloc (allocate c s size) := by
      unfold hierPutBegin
      cases lookup c s ck with
      | none => exact Or.inr rfl
      | some cl =>
        simp only []
        by_cases hnr : (!locNeedsRefresh s cl) = true
        · simp [hnr]
        · simp [hnr]
    simp only [hstep]
    rcases hb with hb | hb
    · rw [hb]
      simp only [putTail]
      refine ⟨(grows_hierPutDedupEnd h ck lk copied).inv, ?_⟩
      cases hl : lookup c (hierPutDedupEnd c s ck lk copied).2 q with
      | none => rfl
      | some l => exact absurd (existing_needs_content c s h ck lk copied q hn (by rw [hl]; simp)) hne
    · rw [hb]
      have ga := grows_allocate h size
      cases ha : allocate c s size with
      | ok t s1 =>
        rw [ha] at ga
        simp only [putTail]
        have hn1 := ga.no_new h q (by simp) hn
        refine ⟨(grows_hierPutEnd ga.inv t ck lk copied).inv, ?_⟩
        cases hl : lookup c (hierPutEnd c s1 t ck lk copied).2 q with
        | none => rfl
        | some l => exact absurd (put_grants_only_own c s1 ga.inv t ck lk copied q hq hn1 (by rw [hl]; simp)) hne
      | err e s1 => rw [ha] at ga; exact ⟨ga.inv, ga.no_new h q (by simp) hn⟩
      | broken => rw [ha] at ga; exact ga.elim
  | get ck lks =>
    simp only [canonicalOf] at hq
    exact refreshTail_spec c s h lks ck _ (grows_hierGetBegin h lks ck) q hq hn
  | findMissing ck lks =>
    simp only [canonicalOf] at hq
    exact refreshTail_spec c s h lks ck _ (grows_hierFindMissingBegin h lks ck) q hq hn

def run (c : Cfg) (s : St) (ops : List HOp) : St := ops.foldl (hstep c) s

/-- **Visible only under the uploader's subtree.** After any history of uploads, reads and existence
checks starting from a store in which lookup key `k` does not resolve, `k` resolves only if the
history contains an upload with exactly that lookup key whose content was complete and valid.
Since a read under instance name `J` consults only the lookup keys of `J`'s ancestors, an object is
readable under `J` only if it was uploaded under a component-wise prefix of `J`. -/
theorem only_uploaded (c : Cfg) : ∀ (ops : List HOp) (s : St) (k : Nat), SInv c s → lookup c s k = none →
    (∀ op ∈ ops, k ≠ canonicalOf op) → lookup c (run c s ops) k ≠ none →
    ∃ ck size, HOp.put ck k size true ∈ ops := by
  intro ops
  induction ops with
  | nil => intro s k _ hn _ hv; exact absurd hn hv
  | cons op rest ih =>
    intro s k h hn hc hv
    by_cases hp : ∃ ck size, op = .put ck k size true
    · obtain ⟨ck, size, e⟩ := hp
      exact ⟨ck, size, by rw [e]; exact List.mem_cons_self⟩
    · have hs := hstep_spec c s h op k (hc op List.mem_cons_self) hn (fun ck size e => hp ⟨ck, size, e⟩)
      obtain ⟨ck, size, hm⟩ := ih (hstep c s op) k hs.1 hs.2 (fun o ho => hc o (List.mem_cons_of_mem _ ho)) hv
      exact ⟨ck, size, List.mem_cons_of_mem _ hm⟩

/-- A read under a list of ancestor lookup keys finds something only if one of *those* keys resolves. -/
theorem read_consults_only_ancestors (c : Cfg) (s : St) (lks : List Nat) (lk : Nat) (l : Loc)
    (h : leastSpecific c s lks = some (lk, l)) : lk ∈ lks ∧ lookup c s lk = some l :=
  leastSpecific_some h

end BB.C10

namespace BB.C10
open BB.Store

/-- **Readable below.** If the lookup key of an ancestor name resolves, every read under a descendant
name (whose ancestor list contains that key) finds the object. -/
theorem readable_below (c : Cfg) (s : St) : ∀ (lks : List Nat) (lk : Nat), lk ∈ lks → lookup c s lk ≠ none →
    leastSpecific c s lks ≠ none := by
  intro lks
  induction lks with
  | nil => intro lk h; simp at h
  | cons k rest ih =>
    intro lk hm hv
    unfold leastSpecific
    cases hk : lookup c s k with
    | some l => simp
    | none =>
      simp only []
      rcases List.mem_cons.mp hm with e | hm'
      · subst e; exact absurd hk hv
      · exact ih lk hm' hv

end BB.C10
