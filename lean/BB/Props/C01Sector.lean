import BB.Proofs.SectorSys
/-!
# C01 (device level): sector sharing never damages a neighbour's bytes

`blockDeviceBackedBlock.Put` packs objects back to back, so the first and the last sector of an object
are shared with its neighbours, and the writers of neighbouring objects run concurrently, without the
store lock. The theorems below are about `BB.SectorWriter` (model of `Put`, `Write`, `flush` in
block_device_backed_block_allocator.go) and hold for every sector size, every sequence of object sizes
and contents, every chunking of every writer's data, and every interleaving of `Put`, `Write` and `flush`
calls of any number of writers, including writers that stop half way (failed uploads) and writers whose device
write fails at any of the `WriteAt` calls a `Write` makes (`Ev.writeFail`).
-/
namespace BB.C01Sector
open BB.SectorWriter

theorem run_inv {S : Nat} (hS : 0 < S) (objs : List (List Nat)) (evs : List Ev) (s : Sys) (sec : Nat → Nat)
    (inv : Inv S objs s sec) : ∃ sec', Inv S objs (evs.foldl (Sys.step objs) s) sec' := by
  induction evs generalizing s sec with
  | nil => exact ⟨sec, inv⟩
  | cons e es ih =>
    simp only [List.foldl_cons]
    cases e with
    | alloc => obtain ⟨sec', inv'⟩ := inv_alloc hS inv; exact ih _ sec' inv'
    | write i n => exact ih _ sec (inv_write hS inv i n)
    | writeFail i n k => exact ih _ sec (inv_writeFail hS inv i n k)
    | flush i => exact ih _ sec (inv_flush hS inv i)

/-- Every reachable state of the block satisfies the invariant. -/
theorem reachable_inv {S : Nat} (hS : 0 < S) (objs : List (List Nat)) (evs : List Ev) :
    ∃ sec, Inv S objs (Sys.run objs S evs) sec :=
  run_inv hS objs evs _ _ (inv_init S objs)

/-- **Sector image.** Once a writer has flushed, every byte of its object is on the device at the
offset `Put` returned, and stays there whatever the other writers (earlier, later, sharing its first or last
sector, finished or abandoned) do afterwards: the statement is about an arbitrary reachable state. -/
theorem sector_image {S : Nat} (hS : 0 < S) (objs : List (List Nat)) (evs : List Ev) (i : Nat) (r : Wr)
    (hr : (Sys.run objs S evs).ws[i]? = some r) (hf : r.flushed = true) (k : Nat) (hk : k < r.data.length) :
    devByte (Sys.run objs S evs).m (r.start + k) = r.data.getD k 0 := by
  obtain ⟨sec, inv⟩ := reachable_inv hS objs evs
  have wi := inv.wi r (List.mem_of_getElem? hr)
  have dn := wi.done hf
  unfold devByte
  rw [inv.hm]
  have hpos : (r.start + k) / S * S + (r.start + k) % S = r.start + k := by
    rw [Nat.mul_comm]; exact Nat.div_add_mod _ _
  have := dn ((r.start + k) / S) ((r.start + k) % S) (Nat.mod_lt _ hS) (by omega) (by omega)
  unfold Good at this
  rw [this, hpos]
  exact wi.hF k hk

/-- **Layout.** The `i`-th `Put` is given the bytes right after everything allocated before it: objects
are packed without gaps and never overlap, and writer `i` writes `objs[i]`. -/
theorem sector_layout {S : Nat} (hS : 0 < S) (objs : List (List Nat)) (evs : List Ev) (i : Nat) (r : Wr)
    (hr : (Sys.run objs S evs).ws[i]? = some r) :
    r.start = ((objs.take i).flatten).length ∧ r.data = objs.getD i [] := by
  obtain ⟨sec, inv⟩ := reachable_inv hS objs evs
  exact inv.idx i r hr

/-- **No stray writes.** The device never holds a non-zero byte beyond what has been allocated, so a writer
cannot spill into space that the next `Put` is going to hand out. -/
theorem sector_no_spill {S : Nat} (hS : 0 < S) (objs : List (List Nat)) (evs : List Ev) (s j : Nat) (hj : j < S)
    (h : (Sys.run objs S evs).m.dev s j ≠ 0) : s * S + j < total S (Sys.run objs S evs).a := by
  obtain ⟨sec, inv⟩ := reachable_inv hS objs evs
  exact inv.gm.g3d s j hj h

/-- **Only good bytes.** Whatever the device holds at an allocated position is either still zero or the byte
that belongs there: no writer ever stores a byte of its object at a position of another object. -/
theorem sector_only_good {S : Nat} (hS : 0 < S) (objs : List (List Nat)) (evs : List Ev) (s j : Nat) (hj : j < S) :
    (Sys.run objs S evs).m.dev s j = 0 ∨ (Sys.run objs S evs).m.dev s j = objs.flatten.getD (s * S + j) 0 := by
  obtain ⟨sec, inv⟩ := reachable_inv hS objs evs
  exact inv.gm.g4d s j hj

theorem hasSpace_le {S sectors : Nat} {a : Alloc} {size : Nat} (hS : 0 < S) (h : hasSpace S sectors a size = true)
    (hcap : total S a ≤ sectors * S) : total S a + size ≤ sectors * S := by
  unfold hasSpace at h
  have h' := of_decide_eq_true h
  unfold total at hcap ⊢
  have hw : a.wos ≤ sectors := by
    have : a.wos * S ≤ sectors * S := by omega
    exact Nat.le_of_mul_le_mul_right this hS
  have hsub : (sectors - a.wos) * S = sectors * S - a.wos * S := Nat.sub_mul _ _ _
  have := Nat.mul_le_mul_right S hw
  omega

theorem step_total {S : Nat} (hS : 0 < S) (objs : List (List Nat)) (s : Sys) (sec : Nat → Nat) (inv : Inv S objs s sec)
    (e : Ev) : total S (s.step objs e).a =
      total S s.a + (match e with | .alloc => (objs.getD s.ws.length []).length | _ => 0) := by
  cases e with
  | alloc =>
    have sp := alloc_spec hS s.a (objs.getD s.ws.length []).length
      (fun id o h => ⟨(inv.ga.a1 id o h).1, (inv.ga.a1 id o h).2.1⟩)
    simp only [Sys.step, inv.hm]
    exact sp.2.1
  | write i n =>
    cases hi : s.ws[i]? with
    | none => simp only [Sys.step, hi, Nat.add_zero]
    | some r =>
      by_cases hfd : r.flushed = true ∨ r.dead = true
      · simp only [Sys.step, hi, hfd, if_true, Nat.add_zero]
      · simp only [Sys.step, hi, hfd, if_false, Nat.add_zero]
  | writeFail i n k =>
    cases hi : s.ws[i]? with
    | none => simp only [Sys.step, hi, Nat.add_zero]
    | some r =>
      by_cases hfd : r.flushed = true ∨ r.dead = true
      · simp only [Sys.step, hi, hfd, if_true, Nat.add_zero]
      · simp only [Sys.step, hi, hfd, if_false, Nat.add_zero]
        generalize r.w.writeFail s.m ((r.data.drop r.c).take n) k = res
        obtain ⟨m', ow⟩ := res
        cases ow <;> rfl
  | flush i =>
    cases hi : s.ws[i]? with
    | none => simp only [Sys.step, hi, Nat.add_zero]
    | some r =>
      by_cases hc : r.flushed = true ∨ r.dead = true ∨ r.c ≠ r.data.length
      · simp only [Sys.step, hi, hc, if_true, Nat.add_zero]
      · simp only [Sys.step, hi, hc, if_false, Nat.add_zero]

theorem guarded_total {S : Nat} (hS : 0 < S) (objs : List (List Nat)) (sectors : Nat) (evs : List Ev) (s : Sys)
    (sec : Nat → Nat) (inv : Inv S objs s sec) (hcap : total S s.a ≤ sectors * S)
    (hg : Sys.guarded objs sectors s evs = true) : total S (evs.foldl (Sys.step objs) s).a ≤ sectors * S := by
  induction evs generalizing s sec with
  | nil => exact hcap
  | cons e es ih =>
    simp only [List.foldl_cons]
    simp only [Sys.guarded, Bool.and_eq_true] at hg
    have ht := step_total hS objs s sec inv e
    cases e with
    | alloc =>
      obtain ⟨sec', inv'⟩ := inv_alloc hS inv
      have h1 : hasSpace S sectors s.a (objs.getD s.ws.length []).length = true := by
        have := hg.1; rw [inv.hm] at this; exact this
      have := hasSpace_le hS h1 hcap
      exact ih _ sec' inv' (by rw [ht]; exact this) hg.2
    | write i n => exact ih _ sec (inv_write hS inv i n) (by rw [ht]; exact hcap) hg.2
    | writeFail i n k => exact ih _ sec (inv_writeFail hS inv i n k) (by rw [ht]; exact hcap) hg.2
    | flush i => exact ih _ sec (inv_flush hS inv i) (by rw [ht]; exact hcap) hg.2

/-- **Capacity.** When every `Put` is preceded by a successful `HasSpace` (as `findBlockWithSpace` does), the
allocation frontier never passes the end of the block ... -/
theorem sector_capacity {S : Nat} (hS : 0 < S) (objs : List (List Nat)) (sectors : Nat) (evs : List Ev)
    (hg : Sys.guarded objs sectors (Sys.init S) evs = true) :
    total S (Sys.run objs S evs).a ≤ sectors * S :=
  guarded_total hS objs sectors evs _ _ (inv_init S objs) (by simp [Sys.init, total, Alloc.off]) hg

/-- ... and every `WriteAt` any writer ever issues (whole sectors, shared images included) lies inside the block: a
writer cannot touch a neighbouring block of the device, for any interleaving and any chunking. -/
theorem sector_in_block {S : Nat} (hS : 0 < S) (objs : List (List Nat)) (sectors : Nat) (evs : List Ev)
    (hg : Sys.guarded objs sectors (Sys.init S) evs = true) (e : Nat × Nat)
    (he : e ∈ (Sys.run objs S evs).m.wlog) : 0 < e.2 ∧ e.1 + e.2 ≤ sectors := by
  obtain ⟨sec, inv⟩ := reachable_inv hS objs evs
  have hcap := sector_capacity hS objs sectors evs hg
  obtain ⟨h1, h2⟩ := inv.gm.glog e he
  refine ⟨h1, ?_⟩
  have h3 : (e.1 + e.2) * S < (sectors + 1) * S := by rw [Nat.add_mul sectors, Nat.one_mul]; omega
  have := Nat.lt_of_mul_lt_mul_right h3
  omega

/-! Non-vacuity: three objects sharing sectors (sector size 4), interleaved writers, all flushed. -/
def demoObjs : List (List Nat) := [[1, 2, 3], [4, 5, 6, 7, 8, 9, 10, 11, 12, 13], [14], [15, 16, 17]]
def demoEvs : List Ev := [.alloc, .alloc, .alloc, .alloc, .write 1 3, .write 0 2, .write 1 7, .write 0 1, .flush 1,
  .write 3 3, .flush 3, .write 2 1, .flush 2, .flush 0]
example : (Sys.run demoObjs 4 demoEvs).ws.map (fun r => (r.start, r.flushed)) =
    [(0, true), (3, true), (13, true), (14, true)] := by decide
example : Sys.guarded demoObjs 5 (Sys.init 4) demoEvs = true := by decide
example : (Sys.run demoObjs 4 demoEvs).m.wlog = [(0, 1), (3, 1), (4, 1), (3, 1), (3, 1), (2, 1), (1, 1), (0, 1)] := by decide
example : (List.range 18).map (devByte (Sys.run demoObjs 4 demoEvs).m) =
    [1, 2, 3, 4, 5, 6, 7, 8, 9, 10, 11, 12, 13, 14, 15, 16, 17, 0] := by decide

end BB.C01Sector
