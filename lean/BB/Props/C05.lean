import BB.Proofs.BlockMap
/-!
# C05 - An object just read or reported present survives `old_blocks` more rotations

Statements about the block-map model (`BB.BlockMap`, the model of
`OldCurrentNewLocationBlobMap`), for both generated growth policies, all
old/current/new counts, block sizes, blob sizes and histories of allocations.

A *touch* (successful `Get`, `FindMissing`-present) leaves the object in a block
that is not "old": either it already was in a current/new block, or the store
copied it into freshly reserved space (`put`), which `fresh_not_old` shows is
never an old block.  `survives` then bounds how long such a block stays.
-/
namespace BB.C05
open BB.BlockMap BB.Gen

/-- `Put` always terminates with one of three outcomes; it is never stuck in a loop and never hits
an out-of-range index (`Res.stuck` / `Res.panic` are unreachable). -/
theorem alloc_total (c : Cfg) (fuelGrow size : Nat) (s : St) (hc : CfgOK c) (h : WF c s)
    (hf : c.policy.bound ≤ fuelGrow) :
    (∃ t s', put c fuelGrow size s = .ok (t, s')) ∨
    (∃ s', put c fuelGrow size s = .err "unavailable" s' ∧ s'.free = 0) ∨
    (c.blockSize < size ∧ put c fuelGrow size s = .err "invalid-argument" s) := by
  by_cases hsz : size ≤ c.blockSize
  · rcases put_ok c fuelGrow size s hc h hsz hf with ⟨t, s', e, _⟩ | ⟨s', e, _, f⟩
    · exact Or.inl ⟨t, s', e⟩
    · exact Or.inr (Or.inl ⟨s', e, f⟩)
  · right; right
    refine ⟨by omega, ?_⟩
    unfold put
    rw [findBlockWithSpace_too_big c fuelGrow size s (by omega)]

/-- The state `Put` leaves behind, whatever the outcome. -/
def after (c : Cfg) (fuelGrow : Nat) (s : St) (size : Nat) : St :=
  match put c fuelGrow size s with
  | .ok (_, s') => s'
  | .err _ s' => s'
  | _ => s

theorem after_step (c : Cfg) (fuelGrow size : Nat) (s : St) (hc : CfgOK c) (h : WF c s)
    (hf : c.policy.bound ≤ fuelGrow) : Step c s (after c fuelGrow s size) := by
  unfold after
  by_cases hsz : size ≤ c.blockSize
  · rcases put_ok c fuelGrow size s hc h hsz hf with ⟨t, s', e, st, _⟩ | ⟨s', e, st, _⟩
    · rw [e]; exact st
    · rw [e]; exact st
  · unfold put
    rw [findBlockWithSpace_too_big c fuelGrow size s (by omega)]
    exact Step.refl h

/-- Layout invariant: the bookkeeping stays consistent with the block list (block count =
old+current+new, quarantine counter within range, cursor within the "new" group, policy bounds). -/
theorem layout_inv (c : Cfg) (fuelGrow size : Nat) (s : St) (hc : CfgOK c) (h : WF c s)
    (hf : c.policy.bound ≤ fuelGrow) : WF c (after c fuelGrow s size) :=
  (after_step c fuelGrow size s hc h hf).wf

/-- Space is only ever reserved in a "new" block: the ticket's block is not "old" (so an
immediately repeated touch finds `needsRefresh = false` and writes nothing), it exists, the
reserved range lies inside the block. -/
theorem fresh_not_old (c : Cfg) (fuelGrow size : Nat) (s : St) (hc : CfgOK c) (h : WF c s)
    (hf : c.policy.bound ≤ fuelGrow) (t : Ticket) (s' : St)
    (e : put c fuelGrow size s = .ok (t, s')) :
    needsRefresh s' t.blk = false ∧ s'.released + s'.old + s'.cur ≤ t.blk ∧
    t.blk < s'.released + s'.caps.length ∧ t.off + t.size ≤ c.blockSize := by
  by_cases hsz : size ≤ c.blockSize
  · rcases put_ok c fuelGrow size s hc h hsz hf with ⟨t1, s1, e1, _, hs, r1, r2, r3, _, _⟩ | ⟨s1, e1, _⟩
    · rw [e1] at e
      cases e
      refine ⟨?_, r1, r2, by omega⟩
      simp [needsRefresh]; omega
    · rw [e1] at e; cases e
  · unfold put at e
    rw [findBlockWithSpace_too_big c fuelGrow size s (by omega)] at e
    cases e

/-- Histories of allocations. -/
def run (c : Cfg) (fuelGrow : Nat) (s : St) (sizes : List Nat) : St := sizes.foldl (after c fuelGrow) s

theorem run_step (c : Cfg) (fuelGrow : Nat) (hc : CfgOK c) (hf : c.policy.bound ≤ fuelGrow) :
    ∀ (sizes : List Nat) (s : St), WF c s → Step c s (run c fuelGrow s sizes) := by
  intro sizes
  induction sizes with
  | nil => intro s h; exact Step.refl h
  | cons x rest ih =>
    intro s h
    have st := after_step c fuelGrow x s hc h hf
    exact st.trans (ih _ st.wf)

/-- **Survival bound.**  Start from any well-formed state without pending quarantine.  A block
that is not "old" now (`released + old ≤ B`, which is where every touched object lives) is still
resolvable after any history of allocations during which at most `desiredOld` further blocks were
allocated - whatever the sizes, for both growth policies, in the initial fill phase and in steady
state. -/
theorem survives (c : Cfg) (fuelGrow : Nat) (hc : CfgOK c) (hf : c.policy.bound ≤ fuelGrow)
    (s0 : St) (h : WF c s0) (hq : Quiet c s0) (sizes : List Nat) (B : Nat)
    (hB : s0.released + s0.old ≤ B) (hB2 : B < s0.released + s0.caps.length)
    (hp : (run c fuelGrow s0 sizes).pushes - s0.pushes ≤ c.desiredOld) :
    resolvable (run c fuelGrow s0 sizes) B = true := by
  have st := run_step c fuelGrow hc hf sizes s0 h
  obtain ⟨q, a, b, d⟩ := st.quiet hq
  have := st.relMono; have := st.endMono; have := st.pushMono
  have hq0 := hq.2; have hq1 := q.1; have hq2 := q.2
  have hrel : (run c fuelGrow s0 sizes).released ≤ B := by
    by_cases hlt : s0.released < (run c fuelGrow s0 sizes).released
    · have := d hlt; omega
    · omega
  simp [resolvable]
  omega

/-- The bound is tight: one more allocated block can evict it (a test, not part of the claim). -/
example :
    let c : Cfg := ⟨.immutable ⟨2⟩, 4, 1, 1⟩
    let s0 := run c 10 (init c [] 100) [4, 4, 4]      -- three full blocks: old = 1
    (s0.old = 1 ∧ s0.released = 0 ∧
     resolvable (run c 10 s0 [4]) 1 = true ∧           -- block 1 (current) survives 1 = desiredOld push
     resolvable (run c 10 s0 [4, 4]) 1 = false) := by  -- and is gone after desiredOld + 1
  decide

theorem init_empty (c : Cfg) (free : Nat) : init c [] free = { free := free } := by
  simp [init, initLoopNew, initLoopCur]

/-- Non-vacuity: the initial state of every sane configuration meets the hypotheses. -/
theorem init_wf (c : Cfg) (hc : CfgOK c) (free : Nat) : WF c (init c [] free) ∧ Quiet c (init c [] free) := by
  rw [init_empty]
  refine ⟨⟨by simp, by simp, by simp, by simp, by simp, by simp, by simp, ?_⟩, by simp [Quiet]⟩
  unfold CfgOK at hc
  unfold PolicyInv
  obtain ⟨h1, h2⟩ := hc
  split <;> rename_i p hp <;> rw [hp] at h2 <;> simp only [] at h2
  · obtain ⟨dc, hdc⟩ := h2
    rw [hdc]; simp; omega
  · obtain ⟨_, dc, hdc⟩ := h2
    rw [hdc]; simp

end BB.C05
