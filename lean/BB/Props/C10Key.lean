import BB.Gen.KeyHash

/-! C10 / C01: the store models identify an index key with its key string. `BB.Gen.KeyHash` is regenerated from
`local.NewKeyFromString` on every run and records which bytes of the key string reach SHA-256; the obligation is that
these are all of them, for every string (two instance names that differ anywhere give different hash inputs). -/

namespace BB.C10
open BB.Gen.KeyHash

theorem key_hashes_whole_string (s : String) : keyFrom = 0 ∧ keyTo s = s.utf8ByteSize := ⟨rfl, rfl⟩

/-- Non-vacuity: a key string longer than a few bytes is hashed up to its last byte. -/
example : keyTo "1-0123456789abcdef-12-tenant/a" = 30 := by decide

end BB.C10
