import BB.Proofs.ByteStreamClient
import BB.Proofs.ByteStreamStream
/-!
# C14 - ByteStream / CAS / AC RPCs: uploads atomic and verified, reads return the exact suffix

All theorems hold for every hash function `H`, every zstd decoder/encoder (`Codec`),
every request script, stream end, fault, store, chunk size and offset.

The theorems about `Write` and about the compressed `Read`/client `Get` are stated for
the repaired behaviour (`strictW`, `strictR`, `clientEOF = false`); `C14_write_legacy_first_offset`,
`C14_read_legacy_ignores_offset` and `legacy_client_get_counterexample` show what the
code as pinned does instead (defects D5, D6, D10).

`lenient`: `casValidatingReader`'s end-of-data probe accepts `io.ErrUnexpectedEOF`, so a
compressed upload whose stream ends inside a *trailing* frame after all content has been
produced is accepted (`ValidUpload` says so explicitly); the stored bytes match the digest
in every case.
-/
namespace BB.C14
open BB.ByteStream

/-- **Uploads are atomic and verified.**  For every request sequence, stream end and fault:
* without a valid complete upload the RPC fails and the backend is untouched;
* the backend is either untouched or gained exactly the content of a valid complete upload
  under the digest of the resource name;
* the RPC succeeds only if that happened;
* a valid complete upload to a healthy backend is stored, and acknowledged if the response
  can be sent. -/
theorem C14_write_atomic (C : Codec) (F : Flags) (hW : F.strictW = true) (st : Store) (kind : NameKind)
    (d : Digest) (msgs : List WriteReq) (e : StreamEnd) (wf : WriteFaults) :
    let r := write C F st kind d msgs e wf
    ((¬ ∃ c, ValidUpload C F kind d msgs e c) → r.1 = st ∧ ∃ er, r.2 = .error er) ∧
    (r.1 = st ∨ ∃ c, ValidUpload C F kind d msgs e c ∧ r.1 = st.put d c) ∧
    (∀ n, r.2 = .ok n → ∃ c, ValidUpload C F kind d msgs e c ∧ r.1 = st.put d c) ∧
    ((∃ c, ValidUpload C F kind d msgs e c) → wf.put = none →
      ∃ c, ValidUpload C F kind d msgs e c ∧ r.1 = st.put d c ∧ (wf.send = none → ∃ n, r.2 = .ok n)) := by
  intro r
  rcases write_spec C F hW st kind d msgs e wf with ⟨c, n, hv, hw⟩ | ⟨hnv, er, hw⟩
  · -- a valid complete upload was sent
    have hr : r = finishWrite st d (.ok c) n wf := hw
    rw [finishWrite_ok] at hr
    rcases wf with ⟨put, send⟩
    cases put with
    | some p =>
      rcases p with ⟨code, early⟩
      simp only at hr
      refine ⟨fun h => absurd ⟨c, hv⟩ h, Or.inl (by rw [hr]), ?_, ?_⟩
      · intro n' hn; rw [hr] at hn; cases hn
      · intro _ hp; cases hp
    | none =>
      cases send with
      | some code =>
        simp only at hr
        refine ⟨fun h => absurd ⟨c, hv⟩ h, Or.inr ⟨c, hv, by rw [hr]⟩, ?_, ?_⟩
        · intro n' hn; rw [hr] at hn; cases hn
        · intro _ _; exact ⟨c, hv, by rw [hr], fun h => by cases h⟩
      | none =>
        simp only at hr
        refine ⟨fun h => absurd ⟨c, hv⟩ h, Or.inr ⟨c, hv, by rw [hr]⟩, ?_, ?_⟩
        · intro n' _; exact ⟨c, hv, by rw [hr]⟩
        · intro _ _; exact ⟨c, hv, by rw [hr], fun _ => ⟨n, by rw [hr]⟩⟩
  · -- no valid complete upload
    have hr : r = (st, .error er) := hw
    refine ⟨fun _ => ⟨by rw [hr], er, by rw [hr]⟩, Or.inl (by rw [hr]), ?_, ?_⟩
    · intro n hn; rw [hr] at hn; cases hn
    · intro h; exact absurd h hnv

/-- The words of `ValidUpload` for the identity path, spelled out: offsets contiguous from 0,
`finish_write` on exactly the last request, half-close, concatenation matches the digest. -/
theorem C14_valid_upload_identity (C : Codec) (F : Flags) (d : Digest) (msgs : List WriteReq) (e : StreamEnd) (c : Bytes) :
    ValidUpload C F .identity d msgs e c ↔
      (∃ pre last, msgs = pre ++ [last] ∧ (∀ m ∈ pre, m.finish = false) ∧ last.finish = true) ∧
      Contig 0 msgs ∧ e = .eof ∧ c = concatData msgs ∧ c.length = d.size ∧ C.H c = d.hash := by
  simp only [ValidUpload, Valid, complete_iff]

theorem firstFinish_unique (msgs : List WriteReq) :
    ∀ (pre pre' : List WriteReq) (last last' : WriteReq) (rest rest' : List WriteReq),
    FirstFinish msgs pre last rest → FirstFinish msgs pre' last' rest' → pre = pre' ∧ last = last' := by
  induction msgs with
  | nil => intro pre pre' last last' rest rest' h _; simp [FirstFinish] at h
  | cons m ms ih =>
    intro pre pre' last last' rest rest' h h'
    obtain ⟨h1, h2, h3⟩ := h
    obtain ⟨h1', h2', h3'⟩ := h'
    cases pre with
    | nil =>
      cases pre' with
      | nil => simp at h1 h1'; exact ⟨rfl, by rw [← h1.1, ← h1'.1]⟩
      | cons p ps =>
        simp at h1 h1'
        have := h2' p (by simp)
        rw [← h1'.1, h1.1, h3] at this; cases this
    | cons p ps =>
      cases pre' with
      | nil =>
        simp at h1 h1'
        have := h2 p (by simp)
        rw [← h1.1, h1'.1, h3'] at this; cases this
      | cons p' ps' =>
        simp at h1 h1'
        have := ih ps ps' last last' rest rest' ⟨h1.2, fun x hx => h2 x (by simp [hx]), h3⟩
          ⟨h1'.2, fun x hx => h2' x (by simp [hx]), h3'⟩
        exact ⟨by rw [← h1.1, ← h1'.1, this.1], this.2⟩

/-- the content of a valid complete upload is determined by the requests -/
theorem C14_valid_upload_unique (C : Codec) (F : Flags) (kind : NameKind) (d : Digest) (msgs : List WriteReq)
    (e : StreamEnd) (c c' : Bytes) (h : ValidUpload C F kind d msgs e c) (h' : ValidUpload C F kind d msgs e c') :
    c = c' := by
  cases kind with
  | identity => rw [h.2.2.2.1, h'.2.2.2.1]
  | zstd =>
    obtain ⟨pre, last, rest, hff, _, hc, _⟩ := h
    obtain ⟨pre', last', rest', hff', _, hc', _⟩ := h'
    have := firstFinish_unique msgs pre pre' last last' rest rest' hff hff'
    rw [hc, hc', this.1, this.2]
  | unsupported => exact absurd h (by simp [ValidUpload])
  | unknown => exact absurd h (by simp [ValidUpload])
  | bad => exact absurd h (by simp [ValidUpload])

/-- a valid complete upload of `c` to a healthy backend stores exactly `c` -/
theorem C14_write_stores_valid (C : Codec) (F : Flags) (hW : F.strictW = true) (st : Store) (kind : NameKind)
    (d : Digest) (msgs : List WriteReq) (e : StreamEnd) (wf : WriteFaults) (c : Bytes)
    (hv : ValidUpload C F kind d msgs e c) (hp : wf.put = none) :
    (write C F st kind d msgs e wf).1 = st.put d c ∧
      (wf.send = none → ∃ n, (write C F st kind d msgs e wf).2 = .ok n) := by
  obtain ⟨c', hv', hst, hok⟩ := (C14_write_atomic C F hW st kind d msgs e wf).2.2.2 ⟨c, hv⟩ hp
  rw [C14_valid_upload_unique C F kind d msgs e c c' hv hv']
  exact ⟨hst, hok⟩

/-- D5 in the model: the code as pinned treats the first request's `write_offset` of a
compressed upload as if it were 0. -/
theorem C14_write_legacy_first_offset (C : Codec) (F : Flags) (hW : F.strictW = false) (st : Store)
    (d : Digest) (first : WriteReq) (rest : List WriteReq) (e : StreamEnd) (wf : WriteFaults) :
    write C F st .zstd d (first :: rest) e wf =
      write C { F with strictW := true } st .zstd d ({ first with offset := 0 } :: rest) e wf := by
  simp [write, hW, zValidate]

/-- Whatever `Write` does, objects matching their digests stay that way (repaired server). -/
def StoreValid (C : Codec) (st : Store) : Prop := ∀ d c, st.get d = some c → Valid C d c

theorem C14_write_preserves_valid (C : Codec) (F : Flags) (hW : F.strictW = true) (st : Store)
    (kind : NameKind) (d : Digest) (msgs : List WriteReq) (e : StreamEnd) (wf : WriteFaults)
    (hst : StoreValid C st) : StoreValid C (write C F st kind d msgs e wf).1 := by
  have h := (C14_write_atomic C F hW st kind d msgs e wf).2.1
  rcases h with h | ⟨c, hv, h⟩
  · rw [h]; exact hst
  · rw [h]
    intro d' c' hg
    rw [Store.get_put] at hg
    by_cases hd : d = d'
    · simp [hd] at hg
      subst hd; subst hg
      cases kind with
      | identity => exact hv.2.2.2.2
      | zstd => obtain ⟨_, _, _, _, _, _, hvalid, _⟩ := hv; exact hvalid
      | unsupported => exact absurd hv (by simp [ValidUpload])
      | unknown => exact absurd hv (by simp [ValidUpload])
      | bad => exact absurd hv (by simp [ValidUpload])
    · simp [hd] at hg; exact hst d' c' hg

/-! ## Read -/

/-- **Reads return the exact suffix.**  For a stored object matching its digest, any chunk
size and any offset: inside the object (`0 ≤ off ≤ size`) the response chunks concatenate to
exactly `content[off:]`, each non-empty and at most `cs` long, and the RPC succeeds; outside,
the RPC fails with INVALID_ARGUMENT and nothing is sent.  The repaired compressed path
delivers the compression of the same suffix, or the same error. -/
theorem C14_read_suffix (C : Codec) (F : Flags) (st : Store) (d : Digest) (c : Bytes)
    (hget : st.get d = some c) (hv : Valid C d c) (cs : Nat) (hcs : 0 < cs) (off : Int) :
    ((0 ≤ off ∧ off ≤ (c.length : Int)) →
      let r := read C F st .identity d off 0 cs 0 none
      r.res = none ∧ r.zdata = none ∧ r.sent.flatten = c.drop off.toNat ∧
        ∀ k ∈ r.sent, k.length ≤ cs ∧ k ≠ []) ∧
    (¬ (0 ≤ off ∧ off ≤ (c.length : Int)) →
      read C F st .identity d off 0 cs 0 none = { res := some eOffset }) ∧
    (F.strictR = true →
      ((0 ≤ off ∧ off ≤ (c.length : Int)) →
        read C F st .zstd d off 0 cs 0 none = { zdata := some (C.enc (c.drop off.toNat)) }) ∧
      (¬ (0 ≤ off ∧ off ≤ (c.length : Int)) →
        read C F st .zstd d off 0 cs 0 none = { res := some eOffset })) := by
  have hg : getValidated C st d none = .ok c := (getValidated_ok C st d none c).mpr ⟨rfl, hget, hv⟩
  refine ⟨?_, ?_, ?_⟩
  · intro hin r
    have hok : offsetOk c.length off = true := (offsetOk_iff _ _).mpr hin
    have hr : r = { sent := chunks cs (c.drop off.toNat) } := by
      simp [r, ByteStream.read, hg, hok, sendAll_zero]
    rw [hr]
    exact ⟨rfl, rfl, chunks_flatten cs hcs _, fun k hk => chunks_mem cs hcs _ k hk⟩
  · intro hout
    have hok : offsetOk c.length off = false := by
      cases h : offsetOk c.length off with
      | false => rfl
      | true => exact absurd ((offsetOk_iff _ _).mp h) hout
    simp [ByteStream.read, hg, hok]
  · intro hR
    refine ⟨?_, ?_⟩
    · intro hin
      have hok : offsetOk c.length off = true := (offsetOk_iff _ _).mpr hin
      simp [ByteStream.read, hg, hok, hR, zsend]
    · intro hout
      have hok : offsetOk c.length off = false := by
        cases h : offsetOk c.length off with
        | false => rfl
        | true => exact absurd ((offsetOk_iff _ _).mp h) hout
      simp [ByteStream.read, hg, hok, hR]

/-- **Never bytes from elsewhere.**  For every store (also objects that do not match their
digest), resource name, offset, read limit, backend fault and point at which sending breaks:
whatever the uncompressed path sends is a prefix of `content[off:]` of the stored, matching
object at an offset inside it, cut into non-empty chunks of at most `cs` bytes; in every
other situation nothing at all is sent. -/
theorem C14_read_never_foreign (C : Codec) (F : Flags) (st : Store) (kind : NameKind) (d : Digest)
    (off limit : Int) (cs : Nat) (hcs : 0 < cs) (failAt : Nat) (fault : Option Nat) :
    let r := read C F st kind d off limit cs failAt fault
    r.sent = [] ∨
      ∃ c, st.get d = some c ∧ Valid C d c ∧ 0 ≤ off ∧ off ≤ (c.length : Int) ∧
        r.sent.flatten <+: c.drop off.toNat ∧ ∀ k ∈ r.sent, k.length ≤ cs ∧ k ≠ [] := by
  intro r
  by_cases hl : limit ≠ 0
  · left; simp [r, ByteStream.read, hl]
  · cases kind with
    | bad => left; simp [r, ByteStream.read, hl]
    | unknown => left; simp [r, ByteStream.read, hl]
    | unsupported => left; simp [r, ByteStream.read, hl]
    | zstd =>
      left
      simp only [r, ByteStream.read, hl, if_false]
      cases getValidated C st d fault with
      | error e => rfl
      | ok c =>
        simp only
        cases F.strictR <;> cases offsetOk c.length off <;> simp [zsend] <;> split <;> rfl
    | identity =>
      cases hg : getValidated C st d fault with
      | error e => left; simp [r, ByteStream.read, hl, hg]
      | ok c =>
        have hv := (getValidated_ok C st d fault c).mp hg
        cases hok : offsetOk c.length off with
        | false => left; simp [r, ByteStream.read, hl, hg, hok]
        | true =>
          right
          have hin := (offsetOk_iff _ _).mp hok
          have hr : r = sendAll (chunks cs (c.drop off.toNat)) failAt := by
            simp [r, ByteStream.read, hl, hg, hok]
          refine ⟨c, hv.2.1, hv.2.2, hin.1, hin.2, ?_, ?_⟩
          · rw [hr]
            have := sendAll_sent_prefix (chunks cs (c.drop off.toNat)) failAt
            rwa [chunks_flatten cs hcs] at this
          · intro k hk
            rw [hr] at hk
            exact chunks_mem cs hcs _ k (sendAll_sent_mem _ _ k hk)

/-- **A Read that completes with OK delivered the whole, matching suffix** also when the
backend streams the object and validates it on the fly: for every medium (any cutting into
pieces, any I/O error at any point, any content), offset, chunk size and send failure, if the
RPC returns OK then the medium ended cleanly, what it delivered matches the digest, the offset
lies inside the object, and the client was sent exactly `content[off:]` (identity: in non-empty
chunks of at most `cs` bytes; repaired compressed path: its compression).  A failing medium or
an object that does not match its digest therefore always ends in an error. -/
theorem C14_read_stream_ok_complete (C : Codec) (F : Flags) (hR : F.strictR = true) (s : Source)
    (kind : NameKind) (d : Digest) (off limit : Int) (cs : Nat) (hcs : 0 < cs) (failAt : Nat) :
    let r := readS C F (.ok s) kind d off limit cs failAt
    r.res = none →
      s.term = none ∧ Valid C d s.pieces.flatten ∧ 0 ≤ off ∧ off ≤ (d.size : Int) ∧
      (kind = .identity → r.zdata = none ∧ r.sent.flatten = s.pieces.flatten.drop off.toNat ∧
        ∀ k ∈ r.sent, k.length ≤ cs ∧ k ≠ []) ∧
      (kind = .zstd → r.zdata = some (C.enc (s.pieces.flatten.drop off.toNat))) := by
  intro r hres
  by_cases hl : limit ≠ 0
  · simp [r, readS, hl] at hres
  · cases kind with
    | bad => simp [r, readS, hl] at hres
    | unknown => simp [r, readS, hl] at hres
    | unsupported => simp [r, readS, hl] at hres
    | identity =>
      cases hok : offsetOk d.size off with
      | false => simp [r, readS, hl, hok] at hres
      | true =>
        have hin := (offsetOk_iff _ _).mp hok
        have hr : r = sendAllThen (normalize cs (skipBytes off.toNat (vstart C d 13 s).1)) failAt (vstart C d 13 s).2 := by
          simp [r, readS, hl, hok]
        by_cases hf : failAt = 0 ∨ (normalize cs (skipBytes off.toNat (vstart C d 13 s).1)).length < failAt
        · have hr2 : r = { sent := normalize cs (skipBytes off.toNat (vstart C d 13 s).1), res := (vstart C d 13 s).2 } := by
            rw [hr]; unfold sendAllThen; simp only [hf, if_true]
          rw [hr2] at hres
          have hres' : (vstart C d 13 s).2 = none := hres
          have hv := vstart_ok C d 13 s (vstart C d 13 s).1 (by rw [← hres'])
          refine ⟨hv.1, hv.2.2, hin.1, hin.2, ?_, fun h => by cases h⟩
          intro _
          rw [hr2]
          refine ⟨rfl, ?_, fun k hk => normalize_mem cs hcs _ k hk⟩
          show (normalize cs (skipBytes off.toNat (vstart C d 13 s).1)).flatten = _
          rw [normalize_flatten cs hcs, skipBytes_flatten, hv.2.1]
        · have hr2 : r.res = some (eInjected 14) := by
            rw [hr]; unfold sendAllThen; simp only [hf, if_false]
          rw [hr2] at hres; cases hres
    | zstd =>
      cases hok : offsetOk d.size off with
      | false => simp [r, readS, hl, hok, hR] at hres
      | true =>
        have hin := (offsetOk_iff _ _).mp hok
        by_cases hc : normalize cs (skipBytes off.toNat (vstart C d 13 s).1) = [] ∧ (vstart C d 13 s).2 ≠ none
        · have hr2 : r = { res := (vstart C d 13 s).2 } := by
            simp [r, readS, hl, hok, hR, hc]
          rw [hr2] at hres
          exact absurd hres hc.2
        · have hr2 : r = zsend C (normalize cs (skipBytes off.toNat (vstart C d 13 s).1)).flatten failAt (vstart C d 13 s).2 := by
            simp only [r, readS, hl, hok, hR]
            simp [hc]
          rw [hr2] at hres
          unfold zsend at hres hr2
          by_cases hz : failAt = 0
          · simp only [hz, if_true] at hres hr2
            have hres' : (vstart C d 13 s).2 = none := hres
            have hv := vstart_ok C d 13 s (vstart C d 13 s).1 (by rw [← hres'])
            refine ⟨hv.1, hv.2.2, hin.1, hin.2, (fun h => by cases h), fun _ => ?_⟩
            rw [hr2]
            show some (C.enc (normalize cs (skipBytes off.toNat (vstart C d 13 s).1)).flatten) = _
            rw [normalize_flatten cs hcs, skipBytes_flatten, hv.2.1]
          · simp only [hz, if_false] at hres
            cases hv2 : (vstart C d 13 s).2 with
            | none => rw [hv2] at hres; cases hres
            | some e => rw [hv2] at hres; cases hres

/-- D6 in the model: the code as pinned ignores `read_offset` on the compressed path. -/
theorem C14_read_legacy_ignores_offset (C : Codec) (F : Flags) (hR : F.strictR = false) (st : Store)
    (d : Digest) (off : Int) (cs failAt : Nat) (fault : Option Nat) :
    read C F st .zstd d off 0 cs failAt fault = read C F st .zstd d 0 0 cs failAt fault := by
  simp [ByteStream.read, hR]

/-! ## Batch calls -/

/-- **BatchUpdateBlobs validates per object.**  One status per request entry; whatever the
backend holds afterwards was there before or is the data of a well-formed entry matching its
digest (any backend faults); with a healthy backend the status of an entry is OK exactly when
it is well formed and its data matches (`entryStatus_none_iff`), and the backend afterwards is
the one before plus exactly those entries; a call that fails as a whole stores nothing. -/
theorem C14_batch_update_validates (C : Codec) (st : Store) (callErr : Option Err) (us : List UpdEntry)
    (fault : Option (Nat × Bool)) :
    let r := batchUpdate C st callErr us fault
    (∀ d c, r.1.get d = some c → st.get d = some c ∨ ∃ u ∈ us, GoodEntry C u ∧ u.d = d ∧ u.data = c) ∧
    (∀ sts, r.2 = .ok sts → sts.length = us.length) ∧
    (∀ er, r.2 = .error er → r.1 = st) ∧
    (fault = none → ∀ sts, r.2 = .ok sts →
      sts = us.map (entryStatus C) ∧
      (∀ i (h : i < us.length), sts[i]? = some none ↔ GoodEntry C us[i]) ∧
      r.1 = (us.filter fun u => decide (GoodEntry C u)).foldl (fun s u => s.put u.d u.data) st) := by
  intro r
  by_cases hnil : us = []
  · subst hnil
    have hr : r = (st, .ok []) := by simp [r, batchUpdate]
    rw [hr]
    refine ⟨fun d c h => Or.inl h, ?_, ?_, ?_⟩
    · intro sts h; cases h; rfl
    · intro er h; cases h
    · intro _ sts h; cases h; simp
  · cases callErr with
    | some e =>
      have hr : r = (st, .error e) := by simp [r, batchUpdate, hnil]
      rw [hr]
      refine ⟨fun d c h => Or.inl h, ?_, ?_, ?_⟩
      · intro sts h; cases h
      · intro er _; rfl
      · intro _ sts h; cases h
    | none =>
      have hr : r = ((updLoop C fault st us).1, .ok (updLoop C fault st us).2) := by
        simp [r, batchUpdate, hnil]
      rw [hr]
      refine ⟨updLoop_get C fault us st, ?_, ?_, ?_⟩
      · intro sts h; cases h; exact updLoop_length C fault us st
      · intro er h; cases h
      · intro hf sts h
        subst hf
        cases h
        refine ⟨updLoop_statuses C us st, ?_, updLoop_store C us st⟩
        intro i hi
        rw [updLoop_statuses, List.getElem?_map, List.getElem?_eq_getElem hi]
        simp [entryStatus_none_iff]

/-- **BatchReadBlobs validates per object.**  One response per requested digest; data is
delivered for an entry only if it is what the backend stores for that digest and matches it;
the call is served only if every digest is well formed and the sizes add up to at most the
configured maximum. -/
theorem C14_batch_read_validates (C : Codec) (st : Store) (callErr : Option Err) (rs : List RdEntry)
    (maxBytes : Int) (hmax : 0 ≤ maxBytes) (fault : Option Nat) (es : List (Except Err Bytes))
    (h : batchRead C st callErr rs maxBytes fault = .ok es) :
    es.length = rs.length ∧
    (∀ i (hi : i < rs.length) data, es[i]? = some (.ok data) →
      st.get rs[i].d = some data ∧ Valid C rs[i].d data) ∧
    (∀ r ∈ rs, r.bad = false) ∧ (rs.map fun r => (r.d.size : Int)).sum ≤ maxBytes := by
  unfold batchRead at h
  by_cases hnil : rs = []
  · subst hnil
    simp at h
    subst h
    simp [hmax]
  · simp only [hnil, if_false] at h
    cases callErr with
    | some e => cases h
    | none =>
      simp only at h
      cases hadm : readAdmit maxBytes rs with
      | some e => rw [hadm] at h; cases h
      | none =>
        rw [hadm] at h
        simp only at h
        cases h
        have hadm' := readAdmit_none rs maxBytes hmax hadm
        refine ⟨by simp, ?_, hadm'.1, hadm'.2⟩
        intro i hi data hd
        rw [List.getElem?_map, List.getElem?_eq_getElem hi] at hd
        simp only [Option.map_some, Option.some.injEq] at hd
        have := (getValidated_ok C st rs[i].d fault data).mp hd
        exact ⟨this.2.1, this.2.2⟩

/-- **FindMissingBlobs passes the backend's answer through.**  A well-formed non-empty request
yields exactly what the backend's `FindMissing` reports for the set of requested digests
(each asked once), be it a list or an error; in front of a store the answer is exactly the
requested digests the store lacks. -/
theorem C14_find_missing_passthrough (backend : List Digest → Except Err (List Digest)) (st : Store)
    (rs : List RdEntry) (hne : rs ≠ []) (hgood : ∀ r ∈ rs, r.bad = false) :
    findMissing backend none rs = backend (dedup (rs.map (·.d))) ∧
    (dedup (rs.map (·.d))).Nodup ∧
    (∀ d, d ∈ dedup (rs.map (·.d)) ↔ ∃ r ∈ rs, r.d = d) ∧
    (∀ ds, findMissing (storeMissing st none) none rs = .ok ds →
      ∀ d, d ∈ ds ↔ (∃ r ∈ rs, r.d = d) ∧ st.get d = none) := by
  refine ⟨findMissing_passthrough backend rs hne hgood, nodup_dedup _, ?_, ?_⟩
  · intro d; rw [mem_dedup]; simp
  · intro ds h d
    rw [findMissing_passthrough _ rs hne hgood] at h
    simp only [storeMissing, Except.ok.injEq] at h
    rw [← h, List.mem_filter, mem_dedup]
    simp

/-! ## Client and server back to back -/

/-- **Client and server back to back behave like the backend.**  For every chunk size and
every cutting of the compressed stream into messages: the server applied to the messages the
client generates for `Put` stores exactly the data and acknowledges; the client applied to
what the server sends for `Get` yields exactly what the backend's `Get` yields (the matching
object or that error); `FindMissing` through client and server is the backend's `FindMissing`
of the set of digests. -/
theorem C14_client_server_roundtrip (C : Codec) (F : Flags) (st : Store) (d : Digest) (data : Bytes)
    (cs : Nat) (hcs : 0 < cs) (hv : Valid C d data)
    (hcodec : ∀ x, C.dec (C.enc x) = (x, .clean)) :
    write C F st .identity d (clientPutMsgs cs data) .eof {} = (st.put d data, .ok d.size) ∧
    (∀ pieces : List Bytes, pieces.flatten = C.enc data →
      write C F st .zstd d (clientPutMsgsZ pieces) .eof {} = (st.put d data, .ok (C.enc data).length)) ∧
    (∀ fault, clientGet C F cs d (read C F st .identity d 0 0 cs 0 fault) = getValidated C st d fault) ∧
    (F.clientEOF = false →
      ∀ fault, clientGet C F cs d (read C F st .zstd d 0 0 cs 0 fault) = getValidated C st d fault) ∧
    clientGet C F cs d (read C F (st.put d data) .identity d 0 0 cs 0 none) = .ok data ∧
    (∀ (backend : List Digest → Except Err (List Digest)) ds, ds ≠ [] →
      clientFindMissing backend ds = backend (dedup ds)) := by
  refine ⟨client_put_identity C F st d data cs hcs hv,
    fun pieces hp => client_put_zstd C F st d data pieces hp (hcodec data) hv,
    client_get_identity C F st d cs hcs,
    fun hF => client_get_zstd C F hF st d cs hcodec, ?_,
    fun backend ds hne => clientFindMissing_passthrough backend ds hne⟩
  rw [client_get_identity C F _ d cs hcs]
  exact (getValidated_ok C _ d none data).mpr ⟨rfl, by simp [Store.get_put], hv⟩

theorem clientFindMissing_store (st : Store) (g : List Digest) :
    clientFindMissing (storeMissing st none) g = .ok ((dedup g).filter fun d => (st.get d).isNone) := by
  by_cases hg : g = []
  · subst hg; simp [clientFindMissing, findMissing, dedup]
  · rw [clientFindMissing_passthrough _ g hg]; rfl

/-- **FindMissing through client and server for any set**, also one that spans several digest
functions and instance names (`groups` = the partitions the client has to split it into): the
answer is exactly the requested digests the backend lacks; and a backend failure fails the
call. -/
theorem C14_client_find_missing_partitions (st : Store) (groups : List (List Digest)) :
    ∃ ms, clientFindMissingP (storeMissing st none) groups = .ok ms ∧
      ∀ d, d ∈ ms ↔ (∃ g ∈ groups, d ∈ g) ∧ st.get d = none := by
  induction groups with
  | nil => exact ⟨[], rfl, by simp⟩
  | cons g gs ih =>
    obtain ⟨ms, hms, hmem⟩ := ih
    refine ⟨((dedup g).filter fun d => (st.get d).isNone) ++ ms, ?_, ?_⟩
    · simp [clientFindMissingP, clientFindMissing_store, hms]
    · intro d
      rw [List.mem_append, List.mem_filter, mem_dedup, hmem]
      constructor
      · rintro (⟨h1, h2⟩ | ⟨⟨g', hg', hd⟩, h2⟩)
        · exact ⟨⟨g, by simp, h1⟩, by simpa using h2⟩
        · exact ⟨⟨g', by simp [hg'], hd⟩, h2⟩
      · rintro ⟨⟨g', hg', hd⟩, h2⟩
        cases hg' with
        | head => left; exact ⟨hd, by simp [h2]⟩
        | tail _ hg'' => right; exact ⟨⟨g', hg'', hd⟩, h2⟩

/-- The client never hands out content that does not match the digest, whatever a server sends. -/
theorem C14_client_get_validates (C : Codec) (F : Flags) (cs : Nat) (d : Digest) (r : ReadOut) (c : Bytes)
    (h : clientGet C F cs d r = .ok c) : Valid C d c := by
  unfold clientGet at h
  cases hz : r.zdata with
  | none =>
    rw [hz] at h
    have := (cvLoop_ok_iff C d 13 r.sent [] r.res c (Nat.zero_le _)).mp h
    exact ⟨this.2.2.1, this.2.2.2⟩
  | some z =>
    rw [hz] at h
    have := (cvLoop_ok_iff C d 13 _ [] _ c (Nat.zero_le _)).mp h
    exact ⟨this.2.2.1, this.2.2.2⟩

/-! ## ActionCache -/

/-- Update stores the message under the action digest as is; Get returns what is stored, if
it parses and fits the maximum message size; neither touches anything else. -/
theorem C14_ac_roundtrip (parses : Bytes → Bool) (st : Store) (d : Digest) (m : Bytes) (maxBytes : Nat)
    (hp : parses m = true) (hm : m.length ≤ maxBytes) :
    acUpdate st none d m none = (st.put d m, none) ∧
    acGet parses (st.put d m) none d maxBytes none = .ok m ∧
    (∀ e fault, acUpdate st (some e) d m fault = (st, some e)) ∧
    (∀ d', d' ≠ d → acGet parses (st.put d m) none d' maxBytes none = acGet parses st none d' maxBytes none) := by
  refine ⟨rfl, ?_, fun e fault => rfl, ?_⟩
  · have : ¬ (maxBytes < m.length) := by omega
    simp [acGet, Store.get_put, hp, this]
  · intro d' hd
    have : ¬ d = d' := fun h => hd h.symm
    simp [acGet, Store.get_put, this]

/-! ## The hypotheses are satisfiable; the pinned code differs (D5, D6, D10) -/

/-- a toy instance: checksum = sum of the bytes, "compression" = prefixing a 9 -/
def C0 : Codec where
  H := fun b => [b.foldl (· + ·) 0]
  dec := fun x => match x with | 9 :: r => (r, .clean) | _ => ([], .corrupt)
  enc := fun x => 9 :: x

def d0 : Digest := ⟨[6], 3⟩
def repaired : Flags := { strictW := true, strictR := true, clientEOF := false }
def pinned : Flags := {}

/-- a valid identity upload in two requests is stored and acknowledged -/
example : write C0 repaired [] .identity d0 [⟨0, [1, 2], false⟩, ⟨2, [3], true⟩] .eof {} = ([(d0, [1, 2, 3])], .ok 3) := by
  rfl

example : ValidUpload C0 repaired .identity d0 [⟨0, [1, 2], false⟩, ⟨2, [3], true⟩] .eof [1, 2, 3] := by
  simp [ValidUpload, Complete, Contig, concatData, Valid, C0, d0]

/-- a gap is rejected, nothing is stored -/
example : write C0 repaired [] .identity d0 [⟨0, [1, 2], false⟩, ⟨3, [3], true⟩] .eof {} = ([], .error eOffset) := by
  rfl

/-- a valid compressed upload -/
example : write C0 repaired [] .zstd d0 [⟨0, [9, 1], false⟩, ⟨2, [2, 3], true⟩] .eof {} = ([(d0, [1, 2, 3])], .ok 4) := by
  rfl

/-- D5: the code as pinned stores a compressed upload whose first request is at offset 7; repaired, it is rejected -/
theorem legacy_write_counterexample :
    write C0 pinned [] .zstd d0 [⟨7, [9, 1, 2, 3], true⟩] .eof {} = ([(d0, [1, 2, 3])], .ok 4) ∧
    write C0 repaired [] .zstd d0 [⟨7, [9, 1, 2, 3], true⟩] .eof {} = ([], .error eOffset) := by
  exact ⟨rfl, rfl⟩

/-- D6: the code as pinned answers a compressed read at offset 2 with the whole object -/
theorem legacy_read_counterexample :
    read C0 pinned [(d0, [1, 2, 3])] .zstd d0 2 0 16 0 none = { zdata := some [9, 1, 2, 3] } ∧
    read C0 repaired [(d0, [1, 2, 3])] .zstd d0 2 0 16 0 none = { zdata := some [9, 3] } ∧
    read C0 repaired [(d0, [1, 2, 3])] .identity d0 2 0 16 0 none = { sent := [[3]] } := by
  exact ⟨rfl, rfl, rfl⟩

/-- D10: with the defect the compressed client Get of an intact 3-byte object with chunk size 2 fails -/
theorem legacy_client_get_counterexample :
    clientGet C0 { pinned with clientEOF := true } 2 d0 (read C0 pinned [(d0, [1, 2, 3])] .zstd d0 0 0 2 0 none)
      = .error (eSize 13) ∧
    clientGet C0 repaired 2 d0 (read C0 repaired [(d0, [1, 2, 3])] .zstd d0 0 0 2 0 none) = .ok [1, 2, 3] := by
  exact ⟨rfl, rfl⟩

/-- streaming backend: a healthy medium is served completely; a medium failing after 2 of 3
bytes ends in that error after a prefix (identity) resp. a compressed prefix (zstd), never OK -/
example :
    readS C0 repaired (.ok ⟨[[1, 2], [3]], none⟩) .identity d0 1 0 16 0 = { sent := [[2], [3]] } ∧
    readS C0 repaired (.ok ⟨[[1, 2]], some (eInjected 14)⟩) .identity d0 0 0 16 0
      = { sent := [[1, 2]], res := some (eInjected 14) } ∧
    readS C0 repaired (.ok ⟨[[1, 2]], some (eInjected 14)⟩) .zstd d0 0 0 16 0
      = { zdata := some [9, 1, 2], res := some (eInjected 14) } ∧
    readS C0 repaired (.ok ⟨[[1, 2], [4]], none⟩) .zstd d0 0 0 16 0
      = { zdata := some [9, 1, 2], res := some (eHash 13) } := by
  exact ⟨rfl, rfl, rfl, rfl⟩

/-- the roundtrip theorem's hypotheses hold for the toy codec -/
example : (∀ x, C0.dec (C0.enc x) = (x, .clean)) ∧ Valid C0 d0 [1, 2, 3] := by
  refine ⟨fun x => rfl, by decide⟩

example : C14.StoreValid C0 [(d0, [1, 2, 3])] := by
  intro d c h
  simp only [Store.get] at h
  by_cases hd : d0 = d
  · simp [hd] at h; subst hd; subst h; decide
  · simp [hd] at h

end BB.C14
