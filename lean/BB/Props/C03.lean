import BB.Proofs.PersistRetry
import BB.Proofs.PersistLayout
/-!
# C03 - Acknowledged uploads survive graceful shutdown and committed epochs

Same model as C02 (`BB.Persist`): histories are sequences of `Step`s - lock regions of uploads and
refreshes, block rotations, every lock region and I/O operation of both `PeriodicSyncer` goroutines,
crashes - and `Reach c w` says that `w` is the world after some history from a freshly formatted
medium.  `w.g1` is the program counter of `ProcessBlockPut`; `g1Completed true` is the lock region
in which it learns of the shutdown after its first sync (`NotifySyncCompleted` followed by
`NotifySyncStarting(true)` without releasing the lock), `G1.finished` means it returned `false`.

A graceful restart and a *process* crash are `crashRestart` with every index record write kept (the
operating system has them: `List.replicate _ true`); the unsynced data writes and the choice among
the state files not yet made durable stay arbitrary.  Assumptions as in C02 (A1-A4); A2 is used
only through `o.durable`, A4 only through `filesOf`.
-/
namespace BB.C03
open BB.Persist

/-- **Refused, not lost.** From the `NotifySyncStarting(true)` of the final iteration on the list is
closed for writing: `PushBack` fails, `Put` hands out a writer that only discards, every finalizer
reports UNAVAILABLE (so no upload is acknowledged and no index record is written), and the flag is
only reset by a restart. -/
theorem C03_refused_not_lost {c : Cfg} (hss : 0 < c.ss) {w : World} (hr : Reach c w) (hg : Closing w.g1) :
    w.pbl.closed = true ∧ w.pushBack = none ∧ (∀ i size key upload, w.reserve i size key upload = .closed) ∧
    (∀ id, w.finalize id = .unavailable ∨ w.finalize id = .bad) ∧
    (∀ w', Step w w' → w'.pbl.closed = true ∨ ∃ kd ki pick lo, w' = w.crashRestart kd ki pick lo) := by
  have hc := (shutInv_reach hss hr).closed hg
  exact ⟨hc, closed_pushBack hc, closed_reserve hc, closed_finalize hc,
    fun w' hs => closed_step (inv_reach hss hr) hs hc⟩

/-- The same for the composite the driver executes (block map + hash index over the world): no
allocation succeeds, and `finalizePut` answers UNAVAILABLE leaving everything as it was. -/
theorem C03_refused_not_lost_store {fc : FCfg} {c : Cfg} (hss : 0 < c.ss) {f : Full} (hr : FReach fc c f)
    (hg : Closing f.w.g1) :
    (∀ size key upload id abs off f', Full.allocate fc f size key upload ≠ .ok id abs off f') ∧
    (∀ id r f', Full.finalizePut fc f id = some (r, f') → r = "err unavailable" ∧ f' = f) := by
  have hc := (shutInv_reach hss (freach_world hss hr)).closed hg
  exact ⟨fun size key upload id abs off f' => allocate_closed hc size key upload id abs off f',
    fun id r f' hp => finalizePut_closed hc hp⟩

/-- **The restart layout admits the restored blocks.** For both generated growth policies: if the
restored blocks fit the configured old + current + new counts, `NewOldCurrentNewLocationBlobMap`
(the two promotion loops, then the release computation) schedules nothing for release, puts every
restored block in exactly one group and leaves at most `desiredOld` of them "old". -/
theorem C03_restart_layout_admits {fc : FCfg} (hc : BB.BlockMap.CfgOK fc.bm) (f : Full) (keepData keepIdx : List Bool)
    (pick : Nat) (lo : Bool)
    (hfit : (f.w.crashRestart keepData keepIdx pick lo).pbl.blocks.length ≤ BB.BlockMap.capacity fc.bm) :
    (Full.crashRestart fc f keepData keepIdx pick lo).bm.toBeReleased = 0 ∧
    (Full.crashRestart fc f keepData keepIdx pick lo).bm.released = 0 ∧
    (Full.crashRestart fc f keepData keepIdx pick lo).bm.total = (f.w.crashRestart keepData keepIdx pick lo).pbl.blocks.length ∧
    (Full.crashRestart fc f keepData keepIdx pick lo).bm.old ≤ fc.bm.desiredOld := by
  have h := BB.BlockMap.init_admits hc
    ((f.w.crashRestart keepData keepIdx pick lo).pbl.blocks.map fun b => (f.w.crashRestart keepData keepIdx pick lo).cfg.bs - b.cursor)
    (f.w.crashRestart keepData keepIdx pick lo).free.length (by simpa using hfit)
  obtain ⟨h1, h2, h3, _, h5⟩ := h
  simp only [List.length_map] at h2
  exact ⟨h1, h5, h2, h3⟩

/-- What a restart of a *sealed* world serves: every record that resolved still resolves, to the
block of the same generation in the same device slot, and is read back as an intact object written
under the record's key with content a client offered for that key. -/
theorem sealed_restart_serves {c : Cfg} (hss : 0 < c.ss) {w : World} (hr : Reach c w) (hs : Sealed w)
    (keepData : List Bool) (pick : Nat) (lo : Bool) {slot i : Nat} {r : PRec}
    (hcur : w.idx.curGet slot = some r) (hres : w.resolve r = some i) :
    ∃ w', w' = w.crashRestart keepData (List.replicate w.idx.pend.length true) pick lo ∧ Reach c w' ∧
      w'.idx.curGet slot = some r ∧
      ∃ k b b' o, w'.resolve r = some (i + k) ∧ w.pbl.blocks[i]? = some b ∧ w'.pbl.blocks[i + k]? = some b' ∧
        b'.gid = b.gid ∧ b'.slot = b.slot ∧ w'.readAt b'.slot r.off r.size = some o ∧
        o.key = r.key ∧ o.off = r.off ∧ o.size = r.size ∧ (r.key, o.data) ∈ w'.shadow := by
  have hr' : Reach c (w.crashRestart keepData (List.replicate w.idx.pend.length true) pick lo) :=
    Reach.step hr (Step.crashRestart _ _ _ _)
  obtain ⟨h1, k, b, b', h2, h3, h4, h5, h6⟩ := restart_of_sealed (inv_reach hss hr) hs keepData pick lo hcur hres
  obtain ⟨b2, o, g1, g2, _, g3, g4, g5, _, g6, _⟩ := served_of_inv (inv_reach hss hr') h1 h2
  rw [h4] at g1
  simp only [Option.some.injEq] at g1
  subst g1
  exact ⟨_, rfl, hr', h1, k, b, b', o, h2, h3, h4, h5, h6, g2, g3, g4, g5, g6⟩

/-- **Shutdown covers acknowledgements.** When `ProcessBlockPut` has returned `false` - after any
history, with the shutdown arriving at any point relative to uploads in flight and to the steps of
both syncer goroutines - the list is closed for writing, a state file is durable, and *every* state
file a restart may read (the durable one, or one `ProcessBlockRelease` renamed since) lists, for
every object whose finalizer succeeded (= whose upload was acknowledged) and whose block was not
rotated out, that block with the object's epoch and a write offset beyond the object's end; the
object's sectors are durable (they were written before a data sync that completed was entered). -/
theorem C03_shutdown_covers_acks {c : Cfg} (hss : 0 < c.ss) {w : World} (hr : Reach c w) (hfin : w.g1 = .finished) :
    w.pbl.closed = true ∧ w.dir.state.isSome = true ∧
    ∀ f ∈ filesOf w.dir, ∀ o ∈ w.objs, ∀ (e i : Nat) (b : Blk), o.fin = some e → w.pbl.blocks[i]? = some b → b.gid = o.gid →
      ∃ (j : Nat) (bs : BState), f.blocks[j]? = some bs ∧ bs.gid = o.gid ∧ e < f.oldest + (fseeds f.blocks).length ∧
        o.off + o.size ≤ bs.wo ∧ o.durable = true := by
  have hs := shutInv_reach hss hr
  have hsl := hs.done hfin
  refine ⟨hs.closed (Or.inr (Or.inr (Or.inr (Or.inr hfin)))), hsl.state, ?_⟩
  intro f hf o ho e i b hfe hb hg
  exact sealed_covers (inv_reach hss hr) hsl hf ho hfe hb hg

/-- ... and the restart serves them: after `ProcessBlockPut` returned `false`, a restart - whatever
subset of the unsynced data writes the medium kept, whichever of the candidate state files it
finds - resolves every index record the store resolved before, to the same block, and reads back an
intact object of the record's key with bytes a client uploaded for that key. -/
theorem C03_shutdown_restart_serves {c : Cfg} (hss : 0 < c.ss) {w : World} (hr : Reach c w) (hfin : w.g1 = .finished)
    (keepData : List Bool) (pick : Nat) (lo : Bool) {slot i : Nat} {r : PRec}
    (hcur : w.idx.curGet slot = some r) (hres : w.resolve r = some i) :
    ∃ w', w' = w.crashRestart keepData (List.replicate w.idx.pend.length true) pick lo ∧ Reach c w' ∧
      w'.idx.curGet slot = some r ∧
      ∃ k b b' o, w'.resolve r = some (i + k) ∧ w.pbl.blocks[i]? = some b ∧ w'.pbl.blocks[i + k]? = some b' ∧
        b'.gid = b.gid ∧ b'.slot = b.slot ∧ w'.readAt b'.slot r.off r.size = some o ∧
        o.key = r.key ∧ o.off = r.off ∧ o.size = r.size ∧ (r.key, o.data) ∈ w'.shadow :=
  sealed_restart_serves hss hr ((shutInv_reach hss hr).done hfin) keepData pick lo hcur hres

/-- **A commit is durable.** Take any reachable world `w0` in which `ProcessBlockPut` is waiting
(`idle`), let it run one full iteration - `NotifySyncStarting`, data sync, `NotifySyncCompleted`,
`GetPersistentState`, the state file written, fsynced, renamed, the directory fsynced,
`NotifyPersistentStateWritten` (`swDone`) - interleaved with *any* other steps (block rotation,
writers copying, `ProcessBlockRelease` writing state files, failing syncs and directory operations
with their retries) except a successful finalizer (no upload or refresh is acknowledged) and a
crash, and continue likewise.  Then a process crash and restart - the medium keeps the index
records; any subset of unsynced data writes; any candidate state file - resolves every index
record the store resolved at the moment of the crash to the same block and serves an intact object
of the record's key with bytes a client uploaded for that key. -/
theorem C03_commit_durable {c : Cfg} (hss : 0 < c.ss) {w0 wa wb w : World} (hr : Reach c w0) (h0 : w0.g1 = .idle)
    (hc1 : CalmSteps w0 wa) {s : Sw} (hsw : wa.sw = some s) (hown : s.owner = 1) (hd : wa.swDone = some wb)
    (hc2 : CalmSteps wb w) (keepData : List Bool) (pick : Nat) (lo : Bool) {slot i : Nat} {r : PRec}
    (hcur : w.idx.curGet slot = some r) (hres : w.resolve r = some i) :
    ∃ w', w' = w.crashRestart keepData (List.replicate w.idx.pend.length true) pick lo ∧ Reach c w' ∧
      w'.idx.curGet slot = some r ∧
      ∃ k b b' o, w'.resolve r = some (i + k) ∧ w.pbl.blocks[i]? = some b ∧ w'.pbl.blocks[i + k]? = some b' ∧
        b'.gid = b.gid ∧ b'.slot = b.slot ∧ w'.readAt b'.slot r.off r.size = some o ∧
        o.key = r.key ∧ o.off = r.off ∧ o.size = r.size ∧ (r.key, o.data) ∈ w'.shadow := by
  have hsl := commit_sealed hss hr h0 hc1 hsw hown hd hc2
  have hrw : Reach c w := calm_reach (Reach.step (calm_reach hr hc1) (Step.swDone hd)) hc2
  exact sealed_restart_serves hss hrw hsl keepData pick lo hcur hres

/-- The state-file half of `C03_commit_durable`: after such a commit every state file a restart may
read covers every finalized object whose block is still in the list. -/
theorem C03_commit_covers {c : Cfg} (hss : 0 < c.ss) {w0 wa wb w : World} (hr : Reach c w0) (h0 : w0.g1 = .idle)
    (hc1 : CalmSteps w0 wa) {s : Sw} (hsw : wa.sw = some s) (hown : s.owner = 1) (hd : wa.swDone = some wb)
    (hc2 : CalmSteps wb w) :
    w.dir.state.isSome = true ∧
    ∀ f ∈ filesOf w.dir, ∀ o ∈ w.objs, ∀ (e i : Nat) (b : Blk), o.fin = some e → w.pbl.blocks[i]? = some b → b.gid = o.gid →
      ∃ (j : Nat) (bs : BState), f.blocks[j]? = some bs ∧ bs.gid = o.gid ∧ e < f.oldest + (fseeds f.blocks).length ∧
        o.off + o.size ≤ bs.wo ∧ o.durable = true := by
  have hsl := commit_sealed hss hr h0 hc1 hsw hown hd hc2
  have hrw : Reach c w := calm_reach (Reach.step (calm_reach hr hc1) (Step.swDone hd)) hc2
  refine ⟨hsl.state, ?_⟩
  intro f hf o ho e i b hfe hb hg
  exact sealed_covers (inv_reach hss hrw) hsl hf ho hfe hb hg

/-- **The final data sync is retried until it succeeds.** If the final `dataSyncer()` call of a
shutdown fails, `ProcessBlockPut` stays in its final iteration (the list stays closed for writing),
calls neither `NotifySyncCompleted` nor `GetPersistentState`, and can only call `dataSyncer()`
again: `G1.finished` - and with it the state file of `C03_shutdown_covers_acks` - is reached only
through a final data sync that returned nil. -/
theorem C03_final_sync_retried {c : Cfg} (hss : 0 < c.ss) {w w' : World} (hr : Reach c w) (hg : w.g1 = .syncing true)
    (hf : w.syncFail = some w') :
    w'.g1 = .started true ∧ w'.pbl.closed = true ∧ w'.pbl = w.pbl ∧ (∀ sd, w'.g1Completed sd = none) ∧
    w'.swBegin 1 = none ∧ ∃ w'', w'.syncBegin = some w'' ∧ w''.g1 = .syncing true := by
  obtain ⟨f, a1, a2, a3, _, _, a6, _, _, a9, a10⟩ := syncFail_retries hf
  rw [hg] at a1
  cases a1
  have hr' : Reach c w' := Reach.step hr (Step.syncFail hf)
  have hc := (shutInv_reach hss hr').closed (by rw [a2]; exact Or.inl rfl)
  exact ⟨a2, hc, a3, a6, a9, a10⟩

/-- **A restart reads exactly the last durable state write, whatever its size.** When
`WritePersistentState` has returned (stage 6: written, fsynced, renamed, directory fsynced), what
`ReadPersistentState` yields after a crash - any choice among the candidates, with or without a
stale `state.new` - is the state that was handed to that call: all blocks, all epoch hash seeds (the
model's files are unbounded lists).  The correspondence run checks the real
`DirectoryBackedPersistentStateStore` against this line with states from a few bytes to several
hundred KiB (`psx.StateRoundTrip`). -/
theorem C03_state_read_is_last_write {c : Cfg} (hss : 0 < c.ss) {w : World} (hr : Reach c w) {s : Sw} (hsw : w.sw = some s)
    (h6 : s.stage = 6) (pick : Nat) (lo : Bool) : World.readState (w.dir.crash pick lo) = s.file := by
  obtain ⟨_, _, _, _, a6, _, _⟩ := (inv_reach hss hr).sw.stage s hsw
  obtain ⟨hst, hren⟩ := a6 h6
  simp only [World.readState, StateDir.crash, StateDir.candidates, hst, hren, List.map_nil]
  cases pick <;> simp

/-! ## The hypotheses are satisfiable: a concrete history

4-byte sectors, 8-byte blocks, 3 blocks.  One upload (5 bytes, key 7, content token 100) with its
index record; one full commit (`u5` ... `u17`); then a graceful shutdown: first sync, the lock region
that learns of the shutdown (`g1Completed true`), second sync, final state write (`v1` ... `v15`). -/
namespace Example

def c : Cfg := ⟨4, 8, 3⟩
def u0 : World := World.fresh c
def u1 : World := (u0.pushBack).getD u0
def u2 : World := match u1.reserve 0 5 7 true with | .ok _ w => w | _ => u1
def u3 : World := (u2.copy 0 100).getD u2
def u4 : World := match u3.finalize 0 with | .ok w => w | _ => u3
def u5 : World := (u4.recWrite 2 7 0 0 0 5).getD u4
def u6 : World := (u5.g1Start).getD u5
def u7 : World := (u6.syncBegin).getD u6
def u8 : World := (u7.syncEnd).getD u7
def u9 : World := (u8.g1Completed false).getD u8
def u10 : World := (u9.swBegin 1).getD u9
def u11 : World := (u10.swStep).getD u10
def u12 : World := (u11.swStep).getD u11
def u13 : World := (u12.swStep).getD u12
def u14 : World := (u13.swStep).getD u13
def u15 : World := (u14.swStep).getD u14
def u16 : World := (u15.swStep).getD u15
def u17 : World := (u16.swDone).getD u16
def v1 : World := (u17.g1Start).getD u17
def v2 : World := (v1.syncBegin).getD v1
def v3 : World := (v2.syncEnd).getD v2
def v4 : World := (v3.g1Completed true).getD v3
def v5 : World := (v4.syncBegin).getD v4
def v6 : World := (v5.syncEnd).getD v5
def v7 : World := (v6.g1Completed false).getD v6
def v8 : World := (v7.swBegin 1).getD v7
def v9 : World := (v8.swStep).getD v8
def v10 : World := (v9.swStep).getD v9
def v11 : World := (v10.swStep).getD v10
def v12 : World := (v11.swStep).getD v11
def v13 : World := (v12.swStep).getD v12
def v14 : World := (v13.swStep).getD v13
def v15 : World := (v14.swDone).getD v14

def o0 : Obj := ⟨0, 0, 0, 0, 5, 7, 0, true, 0, false, true, none, false, false⟩
def rec7 : PRec := ⟨1, 0, 7, 0, 0, 5, 1⟩

theorem reach5 : Reach c u5 := by
  have r1 : Reach c u1 := Reach.step Reach.init (Step.pushBack (w' := u1) (by rfl))
  have r2 : Reach c u2 := Reach.step r1 (Step.reserve (o := o0) (w' := u2) (i := 0) (size := 5) (key := 7) (upload := true) (by rfl))
  have r3 : Reach c u3 := Reach.step r2 (Step.copy (o := o0) (id := 0) (data := 100) (w' := u3) (by rfl) rfl (by rfl))
  have r4 : Reach c u4 := Reach.step r3 (Step.finalize (id := 0) (w' := u4) (by rfl))
  exact Reach.step r4 (Step.recWrite (w := u4) (w' := u5) (slot := 2) (key := 7) (att := 0) (abs := 0) (off := 0)
    (size := 5) (o := { o0 with data := 100, copied := true, fin := some 1 })
    (b := { gid := 0, slot := 0, cursor := 5, written := 5, epochCount := 1 })
    (by decide) rfl rfl rfl rfl (by decide) (by rfl) rfl (by rfl))

/-- The commit `u5` ... `u16`, `swDone`, `u17`: calm steps only. -/
theorem calm_commit : CalmSteps u5 u16 := by
  have s6 : Calm u5 u6 := calm_of_ctl (Step.g1Start (w' := u6) (by rfl)) (by decide) (Or.inl (by decide))
  have s7 : Calm u6 u7 := calm_of_ctl (Step.syncBegin (w' := u7) (by rfl)) (by decide) (Or.inl (by decide))
  have s8 : Calm u7 u8 := calm_of_ctl (Step.syncEnd (w' := u8) (by rfl)) (by decide) (Or.inl (by decide))
  have s9 : Calm u8 u9 := calm_of_ctl (Step.g1Completed (shutdown := false) (w' := u9) (by rfl)) (by decide) (Or.inl (by decide))
  have s10 : Calm u9 u10 := calm_of_ctl (Step.swBegin (owner := 1) (w' := u10) (by rfl)) (by decide) (Or.inr (by decide))
  have s11 : Calm u10 u11 := calm_of_ctl (Step.swStep (w' := u11) (by rfl)) (by decide) (Or.inr (by decide))
  have s12 : Calm u11 u12 := calm_of_ctl (Step.swStep (w' := u12) (by rfl)) (by decide) (Or.inr (by decide))
  have s13 : Calm u12 u13 := calm_of_ctl (Step.swStep (w' := u13) (by rfl)) (by decide) (Or.inr (by decide))
  have s14 : Calm u13 u14 := calm_of_ctl (Step.swStep (w' := u14) (by rfl)) (by decide) (Or.inr (by decide))
  have s15 : Calm u14 u15 := calm_of_ctl (Step.swStep (w' := u15) (by rfl)) (by decide) (Or.inr (by decide))
  have s16 : Calm u15 u16 := calm_of_ctl (Step.swStep (w' := u16) (by rfl)) (by decide) (Or.inr (by decide))
  exact ((((((((((CalmSteps.single s6).tail s7).tail s8).tail s9).tail s10).tail s11).tail s12).tail s13).tail s14).tail
    s15).tail s16

theorem reach17 : Reach c u17 :=
  Reach.step (calm_reach reach5 calm_commit) (Step.swDone (w' := u17) (by rfl))

/-- `C03_commit_durable` / `C03_commit_covers`: all hypotheses hold for this history, with a record
that resolves at the moment of the crash. -/
example : Reach c u5 ∧ u5.g1 = .idle ∧ CalmSteps u5 u16 ∧ u16.sw = some ⟨1, ⟨1, [⟨0, 0, 5, [1]⟩]⟩, 6⟩ ∧
    u16.swDone = some u17 ∧ CalmSteps u17 u17 ∧ u17.idx.curGet 2 = some rec7 ∧ u17.resolve rec7 = some 0 :=
  ⟨reach5, rfl, calm_commit, by rfl, by rfl, CalmSteps.refl _, by rfl, by rfl⟩

/-- ... and what the theorem promises, computed: after a process crash that loses every unsynced
data write, key 7 is served with content 100. -/
example : ((u17.crashRestart [] [true] 0 false).readAt 0 0 5).map (·.data) = some 100 := by rfl

theorem reachV15 : Reach c v15 := by
  have r1 : Reach c v1 := Reach.step reach17 (Step.g1Start (w' := v1) (by rfl))
  have r2 : Reach c v2 := Reach.step r1 (Step.syncBegin (w' := v2) (by rfl))
  have r3 : Reach c v3 := Reach.step r2 (Step.syncEnd (w' := v3) (by rfl))
  have r4 : Reach c v4 := Reach.step r3 (Step.g1Completed (shutdown := true) (w' := v4) (by rfl))
  have r5 : Reach c v5 := Reach.step r4 (Step.syncBegin (w' := v5) (by rfl))
  have r6 : Reach c v6 := Reach.step r5 (Step.syncEnd (w' := v6) (by rfl))
  have r7 : Reach c v7 := Reach.step r6 (Step.g1Completed (shutdown := false) (w' := v7) (by rfl))
  have r8 : Reach c v8 := Reach.step r7 (Step.swBegin (owner := 1) (w' := v8) (by rfl))
  have r9 : Reach c v9 := Reach.step r8 (Step.swStep (w' := v9) (by rfl))
  have r10 : Reach c v10 := Reach.step r9 (Step.swStep (w' := v10) (by rfl))
  have r11 : Reach c v11 := Reach.step r10 (Step.swStep (w' := v11) (by rfl))
  have r12 : Reach c v12 := Reach.step r11 (Step.swStep (w' := v12) (by rfl))
  have r13 : Reach c v13 := Reach.step r12 (Step.swStep (w' := v13) (by rfl))
  have r14 : Reach c v14 := Reach.step r13 (Step.swStep (w' := v14) (by rfl))
  exact Reach.step r14 (Step.swDone (w' := v15) (by rfl))

/-- `C03_shutdown_covers_acks`, `C03_shutdown_restart_serves`: `ProcessBlockPut` has returned, a
finalized object sits in a block of the list, its record resolves. -/
example : Reach c v15 ∧ v15.g1 = .finished ∧ v15.idx.curGet 2 = some rec7 ∧ v15.resolve rec7 = some 0 ∧
    ∃ o ∈ v15.objs, o.fin = some 1 ∧ ∃ b, v15.pbl.blocks[0]? = some b ∧ b.gid = o.gid :=
  ⟨reachV15, by rfl, by rfl, by rfl, _, List.mem_cons_self, rfl, _, rfl, rfl⟩

/-- `C03_refused_not_lost`: from the second `NotifySyncStarting` on (`v4`) the premise holds. -/
example : Reach c v4 ∧ Closing v4.g1 := by
  have r1 : Reach c v1 := Reach.step reach17 (Step.g1Start (w' := v1) (by rfl))
  have r2 : Reach c v2 := Reach.step r1 (Step.syncBegin (w' := v2) (by rfl))
  have r3 : Reach c v3 := Reach.step r2 (Step.syncEnd (w' := v3) (by rfl))
  exact ⟨Reach.step r3 (Step.g1Completed (shutdown := true) (w' := v4) (by rfl)), Or.inl (by rfl)⟩

/-- `C03_restart_layout_admits`: an immutable-policy configuration (1 old, 1 current, 1 new) whose
layout admits the one restored block. -/
example : BB.BlockMap.CfgOK ⟨.immutable ⟨2⟩, 8, 1, 1⟩ ∧
    (v15.crashRestart [] [true] 0 false).pbl.blocks.length ≤ BB.BlockMap.capacity ⟨.immutable ⟨2⟩, 8, 1, 1⟩ :=
  ⟨⟨by decide, 1, by decide⟩, by decide⟩

/-- `C03_final_sync_retried`: `v5` is inside the final data sync, which may fail. -/
example : v5.g1 = .syncing true ∧ ∃ w', v5.syncFail = some w' := ⟨by rfl, _, rfl⟩

/-- `C03_state_read_is_last_write`: in `u16` the state write of `ProcessBlockPut` has returned. -/
example : ∃ s, u16.sw = some s ∧ s.stage = 6 ∧ s.file.blocks.length = 1 := ⟨_, rfl, rfl, rfl⟩

end Example

end BB.C03
