import BB.Model.PersistStore
/-! # C03 (theorems follow) -/
namespace BB.C03
end BB.C03
