import BB.Proofs.DigestSound
import BB.Proofs.DigestSet
/-!
# C20 - Digest/resource-name codecs round-trip and reject bad input; sets obey algebra

Property theorems only (helper lemmas live in `BB/Proofs/Digest*.lean`).  All statements are
about the definitions of `BB.Digest` (`BB/Model/Digest.lean`), the model of `/repo/pkg/digest`
that the driver `bbmodel_c20` executes, over the tables of `BB.Gen.Digest`, which are
regenerated from /repo on every run.

Vocabulary.  A *digest* is its packed string `pack fn hash size inst`.  The theorems quantify
over

* every supported digest function `f` (`SupportedFn f`: listed in `SupportedDigestFunctions`
  and returned by `getBareFunction` for its own number - all eight satisfy this, see the
  examples),
* every hash valid for `f` (`ValidHash`: `2 * f.hashBytes` lower-case hex characters),
* every size below `2^63` (the range of `int64`),
* every valid instance name, given by its components (`ValidComps`: non-empty, slash-free, not a
  reserved keyword); `newInstanceName_iff` shows these are exactly the names `NewInstanceName`
  accepts,
* every supported compressor (`IDENTITY` and the REv2 compressors).

**Known defect of the unchanged code (D4).**  `GetByteStreamReadPath`/`WritePath` build the
path with `path.Join`, which cleans `.` and `..` components that `NewInstanceName` accepts.  The
full round-trip statements

    theorem C20_roundtrip_read : RoundtripReadFull
    theorem C20_roundtrip_write : RoundtripWriteFull

are therefore *false* of the faithful model (`C20_roundtrip_read_cleaning_false`,
`C20_roundtrip_write_cleaning_false`: instance name `a/..` formats to `blobs/<hash>/<size>`, which
parses as the empty instance name).  Proved instead: `..._partial` for instance names without
`.`/`..` components (what is missing: exactly the names with such a component), `..._repaired`:
the full statement for formatters that join the elements without cleaning (the suggested repair),
and `..._status`, which says which of the two holds of the code under test; how the code joins
the elements is read off its source on every run (`BB.Gen.Digest.formatterCleans`).
-/
namespace BB.C20
open BB.Digest BB.Gen.Digest

/-- The digest with the given components. -/
abbrev digestOf (f : BareFn) (hash : Str) (size : Nat) (comps : List Str) : Str :=
  pack f.enum hash size (join comps)

/-! ### The quantifier domain is what the constructors accept -/

/-- `NewInstanceName` accepts exactly the joins of valid component lists, unchanged; so
"for every `ValidComps comps`, instance name `join comps`" is "for every accepted instance name". -/
theorem newInstanceName_iff (s : Str) :
    (∃ s', newInstanceName s = .ok s') ↔ ∃ comps, ValidComps comps ∧ s = join comps := by
  constructor
  · rintro ⟨s', h⟩
    obtain ⟨_, h2, h3⟩ := newInstanceName_ok h
    exact ⟨fields s, h2, h3.symm⟩
  · rintro ⟨comps, h, rfl⟩
    exact ⟨_, newInstanceName_join h⟩

/-- `GetDigestFunction(e, 0)` + `NewDigest` on valid arguments builds `digestOf`, and succeeds
only on valid arguments. -/
theorem mkDigest_iff (inst : Str) (e : Nat) (hash : Str) (size : Int) (d : Str) :
    mkDigest inst e hash size = .ok d ↔
      ∃ f, getBareFunction e 0 = some f ∧ ValidHash f hash ∧ 0 ≤ size ∧ d = pack f.enum hash size.toNat inst := by
  simp only [mkDigest]
  cases hg : getBareFunction e 0 with
  | none => simp
  | some f =>
    simp only [Option.some.injEq, exists_eq_left']
    constructor
    · exact newDigest_ok
    · rintro ⟨hv, h0, rfl⟩
      have := newDigest_valid f inst hash size.toNat hv
      rwa [Int.toNat_of_nonneg h0] at this

example : ∀ e ∈ [1, 2, 3, 5, 6, 8, 9, 10], ∃ f, SupportedFn f ∧ f.enum = e := by
  intro e he
  simp only [List.mem_cons, List.not_mem_nil, or_false] at he
  rcases he with rfl | rfl | rfl | rfl | rfl | rfl | rfl | rfl
  · exact ⟨⟨1, 32⟩, ⟨by decide, by decide⟩, rfl⟩
  · exact ⟨⟨2, 20⟩, ⟨by decide, by decide⟩, rfl⟩
  · exact ⟨⟨3, 16⟩, ⟨by decide, by decide⟩, rfl⟩
  · exact ⟨⟨5, 48⟩, ⟨by decide, by decide⟩, rfl⟩
  · exact ⟨⟨6, 64⟩, ⟨by decide, by decide⟩, rfl⟩
  · exact ⟨⟨8, 32⟩, ⟨by decide, by decide⟩, rfl⟩
  · exact ⟨⟨9, 32⟩, ⟨by decide, by decide⟩, rfl⟩
  · exact ⟨⟨10, 20⟩, ⟨by decide, by decide⟩, rfl⟩

/-! Concrete instances used by the non-vacuity examples. -/

def md5 : BareFn := ⟨3, 16⟩
def blake3 : BareFn := ⟨9, 32⟩
def hashA : Str := List.replicate 32 'a'
def hashB : Str := List.replicate 64 '7'
def compsAB : List Str := [['h', 'e', 'l', 'l', 'o'], ['w', 'o', 'r', 'l', 'd']]
def compsDots : List Str := [['a'], dotdot]
def uuid0 : Str := "da2f1135-326b-4956-b920-1646cdd6cb53".toList

theorem md5_supported : SupportedFn md5 := ⟨by decide, by decide⟩
theorem blake3_supported : SupportedFn blake3 := ⟨by decide, by decide⟩
theorem hashA_valid : ValidHash md5 hashA := ⟨by decide, by decide⟩
theorem hashB_valid : ValidHash blake3 hashB := ⟨by decide, by decide⟩

theorem compsAB_valid : ValidComps compsAB ∧ DotFree compsAB := by
  constructor
  · intro c hc
    simp only [compsAB, List.mem_cons, List.not_mem_nil, or_false] at hc
    rcases hc with rfl | rfl <;> exact ⟨⟨by decide, by decide⟩, by decide⟩
  · intro c hc
    simp only [compsAB, List.mem_cons, List.not_mem_nil, or_false] at hc
    rcases hc with rfl | rfl <;> exact ⟨by decide, by decide⟩

theorem compsDots_valid : ValidComps compsDots := by
  intro c hc
  simp only [compsDots, List.mem_cons, List.not_mem_nil, or_false] at hc
  rcases hc with rfl | rfl <;> exact ⟨⟨by decide, by decide⟩, by decide⟩

/-! ### Round trips: ByteStream resource names -/

/-- The full statement for read paths, for a formatter that joins with (`cleans = true`) or
without (`false`) `path.Clean`. -/
def RoundtripReadFullWith (cleans : Bool) : Prop :=
  ∀ (f : BareFn) (hash : Str) (size : Nat) (comps : List Str) (c : Nat),
    SupportedFn f → ValidHash f hash → size < 2 ^ 63 → ValidComps comps → SupportedCompressor c →
    ∃ p, readPathWith cleans (digestOf f hash size comps) c = some p ∧
      parseRead p = .ok (digestOf f hash size comps, c)

/-- The full statement for write paths, for every UUID string (a non-empty slash-free field that
is not `.`/`..`; `uuid.String()` always is). -/
def RoundtripWriteFullWith (cleans : Bool) : Prop :=
  ∀ (f : BareFn) (hash : Str) (size : Nat) (comps : List Str) (uuid : Str) (c : Nat),
    SupportedFn f → ValidHash f hash → size < 2 ^ 63 → ValidComps comps → Comp uuid → NoDot uuid →
    SupportedCompressor c →
    ∃ p, writePathWith cleans (digestOf f hash size comps) uuid c = some p ∧
      parseWrite p = .ok (digestOf f hash size comps, c)

/-- The full statements about the code under test (`readPath = readPathWith formatterCleans`). -/
def RoundtripReadFull : Prop := RoundtripReadFullWith formatterCleans
def RoundtripWriteFull : Prop := RoundtripWriteFullWith formatterCleans

/-- Formatting a digest as a ByteStream read resource name and parsing it back yields the same
digest and compressor - for instance names without `.`/`..` components.  (Holds of the code
under test whichever way it joins the elements.) -/
theorem C20_roundtrip_read_partial (f : BareFn) (hash : Str) (size : Nat) (comps : List Str) (c : Nat)
    (hf : SupportedFn f) (hh : ValidHash f hash) (hs : size < 2 ^ 63) (hc : ValidComps comps)
    (hd : DotFree comps) (hcp : SupportedCompressor c) :
    ∃ p, readPath (digestOf f hash size comps) c = some p ∧
      parseRead p = .ok (digestOf f hash size comps, c) :=
  ⟨_, readPathWith_valid formatterCleans hf.known hh size _ c,
    parseRead_of_fields hf hh hs hc hcp (fields_readPath formatterCleans hf hh size hc (fun _ => hd) hcp)⟩

example : ∃ p, readPath (digestOf md5 hashA 123 compsAB) 1 = some p ∧
    parseRead p = .ok (digestOf md5 hashA 123 compsAB, 1) :=
  C20_roundtrip_read_partial md5 hashA 123 compsAB 1 md5_supported hashA_valid (by decide) compsAB_valid.1
    compsAB_valid.2 (by decide)

/-- ... and the same for write resource names. -/
theorem C20_roundtrip_write_partial (f : BareFn) (hash : Str) (size : Nat) (comps : List Str) (uuid : Str) (c : Nat)
    (hf : SupportedFn f) (hh : ValidHash f hash) (hs : size < 2 ^ 63) (hc : ValidComps comps)
    (hd : DotFree comps) (hu : Comp uuid) (hud : NoDot uuid) (hcp : SupportedCompressor c) :
    ∃ p, writePath (digestOf f hash size comps) uuid c = some p ∧
      parseWrite p = .ok (digestOf f hash size comps, c) :=
  ⟨_, writePathWith_valid formatterCleans hf.known hh size _ uuid c,
    parseWrite_of_fields hf hh hs hc hcp uuid []
      (fields_writePath formatterCleans hf hh size hc (fun _ => hd) hu (fun _ => hud) hcp)⟩

example : ∃ p, writePath (digestOf blake3 hashB 0 compsAB) uuid0 0 = some p ∧
    parseWrite p = .ok (digestOf blake3 hashB 0 compsAB, 0) :=
  C20_roundtrip_write_partial blake3 hashB 0 compsAB uuid0 0 blake3_supported hashB_valid (by decide)
    compsAB_valid.1 compsAB_valid.2 ⟨by decide, by decide⟩ ⟨by decide, by decide⟩ (by decide)

/-- The write parser ignores what follows the size (the optional file name of the protocol). -/
theorem C20_write_trailing (f : BareFn) (hash : Str) (size : Nat) (comps : List Str) (uuid : Str) (c : Nat)
    (extra : List Str) (p : Str)
    (hf : SupportedFn f) (hh : ValidHash f hash) (hs : size < 2 ^ 63) (hc : ValidComps comps)
    (hcp : SupportedCompressor c)
    (hp : fields p = comps ++ (kwUploads :: uuid :: (trailerOf f hash size c ++ extra))) :
    parseWrite p = .ok (digestOf f hash size comps, c) :=
  parseWrite_of_fields hf hh hs hc hcp uuid extra hp

/-- **The defect**: with `path.Join` the full read round trip fails.  Witness: MD5, instance name
`a/..`, `IDENTITY`: the path is `blobs/aaaa…/0`, which parses as the *empty* instance name. -/
theorem C20_roundtrip_read_cleaning_false : ¬ RoundtripReadFullWith true := by
  intro h
  obtain ⟨p, hp, hq⟩ := h md5 hashA 0 compsDots 0 md5_supported hashA_valid (by decide) compsDots_valid (by decide)
  have e1 : readPathWith true (digestOf md5 hashA 0 compsDots) 0 = some (join [kwBlobs, hashA, ['0']]) := by decide
  have e2 : parseRead (join [kwBlobs, hashA, ['0']]) = .ok (digestOf md5 hashA 0 [], 0) := by decide
  rw [e1] at hp
  cases hp
  rw [e2] at hq
  revert hq
  decide

theorem C20_roundtrip_write_cleaning_false : ¬ RoundtripWriteFullWith true := by
  intro h
  obtain ⟨p, hp, hq⟩ := h md5 hashA 0 compsDots uuid0 0 md5_supported hashA_valid (by decide) compsDots_valid
    ⟨by decide, by decide⟩ ⟨by decide, by decide⟩ (by decide)
  have e1 : writePathWith true (digestOf md5 hashA 0 compsDots) uuid0 0 =
      some (join [kwUploads, uuid0, kwBlobs, hashA, ['0']]) := by decide
  have e2 : parseWrite (join [kwUploads, uuid0, kwBlobs, hashA, ['0']]) = .ok (digestOf md5 hashA 0 [], 0) := by decide
  rw [e1] at hp
  cases hp
  rw [e2] at hq
  revert hq
  decide

/-- After the repair (join the non-empty elements, do not clean) the read round trip holds for
*every* valid instance name. -/
theorem C20_roundtrip_read_repaired : RoundtripReadFullWith false := by
  intro f hash size comps c hf hh hs hc hcp
  exact ⟨_, readPathWith_valid false hf.known hh size _ c,
    parseRead_of_fields hf hh hs hc hcp (fields_readPath false hf hh size hc (fun h => by cases h) hcp)⟩

theorem C20_roundtrip_write_repaired : RoundtripWriteFullWith false := by
  intro f hash size comps uuid c hf hh hs hc hu _ hcp
  exact ⟨_, writePathWith_valid false hf.known hh size _ uuid c,
    parseWrite_of_fields hf hh hs hc hcp uuid []
      (fields_writePath false hf hh size hc (fun h => by cases h) hu (fun h => by cases h) hcp)⟩

example : ∃ p, readPathWith false (digestOf md5 hashA 0 compsDots) 0 = some p ∧
    parseRead p = .ok (digestOf md5 hashA 0 compsDots, 0) :=
  C20_roundtrip_read_repaired md5 hashA 0 compsDots 0 md5_supported hashA_valid (by decide) compsDots_valid (by decide)

/-- The status of the full round-trip statements for the code under test, whichever way its
formatters join the elements (the flag is read off /repo on every run): false while they use
`path.Join`, true once they do not.  Green for the right reason in both states. -/
theorem C20_roundtrip_read_status : if formatterCleans = true then ¬ RoundtripReadFull else RoundtripReadFull := by
  unfold RoundtripReadFull
  cases formatterCleans with
  | true => simp only [if_true]; exact C20_roundtrip_read_cleaning_false
  | false => simp only [Bool.false_eq_true, if_false]; exact C20_roundtrip_read_repaired

theorem C20_roundtrip_write_status : if formatterCleans = true then ¬ RoundtripWriteFull else RoundtripWriteFull := by
  unfold RoundtripWriteFull
  cases formatterCleans with
  | true => simp only [if_true]; exact C20_roundtrip_write_cleaning_false
  | false => simp only [Bool.false_eq_true, if_false]; exact C20_roundtrip_write_repaired

/-! ### Round trips: REv2 message, compact binary -/

/-- `d.GetDigestFunction().NewDigestFromProto(d.GetProto()) = d`, and the message carries exactly
hash and size. -/
theorem C20_roundtrip_proto (f : BareFn) (hash : Str) (size : Nat) (comps : List Str)
    (hf : SupportedFn f) (hh : ValidHash f hash) :
    getProto (digestOf f hash size comps) = some (hash, size) ∧
    getDigestFunction (digestOf f hash size comps) = some (f, join comps) ∧
    newDigestFromProto f (join comps) (some (hash, (size : Int))) = .ok (digestOf f hash size comps) :=
  ⟨getProto_valid hf.known hh size _, getDigestFunction_valid hf hh size _, newDigest_valid f _ hash size hh⟩

example : newDigestFromProto md5 (join compsDots) (some (hashA, 7)) = .ok (digestOf md5 hashA 7 compsDots) :=
  (C20_roundtrip_proto md5 hashA 7 compsDots md5_supported hashA_valid).2.2

/-- `d.GetInstanceName().NewDigestFromCompactBinary(d.GetCompactBinary()) = d`, whatever follows
in the reader. -/
theorem C20_roundtrip_compact (f : BareFn) (hash : Str) (size : Nat) (comps : List Str)
    (hf : SupportedFn f) (hh : ValidHash f hash) (hs : size < 2 ^ 63) :
    ∃ bs, getCompactBinary (digestOf f hash size comps) = some bs ∧
      getInstanceName (digestOf f hash size comps) = some (join comps) ∧
      ∀ rest, newDigestFromCompactBinary (join comps) (bs ++ rest) = .ok (digestOf f hash size comps) := by
  obtain ⟨hb, h1, h2, h3⟩ := getCompactBinary_valid hf.known hh size (join comps)
  refine ⟨_, h3, ?_, ?_⟩
  · simp only [getInstanceName, unpack_valid hf.known hh, Option.map_some, instOf_pack]
  · intro rest
    have := newDigestFromCompactBinary_valid hf hh hs (join comps) hb h1 h2 rest
    simpa using this

example : ∃ bs, getCompactBinary (digestOf blake3 hashB (2 ^ 63 - 1) compsDots) = some bs ∧
    getInstanceName (digestOf blake3 hashB (2 ^ 63 - 1) compsDots) = some (join compsDots) ∧
    ∀ rest, newDigestFromCompactBinary (join compsDots) (bs ++ rest) = .ok (digestOf blake3 hashB (2 ^ 63 - 1) compsDots) :=
  C20_roundtrip_compact blake3 hashB (2 ^ 63 - 1) compsDots blake3_supported hashB_valid (by decide)

/-! ### Keys -/

theorem join_comps_inj {a b : List Str} (ha : ValidComps a) (hb : ValidComps b) (h : join a = join b) : a = b := by
  rw [← fields_join_comps a ha.comp, ← fields_join_comps b hb.comp, h]

/-- Two digests have equal keys exactly when they agree on function, hash, size and - for keys
with instance name - instance name. -/
theorem C20_key_injective (f f' : BareFn) (hash hash' : Str) (size size' : Nat) (comps comps' : List Str)
    (hf : SupportedFn f) (hf' : SupportedFn f') (hh : ValidHash f hash) (hh' : ValidHash f' hash')
    (hc : ValidComps comps) (hc' : ValidComps comps') :
    (getKey (digestOf f hash size comps) true = getKey (digestOf f' hash' size' comps') true ↔
      f = f' ∧ hash = hash' ∧ size = size' ∧ comps = comps') ∧
    (getKey (digestOf f hash size comps) false = getKey (digestOf f' hash' size' comps') false ↔
      f = f' ∧ hash = hash' ∧ size = size') := by
  have hk := hf.known
  have hk' := hf'.known
  have fext : f.enum = f'.enum → f = f' := by
    intro e
    have h1 := hf.get
    rw [e, hf'.get] at h1
    exact (Option.some.inj h1).symm
  constructor
  · simp only [getKey, if_true, Option.some.injEq]
    constructor
    · intro h
      obtain ⟨h1, h2, h3, h4⟩ := pack_inj hk.facts.2.1 hk'.facts.2.1 hh.notDash hh'.notDash (hh.long hk) (hh'.long hk') h
      exact ⟨fext h1, h2, h3, join_comps_inj hc hc' h4⟩
    · rintro ⟨rfl, rfl, rfl, rfl⟩; rfl
  · simp only [getKey, Bool.false_eq_true, if_false, unpack_valid hk hh, unpack_valid hk' hh', Option.map_some,
      take_sizeEnd_pack, Option.some.injEq]
    constructor
    · intro h
      obtain ⟨h1, h2, h3⟩ := keyOf_inj hk.facts.2.1 hk'.facts.2.1 hh.notDash hh'.notDash (hh.long hk) (hh'.long hk') h
      exact ⟨fext h1, h2, h3⟩
    · rintro ⟨rfl, rfl, rfl⟩; rfl

example : getKey (digestOf md5 hashA 5 compsAB) false = getKey (digestOf md5 hashA 5 compsDots) false ∧
    getKey (digestOf md5 hashA 5 compsAB) true ≠ getKey (digestOf md5 hashA 5 compsDots) true := by
  have h := C20_key_injective md5 md5 hashA hashA 5 5 compsAB compsDots md5_supported md5_supported hashA_valid hashA_valid
    compsAB_valid.1 compsDots_valid
  refine ⟨h.2.mpr ⟨rfl, rfl, rfl⟩, fun e => ?_⟩
  have := (h.1.mp e).2.2.2
  revert this; decide

/-! ### Ancestors -/

/-- `GetDigestsWithParentInstanceNames` is exactly the chain of component prefixes: the same
function, hash and size under `""`, `c₁`, `c₁/c₂`, …, the full name. -/
theorem C20_ancestors (f : BareFn) (hash : Str) (size : Nat) (comps : List Str)
    (hf : SupportedFn f) (hh : ValidHash f hash) (hc : ValidComps comps) :
    ancestors (digestOf f hash size comps) =
      some ((List.range (comps.length + 1)).map fun k => digestOf f hash size (comps.take k)) :=
  ancestors_valid hf.known hh size hc.comp

example : ancestors (digestOf md5 hashA 9 compsAB) =
    some [digestOf md5 hashA 9 [], digestOf md5 hashA 9 [['h', 'e', 'l', 'l', 'o']], digestOf md5 hashA 9 compsAB] :=
  C20_ancestors md5 hashA 9 compsAB md5_supported hashA_valid compsAB_valid.1

/-! ### Malformed input is rejected -/

/-- Anything `NewDigestFromByteStreamReadPath` accepts is a well-formed digest of a supported
function and compressor, spelled by the path: its fields are the components of a valid instance
name, a compression marker, (the function name,) the hash and a size field denoting the size. -/
theorem C20_accept_wellformed_read (p d : Str) (c : Nat) (h : parseRead p = .ok (d, c)) :
    ∃ (f : BareFn) (hash : Str) (size : Nat) (comps tr : List Str),
      SupportedFn f ∧ ValidHash f hash ∧ size < 2 ^ 63 ∧ ValidComps comps ∧ SupportedCompressor c ∧
      d = digestOf f hash size comps ∧ fields p = comps ++ tr ∧ Accepted comps tr d c ∧
      ∃ m rest, tr = m :: rest ∧ (m = kwBlobs ∨ m = kwCompressedBlobs) := by
  obtain ⟨hdr, tr, h1, h2, h3, h4⟩ := parseRead_ok h
  obtain ⟨f, hash, szs, n, tr1, tr2, post, hk, hv, h0, hlt, _, hcs, _, _, _, _, hd⟩ := h3.ex
  refine ⟨f, hash, n.toNat, hdr, tr, hk.supported, hv, by omega, h2, ?_, hd, h1, h3, h4⟩
  rcases hcs with rfl | ⟨hs, _⟩
  · exact Or.inl rfl
  · exact hs

theorem C20_accept_wellformed_write (p d : Str) (c : Nat) (h : parseWrite p = .ok (d, c)) :
    ∃ (f : BareFn) (hash : Str) (size : Nat) (comps : List Str) (uuid : Str) (tr : List Str),
      SupportedFn f ∧ ValidHash f hash ∧ size < 2 ^ 63 ∧ ValidComps comps ∧ SupportedCompressor c ∧
      d = digestOf f hash size comps ∧ fields p = comps ++ (kwUploads :: uuid :: tr) ∧ Accepted comps tr d c := by
  obtain ⟨hdr, uuid, tr, h1, h2, h3⟩ := parseWrite_ok h
  obtain ⟨f, hash, szs, n, tr1, tr2, post, hk, hv, h0, hlt, _, hcs, _, _, _, _, hd⟩ := h3.ex
  refine ⟨f, hash, n.toNat, hdr, uuid, tr, hk.supported, hv, by omega, h2, ?_, hd, h1, h3⟩
  rcases hcs with rfl | ⟨hs, _⟩
  · exact Or.inl rfl
  · exact hs

theorem C20_accept_wellformed_compact (inst : Str) (bs : List Nat) (d : Str)
    (h : newDigestFromCompactBinary inst bs = .ok d) :
    ∃ (f : BareFn) (hash : Str) (size : Nat) (hb tail : List Nat),
      SupportedFn f ∧ ValidHash f hash ∧ size < 2 ^ 63 ∧ d = pack f.enum hash size inst ∧
      bs = f.enum :: (hb ++ tail) ∧ hexEncode hb = hash ∧ ∃ rest, readVarint tail = .ok ((size : Int), rest) := by
  obtain ⟨f, hash, size, e, hb, tail, hk, hv, hs, hd, hbs, hg, _, he, hr⟩ := newDigestFromCompactBinary_ok h
  have hsup := hk.supported
  have : e = f.enum := by
    -- the table maps a number to the function with that number
    have h0 : e ≠ 0 := by
      intro e0; subst e0
      simp only [getBareFunction, if_true, Option.map_eq_some_iff] at hg
      obtain ⟨r, hr', _⟩ := hg
      have h' := List.find?_some hr'
      have : ∀ r ∈ byLength, ¬ (r.1 = 0) := by decide
      exact this r (List.mem_of_find?_eq_some hr') (by simpa using h')
    have hall : ∀ r ∈ byEnum, r.1 = r.2.1 := by decide
    simp only [getBareFunction, if_neg h0, Option.map_eq_some_iff] at hg
    obtain ⟨r, hr', rfl⟩ := hg
    have h1 := List.find?_some hr'
    have h2 := hall r (List.mem_of_find?_eq_some hr')
    simp only [decide_eq_true_eq] at h1
    rw [← h1]; exact h2
  subst this
  exact ⟨f, hash, size, hb, tail, hsup, hv, hs, hd, hbs, he, hr⟩

/-- The specific kinds of malformed input named by the property, each with the error the code
returns.  (Resource-name parsers: in the order in which the code examines the fields.) -/
theorem C20_reject_malformed :
    -- wrong hash length
    (∀ f inst hash size, hash.length ≠ 2 * f.hashBytes → newDigest f inst hash size = .error .hashLength) ∧
    -- a character that is not lower-case hexadecimal
    (∀ f inst hash size (c : Char), hash.length = 2 * f.hashBytes → c ∈ hash → isLowerHex c = false →
      newDigest f inst hash size = .error .hashChar) ∧
    -- negative size
    (∀ f inst hash (size : Int), ValidHash f hash → size < 0 → newDigest f inst hash size = .error .negSize) ∧
    -- non-numeric size field in a resource name: only [+-]?[0-9]+ within int64 is a number ...
    (∀ s n, parseInt64 s = some n → -(2 ^ 63 : Int) ≤ n ∧ n < 2 ^ 63 ∧
      ∃ body, body ≠ [] ∧ (∀ c ∈ body, IsDigit c) ∧ (s = body ∨ s = '+' :: body ∨ s = '-' :: body)) ∧
    -- ... and anything else is rejected
    (∀ f inst c hash sz post, parseInt64 sz = none → finishDigest f inst c (hash :: sz :: post) = .error .blobSize) ∧
    -- reserved keyword as an instance name component
    (∀ s s', newInstanceName s = .ok s' → ∀ c ∈ fields s, isReserved c = false) ∧
    (∀ hdr tr d c, common hdr tr = .ok (d, c) → ∀ x ∈ hdr, isReserved x = false) ∧
    -- redundant slashes in an instance name
    (∀ s, (s.head? = some '/' ∨ s.getLast? = some '/' ∨ hasDoubleSlash s = true) →
      newInstanceName s = .error .slashes) ∧
    -- unknown digest function (enumeration value, or name/hash length in a resource name)
    (∀ inst e hash size, getBareFunction e 0 = none → mkDigest inst e hash size = .error .unknownFunction) ∧
    (∀ t0 rest, fnByName t0 = none → getBareFunction 0 t0.length = none →
      resolveFunction (t0 :: rest) = .error .function) ∧
    -- unknown compressor
    (∀ name rest, compressorByName name = none →
      stripCompression (kwCompressedBlobs :: name :: rest) = .error .compressor) ∧
    -- truncated paths
    (∀ p, (fields p).length < 3 → parseRead p = .error .scheme) ∧
    (∀ p, (fields p).length < 5 → parseWrite p = .error .scheme) ∧
    (∀ f inst c tr, tr.length < 2 → finishDigest f inst c tr = .error .scheme) ∧
    -- nil message
    (∀ f inst, newDigestFromProto f inst none = .error .nilDigest) := by
  refine ⟨newDigest_hashLength, ?_, newDigest_negSize, fun s n h => parseInt64_some h, ?_, ?_, ?_, ?_, ?_, ?_, ?_, ?_,
    ?_, ?_, fun _ _ => rfl⟩
  · intro f inst hash size c hl hc hx; exact newDigest_hashChar f inst hash size hl c hc hx
  · intro f inst c hash sz post h; simp [finishDigest, h]
  · intro s s' h c hc; exact ((newInstanceName_ok h).2.1 c hc).2
  · intro hdr tr d c h x hx
    obtain ⟨_, _, _, _, _, _, _, _, _, _, _, hcomps, _⟩ := (common_ok h).ex
    exact (hcomps x hx).2
  · intro s h; simp [newInstanceName, h]
  · intro inst e hash size h; simp [mkDigest, h]
  · intro t0 rest h1 h2; simp [resolveFunction, h1, h2]
  · intro name rest h
    have : kwCompressedBlobs ≠ kwBlobs := fun e => table_keywords.2.2.2.1 e.symm
    simp [stripCompression, this, h]
  · intro p h; simp [parseRead, h]
  · intro p h; simp [parseWrite, h]
  · intro f inst c tr h
    match tr, h with
    | [], _ => rfl
    | [_], _ => rfl
    | _ :: _ :: _, h => simp at h; omega

/-- `InstanceName.GetDigestFunction(e, fallbackHashLength)`: a value that is neither `UNKNOWN` nor
one of `SupportedDigestFunctions` is rejected *whatever the fallback hash length* (the CAS and AC
servers pass the length of the first hash of the request); an accepted value yields the function
with that very number, and only `UNKNOWN` is inferred from the length. -/
theorem C20_unsupported_function_rejected :
    (∀ (e : Int) (n : Nat), e ≠ 0 → (∀ k ∈ supportedEnums, e ≠ (k : Int)) →
      getDigestFunctionEnum e n = .error .unknownFunction) ∧
    (∀ (e : Int) (n : Nat) (v : Nat), getDigestFunctionEnum e n = .ok v →
      v ∈ supportedEnums ∧ (e = (v : Int) ∨ e = 0)) := by
  have hkeys : ∀ r ∈ byEnum, r.1 ∈ supportedEnums ∧ r.1 = r.2.1 := by decide
  constructor
  · intro e n h0 hns
    simp only [getDigestFunctionEnum]
    by_cases hneg : e < 0
    · simp [hneg]
    · rw [if_neg hneg]
      have hnat : e.toNat ≠ 0 := by omega
      cases hf : byEnum.find? (fun r => decide (r.1 = e.toNat)) with
      | none => simp [getBareFunction, hnat, hf]
      | some r =>
        exfalso
        have hm := List.mem_of_find?_eq_some hf
        have hp := List.find?_some hf
        simp only [decide_eq_true_eq] at hp
        exact hns r.1 (hkeys r hm).1 (by omega)
  · intro e n v h
    simp only [getDigestFunctionEnum] at h
    by_cases hneg : e < 0
    · simp [hneg] at h
    · rw [if_neg hneg] at h
      cases hg : getBareFunction e.toNat n with
      | none => simp [hg] at h
      | some f =>
        simp only [hg, Except.ok.injEq] at h
        subst h
        have hsup : SupportedFn f := KnownFn.supported ⟨_, _, hg⟩
        refine ⟨hsup.mem, ?_⟩
        by_cases h0 : e.toNat = 0
        · right; omega
        · left
          simp only [getBareFunction, if_neg h0, Option.map_eq_some_iff] at hg
          obtain ⟨r, hr, rfl⟩ := hg
          have h1 := List.find?_some hr
          simp only [decide_eq_true_eq] at h1
          have h2 := (hkeys r (List.mem_of_find?_eq_some hr)).2
          simp only
          omega

example : getDigestFunctionEnum 4 64 = .error .unknownFunction ∧ getDigestFunctionEnum (-1) 64 = .error .unknownFunction ∧
    getDigestFunctionEnum 11 128 = .error .unknownFunction ∧ getDigestFunctionEnum 0 64 = .ok 1 ∧
    getDigestFunctionEnum 9 40 = .ok 9 := by decide

/-- The model's parsers never reach a `panic` outcome, on any input whatsoever.  (That the *Go*
parsers do not panic on arbitrary bytes is not a Lean theorem: it is checked by the malformed
stream of the correspondence run under `recover`, with these model functions predicting the
error class.) -/
theorem C20_no_panic :
    (∀ p, parseRead p ≠ .error .panic) ∧ (∀ p, parseWrite p ≠ .error .panic) ∧
    (∀ s, newInstanceName s ≠ .error .panic) ∧
    (∀ f inst hash size, newDigest f inst hash size ≠ .error .panic) :=
  ⟨parseRead_no_panic, parseWrite_no_panic, newInstanceName_no_panic, newDigest_no_panic⟩

example : parseRead "hello/blobs/8b1a9953c4611296a827abf8c47804d/123".toList = .error .function := by decide
example : parseRead "hello/blobs/8b1a9953c4611296a827abf8c47804dX/123".toList = .error .hashChar := by decide
example : parseRead "hello/blobs/8b1a9953c4611296a827abf8c47804d7/five".toList = .error .blobSize := by decide
example : parseRead "hello/blobs/8b1a9953c4611296a827abf8c47804d7/-5".toList = .error .negSize := by decide
example : parseRead "x/operations/y/blobs/8b1a9953c4611296a827abf8c47804d7/123".toList = .error .reserved := by decide
example : parseRead "x/compressed-blobs/xyzzy/8b1a9953c4611296a827abf8c47804d7/123".toList = .error .compressor := by decide
example : parseRead "blobs/8b1a9953c4611296a827abf8c47804d7".toList = .error .scheme := by decide
example : newInstanceName "a//b".toList = .error .slashes := by decide

/-! ### Sets -/

/-- `SetBuilder`: the built set is sorted, duplicate free, and has exactly the added digests. -/
theorem C20_set_build (xs : List Str) : Sorted (build xs) ∧ ∀ d, d ∈ build xs ↔ d ∈ xs :=
  ⟨build_sorted xs, mem_build xs⟩

/-- `GetUnion`: sorted, duplicate free, and `d` is in it exactly if it is in one of the sets. -/
theorem C20_set_union (sets : List (List Str)) (hs : ∀ s ∈ sets, Sorted s) :
    Sorted (union sets) ∧ ∀ d, d ∈ union sets ↔ ∃ s ∈ sets, d ∈ s := union_spec sets hs

/-- `GetDifferenceAndIntersection`, first and third result: `A \ B` and `B \ A`, in order. -/
theorem C20_set_diff (a b : List Str) (ha : Sorted a) (hb : Sorted b) :
    let r := differenceAndIntersection a b
    (Sorted r.1 ∧ ∀ d, d ∈ r.1 ↔ d ∈ a ∧ d ∉ b) ∧ (Sorted r.2.2 ∧ ∀ d, d ∈ r.2.2 ↔ d ∈ b ∧ d ∉ a) := by
  simp only [dai_spec a b ha hb]
  exact ⟨⟨ha.filter _, fun d => by simp [List.mem_filter]⟩, ⟨hb.filter _, fun d => by simp [List.mem_filter]⟩⟩

/-- `GetDifferenceAndIntersection`, second result: `A ∩ B`, in order. -/
theorem C20_set_inter (a b : List Str) (ha : Sorted a) (hb : Sorted b) :
    let r := differenceAndIntersection a b
    Sorted r.2.1 ∧ ∀ d, d ∈ r.2.1 ↔ d ∈ a ∧ d ∈ b := by
  simp only [dai_spec a b ha hb]
  exact ⟨ha.filter _, fun d => by simp [List.mem_filter]⟩

/-- `PartitionByInstanceName`: the classes are keyed by the distinct instance names in order of
first occurrence; each class is the (non-empty, sorted) subset of the digests with that name. -/
theorem C20_set_partition (s : List Str) (hs : Sorted s) :
    (partitionBy getInstanceName s).map (·.1) = firstOcc (s.map getInstanceName) ∧
    (∀ g ∈ partitionBy getInstanceName s,
      g.2 = s.filter (fun d => decide (getInstanceName d = g.1)) ∧ g.2 ≠ [] ∧ Sorted g.2) ∧
    partitionByInstanceName s = (partitionBy getInstanceName s).map (·.2) := by
  refine ⟨partition_keys _ s, ?_, rfl⟩
  intro g hg
  obtain ⟨h1, h2⟩ := partition_groups getInstanceName s g hg
  exact ⟨h1, h2, by rw [h1]; exact hs.filter _⟩

/-- `RemoveEmptyBlob`: exactly the digests of non-zero size, in order. -/
theorem C20_set_removeEmpty (s : List Str) (hs : Sorted s) :
    removeEmptyBlob s = s.filter (fun d => !isEmptyBlob d) ∧ Sorted (removeEmptyBlob s) ∧
    ∀ d, d ∈ removeEmptyBlob s ↔ d ∈ s ∧ getSizeBytes d ≠ some 0 := by
  rw [removeEmptyBlob_eq_filter]
  exact ⟨rfl, hs.filter _, fun d => by simp [List.mem_filter, isEmptyBlob]⟩

/-- Two sorted duplicate-free lists with the same members are equal: every correct
implementation of these operations (Go's hash map + sort, the k-way heap merge of `GetUnion`)
computes the same list as the model. -/
theorem C20_set_canonical (a b : List Str) (ha : Sorted a) (hb : Sorted b) (h : ∀ x, x ∈ a ↔ x ∈ b) : a = b :=
  sorted_ext ha hb h

def dA : Str := digestOf md5 hashA 0 compsAB
def dB : Str := digestOf md5 hashA 5 []
def dC : Str := digestOf blake3 hashB 5 compsAB

example : build [dC, dA, dB, dA, dC] = [dA, dB, dC] := by decide
example : Sorted [dA, dB, dC] := by rw [← show build [dC, dA, dB, dA, dC] = [dA, dB, dC] by decide]; exact build_sorted _
example : union [[dA, dC], [], [dB, dC], [dA]] = [dA, dB, dC] := by decide
example : differenceAndIntersection [dA, dC] [dB, dC] = ([dA], [dC], [dB]) := by decide
example : removeEmptyBlob [dA, dB, dC] = [dB, dC] := by decide
example : partitionByInstanceName [dA, dB, dC] = [[dA, dC], [dB]] := by decide

end BB.C20
