import BB.Proofs.Store
/-!
# C01 - Local store returns exactly what was uploaded, or nothing

Statements about the store model `BB.Store` (flat and hierarchical blob access over the block map
and the index).  This file is extended as the invariant proofs grow; theorem names are stable.
-/
namespace BB.C01
open BB.Store
open BB.BlockMap (Ticket finalizeOk)

/-- Failed uploads (size or checksum mismatch, source error) never reach the index. -/
theorem failed_put_invisible (c : Cfg) (s : St) (t : Ticket) (k ck lk : Nat) :
    (flatPutEnd c s t k false).2.tab = s.tab ∧ (hierPutEnd c s t ck lk false).2.tab = s.tab ∧
    (hierPutDedupEnd c s ck lk false).2 = s :=
  ⟨(flatPutEnd_failed c s t k).1, (hierPutEnd_failed c s t ck lk).1, (hierPutDedupEnd_failed c s ck lk).1⟩

/-- Uploads whose target block was rotated away or quarantined during the copy are refused with
INTERNAL and leave the index untouched. -/
theorem released_put_invisible (c : Cfg) (s : St) (t : Ticket) (k : Nat)
    (h : finalizeOk (unpinTicket s t).bm t = false) :
    (flatPutEnd c s t k true).2.tab = s.tab ∧ (flatPutEnd c s t k true).1 = "err internal" :=
  flatPutEnd_released c s t k h

/-- Lookups are sound: the location returned was recorded for exactly this key and lies in a block
that is still resolvable (not released, not quarantined). -/
theorem lookup_sound (c : Cfg) (s : St) (k : Nat) (l : Loc) (h : lookup c s k = some l) :
    ∃ slot R, s.tab slot = some R ∧ R.key = k ∧ R.loc = l ∧ s.thr ≤ l.blockIndex :=
  BB.Store.lookup_sound c s k l h

/-- The copy phase of an upload or refresh changes no byte outside the ticket's own range, for any
chunking and any interleaving with other steps. -/
theorem copy_phase_frame (s : St) (t : Ticket) (at_ : Nat) (bytes : List Nat) (l : Loc)
    (h : Disjoint (locBlk l) (locOff l) (locSize l) t.blk t.off t.size) :
    readLoc (writeAt s t at_ bytes) l = readLoc s l :=
  readLoc_writeAt_frame s t at_ bytes l h

/-- What was written is what is read back from the ticket's location. -/
theorem write_read (s : St) (t : Ticket) (data : List Nat) (h : data.length = t.size) :
    readLoc (writeAt s t 0 data) (mkLoc t.blk t.off t.size) = data :=
  readLoc_writeAt_self s t data h

/-- A refresh preserves the bytes. -/
theorem refresh_preserves (s : St) (t : Ticket) (src : Loc) (h : locSize src = t.size) :
    readLoc (copyLoc s t src) (mkLoc t.blk t.off t.size) = readLoc s src :=
  readLoc_copyLoc s t src h

end BB.C01
