import BB.Proofs.StoreRegions
/-!
# C01 - Local store returns exactly what was uploaded, or nothing

Statements about the store model `BB.Store` (flat and hierarchical blob access over the block map
and the index).  This file is extended as the invariant proofs grow; theorem names are stable.
-/
namespace BB.C01
open BB.Store
open BB.BlockMap (Ticket finalizeOk)

/-- Failed uploads (size or checksum mismatch, source error) never reach the index. -/
theorem failed_put_invisible (c : Cfg) (s : St) (t : Ticket) (k ck lk : Nat) :
    (flatPutEnd c s t k false).2.tab = s.tab ∧ (hierPutEnd c s t ck lk false).2.tab = s.tab ∧
    (hierPutDedupEnd c s ck lk false).2 = s :=
  ⟨(flatPutEnd_failed c s t k).1, (hierPutEnd_failed c s t ck lk).1, (hierPutDedupEnd_failed c s ck lk).1⟩

/-- Uploads whose target block was rotated away or quarantined during the copy are refused with
INTERNAL and leave the index untouched. -/
theorem released_put_invisible (c : Cfg) (s : St) (t : Ticket) (k : Nat)
    (h : finalizeOk (unpinTicket s t).bm t = false) :
    (flatPutEnd c s t k true).2.tab = s.tab ∧ (flatPutEnd c s t k true).1 = "err internal" :=
  flatPutEnd_released c s t k h

/-- Lookups are sound: the location returned was recorded for exactly this key and lies in a block
that is still resolvable (not released, not quarantined). -/
theorem lookup_sound (c : Cfg) (s : St) (k : Nat) (l : Loc) (h : lookup c s k = some l) :
    ∃ slot R, s.tab slot = some R ∧ R.key = k ∧ R.loc = l ∧ s.thr ≤ l.blockIndex :=
  BB.Store.lookup_sound c s k l h

/-- The copy phase of an upload or refresh changes no byte outside the ticket's own range, for any
chunking and any interleaving with other steps. -/
theorem copy_phase_frame (s : St) (t : Ticket) (at_ : Nat) (bytes : List Nat) (l : Loc)
    (h : Disjoint (locBlk l) (locOff l) (locSize l) t.blk t.off t.size) :
    readLoc (writeAt s t at_ bytes) l = readLoc s l :=
  readLoc_writeAt_frame s t at_ bytes l h

/-- What was written is what is read back from the ticket's location. -/
theorem write_read (s : St) (t : Ticket) (data : List Nat) (h : data.length = t.size) :
    readLoc (writeAt s t 0 data) (mkLoc t.blk t.off t.size) = data :=
  readLoc_writeAt_self s t data h

/-- A refresh preserves the bytes. -/
theorem refresh_preserves (s : St) (t : Ticket) (src : Loc) (h : locSize src = t.size) :
    readLoc (copyLoc s t src) (mkLoc t.blk t.off t.size) = readLoc s src :=
  readLoc_copyLoc s t src h

/-! ### The region invariant: what is visible is what was uploaded

`RInv c P s T` (see `BB/Proofs/StoreRegions.lean`): every live index record lies inside the used
prefix of a block of the list and its bytes satisfy `P key bytes`; every outstanding ticket in `T`
(space reserved, copy possibly still running) lies inside the used prefix, tickets are pairwise
disjoint and disjoint from every live record.  `P` is arbitrary: for the CAS it is "hashes to the
digest behind the key", for the AC "is a value that was uploaded successfully for the key"; the
obligation to establish `P` for freshly copied data sits exactly where the Go code validates it
(the `copied` flag, C09).  The lemmas below are per lock region / unlocked action, so they compose
over every interleaving of operations. -/

theorem region_inv_init (c : Cfg) (P : Nat → List Nat → Prop) (hc : BB.BlockMap.CfgOK c.bm)
    (hf : c.bm.policy.bound ≤ c.fuelGrow) (hg : 0 < c.idx.maxGet) (free : Nat) :
    RInv c P { bm := BB.BlockMap.init c.bm [] free } [] := rinv_init c P hc hf hg free

/-- Reserving space (incl. any rotations, quarantine releases and the resulting evictions). -/
theorem region_inv_allocate {c : Cfg} {P : Nat → List Nat → Prop} {s s' : St} {T : List Ticket} {size : Nat} {t : Ticket}
    (h : RInv c P s T) (ha : allocate c s size = .ok t s') : RInv c P s' (t :: T) := rinv_allocate h ha

theorem region_inv_allocate_err {c : Cfg} {P : Nat → List Nat → Prop} {s s' : St} {T : List Ticket} {size : Nat} {e : String}
    (h : RInv c P s T) (ha : allocate c s size = .err e s') : RInv c P s' T := rinv_allocate_err h ha

/-- **Regions handed out are disjoint**: from each other and from everything that is visible. -/
theorem region_disjoint {c : Cfg} {P : Nat → List Nat → Prop} {s : St} {T : List Ticket} (h : RInv c P s T) :
    T.Pairwise DisjT ∧
    ∀ t ∈ T, ∀ k l, BB.Index.InTab s.thr s.tab k l → Disjoint (locBlk l) (locOff l) (locSize l) t.blk t.off t.size :=
  ⟨h.tickTick, h.tickRec⟩

/-- The unlocked copy phase, chunk by chunk, in any interleaving: nothing visible changes. -/
theorem region_inv_write {c : Cfg} {P : Nat → List Nat → Prop} {s : St} {T : List Ticket} (h : RInv c P s T)
    (t : Ticket) (ht : t ∈ T) (a : Nat) (bs : List Nat) : RInv c P (writeAt s t a bs) T := rinv_write h t ht a bs

/-- Publishing a ticket whose region holds valid content for the keys. -/
theorem region_inv_finalize {c : Cfg} {P : Nat → List Nat → Prop} {s s' : St} {T : List Ticket} (h : RInv c P s T)
    (t : Ticket) (ht : t ∈ T) (keys : List Nat) (hf : finalize c s t keys = some s')
    (hP : ∀ k ∈ keys, P k (readLoc s (mkLoc t.blk t.off t.size))) : RInv c P s' (T.erase t) :=
  rinv_finalize h t ht keys hf hP

/-- A failed or overtaken upload is simply forgotten. -/
theorem region_inv_abandon {c : Cfg} {P : Nat → List Nat → Prop} {s : St} {T : List Ticket} (h : RInv c P s T) (t : Ticket) :
    RInv c P s (T.erase t) := rinv_abandon h t

/-- Registering a sub-range of a live record under a key for which it is valid content: the slices of
`GetFromComposite`, the canonical sync and the dedup upload of the hierarchical store. -/
theorem region_inv_register {c : Cfg} {P : Nat → List Nat → Prop} {s : St} {T : List Ticket} (h : RInv c P s T)
    (k : Nat) (l' : Loc) (k0 : Nat) (l0 : Loc) (h0 : BB.Index.InTab s.thr s.tab k0 l0) (hsub : SubRange l' l0)
    (hP : P k (readLoc s l')) : RInv c P (indexPut c s k l') T := rinv_indexPut h k l' k0 l0 h0 hsub hP

/-- Reader/writer reference counting and integrity reports do not disturb it. -/
theorem region_inv_housekeeping {c : Cfg} {P : Nat → List Nat → Prop} {s : St} {T : List Ticket} (h : RInv c P s T)
    (l : Loc) (blk : Nat) (hl : locBlk l < s.bm.released + s.bm.caps.length) :
    RInv c P (pinLoc s l) T ∧ RInv c P { s with bm := BB.BlockMap.unpin s.bm blk } T ∧ RInv c P (reportBad s l) T :=
  ⟨rinv_pinLoc h l, rinv_unpin h blk, rinv_reportBad h l hl⟩

/-- **Read your uploads.** In every state reachable through the steps above - any history, any
interleaving of the unlocked copy phases, any sizes, sector/block geometry and old/current/new
counts - a lookup that resolves reads back bytes that are valid content for exactly that key:
never another object's bytes, never a mixture, never a partially written object. With
`P k bytes := "bytes hash to the digest behind k"` this also says that re-validating a read on an
uncorrupted medium cannot fail. -/
theorem read_your_uploads {c : Cfg} {P : Nat → List Nat → Prop} {s : St} {T : List Ticket} (h : RInv c P s T)
    (k : Nat) (l : Loc) (hl : lookup c s k = some l) : P k (readLoc s l) := rinv_read h k l hl

/-- End of a flat upload as one step: the writer's pin is dropped, and the object is published
only if the copy succeeded, the region holds valid content and the block is still there. -/
theorem region_inv_flatPutEnd {c : Cfg} {P : Nat → List Nat → Prop} {s : St} {T : List Ticket} (h : RInv c P s T)
    (t : Ticket) (ht : t ∈ T) (k : Nat) (copied : Bool)
    (hP : copied = true → P k (readLoc s (mkLoc t.blk t.off t.size))) :
    RInv c P (flatPutEnd c s t k copied).2 (T.erase t) := by
  have h1 : RInv c P (unpinTicket s t) T := rinv_unpin h t.blk
  unfold flatPutEnd
  cases copied
  · simpa using rinv_abandon h1 t
  · simp only [Bool.not_true, Bool.false_eq_true, if_false]
    cases hf : finalize c (unpinTicket s t) t [k] with
    | none => simpa using rinv_abandon h1 t
    | some s' =>
      have := rinv_finalize h1 t ht [k] hf (by
        intro k' hk'
        simp at hk'; subst hk'
        exact hP rfl)
      simpa using this

/-- Non-vacuity: a complete upload into the empty store, then a read. -/
def exampleRun : Option (List Nat) :=
  let c : Cfg := { idx := { slot := fun _ a => a % 2, maxGet := 2, maxPut := 4 },
                   bm := ⟨.immutable ⟨2⟩, 8, 1, 1⟩, fuelGrow := 10 }
  let s0 : St := { bm := BB.BlockMap.init c.bm [] 100 }
  match allocate c s0 3 with
  | .ok t s1 =>
    let s2 := writeAt s1 t 0 [7, 8, 9]
    let s3 := (flatPutEnd c s2 t 5 true).2
    (lookup c s3 5).map (readLoc s3)
  | _ => none

example : exampleRun = some [7, 8, 9] := by decide

end BB.C01
