import BB.Proofs.ErrorHandlingSound
import BB.Proofs.ErrorHandlingStacked
/-!
# C16 - I/O-error recovery resumes at the right offset: each byte delivered exactly once

Property theorems only (helper lemmas live in `BB/Proofs/ErrorHandling*.lean`).
All statements are about `BB.ErrorHandling.runOp base h op`: `buffer.WithErrorHandler(base, handler)`
followed by one consuming operation, where

* `base` and every replacement is any of the buffer kinds (validated byte slice, error buffer, CAS
  buffer over a chunk reader / over a reader) with an arbitrary script of chunks and failures - every
  chunking, every failure position, any number of failures;
* `h` is an arbitrary list of handler answers (replacement buffers that may themselves fail or be
  error buffers, or a translated error);
* `op` is any of `ToByteSlice`, `IntoWriter` (with a writer that may fail), `ReadAt(off, n)`,
  `ToReader` with arbitrary read sizes and early `Close`, `ToChunkReader(off, m)` with early `Close`,
  `Discard`, `GetSizeBytes`.

Vocabulary (`BB/Proofs/ErrorHandling.lean`, `ErrorHandlingOps.lean`): `delivered r` = all bytes the
consumer received, `Complete r` = the consumer was told it has everything, `ResultErr r e` = the
consumer received error `e`, `window D op` = the part of `D` the operation asks for
(`D`, `D[off:]`, `D[off:off+n]`).
-/
namespace BB.C16
open BB.ErrorHandling

/-! ### Exactly once -/

/-- **No gap, no repeat.**  If the base buffer and all replacements hold the object `D` - or a prefix
of it up to the point where they fail; failing is their only defect - then whatever the consumer has
received at any point, also on error and on early close, is a prefix of the requested part of `D`, and
if it was told that it has everything it has exactly that part.  No assumption on the digest's hash:
this is the arithmetic of the resume offsets alone. -/
theorem C16_exactly_once (D : Bytes) (base : Buf) (h : List Resp) (op : Op)
    (hb : Good D base) (hh : GoodH D h)
    (ht : (∃ off n, op = .readAt off n) → Tight base ∧ TightH h) :
    delivered (runOp base h op).result <+: window D op ∧
    (Complete (runOp base h op).result → delivered (runOp base h op).result = window D op) := by
  obtain ⟨_, w2⟩ := withEH_spec h base
  unfold runOp
  generalize withEH base h = w at w2
  obtain ⟨wb, l, dn⟩ := w
  cases wb with
  | plain b =>
    simp only [] at w2 ⊢
    rcases w2.2 with ⟨data, rfl, hsrc, _⟩ | ⟨e, rfl, _⟩ | ⟨data, suf, rfl, hsrc, _⟩
    · have hg : Good D (.bytes data) := by
        rcases hsrc with rfl | hm
        · exact hb
        · exact hh _ hm
      simp only [Good] at hg; subst hg
      exact plainOp_bytes_good data op
    · obtain ⟨p1, p2, _⟩ := plainOp_error e op
      rw [p1]
      exact ⟨List.nil_prefix, fun hc => absurd hc p2⟩
    · have hg : Good D (.readerAt data suf) := by
        rcases hsrc with rfl | hm
        · exact hb
        · exact hh _ hm
      simp only [Good] at hg; subst hg
      refine plainOp_readerAt_good data suf op (fun hop => ?_)
      obtain ⟨t1, t2⟩ := ht hop
      rcases hsrc with rfl | hm
      · exact t1
      · exact t2 _ hm
  | eh b d =>
    simp only [] at w2 ⊢
    obtain ⟨_, hsrc, hcas, _, _, hmem⟩ := w2
    have hg : Good D b := by
      rcases hsrc with rfl | hm
      · exact hb
      · exact hh _ hm
    refine ehOp_good D b d _ op hg (IsCas.size_of_good hcas hg) (fun b' hb' => hh b' (hmem b' hb')) (fun hop => ?_)
    obtain ⟨t1, t2⟩ := ht hop
    refine ⟨?_, fun b' hb' => t2 b' (hmem b' hb')⟩
    rcases hsrc with rfl | hm
    · exact t1
    · exact t2 _ hm

example :
    let D := [1, 2, 3, 4, 5]
    let d : Digest := ⟨5, fun x => x == D⟩
    let base := Buf.chunks d [.data [1, 2], .fail 1, .data [3, 4, 5]]
    let h := [Resp.repl (.reader d [.data [1, 2, 3], .fail 2]), Resp.repl (.bytes D)]
    Good D base ∧ GoodH D h ∧
    delivered (runOp base h (.chunkReader 1 2 99)).result = [2, 3, 4, 5] ∧
    (runOp base h (.chunkReader 1 2 99)).log = [.tag 1, .tag 2] := by
  refine ⟨⟨rfl, ⟨[3, 4, 5], rfl⟩⟩, ?_, by decide, by decide⟩
  intro b hb
  simp only [List.mem_cons, Resp.repl.injEq, List.mem_nil_iff, or_false] at hb
  rcases hb with rfl | rfl
  · exact ⟨rfl, ⟨[4, 5], rfl⟩⟩
  · rfl

/-! ### Validation across the stitched parts -/

/-- **The digest check covers the stitched stream.**  For arbitrary contents of the base buffer and
of all replacements (wrong bytes, too few, too many, in any chunking): if all of them carry the digest
`d`, and `D` is the only byte string with `d`'s size and checksum (no collision for `d`; validated
byte slices hold `D`, which is what "validated" promises), then a consumer that was told it has
everything has exactly the requested part of `D`. -/
theorem C16_validated_across_parts (d : Digest) (D : Bytes) (base : Buf) (h : List Resp) (op : Op)
    (hd : ∀ x, d.valid x = true → x.length = d.size → x = D)
    (hb : Sealed d D base) (hh : SealedH d D h)
    (ht : (∃ off n, op = .readAt off n) → Tight base ∧ TightH h)
    (hc : Complete (runOp base h op).result) :
    delivered (runOp base h op).result = window D op := by
  obtain ⟨_, w2⟩ := withEH_spec h base
  unfold runOp at hc ⊢
  generalize withEH base h = w at w2 hc
  obtain ⟨wb, l, dn⟩ := w
  cases wb with
  | plain b =>
    simp only [] at w2 hc ⊢
    rcases w2.2 with ⟨data, rfl, hsrc, _⟩ | ⟨e, rfl, _⟩ | ⟨data, suf, rfl, hsrc, _⟩
    · have hg : Sealed d D (.bytes data) := by
        rcases hsrc with rfl | hm
        · exact hb
        · exact hh _ hm
      simp only [Sealed] at hg; subst hg
      exact (plainOp_bytes_good data op).2 hc
    · exact absurd hc (plainOp_error e op).2.1
    · have hg : Sealed d D (.readerAt data suf) := by
        rcases hsrc with rfl | hm
        · exact hb
        · exact hh _ hm
      simp only [Sealed] at hg; subst hg
      refine (plainOp_readerAt_good data suf op (fun hop => ?_)).2 hc
      obtain ⟨t1, t2⟩ := ht hop
      rcases hsrc with rfl | hm
      · exact t1
      · exact t2 _ hm
  | eh b d' =>
    simp only [] at w2 hc ⊢
    obtain ⟨_, hsrc, hcas, _, _, hmem⟩ := w2
    have hg : Sealed d D b := by
      rcases hsrc with rfl | hm
      · exact hb
      · exact hh _ hm
    have hdd : d' = d := IsCas.digest_of_sealed hcas hg
    subst hdd
    refine ehOp_sealed d' D b _ op hd hg (fun b' hb' => hh b' (hmem b' hb')) (fun hop => ?_) hc
    obtain ⟨t1, t2⟩ := ht hop
    refine ⟨?_, fun b' hb' => t2 b' (hmem b' hb')⟩
    rcases hsrc with rfl | hm
    · exact t1
    · exact t2 _ hm

/-- Without the no-collision assumption: what a completed whole-object read delivered has the
digest's size and checksum (stated for the streaming reader; the stitched parts are validated
together, no part is validated on its own). -/
theorem C16_validated_stream (d : Digest) (s : List Item) (h : List Resp) (sizes : List Nat)
    (hc : Complete (ehOp (.reader d s) d h (.reader sizes)).result) :
    d.valid (delivered (ehOp (.reader d s) d h (.reader sizes)).result) = true ∧
    (delivered (ehOp (.reader d s) d h (.reader sizes)).result).length = d.size := by
  obtain ⟨_, r2, _⟩ := VR.run_struct sizes (vr0 (.reader d s) d h) (.reader d s) rfl (openReader_owns _ 0)
  simp only [ehOp, Complete, delivered] at hc ⊢
  obtain ⟨x, hx⟩ := hc
  obtain ⟨a1, a2, _⟩ := r2 x hx
  exact ⟨by simpa [vr0] using a1, a2⟩

example :
    let D := [1, 2, 3]
    let d : Digest := ⟨3, fun x => x == D⟩
    -- the base buffer fails after one byte, the replacement holds a wrong third byte
    let base := Buf.reader d [.data [1], .fail 1]
    let h := [Resp.repl (.chunks d [.data [1, 2, 9]])]
    Sealed d D base ∧ SealedH d D h ∧ (∀ x, d.valid x = true → x.length = d.size → x = D) ∧
    (runOp base h (.reader [1, 1, 1, 1])).result = .reads [([1], .ok), ([], .ok), ([2], .ok), ([], .err .hashMismatch)] := by
  refine ⟨rfl, ?_, ?_, rfl⟩
  · intro b hb
    simp only [List.mem_cons, Resp.repl.injEq, List.mem_nil_iff, or_false] at hb
    subst hb; rfl
  · intro x hx _
    simpa using hx

/-! ### Handler calls -/

/-- **Every error is offered once, in order; `Done` exactly once; no raw error reaches the
consumer.**  For every base buffer, handler script and operation:
* `Done` is called exactly once (also for `Discard`, `GetSizeBytes`, early `Close`, a failing writer,
  an invalid offset, and when the handler is already consulted inside `WithErrorHandler`);
* the `OnError` calls form a chain: the first is an error of the base buffer, each later one is an
  error of the replacement returned by the call before it, and after an answer that is not a
  replacement the handler is not called again - so each buffer's failure is offered exactly once, in
  the order in which the buffers are used;
* an error the consumer receives is the handler's decision (the error of its last answer), or an
  integrity/offset/size-limit error raised by the buffer layer itself, or its own writer's error -
  never the raw error of an underlying buffer. -/
theorem C16_handler_calls (base : Buf) (h : List Resp) (op : Op) :
    (runOp base h op).done = 1 ∧ Chain base h (runOp base h op).log ∧
    (∀ e, ResultErr (runOp base h op).result e →
      e.isIntegrity ∨ e = .writer ∨ decision h (runOp base h op).log.length = some e) := by
  obtain ⟨w1, w2⟩ := withEH_spec h base
  unfold runOp
  generalize withEH base h = w at w1 w2
  obtain ⟨wb, l, dn⟩ := w
  cases wb with
  | plain b =>
    simp only [] at w1 w2 ⊢
    refine ⟨w2.1, w1, fun e he => ?_⟩
    rcases w2.2 with ⟨data, rfl, _, _⟩ | ⟨e', rfl, hdec⟩ | ⟨data, suf, rfl, _, _⟩
    · rcases plainOp_bytes_err data op e he with hi | hw
      · exact Or.inl hi
      · exact Or.inr (Or.inl hw)
    · have := (plainOp_error e' op).2.2 e he
      subst this
      exact Or.inr (Or.inr hdec)
    · rcases plainOp_readerAt_err data suf op e he with rfl | ⟨a, b, rfl⟩ | ⟨a, b, rfl⟩
      · exact Or.inr (Or.inl rfl)
      · exact Or.inl trivial
      · exact Or.inl trivial
  | eh b d =>
    simp only [] at w1 w2 ⊢
    obtain ⟨hdn, _, _, hch, hdec, _⟩ := w2
    obtain ⟨c1, c2, c3⟩ := ehOp_calls b d (h.drop l.length) op
    refine ⟨by rw [hdn, c1], hch _ c2, fun e he => ?_⟩
    rcases c3 e he with hi | hw | hd
    · exact Or.inl hi
    · exact Or.inr (Or.inl hw)
    · exact Or.inr (Or.inr (by rw [List.length_append, hdec]; exact hd))

/-- **An error the handler returns is what the consumer gets.**  Once the handler has answered with
an error (`decision h n = some e`, `n` the number of calls), no operation reports success; the
operations that are retried as a whole (`ToByteSlice`, `ReadAt`) report exactly that error.  (For the
streaming operations `C16_handler_calls` adds: any error they report is that error or an integrity
error of the validating layer; a consumer that closes early may see no error at all.) -/
theorem C16_handler_error_returned (base : Buf) (h : List Resp) (op : Op) (e : Err)
    (hdec : decision h (runOp base h op).log.length = some e) :
    ¬ Complete (runOp base h op).result ∧
    (((∃ max, op = .slice max) ∨ (∃ off n, op = .readAt off n)) → ResultErr (runOp base h op).result e) := by
  obtain ⟨_, w2⟩ := withEH_spec h base
  unfold runOp at hdec ⊢
  generalize withEH base h = w at w2 hdec
  obtain ⟨wb, l, dn⟩ := w
  cases wb with
  | plain b =>
    simp only [] at w2 hdec ⊢
    rcases w2.2 with ⟨data, rfl, _, hnone⟩ | ⟨e', rfl, hsome⟩ | ⟨data, suf, rfl, _, hnone⟩
    rotate_left 2
    · rw [hnone] at hdec; simp at hdec
    · rw [hnone] at hdec; simp at hdec
    · rw [hsome] at hdec
      simp only [Option.some.injEq] at hdec; subst hdec
      refine ⟨(plainOp_error e' op).2.1, ?_⟩
      rintro (⟨max, rfl⟩ | ⟨off, n, rfl⟩)
      · simp [plainOp, baseSlice, ResultErr]
      · simp [plainOp, baseReadAt, ResultErr]
  | eh b d =>
    simp only [] at w2 hdec ⊢
    obtain ⟨_, _, _, _, hd, _⟩ := w2
    rw [List.length_append, hd] at hdec
    refine ⟨fun hc => ?_, fun hop => ehOp_decided b d _ op e hop hdec⟩
    rw [ehOp_complete_undecided b d _ op hc] at hdec
    simp at hdec

example :
    let d : Digest := ⟨2, fun x => x == [1, 2]⟩
    let base := Buf.chunks d [.data [1], .fail 1]
    let h := [Resp.repl (.error (.tag 2)), Resp.fail 3]
    let o := runOp base h (.writer none)
    o.log = [.tag 1, .tag 2] ∧ o.done = 1 ∧ decision h o.log.length = some (.tag 3) ∧
    o.result = .writes [[1]] (some (.tag 3)) :=
  ⟨rfl, rfl, rfl, rfl⟩

/-! ### Recovery works: intact buffers are never rejected -/

/-- **A stream stitched from intact buffers is accepted.**  If every buffer is intact (it holds `D`,
or a prefix of `D` followed by a failure; error buffers carry failures, not complaints about the
data), then no size or checksum error is ever raised - neither offered to the handler nor returned to
the consumer: the only errors the consumer can see are the handler's decision, its own writer's error
and its own invalid offset / size limit.  Together with `C16_exactly_once`: with a handler that keeps
supplying intact replacements the consumer gets the object.  (Resuming at a wrong offset would
surface exactly as such a spurious "corrupt" verdict.) -/
theorem C16_intact_never_rejected (D : Bytes) (base : Buf) (h : List Resp) (op : Op)
    (hb : Sound D base) (hh : SoundH D h) :
    (∀ e, e ∈ (runOp base h op).log → ¬ e.isCorruption) ∧
    (∀ e, ResultErr (runOp base h op).result e → ¬ e.isCorruption) := by
  obtain ⟨_, w2⟩ := withEH_spec h base
  have wl := withEH_log_sound D h base hb hh
  unfold runOp
  generalize withEH base h = w at w2 wl
  obtain ⟨wb, l, dn⟩ := w
  cases wb with
  | plain b =>
    simp only [] at w2 wl ⊢
    refine ⟨wl, fun e he => ?_⟩
    rcases w2.2 with ⟨data, rfl, _, _⟩ | ⟨e', rfl, hdec⟩ | ⟨data, suf, rfl, _, _⟩
    · exact plainOp_bytes_not_corrupt data op e he
    · have := (plainOp_error e' op).2.2 e he
      subst this
      exact decision_not_corrupt _ _ _ hdec
    · exact plainOp_readerAt_not_corrupt data suf op e he
  | eh b d =>
    simp only [] at w2 wl ⊢
    obtain ⟨_, hsrc, hcas, _, _, hmem⟩ := w2
    have hg : Sound D b := by
      rcases hsrc with rfl | hm
      · exact hb
      · exact hh _ hm
    obtain ⟨s1, s2⟩ := ehOp_sound D b d (h.drop l.length) op hg hcas (fun b' hb' => hh b' (hmem b' hb'))
    refine ⟨fun e he => ?_, s2⟩
    rcases List.mem_append.mp he with h1 | h1
    · exact wl e h1
    · exact s1 e h1

example :
    let D := [1, 2, 3]
    let d : Digest := ⟨3, fun x => x == D⟩
    let base := Buf.reader d [.data [1, 2], .fail 1]
    let h := [Resp.repl (.chunks d [.data [1], .data [2, 3]])]
    Sound D base ∧ SoundH D h ∧
    (runOp base h (.reader [2, 2, 2])).result = .reads [([1, 2], .ok), ([], .ok), ([3], .eof)] := by
  refine ⟨⟨rfl, rfl, ⟨[3], rfl⟩, fun h => by simp [scan] at h⟩, ?_, rfl⟩
  intro b hb
  simp only [List.mem_cons, Resp.repl.injEq, List.mem_nil_iff, or_false] at hb
  subst hb
  exact ⟨rfl, rfl, ⟨[], rfl⟩, fun _ => rfl⟩

/-! ### Cloned buffers as replacements -/

/-- **A cloned buffer resumes at the requested offset.**  One half of `CloneStream()` of a CAS buffer
(`Buf.clone`), opened unvalidated at offset `off` - as a chunk reader or as a reader - yields the
source's bytes from `off` on: `toUnvalidatedReader(off)` / `toUnvalidatedChunkReader(off, m)` skip
`off` bytes of the shared stream.  All C16 theorems above quantify over `Buf` and hence cover clone
halves as base buffers and as replacements. -/
theorem C16_clone_resumes_at_offset (d : Digest) (s : List Item) (off m : Nat) :
    (openReader (.clone d s) off).rest = ((scan s).1.flatten).drop off ∧
    (openChunks (.clone d s) off m).1.flatten = ((scan s).1.flatten).drop off :=
  ⟨openReader_rest (.clone d s) off, openChunks_flatten (.clone d s) off m⟩

example :
    let D := [1, 2, 3, 4]
    let d : Digest := ⟨4, fun x => x == D⟩
    let base := Buf.reader d [.data [1, 2], .fail 1]
    let h := [Resp.repl (.clone d [.data [1, 2, 3], .data [4]])]
    Good D base ∧ GoodH D h ∧
    (runOp base h (.reader [3, 3, 3])).result = .reads [([1, 2], .ok), ([], .ok), ([3, 4], .eof)] := by
  refine ⟨⟨rfl, ⟨[3, 4], rfl⟩⟩, ?_, rfl⟩
  intro b hb
  simp only [List.mem_cons, Resp.repl.injEq, List.mem_nil_iff, or_false] at hb
  subst hb
  exact ⟨rfl, ⟨[], rfl⟩⟩

/-! ### Validated `ReaderAt` buffers as replacements -/

/-- **A `ReaderAt`-backed buffer resumes at the offset and stops at the object's end.**  A buffer
from `NewValidatedBufferFromReaderAt` over storage that continues with other bytes after the object
(`Buf.readerAt data suffix`, any `suffix`), opened unvalidated at `off` - as a reader or as a chunk
reader - yields exactly `data[off:]`: the section it reads has length `size - off`, not `size`.  As
`Good`/`Sealed`/`Sound` only ask `data = D` of such a buffer, all C16 theorems cover it as base and as
replacement with arbitrary trailing bytes; only `ReadAt`, which that buffer hands to the `ReaderAt`
unbounded, needs the storage to end with the object (`Tight`). -/
theorem C16_readerAt_stops_at_size (data suffix : Bytes) (off m : Nat) :
    (openReader (.readerAt data suffix) off).rest = data.drop off ∧
    (openChunks (.readerAt data suffix) off m).1.flatten = data.drop off ∧
    (off ≤ data.length → (openReader (.readerAt data suffix) off).term = .eof ∧
      (openChunks (.readerAt data suffix) off m).2 = .eof) := by
  refine ⟨openReader_rest _ off, openChunks_flatten _ off m, fun h => ?_⟩
  have : ¬ off > data.length := by omega
  simp [openReader, openChunks, this, RSrc.term]

example :
    let D := [1, 2, 3]
    let d : Digest := ⟨3, fun x => x == D⟩
    let base := Buf.reader d [.data [1, 2], .fail 1]
    -- the replacement's storage continues with 7, 8, 9 after the object
    let h := [Resp.repl (.readerAt D [7, 8, 9])]
    Sound D base ∧ SoundH D h ∧
    (runOp base h (.reader [2, 5, 5])).result = .reads [([1, 2], .ok), ([], .ok), ([3], .eof)] ∧
    (runOp base h (.writer none)).result = .writes [[1, 2], [3]] none := by
  refine ⟨⟨rfl, rfl, ⟨[3], rfl⟩, fun h => by simp [scan] at h⟩, ?_, rfl, rfl⟩
  intro b hb
  simp only [List.mem_cons, Resp.repl.injEq, List.mem_nil_iff, or_false] at hb
  subst hb
  rfl

/-! ### `ReadAt` is retried as a whole -/

/-- **`ReadAt` results are never stitched.**  What `casErrorHandlingBuffer.ReadAt(p, off)` returns on
success is the answer of *one* buffer - the base or one of the handler's replacements - to the whole
request `ReadAt(p, off)` at the same offset: whatever a failed attempt had already put into `p`
(a `ReaderAt` may return the bytes before a medium error together with the error) is discarded and
the replacement is asked for the full range again.  With `C16_exactly_once` this is why the result
is the exact range of the object. -/
theorem C16_readAt_not_stitched (b : Buf) (d : Digest) (h : List Resp) (off n : Nat) (x : Bytes) (fl : Bool)
    (hr : (ehOp b d h (.readAt off n)).result = .readAt (.ok (x, fl))) :
    ∃ b', (b' = b ∨ Resp.repl b' ∈ h) ∧ baseReadAt off n b' = .ok (x, fl) := by
  obtain ⟨_, r2, _⟩ := retry_spec (baseReadAt off n) (fun b e => baseReadAt_own) h b
  simp only [ehOp, Result.readAt.injEq] at hr
  obtain ⟨_, b', hb', hf⟩ := r2 (x, fl) hr
  exact ⟨b', hb', hf⟩

/-! ### Stacked error handlers -/

/-- **Exactly once through stacked handlers.**  A handler may answer with a buffer that carries an
error handler of its own (`GResp.repl (stackedOpen m b hin)`, to any depth; plain buffers are
`GResp.ofResp`).  Such a buffer is opened by the outer reader at the delivered offset `off > 0`; its
own `errorHandlingChunkReader` starts there and must resume *its* replacements at `off` plus what it
has returned.  If every source involved holds `D` or a prefix of `D` up to its failure, the stream the
outer reader stitches is a prefix of `D` from its start offset on: no byte twice, none skipped.
`ehChunksG` restricted to plain buffers is the model's `ehChunks` (`ehChunksG_flat`). -/
theorem C16_stacked_exactly_once (D : Bytes) (m : Nat) (base : Buf) (h : List GResp) (off : Nat)
    (hb : Good D base) (hh : GoodG D h) :
    evBytes (ehChunksG (openChunks base off m) off h).1 <+: D.drop off :=
  ehChunksG_prefix D h _ _ off hh (goodOpen_flat D m base hb off)

/-- The building blocks of `GoodG`: plain buffers and stacked buffers over good parts. -/
theorem C16_stacked_parts (D : Bytes) (m : Nat) (b : Buf) (hb : Good D b) :
    GoodOpen D (fun off => openChunks b off m) ∧
    (∀ hin, GoodG D hin → GoodOpen D (stackedOpen m b hin)) :=
  ⟨goodOpen_flat D m b hb, fun hin hh => goodOpen_stacked D m b hin hb hh⟩

example :
    -- the base delivers byte 1 and fails; the replacement is a stacked buffer whose source fails at
    -- once and whose own handler supplies the object again: it is resumed at offset 1 and yields nothing
    let d : Digest := ⟨1, fun x => x == [1]⟩
    let base := Buf.chunks d [.data [1], .fail 1]
    let inner := stackedOpen 65536 (.reader d [.fail 4, .data [1]]) [GResp.ofResp 65536 (.repl (.chunks d [.data [1]]))]
    (ehChunksG (openChunks base 0 65536) 0 [.repl inner]).1 = [.chunk [1], .onErr (.tag 1)] ∧
    (ehChunksG (openChunks base 0 65536) 0 [.repl inner]).2 = .eof ∧
    inner 1 = ([], .eof) ∧ inner 0 = ([[1]], .eof) :=
  ⟨rfl, rfl, rfl, rfl⟩

end BB.C16
