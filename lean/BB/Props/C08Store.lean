import BB.Proofs.StoreCarries
import BB.Proofs.StoreHier
/-!
# C08 at store level

`BB.C08` is about the block map. Here the index is added (`BB.Store`): once a read of location `l` has reported
corruption, no lookup - of any key, through any later history of store primitives - ever resolves to a location in
`l`'s block or an older one again, while a key whose newest location lies in a newer block resolves exactly as
before the report.
-/
namespace BB.C08Store
open BB.Gen BB.Index BB.BlockMap BB.Store

/-- The quarantine threshold right after the report is above the reported block. -/
theorem report_thr (s : Store.St) (l : Store.Loc) : ((locBlk l : Nat) : Int) + 1 ≤ (reportBad s l).thr := by
  simp [St.thr, reportBad, reportCorruption]
  omega

/-- **Hidden, forever.** In any state whose threshold is at least the one right after the report - which is every state
the store can reach from there, see `hidden_along_history` - whatever a lookup resolves to lies in a strictly newer
block than the corrupted one. -/
theorem hidden_forever (c : Store.Cfg) (s s'' : Store.St) (l : Store.Loc) (hnn : 0 ≤ l.blockIndex)
    (hthr : (reportBad s l).thr ≤ s''.thr) (k : Nat) (l2 : Store.Loc) (h2 : lookup c s'' k = some l2) :
    l.blockIndex < l2.blockIndex := by
  have h1 := report_thr s l
  have h3 : s''.thr ≤ l2.blockIndex := lookup_live h2
  simp [locBlk] at h1
  omega

/-- Every history of store primitives (reservations with rotations, finalizers, index updates, readers and writers
opening and closing, copies) keeps the threshold at or above the one right after the report. -/
theorem hidden_along_history (c : Store.Cfg) (q : Nat) (s s'' : Store.St) (l : Store.Loc) (hnn : 0 ≤ l.blockIndex)
    (hinv : SInv c (reportBad s l)) (r : PReach c q (reportBad s l) s'')
    (k : Nat) (l2 : Store.Loc) (h2 : lookup c s'' k = some l2) : l.blockIndex < l2.blockIndex :=
  hidden_forever c s s'' l hnn (thr_le_of_tbr (carries_reach hinv r).step.tbrMono) k l2 h2

/-- **Newer blocks are unaffected.** A key whose newest location lies in a block above the corrupted one resolves
to the same position right after the report. -/
theorem newer_unaffected (c : Store.Cfg) (s : Store.St) (l : Store.Loc) (h : SInv c s) (hnn : 0 ≤ l.blockIndex)
    (hl : locBlk l < s.bm.released + s.bm.caps.length) (k : Nat) (l2 : Store.Loc) (h2 : lookup c s k = some l2)
    (hnew : l.blockIndex < l2.blockIndex) :
    ∃ l3, lookup c (reportBad s l) k = some l3 ∧ SamePos l3 l2 := by
  have hinv := reportBad_spec h l hl
  have hlive : s.thr ≤ l2.blockIndex := lookup_live h2
  have hthr : (reportBad s l).thr ≤ l2.blockIndex := by
    simp [St.thr, reportBad, reportCorruption, locBlk] at *
    omega
  have hsame : (reportBad s l).tab = s.tab := rfl
  have hi : InTab (reportBad s l).thr (reportBad s l).tab k l2 := by
    rw [hsame]; exact inTab_thr (lookup_inTab h2) hthr
  obtain ⟨l3, h3, ho⟩ := lookup_of_inTab hinv hi
  refine ⟨l3, h3, samePos_of_not_older ho ?_⟩
  -- l3 was already in the table before the report, and l2 was the newest there
  have hi3 : InTab s.thr s.tab k l3 := by
    have := lookup_inTab h3
    rw [hsame] at this
    have hl3 : s.thr ≤ l3.blockIndex := by
      have := inTab_live this
      have h0 : s.thr ≤ (reportBad s l).thr := by simp [St.thr, reportBad, reportCorruption]; omega
      omega
    exact inTab_thr this hl3
  exact (get_best_some h.idx h2).2 l3 hi3

end BB.C08Store
