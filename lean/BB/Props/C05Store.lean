import BB.Proofs.StoreCarries
import BB.Proofs.StoreHier
import BB.Props.C05
/-!
# C05 at store level

`BB.C05.survives` is about the block map alone. Here the index is added: in the store model
(`BB.Store`), a key that a lookup resolved to a location in a block that is not "old" - which is what a
successful `Get` / a `FindMissing` reporting "present" leaves behind, either because the location was fresh
or because it was refreshed - keeps resolving, to a location that is not older, through every history of
store primitives (reservations with any number of rotations, finalizers, index updates of other and of the
same key, readers and writers opening and closing, copies) during which at most `desiredOld` further
blocks are allocated and the index reports no discarded record of that key. Corruption reports are not
among the primitives ("provided the medium is not corrupted").
-/
namespace BB.C05Store
open BB.Gen BB.Index BB.BlockMap BB.Store

/-- Block-map half, for any history of block-map steps (not only allocations). -/
theorem block_survives {cb : BlockMap.Cfg} {b b' : BlockMap.St} (st : Step cb b b') (hq : Quiet cb b) (B : Nat)
    (hB : b.released + b.old ≤ B) (hB2 : B < b.released + b.caps.length)
    (hp : b'.pushes - b.pushes ≤ cb.desiredOld) : resolvable b' B = true ∧ b'.toBeReleased ≤ B := by
  obtain ⟨q, a, bb, d⟩ := st.quiet hq
  have := st.relMono; have := st.endMono; have := st.pushMono
  have hq0 := hq.2; have hq1 := q.1; have hq2 := q.2
  have hrel : b'.released ≤ B := by
    by_cases hlt : b.released < b'.released
    · have := d hlt; omega
    · omega
  refine ⟨?_, by omega⟩
  simp [resolvable]
  omega

/-- **Store-level survival, fresh location.** -/
theorem store_survives (c : Store.Cfg) (k : Nat) (s s' : Store.St) (l : Store.Loc)
    (h : SInv c s) (hq : Quiet c.bm s.bm) (r : PReach c k s s')
    (hl : lookup c s k = some l) (hfresh : locNeedsRefresh s l = false)
    (hin : locBlk l < s.bm.released + s.bm.caps.length)
    (hp : s'.bm.pushes - s.bm.pushes ≤ c.bm.desiredOld) :
    ∃ l', lookup c s' k = some l' ∧ l'.isOlder l = false := by
  have ca := carries_reach h r
  have hlive : s.thr ≤ l.blockIndex := lookup_live hl
  have hrel := h.wf.rel
  have hnn : (0 : Int) ≤ l.blockIndex := by simp [St.thr] at hlive; omega
  have hge : s.bm.released + s.bm.old ≤ locBlk l := by
    simp [locNeedsRefresh, needsRefresh] at hfresh
    simp [St.thr, locBlk] at *
    omega
  obtain ⟨_, hle⟩ := block_survives ca.step hq (locBlk l) hge hin hp
  apply ca.keep l hl
  simp [St.thr, locBlk] at *
  omega

/-- **Store-level survival, refreshed (or uploaded) location.** The space was reserved at `s0` (ticket `t`;
`BB.C05.fresh_not_old`: never in an old block), any history later its finalizer registered it under `k`, and any
history after that the key still resolves to it or to something newer - as long as at most `desiredOld` further
blocks were allocated since the reservation. -/
theorem store_survives_refresh (c : Store.Cfg) (k : Nat) (s0 s sm sm' s' : Store.St) (size : Nat) (t : Ticket)
    (h0 : SInv c s0) (hq : Quiet c.bm s0.bm) (ha : allocate c s0 size = .ok t s)
    (r1 : PReach c k s sm) (hf : finalize c sm t [k] = some sm')
    (hnd : ∀ d, d ∈ putKeysDisc c.idx sm.thr ⟨sm.tab⟩ [k] (mkLoc t.blk t.off t.size) → d.key ≠ k)
    (r2 : PReach c k sm' s')
    (hp : s'.bm.pushes - s.bm.pushes ≤ c.bm.desiredOld) :
    ∃ l', lookup c s' k = some l' ∧ l'.isOlder (mkLoc t.blk t.off t.size) = false := by
  -- the reservation
  have sp := allocate_spec h0 size
  rw [ha] at sp
  obtain ⟨hs, _, _, _, st0, _, _⟩ := sp
  have hq1 := (st0.quiet hq).1
  obtain ⟨bm', hput0, hs'⟩ := allocate_ok_put ha
  have hfn := BB.C05.fresh_not_old c.bm c.fuelGrow size s0.bm h0.cfg h0.wf h0.fuel t s.bm (by rw [hs']; exact hput0)
  obtain ⟨_, hlo, hhi, _⟩ := hfn
  -- up to the finalizer, and beyond
  have c1 := carries_reach hs r1
  have c2 := carries_finalize c1.inv t [k] hf hnd
  have c3 := carries_reach c2.inv r2
  have call := (c1.trans c2).trans c3
  obtain ⟨_, hle⟩ := block_survives call.step hq1 t.blk (by omega) hhi hp
  -- the finalizer registers the location
  have hl : sm.thr ≤ (mkLoc t.blk t.off t.size).blockIndex := by
    have sf := finalize_spec c1.inv t [k]
    rw [hf] at sf
    simp [St.thr, mkLoc]; omega
  have hput : ∃ l1, lookup c sm' k = some l1 ∧ l1.isOlder (mkLoc t.blk t.off t.size) = false := by
    unfold finalize at hf
    by_cases hok : finalizeOk sm.bm t = true
    · simp only [hok, if_true, Option.some.injEq] at hf
      subst hf
      have hself : InTab sm.thr (Index.put c.idx sm.thr sm.tab k (mkLoc t.blk t.off t.size)).1 k (mkLoc t.blk t.off t.size) ∨ True := Or.inr trivial
      have hk := putAux_keeps c.idx sm.thr c.idx.maxPut sm.tab ⟨k, 0, mkLoc t.blk t.off t.size⟩ hl
      change Keeps sm.thr sm.tab (Index.put c.idx sm.thr sm.tab k (mkLoc t.blk t.off t.size)).1 ⟨k, 0, mkLoc t.blk t.off t.size⟩
        (Index.put c.idx sm.thr sm.tab k (mkLoc t.blk t.off t.size)).2 at hk
      rcases hk.complete k (mkLoc t.blk t.off t.size) (Or.inr ⟨rfl, rfl⟩) with ⟨l1, hi1, ho1⟩ | ⟨d, hd, hdk, _⟩
      · have hi1' : InTab sm.thr (putKeys c.idx sm.thr ⟨sm.tab⟩ [k] (mkLoc t.blk t.off t.size)).t k l1 := by
          simpa [putKeys] using hi1
        obtain ⟨l2, hl2, ho2⟩ := lookup_of_inTab c2.inv (k := k) (l0 := l1) hi1'
        exact ⟨l2, hl2, not_older_trans ho1 ho2⟩
      · exfalso
        apply hnd d _ hdk
        simp [putKeysDisc, hd]
    · simp [hok] at hf
  obtain ⟨l1, hl1, ho1⟩ := hput
  have hb1 := not_older_blk ho1
  obtain ⟨l2, hl2, ho2⟩ := c3.keep l1 hl1 (by
    simp [St.thr, mkLoc] at *
    omega)
  exact ⟨l2, hl2, not_older_trans ho1 ho2⟩

/-! ### Composite reads

`GetFromComposite` reads the child through the parent. What it leaves behind for the *parent* is what a `Get` leaves
behind: either the parent's location is fresh when the call looks it up (then `store_survives` applies to the
parent key), or the call reserves space for a refresh before anything is served (then, once the region after slicing
has finalized that reservation, `store_survives_refresh` applies). The first theorem is the case distinction
itself: a parent in an old block is never served - neither directly nor through an existing child entry - without a
refresh having been reserved. (Nothing is claimed for the child read on its own later: a child entry that predates
a still fresh parent is served from wherever it is.) -/

theorem composite_old_parent_reserves (c : Store.Cfg) (s : Store.St) (pk ck : Nat) (pl : Store.Loc)
    (hl : lookup c s pk = some pl) (hr : locNeedsRefresh s pl = true) :
    match flatCompositeBegin c s pk ck with
    | .done r s' => ∃ e, r = s!"err {e}" ∧ allocateForRefresh c s pl = .err e s'
    | .slice p (some t) s' => p = pl ∧ allocateForRefresh c s pl = .ok t s'
    | .slice _ none _ => False
    | .broken => allocateForRefresh c s pl = .broken := by
  unfold flatCompositeBegin
  simp only [hl, hr, if_true]
  cases allocateForRefresh c s pl with
  | ok t s' => exact ⟨rfl, rfl⟩
  | err e s' => exact ⟨e, rfl, rfl⟩
  | broken => rfl

/-- A composite read that is answered from the fast path (data at once, or the slicer started without a
reservation) found the parent in a block that is not old: `store_survives` applies to the parent from this state. -/
theorem composite_fast_path_parent_fresh (c : Store.Cfg) (s : Store.St) (pk ck : Nat) (pl : Store.Loc)
    (hl : lookup c s pk = some pl) :
    (match flatCompositeBegin c s pk ck with
     | .slice _ none _ => True
     | .done r _ => ∃ cl, lookup c s ck = some cl ∧ r = s!"data {showBytes (readLoc s cl)}"
     | _ => False) →
    locNeedsRefresh s pl = false := by
  intro h
  cases hr : locNeedsRefresh s pl with
  | false => rfl
  | true =>
    exfalso
    have := composite_old_parent_reserves c s pk ck pl hl hr
    cases hb : flatCompositeBegin c s pk ck with
    | done r s' =>
      rw [hb] at this h
      obtain ⟨e, he, _⟩ := this
      obtain ⟨cl, _, hd⟩ := h
      rw [he] at hd
      -- "err ..." is not "data ..."
      have hc := congrArg String.toList hd
      simp only [String.toList_append] at hc
      have h1 : (toString "err ").toList = ['e', 'r', 'r', ' '] := by decide
      have h2 : (toString "data ").toList = ['d', 'a', 't', 'a', ' '] := by decide
      rw [h1, h2] at hc
      simp at hc
    | slice p t s' =>
      rw [hb] at this h
      cases t with
      | none => exact this
      | some t => exact h
    | broken => rw [hb] at h; exact h

/-- The parent key of a composite read that was served from the fast path survives like a key that was just read. -/
theorem composite_parent_survives (c : Store.Cfg) (pk ck : Nat) (s s' : Store.St) (pl : Store.Loc)
    (h : SInv c s) (hq : Quiet c.bm s.bm) (r : PReach c pk s s')
    (hl : lookup c s pk = some pl)
    (hfast : match flatCompositeBegin c s pk ck with
     | .slice _ none _ => True
     | .done r _ => ∃ cl, lookup c s ck = some cl ∧ r = s!"data {showBytes (readLoc s cl)}"
     | _ => False)
    (hin : locBlk pl < s.bm.released + s.bm.caps.length)
    (hp : s'.bm.pushes - s.bm.pushes ≤ c.bm.desiredOld) :
    ∃ l', lookup c s' pk = some l' ∧ l'.isOlder pl = false :=
  store_survives c pk s s' pl h hq r hl (composite_fast_path_parent_fresh c s pk ck pl hl hfast) hin hp

/-! Non-vacuity (a test): an upload of key 5, then two further uploads that each allocate a block (`desiredOld = 2`),
all as primitive steps without index discards: key 5 still resolves, and a third new block evicts it. -/
def exampleRun (extra : Nat) : Option (Option (List Nat)) :=
  let c : Store.Cfg :=
    { idx := { slot := fun k a => (k + 2 * a) % 16, maxGet := 2, maxPut := 4 },
      bm := ⟨.immutable ⟨1⟩, 4, 2, 1⟩, fuelGrow := 10 }
  let s0 : Store.St := { bm := BB.BlockMap.init c.bm [] 100 }
  let up (s : Store.St) (k : Nat) : Option Store.St :=
    match allocate c s 4 with
    | .ok t s1 => finalize c (unpinTicket (writeAt s1 t 0 [k, k, k, k]) t) t [k]
    | _ => none
  match up s0 5 with
  | some s1 => ((List.range extra).foldl (fun s i => s.bind (up · (10 + i))) (some s1)).map
      fun s => (lookup c s 5).map (readLoc s)
  | none => none

example : exampleRun 2 = some (some [5, 5, 5, 5]) ∧ exampleRun 3 = some none := by decide

end BB.C05Store
