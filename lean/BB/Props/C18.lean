import BB.Proofs.Auth
/-!
# C18 - Authorization: no backend access for a denied instance name

Property theorems (helper lemmas live in `BB/Proofs/Auth.lean`).  All statements are about
`BB.Auth.Authz.authorize` (the model of `Authorizer.Authorize`, with `any` being the successive
filtering of `anyAuthorizer.Authorize`) and `BB.Auth.run` (the model of
`authorizingBlobAccess.{Get,GetFromComposite,Put,FindMissing}`), for *every* authorizer tree
(arbitrary nesting of `any`, arbitrary per-name behaviour of the leaves: allow, deny, or any other
error), every batch of instance names (duplicates included), every digest list and every order in
which the Go map iteration may list the distinct instance names.

What an authorizer says about one instance name is what `AuthorizeSingleInstanceName` returns:
`a.single n` (= element 0 of `a.authorize [n]`).
-/
namespace BB.C18
open BB.Auth

/-- The authorizer allows the name (`nil` error). -/
def Grants (a : Authz) (n : Name) : Prop := a.single n = some none

/-- The authorizer answers `PermissionDenied`. -/
def Denies (a : Authz) (n : Name) : Prop := ∃ e, a.single n = some (some e) ∧ e.isDenial = true

/-- The authorizer fails with an error `e` that is not `PermissionDenied`. -/
def Fails (a : Authz) (n : Name) (e : Err) : Prop := a.single n = some (some e) ∧ e.isDenial = false

instance (a : Authz) (n : Name) : Decidable (Grants a n) := by unfold Grants; infer_instance
instance (a : Authz) (n : Name) (e : Err) : Decidable (Fails a n e) := by unfold Fails; infer_instance

theorem grants_iff (a : Authz) (n : Name) : Grants a n ↔ a.verdict n = none := by
  simp [Grants, single_eq]

theorem denies_iff (a : Authz) (n : Name) : Denies a n ↔ pending (a.verdict n) = true := by
  simp only [Denies, single_eq, Option.some.injEq]
  constructor
  · rintro ⟨e, h, he⟩; simp [h, pending, he]
  · intro h
    cases hv : a.verdict n with
    | none => simp [hv, pending] at h
    | some e => exact ⟨e, rfl, by simpa [hv, pending] using h⟩

theorem fails_iff (a : Authz) (n : Name) (e : Err) :
    Fails a n e ↔ a.verdict n = some e ∧ pending (a.verdict n) = false := by
  simp only [Fails, single_eq, Option.some.injEq]
  constructor
  · rintro ⟨h, he⟩; simp [h, pending, he]
  · rintro ⟨h, hp⟩; exact ⟨h, by simpa [h, pending] using hp⟩

/-- Every authorizer gives exactly one of the three answers. -/
theorem trichotomy (a : Authz) (n : Name) : Grants a n ∨ Denies a n ∨ ∃ e, Fails a n e := by
  rw [grants_iff, denies_iff]
  cases hv : a.verdict n with
  | none => exact Or.inl rfl
  | some e =>
    by_cases hp : pending (some e) = true
    · exact Or.inr (Or.inl hp)
    · exact Or.inr (Or.inr ⟨e, (fails_iff a n e).2 ⟨hv, by simpa [hv] using hp⟩⟩)

/-! ## Batches: every position gets the answer its name gets alone -/

/-- `Authorize` returns one error per instance name, and the entry at position `i` is what the
same authorizer answers when asked about `ns[i]` alone: the successive filtering of `any`
(arbitrarily nested) never lets the other names of a batch - allowed, denied, failing, or
duplicates of the same name - influence the answer for a name. -/
theorem C18_batch_pointwise (a : Authz) (ns : List Name) :
    (a.authorize ns).length = ns.length ∧
    ∀ (i : Nat) (n : Name), ns[i]? = some n → (a.authorize ns)[i]? = a.single n := by
  refine ⟨authorize_length a ns, fun i n h => ?_⟩
  simp [authorize_eq_map, single_eq, h]

/-- `AuthorizeSingleInstanceName` never indexes out of range. -/
theorem C18_single_defined (a : Authz) (n : Name) : ∃ v, a.single n = some v :=
  ⟨_, single_eq a n⟩

example : (Authz.any [.leaf 1 (fun n => if n = 0 then none else some ⟨7, 1⟩),
      .any [.leaf 2 (fun n => if n = 1 then some ⟨14, 2⟩ else none), .any []]]).authorize [2, 1, 0, 1]
    = [none, some ⟨14, 2⟩, none, some ⟨14, 2⟩] := by decide

/-! ## `any` -/

/-- Exact characterisation of `any`: its answer for a name is the answer of the first member (in
configuration order) that does not answer `PermissionDenied`; if every member denies it is the first
member's denial, and the static `PermissionDenied` if there is no member. -/
theorem C18_any_first_decisive (ms : List Authz) (n : Name) :
    ((∀ m ∈ ms, Denies m n) ∧ Denies (.any ms) n ∧
      (Authz.any ms).single n = (match ms with
        | [] => some (some staticDenied)
        | m0 :: _ => m0.single n)) ∨
    (∃ pre m post, ms = pre ++ m :: post ∧ (∀ p ∈ pre, Denies p n) ∧ ¬ Denies m n ∧
      (Authz.any ms).single n = m.single n) := by
  rcases split_first n ms with hall | ⟨pre, m, post, rfl, hpre, hm⟩
  · left
    have hv := verdictAny_all_pending n ms hall
    refine ⟨fun m hm => (denies_iff m n).2 (hall m hm), ?_, ?_⟩
    · rw [denies_iff, Authz.verdict, hv]
      cases ms with
      | nil => exact pending_staticDenied
      | cons m0 rest => exact hall m0 (by simp)
    · rw [single_eq, Authz.verdict, hv]
      cases ms with
      | nil => rfl
      | cons m0 rest => simp [single_eq]
  · right
    refine ⟨pre, m, post, rfl, fun p hp => (denies_iff p n).2 (hpre p hp), ?_, ?_⟩
    · rw [denies_iff, hm]; simp
    · rw [single_eq, single_eq, Authz.verdict, verdictAny_prefix n m pre post hpre hm]

/-- Soundness: `any` grants a name only if one of its members grants it - for a single request
and at every position of every batch. -/
theorem C18_any_sound (ms : List Authz) (n : Name) (h : Grants (.any ms) n) :
    ∃ m ∈ ms, Grants m n := by
  rcases C18_any_first_decisive ms n with ⟨_, hd, _⟩ | ⟨pre, m, post, rfl, _, _, heq⟩
  · obtain ⟨e, he, _⟩ := hd
    rw [Grants, he] at h
    simp at h
  · exact ⟨m, by simp, by rw [Grants, ← heq]; exact h⟩

theorem C18_any_sound_batch (ms : List Authz) (ns : List Name) (i : Nat) (n : Name)
    (hn : ns[i]? = some n) (h : ((Authz.any ms).authorize ns)[i]? = some none) :
    ∃ m ∈ ms, Grants m n :=
  C18_any_sound ms n (by rw [Grants, ← (C18_batch_pointwise (.any ms) ns).2 i n hn]; exact h)

example : Grants (.any [.leaf 1 (fun _ => some ⟨7, 1⟩), .leaf 2 (fun _ => none)]) 5 := by decide

mutual
  /-- The leaves of an authorizer tree. -/
  def leaves : Authz → List (Nat × (Name → Verdict))
    | .leaf id beh => [(id, beh)]
    | .any ms => leavesList ms
  def leavesList : List Authz → List (Nat × (Name → Verdict))
    | [] => []
    | m :: ms => leaves m ++ leavesList ms
end

theorem mem_leavesList {l : Nat × (Name → Verdict)} : ∀ {ms : List Authz} {m : Authz},
    m ∈ ms → l ∈ leaves m → l ∈ leavesList ms
  | [], _, h, _ => by simp at h
  | x :: ms, m, h, hl => by
    simp only [leavesList, List.mem_append]
    rcases List.mem_cons.1 h with rfl | h
    · exact Or.inl hl
    · exact Or.inr (mem_leavesList h hl)

/-- Soundness down to the leaves, through any nesting: a granted name is granted by an actual
(non-`any`) authorizer of the configuration. -/
theorem C18_any_sound_leaf : ∀ (a : Authz) (n : Name), Grants a n →
    ∃ l ∈ leaves a, l.2 n = none
  | .leaf id beh, n, h => by
    refine ⟨(id, beh), by simp [leaves], ?_⟩
    simpa [grants_iff, Authz.verdict] using h
  | .any ms, n, h => by
    obtain ⟨m, hm, hg⟩ := C18_any_sound ms n h
    have : sizeOf m < 1 + sizeOf ms := by
      have := List.sizeOf_lt_of_mem hm
      omega
    obtain ⟨l, hl, hln⟩ := C18_any_sound_leaf m n hg
    exact ⟨l, by simp only [leaves]; exact mem_leavesList hm hl, hln⟩
termination_by a => sizeOf a
decreasing_by simp_wf; omega

/-- Completeness: if a member grants the name and no earlier member fails with an error other
than `PermissionDenied` (each earlier member grants or denies), `any` grants it.  Errors of
*later* members are irrelevant. -/
theorem C18_any_complete (pre post : List Authz) (m : Authz) (n : Name)
    (hpre : ∀ p ∈ pre, Grants p n ∨ Denies p n) (hm : Grants m n) :
    Grants (.any (pre ++ m :: post)) n := by
  rcases C18_any_first_decisive (pre ++ m :: post) n with ⟨hall, _, _⟩ | ⟨pre', m', post', heq, hpre', hm', hres⟩
  · obtain ⟨e, he, _⟩ := hall m (by simp)
    rw [Grants, he] at hm
    simp at hm
  · -- the first member that does not deny is `m` or an earlier one, which then grants
    rw [Grants, hres]
    have key : m' = m ∨ m' ∈ pre := by
      -- compare the two decompositions by the length of the prefixes
      by_cases hlt : pre'.length < pre.length
      · right
        have h1 : (pre ++ m :: post)[pre'.length]? = some m' := by rw [heq]; simp
        rw [List.getElem?_append_left hlt] at h1
        exact List.mem_of_getElem? h1
      · by_cases hgt : pre.length < pre'.length
        · exfalso
          have h1 : (pre' ++ m' :: post')[pre.length]? = some m := by rw [← heq]; simp
          rw [List.getElem?_append_left hgt] at h1
          obtain ⟨e, he, _⟩ := hpre' m (List.mem_of_getElem? h1)
          rw [Grants, he] at hm
          simp at hm
        · left
          have hlen : pre'.length = pre.length := by omega
          have h1 : (pre ++ m :: post)[pre.length]? = some m := by simp
          rw [heq, ← hlen] at h1
          simpa using h1
    rcases key with rfl | hin
    · exact hm
    · rcases hpre m' hin with hg | hd
      · exact hg
      · exact absurd hd hm'

example : Grants (.any ([.leaf 1 (fun _ => some ⟨7, 1⟩)] ++ .leaf 2 (fun _ => none) ::
    [.leaf 3 (fun _ => some ⟨14, 3⟩)])) 0 :=
  C18_any_complete _ _ _ 0 (fun p hp => by
    simp at hp; subst hp; right; exact ⟨⟨7, 1⟩, by decide, by decide⟩) (by decide)

/-- A member's failure other than denial is reported instead of granting: if every earlier member
denies the name and member `m` fails with `e`, then `any` returns exactly `e` - whatever the later
members would say, in particular even if a later member would grant. -/
theorem C18_any_reports_failure (pre post : List Authz) (m : Authz) (n : Name) (e : Err)
    (hpre : ∀ p ∈ pre, Denies p n) (hm : Fails m n e) :
    Fails (.any (pre ++ m :: post)) n e ∧ ¬ Grants (.any (pre ++ m :: post)) n := by
  have hv : (Authz.any (pre ++ m :: post)).verdict n = m.verdict n := by
    rw [Authz.verdict]
    exact verdictAny_prefix n m pre post (fun p hp => (denies_iff p n).1 (hpre p hp))
      ((fails_iff m n e).1 hm).2
  refine ⟨?_, ?_⟩
  · rw [fails_iff, hv]; exact (fails_iff m n e).1 hm
  · rw [grants_iff, hv, ((fails_iff m n e).1 hm).1]; simp

/-- ... and conversely `any` fails with a non-denial error only if that is the error of a member
all of whose predecessors denied the name; it never invents or transforms an error. -/
theorem C18_any_failure_origin (ms : List Authz) (n : Name) (e : Err) (h : Fails (.any ms) n e) :
    ∃ pre m post, ms = pre ++ m :: post ∧ (∀ p ∈ pre, Denies p n) ∧ Fails m n e := by
  rcases C18_any_first_decisive ms n with ⟨_, hd, _⟩ | ⟨pre, m, post, rfl, hpre, _, heq⟩
  · obtain ⟨e', he', hden⟩ := hd
    obtain ⟨h1, h2⟩ := h
    rw [he'] at h1
    simp only [Option.some.injEq] at h1
    subst h1
    rw [hden] at h2
    simp at h2
  · exact ⟨pre, m, post, rfl, hpre, by rw [Fails, ← heq]; exact h⟩

example : Fails (.any ([.leaf 1 (fun _ => some ⟨7, 1⟩)] ++ .leaf 2 (fun _ => some ⟨14, 2⟩) ::
    [.leaf 3 (fun _ => none)])) 0 ⟨14, 2⟩ :=
  (C18_any_reports_failure _ _ _ 0 ⟨14, 2⟩ (fun p hp => by
    simp at hp; subst hp; exact ⟨⟨7, 1⟩, by decide, by decide⟩) (by decide)).1

/-- "Exactly when": `any` grants a name iff some member grants it and every earlier member
denies it (in particular, grants implies some member grants; and a granting member all of whose
predecessors grant or deny implies grants, `C18_any_complete`). -/
theorem C18_any_grants_iff (ms : List Authz) (n : Name) :
    Grants (.any ms) n ↔
      ∃ pre m post, ms = pre ++ m :: post ∧ (∀ p ∈ pre, Denies p n) ∧ Grants m n := by
  constructor
  · intro h
    rcases C18_any_first_decisive ms n with ⟨_, hd, _⟩ | ⟨pre, m, post, rfl, hpre, _, heq⟩
    · obtain ⟨e, he, _⟩ := hd
      rw [Grants, he] at h
      simp at h
    · exact ⟨pre, m, post, rfl, hpre, by rw [Grants, ← heq]; exact h⟩
  · rintro ⟨pre, m, post, rfl, hpre, hm⟩
    exact C18_any_complete pre post m n (fun p hp => Or.inr (hpre p hp)) hm

/-- No authorizer of a tree - at any nesting depth - is ever asked about an instance name that is
not part of the request (`a.calls ns` lists the `Authorize` calls reaching the leaves). -/
theorem C18_calls_within_batch (a : Authz) (ns : List Name) (id : Nat) (asked : List Name)
    (h : (id, asked) ∈ a.calls ns) : ∀ n ∈ asked, n ∈ ns :=
  calls_subset a ns (id, asked) h

example : (Authz.any [.leaf 1 (fun n => if n = 0 then none else some ⟨7, 1⟩),
      .leaf 2 (fun _ => none)]).calls [0, 1, 2, 1] = [(1, [0, 1, 2, 1]), (2, [1, 2, 1])] := by decide

/-! ## The decorator -/

theorem wellFormed_findMissing {ds : List Digest} {order : List Name}
    (h : (Op.findMissing ds order).wellFormed = true) :
    (∀ d ∈ ds, d.inst ∈ order) ∧ (∀ n ∈ order, ∃ d ∈ ds, d.inst = n) := by
  simp only [Op.wellFormed, validOrder, Bool.and_eq_true, List.all_eq_true, List.any_eq_true,
    List.contains_iff_mem, beq_iff_eq, decide_eq_true_eq] at h
  exact ⟨h.1.1, h.1.2⟩

theorem guardSingle_spec (a : Authz) (n : Name) (call : BCall) (isPut : Bool) :
    (Grants a n ∧ (guardSingle a n call isPut).backend = [call] ∧
      (guardSingle a n call isPut).result = .forwarded ∧
      (guardSingle a n call isPut).discards = 0 ∧
      (guardSingle a n call isPut).handed = (if isPut then 1 else 0)) ∨
    (∃ e, a.single n = some (some e) ∧ (guardSingle a n call isPut).backend = [] ∧
      (guardSingle a n call isPut).result = .denied e .authorization ∧
      (guardSingle a n call isPut).discards = (if isPut then 1 else 0) ∧
      (guardSingle a n call isPut).handed = 0) := by
  unfold guardSingle
  rw [single_eq]
  cases hv : a.verdict n with
  | none => left; simp [Grants, single_eq, hv]
  | some e => right; exact ⟨e, by simp⟩

/-- Main theorem.  For every configuration and every operation (FindMissing: every digest list
and every order of its distinct instance names), with `a` the authorizer in charge of the
operation kind (get authorizer for Get and GetFromComposite, put authorizer for Put, findMissing
authorizer for FindMissing) and `names` the instance names involved (Get/Put: the digest's;
GetFromComposite: the parent's - this is all the code checks; FindMissing: those of all digests):

1. the backend is reached only if `a` granted every name involved;
2. if some name involved is not granted, the backend is not contacted at all and the caller
   receives the error `a` returned for a name involved (for FindMissing: wrapped with that name);
3. if all names are granted, exactly one backend call is made, with unchanged arguments, and
   its result is passed through;
4. the decorator never panics. -/
theorem C18_backend_only_if_allowed (c : Config) (op : Op) (hwf : op.wellFormed = true) :
    ((run c op).backend ≠ [] → ∀ n ∈ op.names, Grants (op.authorizer c) n) ∧
    ((∃ n ∈ op.names, ¬ Grants (op.authorizer c) n) →
      (run c op).backend = [] ∧
      ∃ n ∈ op.names, ∃ e w, (op.authorizer c).single n = some (some e) ∧
        (run c op).result = .denied e w ∧
        (∀ ds order, op = .findMissing ds order → w = .instanceName n)) ∧
    ((∀ n ∈ op.names, Grants (op.authorizer c) n) →
      (run c op).backend = [op.call] ∧ (run c op).result = .forwarded) ∧
    (run c op).result ≠ .panic := by
  -- the three single-name operations
  have single : ∀ (a : Authz) (n : Name) (call : BCall) (isPut : Bool),
      ((guardSingle a n call isPut).backend ≠ [] → ∀ x ∈ [n], Grants a x) ∧
      ((∃ x ∈ [n], ¬ Grants a x) → (guardSingle a n call isPut).backend = [] ∧
        ∃ x ∈ [n], ∃ e w, a.single x = some (some e) ∧
          (guardSingle a n call isPut).result = .denied e w) ∧
      ((∀ x ∈ [n], Grants a x) → (guardSingle a n call isPut).backend = [call] ∧
        (guardSingle a n call isPut).result = .forwarded) ∧
      (guardSingle a n call isPut).result ≠ .panic := by
    intro a n call isPut
    rcases guardSingle_spec a n call isPut with ⟨hg, hb, hr, _, _⟩ | ⟨e, he, hb, hr, _, _⟩
    · refine ⟨fun _ x hx => by simp at hx; subst hx; exact hg, fun ⟨x, hx, hng⟩ => ?_,
        fun _ => ⟨hb, hr⟩, by rw [hr]; simp⟩
      simp at hx; subst hx; exact absurd hg hng
    · refine ⟨fun h => absurd hb h, fun _ => ⟨hb, n, by simp, e, _, he, hr⟩, fun h => ?_,
        by rw [hr]; simp⟩
      have := h n (by simp)
      rw [Grants, he] at this
      simp at this
  cases op with
  | get d =>
    obtain ⟨h1, h2, h3, h4⟩ := single c.getA d.inst (.get d) false
    refine ⟨h1, fun h => ?_, h3, h4⟩
    obtain ⟨hb, x, hx, e, w, he, hr⟩ := h2 h
    exact ⟨hb, x, hx, e, w, he, hr, fun _ _ hh => by simp at hh⟩
  | getComposite p ch =>
    obtain ⟨h1, h2, h3, h4⟩ := single c.getA p.inst (.getComposite p ch) false
    refine ⟨h1, fun h => ?_, h3, h4⟩
    obtain ⟨hb, x, hx, e, w, he, hr⟩ := h2 h
    exact ⟨hb, x, hx, e, w, he, hr, fun _ _ hh => by simp at hh⟩
  | put d =>
    obtain ⟨h1, h2, h3, h4⟩ := single c.putA d.inst (.put d) true
    refine ⟨h1, fun h => ?_, h3, h4⟩
    obtain ⟨hb, x, hx, e, w, he, hr⟩ := h2 h
    exact ⟨hb, x, hx, e, w, he, hr, fun _ _ hh => by simp at hh⟩
  | findMissing ds order =>
    obtain ⟨hsub, hsup⟩ := wellFormed_findMissing hwf
    simp only [Op.names, Op.authorizer, Op.call, run, List.mem_map]
    rw [authorize_eq_map]
    cases hfe : firstError order (order.map c.fmA.verdict) with
    | some ne =>
      obtain ⟨n, e⟩ := ne
      obtain ⟨hn, hv⟩ := firstError_map_some _ order n e hfe
      obtain ⟨d, hd, hdn⟩ := hsup n hn
      refine ⟨fun h => by simp at h, fun _ => ⟨rfl, n, ⟨d, hd, hdn⟩, e, .instanceName n, ?_, rfl,
        fun _ _ _ => rfl⟩, fun h => ?_, by simp⟩
      · rw [single_eq, hv]
      · have := h n ⟨d, hd, hdn⟩
        rw [grants_iff, hv] at this
        simp at this
    | none =>
      have hall := firstError_map_none _ order hfe
      refine ⟨fun _ n ⟨d, hd, hdn⟩ => ?_, fun ⟨n, ⟨d, hd, hdn⟩, hng⟩ => ?_, fun _ => ⟨rfl, rfl⟩, by simp⟩
      · rw [grants_iff]; exact hall n (hdn ▸ hsub d hd)
      · exact absurd ((grants_iff _ _).2 (hall n (hdn ▸ hsub d hd))) hng

/-- Non-vacuity: a mixed batch (instance names 0 and 1 allowed, 2 denied by both members of an
`any`) is rejected with the error for name 2 whatever the order; the all-allowed batch goes
through. -/
example :
    let a : Authz := .any [.leaf 1 (fun n => if n = 0 then none else some ⟨7, 1⟩),
                            .leaf 2 (fun n => if n = 1 then none else some ⟨7, 2⟩)]
    let c : Config := ⟨a, a, a⟩
    (run c (.findMissing [⟨0, 10⟩, ⟨2, 11⟩, ⟨1, 12⟩, ⟨0, 13⟩] [1, 2, 0])).backend = [] ∧
    (run c (.findMissing [⟨0, 10⟩, ⟨2, 11⟩, ⟨1, 12⟩, ⟨0, 13⟩] [1, 2, 0])).result
      = .denied ⟨7, 1⟩ (.instanceName 2) ∧
    (run c (.findMissing [⟨0, 10⟩, ⟨1, 12⟩] [1, 0])).backend = [.findMissing [⟨0, 10⟩, ⟨1, 12⟩]] ∧
    (Op.findMissing [⟨0, 10⟩, ⟨2, 11⟩, ⟨1, 12⟩, ⟨0, 13⟩] [1, 2, 0]).wellFormed = true := by
  decide

/-- The upload buffer handed to `Put` is released exactly once on every path: either it is passed
on to the backend (exactly when the backend `Put` call is made, which then owns it) or the
decorator discards it - never both, never neither.  The other operations carry no buffer.

This is stated of the *repaired* decorator (`b.Discard()` before returning the authorization
error).  The pinned `authorizingBlobAccess.Put` returns on denial without discarding (defect D8):
there `discards = 0 ∧ handed = 0`, which the correspondence run reports as
"Put denied by the authorizer does not release the upload buffer". -/
theorem C18_put_buffer_released (c : Config) (op : Op) :
    (∀ d, op = .put d →
      (run c op).discards + (run c op).handed = 1 ∧
      ((run c op).handed = 1 ↔ (run c op).backend = [.put d]) ∧
      ((run c op).discards = 1 ↔ ¬ Grants c.putA d.inst)) ∧
    ((∀ d, op ≠ .put d) → (run c op).discards = 0 ∧ (run c op).handed = 0) := by
  constructor
  · rintro d rfl
    simp only [run]
    rcases guardSingle_spec c.putA d.inst (.put d) true with ⟨hg, hb, _, hd, hh⟩ | ⟨e, he, hb, _, hd, hh⟩
    · rw [hd, hh, hb]; simp [hg]
    · rw [hd, hh, hb]
      simp [Grants, he]
  · intro h
    cases op with
    | get d =>
      simp only [run]
      rcases guardSingle_spec c.getA d.inst (.get d) false with ⟨_, _, _, hd, hh⟩ | ⟨_, _, _, _, hd, hh⟩ <;>
        simp [hd, hh]
    | getComposite p ch =>
      simp only [run]
      rcases guardSingle_spec c.getA p.inst (.getComposite p ch) false with ⟨_, _, _, hd, hh⟩ | ⟨_, _, _, _, hd, hh⟩ <;>
        simp [hd, hh]
    | put d => exact absurd rfl (h d)
    | findMissing ds order =>
      simp only [run]
      split <;> simp

example :
    let c : Config := ⟨.any [], .leaf 1 (fun n => if n = 0 then none else some ⟨14, 1⟩), .any []⟩
    (run c (.put ⟨0, 5⟩)).handed = 1 ∧ (run c (.put ⟨0, 5⟩)).discards = 0 ∧
    (run c (.put ⟨3, 5⟩)).handed = 0 ∧ (run c (.put ⟨3, 5⟩)).discards = 1 ∧
    (run c (.put ⟨3, 5⟩)).result = .denied ⟨14, 1⟩ .authorization := by decide

end BB.C18
