import BB.Proofs.SyncerDurable
/-!
# C07 - persistence never stalls

Theorems about `BB.Syncer.step` (the model the driver `bbmodel_c07` executes and
the correspondence harness compares with the real `PeriodicSyncer` +
`PersistentBlockList`), over **all** interleavings: `Reachable` closes the initial
state under every enabled action of the environment (uploads' finalizers,
`PushBack`, `PopFront`, clock, cancellation, collaborator results) and of the two
loops, in any order.
-/
namespace BB.C07
open BB.Syncer

variable {c : Cfg} {free : List Nat} {oldest t0 : Nat} {s : State}

theorem reachable_run {s s' : State} (h : Reachable c free oldest t0 s) :
    ∀ {as : List Act}, run c s as = some s' → Reachable c free oldest t0 s' := by
  intro as
  induction as generalizing s with
  | nil => intro hr; simp [run] at hr; subst hr; exact h
  | cons a as ih =>
    intro hr
    simp only [run] at hr
    cases hs : step c s a with
    | none => rw [hs] at hr; cases hr
    | some s1 => rw [hs] at hr; exact ih (Reachable.step a h hs) hr

/-! ## Safety: the wake-up machinery never panics and never loses a notification -/

/-- `close of closed channel` is unreachable for both notification channels (no
generation is ever closed twice), and so are the index-out-of-range panics of
`PopFront`, `GetPersistentState` and `NotifyPersistentStateWritten`. -/
theorem C07_no_double_close (hf : free.Nodup) (h : Reachable c free oldest t0 s) :
    s.bl.putCh.panicked = false ∧ s.bl.relCh.panicked = false ∧ s.bl.oob = false ∧
    s.bl.putCh.closed.Nodup ∧ s.bl.relCh.closed.Nodup := by
  have i := (inv1_reachable hf h).bl
  exact ⟨i.putWf.ok, i.relWf.ok, i.noOob, i.putWf.nodup, i.relWf.nodup⟩

/-- An unsynchronised epoch exists ⇒ the put wake-up channel of the current generation is closed. -/
theorem C07_put_signalled (hf : free.Nodup) (h : Reachable c free oldest t0 s)
    (hw : s.bl.syncedE < s.bl.nE) :
    s.bl.putCh.blocking = false ∧ s.bl.putCh.ready s.bl.putCh.gen = true := by
  have i := (inv1_reachable hf h).bl
  have hb : s.bl.putCh.blocking = false := by
    cases hbb : s.bl.putCh.blocking with
    | false => rfl
    | true => have := i.putB.1 hbb; omega
  exact ⟨hb, i.putWf.ready_cur hb⟩

/-- ... and conversely the channel is only re-armed when everything is synchronised. -/
theorem C07_put_blocking_iff (hf : free.Nodup) (h : Reachable c free oldest t0 s) :
    s.bl.putCh.blocking = true ↔ s.bl.syncedE = s.bl.nE :=
  (inv1_reachable hf h).bl.putB

/-- An acknowledged write lands in an epoch that the synchronisation in progress does
not cover: it is unsynchronised, hence (by `C07_put_signalled`) signalled. -/
theorem C07_ack_unsynchronised (hf : free.Nodup) (h : Reachable c free oldest t0 s) {abs e ep : Nat} {b' : BL}
    (hfin : s.bl.fin abs e = some (b', .ok ep)) :
    b'.oldest + b'.syncingE ≤ ep ∧ ep < b'.oldest + b'.nE ∧ b'.syncedE < b'.nE ∧
    b'.putCh.ready b'.putCh.gen = true := by
  have i := (inv1_reachable hf h).bl
  obtain ⟨_, hep⟩ := BL.env_fin i hfin
  have i' := BL.inv_fin i hfin
  obtain ⟨h1, h2⟩ := hep ep rfl
  have hlt : b'.syncedE < b'.nE := by have := i'.le1; omega
  have hb : b'.putCh.blocking = false := by
    cases hbb : b'.putCh.blocking with
    | false => rfl
    | true => have := i'.putB.1 hbb; omega
  exact ⟨h2, h1, hlt, i'.putWf.ready_cur hb⟩

/-- Every acknowledged write belongs to an epoch that still exists or was rotated out with its block. -/
theorem C07_acked_epoch_exists (hf : free.Nodup) (h : Reachable c free oldest t0 s) {e : Nat}
    (he : e ∈ s.acked) : e < s.bl.oldest + s.bl.nE :=
  (inv3_reachable hf h).acked e he

/-- `blocksToRelease ≠ []` ⇒ the release wake-up channel of the current generation is closed. -/
theorem C07_release_signalled (hf : free.Nodup) (h : Reachable c free oldest t0 s)
    (hw : s.bl.toRelease ≠ []) :
    s.bl.relCh.blocking = false ∧ s.bl.relCh.ready s.bl.relCh.gen = true := by
  have i := (inv1_reachable hf h).bl
  have hb : s.bl.relCh.blocking = false := by
    cases hbb : s.bl.relCh.blocking with
    | false => rfl
    | true => exact absurd (i.relB.1 hbb) hw
  exact ⟨hb, i.relWf.ready_cur hb⟩

/-- A replaced channel was already closed (so a waiter that still holds it wakes up). -/
theorem C07_replaced_closed (hf : free.Nodup) (h : Reachable c free oldest t0 s) :
    (∀ g, g < s.bl.putCh.gen → s.bl.putCh.ready g = true) ∧
    (∀ g, g < s.bl.relCh.gen → s.bl.relCh.ready g = true) := by
  have i := (inv1_reachable hf h).bl
  constructor
  · intro g hg; unfold Chan.ready; simpa using i.putWf.old g hg
  · intro g hg; unfold Chan.ready; simpa using i.relWf.old g hg

/-- No lost wake-up, put loop: whenever unsynchronised data exists, the channel object the
loop holds (whichever generation it obtained) is closed, i.e. its receive does not block. -/
theorem C07_put_waiter_wakes (hf : free.Nodup) (h : Reachable c free oldest t0 s) {g : Nat}
    (hp : s.p = .poll g ∨ s.p = .wait g) (hw : s.bl.syncedE < s.bl.nE) : s.bl.putCh.ready g = true := by
  have i := inv1_reachable hf h
  exact i.bl.putWf.ready_le (C07_put_signalled hf h hw).1 (i.pgen g hp)

/-- No lost wake-up, release loop. -/
theorem C07_release_waiter_wakes (hf : free.Nodup) (h : Reachable c free oldest t0 s) {g : Nat}
    (hr : s.r = .wait g) (hw : s.bl.toRelease ≠ []) : s.bl.relCh.ready g = true := by
  have i := inv1_reachable hf h
  exact i.bl.relWf.ready_le (C07_release_signalled hf h hw).1 (i.rgen g hr)

/-! ## The minimum epoch interval -/

/-- `starts` lists (start time, `lastSynchronizationTime`) of every non-final data sync of an
iteration that was not shut down, newest first (see `Step.pStart`).  Stamps of consecutive syncs
are at least `minimumEpochInterval` apart, the first at least one interval after creation, and no
sync starts before its stamp. -/
theorem C07_interval (h : Reachable c free oldest t0 s) : Spaced c.minInt t0 s.starts :=
  (inv2_reachable h).spaced

/-- Two consecutive non-final syncs: the later one starts at least one interval after the
stamp of the earlier one; when the earlier one started promptly at its timer expiry
(`t1 = st1`: no delay between the timer firing and `NotifySyncStarting`, as in the harness
and in any run where the lock is free), their *start times* are at least one interval apart. -/
theorem C07_interval_consecutive (h : Reachable c free oldest t0 s) {t2 st2 t1 st1 : Nat}
    {rest : List (Nat × Nat)} (hs : s.starts = (t2, st2) :: (t1, st1) :: rest) :
    st1 + c.minInt ≤ st2 ∧ st2 ≤ t2 ∧ st1 ≤ t1 ∧ (t1 = st1 → t1 + c.minInt ≤ t2) := by
  have hsp := C07_interval h
  rw [hs] at hsp
  obtain ⟨h1, h2, _, h4, _⟩ := hsp
  simp only [base] at h1
  exact ⟨h1, h2, h4, by intro he; omega⟩

/-- The first sync starts no earlier than one interval after the syncer was created. -/
theorem C07_interval_first (h : Reachable c free oldest t0 s) {t st : Nat} (hs : s.starts = [(t, st)]) :
    t0 + c.minInt ≤ st ∧ st ≤ t := by
  have hsp := C07_interval h
  rw [hs] at hsp
  exact ⟨hsp.1, hsp.2.1⟩

/-! ## What an iteration has achieved when it returns -/

/-- `NotifySyncStarting` of an iteration of `ProcessBlockPut` fixes the target: one past the newest
epoch that exists at that moment; every write acknowledged so far lies below it. -/
theorem C07_target_at_sync_start (hf : free.Nodup) (h : Reachable c free oldest t0 s) {s' : State}
    (hs : step c s .pStart = some s') :
    s'.target = s.bl.oldest + s.bl.nE ∧ s'.syncOk = false ∧ ∀ e, e ∈ s.acked → e < s'.target := by
  have hst := step_Step hs
  cases hst with
  | pStart kg hp =>
    refine ⟨by simp [BL.syncStarting, BL.nE], rfl, ?_⟩
    intro e he
    have := (inv3_reachable hf h).acked e he
    simpa [BL.syncStarting, BL.nE] using this

/-- Every iteration of `ProcessBlockPut` that returns (the step `pW notify` is its last) has
performed a successful data sync after its `NotifySyncStarting` and a successful state write
whose content lists every epoch below the target, i.e. every epoch that existed at its
`NotifySyncStarting` (or the blocks holding them were rotated out meanwhile). -/
theorem C07_iteration_covers (hf : free.Nodup) (h : Reachable c free oldest t0 s) {s' : State}
    (hs : step c s (.pW .notify) = some s') :
    s.syncOk = true ∧ s.target ≤ s'.durable.bound ∧ s'.target = s.target ∧
    (s'.p = .get ∨ s'.p = .done) := by
  have i3 := inv3_reachable hf h
  have hst := step_Step hs
  cases hst with
  | pW kg w a s1 w' fin hp hw =>
    cases hw with
    | notify =>
      refine ⟨(i3.tgtWrite kg _ hp).2, i3.tgtDur kg hp, rfl, ?_⟩
      cases kg
      · right; rfl
      · left; rfl

theorem nodup_take_drop {l : List Nat} (hn : l.Nodup) {n x : Nat} (hx : x ∈ l.take n) : x ∉ l.drop n := by
  rw [← List.take_append_drop n l] at hn
  have := (List.nodup_append.1 hn).2.2 x hx
  intro hd
  exact this x hd rfl

/-- While a loop sits between a successful state write and `NotifyPersistentStateWritten`, the
blocks about to be handed back are not listed by the state file just written. -/
theorem releasing_not_durable (hf : free.Nodup) (h : Reachable c free oldest t0 s)
    (hsw : someoneWritten s = true) {id : Nat} (hid : id ∈ s.bl.toRelease.take s.bl.releasing) :
    id ∉ s.durable.ids := by
  have i1 := inv1_reachable hf h
  have i4 := inv4_reachable hf h
  intro hd
  have hnd := i1.bl.nodup
  rw [List.append_assoc] at hnd
  obtain ⟨_, hnd2, hdisj⟩ := List.nodup_append.1 hnd
  have htr : id ∈ s.bl.toRelease := List.mem_of_mem_take hid
  rcases i4.dur id hd with hx | hx
  · exact hdisj id hx id (List.mem_append_left _ htr) rfl
  · unfold pending at hx
    rw [if_pos hsw] at hx
    exact nodup_take_drop (List.nodup_append.1 hnd2).1 hid hx

/-- Every iteration of `ProcessBlockRelease` that returns has handed back every block that had been
popped when it woke up (`goal`), and hands blocks back only now, after the state write returned,
and only blocks the state file just written no longer lists. -/
theorem C07_release_iteration_frees (hf : free.Nodup) (h : Reachable c free oldest t0 s) {s' : State}
    (hs : step c s (.rW .notify) = some s') :
    s.goal ≤ s'.freedTotal ∧ s'.bl.free = s.bl.free ++ s.bl.toRelease.take s.bl.releasing ∧
    s'.durable = s.durable ∧ (∀ id, id ∈ s.bl.toRelease.take s.bl.releasing → id ∉ s'.durable.ids) ∧
    s'.r = .get := by
  have i1 := inv1_reachable hf h
  have i3 := inv3_reachable hf h
  have hst := step_Step hs
  cases hst with
  | rW w a s1 w' fin hr hw =>
    cases hw with
    | notify =>
      have hlk : s.storeLocked = true := by rw [i1.lock, hr]; simp [RPc.holds, WPc.holds]
      have hrel := i1.rel hlk
      have hg := i3.goalHold _ hr rfl
      have hsw : someoneWritten s = true := by unfold someoneWritten; rw [hr]; simp [RPc.isWritten]
      refine ⟨?_, rfl, rfl, fun id hid => releasing_not_durable hf h hsw hid, rfl⟩
      show s.goal ≤ s.freedTotal + (s.bl.toRelease.take s.bl.releasing).length
      simp; omega

/-- The same hand-back discipline when it is the put loop's state write that releases blocks. -/
theorem C07_put_iteration_frees (hf : free.Nodup) (h : Reachable c free oldest t0 s) {s' : State}
    (hs : step c s (.pW .notify) = some s') :
    s'.bl.free = s.bl.free ++ s.bl.toRelease.take s.bl.releasing ∧ s'.durable = s.durable ∧
    (∀ id, id ∈ s.bl.toRelease.take s.bl.releasing → id ∉ s'.durable.ids) := by
  have hst := step_Step hs
  cases hst with
  | pW kg w a s1 w' fin hp hw =>
    cases hw with
    | notify =>
      have hsw : someoneWritten s = true := by unfold someoneWritten; rw [hp]; simp [PPc.isWritten]
      exact ⟨rfl, rfl, fun id hid => releasing_not_durable hf h hsw hid⟩

/-- A block the allocator may hand out again is never listed by the last state file written. -/
theorem C07_free_not_durable (hf : free.Nodup) (h : Reachable c free oldest t0 s) {id : Nat}
    (hid : id ∈ s.bl.free) : id ∉ s.durable.ids := by
  have i1 := inv1_reachable hf h
  have i4 := inv4_reachable hf h
  intro hd
  have hnd := i1.bl.nodup
  obtain ⟨_, _, hdisj⟩ := List.nodup_append.1 hnd
  have hx : id ∈ ids s.bl.blocks ++ s.bl.toRelease := by
    rcases i4.dur id hd with hx | hx
    · exact List.mem_append_left _ hx
    · apply List.mem_append_right
      unfold pending at hx
      split at hx
      · exact List.mem_of_mem_drop hx
      · exact hx
  exact hdisj id hx id hid rfl

/-- All popped blocks are accounted for: awaiting release or handed back. -/
theorem C07_blocks_accounted (hf : free.Nodup) (h : Reachable c free oldest t0 s) :
    s.freedTotal + s.bl.toRelease.length = s.bl.totalReleased :=
  (inv3_reachable hf h).freed

end BB.C07
