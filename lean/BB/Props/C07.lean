import BB.Proofs.SyncerLive
/-!
# C07 - persistence never stalls

Theorems about `BB.Syncer.step` (the model the driver `bbmodel_c07` executes and
the correspondence harness compares with the real `PeriodicSyncer` +
`PersistentBlockList`), over **all** interleavings: `Reachable` closes the initial
state under every enabled action of the environment (uploads' finalizers,
`PushBack`, `PopFront`, clock, cancellation, collaborator results) and of the two
loops, in any order.
-/
namespace BB.C07
open BB.Syncer

variable {c : Cfg} {free : List Nat} {oldest t0 : Nat} {s : State}

theorem reachable_run {s s' : State} (h : Reachable c free oldest t0 s) :
    ∀ {as : List Act}, run c s as = some s' → Reachable c free oldest t0 s' := by
  intro as
  induction as generalizing s with
  | nil => intro hr; simp [run] at hr; subst hr; exact h
  | cons a as ih =>
    intro hr
    simp only [run] at hr
    cases hs : step c s a with
    | none => rw [hs] at hr; cases hr
    | some s1 => rw [hs] at hr; exact ih (Reachable.step a h hs) hr

/-! ## Safety: the wake-up machinery never panics and never loses a notification -/

/-- `close of closed channel` is unreachable for both notification channels (no
generation is ever closed twice), and so are the index-out-of-range panics of
`PopFront`, `GetPersistentState` and `NotifyPersistentStateWritten`. -/
theorem C07_no_double_close (hf : free.Nodup) (h : Reachable c free oldest t0 s) :
    s.bl.putCh.panicked = false ∧ s.bl.relCh.panicked = false ∧ s.bl.oob = false ∧
    s.bl.putCh.closed.Nodup ∧ s.bl.relCh.closed.Nodup := by
  have i := (inv1_reachable hf h).bl
  exact ⟨i.putWf.ok, i.relWf.ok, i.noOob, i.putWf.nodup, i.relWf.nodup⟩

/-- An unsynchronised epoch exists ⇒ the put wake-up channel of the current generation is closed. -/
theorem C07_put_signalled (hf : free.Nodup) (h : Reachable c free oldest t0 s)
    (hw : s.bl.syncedE < s.bl.nE) :
    s.bl.putCh.blocking = false ∧ s.bl.putCh.ready s.bl.putCh.gen = true := by
  have i := (inv1_reachable hf h).bl
  have hb : s.bl.putCh.blocking = false := by
    cases hbb : s.bl.putCh.blocking with
    | false => rfl
    | true => have := i.putB.1 hbb; omega
  exact ⟨hb, i.putWf.ready_cur hb⟩

/-- ... and conversely the channel is only re-armed when everything is synchronised. -/
theorem C07_put_blocking_iff (hf : free.Nodup) (h : Reachable c free oldest t0 s) :
    s.bl.putCh.blocking = true ↔ s.bl.syncedE = s.bl.nE :=
  (inv1_reachable hf h).bl.putB

/-- An acknowledged write lands in an epoch that the synchronisation in progress does
not cover: it is unsynchronised, hence (by `C07_put_signalled`) signalled. -/
theorem C07_ack_unsynchronised (hf : free.Nodup) (h : Reachable c free oldest t0 s) {abs e ep : Nat} {b' : BL}
    (hfin : s.bl.fin abs e = some (b', .ok ep)) :
    b'.oldest + b'.syncingE ≤ ep ∧ ep < b'.oldest + b'.nE ∧ b'.syncedE < b'.nE ∧
    b'.putCh.ready b'.putCh.gen = true := by
  have i := (inv1_reachable hf h).bl
  obtain ⟨_, hep⟩ := BL.env_fin i hfin
  have i' := BL.inv_fin i hfin
  obtain ⟨h1, h2⟩ := hep ep rfl
  have hlt : b'.syncedE < b'.nE := by have := i'.le1; omega
  have hb : b'.putCh.blocking = false := by
    cases hbb : b'.putCh.blocking with
    | false => rfl
    | true => have := i'.putB.1 hbb; omega
  exact ⟨h2, h1, hlt, i'.putWf.ready_cur hb⟩

/-- Every acknowledged write belongs to an epoch that still exists or was rotated out with its block. -/
theorem C07_acked_epoch_exists (hf : free.Nodup) (h : Reachable c free oldest t0 s) {e : Nat}
    (he : e ∈ s.acked) : e < s.bl.oldest + s.bl.nE :=
  (inv3_reachable hf h).acked e he

/-- `blocksToRelease ≠ []` ⇒ the release wake-up channel of the current generation is closed. -/
theorem C07_release_signalled (hf : free.Nodup) (h : Reachable c free oldest t0 s)
    (hw : s.bl.toRelease ≠ []) :
    s.bl.relCh.blocking = false ∧ s.bl.relCh.ready s.bl.relCh.gen = true := by
  have i := (inv1_reachable hf h).bl
  have hb : s.bl.relCh.blocking = false := by
    cases hbb : s.bl.relCh.blocking with
    | false => rfl
    | true => exact absurd (i.relB.1 hbb) hw
  exact ⟨hb, i.relWf.ready_cur hb⟩

/-- A replaced channel was already closed (so a waiter that still holds it wakes up). -/
theorem C07_replaced_closed (hf : free.Nodup) (h : Reachable c free oldest t0 s) :
    (∀ g, g < s.bl.putCh.gen → s.bl.putCh.ready g = true) ∧
    (∀ g, g < s.bl.relCh.gen → s.bl.relCh.ready g = true) := by
  have i := (inv1_reachable hf h).bl
  constructor
  · intro g hg; unfold Chan.ready; simpa using i.putWf.old g hg
  · intro g hg; unfold Chan.ready; simpa using i.relWf.old g hg

/-- No lost wake-up, put loop: whenever unsynchronised data exists, the channel object the
loop holds (whichever generation it obtained) is closed, i.e. its receive does not block. -/
theorem C07_put_waiter_wakes (hf : free.Nodup) (h : Reachable c free oldest t0 s) {g : Nat}
    (hp : s.p = .poll g ∨ s.p = .wait g) (hw : s.bl.syncedE < s.bl.nE) : s.bl.putCh.ready g = true := by
  have i := inv1_reachable hf h
  exact i.bl.putWf.ready_le (C07_put_signalled hf h hw).1 (i.pgen g hp)

/-- No lost wake-up, release loop. -/
theorem C07_release_waiter_wakes (hf : free.Nodup) (h : Reachable c free oldest t0 s) {g : Nat}
    (hr : s.r = .wait g) (hw : s.bl.toRelease ≠ []) : s.bl.relCh.ready g = true := by
  have i := inv1_reachable hf h
  exact i.bl.relWf.ready_le (C07_release_signalled hf h hw).1 (i.rgen g hr)

/-! ## The minimum epoch interval -/

/-- `starts` lists (start time, `lastSynchronizationTime`) of every non-final data sync of an
iteration that was not shut down, newest first (see `Step.pStart`).  Stamps of consecutive syncs
are at least `minimumEpochInterval` apart, the first at least one interval after creation, and no
sync starts before its stamp. -/
theorem C07_interval (h : Reachable c free oldest t0 s) : Spaced c.minInt t0 s.starts :=
  (inv2_reachable h).spaced

/-- Two consecutive non-final syncs: the later one starts at least one interval after the
stamp of the earlier one; when the earlier one started promptly at its timer expiry
(`t1 = st1`: no delay between the timer firing and `NotifySyncStarting`, as in the harness
and in any run where the lock is free), their *start times* are at least one interval apart. -/
theorem C07_interval_consecutive (h : Reachable c free oldest t0 s) {t2 st2 t1 st1 : Nat}
    {rest : List (Nat × Nat)} (hs : s.starts = (t2, st2) :: (t1, st1) :: rest) :
    st1 + c.minInt ≤ st2 ∧ st2 ≤ t2 ∧ st1 ≤ t1 ∧ (t1 = st1 → t1 + c.minInt ≤ t2) := by
  have hsp := C07_interval h
  rw [hs] at hsp
  obtain ⟨h1, h2, _, h4, _⟩ := hsp
  simp only [base] at h1
  exact ⟨h1, h2, h4, by intro he; omega⟩

/-- The first sync starts no earlier than one interval after the syncer was created. -/
theorem C07_interval_first (h : Reachable c free oldest t0 s) {t st : Nat} (hs : s.starts = [(t, st)]) :
    t0 + c.minInt ≤ st ∧ st ≤ t := by
  have hsp := C07_interval h
  rw [hs] at hsp
  exact ⟨hsp.1, hsp.2.1⟩

/-! ## What an iteration has achieved when it returns -/

/-- `NotifySyncStarting` of an iteration of `ProcessBlockPut` fixes the target: one past the newest
epoch that exists at that moment; every write acknowledged so far lies below it. -/
theorem C07_target_at_sync_start (hf : free.Nodup) (h : Reachable c free oldest t0 s) {s' : State}
    (hs : step c s .pStart = some s') :
    s'.target = s.bl.oldest + s.bl.nE ∧ s'.syncOk = false ∧ ∀ e, e ∈ s.acked → e < s'.target := by
  have hst := step_Step hs
  cases hst with
  | pStart kg hp =>
    refine ⟨by simp [BL.syncStarting, BL.nE], rfl, ?_⟩
    intro e he
    have := (inv3_reachable hf h).acked e he
    simpa [BL.syncStarting, BL.nE] using this

/-- Every iteration of `ProcessBlockPut` that returns (the step `pW notify` is its last) has
performed a successful data sync after its `NotifySyncStarting` and a successful state write
whose content lists every epoch below the target, i.e. every epoch that existed at its
`NotifySyncStarting` (or the blocks holding them were rotated out meanwhile). -/
theorem C07_iteration_covers (hf : free.Nodup) (h : Reachable c free oldest t0 s) {s' : State}
    (hs : step c s (.pW .notify) = some s') :
    s.syncOk = true ∧ s.target ≤ s'.durable.bound ∧ s'.target = s.target ∧
    (s'.p = .get ∨ s'.p = .done) := by
  have i3 := inv3_reachable hf h
  have hst := step_Step hs
  cases hst with
  | pW kg w a s1 w' fin hp hw =>
    cases hw with
    | notify =>
      refine ⟨(i3.tgtWrite kg _ hp).2, i3.tgtDur kg hp, rfl, ?_⟩
      cases kg
      · right; rfl
      · left; rfl

theorem nodup_take_drop {l : List Nat} (hn : l.Nodup) {n x : Nat} (hx : x ∈ l.take n) : x ∉ l.drop n := by
  rw [← List.take_append_drop n l] at hn
  have := (List.nodup_append.1 hn).2.2 x hx
  intro hd
  exact this x hd rfl

/-- While a loop sits between a successful state write and `NotifyPersistentStateWritten`, the
blocks about to be handed back are not listed by the state file just written. -/
theorem releasing_not_durable (hf : free.Nodup) (h : Reachable c free oldest t0 s)
    (hsw : someoneWritten s = true) {id : Nat} (hid : id ∈ s.bl.toRelease.take s.bl.releasing) :
    id ∉ s.durable.ids := by
  have i1 := inv1_reachable hf h
  have i4 := inv4_reachable hf h
  intro hd
  have hnd := i1.bl.nodup
  rw [List.append_assoc] at hnd
  obtain ⟨_, hnd2, hdisj⟩ := List.nodup_append.1 hnd
  have htr : id ∈ s.bl.toRelease := List.mem_of_mem_take hid
  rcases i4.dur id hd with hx | hx
  · exact hdisj id hx id (List.mem_append_left _ htr) rfl
  · unfold pending at hx
    rw [if_pos hsw] at hx
    exact nodup_take_drop (List.nodup_append.1 hnd2).1 hid hx

/-- Every iteration of `ProcessBlockRelease` that returns has handed back every block that had been
popped when it woke up (`goal`), and hands blocks back only now, after the state write returned,
and only blocks the state file just written no longer lists. -/
theorem C07_release_iteration_frees (hf : free.Nodup) (h : Reachable c free oldest t0 s) {s' : State}
    (hs : step c s (.rW .notify) = some s') :
    s.goal ≤ s'.freedTotal ∧ s'.bl.free = s.bl.free ++ s.bl.toRelease.take s.bl.releasing ∧
    s'.durable = s.durable ∧ (∀ id, id ∈ s.bl.toRelease.take s.bl.releasing → id ∉ s'.durable.ids) ∧
    s'.r = .get := by
  have i1 := inv1_reachable hf h
  have i3 := inv3_reachable hf h
  have hst := step_Step hs
  cases hst with
  | rW w a s1 w' fin hr hw =>
    cases hw with
    | notify =>
      have hlk : s.storeLocked = true := by rw [i1.lock, hr]; simp [RPc.holds, WPc.holds]
      have hrel := i1.rel hlk
      have hg := i3.goalHold _ hr rfl
      have hsw : someoneWritten s = true := by unfold someoneWritten; rw [hr]; simp [RPc.isWritten]
      refine ⟨?_, rfl, rfl, fun id hid => releasing_not_durable hf h hsw hid, rfl⟩
      show s.goal ≤ s.freedTotal + (s.bl.toRelease.take s.bl.releasing).length
      simp; omega

/-- The same hand-back discipline when it is the put loop's state write that releases blocks. -/
theorem C07_put_iteration_frees (hf : free.Nodup) (h : Reachable c free oldest t0 s) {s' : State}
    (hs : step c s (.pW .notify) = some s') :
    s'.bl.free = s.bl.free ++ s.bl.toRelease.take s.bl.releasing ∧ s'.durable = s.durable ∧
    (∀ id, id ∈ s.bl.toRelease.take s.bl.releasing → id ∉ s'.durable.ids) := by
  have hst := step_Step hs
  cases hst with
  | pW kg w a s1 w' fin hp hw =>
    cases hw with
    | notify =>
      have hsw : someoneWritten s = true := by unfold someoneWritten; rw [hp]; simp [PPc.isWritten]
      exact ⟨rfl, rfl, fun id hid => releasing_not_durable hf h hsw hid⟩

/-- A block the allocator may hand out again is never listed by the last state file written. -/
theorem C07_free_not_durable (hf : free.Nodup) (h : Reachable c free oldest t0 s) {id : Nat}
    (hid : id ∈ s.bl.free) : id ∉ s.durable.ids := by
  have i1 := inv1_reachable hf h
  have i4 := inv4_reachable hf h
  intro hd
  have hnd := i1.bl.nodup
  obtain ⟨_, _, hdisj⟩ := List.nodup_append.1 hnd
  have hx : id ∈ ids s.bl.blocks ++ s.bl.toRelease := by
    rcases i4.dur id hd with hx | hx
    · exact List.mem_append_left _ hx
    · apply List.mem_append_right
      unfold pending at hx
      split at hx
      · exact List.mem_of_mem_drop hx
      · exact hx
  exact hdisj id hx id hid rfl

/-- All popped blocks are accounted for: awaiting release or handed back. -/
theorem C07_blocks_accounted (hf : free.Nodup) (h : Reachable c free oldest t0 s) :
    s.freedTotal + s.bl.toRelease.length = s.bl.totalReleased :=
  (inv3_reachable hf h).freed

/-- Blocks are handed back to the allocator by `NotifyPersistentStateWritten` only - not before
the state write returned: every other step leaves the free list as it was or shorter. -/
theorem C07_no_early_free (hf : free.Nodup) (h : Reachable c free oldest t0 s) {a : Act} {s' : State}
    (hs : step c s a = some s') (hp : a ≠ .pW .notify) (hr : a ≠ .rW .notify) :
    ∀ id, id ∈ s'.bl.free → id ∈ s.bl.free :=
  free_subset_of_Step (inv1_reachable hf h) (step_Step hs) hp hr

/-! ## Progress -/

/-- Under every interleaving: while unsynchronised data exists and the put loop has not yet reached
`NotifySyncStarting`, its own next step is enabled and takes it strictly closer (rank), the pending
work staying pending - or it is waiting for its timer, which was armed at most one interval ago for
at most one interval.  No step of another process can disable this (the statement holds in every
reachable state).  With weak fairness for the put loop this is the bounded wait. -/
theorem C07_put_enabled (hf : free.Nodup) (h : Reachable c free oldest t0 s)
    (hw : s.bl.syncedE < s.bl.nE) {a : Act} (ha : putNext s.p = some a) :
    (∃ s', step c s a = some s' ∧ s'.p.rank < s.p.rank ∧ s'.bl.syncedE < s'.bl.nE) ∨
    (∃ d ar, s.p = .timer d ar ∧ s.now < d ∧ d ≤ ar + c.minInt ∧ ar ≤ s.now) := by
  cases hp : s.p with
  | get =>
    rw [hp] at ha; simp [putNext] at ha; subst ha
    exact Or.inl ⟨_, step_pGet hp, by simp [PPc.rank], hw⟩
  | poll g =>
    rw [hp] at ha; simp [putNext] at ha; subst ha
    have hr := C07_put_waiter_wakes hf h (Or.inl hp) hw
    exact Or.inl ⟨_, step_pPoll_ready hp hr, by simp [PPc.rank], hw⟩
  | wait g =>
    rw [hp] at ha; simp [putNext] at ha; subst ha
    have hr := C07_put_waiter_wakes hf h (Or.inr hp) hw
    exact Or.inl ⟨_, step_pWake hp hr, by simp [PPc.rank], hw⟩
  | timer d ar =>
    rw [hp] at ha; simp [putNext] at ha; subst ha
    by_cases hd : s.now < d
    · obtain ⟨h1, h2, _⟩ := (inv2_reachable h).timer d ar hp
      exact Or.inr ⟨d, ar, rfl, hd, h2, h1⟩
    · exact Or.inl ⟨_, step_pFire hp (by omega), by simp [PPc.rank], hw⟩
  | lock kg =>
    rw [hp] at ha; simp [putNext] at ha; subst ha
    obtain ⟨s', h1, h2, _, _⟩ := @step_pStart c s kg hp
    refine Or.inl ⟨s', h1, by rw [h2]; simp [PPc.rank], ?_⟩
    have hst := step_Step h1
    cases hst with
    | pStart kg' hp' => simpa [BL.syncStarting, BL.nE] using hw
  | sync kg f => rw [hp] at ha; simp [putNext] at ha
  | syncSleep kg f d => rw [hp] at ha; simp [putNext] at ha
  | synced kg f => rw [hp] at ha; simp [putNext] at ha
  | write kg w => rw [hp] at ha; simp [putNext] at ha
  | done => rw [hp] at ha; simp [putNext] at ha

/-- Bounded wait, constructively: from any reachable state with pending work in which the put loop
has not yet reached `NotifySyncStarting` (and is not being shut down), at most four steps of its own
plus one advance of the virtual clock by at most one `minimumEpochInterval` take it to
`NotifySyncStarting` with a target covering every epoch existing then.  (That the scheduler lets
these steps happen - weak fairness - and that time passes are the hypotheses this statement makes
explicit by exhibiting the schedule; `C07_put_enabled` shows no other process can take the
enabledness away.) -/
theorem C07_bounded_wait (hf : free.Nodup) (h : Reachable c free oldest t0 s)
    (hw : s.bl.syncedE < s.bl.nE) (hp : s.p = .get ∨ (∃ g, s.p = .poll g) ∨ (∃ g, s.p = .wait g) ∨
      (∃ d a, s.p = .timer d a) ∨ s.p = .lock true) :
    ∃ (as : List Act) (dt : Nat) (s' : State), run c s as = some s' ∧ as.length ≤ 5 ∧ dt ≤ c.minInt ∧
      s'.now = s.now + dt ∧ s'.p = .sync true false ∧ ∀ e, e ∈ s.acked → e < s'.target := by
  have i2 := inv2_reachable h
  have i3 := inv3_reachable hf h
  -- from an armed timer
  have fromTimer : ∀ (s1 : State), Reachable c free oldest t0 s1 → ∀ d a, s1.p = .timer d a →
      ∃ s', run c s1 [.tick (d - s1.now), .pFire, .pStart] = some s' ∧ d - s1.now ≤ c.minInt ∧
        s'.now = s1.now + (d - s1.now) ∧ s'.p = .sync true false ∧ s'.target = s1.bl.oldest + s1.bl.nE := by
    intro s1 h1 d a hp1
    obtain ⟨s', hr, hp', hn, ht⟩ := @drive_timer c s1 d a hp1
    obtain ⟨t1, t2, _⟩ := (inv2_reachable h1).timer d a hp1
    exact ⟨s', hr, by omega, hn, hp', ht⟩
  have ackLt : ∀ e, e ∈ s.acked → e < s.bl.oldest + s.bl.nE := i3.acked
  rcases hp with hp | ⟨g, hp⟩ | ⟨g, hp⟩ | ⟨d, a, hp⟩ | hp
  · -- get: GetBlockPutWakeup, poll (ready), timer
    have hs1 := @step_pGet c s hp
    have hr1 : Reachable c free oldest t0 { s with p := .poll s.bl.putCh.gen } := Reachable.step _ h hs1
    have hready := C07_put_waiter_wakes hf hr1 (Or.inl rfl) hw
    have hs2 := @step_pPoll_ready c { s with p := .poll s.bl.putCh.gen } _ rfl hready
    have hr2 := Reachable.step _ hr1 hs2
    obtain ⟨s', hrun, hdt, hn, hp', ht⟩ := fromTimer _ hr2 _ _ rfl
    exact ⟨_, _, s', run_cons hs1 (run_cons hs2 hrun), by simp, hdt, hn, hp', by rw [ht]; exact ackLt⟩
  · have hready := C07_put_waiter_wakes hf h (Or.inl hp) hw
    have hs2 := @step_pPoll_ready c s g hp hready
    have hr2 := Reachable.step _ h hs2
    obtain ⟨s', hrun, hdt, hn, hp', ht⟩ := fromTimer _ hr2 _ _ rfl
    exact ⟨_, _, s', run_cons hs2 hrun, by simp, hdt, hn, hp', by rw [ht]; exact ackLt⟩
  · have hready := C07_put_waiter_wakes hf h (Or.inr hp) hw
    have hs2 := @step_pWake c s g hp hready
    have hr2 := Reachable.step _ h hs2
    obtain ⟨s', hrun, hdt, hn, hp', ht⟩ := fromTimer _ hr2 _ _ rfl
    exact ⟨_, _, s', run_cons hs2 hrun, by simp, hdt, hn, hp', by rw [ht]; exact ackLt⟩
  · obtain ⟨s', hrun, hdt, hn, hp', ht⟩ := fromTimer s h d a hp
    exact ⟨_, _, s', hrun, by simp, hdt, hn, hp', by rw [ht]; exact ackLt⟩
  · obtain ⟨s', h1, h2, h3, h4⟩ := @step_pStart c s true hp
    exact ⟨[.pStart], 0, s', run_cons h1 rfl, by simp, Nat.zero_le _, by simpa using h3, h2, by rw [h4]; exact ackLt⟩

/-- `storeLock` is only ever held across one `WritePersistentState` call and the lock region that
follows it: a loop waiting for the lock waits for one collaborator call of the other loop, whose
return (either way) and `NotifyPersistentStateWritten` are always enabled. -/
theorem C07_lock_holder_proceeds (hf : free.Nodup) (h : Reachable c free oldest t0 s)
    (hl : s.storeLocked = true) :
    (∃ kg snap, s.p = .write kg (.writing snap) ∧ (step c s (.pW (.ret true))).isSome ∧
        (step c s (.pW (.ret false))).isSome) ∨
    (∃ kg, s.p = .write kg .written ∧ (step c s (.pW .notify)).isSome) ∨
    (∃ snap, s.r = .write (.writing snap) ∧ (step c s (.rW (.ret true))).isSome ∧
        (step c s (.rW (.ret false))).isSome) ∨
    (s.r = .write .written ∧ (step c s (.rW .notify)).isSome) := by
  have i1 := inv1_reachable hf h
  have hlk := i1.lock
  rw [hl] at hlk
  have : s.p.holds = true ∨ s.r.holds = true := by
    cases hp : s.p.holds <;> cases hr : s.r.holds <;> simp [hp, hr] at hlk ⊢
  rcases this with hh | hh
  · cases hp : s.p with
    | write kg w =>
      cases w with
      | writing snap => exact Or.inl ⟨kg, snap, rfl, by simp [step, hp, wStep], by simp [step, hp, wStep]⟩
      | written => exact Or.inr (Or.inl ⟨kg, rfl, by simp [step, hp, wStep]⟩)
      | idle => rw [hp] at hh; simp [PPc.holds, WPc.holds] at hh
      | sleep d => rw [hp] at hh; simp [PPc.holds, WPc.holds] at hh
    | _ => rw [hp] at hh; simp [PPc.holds] at hh
  · cases hr : s.r with
    | write w =>
      cases w with
      | writing snap => exact Or.inr (Or.inr (Or.inl ⟨snap, rfl, by simp [step, hr, wStep], by simp [step, hr, wStep]⟩))
      | written => exact Or.inr (Or.inr (Or.inr ⟨rfl, by simp [step, hr, wStep]⟩))
      | idle => rw [hr] at hh; simp [RPc.holds, WPc.holds] at hh
      | sleep d => rw [hr] at hh; simp [RPc.holds, WPc.holds] at hh
    | _ => rw [hr] at hh; simp [RPc.holds] at hh

/-! ## Retries -/

/-- A failed data sync marks nothing as synchronised and is followed by a sleep of
`errorRetryInterval` ... -/
theorem C07_retry_sync {s s' : State} (hs : step c s (.pData false) = some s') :
    ∃ kg f, s.p = .sync kg f ∧ s'.p = .syncSleep kg f (s.now + c.retryInt) ∧ s'.bl = s.bl ∧
      s'.durable = s.durable ∧ s'.freedTotal = s.freedTotal ∧ s'.syncOk = s.syncOk := by
  have hst := step_Step hs
  cases hst with
  | pDataFail kg f hp => exact ⟨kg, f, hp, rfl, rfl, rfl, rfl, rfl⟩

/-- ... after which the same `dataSyncer()` call is made again. -/
theorem C07_retry_sync_again {s : State} {kg f : Bool} {d : Nat} (hp : s.p = .syncSleep kg f d)
    (hd : d ≤ s.now) : ∃ s', step c s .pRetry = some s' ∧ s'.p = .sync kg f ∧ s'.bl = s.bl := by
  have : ¬ s.now < d := by omega
  exact ⟨{ s with p := .sync kg f }, by simp [step, hp, this], rfl, rfl⟩

/-- A failed state write (put loop) releases nothing, leaves the last good state file in place,
gives up `storeLock` and sleeps for `errorRetryInterval` ... -/
theorem C07_retry_write_put {s s' : State} (hs : step c s (.pW (.ret false)) = some s') :
    ∃ kg snap, s.p = .write kg (.writing snap) ∧ s'.p = .write kg (.sleep (s.now + c.retryInt)) ∧
      s'.bl = s.bl ∧ s'.durable = s.durable ∧ s'.freedTotal = s.freedTotal ∧ s'.storeLocked = false := by
  have hst := step_Step hs
  cases hst with
  | pW kg w a s1 w' fin hp hw =>
    cases hw with
    | retFail snap => exact ⟨kg, snap, hp, rfl, rfl, rfl, rfl, rfl⟩

/-- ... likewise for the release loop ... -/
theorem C07_retry_write_release {s s' : State} (hs : step c s (.rW (.ret false)) = some s') :
    ∃ snap, s.r = .write (.writing snap) ∧ s'.r = .write (.sleep (s.now + c.retryInt)) ∧
      s'.bl = s.bl ∧ s'.durable = s.durable ∧ s'.freedTotal = s.freedTotal ∧ s'.storeLocked = false := by
  have hst := step_Step hs
  cases hst with
  | rW w a s1 w' fin hr hw =>
    cases hw with
    | retFail snap => exact ⟨snap, hr, rfl, rfl, rfl, rfl, rfl⟩

/-- ... after which `writePersistentState` starts over (fresh `GetPersistentState`, new write). -/
theorem C07_retry_write_again {s : State} {d : Nat} (hd : d ≤ s.now) :
    (∀ kg, s.p = .write kg (.sleep d) → ∃ s', step c s (.pW .wake) = some s' ∧ s'.p = .write kg .idle ∧ s'.bl = s.bl) ∧
    (s.r = .write (.sleep d) → ∃ s', step c s (.rW .wake) = some s' ∧ s'.r = .write .idle ∧ s'.bl = s.bl) := by
  have : ¬ s.now < d := by omega
  constructor
  · intro kg hp
    exact ⟨{ s with p := .write kg .idle }, by simp [step, hp, wStep, this], rfl, rfl⟩
  · intro hr
    exact ⟨{ s with r := .write .idle }, by simp [step, hr, wStep, this], rfl, rfl⟩

/-! ## The hypotheses are satisfiable (concrete schedules of the same `step`) -/

namespace Ex
def cfg : Cfg := ⟨100, 30⟩
def s0 : State := init [0, 1, 2] 7 0
/-- Run a schedule from the initial state and test the final state. -/
def chk (as : List Act) (f : State → Bool) : Bool :=
  match run cfg s0 as with
  | some s => f s
  | none => false

theorem s0_reachable : Reachable cfg [0, 1, 2] 7 0 s0 := Reachable.init
theorem free_nodup : ([0, 1, 2] : List Nat).Nodup := by decide

/-- put loop parked on its channel, then an upload is acknowledged: pending work, waiter on a
closed channel (`C07_put_signalled`, `C07_put_waiter_wakes`, `C07_put_enabled`, `C07_bounded_wait`). -/
example : chk [.pGet, .pPoll, .push, .fin 0 10]
    (fun s => decide (s.bl.syncedE < s.bl.nE) && (s.p == .wait 0) && s.bl.putCh.ready 0 &&
      (s.acked == [7])) = true := by decide

/-- a pop while the release loop waits (`C07_release_signalled`, `C07_release_waiter_wakes`). -/
example : chk [.rGet, .push, .pop]
    (fun s => (s.bl.toRelease == [0]) && (s.r == .wait 0) && s.bl.relCh.ready 0) = true := by decide

/-- a replaced channel: after a full iteration the put channel is generation 1 and generation 0 is closed
(`C07_replaced_closed`, `C07_no_double_close` with a non-trivial history). -/
def iteration : List Act :=
  [.push, .fin 0 10, .pGet, .pPoll, .tick 100, .pFire, .pStart, .pData false, .tick 30, .pRetry, .pData true,
   .pCompleted, .pW .get, .pW (.ret false), .tick 30, .pW .wake, .pW .get, .pW (.ret true)]

/-- ... the iteration with one failed sync and one failed write reaches the point where
`C07_iteration_covers` applies: the notify step is enabled, the data sync succeeded, and the state
written covers epoch 7 (bound 8 = target). -/
example : chk iteration
    (fun s => (step cfg s (.pW .notify)).isSome && s.syncOk && (s.target == 8) && (s.durable.bound == 8) &&
      (s.durable.ids == [0])) = true := by decide

example : chk (iteration ++ [.pW .notify])
    (fun s => (s.bl.putCh.gen == 1) && s.bl.putCh.ready 0 && s.bl.putCh.blocking && (s.p == .get)) = true := by decide

/-- two consecutive running iterations (`C07_interval_consecutive`): stamps 100 and 230. -/
example : chk (iteration ++ [.pW .notify, .fin 0 20, .pGet, .pPoll, .tick 70, .pFire, .pStart])
    (fun s => s.starts == [(230, 230), (100, 100)]) = true := by decide

/-- release iteration (`C07_release_iteration_frees`): block 0 popped, state without it written, notify enabled. -/
example : chk [.rGet, .push, .pop, .rWake, .rW .get, .rW (.ret true)]
    (fun s => (step cfg s (.rW .notify)).isSome && (s.goal == 1) && (s.bl.toRelease.take s.bl.releasing == [0]) &&
      (s.durable.ids == [])) = true := by decide

example : chk [.rGet, .push, .pop, .rWake, .rW .get, .rW (.ret true), .rW .notify]
    (fun s => (s.bl.free == [1, 2, 0]) && (s.freedTotal == 1) && (s.r == .get)) = true := by decide

/-- both loops reach for `storeLock` (`C07_lock_holder_proceeds`): the release loop holds it, the put loop is refused. -/
example : chk [.push, .fin 0 10, .pGet, .pPoll, .tick 100, .pFire, .pStart, .pData true, .pCompleted,
      .push, .pop, .rGet, .rWake, .rW .get]
    (fun s => s.storeLocked && (step cfg s (.pW .get)).isNone && (step cfg s (.rW (.ret true))).isSome) = true := by decide

/-- shutdown: cancel while waiting gives two syncs, the second final (`closedForWriting`). -/
example : chk [.pGet, .pPoll, .cancel, .pCancel, .pStart, .pData true, .pCompleted, .pData true, .pCompleted,
      .pW .get, .pW (.ret true), .pW .notify]
    (fun s => (s.p == .done) && s.bl.closedW && (s.starts == [])) = true := by decide
end Ex

end BB.C07
