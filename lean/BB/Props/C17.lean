import BB.Proofs.CachingDedupRun
import BB.Proofs.CachingLimit
import BB.Proofs.CachingExistenceWf
import BB.Proofs.CachingCompositeFaults
import BB.Proofs.CachingReplicate
import BB.Model.CachingKey
/-!
# Property C17 - read caching, fallback, replicators and existence caches are transparent

Models: `BB.Model.Caching` (backends with fault scripts, sequential replicators, the
read-through composites, the existence cache), `BB.Model.CachingLimit` (semaphore and queue
protocols), `BB.Model.CachingDedup` (the deduplicating replicator as a concurrent protocol).

All statements are over arbitrary backends / fault scripts / step sequences / clock readings;
nothing is bounded.  `example`s next to the theorems exhibit non-trivial instances.
-/
namespace BB.C17
open BB.Caching

/-! ## (2) Deduplicating replicator -/

/-- **At most one concurrent `base` copy per key**: in every state reachable by any interleaving
of any number of callers, two callers inside `base.ReplicateMultiple` for the same key are the
same caller. -/
theorem C17_dedup_mutex (acts : List DAct) (s : DState) (h : drun {} acts = some s)
    (i j : Nat) (k : Key) (hi : i < s.ncallers) (hj : j < s.ncallers)
    (ci : (s.callers i).copying k) (cj : (s.callers j).copying k) : i = j := by
  have hinv := drun_inv dinv_init h
  obtain ⟨⟨ri, hri⟩, hki⟩ := ci
  obtain ⟨⟨rj, hrj⟩, hkj⟩ := cj
  have pi := (hinv.callers i hi).pc
  have pj := (hinv.callers j hj).pc
  rw [hri] at pi; rw [hrj] at pj
  obtain ⟨k1, rest1, a1, a2, a3, _⟩ := pi
  obtain ⟨k2, rest2, b1, b2, b3, _⟩ := pj
  rw [a1] at hki; rw [b1] at hkj
  simp only [List.head?_cons, Option.some.injEq] at hki hkj
  subst hki; subst hkj
  rw [a2] at b2; cases b2
  rw [← a3, ← b3]

/-- The leader phase as a whole is exclusive too (sink check, copy, deregistration). -/
theorem C17_dedup_single_leader (acts : List DAct) (s : DState) (h : drun {} acts = some s)
    (i j : Nat) (k : Key) (hi : i < s.ncallers) (hj : j < s.ncallers) (ri rj : Nat)
    (hki : (s.callers i).todo.head? = some k) (hkj : (s.callers j).todo.head? = some k)
    (pi : (s.callers i).pc = .sink ri ∨ (s.callers i).pc = .copy ri ∨ ∃ o, (s.callers i).pc = .dereg ri o)
    (pj : (s.callers j).pc = .sink rj ∨ (s.callers j).pc = .copy rj ∨ ∃ o, (s.callers j).pc = .dereg rj o) :
    i = j := by
  have hinv := drun_inv dinv_init h
  have li : Leader s i (s.callers i) ri := by
    have := (hinv.callers i hi).pc
    rcases pi with p | p | ⟨o, p⟩ <;> rw [p] at this <;> exact this
  have lj : Leader s j (s.callers j) rj := by
    have := (hinv.callers j hj).pc
    rcases pj with p | p | ⟨o, p⟩ <;> rw [p] at this <;> exact this
  obtain ⟨k1, rest1, a1, a2, a3, _⟩ := li
  obtain ⟨k2, rest2, b1, b2, b3, _⟩ := lj
  rw [a1] at hki; rw [b1] at hkj
  simp only [List.head?_cons, Option.some.injEq] at hki hkj
  subst hki; subst hkj
  rw [a2] at b2; cases b2
  rw [← a3, ← b3]

/-- **Success is justified.**  If a caller's `ReplicateMultiple` returned nil, then for every
digest `k` it asked for there is a registration `r` for `k` and an instant `t` with
`tStart ≤ t ≤ tEnd` (inside the caller's call) at which `r` was registered and not yet
deregistered (`tReg ≤ t ≤ tDereg`), and `r` ended with the sink reporting `k` present or the
`base` copy succeeding.  (The window: `r`'s open interval, which ends at the leader's
deregistration, intersects the caller's call; the leader's sink check / copy itself may have
returned a few steps before the caller's first step when the caller is a waiter that found `r`
still registered.) -/
theorem C17_dedup_success_justified (acts : List DAct) (s : DState) (h : drun {} acts = some s)
    (i : Nat) (hi : i < s.ncallers) (hdone : (s.callers i).pc = .done none) (k : Key)
    (hk : k ∈ (s.callers i).digests) :
    ∃ r t, r < s.nregs ∧ (s.regs r).key = k ∧
      ((s.regs r).outcome = some .present ∨ (s.regs r).outcome = some .copied) ∧
      (s.callers i).tStart ≤ t ∧ t ≤ (s.callers i).tEnd ∧
      (s.regs r).tReg ≤ t ∧ ∃ td, (s.regs r).tDereg = some td ∧ t ≤ td := by
  have hinv := drun_inv dinv_init h
  have hc := hinv.callers i hi
  have hp := hc.pc
  rw [hdone] at hp
  have hcov := hc.cover
  simp only [PcInv] at hp
  rw [hp, List.append_nil] at hcov
  rw [← hcov] at hk
  obtain ⟨w, hw, rfl⟩ := List.mem_map.mp hk
  obtain ⟨a1, a2, ⟨o, a3, a3'⟩, a4, a5, a6, a7⟩ := hc.wit w hw
  have hfin := hinv.fin w.2.1 a1 (by rw [a3]; simp)
  obtain ⟨td, htd⟩ := Option.ne_none_iff_exists'.mp hfin
  refine ⟨w.2.1, w.2.2, a1, a2, ?_, a4, a5, a6, td, htd, a7 td htd⟩
  cases o with
  | present => exact Or.inl a3
  | copied => exact Or.inr a3
  | sinkErr e => simp [Outcome.isOk, Outcome.err] at a3'
  | copyErr e => simp [Outcome.isOk, Outcome.err] at a3'

/-- Non-vacuity: two callers ask for key 1; caller 0 leads, finds it missing and is inside `base`
while caller 1 waits; later caller 1 is released with nil by caller 0's successful copy. -/
example : ∃ s, drun {} [.call [1, 2] false, .call [1] false, .enter 0, .enter 1, .sinkReply 0 .missing] = some s ∧
    (s.callers 0).copying 1 ∧ (s.callers 1).pc = .wait 0 :=
  ⟨_, rfl, ⟨⟨0, rfl⟩, rfl⟩, rfl⟩

example : ∃ s, drun {} [.call [1, 2] false, .call [1] false, .enter 0, .enter 1, .sinkReply 0 .missing,
      .copyEnd 0 none, .dereg 0, .publish 0, .wake 1] = some s ∧
    1 < s.ncallers ∧ (s.callers 1).pc = .done none ∧ 1 ∈ (s.callers 1).digests ∧
    (s.regs 0).outcome = some .copied ∧ (s.callers 1).wit = [(1, 0, 3)] :=
  ⟨_, rfl, by decide, rfl, by decide, rfl, rfl⟩

/-- **Waiters retry after a failed leader.**  A waiter whose registration ended in failure does
not return and does not skip the digest: it goes back to `enter` for the same digest, nothing
else changes, and `enter` is enabled again - it either becomes the leader itself or waits for
whoever registered in the meantime. -/
theorem C17_dedup_retry (s : DState) (hinv : DInv s) (i r : Nat) (k : Key) (rest : List Key) (o : Outcome)
    (hi : i < s.ncallers) (hpc : (s.callers i).pc = .wait r) (htodo : (s.callers i).todo = k :: rest)
    (ho : (s.regs r).outcome = some o) (hfail : o.isOk = false) :
    ∃ s', dstep s (.wake i) = some s' ∧ (s'.callers i).pc = .enter ∧ (s'.callers i).todo = k :: rest ∧
      s'.inFlight = s.inFlight ∧ s'.regs = s.regs ∧ (∀ j, j ≠ i → s'.callers j = s.callers j) ∧
      ∃ s'', dstep s' (.enter i) = some s'' ∧
        ((s.inFlight k = none ∧ (s''.callers i).pc = .sink s.nregs ∧ s''.inFlight k = some s.nregs) ∨
         (∃ r', s.inFlight k = some r' ∧ (s''.callers i).pc = .wait r')) := by
  have _ := hinv
  refine ⟨s.setCaller i { s.callers i with pc := .enter }, ?_, by simp, by simpa using htodo, rfl, rfl,
    fun j hj => by simp [hj], ?_⟩
  · simp [dstep, hi, hpc, htodo, ho, hfail]
  · cases hfl : s.inFlight k with
    | none =>
      simp only [dstep, setCaller_ncallers, hi, if_true, setCaller_callers, htodo, setCaller_inFlight, hfl]
      exact ⟨_, rfl, Or.inl ⟨trivial, by simp, by simp⟩⟩
    | some r' =>
      simp only [dstep, setCaller_ncallers, hi, if_true, setCaller_callers, htodo, setCaller_inFlight, hfl]
      exact ⟨_, rfl, Or.inr ⟨r', rfl, by simp⟩⟩

/-- **Cancellation of a waiter** returns the context's error to that waiter only: the in-flight
map, every registration (so the leader's too) and every other caller are untouched. -/
theorem C17_dedup_cancel_isolated (s : DState) (i r : Nat) (hi : i < s.ncallers)
    (hpc : (s.callers i).pc = .wait r) (hc : (s.callers i).cancelled = true) :
    ∃ s', dstep s (.abort i) = some s' ∧ (s'.callers i).pc = .done (some Err.ctx) ∧
      s'.inFlight = s.inFlight ∧ s'.regs = s.regs ∧ s'.nregs = s.nregs ∧
      ∀ j, j ≠ i → s'.callers j = s.callers j := by
  simp only [dstep, hi, if_true, hpc, hc]
  exact ⟨_, rfl, by simp, rfl, rfl, rfl, fun j hj => by simp [hj]⟩

/-- **Errors are a caller's own**: the only steps after which a caller has returned an error are
its own `abort` (the context's error) and its own `publish` of the error its own sink check or
copy produced; a failed leader's error is never handed to a waiter. -/
theorem C17_dedup_error_own (s s' : DState) (a : DAct) (h : dstep s a = some s') (j : Nat) (e : Err)
    (hj : j < s.ncallers) (hafter : (s'.callers j).pc = .done (some e)) (hbefore : (s.callers j).pc ≠ .done (some e)) :
    (a = .abort j ∧ e = Err.ctx) ∨
    (a = .publish j ∧ ∃ r o, (s.callers j).pc = .publish r o ∧ o.err = some e) := by
  have other : ∀ (i : Nat) (c' : DCaller) (s0 : DState), s0.callers = s.callers → j ≠ i →
      ((s0.setCaller i c').callers j).pc = .done (some e) → False := by
    intro i c' s0 h0 hji h1
    simp only [setCaller_callers, hji, if_false, h0] at h1
    exact hbefore h1
  cases a with
  | call ks cn =>
    simp only [dstep, Option.some.injEq] at h; subst h
    simp only [Nat.ne_of_lt hj, if_false] at hafter
    exact absurd hafter hbefore
  | cancel i =>
    simp only [dstep] at h
    split at h <;> cases h
    by_cases e1 : j = i
    · subst e1; simp at hafter; exact absurd hafter hbefore
    · exact (other i _ s rfl e1 hafter).elim
  | enter i =>
    simp only [dstep] at h
    split at h
    · split at h
      · split at h <;> cases h <;> by_cases e1 : j = i
        · subst e1; simp at hafter
        · exact (other i _ _ rfl e1 hafter).elim
        · subst e1; simp at hafter
        · exact (other i _ s rfl e1 hafter).elim
      · cases h
    · cases h
  | wake i =>
    simp only [dstep] at h
    split at h
    · split at h
      · split at h
        · split at h <;> cases h <;> by_cases e1 : j = i
          · subst e1; simp [DCaller.advance] at hafter; split at hafter <;> cases hafter
          · exact (other i _ s rfl e1 hafter).elim
          · subst e1; simp at hafter
          · exact (other i _ s rfl e1 hafter).elim
        · cases h
      · cases h
    · cases h
  | abort i =>
    simp only [dstep] at h
    split at h
    · split at h
      · split at h
        · cases h
          by_cases e1 : j = i
          · subst e1; simp at hafter; exact Or.inl ⟨rfl, hafter.symm⟩
          · exact (other i _ s rfl e1 hafter).elim
        · cases h
      · cases h
    · cases h
  | sinkReply i rep =>
    simp only [dstep] at h
    split at h
    · split at h
      · cases h
        by_cases e1 : j = i
        · subst e1; cases rep <;> simp at hafter
        · exact (other i _ s rfl e1 hafter).elim
      · cases h
    · cases h
  | copyEnd i res =>
    simp only [dstep] at h
    split at h
    · split at h
      · cases h
        by_cases e1 : j = i
        · subst e1; simp at hafter
        · exact (other i _ s rfl e1 hafter).elim
      · cases h
    · cases h
  | dereg i =>
    simp only [dstep] at h
    split at h
    · split at h
      · cases h
        by_cases e1 : j = i
        · subst e1; simp at hafter
        · exact (other i _ _ rfl e1 hafter).elim
      · cases h
    · cases h
  | publish i =>
    simp only [dstep] at h
    split at h
    · split at h
      · rename_i r o k rest hpc htodo
        split at h <;> cases h <;> by_cases e1 : j = i
        · subst e1; simp [DCaller.advance] at hafter; split at hafter <;> cases hafter
        · exact (other i _ _ rfl e1 hafter).elim
        · rename_i e' herr
          subst e1; simp at hafter; subst hafter
          exact Or.inr ⟨rfl, r, o, hpc, herr⟩
        · exact (other i _ _ rfl e1 hafter).elim
      · cases h
    · cases h

/-! ## (3) Concurrency-limiting and queued replicators -/

/-- **At most `n` concurrent `base` calls** behind a semaphore of `n` permits, for every
interleaving of calls, cancellations, acquisitions, returns of `base` and releases. -/
theorem C17_limit (n : Nat) (acts : List LAct) (s : LState) (h : lrun { cap := n } acts = some s) :
    s.inBase ≤ n := by
  have := (lrun_inv (linv_init n) h).inBase_le
  have hcap : ∀ (s s' : LState) (a : LAct), lstep s a = some s' → s'.cap = s.cap := by
    intro s s' a h
    cases a <;> simp only [lstep] at h <;> (repeat' split at h) <;> cases h <;> rfl
  have hrun : ∀ (as : List LAct) (s s' : LState), lrun s as = some s' → s'.cap = s.cap := by
    intro as
    induction as with
    | nil => intro s s' h; simp only [lrun, Option.some.injEq] at h; subst h; rfl
    | cons a as ih =>
      intro s s' h
      simp only [lrun] at h
      split at h
      · rename_i s1 hs1; rw [ih s1 s' h, hcap s s1 a hs1]
      · cases h
  rw [hrun acts _ s h] at this
  exact this

example : ∃ s, lrun { cap := 1 } [.call [1] false, .call [2] false, .acquire 0] = some s ∧ s.inBase = 1 ∧
    lstep s (.acquire 1) = none :=
  ⟨_, rfl, rfl, rfl⟩

/-- A caller of the limiting replicator gets nil only from its own `base` call returning nil
while it held a permit. -/
theorem C17_limit_success_from_base (s s' : LState) (a : LAct) (h : lstep s a = some s') (j : Nat) (c c' : LCaller)
    (hc : s.callers[j]? = some c) (hc' : s'.callers[j]? = some c') (hdone : c'.pc = .done none)
    (hnot : c.pc ≠ .done none) : a = .release j ∧ c.pc = .afterBase none := by
  cases a with
  | call ks cn =>
    simp only [lstep, Option.some.injEq] at h; subst h
    have hj : j < s.callers.length := by
      rcases Nat.lt_or_ge j s.callers.length with h | h
      · exact h
      · rw [List.getElem?_eq_none h] at hc; cases hc
    rw [List.getElem?_append_left hj, hc] at hc'
    cases hc'; exact absurd hdone hnot
  | callRead kind k cn =>
    simp only [lstep, Option.some.injEq] at h; subst h
    have hj : j < s.callers.length := by
      rcases Nat.lt_or_ge j s.callers.length with h | h
      · exact h
      · rw [List.getElem?_eq_none h] at hc; cases hc
    rw [List.getElem?_append_left hj, hc] at hc'
    cases hc'; exact absurd hdone hnot
  | baseCopied i =>
    simp only [lstep] at h
    split at h
    · split at h
      · cases h
        simp only [List.getElem?_set] at hc'
        split at hc'
        · split at hc' <;> cases hc'; cases hdone
        · rw [hc] at hc'; cases hc'; exact absurd hdone hnot
      · cases h
    · cases h
  | cancel i =>
    simp only [lstep] at h
    split at h <;> cases h
    rename_i ci hci
    simp only [List.getElem?_set] at hc'
    split at hc'
    · rename_i e; subst e; rw [hci] at hc; cases hc
      split at hc' <;> cases hc'
      exact absurd hdone hnot
    · rw [hc] at hc'; cases hc'; exact absurd hdone hnot
  | acquire i =>
    simp only [lstep] at h
    split at h
    · split at h
      · split at h <;> cases h
        simp only [List.getElem?_set] at hc'
        split at hc'
        · split at hc' <;> cases hc'; cases hdone
        · rw [hc] at hc'; cases hc'; exact absurd hdone hnot
      · cases h
    · cases h
  | abort i =>
    simp only [lstep] at h
    split at h
    · split at h
      · split at h <;> cases h
        simp only [List.getElem?_set] at hc'
        split at hc'
        · split at hc' <;> cases hc'; cases hdone
        · rw [hc] at hc'; cases hc'; exact absurd hdone hnot
      · cases h
    · cases h
  | baseEnd i r =>
    simp only [lstep] at h
    split at h
    · split at h
      · cases h
        simp only [List.getElem?_set] at hc'
        split at hc'
        · split at hc' <;> cases hc'; cases hdone
        · rw [hc] at hc'; cases hc'; exact absurd hdone hnot
      · cases h
    · cases h
  | release i =>
    simp only [lstep] at h
    split at h
    · rename_i ci hci
      split at h
      · rename_i r hpc
        cases h
        simp only [List.getElem?_set] at hc'
        split at hc'
        · rename_i e; subst e
          rw [hci] at hc; cases hc
          split at hc' <;> cases hc'
          simp only [LPc.done.injEq] at hdone
          have hr : r = none := by
            unfold LCaller.final at hdone
            split at hdone
            · cases hdone
            · rfl
            · rfl
          subst hr
          exact ⟨rfl, hpc⟩
        · rw [hc] at hc'; cases hc'; exact absurd hdone hnot
      · cases h
    · cases h

/-- **Every entry point takes a permit**: whichever way a caller came in (`ReplicateMultiple`,
`ReplicateSingle` or `ReplicateComposite` - the latter two as `ReplicateMultiple` of the (parent)
digest), the only step that puts it inside `base.ReplicateMultiple` is its own `acquire`, which
needs a free permit. -/
theorem C17_limit_base_only_after_acquire (s s' : LState) (a : LAct) (h : lstep s a = some s') (j : Nat)
    (c c' : LCaller) (hc : s.callers[j]? = some c) (hc' : s'.callers[j]? = some c') (hin : c'.pc = .inBase)
    (hnot : c.pc ≠ .inBase) : a = .acquire j ∧ s.held < s.cap ∧ c.pc = .waiting ∧ c'.kind = c.kind := by
  have hj : j < s.callers.length := by
    rcases Nat.lt_or_ge j s.callers.length with h | h
    · exact h
    · rw [List.getElem?_eq_none h] at hc; cases hc
  cases a with
  | call ks cn =>
    simp only [lstep, Option.some.injEq] at h; subst h
    rw [List.getElem?_append_left hj, hc] at hc'
    cases hc'; exact absurd hin hnot
  | callRead kind k cn =>
    simp only [lstep, Option.some.injEq] at h; subst h
    rw [List.getElem?_append_left hj, hc] at hc'
    cases hc'; exact absurd hin hnot
  | acquire i =>
    simp only [lstep] at h
    split at h
    · rename_i ci hci
      split at h
      · rename_i hpc
        split at h
        · rename_i hlt
          cases h
          simp only [List.getElem?_set] at hc'
          split at hc'
          · rename_i e; subst e
            rw [hci] at hc; cases hc
            split at hc' <;> cases hc'
            all_goals first | exact ⟨rfl, hlt, hpc, rfl⟩ | (exfalso; omega)
          · rw [hc] at hc'; cases hc'; exact absurd hin hnot
        · cases h
      · cases h
    · cases h
  | cancel i =>
    simp only [lstep] at h
    split at h <;> cases h
    rename_i ci hci
    simp only [List.getElem?_set] at hc'
    split at hc'
    · rename_i e; subst e; rw [hci] at hc; cases hc
      split at hc' <;> cases hc'
      all_goals first | exact absurd hin hnot | (exfalso; omega)
    · rw [hc] at hc'; cases hc'; exact absurd hin hnot
  | baseCopied i =>
    simp only [lstep] at h
    split at h
    · split at h
      · cases h
        simp only [List.getElem?_set] at hc'
        split at hc'
        · split at hc' <;> cases hc'; cases hin
        · rw [hc] at hc'; cases hc'; exact absurd hin hnot
      · cases h
    · cases h
  | abort i =>
    simp only [lstep] at h
    split at h
    · split at h
      · split at h <;> cases h
        simp only [List.getElem?_set] at hc'
        split at hc'
        · split at hc' <;> cases hc'; cases hin
        · rw [hc] at hc'; cases hc'; exact absurd hin hnot
      · cases h
    · cases h
  | baseEnd i r =>
    simp only [lstep] at h
    split at h
    · split at h
      · cases h
        simp only [List.getElem?_set] at hc'
        split at hc'
        · split at hc' <;> cases hc'; cases hin
        · rw [hc] at hc'; cases hc'; exact absurd hin hnot
      · cases h
    · cases h
  | release i =>
    simp only [lstep] at h
    split at h
    · split at h
      · cases h
        simp only [List.getElem?_set] at hc'
        split at hc'
        · split at hc' <;> cases hc'; cases hin
        · rw [hc] at hc'; cases hc'; exact absurd hin hnot
      · cases h
    · cases h

/-- What `ReplicateSingle` / `ReplicateComposite` of the limiting replicator return once the
permit is back: the error of `base`, else nil iff the sink holds the object, else INTERNAL
(`notFoundToInternalErrorHandler`). -/
theorem C17_limit_read_result (c : LCaller) (sink : Key → Bool) (k : Key) (hk : c.keys = [k])
    (hkind : c.kind = .single ∨ c.kind = .composite) :
    (∀ e, c.final sink (some e) = some e) ∧
    (sink k = true → c.final sink none = none) ∧
    (sink k = false → c.final sink none = some ⟨internal, 0⟩) := by
  refine ⟨fun e => ?_, fun h => ?_, fun h => ?_⟩
  · unfold LCaller.final; cases c.kind <;> rfl
  · unfold LCaller.final; rcases hkind with e | e <;> simp [e, hk, h]
  · unfold LCaller.final; rcases hkind with e | e <;> simp [e, hk, h]

example : ∃ s, lrun { cap := 1 } [.callRead .composite 1 false, .callRead .single 2 false, .acquire 0] = some s ∧
    s.inBase = 1 ∧ lstep s (.acquire 1) = none :=
  ⟨_, rfl, rfl, rfl⟩

/-- **The queued replicator is serial**: at most one `base` call at any time. -/
theorem C17_queue_serial (c : ECache) (acts : List QAct) (s : QState) (h : qrun { cache := c } acts = some s) :
    s.inBase ≤ 1 :=
  (qrun_inv (qinv_init c) h).inBase_le

example : ∃ s, qrun { cache := { cap := 2, dur := 10 } }
      [.call [1] false 0, .call [1, 2] false 0, .take 1 1] = some s ∧ s.inBase = 1 ∧ qstep s (.take 0 1) = none :=
  ⟨_, rfl, rfl, rfl⟩

/-! ## (4) Existence cache -/

/-- One use of the cache: `FindMissing` through `ExistenceCachingBlobAccess` (clock readings
`now1` at `RemoveExisting` and `now2` at `Add`, arbitrary backend answer `ask`), or the bare
`RemoveExisting` / `Add` calls the queued replicator makes. -/
inductive EOp where
  | fm (now1 now2 : Nat) (ds : List Key) (ask : List Key → Except Err (List Key))
  | remove (now : Nat) (ds : List Key)
  | add (now : Nat) (ds : List Key)

def eapply (c : ECache) : EOp → ECache
  | .fm n1 n2 ds ask => (ecFindMissingR c n1 n2 ds ask).1
  | .remove now ds => (c.removeExisting now ds).1
  | .add now ds => c.add now ds

def erun (c : ECache) (ops : List EOp) : ECache := ops.foldl eapply c

theorem eapply_just {c : ECache} (op : EOp) (h : EJust c) : EJust (eapply c op) := by
  cases op with
  | fm n1 n2 ds ask => exact ejust_findMissing n1 n2 ds ask h
  | remove now ds => exact ejust_removeExisting now ds h
  | add now ds => exact ejust_add now ds h

theorem eapply_dur (c : ECache) (op : EOp) : (eapply c op).dur = c.dur ∧ (eapply c op).cap = c.cap := by
  cases op with
  | fm n1 n2 ds ask => obtain ⟨_, _, a, b, _⟩ := findMissing_log c n1 n2 ds ask; exact ⟨b, a⟩
  | remove now ds => obtain ⟨_, _, a, b, _⟩ := removeExisting_ins_log c now ds; exact ⟨b, a⟩
  | add now ds => obtain ⟨_, _, _, a, b⟩ := add_log c now ds; exact ⟨b, a⟩

theorem erun_just {c : ECache} (ops : List EOp) (h : EJust c) : EJust (erun c ops) := by
  unfold erun
  induction ops generalizing c with
  | nil => exact h
  | cons op ops ih => exact ih (eapply_just op h)

theorem erun_dur (c : ECache) (ops : List EOp) : (erun c ops).dur = c.dur ∧ (erun c ops).cap = c.cap := by
  unfold erun
  induction ops generalizing c with
  | nil => exact ⟨rfl, rfl⟩
  | cons op ops ih =>
    obtain ⟨a, b⟩ := ih (eapply c op); obtain ⟨a', b'⟩ := eapply_dur c op
    exact ⟨a.trans a', b.trans b'⟩

/-- **An existence cache hides a digest only on fresh evidence.**  After any history of uses, with
any cache size, duration and clock readings (monotone or not): if the cache hides `k` at time
`now` (drops it from the set handed to the backend, so that it is reported present), then an
`Add` containing `k` happened at a time `t` with `now ≤ t + duration`, and `k` has not been
evicted since that `Add`. -/
theorem C17_existence_fresh (cap dur : Nat) (ops : List EOp) (now : Nat) (k : Key)
    (h : (erun { cap := cap, dur := dur } ops).hides now k = true) :
    ∃ t, now ≤ t + dur ∧ JustifiedBy (erun { cap := cap, dur := dur } ops).log k t := by
  have hj := erun_just ops (ejust_init cap dur)
  have hd := (erun_dur { cap := cap, dur := dur } ops).1
  unfold ECache.hides at h
  split at h
  · rename_i t ht
    refine ⟨t, ?_, hj k t ht⟩
    rw [hd] at h; simpa using h
  · cases h

/-- **`Add` is only called with digests the backend did not report missing in that call**: every
`added k t` event of a `FindMissing` through the decorator is for a digest of the request that the
cache did not hide, that was therefore passed to the backend, and that the backend's answer to
exactly that call does not list as missing; `t` is the clock reading after the backend call. -/
theorem C17_existence_add_only_present (c : ECache) (n1 n2 : Nat) (ds : List Key)
    (ask : List Key → Except Err (List Key)) :
    ∃ delta, (ecFindMissingR c n1 n2 ds ask).1.log = c.log ++ delta ∧
      ∀ k t, EEvent.added k t ∈ delta → t = n2 ∧ k ∈ ds ∧ c.hides n1 k = false ∧
        ∃ missing, ask (ds.filter fun k => !c.hides n1 k) = .ok missing ∧ k ∉ missing := by
  obtain ⟨d, a, _, _, b⟩ := findMissing_log c n1 n2 ds ask
  exact ⟨d, a, b⟩

/-- What the decorator answers: the backend's answer for the digests that are not hidden. -/
theorem C17_existence_answer (c : ECache) (n1 n2 : Nat) (ds : List Key) (ask : List Key → Except Err (List Key)) :
    (ecFindMissingR c n1 n2 ds ask).2 = ask (ds.filter fun k => !c.hides n1 k) := by
  unfold ecFindMissingR
  simp only [removeExisting_snd]
  split <;> rename_i h <;> rw [h]

/-- The structural invariant: the map and the LRU queue hold the same keys, at most `cap` of
them, through every history (cache sizes down to 1).  Hence `evict` always finds a victim and
`touch` its key - the places where the real `lruSet` has no defined behaviour are unreachable. -/
theorem C17_existence_wf (cap dur : Nat) (hcap : 1 ≤ cap) (ops : List EOp) :
    (erun { cap := cap, dur := dur } ops).Wf := by
  have key : ∀ (ops : List EOp) (c : ECache), c.Wf → 1 ≤ c.cap → (erun c ops).Wf := by
    intro ops
    induction ops with
    | nil => intro c h _; exact h
    | cons op ops ih =>
      intro c h hc
      have hc' : 1 ≤ (eapply c op).cap := by rw [(eapply_dur c op).2]; exact hc
      refine ih (eapply c op) ?_ hc'
      cases op with
      | fm n1 n2 ds ask =>
        simp only [eapply, ecFindMissingR]
        have w := wf_removeExisting n1 ds h
        have hc1 : 1 ≤ (c.removeExisting n1 ds).1.cap := by
          rw [(removeExisting_ins_log c n1 ds).2.2.1]; exact hc
        split
        · exact w
        · exact (wf_add _ _ hc1 w).1
      | remove now ds => exact wf_removeExisting now ds h
      | add now ds => exact (wf_add now ds hc h).1
  exact key ops _ (wf_init cap dur) hcap

/-- Non-vacuity, cache size 1: key 1 is added at time 5 and hidden at time 15 (duration 10), not
hidden at time 16; adding key 2 evicts key 1. -/
example : (erun { cap := 1, dur := 10 } [.fm 5 5 [1] (fun _ => .ok [])]).hides 15 1 = true := by decide
example : (erun { cap := 1, dur := 10 } [.fm 5 5 [1] (fun _ => .ok [])]).hides 16 1 = false := by decide
example : (erun { cap := 1, dur := 10 } [.fm 5 5 [1] (fun _ => .ok []), .fm 6 6 [2] (fun _ => .ok [])]).hides 7 1 = false ∧
    (erun { cap := 1, dur := 10 } [.fm 5 5 [1] (fun _ => .ok []), .fm 6 6 [2] (fun _ => .ok [])]).log =
      [.added 1 5, .evicted 1, .added 2 6] := by decide

/-! ## (1) Read caching and read fallback

`Pair.src` is the slow backend (read caching) resp. the secondary (read fallback), `Pair.sink`
the fast resp. primary one; `compGet` / `compGetComposite` are the `Get` / `GetFromComposite` of
both decorators (they differ only in error message prefixes). -/

/-- **Read-through is transparent** (no pending faults, `noop` or any copying replicator -
`local`, or `dedup`/`limit` around a copying one): `Get` and `GetFromComposite` return the
object iff the fast/primary or the slow/secondary backend holds it (the former's copy first),
NOT_FOUND otherwise; the slow/secondary backend's contents never change; other keys of the
fast/primary backend never change; with a copying replicator the object is in the
fast/primary backend afterwards, with `noop` that backend is unchanged. -/
theorem C17_cache_transparent (r : Repl) (hr : r = .noop ∨ r.copying = true) (p : Pair) (k : Key)
    (hnf : p.NoFaults) :
    GetSpec r p k (compGet r p k) ∧ GetSpec r p k (compGetComposite r p k) :=
  ⟨getThrough_spec replSingle (fun r p k h => replSingle_spec r h p k) r hr p k hnf,
   getThrough_spec replComposite (fun r p k h => replComposite_spec r h p k) r hr p k hnf⟩

/-- The "iff" spelled out. -/
theorem C17_cache_get_iff (r : Repl) (hr : r = .noop ∨ r.copying = true) (p : Pair) (k : Key) (hnf : p.NoFaults) :
    (∃ v, (compGet r p k).2 = .ok v) ↔ ((p.sink.data k).isSome = true ∨ (p.src.data k).isSome = true) := by
  rw [(C17_cache_transparent r hr p k hnf).1.val]
  unfold Pair.lookup
  cases p.sink.data k <;> cases p.src.data k <;> simp

/-- **Uploads go only to the slow backend** (read caching): the fast backend is not even called,
whatever the fault scripts; likewise `FindMissing`.  Without a fault the object is in the slow
backend afterwards. -/
theorem C17_cache_put_slow_only (p : Pair) (k : Key) (v : Val) (ks : List Key) :
    (cachePut p k v).1.sink = p.sink ∧ (cacheFindMissing p ks).1.sink = p.sink ∧
    (cachePut p k v).2 = p.src.fault ∧
    (p.src.fault = none → (cachePut p k v).1.src.data k = some v) := by
  refine ⟨rfl, rfl, ?_, ?_⟩
  · unfold cachePut Backend.put; cases p.src.fault <;> rfl
  · intro h; unfold cachePut Backend.put; simp [h]

/-- **After a successful read-through with a copying replicator the fast/primary backend holds
the object** - for every fault script. -/
theorem C17_cache_readthrough_fills (r : Repl) (hr : r.copying = true) (p : Pair) (k : Key) (v : Val)
    (h : (compGet r p k).2 = .ok v) : (compGet r p k).1.sink.data k = some v :=
  compGet_ok_sink_holds r hr p k v h

/-- **Errors other than NOT_FOUND are not masked**: a failure of the first backend with another
code is the result and the second backend is not called; with `noop`/`local` a failure of the
second backend's `Get` (any code) is the result. -/
theorem C17_errors_not_masked (r : Repl) (p : Pair) (k : Key) (e : Err) :
    (p.sink.fault = some e → e.code ≠ notFound →
      compGet r p k = (⟨p.src, p.sink.ticked⟩, .error e) ∧
      compGetComposite r p k = (⟨p.src, p.sink.ticked⟩, .error e)) ∧
    ((r = .noop ∨ r = .localR) → ∀ e0, (p.sink.get k).2 = .error e0 → e0.code = notFound →
      p.src.fault = some e → (compGet r p k).2 = .error e) :=
  ⟨fun hf hc => ⟨getThrough_first_error _ r p k e hf hc, getThrough_first_error _ r p k e hf hc⟩,
   fun hr e0 h0 hc0 hf => compGet_second_error r hr p k e0 e h0 hc0 hf⟩

/-- **Read fallback**: `Get` as above (`C17_cache_transparent` - the same function); uploads go
only to the primary; `FindMissing` (no pending faults) reports exactly the objects missing from
both backends, leaves the secondary alone, changes the primary only by copying objects it
lacked from the secondary, and with a copying replicator every requested object held by the
secondary is in the primary afterwards. -/
theorem C17_fallback_transparent (r : Repl) (hr : r = .noop ∨ r.copying = true) (p : Pair) (k : Key) (v : Val)
    (ks : List Key) (hnf : p.NoFaults) :
    GetSpec r p k (compGet r p k) ∧
    (fallbackPut p k v).1.src = p.src ∧
    (fallbackFindMissing r p ks).2 = .ok (ks.filter fun k => (p.sink.data k).isNone && (p.src.data k).isNone) ∧
    (fallbackFindMissing r p ks).1.src.data = p.src.data ∧
    (∀ k, (fallbackFindMissing r p ks).1.sink.data k = p.sink.data k ∨
      ((p.sink.data k).isNone = true ∧ (fallbackFindMissing r p ks).1.sink.data k = p.src.data k)) ∧
    (r.copying = true → ∀ k ∈ ks, (p.src.data k).isSome = true →
      ((fallbackFindMissing r p ks).1.sink.data k).isSome = true) :=
  ⟨(C17_cache_transparent r hr p k hnf).1, rfl, fallbackFindMissing_spec r hr p ks hnf⟩

/-- **A copying replicator never reports success without the sink holding the objects**: for
every fault script, every backend contents and every digest list (the empty blob is a key like
any other - nothing is "implicitly present"), if `ReplicateMultiple` of `local` or of
`dedup`/`limit` nestings around it returns nil, every requested object is in the sink
afterwards; and no replication ever removes an object from the sink. -/
theorem C17_replicate_ok_holds (r : Repl) (hr : r.copying = true) (p : Pair) (ks : List Key) :
    ((replMultiple r p ks).2 = none → ∀ k ∈ ks, ((replMultiple r p ks).1.sink.data k).isSome = true) ∧
    (∀ k, (p.sink.data k).isSome = true → ((replMultiple r p ks).1.sink.data k).isSome = true) :=
  ⟨(replMultiple_ok r hr).holds p ks, (replMultiple_ok r hr).mono p ks⟩

/-- Non-vacuity: slow holds key 7, fast is empty, `dedup local`: the read returns the value and
fills the fast backend; key 8 is in neither and yields NOT_FOUND; fallback `FindMissing [7, 8]`
reports `[8]`. -/
def exPair : Pair := ⟨{ data := fun k => if k = 7 then some 70 else none }, { data := fun _ => none }⟩
example : exPair.NoFaults := ⟨rfl, rfl⟩
example : (compGet (.dedup .localR) exPair 7).2 = .ok 70 ∧
    (compGet (.dedup .localR) exPair 7).1.sink.data 7 = some 70 ∧
    (compGet (.dedup .localR) exPair 8).2 = .error Err.absent ∧
    (fallbackFindMissing (.dedup .localR) exPair [7, 8]).2 = .ok [8] ∧
    (fallbackFindMissing (.dedup .localR) exPair [7, 8]).1.sink.data 7 = some 70 :=
  ⟨rfl, rfl, rfl, rfl, rfl⟩

/-! ## (5) What the existence cache in front of a configured stack is keyed by -/

open BB.Gen.KeyFormat in
/-- **The cache key separates whatever one of the backends separates.**  For `read_fallback` and
`mirrored` stacks (key format = generated `Combine` of the two backends' formats): if either
backend distinguishes instance names, two digests share a cache key only if they are the same
digest under the same instance name - so a report of presence under one instance name can
never hide the object under another.  For `read_caching` the same with the slow backend (the
only one `FindMissing` asks), for a single backend with its own format. -/
theorem C17_cache_key_separates (sh : Shape) (fa fb inst hash inst' hash' : Nat)
    (h : match sh with
      | .localS => fa = keyWithInstance
      | .caching => fb = keyWithInstance
      | _ => fa = keyWithInstance ∨ fb = keyWithInstance)
    (hk : digestKey (stackFormat sh fa fb) inst hash = digestKey (stackFormat sh fa fb) inst' hash') :
    inst = inst' ∧ hash = hash' := by
  have hf : stackFormat sh fa fb = keyWithInstance := by
    cases sh <;> simp only [stackFormat, combine] at * <;> (try exact h)
    all_goals rcases h with h | h
    all_goals simp [h]
  rw [hf] at hk
  simp only [digestKey, if_true, Prod.mk.injEq, Option.some.injEq] at hk
  exact hk

open BB.Gen.KeyFormat in
/-- Conversely a stack announces `keyWithoutInstance` only if every backend it consults for
`FindMissing` does (for proper formats), i.e. only if no backend can tell instance names apart. -/
theorem C17_cache_key_flat_only_if_all_flat (sh : Shape) (fa fb : Nat)
    (ha : fa = keyWithoutInstance ∨ fa = keyWithInstance) (hb : fb = keyWithoutInstance ∨ fb = keyWithInstance)
    (h : stackFormat sh fa fb = keyWithoutInstance) :
    match sh with
    | .localS => fa = keyWithoutInstance
    | .caching => fb = keyWithoutInstance
    | _ => fa = keyWithoutInstance ∧ fb = keyWithoutInstance := by
  cases sh <;> simp only [stackFormat, combine] at h ⊢
  · exact h
  · rcases ha with ha | ha <;> rcases hb with hb | hb <;> simp_all [keyWithInstance, keyWithoutInstance]
  · exact h
  · rcases ha with ha | ha <;> rcases hb with hb | hb <;> simp_all [keyWithInstance, keyWithoutInstance]

example : stackFormat .fallback 0 1 = 1 ∧ digestKey (stackFormat .fallback 0 1) 7 3 ≠ digestKey (stackFormat .fallback 0 1) 8 3 := by
  decide

end BB.C17
