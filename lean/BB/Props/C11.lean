import BB.Proofs.MirroredGet
/-!
# C11 - mirrored storage: writes reach both replicas, reads repair, errors are not masked

All statements are about the executable model `BB.Mirrored` (the definitions the
driver `bbmodel_c11` runs).  They hold for every state of the pair (every
placement of every object, every value of the round counter, hence after every
history), every fault script, every scheduling preference.
-/
namespace BB.C11
open BB.Mirrored

/-! ## Put -/

/-- A replica whose `Put` did not fail holds the object afterwards, whatever happened to the other one. -/
theorem C11_put_partial (p : Pair) (k : Key) (v : Val) (pref : Side) (s : Side)
    (h : (p.rep s).faultAt .put = none) : (put p k v pref).1.holds s k v := by
  unfold Pair.holds
  rw [put_fst]
  cases s
  · rw [putOn_store_ne _ _ _ _ _ (by decide)]
    exact putOn_holds .A p k v h
  · exact putOn_holds .B _ k v (by rw [faultAt_B_after_putA]; exact h)

/-- `Put` succeeds exactly when neither replica's `Put` fails. -/
theorem C11_put_ok_iff (p : Pair) (k : Key) (v : Val) (pref : Side) :
    (put p k v pref).2 = .ok () ↔ (p.rep .A).faultAt .put = none ∧ (p.rep .B).faultAt .put = none := by
  rw [put_snd]
  constructor
  · intro h
    have ⟨ha, hb⟩ := join2_ok h
    have ⟨_, ha⟩ := wrapRes_ok ha
    have ⟨_, hb⟩ := wrapRes_ok hb
    exact ⟨(putOn_ok_iff .A p k v).1 ha, by rw [← faultAt_B_after_putA p k (.ok v)]; exact (putOn_ok_iff .B _ k v).1 hb⟩
  · intro ⟨ha, hb⟩
    rw [(putOn_ok_iff .A p k v).2 ha, (putOn_ok_iff .B _ k v).2 (by rw [faultAt_B_after_putA]; exact hb)]
    rfl

/-- **C11_put_both.** A successful upload is present in both replicas. -/
theorem C11_put_both (p : Pair) (k : Key) (v : Val) (pref : Side) (h : (put p k v pref).2 = .ok ()) :
    (put p k v pref).1.holds .A k v ∧ (put p k v pref).1.holds .B k v :=
  have h' := (C11_put_ok_iff p k v pref).1 h
  ⟨C11_put_partial p k v pref .A h'.1, C11_put_partial p k v pref .B h'.2⟩

/-- A failed upload reports a replica whose `Put` did fail: the error is that
replica's failure (same code), prefixed with exactly that replica's name. -/
theorem C11_put_error_named (p : Pair) (k : Key) (v : Val) (pref : Side) (e : Err)
    (h : (put p k v pref).2 = .error e) :
    ∃ s, (p.rep s).faultAt .put = some e.code ∧
      e = ⟨e.code, [.backend s], .fault s .put ((p.rep s).cnt .put)⟩ := by
  rw [put_snd] at h
  rcases join2_error h with h | h
  · have ⟨e0, h0, he⟩ := wrapRes_error h
    have ⟨hf, hs⟩ := putOn_error .A p k v e0 h0
    refine ⟨.A, ?_, ?_⟩
    · rw [he]; exact hf
    · rw [he, hs]; rfl
  · have ⟨e0, h0, he⟩ := wrapRes_error h
    have ⟨hf, hs⟩ := putOn_error .B _ k v e0 h0
    rw [faultAt_B_after_putA] at hf
    rw [cnt_B_after_putA] at hs
    refine ⟨.B, ?_, ?_⟩
    · rw [he]; exact hf
    · rw [he, hs]; rfl

/-- `Put` touches no other key. -/
theorem C11_put_frame (p : Pair) (k k' : Key) (v : Val) (pref : Side) (s : Side) (hk : k' ≠ k) :
    ((put p k v pref).1.rep s).store k' = (p.rep s).store k' := by
  rw [put_fst]
  cases s
  · rw [putOn_store_ne _ _ _ _ _ (by decide), putOn_store_same]
    split <;> simp [hk]
  · rw [putOn_store_same, putOn_store_ne _ _ _ _ _ (by decide)]
    split <;> simp [hk]

/-! ## Get -/

/-- No fault fires: if the replica consulted first holds the object, it is
returned and nothing changes (the other replica is not even asked). -/
theorem C11_get_first (c : Cfg) (p : Pair) (k : Key) (v : Val) (hq : Quiet p)
    (h : p.holds (firstSide p) k v) :
    (get c p k).2 = .ok v ∧ (∀ t, ((get c p k).1.rep t).store = (p.rep t).store) ∧
      ∀ m, (((get c p k).1.rep (firstSide p).other).cnt m) = (p.rep (firstSide p).other).cnt m := by
  unfold Pair.holds at h
  have hnf : firstNF p k = false := by simp [firstNF, hq.faultAt, h]
  refine ⟨?_, ?_, ?_⟩
  · rw [get_snd]; simp [hq.faultAt, h]
  · intro t; funext k'; rw [get_store]; simp [hnf]
  · intro m; rw [get_fst]; simp [hnf]

/-- No fault fires: if the replica consulted first lacks the object and the
other one holds it, it is returned, the other replica keeps it, and with the
`local` replicator the replica consulted first holds it afterwards; no other
object changes. -/
theorem C11_get_repair (c : Cfg) (p : Pair) (k : Key) (v : Val) (hq : Quiet p)
    (h1 : (p.rep (firstSide p)).store k = none) (h2 : p.holds (firstSide p).other k v) :
    (get c p k).2 = .ok v ∧
      (c.toward (firstSide p) = .local → (get c p k).1.holds (firstSide p) k v) ∧
      (get c p k).1.holds (firstSide p).other k v ∧
      (∀ t k', ¬(t = firstSide p ∧ k' = k) → ((get c p k).1.rep t).store k' = (p.rep t).store k') := by
  unfold Pair.holds at h2
  refine ⟨?_, ?_, ?_, ?_⟩
  · rw [get_snd]; simp only [hq.faultAt, h1, stage2, h2]
    cases c.toward (firstSide p) <;> rfl
  · intro hl
    unfold Pair.holds
    have hnf : firstNF p k = true := by simp [firstNF, hq.faultAt, h1]
    rw [get_store]; simp [hnf, stage2Write, hq.faultAt, h2, hl]
  · unfold Pair.holds; rw [get_store]; simp [h2]
  · intro t k' hne; rw [get_store]; simp [hne]

/-- No fault fires and no replica holds the object: NOT_FOUND, unwrapped, nothing changes. -/
theorem C11_get_absent (c : Cfg) (p : Pair) (k : Key) (hq : Quiet p)
    (h1 : (p.rep (firstSide p)).store k = none) (h2 : (p.rep (firstSide p).other).store k = none) :
    (get c p k).2 = .error ⟨nf, [], .absent (firstSide p).other k⟩ ∧
      ∀ t, ((get c p k).1.rep t).store = (p.rep t).store := by
  refine ⟨?_, ?_⟩
  · rw [get_snd]; simp [hq.faultAt, h1, stage2, h2]
  · intro t; funext k'; rw [get_store]
    simp only [stage2Write, hq.faultAt, h2]
    split
    · next h => rw [h.2.1, h.2.2]
    · rfl

/-- **C11_get_available.** No fault fires and at least one replica holds the
object: the read returns a value some replica holds (the first one's if it has
one), and afterwards the replica consulted first holds that value (with the
`local` replicator; `noop` does not repair). -/
theorem C11_get_available (c : Cfg) (p : Pair) (k : Key) (hq : Quiet p)
    (h : ∃ s, (p.rep s).store k ≠ none) :
    ∃ v, (get c p k).2 = .ok v ∧
      (p.holds (firstSide p) k v ∨ ((p.rep (firstSide p)).store k = none ∧ p.holds (firstSide p).other k v)) ∧
      (c.toward (firstSide p) = .local → (get c p k).1.holds (firstSide p) k v) := by
  cases h1 : (p.rep (firstSide p)).store k with
  | some v =>
    have hh : p.holds (firstSide p) k v := h1
    have ⟨r, st, _⟩ := C11_get_first c p k v hq hh
    exact ⟨v, r, Or.inl hh, fun _ => by unfold Pair.holds; rw [st]; exact h1⟩
  | none =>
    cases h2 : (p.rep (firstSide p).other).store k with
    | some v =>
      have ⟨r, rep, _, _⟩ := C11_get_repair c p k v hq h1 h2
      exact ⟨v, r, Or.inr ⟨rfl, h2⟩, rep⟩
    | none =>
      exfalso
      obtain ⟨s, hs⟩ := h
      rcases Side.eq_or_other (firstSide p) s with e | e <;> subst e <;> simp_all

/-- Whatever faults fire: a read that succeeds returns a value a replica held,
namely the first replica's, or - when that one answered NOT_FOUND - the other
one's; in the latter case, with the `local` replicator, the replica consulted
first holds the value afterwards (a read never succeeds without its repair). -/
theorem C11_get_sound (c : Cfg) (p : Pair) (k : Key) (v : Val) (h : (get c p k).2 = .ok v) :
    p.holds (firstSide p) k v ∨
    (saidNF p (firstSide p) k ∧ p.holds (firstSide p).other k v ∧
      (c.toward (firstSide p) = .local → (get c p k).1.holds (firstSide p) k v)) := by
  rcases get_ok_cases c p k v h with ⟨_, h1⟩ | ⟨h1, h2, h3, h4⟩
  · exact Or.inl h1
  · refine Or.inr ⟨h1, h3, fun hl => ?_⟩
    unfold Pair.holds
    rw [get_store]
    simp [(firstNF_iff p k).2 h1, stage2Write, h2, h3, hl, h4 hl]

/-- A read that fails with a code other than NOT_FOUND reports a call that did
fail, with that call's code, under a replica's name: the first replica's `Get`
under the first replica's name; the second replica's `Get` under the second
replica's name; and the repair write into the first replica under the name of
the second replica (the source of the replication) followed by "Replication failed". -/
theorem C11_get_error_named (c : Cfg) (p : Pair) (k : Key) (e : Err)
    (h : (get c p k).2 = .error e) (hne : e.code ≠ nf) :
    (e = ⟨e.code, [.backend (firstSide p)], .fault (firstSide p) .get ((p.rep (firstSide p)).cnt .get)⟩ ∧
      (p.rep (firstSide p)).faultAt .get = some e.code) ∨
    (saidNF p (firstSide p) k ∧
      e = ⟨e.code, [.backend (firstSide p).other], .fault (firstSide p).other .get ((p.rep (firstSide p).other).cnt .get)⟩ ∧
      (p.rep (firstSide p).other).faultAt .get = some e.code) ∨
    (saidNF p (firstSide p) k ∧ c.toward (firstSide p) = .local ∧
      e = ⟨e.code, [.backend (firstSide p).other, .repl], .fault (firstSide p) .put ((p.rep (firstSide p)).cnt .put)⟩ ∧
      (p.rep (firstSide p)).faultAt .put = some e.code ∧
      (p.rep (firstSide p).other).faultAt .get = none ∧ (p.rep (firstSide p).other).store k ≠ none) :=
  get_error_cases c p k e h hne

/-- A read answers NOT_FOUND only if both replicas answered NOT_FOUND (provided
the repair write does not itself fail with code NOT_FOUND); the error is then
passed through unwrapped. In particular a failure with another code of either
replica's `Get` is never turned into NOT_FOUND. -/
theorem C11_get_not_found (c : Cfg) (p : Pair) (k : Key) (e : Err)
    (h : (get c p k).2 = .error e) (hc : e.code = nf)
    (hput : (p.rep (firstSide p)).faultAt .put ≠ some nf) :
    saidNF p (firstSide p) k ∧ saidNF p (firstSide p).other k ∧ e.tags = [] :=
  get_nf_cases c p k e h hc hput

end BB.C11
