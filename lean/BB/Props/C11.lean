import BB.Proofs.MirroredRun
/-!
# C11 - mirrored storage: writes reach both replicas, reads repair, errors are not masked

All statements are about the executable model `BB.Mirrored` (the definitions the
driver `bbmodel_c11` runs).  They hold for every state of the pair (every
placement of every object, every value of the round counter, hence after every
history), every fault script, every scheduling preference.

Two things the code does that the English statement of C11 glosses over, and
which the theorems state as they are:

* Repair is the replicator's job. With the `noop` replicator a read from the
  second replica succeeds without copying, and `FindMissing` does not exchange
  objects; the "afterwards the replica holds it" conclusions therefore carry
  the hypothesis `c.toward _ = .local` / `c.ab = .local` / `c.ba = .local`.
* A failure inside the second stage of a read is reported under the name of the
  replica the replicator reads *from*: if the repair write into the replica
  consulted first fails, the error is "Backend <other>: Replication failed:
  ..." (`C11_get_error_named`, third case). The error is surfaced with its
  code and never turned into NOT_FOUND or a success; only the name is that of
  the replication's source rather than of the replica whose `Put` failed.
-/
namespace BB.C11
open BB.Mirrored

/-! ## Put -/

/-- A replica whose `Put` did not fail holds the object afterwards, whatever happened to the other one. -/
theorem C11_put_partial (p : Pair) (k : Key) (v : Val) (pref : Side) (s : Side)
    (h : (p.rep s).faultAt .put = none) : (put p k v pref).1.holds s k v := by
  unfold Pair.holds
  rw [put_fst]
  cases s
  · rw [putOn_store_ne _ _ _ _ _ (by decide)]
    exact putOn_holds .A p k v h
  · exact putOn_holds .B _ k v (by rw [faultAt_B_after_putA]; exact h)

/-- `Put` succeeds exactly when neither replica's `Put` fails. -/
theorem C11_put_ok_iff (p : Pair) (k : Key) (v : Val) (pref : Side) :
    (put p k v pref).2 = .ok () ↔ (p.rep .A).faultAt .put = none ∧ (p.rep .B).faultAt .put = none := by
  rw [put_snd]
  constructor
  · intro h
    have ⟨ha, hb⟩ := join2_ok h
    have ⟨_, ha⟩ := wrapRes_ok ha
    have ⟨_, hb⟩ := wrapRes_ok hb
    exact ⟨(putOn_ok_iff .A p k v).1 ha, by rw [← faultAt_B_after_putA p k (.ok v)]; exact (putOn_ok_iff .B _ k v).1 hb⟩
  · intro ⟨ha, hb⟩
    rw [(putOn_ok_iff .A p k v).2 ha, (putOn_ok_iff .B _ k v).2 (by rw [faultAt_B_after_putA]; exact hb)]
    rfl

/-- If a replica's `Put` fails - with whatever code, in particular `Canceled`
because the upload's context was cancelled while that replica was still
writing - the upload is reported as failed, whatever the other replica did and
whichever goroutine `errgroup.Wait` heard first: no code is "somebody else's
failure". -/
theorem C11_put_fails_if_any_fails (p : Pair) (k : Key) (v : Val) (pref : Side) (s : Side) (c : Code)
    (h : (p.rep s).faultAt .put = some c) : ∃ e, (put p k v pref).2 = .error e := by
  cases hr : (put p k v pref).2 with
  | error e => exact ⟨e, rfl⟩
  | ok u =>
    have := (C11_put_ok_iff p k v pref).1 hr
    cases s
    · rw [this.1] at h; cases h
    · rw [this.2] at h; cases h

/-- The caller cancels while B is still writing and A has stored the object:
the upload fails with `Canceled` under B's name, although A holds the object. -/
theorem C11_put_cancelled (p : Pair) (k : Key) (v : Val) (pref : Side)
    (ha : (p.rep .A).faultAt .put = none) (hb : (p.rep .B).faultAt .put = some canceled) :
    (put p k v pref).2 = .error ⟨canceled, [.backend .B], .fault .B .put ((p.rep .B).cnt .put)⟩ ∧
    (put p k v pref).1.holds .A k v ∧ ((put p k v pref).1.rep .B).store k = (p.rep .B).store k := by
  refine ⟨?_, C11_put_partial p k v pref .A ha, ?_⟩
  · rw [put_snd, putOn_snd, putOn_snd, faultAt_B_after_putA, cnt_B_after_putA, ha, hb]
    cases pref <;> rfl
  · rw [put_fst, putOn_store_same, faultAt_B_after_putA, hb, putOn_store_ne _ _ _ _ _ (by decide)]

/-- **C11_put_both.** A successful upload is present in both replicas. -/
theorem C11_put_both (p : Pair) (k : Key) (v : Val) (pref : Side) (h : (put p k v pref).2 = .ok ()) :
    (put p k v pref).1.holds .A k v ∧ (put p k v pref).1.holds .B k v :=
  have h' := (C11_put_ok_iff p k v pref).1 h
  ⟨C11_put_partial p k v pref .A h'.1, C11_put_partial p k v pref .B h'.2⟩

/-- A failed upload reports a replica whose `Put` did fail: the error is that
replica's failure (same code), prefixed with exactly that replica's name. -/
theorem C11_put_error_named (p : Pair) (k : Key) (v : Val) (pref : Side) (e : Err)
    (h : (put p k v pref).2 = .error e) :
    ∃ s, (p.rep s).faultAt .put = some e.code ∧
      e = ⟨e.code, [.backend s], .fault s .put ((p.rep s).cnt .put)⟩ := by
  rw [put_snd] at h
  rcases join2_error h with h | h
  · have ⟨e0, h0, he⟩ := wrapRes_error h
    have ⟨hf, hs⟩ := putOn_error .A p k v e0 h0
    refine ⟨.A, ?_, ?_⟩
    · rw [he]; exact hf
    · rw [he, hs]; rfl
  · have ⟨e0, h0, he⟩ := wrapRes_error h
    have ⟨hf, hs⟩ := putOn_error .B _ k v e0 h0
    rw [faultAt_B_after_putA] at hf
    rw [cnt_B_after_putA] at hs
    refine ⟨.B, ?_, ?_⟩
    · rw [he]; exact hf
    · rw [he, hs]; rfl

/-- `Put` touches no other key. -/
theorem C11_put_frame (p : Pair) (k k' : Key) (v : Val) (pref : Side) (s : Side) (hk : k' ≠ k) :
    ((put p k v pref).1.rep s).store k' = (p.rep s).store k' := by
  rw [put_fst]
  cases s
  · rw [putOn_store_ne _ _ _ _ _ (by decide), putOn_store_same]
    split <;> simp [hk]
  · rw [putOn_store_same, putOn_store_ne _ _ _ _ _ (by decide)]
    split <;> simp [hk]

/-! ## Get -/

/-- No fault fires: if the replica consulted first holds the object, it is
returned and nothing changes (the other replica is not even asked). -/
theorem C11_get_first (c : Cfg) (p : Pair) (k : Key) (v : Val) (hq : Quiet p)
    (h : p.holds (firstSide p) k v) :
    (get c p k).2 = .ok v ∧ (∀ t, ((get c p k).1.rep t).store = (p.rep t).store) ∧
      ∀ m, (((get c p k).1.rep (firstSide p).other).cnt m) = (p.rep (firstSide p).other).cnt m := by
  unfold Pair.holds at h
  have hnf : firstNF p k = false := by simp [firstNF, hq.faultAt, h]
  refine ⟨?_, ?_, ?_⟩
  · rw [get_snd]; simp [hq.faultAt, h]
  · intro t; funext k'; rw [get_store]; simp [hnf]
  · intro m; rw [get_fst]; simp [hnf]

/-- No fault fires: if the replica consulted first lacks the object and the
other one holds it, it is returned, the other replica keeps it, and with the
`local` replicator the replica consulted first holds it afterwards; no other
object changes. -/
theorem C11_get_repair (c : Cfg) (p : Pair) (k : Key) (v : Val) (hq : Quiet p)
    (h1 : (p.rep (firstSide p)).store k = none) (h2 : p.holds (firstSide p).other k v) :
    (get c p k).2 = .ok v ∧
      (c.toward (firstSide p) = .local → (get c p k).1.holds (firstSide p) k v) ∧
      (get c p k).1.holds (firstSide p).other k v ∧
      (∀ t k', ¬(t = firstSide p ∧ k' = k) → ((get c p k).1.rep t).store k' = (p.rep t).store k') := by
  unfold Pair.holds at h2
  refine ⟨?_, ?_, ?_, ?_⟩
  · rw [get_snd]; simp only [hq.faultAt, h1, stage2, h2]
    cases c.toward (firstSide p) <;> rfl
  · intro hl
    unfold Pair.holds
    have hnf : firstNF p k = true := by simp [firstNF, hq.faultAt, h1]
    rw [get_store]; simp [hnf, stage2Write, hq.faultAt, h2, hl]
  · unfold Pair.holds; rw [get_store]; simp [h2]
  · intro t k' hne; rw [get_store]; simp [hne]

/-- No fault fires and no replica holds the object: NOT_FOUND, unwrapped, nothing changes. -/
theorem C11_get_absent (c : Cfg) (p : Pair) (k : Key) (hq : Quiet p)
    (h1 : (p.rep (firstSide p)).store k = none) (h2 : (p.rep (firstSide p).other).store k = none) :
    (get c p k).2 = .error ⟨nf, [], .absent (firstSide p).other k⟩ ∧
      ∀ t, ((get c p k).1.rep t).store = (p.rep t).store := by
  refine ⟨?_, ?_⟩
  · rw [get_snd]; simp [hq.faultAt, h1, stage2, h2]
  · intro t; funext k'; rw [get_store]
    simp only [stage2Write, hq.faultAt, h2]
    split
    · next h => rw [h.2.1, h.2.2]
    · rfl

/-- **C11_get_available.** No fault fires and at least one replica holds the
object: the read returns a value some replica holds (the first one's if it has
one), and afterwards the replica consulted first holds that value (with the
`local` replicator; `noop` does not repair). -/
theorem C11_get_available (c : Cfg) (p : Pair) (k : Key) (hq : Quiet p)
    (h : ∃ s, (p.rep s).store k ≠ none) :
    ∃ v, (get c p k).2 = .ok v ∧
      (p.holds (firstSide p) k v ∨ ((p.rep (firstSide p)).store k = none ∧ p.holds (firstSide p).other k v)) ∧
      (c.toward (firstSide p) = .local → (get c p k).1.holds (firstSide p) k v) := by
  cases h1 : (p.rep (firstSide p)).store k with
  | some v =>
    have hh : p.holds (firstSide p) k v := h1
    have ⟨r, st, _⟩ := C11_get_first c p k v hq hh
    exact ⟨v, r, Or.inl hh, fun _ => by unfold Pair.holds; rw [st]; exact h1⟩
  | none =>
    cases h2 : (p.rep (firstSide p).other).store k with
    | some v =>
      have ⟨r, rep, _, _⟩ := C11_get_repair c p k v hq h1 h2
      exact ⟨v, r, Or.inr ⟨rfl, h2⟩, rep⟩
    | none =>
      exfalso
      obtain ⟨s, hs⟩ := h
      rcases Side.eq_or_other (firstSide p) s with e | e <;> subst e <;> simp_all

/-- Whatever faults fire: a read that succeeds returns a value a replica held,
namely the first replica's, or - when that one answered NOT_FOUND - the other
one's; in the latter case, with the `local` replicator, the replica consulted
first holds the value afterwards (a read never succeeds without its repair). -/
theorem C11_get_sound (c : Cfg) (p : Pair) (k : Key) (v : Val) (h : (get c p k).2 = .ok v) :
    p.holds (firstSide p) k v ∨
    (saidNF p (firstSide p) k ∧ p.holds (firstSide p).other k v ∧
      (c.toward (firstSide p) = .local → (get c p k).1.holds (firstSide p) k v)) := by
  rcases get_ok_cases c p k v h with ⟨_, h1⟩ | ⟨h1, h2, h3, h4⟩
  · exact Or.inl h1
  · refine Or.inr ⟨h1, h3, fun hl => ?_⟩
    unfold Pair.holds
    rw [get_store]
    simp [(firstNF_iff p k).2 h1, stage2Write, h2, h3, hl, h4 hl]

/-- A read that fails with a code other than NOT_FOUND reports a call that did
fail, with that call's code, under a replica's name: the first replica's `Get`
under the first replica's name; the second replica's `Get` under the second
replica's name; and the repair write into the first replica under the name of
the second replica (the source of the replication) followed by "Replication failed". -/
theorem C11_get_error_named (c : Cfg) (p : Pair) (k : Key) (e : Err)
    (h : (get c p k).2 = .error e) (hne : e.code ≠ nf) :
    (e = ⟨e.code, [.backend (firstSide p)], .fault (firstSide p) .get ((p.rep (firstSide p)).cnt .get)⟩ ∧
      (p.rep (firstSide p)).faultAt .get = some e.code) ∨
    (saidNF p (firstSide p) k ∧
      e = ⟨e.code, [.backend (firstSide p).other], .fault (firstSide p).other .get ((p.rep (firstSide p).other).cnt .get)⟩ ∧
      (p.rep (firstSide p).other).faultAt .get = some e.code) ∨
    (saidNF p (firstSide p) k ∧ c.toward (firstSide p) = .local ∧
      e = ⟨e.code, [.backend (firstSide p).other, .repl], .fault (firstSide p) .put ((p.rep (firstSide p)).cnt .put)⟩ ∧
      (p.rep (firstSide p)).faultAt .put = some e.code ∧
      (p.rep (firstSide p).other).faultAt .get = none ∧ (p.rep (firstSide p).other).store k ≠ none) :=
  get_error_cases c p k e h hne

/-- A read answers NOT_FOUND only if both replicas answered NOT_FOUND (provided
the repair write does not itself fail with code NOT_FOUND); the error is then
passed through unwrapped. In particular a failure with another code of either
replica's `Get` is never turned into NOT_FOUND. -/
theorem C11_get_not_found (c : Cfg) (p : Pair) (k : Key) (e : Err)
    (h : (get c p k).2 = .error e) (hc : e.code = nf)
    (hput : (p.rep (firstSide p)).faultAt .put ≠ some nf) :
    saidNF p (firstSide p) k ∧ saidNF p (firstSide p).other k ∧ e.tags = [] :=
  get_nf_cases c p k e h hc hput

/-! ## FindMissing -/

/-- **C11_find_missing_exact.** Whatever faults were scripted: if the existence
check succeeds on a digest set (sorted, as `digest.Set` is), then it reports
exactly the objects missing from both replicas, and with the `local` replicator
each replica afterwards holds every queried object that at least one of them
held (its own copy if it had one, the other's otherwise); objects that were not
queried are untouched. A success is never a partial answer. -/
theorem C11_find_missing_exact (c : Cfg) (p : Pair) (ks : List Key) (pref1 pref2 : Side) (l : List Key)
    (hs : ks.Pairwise (· < ·)) (h : (findMissing c p ks pref1 pref2).2 = .ok l) :
    (∀ z, z ∈ l ↔ z ∈ ks ∧ (p.rep .A).store z = none ∧ (p.rep .B).store z = none) ∧
    (c.ab = .local → ∀ z ∈ ks, ((findMissing c p ks pref1 pref2).1.rep .B).store z =
      match (p.rep .B).store z with
      | some v => some v
      | none => (p.rep .A).store z) ∧
    (c.ba = .local → ∀ z ∈ ks, ((findMissing c p ks pref1 pref2).1.rep .A).store z =
      match (p.rep .A).store z with
      | some v => some v
      | none => (p.rep .B).store z) ∧
    (∀ z, z ∉ ks → ∀ t, ((findMissing c p ks pref1 pref2).1.rep t).store z = (p.rep t).store z) := by
  obtain ⟨_, _, he⟩ := findMissing_ok c p ks pref1 pref2 l h
  rw [he] at h ⊢
  obtain ⟨hl, _, _⟩ := syncPhase_ok _ _ _ _ _ _ h
  obtain ⟨sB, sA, _⟩ := syncPhase_ok_stores _ _ _ _ _ _ h
  simp only [afterFm_store] at sA sB
  refine ⟨fun z => by rw [hl]; exact mem_both p ks hs z, ?_, ?_, ?_⟩
  · intro hab z hz
    rw [sB z]
    simp only [hab, true_and, mem_onlyB p ks hs z, hz]
    cases hA : (p.rep .A).store z <;> cases hB : (p.rep .B).store z <;> simp
  · intro hba z hz
    rw [sA z]
    simp only [hba, true_and, mem_onlyA p ks hs z, mem_onlyB p ks hs z, hz]
    cases hA : (p.rep .A).store z <;> cases hB : (p.rep .B).store z <;> simp
  · intro z hz t
    have h1 : z ∉ (diffInter (miss p .A ks) (miss p .B ks)).1 :=
      fun hm => hz ((mem_miss p .A ks z).1 ((diffInter_sub _ _).1 z hm)).1
    have h2 : z ∉ (diffInter (miss p .A ks) (miss p .B ks)).2.2 :=
      fun hm => hz ((mem_miss p .B ks z).1 ((diffInter_sub _ _).2.2 z hm)).1
    cases t
    · rw [sA z]; simp [h1]
    · rw [sB z]; simp [h2]

/-- No fault fires: the existence check succeeds (so the statement above is not vacuous). -/
theorem C11_find_missing_succeeds (c : Cfg) (p : Pair) (ks : List Key) (pref1 pref2 : Side)
    (hs : ks.Pairwise (· < ·)) (hq : Quiet p) : ∃ l, (findMissing c p ks pref1 pref2).2 = .ok l :=
  ⟨_, findMissing_quiet c p ks pref1 pref2 hs hq⟩

/-- A failed existence check: either one of the two `FindMissing` calls failed
and the error is that failure under that replica's name, or the replication
failed and the error says in which direction ("Failed to synchronize from
backend X ...", a call did fail) or which replica contradicted itself
("Backend X returned inconsistent results", INTERNAL). -/
theorem C11_find_missing_error_named (c : Cfg) (p : Pair) (ks : List Key) (pref1 pref2 : Side) (e : Err)
    (h : (findMissing c p ks pref1 pref2).2 = .error e) :
    (∃ s, e = ⟨e.code, [.backend s], .fault s .fm ((p.rep s).cnt .fm)⟩ ∧ (p.rep s).faultAt .fm = some e.code) ∨
    SyncNamed p ks e :=
  findMissing_error c p ks pref1 pref2 e h

/-- The existence check never changes an object a replica already holds, and never removes one. -/
theorem C11_find_missing_keeps (c : Cfg) (p : Pair) (ks : List Key) (pref1 pref2 : Side) (t : Side) (z : Key)
    (h : (p.rep t).store z ≠ none) : ((findMissing c p ks pref1 pref2).1.rep t).store z ≠ none :=
  findMissing_present c p ks pref1 pref2 t z h

/-! ## GetFromComposite -/

/-- No fault fires and a replica holds the parent: the composite read returns
it (the first replica's copy if it has one), and afterwards the replica
consulted first holds it (`local` replicator). -/
theorem C11_getc_available (c : Cfg) (p : Pair) (k : Key) (hq : Quiet p)
    (h : ∃ s, (p.rep s).store k ≠ none) :
    ∃ v, (getc c p k).2 = .ok v ∧
      (p.holds (firstSide p) k v ∨ ((p.rep (firstSide p)).store k = none ∧ p.holds (firstSide p).other k v)) ∧
      (c.toward (firstSide p) = .local → (getc c p k).1.holds (firstSide p) k v) := by
  unfold Pair.holds
  cases h1 : (p.rep (firstSide p)).store k with
  | some v =>
    refine ⟨v, ?_, Or.inl rfl, fun _ => ?_⟩
    · rw [getc_snd]; simp [hq.faultAt, h1]
    · rw [getc_store]; simp [firstNFc, hq.faultAt, h1]
  | none =>
    cases h2 : (p.rep (firstSide p).other).store k with
    | some v =>
      refine ⟨v, ?_, Or.inr ⟨rfl, rfl⟩, fun hl => ?_⟩
      · rw [getc_snd]
        cases hst : c.toward (firstSide p) <;> simp [hq.faultAt, h1, stage2c, h2, hq.faultNext]
      · rw [getc_store]; simp [firstNFc, hq.faultAt, h1, stage2cWrite, hl, h2]
    | none =>
      exfalso
      obtain ⟨s, hs⟩ := h
      rcases Side.eq_or_other (firstSide p) s with e | e <;> subst e <;> simp_all

/-- Whatever faults fire: a composite read that succeeds returns a value a
replica held, and if it came from the second replica the first one holds it
afterwards (`local` replicator). -/
theorem C11_getc_sound (c : Cfg) (p : Pair) (k : Key) (v : Val) (h : (getc c p k).2 = .ok v) :
    p.holds (firstSide p) k v ∨
    (saidNFc p (firstSide p) k ∧ p.holds (firstSide p).other k v ∧
      (c.toward (firstSide p) = .local → (getc c p k).1.holds (firstSide p) k v)) := by
  rcases getc_ok_cases c p k v h with ⟨_, h1⟩ | ⟨h1, h2, h3⟩
  · exact Or.inl h1
  · refine Or.inr ⟨h1, h2, fun hl => ?_⟩
    unfold Pair.holds
    rw [getc_store]
    simp [(firstNFc_iff p k).2 h1, stage2cWrite, h2, hl, (h3 hl).1, (h3 hl).2]

/-! ## Errors are named, never NOT_FOUND, never a success -/

/-- The outermost prefix of the error names a replica: "Backend X", "Failed to
synchronize from backend X to backend Y", or "Backend X returned inconsistent
results while synchronizing". -/
def Named (e : Err) : Prop :=
  ∃ s, e.tags.head? = some (.backend s) ∨ e.tags.head? = some (.sync s) ∨ e.tags.head? = some (.incons s)

theorem fromFault_of_faultAt {p : Pair} {e : Err} {s : Side} {m : Meth}
    (ho : e.origin = .fault s m ((p.rep s).cnt m)) (hf : (p.rep s).faultAt m = some e.code) : e.fromFault p := by
  unfold Err.fromFault
  rw [ho]
  exact ⟨Nat.le_refl _, e.code, hf, Or.inl rfl⟩

/-- **C11_errors_named.** Whatever the operation, the state and the fault
script: a reply that is an error with a code other than NOT_FOUND carries a
replica's name as its outermost prefix, and it stems from a call of this
operation that the script made fail (with that code; INTERNAL where the
script's NOT_FOUND contradicts what the replica said before) - or it is the
INTERNAL "inconsistent results" error about a replica that lacks an object it
did not report missing. -/
theorem C11_errors_named (c : Cfg) (p : Pair) (o : Op) (e : Err)
    (h : (step c p o).2 = .err e) (hne : e.code ≠ nf) :
    Named e ∧ (e.fromFault p ∨
      (e.code = internal ∧ ∃ s k, e.tags.head? = some (.incons s) ∧ e.origin = .absent s k ∧ (p.rep s).store k = none)) := by
  cases o with
  | get k =>
    have h' : (get c p k).2 = .error e := by
      simp only [step] at h; cases hr : (get c p k).2 <;> simp_all [ofVal]
    rcases C11_get_error_named c p k e h' hne with ⟨he, hf⟩ | ⟨_, he, hf⟩ | ⟨_, _, he, hf, _⟩
    · exact ⟨⟨firstSide p, Or.inl (by rw [he] <;> rfl)⟩, Or.inl (fromFault_of_faultAt (by rw [he] <;> rfl) hf)⟩
    · exact ⟨⟨(firstSide p).other, Or.inl (by rw [he] <;> rfl)⟩, Or.inl (fromFault_of_faultAt (by rw [he] <;> rfl) hf)⟩
    · exact ⟨⟨(firstSide p).other, Or.inl (by rw [he] <;> rfl)⟩, Or.inl (fromFault_of_faultAt (by rw [he] <;> rfl) hf)⟩
  | getc k =>
    have h' : (getc c p k).2 = .error e := by
      simp only [step] at h; cases hr : (getc c p k).2 <;> simp_all [ofVal]
    obtain ⟨hn, hf⟩ := getc_error_cases c p k e h' hne
    exact ⟨by rcases hn with hn | hn <;> exact ⟨_, Or.inl hn⟩, Or.inl hf⟩
  | put k v pref =>
    have h' : (put p k v pref).2 = .error e := by
      simp only [step] at h; cases hr : (put p k v pref).2 <;> simp_all [ofUnit]
    obtain ⟨s, hf, he⟩ := C11_put_error_named p k v pref e h'
    exact ⟨⟨s, Or.inl (by rw [he] <;> rfl)⟩, Or.inl (fromFault_of_faultAt (by rw [he] <;> rfl) hf)⟩
  | fm ks a b =>
    have h' : (findMissing c p ks a b).2 = .error e := by
      simp only [step] at h; cases hr : (findMissing c p ks a b).2 <;> simp_all [ofList]
    rcases C11_find_missing_error_named c p ks a b e h' with ⟨s, he, hf⟩ | ⟨src, k, _, hs | hs⟩
    · exact ⟨⟨s, Or.inl (by rw [he] <;> rfl)⟩, Or.inl (fromFault_of_faultAt (by rw [he] <;> rfl) hf)⟩
    · exact ⟨⟨src, Or.inr (Or.inl (by rw [hs.1]; rfl))⟩, Or.inl hs.2.2⟩
    · refine ⟨⟨src, Or.inr (Or.inr (by rw [hs.1]; rfl))⟩, ?_⟩
      rcases hs.2.2 with hf | ⟨ho, hst⟩
      · exact Or.inl hf
      · exact Or.inr ⟨hs.2.1, src, k, by rw [hs.1]; rfl, ho, hst⟩
  | caps =>
    have h' : (caps p).2 = .error e := by
      simp only [step] at h; cases hr : (caps p).2 <;> simp_all [ofUnit]
    rw [caps_snd] at h'
    cases hf : (p.rep (firstSide p)).faultAt .caps with
    | none => simp [hf] at h'
    | some cc =>
      simp only [hf] at h'
      injection h' with h'
      subst h'
      exact ⟨⟨firstSide p, Or.inl rfl⟩, Or.inl (fromFault_of_faultAt rfl hf)⟩

/-- No `Put`, `FindMissing` or `GetCapabilities` call is scripted to fail with the code NOT_FOUND. -/
def NoNFWrites (p : Pair) : Prop :=
  ∀ s m, (m = .put ∨ m = .fm ∨ m = .caps) → (p.rep s).faultAt m ≠ some nf

/-- **Never NOT_FOUND unless both replicas say so.** A reply with code
NOT_FOUND comes only from a read, and then both replicas answered NOT_FOUND
for that object (each lacks it, or was scripted to deny it). -/
theorem C11_not_found_only_absent (c : Cfg) (p : Pair) (o : Op) (e : Err)
    (h : (step c p o).2 = .err e) (hc : e.code = nf) (hw : NoNFWrites p) :
    (∃ k, o = .get k ∧ saidNF p (firstSide p) k ∧ saidNF p (firstSide p).other k) ∨
    (∃ k, o = .getc k ∧ saidNFc p (firstSide p) k ∧
      (c.toward (firstSide p) = .noop → saidNFc p (firstSide p).other k) ∧
      (c.toward (firstSide p) = .local → saidNF p (firstSide p).other k)) := by
  cases o with
  | get k =>
    have h' : (get c p k).2 = .error e := by
      simp only [step] at h; cases hr : (get c p k).2 <;> simp_all [ofVal]
    obtain ⟨h1, h2, _⟩ := C11_get_not_found c p k e h' hc (hw _ .put (Or.inl rfl))
    exact Or.inl ⟨k, rfl, h1, h2⟩
  | getc k =>
    have h' : (getc c p k).2 = .error e := by
      simp only [step] at h; cases hr : (getc c p k).2 <;> simp_all [ofVal]
    obtain ⟨h1, h2, h3, _⟩ := getc_nf_cases c p k e h' hc (hw _ .put (Or.inl rfl))
    exact Or.inr ⟨k, rfl, h1, h2, h3⟩
  | put k v pref =>
    exfalso
    have h' : (put p k v pref).2 = .error e := by
      simp only [step] at h; cases hr : (put p k v pref).2 <;> simp_all [ofUnit]
    obtain ⟨s, hf, _⟩ := C11_put_error_named p k v pref e h'
    exact hw s .put (Or.inl rfl) (by rw [hf, hc])
  | fm ks a b =>
    exfalso
    have h' : (findMissing c p ks a b).2 = .error e := by
      simp only [step] at h; cases hr : (findMissing c p ks a b).2 <;> simp_all [ofList]
    rcases C11_find_missing_error_named c p ks a b e h' with ⟨s, _, hf⟩ | ⟨src, k, _, hs | hs⟩
    · exact hw s .fm (Or.inr (Or.inl rfl)) (by rw [hf, hc])
    · exact hs.2.1 hc
    · rw [hs.2.1] at hc; exact absurd hc (by decide)
  | caps =>
    exfalso
    have h' : (caps p).2 = .error e := by
      simp only [step] at h; cases hr : (caps p).2 <;> simp_all [ofUnit]
    rw [caps_snd] at h'
    cases hf : (p.rep (firstSide p)).faultAt .caps with
    | none => simp [hf] at h'
    | some cc =>
      simp only [hf] at h'
      injection h' with h'
      subst h'
      exact hw _ .caps (Or.inr (Or.inr rfl)) (by rw [hf]; exact congrArg some hc)

/-! ## Alternation -/

theorem firstSide_succ (p : Pair) (q : Pair) (h : q.round = p.round + 1) : firstSide q = (firstSide p).other := by
  unfold firstSide
  rw [h]
  have := Nat.mod_two_eq_zero_or_one (p.round + 1)
  rcases this with h0 | h1
  · have : (p.round + 1 + 1) % 2 = 1 := by omega
    simp [h0, this, Side.other]
  · have : (p.round + 1 + 1) % 2 = 0 := by omega
    simp [h1, this, Side.other]

/-- **C11_alternation.** `Get`, `GetFromComposite` and `GetCapabilities` consult
the replica `firstSide` first and flip it for the next such call; `Put` and
`FindMissing` do not touch it. -/
theorem C11_alternation (c : Cfg) (p : Pair) (o : Op) :
    firstSide (step c p o).1 = if o.rounds then (firstSide p).other else firstSide p := by
  have hr := step_round c p o
  cases ho : o.rounds
  · simp only [ho] at hr ⊢
    unfold firstSide; rw [hr]; rfl
  · simp only [ho, if_true] at hr ⊢
    exact firstSide_succ p _ hr

/-- The replica named `firstSide` is really the one consulted first: a read
calls `Get` exactly once on it, and - when it holds the object and no fault
fires - calls nothing at all on the other replica. -/
theorem C11_first_consulted (c : Cfg) (p : Pair) (k : Key) :
    ((get c p k).1.rep (firstSide p)).cnt .get = (p.rep (firstSide p)).cnt .get + 1 ∧
    (firstNF p k = false → ∀ m, ((get c p k).1.rep (firstSide p).other).cnt m = (p.rep (firstSide p).other).cnt m) := by
  constructor
  · rw [get_fst]; simp only []
    split
    · rw [finish2_fst]
      cases c.toward (firstSide p) with
      | noop =>
        show ((getOn _ _ _).1.rep _).cnt .get = _
        rw [getOn_fst]; simp
      | «local» =>
        rw [replSingle_fst_local, putOn_fst, rep_setRep_same, putRep_cnt, getOn_fst]
        simp [cnt_bump]
    · simp
  · intro h m; rw [get_fst]; simp [h]

/-- Over a whole history: the replica consulted first by the next read is A
exactly when the number of round-consuming calls so far (plus the initial
round) is even. -/
theorem C11_alternation_history (c : Cfg) (p : Pair) (os : List Op) :
    firstSide (run c p os).1 = if (p.round + (os.filter Op.rounds).length) % 2 = 0 then .A else .B := by
  unfold firstSide
  rw [run_round]
  have := Nat.mod_two_eq_zero_or_one (p.round + (os.filter Op.rounds).length)
  rcases this with h0 | h1
  · have : (p.round + (os.filter Op.rounds).length + 1) % 2 = 1 := by omega
    simp [h0, this]
  · have : (p.round + (os.filter Op.rounds).length + 1) % 2 = 0 := by omega
    simp [h1, this]

/-! ## Histories -/

/-- Through the composite no object ever vanishes from a replica, whatever the
history, the fault script and the scheduling. -/
theorem C11_history_keeps (c : Cfg) (p : Pair) (os : List Op) (t : Side) (z : Key)
    (h : (p.rep t).store z ≠ none) : ((run c p os).1.rep t).store z ≠ none :=
  run_present c p os t z h

/-- Every reply of every history obeys `C11_errors_named`. -/
theorem C11_history_errors_named (c : Cfg) (p : Pair) (os : List Op) :
    ∀ r ∈ (run c p os).2, ∀ e, r = .err e → e.code ≠ nf → Named e := by
  induction os generalizing p with
  | nil => intro r hr; simp [run] at hr
  | cons o os ih =>
    intro r hr e he hne
    rw [run_cons] at hr
    rcases List.mem_cons.1 hr with h | h
    · exact (C11_errors_named c p o e (by rw [← he, h]) hne).1
    · exact ih _ r h e he hne

/-- After any fault-free history, an object that some replica held at the start
can still be read, and (with `local` replicators) the replica consulted first
holds it afterwards. -/
theorem C11_history_available (c : Cfg) (p : Pair) (os : List Op) (k : Key) (hq : Quiet p)
    (h : ∃ s, (p.rep s).store k ≠ none) :
    ∃ v, (get c (run c p os).1 k).2 = .ok v ∧
      (c.toward (firstSide (run c p os).1) = .local →
        (get c (run c p os).1 k).1.holds (firstSide (run c p os).1) k v) := by
  obtain ⟨s, hs⟩ := h
  obtain ⟨v, h1, _, h3⟩ := C11_get_available c (run c p os).1 k (hq.adv (run_adv c p os))
    ⟨s, run_present c p os s k hs⟩
  exact ⟨v, h1, h3⟩

/-- A successful upload anywhere in a history is present in both replicas for
the rest of the history. -/
theorem C11_history_put (c : Cfg) (p : Pair) (os1 os2 : List Op) (k : Key) (v : Val) (pref : Side)
    (h : (put (run c p os1).1 k v pref).2 = .ok ()) :
    ∀ t, ((run c (put (run c p os1).1 k v pref).1 os2).1.rep t).store k ≠ none := by
  intro t
  apply run_present
  have := C11_put_both (run c p os1).1 k v pref h
  cases t
  · rw [show ((put (run c p os1).1 k v pref).1.rep .A).store k = some v from this.1]; simp
  · rw [show ((put (run c p os1).1 k v pref).1.rep .B).store k = some v from this.2]; simp

/-! ## Concrete instances (the hypotheses of the theorems are satisfiable) -/

/-- A holds 1 ↦ 10, B holds 2 ↦ 20 and 1 ↦ 10 is missing there; nobody holds 3. -/
def exStore : Side → Key → Option Val
  | .A, 1 => some 10
  | .B, 2 => some 20
  | _, _ => none

/-- No faults. -/
def exQuiet : Pair := ⟨fun s => ⟨exStore s, fun _ _ => none, fun _ => 0⟩, 0⟩

/-- A's first `Put` fails with UNAVAILABLE, B's first `Get` with INTERNAL, B's second `Get` denies (NOT_FOUND). -/
def exScript : Side → Meth → Nat → Option Code
  | .A, .put, 0 => some 14
  | .B, .get, 0 => some 13
  | .B, .get, 1 => some 5
  | _, _, _ => none

def exFaulty : Pair := ⟨fun s => ⟨exStore s, exScript s, fun _ => 0⟩, 0⟩

def exCfg : Cfg := ⟨.local, .local⟩

theorem exQuiet_quiet : Quiet exQuiet := fun _ _ _ _ => rfl

attribute [local simp] findMissing fmOn Replica.faultAt exQuiet exFaulty exStore exScript exCfg Pair.setRep Replica.bump
  diffInter replMultiple localMultiple getOn getcOn putOn capsOn join2 syncErr Replica.write Mirrored.get getc put caps step run
  replSingle replComposite finish2 nfToInternal firstSide Cfg.toward Side.other wrapRes Err.wrap Err.wrapCode
  ofVal ofUnit ofList Pair.holds nf internal

example : (put exQuiet 3 30 .A).2 = .ok () := rfl
example : (put exFaulty 3 30 .A).2 = .error ⟨14, [.backend .A], .fault .A .put 0⟩ := rfl
example : (put exFaulty 3 30 .A).1.holds .B 3 30 := rfl
-- B is still writing when the upload's context is cancelled (its Put returns Canceled): not a success
example : (put ⟨fun s => ⟨exStore s, fun m i => if s = .B ∧ m = .put ∧ i = 0 then some canceled else none, fun _ => 0⟩, 0⟩
    3 30 .A).2 = .error ⟨canceled, [.backend .B], .fault .B .put 0⟩ := rfl
-- round 0: A is consulted first; 2 is only in B: read repair
example : (get exCfg exQuiet 2).2 = .ok 20 ∧ (get exCfg exQuiet 2).1.holds .A 2 20 := ⟨rfl, rfl⟩
example : ∃ s, (exQuiet.rep s).store 2 ≠ none := ⟨.B, by simp [exQuiet, exStore]⟩
example : (get exCfg exQuiet 3).2 = .error ⟨nf, [], .absent .B 3⟩ := rfl
-- B's Get fails: named, not NOT_FOUND although A said NOT_FOUND
example : (get exCfg exFaulty 2).2 = .error ⟨13, [.backend .B], .fault .B .get 0⟩ := rfl
-- the repair write fails
-- B denies holding 1 (scripted NOT_FOUND): A is asked and B is repaired
example : (get exCfg (get exCfg exFaulty 2).1 1).2 = .ok 10 := rfl
-- both say NOT_FOUND (B by script): NOT_FOUND, unwrapped
example : (get exCfg (get exCfg exFaulty 2).1 3).2 = .error ⟨5, [], .absent .A 3⟩ := rfl
example : (findMissing exCfg exQuiet [1, 2, 3] .A .A).2 = .ok [3] := by simp
example : ((findMissing exCfg exQuiet [1, 2, 3] .A .A).1.rep .B).store 1 = some 10 := by simp
example : ((findMissing exCfg exQuiet [1, 2, 3] .A .A).1.rep .A).store 2 = some 20 := by simp
example : ([1, 2, 3] : List Key).Pairwise (· < ·) := by decide
-- replication B→A of object 2 hits B's failing Get; A→B of object 1 hits nothing
example : (findMissing exCfg exFaulty [1, 2, 3] .A .A).2 =
    .error ⟨14, [.sync .B, .dig 2], .fault .A .put 0⟩ := by simp
example : (getc exCfg exQuiet 2).2 = .ok 20 ∧ (getc exCfg exQuiet 2).1.holds .A 2 20 := ⟨rfl, rfl⟩
example : (run exCfg exQuiet [.get 2, .caps, .get 1, .fm [1, 2, 3] .A .A, .get 3]).2 =
    [.val 20, .unit, .val 10, .missing [3], .err ⟨nf, [], .absent .A 3⟩] := by simp

end BB.C11
