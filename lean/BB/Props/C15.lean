import BB.Proofs.MuxStep
import BB.Proofs.MuxNeg
import BB.Proofs.MuxBuild
import BB.Proofs.MuxSuccess
/-!
# C15 - cloned buffers and background tasks

Part A: the multiplexed chunk reader behind `Buffer.CloneStream()`, for every
number of consumers, every source (any function from the read index to a
chunk, EOF or an error) and every interleaving of the consumers' atomic steps.
-/
namespace BB.C15
open BB.Mux

/-! ## same bytes for all -/

/-- Every consumer's `Read` results are exactly the first results of the
source, in order, whatever the interleaving; a result already handed over but
not yet received is the next one. -/
theorem C15_same_sequence (src : Nat → Res) (a : Nat) (s : St) (h : Reach src a s)
    (i : Nat) (c : Con) (hi : s.cons[i]? = some c) :
    c.got = srcPrefix src c.got.length ∧ c.got.length ≤ s.pos ∧
    (∀ r, c.st = .ready r → r = src c.got.length) := by
  have g := (reach_inv src a s h).good i c hi
  refine ⟨g.1, ?_, ?_⟩
  · cases c with | mk st got => cases st <;> simp only [Good] at g <;> simp <;> omega
  · intro r hr
    cases c with | mk st got =>
    simp only at hr; subst hr
    simp only [Good] at g; exact g.2.2

theorem srcPrefix_take (src : Nat → Res) : ∀ (k m : Nat), m ≤ k → (srcPrefix src k).take m = srcPrefix src m
  | 0, m, h => by have : m = 0 := by omega
                  subst this; simp [srcPrefix]
  | k + 1, m, h => by
    by_cases e : m = k + 1
    · subst e; rw [List.take_of_length_le]; simp [srcPrefix_length]
    · rw [srcPrefix_succ, List.take_append_of_le_length (by simp [srcPrefix_length]; omega)]
      exact srcPrefix_take src k m (by omega)

/-- Any two consumers saw the same thing as far as both have read. -/
theorem C15_same_bytes (src : Nat → Res) (a : Nat) (s : St) (h : Reach src a s)
    (i j : Nat) (ci cj : Con) (hi : s.cons[i]? = some ci) (hj : s.cons[j]? = some cj)
    (hle : ci.got.length ≤ cj.got.length) : ci.got = cj.got.take ci.got.length := by
  have gi := (C15_same_sequence src a s h i ci hi).1
  have gj := (C15_same_sequence src a s h j cj hj).1
  rw [gj, srcPrefix_take src _ _ hle]; exact gi

theorem srcPrefix_script (chunks : List (List Nat)) (term : Res) :
    srcPrefix (scriptSrc chunks term) (chunks.length + 1) = chunks.map Res.chunk ++ [term] := by
  apply List.ext_getElem?
  intro i
  simp only [srcPrefix, List.getElem?_map, List.getElem?_append, List.length_map]
  by_cases h : i < chunks.length
  · rw [List.getElem?_range (by omega)]
    simp [scriptSrc, h]
  · by_cases e : i = chunks.length
    · subst e; rw [List.getElem?_range (by omega)]; simp [scriptSrc]
    · have : ¬ i < chunks.length + 1 := by omega
      simp [h, this]
      omega

/-- A consumer that read past the last chunk of a scripted source has seen
all chunks, in order, followed by the terminator (EOF or the error); so all
consumers that read to the end got the identical bytes and the same error. -/
theorem C15_complete (chunks : List (List Nat)) (term : Res) (a : Nat) (s : St)
    (h : Reach (scriptSrc chunks term) a s) (i : Nat) (c : Con) (hi : s.cons[i]? = some c)
    (hend : chunks.length < c.got.length) :
    c.got.take (chunks.length + 1) = chunks.map Res.chunk ++ [term] := by
  have g := (C15_same_sequence _ a s h i c hi).1
  rw [g, srcPrefix_take _ _ _ (by omega), srcPrefix_script]

/-! ## the source is closed exactly once, after everybody left -/

def allClosed (s : St) : Prop := ∀ (j : Nat) (c : Con), s.cons[j]? = some c → c.st = .closed

/-- The underlying reader is closed at most once; it is closed exactly when
every consumer has called `Close`, and it is never used afterwards (a use of
the nil reader would be a panic, see `C15_no_panic`). -/
theorem C15_close_once (src : Nat → Res) (a : Nat) (s : St) (h : Reach src a s) :
    (s.closes = 1 ∧ s.srcLive = false ∧ allClosed s) ∨
    (s.closes = 0 ∧ s.srcLive = true ∧ ¬ allClosed s) := by
  have inv := reach_inv src a s h
  cases hl : s.srcLive with
  | false => exact Or.inl ⟨(inv.dead hl).2.1, rfl, (inv.dead hl).1⟩
  | true =>
    refine Or.inr ⟨(inv.alive hl).2, rfl, ?_⟩
    intro hall
    have hp := (inv.alive hl).1
    rw [inv.pend, List.countP_pos_iff] at hp
    obtain ⟨c, hc, hlive⟩ := hp
    obtain ⟨j, hj⟩ := List.mem_iff_getElem?.mp hc
    have := hall j c hj
    cases c with | mk st got => simp only at this; subst this; simp [Con.live] at hlive

/-! ## no deadlock, no panic -/

/-- The panics of `Read`/`Close` ("no pending consumers", use of the closed
source) are unreachable when every consumer makes one call at a time and none
after its `Close`. -/
theorem C15_no_panic (src : Nat → Res) (a : Nat) (s : St) (h : Reach src a s) : s.panicked = false :=
  (reach_inv src a s h).noPanic

/-- In every reachable state in which some consumer has not closed, a consumer
exists that is not blocked: it is outside a call (and may call `Read` or
`Close`, both enabled) or its result has been handed over (and its `Read`
returns).  So the consumers never all wait for each other. -/
theorem C15_no_deadlock (src : Nat → Res) (a : Nat) (s : St) (h : Reach src a s)
    (hopen : ¬ allClosed s) :
    ∃ (i : Nat) (c : Con), s.cons[i]? = some c ∧
      ((c.st = .idle ∧ (step src s (.readBegin i)).isSome ∧ (step src s (.close i)).isSome) ∨
       (∃ r, c.st = .ready r ∧ (step src s (.readEnd i)).isSome)) := by
  have inv := reach_inv src a s h
  rcases C15_close_once src a s h with ⟨_, _, hall⟩ | ⟨_, hl, _⟩
  · exact absurd hall hopen
  · have hp := (inv.alive hl).1
    rw [inv.pend, List.countP_pos_iff] at hp
    obtain ⟨c, hc, hlive⟩ := hp
    obtain ⟨i, hi⟩ := List.mem_iff_getElem?.mp hc
    refine ⟨i, c, hi, ?_⟩
    cases c with | mk st got =>
    cases st with
    | idle =>
      refine Or.inl ⟨rfl, ?_, ?_⟩
      · simp only [step, hi]; simp only [ne_eq, not_true, if_false]; split <;> (try split) <;> rfl
      · simp only [step, hi]; simp only [ne_eq, not_true, if_false]
        split <;> (try split) <;> (try split) <;> rfl
    | ready r => exact Or.inr ⟨r, rfl, by simp [step, hi]⟩
    | waiting => simp [Con.live] at hlive
    | closed => simp [Con.live] at hlive

/-! ## bounded waiting -/

theorem get_modify_ne {α : Type} (f : α → α) (l : List α) (i j : Nat) (hne : j ≠ i) :
    (l.modify j f)[i]? = l[i]? := by
  rw [List.getElem?_modify]
  cases l[i]? <;> simp [hne]

theorem share_at_waiting (src : Nat → Res) (s : St) (i j : Nat) (c : Con) (cont : Bool)
    (hl : s.srcLive = true) (hi : s.cons[i]? = some c) (hw : c.st = .waiting) (hne : j ≠ i) :
    (s.share src j cont).cons[i]? = some { c with st := .ready (src s.pos) } := by
  simp only [St.share, hl, Bool.not_true, Bool.false_eq_true, if_false]
  rw [get_modify_ne _ _ _ _ hne, List.getElem?_map, hi]
  simp [deliver, Con.isWaiting, hw]

/-- A consumer blocked in `Read` is served after at most `pendingConsumers`
further calls of the others: every call (`Read` or `Close`) of another
consumer either completes the round - the blocked consumer's channel is
filled - or decreases `pendingConsumers` by one, which stays positive; a
consumer merely returning from `Read` changes nothing. -/
theorem C15_bounded_wait (src : Nat → Res) (a : Nat) (s s' : St) (h : Reach src a s)
    (i : Nat) (c : Con) (hi : s.cons[i]? = some c) (hw : c.st = .waiting)
    (act : Act) (hs : step src s act = some s') :
    0 < s.pending ∧ s.pending ≤ 1 + a ∧
    ((s'.cons[i]? = some c ∧ 0 < s'.pending ∧
        (match act with
         | .readEnd _ => s'.pending = s.pending
         | _ => s'.pending + 1 = s.pending)) ∨
     (s'.cons[i]? = some { c with st := .ready (src s.pos) })) := by
  have inv := reach_inv src a s h
  have inv' := inv_step src _ s s' act inv hs
  have hlive : s.srcLive = true := by
    cases hl : s.srcLive with
    | true => rfl
    | false => have := (inv.dead hl).1 i c hi; rw [hw] at this; cases this
  have hpos := (inv.alive hlive).1
  have hle : s.pending ≤ 1 + a := by rw [inv.pend, ← inv.len]; exact List.countP_le_length
  have hwait : nWaiting s.cons ≠ 0 := by
    have : 0 < nWaiting s.cons := by
      rw [nWaiting, List.countP_pos_iff]
      exact ⟨c, List.mem_iff_getElem?.mpr ⟨i, hi⟩, by simp [Con.isWaiting, hw]⟩
    omega
  have hp0 : s.pending ≠ 0 := by omega
  refine ⟨hpos, hle, ?_⟩
  cases act with
  | readBegin j =>
    simp only [step] at hs
    cases hj : s.cons[j]? with
    | none => simp [hj] at hs
    | some cj =>
      simp only [hj] at hs
      by_cases hc : cj.st = .idle
      · have hne : j ≠ i := by intro e; subst e; rw [hi] at hj; cases hj; rw [hw] at hc; cases hc
        simp only [hc, ne_eq, not_true, if_false, hp0] at hs
        by_cases hl : s.pending - 1 = 0
        · simp only [hl, if_true, Option.some.injEq] at hs; subst hs
          exact Or.inr (share_at_waiting src s i j c true hlive hi hw hne)
        · simp only [hl, if_false, Option.some.injEq] at hs; subst hs
          exact Or.inl ⟨by simp only [get_modify_ne _ _ _ _ hne, hi], by simp only; omega, by simp only; omega⟩
      · simp [hc] at hs
  | readEnd j =>
    simp only [step] at hs
    cases hj : s.cons[j]? with
    | none => simp [hj] at hs
    | some cj =>
      simp only [hj] at hs
      cases hc : cj.st with
      | ready r =>
        have hne : j ≠ i := by intro e; subst e; rw [hi] at hj; cases hj; rw [hw] at hc; cases hc
        simp only [hc, Option.some.injEq] at hs; subst hs
        exact Or.inl ⟨by simp only [get_modify_ne _ _ _ _ hne, hi], hpos, rfl⟩
      | idle => simp [hc] at hs
      | waiting => simp [hc] at hs
      | closed => simp [hc] at hs
  | close j =>
    simp only [step] at hs
    cases hj : s.cons[j]? with
    | none => simp [hj] at hs
    | some cj =>
      simp only [hj] at hs
      by_cases hc : cj.st = .idle
      · have hne : j ≠ i := by intro e; subst e; rw [hi] at hj; cases hj; rw [hw] at hc; cases hc
        simp only [hc, ne_eq, not_true, if_false, hp0] at hs
        by_cases hl : s.pending - 1 > 0
        · simp only [hl, if_true, Option.some.injEq] at hs; subst hs
          exact Or.inl ⟨by simp only [get_modify_ne _ _ _ _ hne, hi], by simp only; omega, by simp only; omega⟩
        · simp only [hl, if_false, hwait, Option.some.injEq] at hs; subst hs
          exact Or.inr (share_at_waiting src s i j c false hlive hi hw hne)
      · simp [hc] at hs

/-! ## why every path of every method has to close its reader -/

/-- a consumer blocked in `Read` cannot help itself: every enabled step is another consumer's -/
theorem C15_waiting_needs_peer (src : Nat → Res) (s s' : St) (i : Nat) (c : Con) (a : Act)
    (hi : s.cons[i]? = some c) (hw : c.st = .waiting) (hs : step src s a = some s') : a.who ≠ i := by
  intro e
  cases a <;> simp only [Act.who] at e <;> subst e <;> simp [step, hi, hw] at hs

/-- A consumer that walks away without `Close` (what `IntoWriter` would do on a writer error
without its `defer r.Close()`) blocks its peers for ever: once the others all wait (or have
closed), no step of any of them is enabled, and by `C15_close_once` the source stays open. -/
theorem C15_leaver_blocks_peers (src : Nat → Res) (s : St) (i : Nat)
    (hothers : ∀ (j : Nat) (c : Con), j ≠ i → s.cons[j]? = some c → c.st = .waiting ∨ c.st = .closed)
    (a : Act) (ha : a.who ≠ i) : step src s a = none := by
  cases a with
  | readBegin j =>
    simp only [Act.who] at ha
    simp only [step]
    cases hj : s.cons[j]? with
    | none => rfl
    | some c => rcases hothers j c ha hj with h | h <;> simp [h]
  | readEnd j =>
    simp only [Act.who] at ha
    simp only [step]
    cases hj : s.cons[j]? with
    | none => rfl
    | some c => rcases hothers j c ha hj with h | h <;> simp [h]
  | close j =>
    simp only [Act.who] at ha
    simp only [step]
    cases hj : s.cons[j]? with
    | none => rfl
    | some c => rcases hothers j c ha hj with h | h <;> simp [h]

/-! ## the negotiation of `casClonedBuffer` -/

theorem nreach_len (s : Neg) (h : NReach s) : 0 < s.hs.length := by
  induction h with
  | init => simp
  | @step s s' a _ hs ih =>
    cases a with
    | clone i =>
      simp only [Neg.step] at hs
      split at hs
      · split at hs <;> (simp only [Option.some.injEq] at hs; subst hs) <;> simp <;> omega
      · cases hs
    | consume i nv mc =>
      simp only [Neg.step] at hs
      split at hs
      · split at hs
        · simp only [Option.some.injEq] at hs; subst hs; exact ih
        · split at hs <;> (simp only [Option.some.injEq] at hs; subst hs) <;> simp <;> exact ih
      · cases hs

theorem foldl_negChunk_some : ∀ (reqs : List (Bool × Nat)) (c : Nat),
    ∃ m, reqs.foldl (fun m r => negChunk m r.2) (some c) = some m
  | [], c => ⟨c, rfl⟩
  | r :: reqs, c => by
    simp only [List.foldl_cons, negChunk]
    split <;> exact foldl_negChunk_some reqs _

theorem wantChunk_some (reqs : List (Bool × Nat)) (h : reqs ≠ []) : ∃ m, wantChunk reqs = some m := by
  cases reqs with
  | nil => exact absurd rfl h
  | cons r reqs => simp only [wantChunk, List.foldl_cons, negChunk]; exact foldl_negChunk_some reqs _

/-- The shared reader is created exactly once, by the last handle that shows
up, for as many consumers as there are handles, validating iff some consumer
asked for validation, with the smallest chunk size asked for; until then no
reader exists and `consumersRemaining` counts the handles still to come, so
neither "already fully consumed" panic can fire. -/
theorem C15_negotiation (s : Neg) (h : NReach s) :
    s.panicked = false ∧ s.remaining = s.hs.countP HS.isFresh ∧
    (0 < s.remaining → s.made = []) ∧
    (s.remaining = 0 → ∃ chunk,
      s.made = [⟨wantValidated s.reqs, chunk, s.hs.length⟩] ∧
      (∀ r ∈ s.reqs, chunk ≤ r.2) ∧ (∃ r ∈ s.reqs, r.2 = chunk) ∧
      s.reqs.length = s.hs.length ∧ ∀ x ∈ s.hs, x = .served) := by
  have inv := nreach_inv s h
  refine ⟨inv.noPanic, inv.rem, fun hp => (inv.opn hp).1, ?_⟩
  intro h0
  obtain ⟨d1, d2, d3⟩ := inv.done h0
  have hne : s.reqs ≠ [] := by
    intro e; have := nreach_len s h; rw [e] at d3; simp at d3; omega
  obtain ⟨m, hm⟩ := wantChunk_some s.reqs hne
  have hmin := wantChunk_min s.reqs none m hm
  refine ⟨m, by rw [d1, hm]; rfl, hmin.2.1, ?_, d3, ?_⟩
  · rcases hmin.1 with e | e
    · cases e
    · exact e
  · intro x hx
    have := (List.countP_eq_length.mp d2) x hx
    cases x <;> simp [HS.isServed] at this ⊢

/-! ## the hypotheses are satisfiable: concrete schedules -/

theorem reach_run (src : Nat → Res) (a : Nat) : ∀ (acts : List Act) (s0 s : St),
    Reach src a s0 → run src s0 acts = some s → Reach src a s
  | [], s0, s, h, hr => by simp [run] at hr; subst hr; exact h
  | act :: acts, s0, s, h, hr => by
    simp only [run] at hr
    cases hs : step src s0 act with
    | none => simp [hs] at hr
    | some s1 => simp only [hs] at hr; exact reach_run src a acts s1 s (Reach.step act h hs) hr

def exSrc : Nat → Res := scriptSrc [[1, 2], [3]] (.err 14)

/-- three consumers; consumer 2 leaves after the first chunk, consumer 1 after
the second (its `Close` performs the third read on behalf of consumer 0) -/
def exActs : List Act :=
  [.readBegin 0, .readBegin 1, .readBegin 2, .readEnd 0, .readEnd 1,
   .close 2, .readBegin 1, .readBegin 0, .readEnd 1,
   .readBegin 0, .close 1, .readEnd 0, .close 0]

example : ∃ s, run exSrc (St.init 2) exActs = some s ∧ Reach exSrc 2 s ∧ s.closes = 1 ∧ s.pos = 3 ∧
    s.cons.map (·.got) = [[.chunk [1, 2], .chunk [3], .err 14], [.chunk [1, 2], .chunk [3]], [.chunk [1, 2]]] :=
  ⟨_, rfl, reach_run exSrc 2 exActs _ _ Reach.init rfl, rfl, rfl, rfl⟩

/-- a reachable state with a blocked consumer (for `C15_bounded_wait`) and an open one (for `C15_no_deadlock`) -/
example : ∃ s, Reach exSrc 2 s ∧ (s.cons[0]?.map (·.st)) = some .waiting ∧ s.pending = 2 ∧ ¬ allClosed s := by
  refine ⟨_, reach_run exSrc 2 [.readBegin 0] _ _ Reach.init rfl, rfl, rfl, ?_⟩
  intro h; have := h 1 _ rfl; cases this

/-- a state as in `C15_leaver_blocks_peers` is reachable: consumer 0 read one chunk and left, consumer 1 asks for the next -/
example : ∃ s, Reach exSrc 1 s ∧ (s.cons.map (·.st)) = [.idle, .waiting] ∧ s.closes = 0 :=
  ⟨_, reach_run exSrc 1 [.readBegin 0, .readBegin 1, .readEnd 0, .readBegin 1] _ _ Reach.init rfl, rfl, rfl⟩

def nrun : Neg → List NAct → Option Neg
  | s, [] => some s
  | s, a :: as => match s.step a with
    | some s' => nrun s' as
    | none => none

theorem nreach_run : ∀ (acts : List NAct) (s0 s : Neg), NReach s0 → nrun s0 acts = some s → NReach s
  | [], s0, s, h, hr => by simp [nrun] at hr; subst hr; exact h
  | act :: acts, s0, s, h, hr => by
    simp only [nrun] at hr
    cases hs : s0.step act with
    | none => simp [hs] at hr
    | some s1 => simp only [hs] at hr; exact nreach_run acts s1 s (NReach.step act h hs) hr

/-- three handles; the discarding one arrives first, the last one creates the reader -/
example : ∃ s, NReach s ∧ s.remaining = 0 ∧ s.made = [⟨true, 16, 3⟩] :=
  ⟨_, nreach_run [.clone 0, .clone 1, .consume 1 false 65536, .consume 0 true 16, .consume 2 true 65536] _ _
        NReach.init rfl, rfl, rfl⟩

/-!
# Part B: programs over the decorators

`BufExpr` is the family of programs `base kind | cloneStream e | cloneCopy e |
withTask e result | withErrorHandler e`; `Method` the consuming methods of the
`Buffer` interface.  `env.repaired` selects `decorateBuffer` handing digest
and source on to the decorated clones (`true`) or the code as pinned (`false`).
-/

/-- Every operation keeps working on every buffer a program can build, also on
clones of buffers with background tasks: no program and no method panics, and
`GetSizeBytes` answers the digest's size (or, for a buffer that is in a known
error state, its error). Stated for the repaired `decorateBuffer`; false of
the pinned one (`D1_legacy_counterexample`). -/
theorem C15_programs_total (env : Env) (hr : env.repaired = true) (e : BufExpr) :
    (∀ m : Method, ∃ o, exec env e m = some o ∧ o.res ≠ .panic) ∧
    (∃ o, exec env e .getSizeBytes = some o ∧ (o.res = .ok [env.d.length] true ∨ ∃ k, o.res = .err k)) := by
  obtain ⟨b, k', hb, w⟩ := build_wf env hr e 0
  refine ⟨fun m => ⟨call b m, by simp only [exec, hb], call_np _ b w m⟩, call b .getSizeBytes, by simp only [exec, hb], ?_⟩
  rcases getSize_wf _ b w with h | ⟨k, h⟩
  · left; simp only [call, h]
  · right; subst h; exact ⟨k, rfl⟩

/-- The minimal failing program on the pinned tree: a stream clone of a buffer
with a background task has lost its digest; `GetSizeBytes` panics (index out
of range on the empty digest). With the repair it answers the size. -/
theorem D1_legacy_counterexample :
    exec { d := [8, 1], repaired := false }
      (.cloneStream (.withTask (.base (.chunks .good)) none) true .discard) .getSizeBytes = some MOut.panic ∧
    (exec { d := [8, 1], repaired := true }
      (.cloneStream (.withTask (.base (.chunks .good)) none) true .discard) .getSizeBytes).map (·.res)
      = some (.ok [2] true) := ⟨rfl, rfl⟩

/-- what the task decorator turns a result into: its own error only if the data was fine -/
def taskRes (o : Out) (r : Option Nat) : Out :=
  match o with
  | .ok d s => (match r with | some e => .err e | none => .ok d s)
  | o => o

/-- A call that consumes a buffer returns only after every background task
attached to that buffer (through any number of task and error handler
decorators) has completed: `IntoWriter`, `ReadAt`, `ToProto`, `ToByteSlice`,
`Discard`, and `Close` of the chunk reader / reader, read or not. -/
theorem C15_task_ordering (b : Buf) (m : Method) (hm : m.consumes = true) (h : (call b m).res ≠ .panic) :
    ∀ t ∈ spine b, t ∈ (call b m).waited := call_spine b m hm h

/-- in particular for the buffer `WithTask` returned -/
theorem C15_task_ordering_top (base : Buf) (dg : Option Nat) (t : Nat) (r : Option Nat) (m : Method)
    (hm : m.consumes = true) (h : (call (.task base dg t r) m).res ≠ .panic) :
    t ∈ (call (.task base dg t r) m).waited :=
  call_spine _ m hm h t (by simp [spine])

/-- A chunk reader reports the end of the stream only after every task below
it - also those below stream clones - has completed, all without error. -/
theorem C15_eof_after_tasks (b : Buf) (off : Nat) (hok : (call b (.toChunkReader off true)).res.isOk = true) :
    ∀ p ∈ taskResults b, p.1 ∈ (call b (.toChunkReader off true)).wTerm ∧ p.2 = none := by
  intro p hp
  have := toChunkReader_success b off hok p hp
  exact ⟨this.1, this.2.2⟩

/-- the call read the whole blob and reported success (`ReadAt` returning
"n bytes and io.EOF" is not counted: the decorator returns io.EOF as the error) -/
def succeeded (o : MOut) : Prop := o.res.isOk = true ∧ o.eof = false ∧ o.closeErr = none

/-- the methods that read the blob to its end -/
def reads : Method → Bool
  | .intoWriter | .readAt _ _ | .toProto _ | .toByteSlice _ | .toChunkReader _ true | .toReader true => true
  | _ => false

/-- If a reading call succeeds, every task anywhere below the buffer (also
below stream clones and error handlers) has completed when it returns, and
none of them failed: a task's error is never dropped when the data was fine. -/
theorem C15_success_means_tasks_done (b : Buf) (m : Method) (hm : reads m = true) (h : succeeded (call b m)) :
    ∀ p ∈ taskResults b, p.1 ∈ (call b m).waited ∧ p.2 = none := by
  obtain ⟨hok, he, hce⟩ := h
  cases m with
  | getSizeBytes => simp [reads] at hm
  | discard => simp [reads] at hm
  | intoWriterFailing k => simp [reads] at hm
  | intoWriter => exact intoWriter_success b hok
  | readAt off len => exact readAt_success b off len hok he
  | toProto max => exact toByteSlice_success b max hok
  | toByteSlice max => exact toByteSlice_success b max hok
  | toChunkReader off all =>
    cases all with
    | false => simp [reads] at hm
    | true => intro p hp; have := toChunkReader_success b off hok p hp; exact ⟨this.2.1, this.2.2⟩
  | toReader all =>
    cases all with
    | false => simp [reads] at hm
    | true => exact toReader_success b hok hce

theorem afterTask_res (b : MOut) (t : Nat) (r : Option Nat) (he : b.eof = false) :
    (afterTask b t r).res = taskRes b.res r := by
  simp only [afterTask, taskRes]
  cases hb : b.res with
  | panic => rfl
  | err k => rfl
  | ok d s => simp only [he]; cases r <;> rfl

/-- The task's error is reported exactly if the data itself was fine; an
error of the data wins. (`ReadAt` ending at end-of-file returns io.EOF and
drops the task's error: that is what the code does.) -/
theorem C15_task_error (base : Buf) (dg : Option Nat) (t : Nat) (r : Option Nat) :
    (∀ max, (toByteSlice (.task base dg t r) max).res = taskRes (toByteSlice base max).res r) ∧
    (∀ max, (toProto (.task base dg t r) max).res = taskRes (toProto base max).res r) ∧
    ((intoWriter (.task base dg t r)).res = taskRes (intoWriter base).res r) ∧
    (∀ off len, (readAt base off len).eof = false →
      (readAt (.task base dg t r) off len).res = taskRes (readAt base off len).res r) ∧
    (∀ off, (toChunkReader (.task base dg t r) off true).res = taskRes (toChunkReader base off true).res r) ∧
    ((toReader base true).res ≠ .panic →
      (toReader (.task base dg t r) true).res = (toReader base true).res ∧
      (toReader (.task base dg t r) true).closeErr =
        (match (toReader base true).closeErr with | some e => some e | none => r)) := by
  have hbs : ∀ max, (toByteSlice (.task base dg t r) max).res = taskRes (toByteSlice base max).res r := by
    intro max
    simp only [toByteSlice]
    by_cases hp : (toByteSlice base max).res = .panic
    · simp [afterTask, hp, taskRes, MOut.panic]
    · exact afterTask_res _ t r (toByteSlice_eof base max hp)
  refine ⟨hbs, hbs, ?_, ?_, ?_, ?_⟩
  · simp only [intoWriter]
    by_cases hp : (intoWriter base).res = .panic
    · simp [afterTask, hp, taskRes, MOut.panic]
    · exact afterTask_res _ t r (intoWriter_eof base hp)
  · intro off len he; simp only [readAt]; exact afterTask_res _ t r he
  · intro off
    simp only [toChunkReader, cr]
    generalize cr base true = b
    cases b with | mk res wT wC cE =>
    cases res with
    | panic => rfl
    | err k => rfl
    | ok d s => cases r <;> rfl
  · intro hnp
    simp only [toReader, rd] at hnp ⊢
    generalize rd base true = b at hnp ⊢
    cases b with | mk res wT wC cE =>
    cases res with
    | panic => simp [MOut.panic] at hnp
    | err k => exact ⟨rfl, rfl⟩
    | ok d s => exact ⟨rfl, rfl⟩

/-! ### the hypotheses are satisfiable -/

/-- the refresh path of `flatBlobAccess.Get`: `b1, b2 := b.CloneStream(); b1.WithTask(copy b2)`,
read by the caller through an error handler; the task fails with code 10 -/
def exProg : BufExpr :=
  .withErrorHandler (.withTask (.cloneStream (.base (.reader .good)) true .read) (some 10))

example : (exec { d := [8, 1, 8, 2] } exProg (.toByteSlice 100)).map (fun o => (o.res, o.waited))
    = some (.err 30, [0]) := rfl
example : (exec { d := [8, 1, 8, 2] } exProg (.toReader true)).map (fun o => (o.res, o.closeErr, o.waited))
    = some (.ok [8, 1, 8, 2] true, some 10, [0]) := rfl
/-- a successful read below a stream clone and two tasks -/
example : ∃ b k, build { d := [8, 1] } (.withTask (.cloneStream (.withErrorHandler
      (.withTask (.base (.chunks .good)) none)) false .discard) none) 0 = some (b, k) ∧
    succeeded (call b (.toChunkReader 1 true)) ∧ taskResults b = [(0, none), (1, none)] ∧ spine b = [1] ∧
    (call b (.toChunkReader 1 true)).waited = [0, 1, 1] := ⟨_, _, rfl, ⟨rfl, rfl, rfl⟩, rfl, rfl, rfl⟩

/-! ### the source is released -/

/-- No program drops a buffer: with the repaired `validatedReaderBuffer.WithTask`
the source of every source-backed buffer is closed exactly once. -/
theorem C15_source_released (env : Env) (h : env.ratRepaired = true) (e : BufExpr) :
    leaks env e = false ∧ (closes env e = none ∨ closes env e = some 1) := by
  have hl : leaks env e = false := by
    induction e with
    | base k => rfl
    | cloneStream e _ _ ih => exact ih
    | cloneCopy e _ ih => exact ih
    | withErrorHandler e ih => exact ih
    | withTask e r ih => simp [leaks, ih, h]
    | replicate e _ _ r ih => simp [leaks, ih, h]
  refine ⟨hl, ?_⟩
  simp only [closes, hl]
  cases baseKind e <;> simp

/-- The pinned code: a failing foreground task on a reader-at buffer leaks the reader (D11). -/
theorem D11_legacy_counterexample :
    closes { d := [8, 1], ratRepaired := false } (.withTask (.base .readerAt) (some 10)) = some 0 ∧
    closes { d := [8, 1], ratRepaired := true } (.withTask (.base .readerAt) (some 10)) = some 1 := ⟨rfl, rfl⟩

/-! ### close first, then wait -/

theorem blockedAt_events (dep : Nat → Bool) : ∀ (b : Buf) (rest : List Ev) (seen : List Nat),
    ∃ seen', (∀ x ∈ seen, x ∈ seen') ∧ blockedAt dep (events b ++ rest) seen = blockedAt dep rest seen'
  | .err _, rest, seen => ⟨seen, fun _ h => h, by simp [events]⟩
  | .bytes _, rest, seen => ⟨seen, fun _ h => h, by simp [events]⟩
  | .readerAt _, rest, seen => ⟨seen, fun _ h => h, by simp [events]⟩
  | .stream _ _ _ _, rest, seen => ⟨seen, fun _ h => h, by simp [events]⟩
  | .cloned _ _ _, rest, seen => ⟨seen, fun _ h => h, by simp [events]⟩
  | .eh base _, rest, seen => by simp only [events]; exact blockedAt_events dep base rest seen
  | .task base _ t _, rest, seen => by
    obtain ⟨seen', hs, he⟩ := blockedAt_events dep base (.closed t :: .wait t :: rest) seen
    refine ⟨t :: seen', fun x hx => List.mem_cons_of_mem _ (hs x hx), ?_⟩
    simp only [events, List.append_assoc, List.cons_append, List.nil_append]
    rw [he]
    simp [blockedAt]

/-- Every consuming call (and `Close` of a reader obtained from the buffer) closes what is
underneath a task decorator before it waits for that task: whatever subset of the tasks can
complete only after their reader was closed - in particular the tasks of `replicate`, which own
the other handle of a stream clone -, the call never waits for a task that cannot complete. -/
theorem C15_close_before_wait (dep : Nat → Bool) (b : Buf) : blockedAt dep (events b) [] = none := by
  obtain ⟨seen', _, he⟩ := blockedAt_events dep b [] []
  simpa [blockedAt] using he

/-- the same for every program, the replication pattern included -/
theorem C15_programs_close_before_wait (env : Env) (e : BufExpr) (dep : Nat → Bool) (b : Buf) (k : Nat)
    (_ : build env e 0 = some (b, k)) : blockedAt dep (events b) [] = none :=
  C15_close_before_wait dep b

/-- Waiting first (the order `<-task.completion; r.r.Close()`) blocks for ever on the
replication pattern; the program below yields the events in the right order. -/
theorem wait_before_close_counterexample :
    blockedAt (fun _ => true) [.wait 0, .closed 0] [] = some 0 ∧
    (build { d := [8, 1] } (.replicate (.base (.chunks .good)) true .read none) 0).map (fun p => events p.1)
      = some [.closed 0, .wait 0] := ⟨rfl, rfl⟩

/-! ### every handle has to be consumed or discarded -/

theorem neg_step_keeps_fresh (s s' : Neg) (a : NAct) (i : Nat) (ha : a.who ≠ i)
    (hi : s.hs[i]? = some .fresh) (hs : s.step a = some s') : s'.hs[i]? = some .fresh := by
  have hlt : i < s.hs.length := by
    cases h : s.hs[i]? with
    | none => rw [h] at hi; cases hi
    | some x => exact (List.getElem?_eq_some_iff.mp h).1
  cases a with
  | clone j =>
    simp only [Neg.step] at hs
    split at hs
    · split at hs <;> (simp only [Option.some.injEq] at hs; subst hs)
      · exact hi
      · simp only [List.getElem?_append_left hlt]; exact hi
    · cases hs
  | consume j nv mc =>
    simp only [NAct.who] at ha
    simp only [Neg.step] at hs
    split at hs
    · split at hs
      · simp only [Option.some.injEq] at hs; subst hs; exact hi
      · split at hs <;> (simp only [Option.some.injEq] at hs; subst hs)
        · simp only [get_modify_ne _ _ _ _ ha, List.getElem?_map, hi]; rfl
        · simp only [get_modify_ne _ _ _ _ ha, hi]
    · cases hs

/-- states reachable from `s0` while handle `i` takes no part -/
inductive NReachWithout (i : Nat) (s0 : Neg) : Neg → Prop
  | start : NReachWithout i s0 s0
  | step {s s' : Neg} (a : NAct) : NReachWithout i s0 s → a.who ≠ i → s.step a = some s' → NReachWithout i s0 s'

/-- If the owner of a handle returns without consuming or discarding it (a task with an early
exit in front of `sink.Put(ctx, digest, b2)`), then whatever the owners of the other handles do,
the shared reader is never created and none of them is ever served: each blocks in
`toChunkReader` for ever, the source is neither read nor closed. -/
theorem C15_unconsumed_handle_blocks (i : Nat) (s0 s : Neg) (h0 : NReach s0)
    (hi : s0.hs[i]? = some .fresh) (h : NReachWithout i s0 s) :
    NReach s ∧ s.hs[i]? = some .fresh ∧ 0 < s.remaining ∧ s.made = [] ∧ ∀ x ∈ s.hs, x ≠ .served := by
  have key : NReach s ∧ s.hs[i]? = some .fresh := by
    induction h with
    | start => exact ⟨h0, hi⟩
    | step a _ ha hs ih => exact ⟨NReach.step a ih.1 hs, neg_step_keeps_fresh _ _ a i ha ih.2 hs⟩
  have inv := nreach_inv s key.1
  have hp := fresh_pos s inv i key.2
  obtain ⟨o1, o2, _⟩ := inv.opn hp
  refine ⟨key.1, key.2, hp, o1, ?_⟩
  intro x hx e
  subst e
  have := (List.countP_eq_zero.mp o2) _ hx
  simp [HS.isServed] at this

/-- a program without an abandoning owner never blocks in this way -/
theorem C15_blocks_only_if_abandoned (env : Env) (e : BufExpr) (h : usesAbandon e = false) : blocks env e = false := by
  induction e with
  | base k => rfl
  | cloneStream e _ s ih => simp [usesAbandon] at h; simp [blocks, ih h.1, h.2]
  | cloneCopy e _ ih => exact ih h
  | withTask e _ ih => exact ih h
  | withErrorHandler e ih => exact ih h
  | replicate e _ s _ ih => simp [usesAbandon] at h; simp [blocks, ih h.1, h.2]

/-- two handles, the task that owns handle 1 returns early: handle 0 waits, no reader exists -/
example : ∃ s, NReachWithout 1 { remaining := 2, hs := [.fresh, .fresh] } s ∧ s.hs = [.arrived, .fresh] ∧ s.made = [] :=
  ⟨_, NReachWithout.step (.consume 0 true 65536) NReachWithout.start (by simp [NAct.who]) rfl, rfl, rfl⟩

end BB.C15
