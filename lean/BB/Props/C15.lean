import BB.Proofs.MuxStep
import BB.Proofs.MuxNeg
/-!
# C15 - cloned buffers and background tasks

Part A: the multiplexed chunk reader behind `Buffer.CloneStream()`, for every
number of consumers, every source (any function from the read index to a
chunk, EOF or an error) and every interleaving of the consumers' atomic steps.
-/
namespace BB.C15
open BB.Mux

/-! ## same bytes for all -/

/-- Every consumer's `Read` results are exactly the first results of the
source, in order, whatever the interleaving; a result already handed over but
not yet received is the next one. -/
theorem C15_same_sequence (src : Nat → Res) (a : Nat) (s : St) (h : Reach src a s)
    (i : Nat) (c : Con) (hi : s.cons[i]? = some c) :
    c.got = srcPrefix src c.got.length ∧ c.got.length ≤ s.pos ∧
    (∀ r, c.st = .ready r → r = src c.got.length) := by
  have g := (reach_inv src a s h).good i c hi
  refine ⟨g.1, ?_, ?_⟩
  · cases c with | mk st got => cases st <;> simp only [Good] at g <;> simp <;> omega
  · intro r hr
    cases c with | mk st got =>
    simp only at hr; subst hr
    simp only [Good] at g; exact g.2.2

theorem srcPrefix_take (src : Nat → Res) : ∀ (k m : Nat), m ≤ k → (srcPrefix src k).take m = srcPrefix src m
  | 0, m, h => by have : m = 0 := by omega
                  subst this; simp [srcPrefix]
  | k + 1, m, h => by
    by_cases e : m = k + 1
    · subst e; rw [List.take_of_length_le]; simp [srcPrefix_length]
    · rw [srcPrefix_succ, List.take_append_of_le_length (by simp [srcPrefix_length]; omega)]
      exact srcPrefix_take src k m (by omega)

/-- Any two consumers saw the same thing as far as both have read. -/
theorem C15_same_bytes (src : Nat → Res) (a : Nat) (s : St) (h : Reach src a s)
    (i j : Nat) (ci cj : Con) (hi : s.cons[i]? = some ci) (hj : s.cons[j]? = some cj)
    (hle : ci.got.length ≤ cj.got.length) : ci.got = cj.got.take ci.got.length := by
  have gi := (C15_same_sequence src a s h i ci hi).1
  have gj := (C15_same_sequence src a s h j cj hj).1
  rw [gj, srcPrefix_take src _ _ hle]; exact gi

theorem srcPrefix_script (chunks : List (List Nat)) (term : Res) :
    srcPrefix (scriptSrc chunks term) (chunks.length + 1) = chunks.map Res.chunk ++ [term] := by
  apply List.ext_getElem?
  intro i
  simp only [srcPrefix, List.getElem?_map, List.getElem?_append, List.length_map]
  by_cases h : i < chunks.length
  · rw [List.getElem?_range (by omega)]
    simp [scriptSrc, h]
  · by_cases e : i = chunks.length
    · subst e; rw [List.getElem?_range (by omega)]; simp [scriptSrc]
    · have : ¬ i < chunks.length + 1 := by omega
      simp [h, this]
      omega

/-- A consumer that read past the last chunk of a scripted source has seen
all chunks, in order, followed by the terminator (EOF or the error); so all
consumers that read to the end got the identical bytes and the same error. -/
theorem C15_complete (chunks : List (List Nat)) (term : Res) (a : Nat) (s : St)
    (h : Reach (scriptSrc chunks term) a s) (i : Nat) (c : Con) (hi : s.cons[i]? = some c)
    (hend : chunks.length < c.got.length) :
    c.got.take (chunks.length + 1) = chunks.map Res.chunk ++ [term] := by
  have g := (C15_same_sequence _ a s h i c hi).1
  rw [g, srcPrefix_take _ _ _ (by omega), srcPrefix_script]

/-! ## the source is closed exactly once, after everybody left -/

def allClosed (s : St) : Prop := ∀ (j : Nat) (c : Con), s.cons[j]? = some c → c.st = .closed

/-- The underlying reader is closed at most once; it is closed exactly when
every consumer has called `Close`, and it is never used afterwards (a use of
the nil reader would be a panic, see `C15_no_panic`). -/
theorem C15_close_once (src : Nat → Res) (a : Nat) (s : St) (h : Reach src a s) :
    (s.closes = 1 ∧ s.srcLive = false ∧ allClosed s) ∨
    (s.closes = 0 ∧ s.srcLive = true ∧ ¬ allClosed s) := by
  have inv := reach_inv src a s h
  cases hl : s.srcLive with
  | false => exact Or.inl ⟨(inv.dead hl).2.1, rfl, (inv.dead hl).1⟩
  | true =>
    refine Or.inr ⟨(inv.alive hl).2, rfl, ?_⟩
    intro hall
    have hp := (inv.alive hl).1
    rw [inv.pend, List.countP_pos_iff] at hp
    obtain ⟨c, hc, hlive⟩ := hp
    obtain ⟨j, hj⟩ := List.mem_iff_getElem?.mp hc
    have := hall j c hj
    cases c with | mk st got => simp only at this; subst this; simp [Con.live] at hlive

/-! ## no deadlock, no panic -/

/-- The panics of `Read`/`Close` ("no pending consumers", use of the closed
source) are unreachable when every consumer makes one call at a time and none
after its `Close`. -/
theorem C15_no_panic (src : Nat → Res) (a : Nat) (s : St) (h : Reach src a s) : s.panicked = false :=
  (reach_inv src a s h).noPanic

/-- In every reachable state in which some consumer has not closed, a consumer
exists that is not blocked: it is outside a call (and may call `Read` or
`Close`, both enabled) or its result has been handed over (and its `Read`
returns).  So the consumers never all wait for each other. -/
theorem C15_no_deadlock (src : Nat → Res) (a : Nat) (s : St) (h : Reach src a s)
    (hopen : ¬ allClosed s) :
    ∃ (i : Nat) (c : Con), s.cons[i]? = some c ∧
      ((c.st = .idle ∧ (step src s (.readBegin i)).isSome ∧ (step src s (.close i)).isSome) ∨
       (∃ r, c.st = .ready r ∧ (step src s (.readEnd i)).isSome)) := by
  have inv := reach_inv src a s h
  rcases C15_close_once src a s h with ⟨_, _, hall⟩ | ⟨_, hl, _⟩
  · exact absurd hall hopen
  · have hp := (inv.alive hl).1
    rw [inv.pend, List.countP_pos_iff] at hp
    obtain ⟨c, hc, hlive⟩ := hp
    obtain ⟨i, hi⟩ := List.mem_iff_getElem?.mp hc
    refine ⟨i, c, hi, ?_⟩
    cases c with | mk st got =>
    cases st with
    | idle =>
      refine Or.inl ⟨rfl, ?_, ?_⟩
      · simp only [step, hi]; simp only [ne_eq, not_true, if_false]; split <;> (try split) <;> rfl
      · simp only [step, hi]; simp only [ne_eq, not_true, if_false]
        split <;> (try split) <;> (try split) <;> rfl
    | ready r => exact Or.inr ⟨r, rfl, by simp [step, hi]⟩
    | waiting => simp [Con.live] at hlive
    | closed => simp [Con.live] at hlive

/-! ## bounded waiting -/

theorem get_modify_ne {α : Type} (f : α → α) (l : List α) (i j : Nat) (hne : j ≠ i) :
    (l.modify j f)[i]? = l[i]? := by
  rw [List.getElem?_modify]
  cases l[i]? <;> simp [hne]

theorem share_at_waiting (src : Nat → Res) (s : St) (i j : Nat) (c : Con) (cont : Bool)
    (hl : s.srcLive = true) (hi : s.cons[i]? = some c) (hw : c.st = .waiting) (hne : j ≠ i) :
    (s.share src j cont).cons[i]? = some { c with st := .ready (src s.pos) } := by
  simp only [St.share, hl, Bool.not_true, Bool.false_eq_true, if_false]
  rw [get_modify_ne _ _ _ _ hne, List.getElem?_map, hi]
  simp [deliver, Con.isWaiting, hw]

/-- A consumer blocked in `Read` is served after at most `pendingConsumers`
further calls of the others: every call (`Read` or `Close`) of another
consumer either completes the round - the blocked consumer's channel is
filled - or decreases `pendingConsumers` by one, which stays positive; a
consumer merely returning from `Read` changes nothing. -/
theorem C15_bounded_wait (src : Nat → Res) (a : Nat) (s s' : St) (h : Reach src a s)
    (i : Nat) (c : Con) (hi : s.cons[i]? = some c) (hw : c.st = .waiting)
    (act : Act) (hs : step src s act = some s') :
    0 < s.pending ∧ s.pending ≤ 1 + a ∧
    ((s'.cons[i]? = some c ∧ 0 < s'.pending ∧
        (match act with
         | .readEnd _ => s'.pending = s.pending
         | _ => s'.pending + 1 = s.pending)) ∨
     (s'.cons[i]? = some { c with st := .ready (src s.pos) })) := by
  have inv := reach_inv src a s h
  have inv' := inv_step src _ s s' act inv hs
  have hlive : s.srcLive = true := by
    cases hl : s.srcLive with
    | true => rfl
    | false => have := (inv.dead hl).1 i c hi; rw [hw] at this; cases this
  have hpos := (inv.alive hlive).1
  have hle : s.pending ≤ 1 + a := by rw [inv.pend, ← inv.len]; exact List.countP_le_length
  have hwait : nWaiting s.cons ≠ 0 := by
    have : 0 < nWaiting s.cons := by
      rw [nWaiting, List.countP_pos_iff]
      exact ⟨c, List.mem_iff_getElem?.mpr ⟨i, hi⟩, by simp [Con.isWaiting, hw]⟩
    omega
  have hp0 : s.pending ≠ 0 := by omega
  refine ⟨hpos, hle, ?_⟩
  cases act with
  | readBegin j =>
    simp only [step] at hs
    cases hj : s.cons[j]? with
    | none => simp [hj] at hs
    | some cj =>
      simp only [hj] at hs
      by_cases hc : cj.st = .idle
      · have hne : j ≠ i := by intro e; subst e; rw [hi] at hj; cases hj; rw [hw] at hc; cases hc
        simp only [hc, ne_eq, not_true, if_false, hp0] at hs
        by_cases hl : s.pending - 1 = 0
        · simp only [hl, if_true, Option.some.injEq] at hs; subst hs
          exact Or.inr (share_at_waiting src s i j c true hlive hi hw hne)
        · simp only [hl, if_false, Option.some.injEq] at hs; subst hs
          exact Or.inl ⟨by simp only [get_modify_ne _ _ _ _ hne, hi], by simp only; omega, by simp only; omega⟩
      · simp [hc] at hs
  | readEnd j =>
    simp only [step] at hs
    cases hj : s.cons[j]? with
    | none => simp [hj] at hs
    | some cj =>
      simp only [hj] at hs
      cases hc : cj.st with
      | ready r =>
        have hne : j ≠ i := by intro e; subst e; rw [hi] at hj; cases hj; rw [hw] at hc; cases hc
        simp only [hc, Option.some.injEq] at hs; subst hs
        exact Or.inl ⟨by simp only [get_modify_ne _ _ _ _ hne, hi], hpos, rfl⟩
      | idle => simp [hc] at hs
      | waiting => simp [hc] at hs
      | closed => simp [hc] at hs
  | close j =>
    simp only [step] at hs
    cases hj : s.cons[j]? with
    | none => simp [hj] at hs
    | some cj =>
      simp only [hj] at hs
      by_cases hc : cj.st = .idle
      · have hne : j ≠ i := by intro e; subst e; rw [hi] at hj; cases hj; rw [hw] at hc; cases hc
        simp only [hc, ne_eq, not_true, if_false, hp0] at hs
        by_cases hl : s.pending - 1 > 0
        · simp only [hl, if_true, Option.some.injEq] at hs; subst hs
          exact Or.inl ⟨by simp only [get_modify_ne _ _ _ _ hne, hi], by simp only; omega, by simp only; omega⟩
        · simp only [hl, if_false, hwait, Option.some.injEq] at hs; subst hs
          exact Or.inr (share_at_waiting src s i j c false hlive hi hw hne)
      · simp [hc] at hs

/-! ## the negotiation of `casClonedBuffer` -/

theorem nreach_len (s : Neg) (h : NReach s) : 0 < s.hs.length := by
  induction h with
  | init => simp
  | @step s s' a _ hs ih =>
    cases a with
    | clone i =>
      simp only [Neg.step] at hs
      split at hs
      · split at hs <;> (simp only [Option.some.injEq] at hs; subst hs) <;> simp <;> omega
      · cases hs
    | consume i nv mc =>
      simp only [Neg.step] at hs
      split at hs
      · split at hs
        · simp only [Option.some.injEq] at hs; subst hs; exact ih
        · split at hs <;> (simp only [Option.some.injEq] at hs; subst hs) <;> simp <;> exact ih
      · cases hs

theorem foldl_negChunk_some : ∀ (reqs : List (Bool × Nat)) (c : Nat),
    ∃ m, reqs.foldl (fun m r => negChunk m r.2) (some c) = some m
  | [], c => ⟨c, rfl⟩
  | r :: reqs, c => by
    simp only [List.foldl_cons, negChunk]
    split <;> exact foldl_negChunk_some reqs _

theorem wantChunk_some (reqs : List (Bool × Nat)) (h : reqs ≠ []) : ∃ m, wantChunk reqs = some m := by
  cases reqs with
  | nil => exact absurd rfl h
  | cons r reqs => simp only [wantChunk, List.foldl_cons, negChunk]; exact foldl_negChunk_some reqs _

/-- The shared reader is created exactly once, by the last handle that shows
up, for as many consumers as there are handles, validating iff some consumer
asked for validation, with the smallest chunk size asked for; until then no
reader exists and `consumersRemaining` counts the handles still to come, so
neither "already fully consumed" panic can fire. -/
theorem C15_negotiation (s : Neg) (h : NReach s) :
    s.panicked = false ∧ s.remaining = s.hs.countP HS.isFresh ∧
    (0 < s.remaining → s.made = []) ∧
    (s.remaining = 0 → ∃ chunk,
      s.made = [⟨wantValidated s.reqs, chunk, s.hs.length⟩] ∧
      (∀ r ∈ s.reqs, chunk ≤ r.2) ∧ (∃ r ∈ s.reqs, r.2 = chunk) ∧
      s.reqs.length = s.hs.length ∧ ∀ x ∈ s.hs, x = .served) := by
  have inv := nreach_inv s h
  refine ⟨inv.noPanic, inv.rem, fun hp => (inv.opn hp).1, ?_⟩
  intro h0
  obtain ⟨d1, d2, d3⟩ := inv.done h0
  have hne : s.reqs ≠ [] := by
    intro e; have := nreach_len s h; rw [e] at d3; simp at d3; omega
  obtain ⟨m, hm⟩ := wantChunk_some s.reqs hne
  have hmin := wantChunk_min s.reqs none m hm
  refine ⟨m, by rw [d1, hm]; rfl, hmin.2.1, ?_, d3, ?_⟩
  · rcases hmin.1 with e | e
    · cases e
    · exact e
  · intro x hx
    have := (List.countP_eq_length.mp d2) x hx
    cases x <;> simp [HS.isServed] at this ⊢

/-! ## the hypotheses are satisfiable: concrete schedules -/

theorem reach_run (src : Nat → Res) (a : Nat) : ∀ (acts : List Act) (s0 s : St),
    Reach src a s0 → run src s0 acts = some s → Reach src a s
  | [], s0, s, h, hr => by simp [run] at hr; subst hr; exact h
  | act :: acts, s0, s, h, hr => by
    simp only [run] at hr
    cases hs : step src s0 act with
    | none => simp [hs] at hr
    | some s1 => simp only [hs] at hr; exact reach_run src a acts s1 s (Reach.step act h hs) hr

def exSrc : Nat → Res := scriptSrc [[1, 2], [3]] (.err 14)

/-- three consumers; consumer 2 leaves after the first chunk, consumer 1 after
the second (its `Close` performs the third read on behalf of consumer 0) -/
def exActs : List Act :=
  [.readBegin 0, .readBegin 1, .readBegin 2, .readEnd 0, .readEnd 1,
   .close 2, .readBegin 1, .readBegin 0, .readEnd 1,
   .readBegin 0, .close 1, .readEnd 0, .close 0]

example : ∃ s, run exSrc (St.init 2) exActs = some s ∧ Reach exSrc 2 s ∧ s.closes = 1 ∧ s.pos = 3 ∧
    s.cons.map (·.got) = [[.chunk [1, 2], .chunk [3], .err 14], [.chunk [1, 2], .chunk [3]], [.chunk [1, 2]]] :=
  ⟨_, rfl, reach_run exSrc 2 exActs _ _ Reach.init rfl, rfl, rfl, rfl⟩

/-- a reachable state with a blocked consumer (for `C15_bounded_wait`) and an open one (for `C15_no_deadlock`) -/
example : ∃ s, Reach exSrc 2 s ∧ (s.cons[0]?.map (·.st)) = some .waiting ∧ s.pending = 2 ∧ ¬ allClosed s := by
  refine ⟨_, reach_run exSrc 2 [.readBegin 0] _ _ Reach.init rfl, rfl, rfl, ?_⟩
  intro h; have := h 1 _ rfl; cases this

def nrun : Neg → List NAct → Option Neg
  | s, [] => some s
  | s, a :: as => match s.step a with
    | some s' => nrun s' as
    | none => none

theorem nreach_run : ∀ (acts : List NAct) (s0 s : Neg), NReach s0 → nrun s0 acts = some s → NReach s
  | [], s0, s, h, hr => by simp [nrun] at hr; subst hr; exact h
  | act :: acts, s0, s, h, hr => by
    simp only [nrun] at hr
    cases hs : s0.step act with
    | none => simp [hs] at hr
    | some s1 => simp only [hs] at hr; exact nreach_run acts s1 s (NReach.step act h hs) hr

/-- three handles; the discarding one arrives first, the last one creates the reader -/
example : ∃ s, NReach s ∧ s.remaining = 0 ∧ s.made = [⟨true, 16, 3⟩] :=
  ⟨_, nreach_run [.clone 0, .clone 1, .consume 1 false 65536, .consume 0 true 16, .consume 2 true 65536] _ _
        NReach.init rfl, rfl, rfl⟩

end BB.C15
