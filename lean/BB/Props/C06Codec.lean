import BB.Proofs.RecordCodec
/-!
# C06, on-disk record array: serialisation round trip and validity

`blockDeviceBackedLocationRecordArray` is the persistent backend of the index; the in-memory backend
stores the same fields unserialised.  These theorems say that the 66-byte codec neither loses nor
invents anything, so "a slot holds record R, valid iff its block reference resolves" - which is what
`BB.Index` assumes of a record array - is what the serialised form provides.
-/
namespace BB.C06
open BB.RecordCodec BB.Gen.RecordLayout

/-- **Round trip.** What `Put` writes, `Get` reads back - same key, attempt, offset and size, block
index as the resolver gives it - for every record whose fields fit their widths, provided the
resolver still knows the block reference and hands out the seed the record was written with. -/
theorem record_roundtrip (resolve : Nat → Nat → Option (Nat × UInt64)) (seed : UInt64) (r : Rec) (idx : Nat)
    (hw : r.WF) (hr : resolve r.epoch r.blocksFromLast = some (idx, seed)) :
    decode resolve (encode seed r) = some (r, idx) := by
  obtain ⟨h1, h2, hk, h4, h5, h6⟩ := hw
  obtain ⟨p0, p1, p2, p3, p4, p5, p6, p7, p8⟩ := encode_parts seed r hk
  unfold decode
  simp only [p0, ne_eq, not_true_eq_false, if_false, p1, p2]
  rw [ofLe_le 4 r.epoch (by simpa using h1), ofLe_le 2 r.blocksFromLast (by simpa using h2), hr]
  simp only [p8, p7, p3, p4, p5, p6]
  rw [ofLe_le 8 _ (by have := (checksum seed (body r)).toNat_lt; simpa using this)]
  simp only [ne_eq, not_true_eq_false, if_false]
  rw [ofLe_le 4 r.attempt (by simpa using h4), ofLe_le 8 r.off (by simpa using h5), ofLe_le 8 r.size (by simpa using h6)]

/-- **Validity.** `Get` yields a record only if the block reference stored in it resolves and the stored
checksum is the FNV-1a of the covered bytes under the seed of *that* epoch: records of unknown
epochs/released blocks, and records checksummed under another seed, are invalid (up to collisions
of the 64-bit checksum, assumption A3). -/
theorem record_decode_checks (resolve : Nat → Nat → Option (Nat × UInt64)) (bytes : List UInt8) (r : Rec) (idx : Nat)
    (h : decode resolve bytes = some (r, idx)) :
    bytes.length = recordSize ∧
    ∃ seed, resolve r.epoch r.blocksFromLast = some (idx, seed) ∧
      (checksum seed (slice bytes checksumFrom checksumTo)).toNat = ofLe (slice bytes offChecksum recordSize) := by
  unfold decode at h
  by_cases hl : bytes.length ≠ recordSize
  · simp [hl] at h
  · simp only [hl, if_false] at h
    cases hres : resolve (ofLe (slice bytes offEpoch offBlocksFromLast)) (ofLe (slice bytes offBlocksFromLast offKey)) with
    | none => rw [hres] at h; simp at h
    | some p =>
      obtain ⟨i, seed⟩ := p
      rw [hres] at h
      simp only [] at h
      by_cases hc : (checksum seed (slice bytes checksumFrom checksumTo)).toNat ≠ ofLe (slice bytes offChecksum recordSize)
      · simp [hc] at h
      · simp only [hc, if_false] at h
        simp at h
        obtain ⟨hr, hi⟩ := h
        subst hi
        refine ⟨by simpa using hl, seed, ?_, by simpa using hc⟩
        rw [← hr]
        exact hres

/-- Non-vacuity: the hypotheses of `record_roundtrip` are met by a concrete record, so it round-trips. -/
example :
    let r : Rec := ⟨7, 2, List.replicate 32 0xab, 3, 4096, 123⟩
    let resolve := fun (e b : Nat) => if e = 7 ∧ b = 2 then some (5, (0xdeadbeef : UInt64)) else none
    decode resolve (encode 0xdeadbeef r) = some (r, 5) :=
  record_roundtrip _ 0xdeadbeef _ 5 (by simp [Rec.WF]) (by simp)

end BB.C06
