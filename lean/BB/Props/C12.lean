import BB.Proofs.ShardingScore
import BB.Proofs.ShardingSelect
import BB.Proofs.ShardingFindMissing
/-!
# C12 - Sharding: deterministic, order-independent routing with minimal disruption

Three layers.

1. Facts about the **generated** integer code of `rendezvous_shard_selector.go`
   (`BB.Gen.Rendezvous`, regenerated on every run), for all 2^64 inputs:
   the table access is in range, the interpolation does not wrap, the logarithm
   is `< 64·2^16` so the divisor of `score` is `≥ 1`, and a non-zero weight gives
   a non-zero score.
2. Generic theorems about `NewRendezvousShardSelector` + `GetShard` for an
   arbitrary score function `sc` (`C12_perm`, `C12_remove`, `C12_add`), and
   their instances for the real score `rscore h = score (splitmix64 (kh ^^^ h)) w`
   (`*_real`), where positivity comes from `C12_score_pos`.
3. The composite: routing depends on the first eight hash bytes only and is the
   same for `Get`, `Put`, `FindMissing`; `FindMissing` partitions, asks each
   backend only about its own digests, and returns the union or a shard-keyed
   error.
-/
namespace BB.C12
open BB BB.Gen.Rendezvous BB.Sharding BB.Sharding.Score

/-! ## 1. The generated score code -/

/-- The table index of `Log2Fixed` (tied to the generated code by the first conjunct, which is
`rfl`) and its successor are valid positions of the 65-entry table, and `index+1` does not wrap:
`lut[index]`, `lut[index+1]` never panic, for every `x`. -/
theorem C12_index_in_range (x : UInt64) :
    log2Fixed x =
      (Go.shl64 (UInt64.ofInt (msb x)) 16 |||
        Go.shr64 (Go.shl64 (UInt64.ofNat (lutAt (lutIndex x).toNat).toNat) 48 +
          UInt64.ofNat (lutAt (lutIndex x + 1).toNat - lutAt (lutIndex x).toNat).toNat * interp x) 48)
    ∧ (lutIndex x).toNat < lut.length
    ∧ (lutIndex x + 1).toNat < lut.length
    ∧ (lutIndex x + 1).toNat = (lutIndex x).toNat + 1 := by
  refine ⟨log2Fixed_unfold x, ?_, ?_, lutIndex_succ x⟩
  · have := lutIndex_lt x
    rw [lut_length]; omega
  · have := lutIndex_lt x
    rw [lutIndex_succ, lut_length]; omega

/-- The interpolation `base<<48 + delta*interp` never wraps (this needs the table: consecutive
entries differ by less than what is left below 2^16, including the wrap-around last entry), and
therefore `Log2Fixed` is the integer part and the interpolated fraction in exact arithmetic. -/
theorem C12_no_overflow (x : UInt64) :
    (lutAt (lutIndex x).toNat).toNat * 2 ^ 48 +
        (lutAt (lutIndex x + 1).toNat - lutAt (lutIndex x).toNat).toNat * (interp x).toNat < 2 ^ 64
    ∧ (log2Fixed x).toNat = (msb x).toNat * 2 ^ 16 +
        ((lutAt (lutIndex x).toNat).toNat * 2 ^ 48 +
          (lutAt (lutIndex x + 1).toNat - lutAt (lutIndex x).toNat).toNat * (interp x).toNat) / 2 ^ 48 :=
  ⟨no_overflow x, log2Fixed_exact x⟩

/-- `Log2Fixed x < 64<<16` for every `x`, so the divisor `64<<16 - Log2Fixed x` of `score` is
computed without wrap-around and is at least 1: no division by zero. -/
theorem C12_log_bound (x : UInt64) :
    (log2Fixed x).toNat < 64 * 2 ^ 16
    ∧ ((4194304 : UInt64) - log2Fixed x).toNat = 4194304 - (log2Fixed x).toNat
    ∧ 1 ≤ ((4194304 : UInt64) - log2Fixed x).toNat := by
  have h := log_bound x
  have hsub : ((4194304 : UInt64) - log2Fixed x).toNat = 4194304 - (log2Fixed x).toNat := by
    rw [UInt64.toNat_sub_of_le _ _ (by rw [UInt64.le_iff_toNat_le]; show _ ≤ 4194304; omega)]
    rfl
  refine ⟨h, hsub, ?_⟩
  rw [hsub]; omega

/-- `score` is the exact quotient `weight·2^32 / (64·2^16 - Log2Fixed x)`: neither the shift of the
weight nor the subtraction wraps. -/
theorem C12_score_exact (x : UInt64) (w : UInt32) :
    (score x w).toNat = w.toNat * 2 ^ 32 / (4194304 - (log2Fixed x).toNat) := score_exact x w

/-- A non-zero weight gives a non-zero score (indeed at least 2^10).  This is what makes the
`best = 0`, `bestIndex = 0` initialisation of `GetShard` invisible. -/
theorem C12_score_pos (x : UInt64) (w : UInt32) (hw : w ≠ 0) : score x w ≠ 0 := score_pos x w hw

example : score 0 1 ≠ 0 := C12_score_pos 0 1 (by decide)
example : score 18446744073709551615 4294967295 ≠ 0 := C12_score_pos _ _ (by decide)

theorem rscore_pos (h kh : UInt64) (w : UInt32) (hw : w ≠ 0) : 0 < rscore h kh w :=
  UInt64.pos_iff_ne_zero.mpr (score_pos _ w hw)

/-! ## 2. Selector: order independence, removal, addition -/

variable {α : Type}

/-- The constructor accepts exactly the non-empty lists without key hash collisions. -/
theorem C12_ctor (ss : List (Entry α)) (sel : List (Entry Nat)) :
    newSelector ss = .ok sel ↔ ss ≠ [] ∧ Distinct ss ∧ sel = selOf ss := newSelector_ok_iff ss sel

/-- The index `GetShard` returns is a valid position in the list the constructor was given (so
`ba.backends[index]` does not panic when backends and shards are aligned). -/
theorem C12_index_valid (sc : UInt64 → UInt32 → UInt64) (ss : List (Entry α)) (sel : List (Entry Nat))
    (h : newSelector ss = .ok sel) : getShardG sc sel < ss.length := by
  obtain ⟨hne, _, rfl⟩ := (newSelector_ok_iff ss sel).mp h
  exact getShardG_lt sc ss hne

/-- **Order independence.** For any score function, if the shards have distinct key hashes and
at least one has a positive score, every permutation of the shard list makes `GetShard` point at
the same shard key - and that key is the one of a shard of the list (the winner: best score, ties
to the smaller key hash). -/
theorem C12_perm (sc : UInt64 → UInt32 → UInt64) (ss₁ ss₂ : List (Entry α)) (hp : ss₁.Perm ss₂)
    (hd : Distinct ss₁) (hpos : ∃ x ∈ ss₁, 0 < scE sc x) :
    chosenKey sc ss₁ = chosenKey sc ss₂ ∧ ∃ s, Wins sc ss₁ s ∧ chosenKey sc ss₁ = some s.tag := by
  obtain ⟨s, hw⟩ := wins_exists sc ss₁ hd hpos
  have hd₂ : Distinct ss₂ := (hp.pairwise_iff (fun h => Ne.symm h)).mp hd
  have hw₂ : Wins sc ss₂ s := hw.of_mem_iff (fun x => hp.mem_iff.symm)
  rw [chosen_of_wins sc ss₁ s hd hw, chosen_of_wins sc ss₂ s hd₂ hw₂]
  exact ⟨rfl, s, hw, rfl⟩

/-- **Removal.** Removing a shard that was not chosen does not change the choice (any position
`l₁ ++ s :: l₂`; by `C12_perm` positions do not matter anyway). -/
theorem C12_remove (sc : UInt64 → UInt32 → UInt64) (l₁ l₂ : List (Entry α)) (s : Entry α)
    (hd : Distinct (l₁ ++ s :: l₂)) (hpos : ∃ x ∈ l₁ ++ s :: l₂, 0 < scE sc x)
    (hne : chosenKey sc (l₁ ++ s :: l₂) ≠ some s.tag) :
    chosenKey sc (l₁ ++ l₂) = chosenKey sc (l₁ ++ s :: l₂) := by
  obtain ⟨w, hw⟩ := wins_exists sc _ hd hpos
  have hc := chosen_of_wins sc _ w hd hw
  rw [hc] at hne ⊢
  have hws : w ≠ s := fun h => hne (by rw [h])
  have hsub : List.Sublist (l₁ ++ l₂) (l₁ ++ s :: l₂) :=
    List.Sublist.append (List.Sublist.refl _) (List.sublist_cons_self _ _)
  have hmem : w ∈ l₁ ++ l₂ := by
    rcases List.mem_append.mp hw.1 with h | h
    · exact List.mem_append_left _ h
    · rcases List.mem_cons.mp h with h | h
      · exact absurd h hws
      · exact List.mem_append_right _ h
  exact chosen_of_wins sc _ w (hd.sublist hsub) (hw.of_subset hmem (fun x hx => hsub.subset hx))

/-- **Addition.** After adding a shard `s` the choice is the old one or `s`. -/
theorem C12_add (sc : UInt64 → UInt32 → UInt64) (l₁ l₂ : List (Entry α)) (s : Entry α)
    (hd : Distinct (l₁ ++ s :: l₂)) (hpos : ∃ x ∈ l₁ ++ s :: l₂, 0 < scE sc x) :
    chosenKey sc (l₁ ++ s :: l₂) = chosenKey sc (l₁ ++ l₂) ∨ chosenKey sc (l₁ ++ s :: l₂) = some s.tag := by
  by_cases h : chosenKey sc (l₁ ++ s :: l₂) = some s.tag
  · exact Or.inr h
  · exact Or.inl (C12_remove sc l₁ l₂ s hd hpos h).symm

/-- Sharpness: without a positive score the initial `bestIndex = 0` shows through and the choice
*does* depend on the order - positivity (`C12_score_pos`) is needed, not a convenience. -/
example : chosenKey (fun _ _ => 0) [⟨1, 1, "a"⟩, ⟨2, 1, "b"⟩] ≠ chosenKey (fun _ _ => 0) [⟨2, 1, "b"⟩, ⟨1, 1, "a"⟩] := by
  decide

/-- Sharpness: with colliding key hashes ties are broken by list order. -/
example : chosenKey (fun _ _ => 7) [⟨1, 1, "a"⟩, ⟨1, 1, "b"⟩] ≠ chosenKey (fun _ _ => 7) [⟨1, 1, "b"⟩, ⟨1, 1, "a"⟩] := by
  decide

/-! ### The same for the real score -/

theorem real_pos (h : UInt64) (ss : List (Entry α)) (hne : ss ≠ []) (hw : ∀ s ∈ ss, s.weight ≠ 0) :
    ∃ x ∈ ss, 0 < scE (rscore h) x := by
  cases ss with
  | nil => exact absurd rfl hne
  | cons s rest => exact ⟨s, List.mem_cons_self .., rscore_pos h s.hash s.weight (hw s (List.mem_cons_self ..))⟩

/-- Order independence of the real selector: if the constructor accepts `ss₁` (non-empty, no key
hash collision) and all weights are non-zero, it accepts every permutation `ss₂`, and for every
object hash the two selectors point at the same shard key. -/
theorem C12_perm_real (ss₁ ss₂ : List (Entry α)) (sel₁ : List (Entry Nat)) (h : UInt64)
    (hp : ss₁.Perm ss₂) (hok : newSelector ss₁ = .ok sel₁) (hw : ∀ s ∈ ss₁, s.weight ≠ 0) :
    ∃ sel₂, newSelector ss₂ = .ok sel₂ ∧
      (ss₁[getShard sel₁ h]?).map Entry.tag = (ss₂[getShard sel₂ h]?).map Entry.tag ∧
      ∃ s ∈ ss₁, (ss₁[getShard sel₁ h]?).map Entry.tag = some s.tag := by
  obtain ⟨hne, hd, rfl⟩ := (newSelector_ok_iff ss₁ sel₁).mp hok
  have hne₂ : ss₂ ≠ [] := fun h0 => hne (List.Perm.eq_nil (h0 ▸ hp))
  have hd₂ : Distinct ss₂ := (hp.pairwise_iff (fun h => Ne.symm h)).mp hd
  refine ⟨selOf ss₂, (newSelector_ok_iff ss₂ _).mpr ⟨hne₂, hd₂, rfl⟩, ?_⟩
  obtain ⟨heq, s, hs, hc⟩ := C12_perm (rscore h) ss₁ ss₂ hp hd (real_pos h ss₁ hne hw)
  exact ⟨heq, s, hs.1, hc⟩

/-- Removal for the real selector: an object whose shard was not the removed one keeps its shard. -/
theorem C12_remove_real (l₁ l₂ : List (Entry α)) (s : Entry α) (sel : List (Entry Nat)) (h : UInt64)
    (hok : newSelector (l₁ ++ s :: l₂) = .ok sel) (hw : ∀ x ∈ l₁ ++ s :: l₂, x.weight ≠ 0)
    (hne : ((l₁ ++ s :: l₂)[getShard sel h]?).map Entry.tag ≠ some s.tag) :
    ((l₁ ++ l₂)[getShard (selOf (l₁ ++ l₂)) h]?).map Entry.tag
      = ((l₁ ++ s :: l₂)[getShard sel h]?).map Entry.tag := by
  obtain ⟨hne', hd, rfl⟩ := (newSelector_ok_iff _ sel).mp hok
  exact C12_remove (rscore h) l₁ l₂ s hd (real_pos h _ hne' hw) hne

/-- Addition for the real selector: an object either keeps its shard or moves to the new one. -/
theorem C12_add_real (l₁ l₂ : List (Entry α)) (s : Entry α) (sel : List (Entry Nat)) (h : UInt64)
    (hok : newSelector (l₁ ++ s :: l₂) = .ok sel) (hw : ∀ x ∈ l₁ ++ s :: l₂, x.weight ≠ 0) :
    ((l₁ ++ s :: l₂)[getShard sel h]?).map Entry.tag = ((l₁ ++ l₂)[getShard (selOf (l₁ ++ l₂)) h]?).map Entry.tag
    ∨ ((l₁ ++ s :: l₂)[getShard sel h]?).map Entry.tag = some s.tag := by
  obtain ⟨hne', hd, rfl⟩ := (newSelector_ok_iff _ sel).mp hok
  exact C12_add (rscore h) l₁ l₂ s hd (real_pos h _ hne' hw)

/-- The hypotheses are satisfiable: three shards with weights 1, 2, 2^32-1 are accepted. -/
example : ∃ sel, newSelector [(⟨5, 1, "a"⟩ : Entry String), ⟨3, 2, "b"⟩, ⟨9, 4294967295, "c"⟩] = .ok sel ∧
    (∀ s ∈ [(⟨5, 1, "a"⟩ : Entry String), ⟨3, 2, "b"⟩, ⟨9, 4294967295, "c"⟩], s.weight ≠ 0) ∧
    [(⟨5, 1, "a"⟩ : Entry String), ⟨3, 2, "b"⟩, ⟨9, 4294967295, "c"⟩].Perm [⟨9, 4294967295, "c"⟩, ⟨5, 1, "a"⟩, ⟨3, 2, "b"⟩] := by
  refine ⟨_, rfl, by decide, by decide⟩

/-- ... and the internal list is sorted by key hash, carrying the argument positions. -/
example : selOf [(⟨5, 1, "a"⟩ : Entry String), ⟨3, 2, "b"⟩, ⟨9, 4294967295, "c"⟩]
    = [⟨3, 2, 1⟩, ⟨5, 1, 0⟩, ⟨9, 4294967295, 2⟩] := by decide

/-! ## 3. The composite -/

variable {κ ε ν : Type}

/-- **Only the hash.** The backend index depends on the first eight hash bytes only: not on the
instance name, the digest function, the size, or the rest of the hash. -/
theorem C12_only_hash (sel : List (Entry Nat)) (d₁ d₂ : Digest)
    (h : d₁.hashBytes.take 8 = d₂.hashBytes.take 8) : shardOf sel d₁ = shardOf sel d₂ := by
  unfold shardOf be64
  rw [h]

example : shardOf [⟨3, 2, 1⟩, ⟨5, 1, 0⟩] ⟨"x", 1, [1, 2, 3, 4, 5, 6, 7, 8, 9], 10⟩
    = shardOf [⟨3, 2, 1⟩, ⟨5, 1, 0⟩] ⟨"other/instance", 10, [1, 2, 3, 4, 5, 6, 7, 8, 200, 201], 77⟩ :=
  C12_only_hash _ _ _ (by decide)

/-- `Get`, `Put` and `FindMissing` for digests that agree on the first eight hash bytes address
the same backend, whatever their instance names. -/
theorem C12_same_backend (a : Access κ ε ν) (d₁ d₂ d₃ : Digest) (v : ν)
    (h₁₂ : d₁.hashBytes.take 8 = d₂.hashBytes.take 8) (h₁₃ : d₁.hashBytes.take 8 = d₃.hashBytes.take 8)
    (hv : shardOf a.sel d₁ < a.keys.length) :
    (getOp a d₁).1 = [Call.get (shardOf a.sel d₁) d₁] ∧
    (putOp a d₂ v).1 = [Call.put (shardOf a.sel d₁) d₂] ∧
    (findMissing a [d₃]).1 = [Call.fm (shardOf a.sel d₁) [d₃]] := by
  have e2 : shardOf a.sel d₂ = shardOf a.sel d₁ := (C12_only_hash a.sel d₁ d₂ h₁₂).symm
  have e3 : shardOf a.sel d₃ = shardOf a.sel d₁ := (C12_only_hash a.sel d₁ d₃ h₁₃).symm
  obtain ⟨k, hk⟩ : ∃ k, shardOf a.sel d₁ = k := ⟨_, rfl⟩
  rw [hk] at e2 e3 hv ⊢
  refine ⟨?_, ?_, ?_⟩
  · show [Call.get (shardOf a.sel d₁) d₁] = _
    rw [hk]
  · show [Call.put (shardOf a.sel d₂) d₂] = _
    rw [e2]
  -- the only call of findMissing on a singleton
  have hcalls := findMissing_calls a [d₃]
  have hnd : ((findMissing a [d₃]).1.map fun c => match c with
      | Call.fm i _ => i | Call.get i _ => i | Call.put i _ => i | Call.getc i _ _ => i).Nodup := by
    unfold findMissing
    simp only [List.map_map]
    exact asked_nodup (shardOf a.sel) a.keys.length [d₃]
  generalize (findMissing a [d₃]).1 = cs at hcalls hnd
  have hin : Call.fm k [d₃] ∈ cs := by
    apply (hcalls _).mpr
    refine ⟨_, hv, ?_, ?_⟩ <;> simp [List.filter, e3]
  have hall : ∀ c ∈ cs, c = Call.fm k [d₃] := by
    intro c hc
    obtain ⟨i, _, rfl, hne⟩ := (hcalls c).mp hc
    by_cases hi : k = i
    · subst hi
      simp [List.filter, e3]
    · have hf : List.filter (fun d => shardOf a.sel d == i) [d₃] = [] := by
        have hb : (k == i) = false := by simpa using hi
        simp [List.filter, e3, hb]
      exact absurd hf hne
  cases cs with
  | nil => cases hin
  | cons c rest =>
    have hc := hall c (List.mem_cons_self ..)
    subst hc
    cases rest with
    | nil => rfl
    | cons c' rest' =>
      have hc' := hall c' (List.mem_cons_of_mem _ (List.mem_cons_self ..))
      subst hc'
      simp at hnd

/-- Errors of `Get`/`Put` carry the key of the addressed shard and nothing is swallowed. -/
theorem C12_errors_keyed (a : Access κ ε ν) (d : Digest) (v : ν) :
    (∀ e, a.get (shardOf a.sel d) d = .error e → (getOp a d).2 = .error (a.keys[shardOf a.sel d]?, e)) ∧
    (∀ r, a.get (shardOf a.sel d) d = .ok r → (getOp a d).2 = .ok r) ∧
    (∀ e, a.put (shardOf a.sel d) d v = .error e → (putOp a d v).2 = .error (a.keys[shardOf a.sel d]?, e)) ∧
    (a.put (shardOf a.sel d) d v = .ok () → (putOp a d v).2 = .ok ()) := by
  refine ⟨?_, ?_, ?_, ?_⟩ <;> intros <;> simp_all [getOp, putOp, annotate]

/-- **FindMissing.** For arbitrary backends (any answer functions), any digest list whose digests
route to existing backends:
1. the calls made are exactly one `FindMissing(part i)` for every backend `i` whose part
   `{d ∈ ds | shardOf d = i}` is non-empty - so each backend is asked only about its own digests,
   each at most once, and every digest is asked of its own shard;
2. if every asked backend answers, the result is exactly the union of the answers;
3. otherwise the result is an error: the error of an asked, failing backend, annotated with that
   backend's key (the first failing one in index order), and no partial answer is returned. -/
theorem C12_find_missing_union (a : Access κ ε ν) (ds : List Digest)
    (hroute : ∀ d ∈ ds, shardOf a.sel d < a.keys.length) :
    -- 1. the calls
    (∀ c, c ∈ (findMissing a ds).1 ↔
        ∃ i, i < a.keys.length ∧ c = Call.fm i (ds.filter fun d => shardOf a.sel d == i) ∧
          (ds.filter fun d => shardOf a.sel d == i) ≠ []) ∧
    (∀ i qs, Call.fm i qs ∈ (findMissing a ds).1 → ∀ d ∈ qs, d ∈ ds ∧ shardOf a.sel d = i) ∧
    (∀ d ∈ ds, ∃ qs, Call.fm (shardOf a.sel d) qs ∈ (findMissing a ds).1 ∧ d ∈ qs) ∧
    -- 2. success = union
    ((∀ i qs, Call.fm i qs ∈ (findMissing a ds).1 → ∃ m, a.fm i qs = .ok m) →
      ∃ r, (findMissing a ds).2 = .ok r ∧
        ∀ d, d ∈ r ↔ ∃ i qs m, Call.fm i qs ∈ (findMissing a ds).1 ∧ a.fm i qs = .ok m ∧ d ∈ m) ∧
    -- 3. failure = keyed error of a failing asked backend
    ((∃ i qs e, Call.fm i qs ∈ (findMissing a ds).1 ∧ a.fm i qs = .error e) →
      ∃ i qs e, Call.fm i qs ∈ (findMissing a ds).1 ∧ a.fm i qs = .error e ∧
        (findMissing a ds).2 = .error (a.keys[i]?, e)) := by
  have hcalls := findMissing_calls a ds
  refine ⟨hcalls, ?_, ?_, ?_, ?_⟩
  · intro i qs hc d hd
    obtain ⟨j, _, heq, _⟩ := (hcalls _).mp hc
    cases heq
    obtain ⟨hmem, hr⟩ := List.mem_filter.mp hd
    exact ⟨hmem, by simpa using hr⟩
  · intro d hd
    refine ⟨ds.filter fun d' => shardOf a.sel d' == shardOf a.sel d, ?_, ?_⟩
    · apply (hcalls _).mpr
      refine ⟨_, hroute d hd, rfl, ?_⟩
      intro h
      have : d ∈ ds.filter fun d' => shardOf a.sel d' == shardOf a.sel d :=
        List.mem_filter.mpr ⟨hd, by simp⟩
      rw [h] at this
      cases this
    · exact List.mem_filter.mpr ⟨hd, by simp⟩
  · -- success
    intro hall
    have hcm : ∀ i qs, Call.fm i qs ∈ (findMissing a ds).1 ↔ (i, qs) ∈ asked (shardOf a.sel) a.keys.length ds := by
      intro i qs
      unfold findMissing
      simp only [List.mem_map]
      constructor
      · rintro ⟨⟨j, q⟩, hp, heq⟩
        cases heq
        exact hp
      · intro hp
        exact ⟨(i, qs), hp, rfl⟩
    have hnone : firstError ((asked (shardOf a.sel) a.keys.length ds).map fun p => (p.1, a.fm p.1 p.2)) = none := by
      rw [firstError_none]
      intro p hp
      obtain ⟨⟨i, qs⟩, hq, rfl⟩ := List.mem_map.mp hp
      exact hall i qs ((hcm i qs).mpr hq)
    refine ⟨unionOk ((asked (shardOf a.sel) a.keys.length ds).map fun p => (p.1, a.fm p.1 p.2)), ?_, ?_⟩
    · show (match firstError ((asked (shardOf a.sel) a.keys.length ds).map fun p => (p.1, a.fm p.1 p.2)) with
        | some (i, e) => Except.error (a.keys[i]?, e)
        | none => Except.ok (unionOk _)) = _
      rw [hnone]
    · intro d
      rw [mem_unionOk]
      constructor
      · rintro ⟨i, m, hm, hd⟩
        obtain ⟨⟨j, qs⟩, hq, heq⟩ := List.mem_map.mp hm
        obtain ⟨rfl, hfm⟩ := Prod.mk.inj heq
        exact ⟨j, qs, m, (hcm j qs).mpr hq, hfm, hd⟩
      · rintro ⟨i, qs, m, hc, hfm, hd⟩
        exact ⟨i, m, List.mem_map.mpr ⟨(i, qs), (hcm i qs).mp hc, by rw [hfm]⟩, hd⟩
  · -- failure
    rintro ⟨i, qs, e, hc, hfm⟩
    have hcm : ∀ i qs, Call.fm i qs ∈ (findMissing a ds).1 ↔ (i, qs) ∈ asked (shardOf a.sel) a.keys.length ds := by
      intro i qs
      unfold findMissing
      simp only [List.mem_map]
      constructor
      · rintro ⟨⟨j, q⟩, hp, heq⟩
        cases heq
        exact hp
      · intro hp
        exact ⟨(i, qs), hp, rfl⟩
    cases hfe : firstError ((asked (shardOf a.sel) a.keys.length ds).map fun p => (p.1, a.fm p.1 p.2)) with
    | none =>
      obtain ⟨m, hm⟩ := (firstError_none _).mp hfe (i, a.fm i qs)
        (List.mem_map.mpr ⟨(i, qs), (hcm i qs).mp hc, rfl⟩)
      rw [hfm] at hm
      cases hm
    | some p =>
      obtain ⟨j, e'⟩ := p
      obtain ⟨l1, l2, hl, _⟩ := firstError_some _ j e' hfe
      have hmem : (j, Except.error e') ∈ (asked (shardOf a.sel) a.keys.length ds).map fun p => (p.1, a.fm p.1 p.2) := by
        rw [hl]; exact List.mem_append_right _ (List.mem_cons_self ..)
      obtain ⟨⟨j', qs'⟩, hq, heq⟩ := List.mem_map.mp hmem
      obtain ⟨rfl, hfm'⟩ := Prod.mk.inj heq
      refine ⟨j', qs', e', (hcm j' qs').mpr hq, hfm', ?_⟩
      show (match firstError ((asked (shardOf a.sel) a.keys.length ds).map fun p => (p.1, a.fm p.1 p.2)) with
        | some (i, e) => Except.error (a.keys[i]?, e)
        | none => Except.ok (unionOk _)) = _
      rw [hfe]

/-- The routing hypothesis of `C12_find_missing_union` holds whenever the composite is built the
way `new_blob_access.go` builds it: backends and shards appended in the same order, selector
from the constructor. -/
theorem C12_route_valid (a : Access κ ε ν) (ss : List (Entry κ)) (hsel : newSelector ss = .ok a.sel)
    (hkeys : a.keys = ss.map Entry.tag) (d : Digest) : shardOf a.sel d < a.keys.length := by
  rw [hkeys, List.length_map]
  exact C12_index_valid _ ss a.sel hsel

/-- The hypotheses are satisfiable: a two-shard composite whose second backend always fails,
any digest list. -/
example (ds : List Digest) :
    let a : Access String Nat Unit :=
      { keys := ["a", "b"], sel := selOf [(⟨5, 1, "a"⟩ : Entry String), ⟨3, 2, "b"⟩],
        get := fun _ _ => .ok (), put := fun _ _ _ => .ok (),
        fm := fun i qs => if i = 1 then .error 14 else .ok qs }
    ∀ d ∈ ds, shardOf a.sel d < a.keys.length :=
  fun d _ => C12_route_valid _ [(⟨5, 1, "a"⟩ : Entry String), ⟨3, 2, "b"⟩] rfl rfl d

/-- **Composite reads.** `GetFromComposite(parent, child)` makes exactly one call, on the backend
the selector assigns to the **parent** digest - the same backend `Get` addresses for any digest
agreeing with the parent on the first eight hash bytes - whatever the child digest is; both
digests are passed on unchanged, results pass through, errors carry that shard's key. -/
theorem C12_composite_by_parent (a : Access κ ε ν) (p c d : Digest)
    (h : p.hashBytes.take 8 = d.hashBytes.take 8) :
    (getFromCompositeOp a p c).1 = [Call.getc (shardOf a.sel p) p c] ∧
    (∃ i, (getFromCompositeOp a p c).1 = [Call.getc i p c] ∧ (getOp a d).1 = [Call.get i d]) ∧
    (∀ e, a.getc (shardOf a.sel p) p c = .error e →
      (getFromCompositeOp a p c).2 = .error (a.keys[shardOf a.sel p]?, e)) ∧
    (∀ r, a.getc (shardOf a.sel p) p c = .ok r → (getFromCompositeOp a p c).2 = .ok r) := by
  refine ⟨rfl, ⟨shardOf a.sel p, rfl, ?_⟩, ?_, ?_⟩
  · show [Call.get (shardOf a.sel d) d] = _
    rw [C12_only_hash a.sel p d h]
  · intro e he
    simp [getFromCompositeOp, annotate, he]
  · intro r hr
    simp [getFromCompositeOp, annotate, hr]

/-! ## 4. Ties between the hand model and the regenerated loop body / constructor record

`BB.Gen.Rendezvous` also carries the body of the `GetShard` loop (`shardScore`, `takes`) and the
three fields of the `rendezvousShard` record the constructor appends (`ctorWeight`, `ctorIndex`,
`ctorHash`), translated from /repo on every run.  The model's `rscore`, the strict `>` of `step`
and the record built by `selOf` are these, by `rfl`; a change of the Go code (another mixing, a
non-strict comparison, a weight that is rescaled before it is stored, ...) makes the translator
fail or these proofs fail. -/

theorem C12_getshard_body (w : UInt32) (i : Int) (kh h c b : UInt64) :
    shardScore ⟨w, i, kh⟩ h = rscore h kh w ∧ takes c b = decide (c > b) := ⟨rfl, rfl⟩

/-- The constructor stores weight, position and key hash unchanged. -/
theorem C12_ctor_record (i : Int) (w : UInt32) (h : UInt64) :
    ctorWeight i w h = w ∧ ctorIndex i w h = i ∧ ctorHash i w h = h := ⟨rfl, rfl, rfl⟩

end BB.C12
