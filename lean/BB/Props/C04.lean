import BB.Proofs.Alloc
import BB.Proofs.Store
/-!
# C04 - Block space is never reused while referenced, and never leaked

`pins` = the use counts of the blocks (one entry per open reader / in-flight writer), `zombies` =
blocks that left the block list while pinned, `free` = what `NewBlock` may hand out,
`total = free + blocks in the list + zombies` = the allocator's block count.
Persistent block lists additionally defer the release until the state file was rewritten; that
part is C02/C03/C07's model.
-/
namespace BB.C04
open BB.BlockMap

/-- The refcount invariant holds initially. -/
theorem zinv_init (c : Cfg) (free : Nat) : ZInv (init c [] free) := by
  have : init c [] free = { free := free } := by simp [init, initLoopNew, initLoopCur]
  rw [this]
  exact ⟨by simp, by simp, by simp⟩

/-- ... and is preserved by `Put` in every outcome (rotations, quarantine releases, failures),
which pins exactly the block it reserved space in. -/
theorem refcount_put (c : Cfg) (fuelGrow size : Nat) (s : St) (z : ZInv s) (hc : CfgOK c) (hw : WF c s)
    (hf : c.policy.bound ≤ fuelGrow) : ResZT s (put c fuelGrow size s) :=
  put_z c fuelGrow size s z hc hw hf

/-- Opening a reader on a block of the list / closing any reader or finishing a writer. -/
theorem refcount_pin (s : St) (blk : Nat) (z : ZInv s) (h : s.released ≤ blk) :
    ZInv (pin s blk) ∧ total (pin s blk) = total s := ⟨pin_zinv z h, pin_total s blk⟩

theorem refcount_unpin (s : St) (blk : Nat) (z : ZInv s) :
    ZInv (unpin s blk) ∧ total (unpin s blk) = total s ∧ (unpin s blk).pins = s.pins.erase blk := by
  refine ⟨unpin_zinv z, unpin_total s blk, ?_⟩
  unfold unpin
  simp only []
  split <;> rfl

/-- **No reuse while referenced.** A block that left the list while a reader or writer still holds it
is a zombie: its space is accounted outside `free`, so `NewBlock` cannot hand it out. -/
theorem held_not_free (s : St) (z : ZInv s) (b : Nat) (hp : b ∈ s.pins) (hr : b < s.released) :
    b ∈ s.zombies ∧ s.free + s.caps.length + s.zombies.length = total s :=
  ⟨z.z3 b hp hr, rfl⟩

/-- The last reference gives the space back: after the unpin that removes the last pin of a zombie,
`free` grew by one. -/
theorem last_unpin_frees (s : St) (blk : Nat) (h1 : blk ∈ s.pins) (h2 : blk ∉ s.pins.erase blk)
    (h3 : blk ∈ s.zombies) : (unpin s blk).free = s.free + 1 ∧ blk ∉ (unpin s blk).zombies ∨ ¬ s.zombies.Nodup := by
  by_cases hn : s.zombies.Nodup
  · left
    unfold unpin
    rw [if_pos ⟨h1, h2, h3⟩]
    exact ⟨rfl, fun hm => ((List.Nodup.mem_erase_iff hn).mp hm).1 rfl⟩
  · exact Or.inr hn

/-- **No leak.** Once every reader is closed and every writer finished, no space is withheld:
`free + blocks in the list` is the allocator's block count again. -/
theorem no_leak (s : St) (z : ZInv s) (h : s.pins = []) : s.zombies = [] ∧ s.free + s.caps.length = total s := by
  have hz : s.zombies = [] := by
    cases hzs : s.zombies with
    | nil => rfl
    | cons y rest =>
      have := (z.z1 y (by rw [hzs]; exact List.mem_cons_self)).2
      rw [h] at this
      simp at this
  exact ⟨hz, by simp [total, hz]⟩

/-! ### Every storage operation releases exactly what it pinned -/

open BB.Store in
/-- Upload: `Put` pins the ticket's block, the end of the copy (successful or not) drops it. -/
theorem balanced_put (c : BB.Store.Cfg) (s : BB.Store.St) (t : Ticket) (k : Nat) (copied : Bool) :
    (flatPutEnd c s t k copied).2.bm.pins = s.bm.pins.erase t.blk ∧
    (hierPutEnd c s t k k copied).2.bm.pins = s.bm.pins.erase t.blk := by
  have hu : (unpin s.bm t.blk).pins = s.bm.pins.erase t.blk := by
    unfold unpin; simp only []; split <;> rfl
  constructor
  · unfold flatPutEnd finalize
    simp only [unpinTicket]
    cases copied
    · simpa using hu
    · by_cases hf : finalizeOk (unpin s.bm t.blk) t = true <;> simp [hf, hu]
  · unfold hierPutEnd finalize
    simp only [unpinTicket]
    cases copied
    · simpa using hu
    · by_cases hf : finalizeOk (unpin s.bm t.blk) t = true <;> simp [hf, hu]

open BB.Store in
/-- Refresh (Get / FindMissing / GetFromComposite): the source reader is pinned before space is
reserved, the reservation pins the target block; when the copy is done both are dropped, which
restores the pins exactly. -/
theorem balanced_refresh (c : BB.Store.Cfg) (s s' : BB.Store.St) (src : BB.Store.Loc) (t : Ticket)
    (hz : ZInv s.bm) (hc : CfgOK c.bm) (hw : WF c.bm s.bm) (hf : c.bm.policy.bound ≤ c.fuelGrow)
    (hl : s.bm.released ≤ locBlk src)
    (h : allocateForRefresh c s src = .ok t s') :
    s'.bm.pins = t.blk :: locBlk src :: s.bm.pins ∧
    ∀ s2 : BB.Store.St, s2.bm.pins = s'.bm.pins → (refreshDone s2 t src).bm.pins = s.bm.pins := by
  unfold allocateForRefresh allocate at h
  have hz1 : ZInv (pin s.bm (locBlk src)) := pin_zinv hz hl
  have hw1 : WF c.bm (pin s.bm (locBlk src)) := ⟨hw.len, hw.rel, hw.tbr, hw.cap, hw.idxLo, hw.idxHi, hw.idxRem, hw.pol⟩
  have hp := put_z c.bm c.fuelGrow (locSize src) (pin s.bm (locBlk src)) hz1 hc hw1 hf
  simp only [pinLoc] at h
  have hu : ∀ (b : BlockMap.St) (x : Nat), (unpin b x).pins = b.pins.erase x := by
    intro b x; unfold unpin; simp only []; split <;> rfl
  cases hput : put c.bm c.fuelGrow (locSize src) (pin s.bm (locBlk src)) with
  | ok r =>
    obtain ⟨t2, bm2⟩ := r
    rw [hput] at h hp
    simp at h
    obtain ⟨h1, h2⟩ := h
    subst h1; subst h2
    have hpins : bm2.pins = t2.blk :: locBlk src :: s.bm.pins := by simpa [pin] using hp.2.1
    refine ⟨hpins, ?_⟩
    intro s2 h2
    simp only [refreshDone, unpinLoc, unpinTicket, hu, h2]
    simp [hpins]
  | err e2 bm2 => rw [hput] at h; simp at h
  | stuck => rw [hput] at h; simp at h
  | panic => rw [hput] at h; simp at h

open BB.Store in
/-- The failing reservation of a refresh leaves the pins as they were. -/
theorem balanced_refresh_failure (c : BB.Store.Cfg) (s s' : BB.Store.St) (src : BB.Store.Loc) (e : String)
    (hz : ZInv s.bm) (hc : CfgOK c.bm) (hw : WF c.bm s.bm) (hf : c.bm.policy.bound ≤ c.fuelGrow)
    (hl : s.bm.released ≤ locBlk src)
    (h : allocateForRefresh c s src = .err e s') : s'.bm.pins = s.bm.pins := by
  unfold allocateForRefresh allocate at h
  have hz1 : ZInv (pin s.bm (locBlk src)) := pin_zinv hz hl
  have hw1 : WF c.bm (pin s.bm (locBlk src)) := ⟨hw.len, hw.rel, hw.tbr, hw.cap, hw.idxLo, hw.idxHi, hw.idxRem, hw.pol⟩
  have hp := put_z c.bm c.fuelGrow (locSize src) (pin s.bm (locBlk src)) hz1 hc hw1 hf
  simp only [pinLoc] at h
  cases hput : put c.bm c.fuelGrow (locSize src) (pin s.bm (locBlk src)) with
  | ok r => rw [hput] at h; simp at h
  | err e2 bm2 =>
    rw [hput] at h hp
    simp at h
    obtain ⟨_, h2⟩ := h
    subst h2
    have hu : ∀ (b : BlockMap.St) (x : Nat), (unpin b x).pins = b.pins.erase x := by
      intro b x; unfold unpin; simp only []; split <;> rfl
    simp only [unpinLoc, hu, hp.2]
    simp [pin]
  | stuck => rw [hput] at h; simp at h
  | panic => rw [hput] at h; simp at h

end BB.C04
