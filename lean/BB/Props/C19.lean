import BB.Model.Routing
import BB.Proofs.RoutingTrie
import BB.Proofs.RoutingPatch
import BB.Proofs.RoutingDemux
import BB.Proofs.RoutingHier
/-!
# C19 - instance-name routing: longest-prefix demultiplexing, hierarchical fallback

All statements are about the executable model `BB.Routing` (the same definitions the driver
`bbmodel_c19` runs against the real code) and hold for every trie history, configuration,
digest list, backend behaviour and iteration order.
-/
namespace BB.C19
open BB.Routing

/-! ## C19_longest_prefix -/

/-- After any sequence of `Set`/`Remove` (a `Remove` that panics leaves the trie unchanged),
`GetExact` is lookup in the specification list. -/
theorem C19_exact_refines (ops : List Op) (q : Name) :
    exact (run Node.empty ops) q = specLookup (specRun [] ops) q :=
  run_spec ops Node.empty [] (fun q => by simp [exact_empty, specLookup]) q

/-- After any sequence of `Set`/`Remove`, `GetLongestPrefix` returns the value registered for the
longest registered component-wise prefix of the name (`none`, the code's -1, if there is none):
it equals the naive computation on the specification list and satisfies the declarative
statement over that list. -/
theorem C19_longest_prefix (ops : List Op) (name : Name) :
    longest (run Node.empty ops) name = specLongest (specRun [] ops) name ∧
    IsLongest (specLookup (specRun [] ops)) name (longest (run Node.empty ops) name) := by
  have hk : KeysNodup (specRun [] ops) := specRun_keys ops [] (by simp [KeysNodup])
  have h1 : IsLongest (specLookup (specRun [] ops)) name (longest (run Node.empty ops) name) := by
    have := longest_isLongest (run Node.empty ops) name
    have hfun : exact (run Node.empty ops) = specLookup (specRun [] ops) :=
      funext (C19_exact_refines ops)
    rw [hfun] at this
    exact this
  exact ⟨isLongest_unique _ _ _ _ h1 (specLongest_spec _ hk name), h1⟩

/-- The same in terms of the entries of the specification list. -/
theorem C19_longest_prefix_mem (ops : List Op) (name : Name) :
    match longest (run Node.empty ops) name with
    | some v => ∃ p, (p, v) ∈ specRun [] ops ∧ p <+: name ∧
        ∀ q w, (q, w) ∈ specRun [] ops → q <+: name → q.length ≤ p.length
    | none => ∀ q w, (q, w) ∈ specRun [] ops → ¬ q <+: name := by
  have hk : KeysNodup (specRun [] ops) := specRun_keys ops [] (by simp [KeysNodup])
  have h := (C19_longest_prefix ops name).2
  cases hl : longest (run Node.empty ops) name with
  | some v =>
    rw [hl] at h
    obtain ⟨p, hp, hg, hm⟩ := h
    refine ⟨p, specLookup_mem _ p v hg, hp, ?_⟩
    intro q w hq hpre
    exact hm q hpre (by rw [mem_specLookup _ hk q w hq]; simp)
  | none =>
    rw [hl] at h
    intro q w hq hpre
    have := h q hpre
    rw [mem_specLookup _ hk q w hq] at this
    exact absurd this (by simp)

/-- The specification list is a finite map: its keys are pairwise different. -/
theorem C19_spec_keys (ops : List Op) : KeysNodup (specRun [] ops) :=
  specRun_keys ops [] (by simp [KeysNodup])

/-- `Remove` panics (nil dereference) only for a name that is not registered. -/
theorem C19_remove_panics_only_unregistered (t : Node) (name : Name) (h : remove t name = none) :
    exact t name = none := remove_none t name h

/-- `ContainsPrefix` says whether `GetLongestPrefix` finds something. -/
theorem C19_contains_prefix (t : Node) (name : Name) :
    containsPrefix t name = (longest t name).isSome := by
  have key : ∀ (name : Name) (n : Node) (last : Option Nat),
      (walk n name last).isSome = (last.isSome || hasPrefixWalk n name) := by
    intro name
    induction name with
    | nil => intro n last; cases n; simp [walk, hasPrefixWalk]
    | cons c r ih =>
      intro n last
      cases n with | mk val cs =>
      simp only [walk, hasPrefixWalk]
      cases hg : aget cs c with
      | none => simp
      | some ch =>
        simp only
        rw [ih]
        cases ch.value <;> simp
  unfold containsPrefix longest
  rw [key]

-- non-vacuity: a history with overwriting, removal of a leaf below a valueless chain, and the
-- empty prefix; `ab` is not under `a` (component-wise), `a/b/x` is under `a`.
private def exOps : List Op :=
  [.set [['a']] 0, .set [['a'], ['b'], ['c']] 1, .set [['b']] 2, .remove [['a'], ['b'], ['c']],
   .set [['a'], ['b']] 3, .remove [['b']]]
example : longest (run Node.empty exOps) [['a', 'b']] = none := by decide
example : longest (run Node.empty exOps) [['a'], ['b'], ['x']] = some 3 := by decide
example : longest (run Node.empty exOps) [['a'], ['x']] = some 0 := by decide
example : longest (run Node.empty (exOps ++ [.set [] 7])) [['a', 'b']] = some 7 := by decide
example : remove (run Node.empty exOps) [['b']] = none := by decide

/-! ## C19_patch_unpatch -/

/-- For every prefix pair (empty prefixes included) and every digest whose name is under the old
prefix: patching replaces the old prefix by the new one, keeps the hash, and unpatching restores
the digest exactly. -/
theorem C19_patch_unpatch (old new : Name) (d : Dg) (h : old <+: d.name) :
    unpatchDg old new (patchDg old new d) = d ∧
    (∀ rest, d.name = old ++ rest → (patchDg old new d).name = new ++ rest) ∧
    (patchDg old new d).hash = d.hash := by
  refine ⟨unpatchDg_patchDg old new d h, ?_, rfl⟩
  intro rest hr
  simp only [patchDg, hr, patchName_under]

/-- The byte-offset computation the code performs on the strings (`patchInstanceName`) is the
component-level function, for names without empty components. -/
theorem C19_patch_string_level (old new rest : Name) (hold : ValidName old) (hnew : ValidName new)
    (hrest : ValidName rest) :
    patchStr (joinS old) (joinS new) (joinS (old ++ rest)) = joinS (new ++ rest) := by
  rw [patchStr_join old new rest hold hnew hrest, patchName_under]

example : [['a']] <+: (⟨[['a'], ['b']], 5⟩ : Dg).name := by decide
example : patchDg [['a']] [] ⟨[['a'], ['b']], 5⟩ = ⟨[['b']], 5⟩ := by decide
example : patchDg [] [['x'], ['y']] ⟨[['a']], 5⟩ = ⟨[['x'], ['y'], ['a']], 5⟩ := by decide
example : patchStr (joinS [['a'], ['b']]) (joinS [['x']]) (joinS [['a'], ['b'], ['c', 'd']]) = "x/cd".toList := by
  decide

/-! ## C19_demux_union -/

/-- The backend (index into the configuration) an instance name is routed to. -/
def routeOf (cfg : Cfg) (n : Name) : Option Nat := longest (cfgTrie cfg) n

/-- Routing is longest-prefix matching over the configured prefixes: the chosen entry's prefix is
a component-wise prefix of the name and no configured prefix that reaches the trie is longer. -/
theorem C19_route (cfg : Cfg) (n : Name) (b : Nat) (h : routeOf cfg n = some b) :
    ∃ m a, cfg[b]? = some (m, a) ∧ m <+: n ∧
      ∀ q, q <+: n → exact (cfgTrie cfg) q ≠ none → q.length ≤ m.length := by
  have hl := longest_isLongest (cfgTrie cfg) n
  unfold routeOf at h
  rw [h] at hl
  obtain ⟨p, hp, hg, hm⟩ := hl
  obtain ⟨a, ha⟩ := cfgTrie_exact cfg p b hg
  exact ⟨p, a, ha, hp, hm⟩

/-- An unknown instance name makes `FindMissing` fail with INVALID_ARGUMENT "Unknown instance
name" before any backend is asked. -/
theorem C19_demux_unknown (cfg : Cfg) (fm : Nat → FM) (order : List Nat) (digests : List Dg)
    (h : ∃ d ∈ digests, routeOf cfg d.name = none) :
    ∃ d ∈ digests, routeOf cfg d.name = none ∧
      demuxFindMissing (cfgGetter cfg) fm order digests = ([], .error (unknownName d.name)) := by
  unfold demuxFindMissing
  cases hp : partition (cfgGetter cfg) digests [] with
  | ok parts =>
    exfalso
    obtain ⟨d, hd, hnone⟩ := h
    obtain ⟨q, _, hq, _⟩ := (partition_spec _ (cfgGetter_coherent cfg) digests parts hp).complete d hd
    rw [cfgGetter_none cfg d.name hnone] at hq
    exact absurd hq (by simp)
  | error e =>
    obtain ⟨d, hd, he⟩ := partition_error _ digests [] e hp
    obtain ⟨h1, h2⟩ := cfgGetter_error cfg d.name e he
    exact ⟨d, hd, h1, by rw [h2]⟩

theorem C19_unknown_code (n : Name) : (unknownName n).code = 3 := rfl

/-- What the partitions visited by the second loop look like. -/
theorem demux_parts (cfg : Cfg) (order : List Nat) (digests : List Dg)
    (hall : ∀ d ∈ digests, routeOf cfg d.name ≠ none) :
    ∃ parts, partition (cfgGetter cfg) digests [] = .ok parts ∧
      (∀ p ∈ arrange order parts,
        cfg[p.route.id]? = some (p.route.old, p.route.new) ∧ p.route.bname = p.route.old ∧
        p.digests ≠ [] ∧
        ∀ x, x ∈ p.digests ↔ ∃ d ∈ digests, routeOf cfg d.name = some p.route.id ∧
          x = patchDg p.route.old p.route.new d) ∧
      (arrange order parts).Pairwise (fun a b => a.route.id ≠ b.route.id) ∧
      (∀ d ∈ digests, ∃ p ∈ arrange order parts, routeOf cfg d.name = some p.route.id) := by
  have htot : ∀ d ∈ digests, ∃ r, cfgGetter cfg d.name = .ok r := by
    intro d hd
    cases hl : longest (cfgTrie cfg) d.name with
    | none => exact absurd hl (hall d hd)
    | some b =>
      obtain ⟨m, a, _, hg⟩ := cfgGetter_of_longest cfg d.name b hl
      exact ⟨_, hg⟩
  obtain ⟨parts, hparts⟩ := partition_total _ digests htot []
  have inv := partition_spec _ (cfgGetter_coherent cfg) digests parts hparts
  have hperm := arrange_perm order parts
  -- facts about the route of a part
  have hroute : ∀ p ∈ parts, cfg[p.route.id]? = some (p.route.old, p.route.new) ∧
      p.route.bname = p.route.old := by
    intro p hp
    obtain ⟨d0, _, hd0⟩ := inv.used p hp
    obtain ⟨_, h2, h3, _, _⟩ := cfgGetter_ok cfg _ _ hd0
    exact ⟨h2, h3⟩
  -- parts with the same backend index are the same part
  have hsame : ∀ p ∈ parts, ∀ q ∈ parts, p.route.id = q.route.id → p = q := by
    intro p hp q hq hid
    have hb : p.route.bname = q.route.bname := by
      obtain ⟨hp1, hp2⟩ := hroute p hp
      obtain ⟨hq1, hq2⟩ := hroute q hq
      rw [hid, hq1] at hp1
      simp only [Option.some.injEq, Prod.mk.injEq] at hp1
      rw [hp2, hq2, hp1.1]
    by_cases hpq : p = q
    · exact hpq
    · exfalso
      exact pairwise_mem_ne (fun _ _ h e => h e.symm) inv.distinct hp hq hpq hb
  refine ⟨parts, hparts, ?_, ?_, ?_⟩
  · intro p hp
    have hp' : p ∈ parts := hperm.mem_iff.mp hp
    obtain ⟨h1, h2⟩ := hroute p hp'
    refine ⟨h1, h2, ?_, ?_⟩
    · obtain ⟨d0, hd0, hg0⟩ := inv.used p hp'
      obtain ⟨q, hq, hgq, hin⟩ := inv.complete d0 hd0
      have : q.route = p.route := by rw [hg0] at hgq; exact (Except.ok.inj hgq).symm
      have hqp : q = p := hsame q hq p hp' (by rw [this])
      subst hqp
      intro e
      rw [e] at hin
      exact absurd hin (by simp)
    · intro x
      constructor
      · intro hx
        obtain ⟨d, hd, hg, hxe⟩ := inv.sound p hp' x hx
        exact ⟨d, hd, (cfgGetter_ok cfg _ _ hg).1, hxe⟩
      · rintro ⟨d, hd, hr, rfl⟩
        obtain ⟨q, hq, hgq, hin⟩ := inv.complete d hd
        have hid : q.route.id = p.route.id := by
          have := (cfgGetter_ok cfg _ _ hgq).1
          unfold routeOf at hr
          rw [hr] at this
          exact (Option.some.inj this).symm
        have hqp : q = p := hsame q hq p hp' hid
        subst hqp
        exact hin
  · have hd : parts.Pairwise (fun a b => a.route.id ≠ b.route.id) := by
      have := inv.distinct
      unfold DistinctNames at this
      refine List.Pairwise.imp_of_mem ?_ this
      intro a b ha hb hne hid
      have := hsame a ha b hb hid
      subst this
      exact hne rfl
    exact (hperm.pairwise_iff (fun {a b} (h : a.route.id ≠ b.route.id) => fun e => h e.symm)).mpr hd
  · intro d hd
    obtain ⟨q, hq, hgq, _⟩ := inv.complete d hd
    exact ⟨q, hperm.mem_iff.mpr hq, (cfgGetter_ok cfg _ _ hgq).1⟩

/-- `FindMissing` of the demultiplexing composite built from a configuration, for every
configuration, digest list, backend behaviour and iteration order, when all names resolve:

1. every call to a backend carries exactly the digests routed to that backend, each with the
   matched prefix replaced by the configured one (never empty, never a foreign digest);
2. no backend is asked twice;
3. on success every backend some digest is routed to was asked, and the result is exactly the
   union of the backends' answers with the prefixes restored;
4. on failure the error is the error of a backend that was asked, with the same code and the
   backend's name in front of the message;
5. if no backend fails, the call succeeds. -/
theorem C19_demux_union (cfg : Cfg) (fm : Nat → FM) (order : List Nat) (digests : List Dg)
    (hall : ∀ d ∈ digests, routeOf cfg d.name ≠ none) :
    (∀ c ∈ (demuxFindMissing (cfgGetter cfg) fm order digests).1, ∃ m a,
      cfg[c.1]? = some (m, a) ∧ c.2 ≠ [] ∧
      ∀ x, x ∈ c.2 ↔ ∃ d ∈ digests, routeOf cfg d.name = some c.1 ∧ x = patchDg m a d) ∧
    ((demuxFindMissing (cfgGetter cfg) fm order digests).1.map (·.1)).Nodup ∧
    (∀ R, (demuxFindMissing (cfgGetter cfg) fm order digests).2 = .ok R →
      (∀ d ∈ digests, ∃ c ∈ (demuxFindMissing (cfgGetter cfg) fm order digests).1,
        routeOf cfg d.name = some c.1) ∧
      ∀ y, y ∈ R ↔ ∃ c ∈ (demuxFindMissing (cfgGetter cfg) fm order digests).1, ∃ m a ans,
        cfg[c.1]? = some (m, a) ∧ fm c.1 c.2 = .ok ans ∧ ∃ x ∈ ans, y = unpatchDg m a x) ∧
    (∀ e, (demuxFindMissing (cfgGetter cfg) fm order digests).2 = .error e →
      ∃ c ∈ (demuxFindMissing (cfgGetter cfg) fm order digests).1, ∃ m a e',
        cfg[c.1]? = some (m, a) ∧ fm c.1 c.2 = .error e' ∧ e = wrapErr (backendPrefix m) e') ∧
    ((∀ b asked, ∃ ans, fm b asked = .ok ans) →
      ∃ R, (demuxFindMissing (cfgGetter cfg) fm order digests).2 = .ok R) := by
  obtain ⟨parts, hparts, hA, hB, hC⟩ := demux_parts cfg order digests hall
  have hout : demuxFindMissing (cfgGetter cfg) fm order digests = callAll fm (arrange order parts) [] := by
    simp [demuxFindMissing, hparts]
  rw [hout]
  obtain ⟨pre, suf, hsplit, hcalls⟩ := callAll_calls fm (arrange order parts) []
  have hpre : ∀ p ∈ pre, p ∈ arrange order parts := by
    intro p hp; rw [hsplit]; exact List.mem_append_left _ hp
  refine ⟨?_, ?_, ?_, ?_, ?_⟩
  · intro c hc
    rw [hcalls] at hc
    obtain ⟨p, hp, rfl⟩ := List.mem_map.mp hc
    obtain ⟨h1, _, h3, h4⟩ := hA p (hpre p hp)
    exact ⟨p.route.old, p.route.new, h1, h3, h4⟩
  · rw [hcalls, List.map_map]
    have : pre.Pairwise (fun a b => a.route.id ≠ b.route.id) := by
      rw [hsplit] at hB
      exact (List.pairwise_append.mp hB).1
    simpa [List.Nodup, List.pairwise_map, callOf] using this
  · intro R hR
    obtain ⟨h1, _, h3⟩ := callAll_ok fm _ [] R hR
    refine ⟨?_, ?_⟩
    · intro d hd
      obtain ⟨p, hp, hr⟩ := hC d hd
      exact ⟨callOf p, by rw [h1]; exact List.mem_map.mpr ⟨p, hp, rfl⟩, hr⟩
    · intro y
      rw [h3 y]
      simp only [List.not_mem_nil, false_or]
      constructor
      · rintro ⟨p, hp, ans, hans, x, hx, rfl⟩
        exact ⟨callOf p, by rw [h1]; exact List.mem_map.mpr ⟨p, hp, rfl⟩,
          p.route.old, p.route.new, ans, (hA p hp).1, hans, x, hx, rfl⟩
      · rintro ⟨c, hc, m, a, ans, hcfg, hans, x, hx, rfl⟩
        rw [h1] at hc
        obtain ⟨p, hp, rfl⟩ := List.mem_map.mp hc
        have := (hA p hp).1
        simp only [callOf] at hcfg
        rw [this] at hcfg
        simp only [Option.some.injEq, Prod.mk.injEq] at hcfg
        obtain ⟨rfl, rfl⟩ := hcfg
        exact ⟨p, hp, ans, hans, x, hx, rfl⟩
  · intro e he
    obtain ⟨pre', p, suf', e', h1, _, h3, h4, h5⟩ := callAll_error fm _ [] e he
    have hp : p ∈ arrange order parts := by rw [h1]; simp
    refine ⟨callOf p, by rw [h5]; simp, p.route.old, p.route.new, e', (hA p hp).1, h3, ?_⟩
    rw [h4, (hA p hp).2.1]
  · intro hok
    exact callAll_total fm _ (fun p _ => hok _ _) []

/-- With backends that answer honestly about their contents, the composite reports exactly the
caller's digests that are absent, under the rewritten name, from the backend they are routed
to. -/
theorem C19_demux_union_honest (cfg : Cfg) (fm : Nat → FM) (order : List Nat) (digests : List Dg)
    (present : Nat → Dg → Bool)
    (hall : ∀ d ∈ digests, routeOf cfg d.name ≠ none)
    (hh : ∀ b asked ans, fm b asked = .ok ans → ∀ x, x ∈ ans ↔ x ∈ asked ∧ present b x = false)
    (R : List Dg) (hR : (demuxFindMissing (cfgGetter cfg) fm order digests).2 = .ok R) :
    ∀ y, y ∈ R ↔ y ∈ digests ∧ ∃ b m a, routeOf cfg y.name = some b ∧ cfg[b]? = some (m, a) ∧
      present b (patchDg m a y) = false := by
  obtain ⟨hown, _, hok, _, _⟩ := C19_demux_union cfg fm order digests hall
  obtain ⟨hcov, hmem⟩ := hok R hR
  intro y
  rw [hmem y]
  constructor
  · rintro ⟨c, hc, m, a, ans, hcfg, hans, x, hx, rfl⟩
    obtain ⟨m', a', hcfg', _, hasked⟩ := hown c hc
    rw [hcfg] at hcfg'
    simp only [Option.some.injEq, Prod.mk.injEq] at hcfg'
    obtain ⟨rfl, rfl⟩ := hcfg'
    obtain ⟨hxa, hxp⟩ := (hh c.1 c.2 ans hans x).mp hx
    obtain ⟨d, hd, hr, rfl⟩ := (hasked x).mp hxa
    obtain ⟨m', a', hcfg'', hpre, _⟩ := C19_route cfg d.name c.1 hr
    rw [hcfg] at hcfg''
    simp only [Option.some.injEq, Prod.mk.injEq] at hcfg''
    obtain ⟨rfl, rfl⟩ := hcfg''
    rw [unpatchDg_patchDg m a d hpre]
    exact ⟨hd, c.1, m, a, hr, hcfg, hxp⟩
  · rintro ⟨hy, b, m, a, hr, hcfg, hp⟩
    obtain ⟨c, hc, hrc⟩ := hcov y hy
    rw [hr] at hrc
    have hb : b = c.1 := Option.some.inj hrc
    subst hb
    obtain ⟨m', a', hcfg', _, hasked⟩ := hown c hc
    rw [hcfg] at hcfg'
    simp only [Option.some.injEq, Prod.mk.injEq] at hcfg'
    obtain ⟨rfl, rfl⟩ := hcfg'
    obtain ⟨m', a', hcfg'', hpre, _⟩ := C19_route cfg y.name c.1 hr
    rw [hcfg] at hcfg''
    simp only [Option.some.injEq, Prod.mk.injEq] at hcfg''
    obtain ⟨rfl, rfl⟩ := hcfg''
    -- the backend was asked and, if it succeeded, reported the patched digest
    have hasked_y : patchDg m a y ∈ c.2 := (hasked _).mpr ⟨y, hy, hr, rfl⟩
    -- all calls succeeded (the overall result is ok)
    obtain ⟨parts, hparts, _, _, _⟩ := demux_parts cfg order digests hall
    have hout : demuxFindMissing (cfgGetter cfg) fm order digests = callAll fm (arrange order parts) [] := by
      simp [demuxFindMissing, hparts]
    rw [hout] at hR hc
    obtain ⟨h1, h2, _⟩ := callAll_ok fm _ [] R hR
    rw [h1] at hc
    obtain ⟨p, hp', rfl⟩ := List.mem_map.mp hc
    obtain ⟨ans, hans⟩ := h2 p hp'
    refine ⟨callOf p, by rw [hout, h1]; exact List.mem_map.mpr ⟨p, hp', rfl⟩, m, a, ans, hcfg, hans,
      patchDg m a y, (hh _ _ ans hans _).mpr ⟨hasked_y, hp⟩, ?_⟩
    rw [unpatchDg_patchDg m a y hpre]

/-- `Get`, `Put`: sent to the backend of the longest matching prefix with the rewritten name;
unknown names are rejected without asking any backend. -/
theorem C19_demux_get (cfg : Cfg) (get : Nat → Dg → GetRes) (d : Dg) :
    match routeOf cfg d.name with
    | none => demuxGet (cfgGetter cfg) get d = (none, .err (unknownName d.name))
    | some b => ∃ m a, cfg[b]? = some (m, a) ∧ m <+: d.name ∧
        demuxGet (cfgGetter cfg) get d =
          (some (b, patchDg m a d), (get b (patchDg m a d)).wrap (backendPrefix m)) := by
  cases hl : routeOf cfg d.name with
  | none => simp [demuxGet, cfgGetter_none cfg d.name hl]
  | some b =>
    obtain ⟨m, a, hcfg, hg⟩ := cfgGetter_of_longest cfg d.name b hl
    obtain ⟨m', a', hcfg', hpre, _⟩ := C19_route cfg d.name b hl
    rw [hcfg] at hcfg'
    simp only [Option.some.injEq, Prod.mk.injEq] at hcfg'
    obtain ⟨rfl, rfl⟩ := hcfg'
    exact ⟨m, a, hcfg, hpre, by simp [demuxGet, hg]⟩

theorem C19_demux_put (cfg : Cfg) (put : Nat → Dg → Option Err) (d : Dg) :
    match routeOf cfg d.name with
    | none => demuxPut (cfgGetter cfg) put d = (none, some (unknownName d.name))
    | some b => ∃ m a, cfg[b]? = some (m, a) ∧ m <+: d.name ∧
        demuxPut (cfgGetter cfg) put d =
          (some (b, patchDg m a d), (put b (patchDg m a d)).map (wrapErr (backendPrefix m))) := by
  cases hl : routeOf cfg d.name with
  | none => simp [demuxPut, cfgGetter_none cfg d.name hl]
  | some b =>
    obtain ⟨m, a, hcfg, hg⟩ := cfgGetter_of_longest cfg d.name b hl
    obtain ⟨m', a', hcfg', hpre, _⟩ := C19_route cfg d.name b hl
    rw [hcfg] at hcfg'
    simp only [Option.some.injEq, Prod.mk.injEq] at hcfg'
    obtain ⟨rfl, rfl⟩ := hcfg'
    exact ⟨m, a, hcfg, hpre, by simp [demuxPut, hg]⟩

-- non-vacuity: prefixes `a` (stripped), `a/b` (rewritten to `x`) and the empty prefix (rewritten
-- to `z`); digests of four names spanning the three backends; `ab` goes to the empty prefix.
private def exCfg : Cfg := [([['a']], []), ([['a'], ['b']], [['x']]), ([], [['z']])]
private def exDigests : List Dg :=
  [⟨[['a'], ['b'], ['q']], 5⟩, ⟨[['a'], ['b']], 6⟩, ⟨[['a']], 7⟩, ⟨[['a', 'b']], 8⟩]
private def exPresent (b : Nat) (d : Dg) : Bool := b == 1 && d == ⟨[['x'], ['q']], 5⟩
private def exFm (b : Nat) : FM := fun asked => .ok (asked.filter fun d => !exPresent b d)
example : ∀ d ∈ exDigests, routeOf exCfg d.name ≠ none := by decide
example : exDigests.map (fun d => routeOf exCfg d.name) = [some 1, some 1, some 0, some 2] := by decide
example : (demuxFindMissing (cfgGetter exCfg) exFm [2, 0] exDigests).1 =
    [(2, [⟨[['z'], ['a', 'b']], 8⟩]), (0, [⟨[], 7⟩]), (1, [⟨[['x'], ['q']], 5⟩, ⟨[['x']], 6⟩])] := by decide
example : (demuxFindMissing (cfgGetter exCfg) exFm [2, 0] exDigests).2 =
    .ok [⟨[['a', 'b']], 8⟩, ⟨[['a']], 7⟩, ⟨[['a'], ['b']], 6⟩] := by rfl
example : ∀ b asked ans, exFm b asked = .ok ans → ∀ x, x ∈ ans ↔ x ∈ asked ∧ exPresent b x = false := by
  intro b asked ans h x
  simp only [exFm, Except.ok.injEq] at h
  subst h
  simp

/-! ## C19_hier_get_most_specific -/

/-- `Get` of the hierarchical decorator, for every backend behaviour and digest: there is an
ancestor-or-self name `x` such that every more specific ancestor-or-self name answered
NOT_FOUND, and the result is what the backend answered for `x` - the object, or an error other
than NOT_FOUND with its code unchanged (`outcome`); the search only stops above the root for
such an answer, so a final NOT_FOUND means that all names answered NOT_FOUND. The names tried
are exactly those at least as specific as `x`, most specific first. -/
theorem C19_hier_get_most_specific (get : Dg → GetRes) (d : Dg) :
    ∃ pre x suf, (withParents d).reverse = pre ++ x :: suf ∧
      x.hash = d.hash ∧ x.name <+: d.name ∧
      (hierGet get d).1 = pre ++ [x] ∧
      (hierGet get d).2 = outcome get x ∧
      (∀ y, y.hash = d.hash → y.name <+: d.name → x.name.length < y.name.length → nf get y = true) ∧
      (x.name ≠ [] → nf get x = false) := by
  have hne : (withParents d).reverse ≠ [] := by
    intro e
    have := congrArg List.length e
    simp [withParents_length] at this
  obtain ⟨pre, x, suf, h1, h2, h3, h4, h5⟩ := hierGetAux_spec get _ hne
  have hx : x ∈ withParents d := by
    have : x ∈ (withParents d).reverse := by rw [h1]; simp
    exact List.mem_reverse.mp this
  obtain ⟨hxh, hxp⟩ := (mem_withParents d x).mp hx
  -- in the reversed list names get shorter
  have hpw : ((withParents d).reverse).Pairwise (fun a b => b.name.length < a.name.length) := by
    rw [List.pairwise_reverse]
    exact withParents_pairwise d
  rw [h1] at hpw
  obtain ⟨hpw1, hpw2, hpw3⟩ := List.pairwise_append.mp hpw
  simp only [List.pairwise_cons] at hpw2
  refine ⟨pre, x, suf, h1, hxh, hxp, h2, h4, ?_, ?_⟩
  · intro y hyh hyp hlen
    have hy : y ∈ (withParents d).reverse :=
      List.mem_reverse.mpr ((mem_withParents d y).mpr ⟨hyh, hyp⟩)
    rw [h1] at hy
    rcases List.mem_append.mp hy with hy | hy
    · exact h3 y hy
    · rcases List.mem_cons.mp hy with rfl | hy
      · omega
      · have := hpw2.1 y hy
        omega
  · intro hxn
    apply h5
    intro hs
    subst hs
    -- the root digest is in the list and can only be x itself
    have hroot : ({ d with name := [] } : Dg) ∈ (withParents d).reverse :=
      List.mem_reverse.mpr ((mem_withParents d _).mpr ⟨rfl, List.nil_prefix⟩)
    rw [h1] at hroot
    rcases List.mem_append.mp hroot with hr | hr
    · have := hpw3 _ hr x (by simp)
      simp at this
    · simp only [List.mem_singleton] at hr
      rw [← hr] at hxn
      exact hxn rfl

/-- If `Get` returns an object, it is the object stored under the most specific ancestor name
that has it (all more specific names said NOT_FOUND). -/
theorem C19_hier_get_object (get : Dg → GetRes) (d : Dg) (p : Nat) (h : (hierGet get d).2 = .ok p) :
    ∃ x, x.hash = d.hash ∧ x.name <+: d.name ∧ get x = .ok p ∧
      ∀ y, y.hash = d.hash → y.name <+: d.name → x.name.length < y.name.length → nf get y = true := by
  obtain ⟨_, x, _, _, h1, h2, _, h4, h5, _⟩ := C19_hier_get_most_specific get d
  refine ⟨x, h1, h2, ?_, h5⟩
  rw [h4] at h
  unfold outcome at h
  cases hg : get x with
  | ok q => rw [hg] at h; simpa using h
  | err e =>
    rw [hg] at h
    by_cases hc : e.code = codeNotFound <;> simp [hc] at h

/-- Errors other than NOT_FOUND are returned as they are: same code, message prefixed with the
instance name they occurred at. -/
theorem C19_hier_get_error (get : Dg → GetRes) (d : Dg) (e : Err) (h : (hierGet get d).2 = .err e)
    (hc : e.code ≠ codeNotFound) :
    ∃ x e', x.hash = d.hash ∧ x.name <+: d.name ∧ get x = .err e' ∧ e'.code = e.code ∧
      e = wrapErr (instancePrefix x.name) e' ∧
      ∀ y, y.hash = d.hash → y.name <+: d.name → x.name.length < y.name.length → nf get y = true := by
  obtain ⟨_, x, _, _, h1, h2, _, h4, h5, _⟩ := C19_hier_get_most_specific get d
  rw [h4] at h
  unfold outcome at h
  cases hg : get x with
  | ok q => rw [hg] at h; simp at h
  | err e' =>
    rw [hg] at h
    by_cases hc' : e'.code = codeNotFound
    · simp only [hc', ↓reduceIte, GetRes.err.injEq] at h
      subst h
      exact absurd hc' hc
    · simp only [hc', ↓reduceIte, GetRes.err.injEq] at h
      subst h
      exact ⟨x, e', h1, h2, hg, rfl, rfl, h5⟩

-- non-vacuity: the object is stored under `a` and under the root; `a/b` fails with UNAVAILABLE
-- for hash 2.
private def exGet (d : Dg) : GetRes :=
  if d = ⟨[['a']], 1⟩ then .ok 10 else if d = ⟨[], 1⟩ then .ok 11
  else if d = ⟨[['a'], ['b']], 2⟩ then .err ⟨14, "down"⟩ else .err ⟨5, "not found"⟩
example : hierGet exGet ⟨[['a'], ['b'], ['c']], 1⟩ =
    ([⟨[['a'], ['b'], ['c']], 1⟩, ⟨[['a'], ['b']], 1⟩, ⟨[['a']], 1⟩], .ok 10) := by decide
example : (hierGet exGet ⟨[['a'], ['b'], ['c']], 2⟩).2 =
    .err ⟨14, "Instance name \"a/b\": down"⟩ := by decide
example : (hierGet exGet ⟨[['b']], 3⟩).2 = .err ⟨5, "not found"⟩ := by decide

/-! ## C19_hier_find_missing -/

/-- `FindMissing` of the hierarchical decorator with its in-place pruning loop: over a backend
whose successful answers are honest about a fixed content (calls may fail), a successful result
contains exactly the requested digests that are absent under their own instance name and under
every ancestor name. -/
theorem C19_hier_find_missing (fm : Nat → FM) (present : Dg → Bool) (hh : Honest fm present)
    (digests R : List Dg) (hr : (hierFindMissing fm digests).2 = .ok R) (d : Dg) :
    d ∈ R ↔ d ∈ digests ∧ ∀ a, a.hash = d.hash → a.name <+: d.name → present a = false := by
  rw [hierFindMissing_ok fm present hh digests R hr d]
  constructor
  · rintro ⟨h1, h2⟩
    exact ⟨h1, fun a ha hp => h2 a ((mem_withParents d a).mpr ⟨ha, hp⟩)⟩
  · rintro ⟨h1, h2⟩
    exact ⟨h1, fun a ha => h2 a ((mem_withParents d a).mp ha).1 ((mem_withParents d a).mp ha).2⟩

/-- An error is the unchanged error of one of the backend calls; without a failing call the
operation succeeds. -/
theorem C19_hier_find_missing_errors (fm : Nat → FM) (digests : List Dg) :
    (∀ e, (hierFindMissing fm digests).2 = .error e → ∃ k ask, fm k ask = .error e) ∧
    ((∀ k ask, ∃ m, fm k ask = .ok m) → ∃ R, (hierFindMissing fm digests).2 = .ok R) :=
  ⟨fun e h => hierFindMissing_error fm digests e h, fun h => hierFindMissing_total fm h digests⟩

/-- The pruning scan itself (one pass with swap-remove over the whole work list): exactly the
items whose direct parent is missing and that have further parents stay, one parent shorter;
exactly the items whose direct parent is missing and that have none left are reported. -/
theorem C19_hier_scan (miss : Dg → Bool) (w : List Item) (f : List Dg)
    (hne : ∀ it ∈ w, it.parents ≠ []) :
    (∀ it, it ∈ (scan miss w.length 0 w f).1 ↔ ∃ x ∈ w, keepOf miss x = some it) ∧
    (∀ d, d ∈ (scan miss w.length 0 w f).2 ↔ d ∈ f ∨ ∃ x ∈ w, finOf miss x = true ∧ d = x.orig) := by
  have := scan_spec miss w.length [] w f (Nat.le_refl _) hne
  simpa using this

-- non-vacuity: content under `a` (hash 1) and the root (hash 3); four digests.
private def exStore : List Dg := [⟨[['a']], 1⟩, ⟨[], 3⟩]
private def exHFm (_ : Nat) : FM := fun asked => .ok (asked.filter fun d => !(exStore.contains d))
example : Honest exHFm (fun d => exStore.contains d) := by
  intro k ask m h x
  simp only [exHFm, Except.ok.injEq] at h
  subst h
  simp
example : hierFindMissing exHFm [⟨[['a'], ['b'], ['c']], 1⟩, ⟨[['b']], 1⟩, ⟨[], 2⟩, ⟨[['a'], ['q']], 3⟩, ⟨[['a'], ['q']], 4⟩] =
    ([[⟨[['a'], ['b'], ['c']], 1⟩, ⟨[['b']], 1⟩, ⟨[], 2⟩, ⟨[['a'], ['q']], 3⟩, ⟨[['a'], ['q']], 4⟩],
      [⟨[['a'], ['b']], 1⟩, ⟨[], 1⟩, ⟨[['a']], 3⟩, ⟨[['a']], 4⟩],
      [⟨[['a']], 1⟩, ⟨[], 4⟩, ⟨[], 3⟩]],
     .ok [⟨[], 2⟩, ⟨[['b']], 1⟩, ⟨[['a'], ['q']], 4⟩]) := by rfl

end BB.C19
