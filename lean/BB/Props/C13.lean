import BB.Proofs.CompletenessInv
import BB.Proofs.CompletenessWire
/-!
# C13 - Completeness checking: an ActionResult is returned only if all it references exists

Property theorems (helper lemmas live in `BB/Proofs/Completeness*.lean`).  All statements are
about `BB.Completeness.getAR` - the model of `completenessCheckingBlobAccess.Get` - for *every*
configuration (batch size, maximum message size, tree size budget), every reply of the Action
Cache, every `ActionResult` (any number of output files and directories, absent and malformed
digests anywhere) and every CAS, where a CAS is an arbitrary function from (index of the call
within this request, argument) to a reply: any `FindMissing` answer or error, any served Tree
(any sequence of `Directory` / other / rejected top-level fields, any read error).  The
presence-oracle CAS with a fault script that the driver runs is one instance (`scriptCas`).

`(getAR cfg ac cas).1` is the list of CAS calls made with their replies, `.2` what the caller gets.
-/
namespace BB.C13
open BB.Completeness

/-- `d` occurred in a `FindMissing` batch of this request whose answer did not contain it. -/
def ReportedPresent (tr : List Call) (d : Dg) : Prop :=
  ∃ b ans, Call.fm b (.ok ans) ∈ tr ∧ d ∈ b ∧ d ∉ ans

theorem reportedPresent_of_checked {tr : List Call} {d : Dg} (h : Checked tr d) : ReportedPresent tr d := by
  obtain ⟨b, hb, hd⟩ := h
  exact ⟨b, [], hb, hd, by simp⟩

/-- The digests a `Directory` inside the Tree of output directory `od` references: its files,
and its child directories iff `od` carries a root directory digest. -/
def InDir (od : OutDir) (dir : Dir) (d : Dg) : Prop :=
  some (PD.good d) ∈ dir.files ∨ (od.root.isSome = true ∧ some (PD.good d) ∈ dir.dirs)

theorem inDir_iff (od : OutDir) (dir : Dir) (d : Dg) :
    InDir od dir d ↔ some (PD.good d) ∈ dirDigests od.root.isSome dir := by
  unfold InDir dirDigests
  cases od.root.isSome <;> simp

theorem getAR_result {cfg : Cfg} {ac : AcReply} {cas : Cas} (h : (getAR cfg ac cas).2 = .result) :
    ∃ ar s, ac = .ok ar ∧ ar.size ≤ cfg.maxMsg ∧ check cfg cas ar = (s, none) ∧ (getAR cfg ac cas).1 = s.trace := by
  unfold getAR at h ⊢
  match ac with
  | .err c => simp at h
  | .ok ar =>
    simp only at h ⊢
    split at h
    · simp at h
    · rename_i hsz
      rw [if_neg hsz]
      cases hc : check cfg cas ar with
      | mk s r =>
        rw [hc] at h
        cases r with
        | some c => simp at h
        | none => exact ⟨ar, s, rfl, Nat.le_of_not_lt hsz, hc, rfl⟩

theorem getAR_trace {cfg : Cfg} {ar : AR} {cas : Cas} (hsz : ar.size ≤ cfg.maxMsg) :
    (getAR cfg (.ok ar) cas).1 = (check cfg cas ar).1.trace ∧
    (getAR cfg (.ok ar) cas).2 = (match (check cfg cas ar).2 with | none => .result | some c => .error c) := by
  unfold getAR
  simp only
  rw [if_neg (Nat.not_lt.2 hsz)]
  cases hc : check cfg cas ar with
  | mk s r => cases r <;> simp

/-! ### Main theorem 1: a returned result was completely checked -/

/-- **C13_returned_implies_present.**  If the decorator returns the result then the Action Cache
returned an `ActionResult` `ar` and, in the trace of CAS calls of *this* request (entry `i` is
the reply to call number `i`):
* every well-formed top-level digest of `ar` - output files, tree digests, root directory digests,
  stdout, stderr - occurred in a `FindMissing` batch whose answer did not contain it;
* for every output directory the decorator fetched its Tree, the Tree as served was read to its
  end without error, contained no rejected field and no oversized `Directory`, and every digest
  of every `Directory` in it - files always, child directories iff the output directory has a
  root directory digest - occurred in a `FindMissing` batch whose answer did not contain it;
* every `FindMissing` of the request was answered with the empty set, and no batch held more than
  `max batchSize 1` digests (all distinct). -/
theorem C13_returned_implies_present (cfg : Cfg) (ac : AcReply) (cas : Cas)
    (h : (getAR cfg ac cas).2 = .result) :
    ∃ ar, ac = .ok ar ∧
      Faithful cas (getAR cfg ac cas).1 ∧
      (∀ d, some (PD.good d) ∈ topDigests ar → ReportedPresent (getAR cfg ac cas).1 d) ∧
      (∀ od, od ∈ ar.dirs → ∃ t blob, od.tree = some (.good t) ∧ Call.get t blob ∈ (getAR cfg ac cas).1 ∧
        Clean cfg blob ∧
        ∀ dir, Ev.dir dir ∈ blob.evs → ∀ d, InDir od dir d → ReportedPresent (getAR cfg ac cas).1 d) ∧
      (∀ b a, Call.fm b a ∈ (getAR cfg ac cas).1 → a = .ok [] ∧ b.length ≤ max cfg.batchSize 1 ∧ b.Nodup) := by
  obtain ⟨ar, s, hac, _, hc, htr⟩ := getAR_result h
  obtain ⟨hgood, _, htop, _, hdirs⟩ := check_ok hc
  have hinv := check_inv cfg cas ar
  rw [hc] at hinv
  rw [htr]
  refine ⟨ar, hac, hinv.faith, fun d hd => reportedPresent_of_checked (htop d hd), ?_, ?_⟩
  · intro od hod
    obtain ⟨t, blob, ht, hget, hclean, hdd⟩ := hdirs od hod
    refine ⟨t, blob, ht, hget, hclean, ?_⟩
    intro dir hdir d hd
    exact reportedPresent_of_checked ((hdd dir hdir).2.2 d ((inDir_iff od dir d).1 hd))
  · intro b a hm
    exact ⟨hgood _ hm, hinv.batches b a hm⟩

/-- Non-vacuity: a complete result with a nested Tree is returned, in three batches of two. -/
example :
    let t : Dg := ⟨7, 200⟩
    let blob : Blob := ⟨[.dir ⟨50, [some (.good ⟨4, 6⟩)], [some (.good ⟨5, 40⟩)]⟩, .skip, .dir ⟨0, [], []⟩], none⟩
    let ar : AR := ⟨100, [some (.good ⟨2, 10⟩), none], [⟨some (.good t), some (.good ⟨8, 130⟩)⟩], some (.good ⟨1, 4⟩), none⟩
    getAR ⟨2, 1000, 500⟩ (.ok ar) (scriptCas [] [(t, blob)] []) =
      ([.fm [⟨2, 10⟩, t] (.ok []), .get t blob, .fm [⟨8, 130⟩, ⟨1, 4⟩] (.ok []), .fm [⟨4, 6⟩, ⟨5, 40⟩] (.ok [])], .result) := by
  decide

/-- The trace is the trace of this request and batches are bounded, whatever the outcome. -/
theorem C13_batches_bounded (cfg : Cfg) (ac : AcReply) (cas : Cas) :
    Faithful cas (getAR cfg ac cas).1 ∧
    ∀ b a, Call.fm b a ∈ (getAR cfg ac cas).1 → b.length ≤ max cfg.batchSize 1 ∧ b.Nodup := by
  have hnil : Faithful cas [] ∧ ∀ b a, Call.fm b a ∈ ([] : List Call) → b.length ≤ max cfg.batchSize 1 ∧ b.Nodup :=
    ⟨by intro i c h; simp at h, by intro b a h; simp at h⟩
  match ac with
  | .err c => simpa [getAR] using hnil
  | .ok ar =>
    by_cases hsz : ar.size ≤ cfg.maxMsg
    · rw [(getAR_trace (cas := cas) hsz).1]
      have hinv := check_inv cfg cas ar
      exact ⟨hinv.faith, hinv.batches⟩
    · simpa [getAR, Nat.not_le.1 hsz] using hnil

/-! ### The specification-level reference relation -/

/-- `d` is referenced by `ar`, where `content t` lists the directories of the Tree with digest
`t`: a top-level digest, or a digest inside a Tree of an output directory (files always, child
directories iff the output directory has a root directory digest). -/
inductive Referenced (content : Dg → List Dir) (ar : AR) (d : Dg) : Prop
  | top (h : some (PD.good d) ∈ topDigests ar)
  | inTree (od : OutDir) (t : Dg) (dir : Dir) (hod : od ∈ ar.dirs) (ht : od.tree = some (.good t))
      (hdir : dir ∈ content t) (hd : InDir od dir d)

/-- The CAS is content addressed: whenever it serves the Tree `t` cleanly, every directory of
`content t` is in what it served. -/
def Honest (cfg : Cfg) (cas : Cas) (content : Dg → List Dir) : Prop :=
  ∀ i t, Clean cfg (cas.get i t) → ∀ dir, dir ∈ content t → Ev.dir dir ∈ (cas.get i t).evs

/-- `FindMissing` never claims that a member of `missing` is present. -/
def Truthful (cas : Cas) (missing : Dg → Prop) : Prop :=
  ∀ i b ans, cas.findMissing i b = .ok ans → ∀ d, d ∈ b → missing d → d ∈ ans

theorem mem_faithful {cas : Cas} {tr : List Call} (hf : Faithful cas tr) {c : Call} (hc : c ∈ tr) :
    ∃ i, CallAt cas i c := by
  obtain ⟨i, hi⟩ := List.mem_iff_getElem?.1 hc
  exact ⟨i, hf i c hi⟩

/-- With a content-addressed CAS: every referenced digest of a returned result was reported
present during the request. -/
theorem C13_returned_implies_present_spec (cfg : Cfg) (ar : AR) (cas : Cas) (content : Dg → List Dir)
    (hh : Honest cfg cas content) (h : (getAR cfg (.ok ar) cas).2 = .result) :
    ∀ d, Referenced content ar d → ReportedPresent (getAR cfg (.ok ar) cas).1 d := by
  obtain ⟨ar', hac, hfaith, htop, hdirs, _⟩ := C13_returned_implies_present cfg (.ok ar) cas h
  simp only [AcReply.ok.injEq] at hac
  subst hac
  intro d hd
  cases hd with
  | top h => exact htop d h
  | inTree od t dir hod ht hdir hd =>
    obtain ⟨t', blob, ht', hget, hclean, hall⟩ := hdirs od hod
    rw [ht] at ht'
    simp only [Option.some.injEq, PD.good.injEq] at ht'
    subst ht'
    obtain ⟨i, hi⟩ := mem_faithful hfaith hget
    simp only [CallAt] at hi
    subst hi
    exact hall dir (hh i t hclean dir hdir) d hd

/-! ### Main theorem 2: something missing gives NOT_FOUND, never the result -/

/-- A referenced object that is missing (and a CAS that does not lie about it): never the result,
whatever else happens (faults, corrupted Trees, ...). -/
theorem C13_missing_never_result (cfg : Cfg) (ar : AR) (cas : Cas) (content : Dg → List Dir)
    (missing : Dg → Prop) (hh : Honest cfg cas content) (ht : Truthful cas missing)
    (d : Dg) (hd : Referenced content ar d) (hm : missing d) :
    (getAR cfg (.ok ar) cas).2 ≠ .result := by
  intro h
  obtain ⟨b, ans, hb, hdb, hda⟩ := C13_returned_implies_present_spec cfg ar cas content hh h d hd
  obtain ⟨i, hi⟩ := mem_faithful (C13_batches_bounded cfg (.ok ar) cas).1 hb
  simp only [CallAt] at hi
  exact hda (ht i b ans hi.symm d hdb hm)

/-- **C13_missing_gives_not_found.**  When the CAS and the Trees it serves can fail with
NOT_FOUND only (no injected faults, no corruption; a missing Tree may be NOT_FOUND on `Get`),
the message fits the maximum size, and some referenced object is missing, the caller receives
exactly NOT_FOUND - whatever else is wrong with the result (malformed digests, Trees over the
budget, further missing objects). -/
theorem C13_missing_gives_not_found (cfg : Cfg) (ar : AR) (cas : Cas) (content : Dg → List Dir)
    (missing : Dg → Prop) (hh : Honest cfg cas content) (ht : Truthful cas missing) (hn : OnlyNF cfg cas)
    (hsz : ar.size ≤ cfg.maxMsg) (d : Dg) (hd : Referenced content ar d) (hm : missing d) :
    (getAR cfg (.ok ar) cas).2 = .error notFound := by
  have hne := C13_missing_never_result cfg ar cas content missing hh ht d hd hm
  rw [(getAR_trace (cas := cas) hsz).2] at hne ⊢
  cases hc : check cfg cas ar with
  | mk s r =>
    rw [hc] at hne
    cases r with
    | none => exact absurd rfl hne
    | some c => simp only; rw [check_nf hn hc]

/-- Non-vacuity: a file inside a Tree is missing; the request ends with NOT_FOUND after the batch
that contained it. -/
example :
    let t : Dg := ⟨7, 200⟩
    let blob : Blob := ⟨[.dir ⟨50, [some (.good ⟨4, 6⟩)], [some (.good ⟨5, 40⟩)]⟩], none⟩
    let ar : AR := ⟨100, [some (.good ⟨2, 10⟩)], [⟨some (.good t), none⟩], none, none⟩
    (getAR ⟨2, 1000, 500⟩ (.ok ar) (scriptCas [⟨4, 6⟩] [(t, blob)] [])).2 = .error notFound := by
  decide

/-! ### Main theorem 3: bad input never gives the result -/

/-- Everything the property calls bad input, stated on the inputs (and, for failures of the
collaborators, on the calls of this request). -/
inductive BadInput (cfg : Cfg) (cas : Cas) : AcReply → Prop
  /-- the Action Cache failed -/
  | acError (c : Code) : BadInput cfg cas (.err c)
  /-- the message exceeds the maximum message size -/
  | tooLarge (ar : AR) (h : cfg.maxMsg < ar.size) : BadInput cfg cas (.ok ar)
  /-- a malformed digest among output files, tree digests, root directory digests, stdout, stderr -/
  | malformedDigest (ar : AR) (h : some PD.bad ∈ topDigests ar) : BadInput cfg cas (.ok ar)
  /-- an output directory without a tree digest -/
  | noTreeDigest (ar : AR) (od : OutDir) (hod : od ∈ ar.dirs) (h : od.tree = none) : BadInput cfg cas (.ok ar)
  /-- the declared Tree sizes exceed the configured total -/
  | overBudget (ar : AR) (h : cfg.budget < (ar.dirs.map treeSize).sum) : BadInput cfg cas (.ok ar)
  /-- a `FindMissing` call of this request failed -/
  | findMissingFailed (ar : AR) (b : List Dg) (c : Code) (h : Call.fm b (.err c) ∈ (getAR cfg (.ok ar) cas).1) :
      BadInput cfg cas (.ok ar)
  /-- a Tree fetched during this request was unreadable (CAS error), corrupted (read error), held a
  field the parser rejects (truncation, garbage), or a `Directory` above the maximum message size -/
  | treeUnclean (ar : AR) (t : Dg) (blob : Blob) (h : Call.get t blob ∈ (getAR cfg (.ok ar) cas).1)
      (hbad : ¬ Clean cfg blob) : BadInput cfg cas (.ok ar)
  /-- a `Directory` that the CAS serves whenever it serves the Tree cleanly holds a malformed digest
  (among its files, or among its child directories when the root directory digest is set) -/
  | malformedInTree (ar : AR) (od : OutDir) (t : Dg) (dir : Dir) (hod : od ∈ ar.dirs) (ht : od.tree = some (.good t))
      (hserved : ∀ i, Clean cfg (cas.get i t) → Ev.dir dir ∈ (cas.get i t).evs)
      (h : some PD.bad ∈ dirDigests od.root.isSome dir) : BadInput cfg cas (.ok ar)

/-- **C13_bad_input_never_result.**  Bad input of any of the kinds above yields an error, never
the result. -/
theorem C13_bad_input_never_result (cfg : Cfg) (ac : AcReply) (cas : Cas) (hbad : BadInput cfg cas ac) :
    ∃ c, (getAR cfg ac cas).2 = .error c := by
  cases hres : (getAR cfg ac cas).2 with
  | error c => exact ⟨c, rfl⟩
  | result =>
    exfalso
    obtain ⟨ar, s, hac, hsz, hc, htr⟩ := getAR_result hres
    obtain ⟨hgood, hnb, _, hsum, hdirs⟩ := check_ok hc
    have hinv := check_inv cfg cas ar
    rw [hc] at hinv
    cases hbad with
    | acError c => simp at hac
    | tooLarge ar' h =>
      simp only [AcReply.ok.injEq] at hac; subst hac; omega
    | malformedDigest ar' h =>
      simp only [AcReply.ok.injEq] at hac; subst hac; exact hnb h
    | noTreeDigest ar' od hod h =>
      simp only [AcReply.ok.injEq] at hac; subst hac
      obtain ⟨t, _, ht, _⟩ := hdirs od hod
      rw [h] at ht; simp at ht
    | overBudget ar' h =>
      simp only [AcReply.ok.injEq] at hac; subst hac; omega
    | findMissingFailed ar' b c h =>
      rw [htr] at h
      have := hgood _ h
      simp [GoodCall] at this
    | treeUnclean ar' t blob h hb =>
      rw [htr] at h
      exact hb (hgood _ h)
    | malformedInTree ar' od t dir hod ht hserved h =>
      simp only [AcReply.ok.injEq] at hac; subst hac
      obtain ⟨t', blob, ht', hget, hclean, hdd⟩ := hdirs od hod
      rw [ht] at ht'
      simp only [Option.some.injEq, PD.good.injEq] at ht'
      subst ht'
      obtain ⟨i, hi⟩ := mem_faithful hinv.faith hget
      simp only [CallAt] at hi
      subst hi
      exact (hdd dir (hserved i hclean)).2.1 h

/-- The kinds of failure keep their code where the decorator does not translate them: a failing
`FindMissing` gives its own code (here 14, UNAVAILABLE, injected at call number 1). -/
example :
    let ar : AR := ⟨100, [some (.good ⟨2, 10⟩), some (.good ⟨3, 9⟩), some (.good ⟨4, 1⟩)], [], none, none⟩
    getAR ⟨2, 1000, 500⟩ (.ok ar) (scriptCas [] [] [(1, 14)]) =
      ([.fm [⟨2, 10⟩, ⟨3, 9⟩] (.ok []), .fm [⟨4, 1⟩] (.err 14)], .error 14) := by
  decide

/-- Non-vacuity of the bad-input kinds: a truncated Tree (`malformed` after the first directory)
with a read error; the read error (13) is preferred over INVALID_ARGUMENT. -/
example :
    let t : Dg := ⟨7, 200⟩
    let blob : Blob := ⟨[.dir ⟨50, [some (.good ⟨4, 6⟩)], []⟩, .malformed], some 13⟩
    let ar : AR := ⟨100, [], [⟨some (.good t), none⟩], none, none⟩
    (getAR ⟨1, 1000, 500⟩ (.ok ar) (scriptCas [] [(t, blob)] [])).2 = .error 13 ∧
    BadInput ⟨1, 1000, 500⟩ (scriptCas [] [(t, blob)] []) (.ok ar) := by
  refine ⟨by decide, ?_⟩
  refine BadInput.treeUnclean _ ⟨7, 200⟩ ⟨[.dir ⟨50, [some (.good ⟨4, 6⟩)], []⟩, .malformed], some 13⟩ (by decide) ?_
  intro h
  exact absurd h.1 (by decide)

/-! ### The second read entry point: `GetFromComposite` -/

/-- **C13_composite_is_checked_get.**  A composite read is the checked `Get` followed by slicing:
it makes exactly the CAS calls of `Get`; it hands out something only if `Get` returned the
result (and the slicer succeeded); every error of `Get` is what the caller receives. -/
theorem C13_composite_is_checked_get (cfg : Cfg) (ac : AcReply) (cas : Cas) (sliceErr : Option Code) :
    (getFromComposite cfg ac cas sliceErr).1 = (getAR cfg ac cas).1 ∧
    ((getFromComposite cfg ac cas sliceErr).2 = .result → (getAR cfg ac cas).2 = .result ∧ sliceErr = none) ∧
    (∀ c, (getAR cfg ac cas).2 = .error c → (getFromComposite cfg ac cas sliceErr).2 = .error c) ∧
    ((getAR cfg ac cas).2 = .result → sliceErr = none → (getFromComposite cfg ac cas sliceErr).2 = .result) := by
  unfold getFromComposite
  cases h : getAR cfg ac cas with
  | mk tr out =>
    cases out with
    | result => cases sliceErr <;> simp
    | error c => simp

/-- Whatever is handed out through `GetFromComposite` was completely checked, exactly as for `Get`. -/
theorem C13_composite_returned_implies_present (cfg : Cfg) (ac : AcReply) (cas : Cas) (sliceErr : Option Code)
    (h : (getFromComposite cfg ac cas sliceErr).2 = .result) :
    ∃ ar, ac = .ok ar ∧
      Faithful cas (getFromComposite cfg ac cas sliceErr).1 ∧
      (∀ d, some (PD.good d) ∈ topDigests ar → ReportedPresent (getFromComposite cfg ac cas sliceErr).1 d) ∧
      (∀ od, od ∈ ar.dirs → ∃ t blob, od.tree = some (.good t) ∧
        Call.get t blob ∈ (getFromComposite cfg ac cas sliceErr).1 ∧ Clean cfg blob ∧
        ∀ dir, Ev.dir dir ∈ blob.evs → ∀ d, InDir od dir d →
          ReportedPresent (getFromComposite cfg ac cas sliceErr).1 d) ∧
      (∀ b a, Call.fm b a ∈ (getFromComposite cfg ac cas sliceErr).1 →
        a = .ok [] ∧ b.length ≤ max cfg.batchSize 1 ∧ b.Nodup) := by
  obtain ⟨htr, hres, _, _⟩ := C13_composite_is_checked_get cfg ac cas sliceErr
  rw [htr]
  exact C13_returned_implies_present cfg ac cas (hres h).1

/-- A missing referenced object gives NOT_FOUND through `GetFromComposite` too (same hypotheses as
`C13_missing_gives_not_found`), whatever the slicer would have done. -/
theorem C13_composite_missing_gives_not_found (cfg : Cfg) (ar : AR) (cas : Cas) (content : Dg → List Dir)
    (missing : Dg → Prop) (hh : Honest cfg cas content) (ht : Truthful cas missing) (hn : OnlyNF cfg cas)
    (hsz : ar.size ≤ cfg.maxMsg) (d : Dg) (hd : Referenced content ar d) (hm : missing d) (sliceErr : Option Code) :
    (getFromComposite cfg (.ok ar) cas sliceErr).2 = .error notFound :=
  (C13_composite_is_checked_get cfg (.ok ar) cas sliceErr).2.2.1 _
    (C13_missing_gives_not_found cfg ar cas content missing hh ht hn hsz d hd hm)

/-- Bad input never yields anything through `GetFromComposite` either. -/
theorem C13_composite_bad_input_never_result (cfg : Cfg) (ac : AcReply) (cas : Cas) (sliceErr : Option Code)
    (hbad : BadInput cfg cas ac) : ∃ c, (getFromComposite cfg ac cas sliceErr).2 = .error c := by
  obtain ⟨c, hc⟩ := C13_bad_input_never_result cfg ac cas hbad
  exact ⟨c, (C13_composite_is_checked_get cfg ac cas sliceErr).2.2.1 c hc⟩

/-- Non-vacuity: a complete result is handed to the slicer; with a file missing the composite read
is NOT_FOUND after the same CAS calls as `Get`. -/
example :
    let ar : AR := ⟨100, [some (.good ⟨2, 10⟩), some (.good ⟨3, 9⟩)], [], none, none⟩
    getFromComposite ⟨2, 1000, 500⟩ (.ok ar) (scriptCas [] [] []) none = ([.fm [⟨2, 10⟩, ⟨3, 9⟩] (.ok [])], .result) ∧
    getFromComposite ⟨2, 1000, 500⟩ (.ok ar) (scriptCas [] [] []) (some 3) = ([.fm [⟨2, 10⟩, ⟨3, 9⟩] (.ok [])], .error 3) ∧
    getFromComposite ⟨2, 1000, 500⟩ (.ok ar) (scriptCas [⟨3, 9⟩] [] []) none =
      ([.fm [⟨2, 10⟩, ⟨3, 9⟩] (.ok [⟨3, 9⟩])], .error notFound) := by
  decide

/-! ### The message handed out is the message that was checked -/

/-- **C13_returned_is_checked.**  Against an Action Cache whose answer may change between reads
(`acs i` = reply to read `i` of this request): the Action Cache is read exactly once; a message is
handed out (to the caller, or to the slicer of `GetFromComposite`) exactly when the outcome is the
result (resp. the slicer's outcome on a result); and that message is the reply to that single
read, the very message the completeness check of this request accepted - the CAS calls of the
request are the calls of checking it. -/
theorem C13_returned_is_checked (cfg : Cfg) (acs : Nat → AcReply) (cas : Cas) (composite : Option (Option Code)) :
    (serve cfg acs cas composite).acReads = 1 ∧
    ((serve cfg acs cas composite).outcome = .result → ∃ m, (serve cfg acs cas composite).message = some m) ∧
    ∀ m, (serve cfg acs cas composite).message = some m →
      acs 0 = .ok m ∧ (getAR cfg (.ok m) cas).2 = .result ∧
      (serve cfg acs cas composite).calls = (getAR cfg (.ok m) cas).1 := by
  refine ⟨rfl, ?_, ?_⟩
  · intro h
    have hr : (getAR cfg (acs 0) cas).2 = .result := by
      cases composite with
      | none => exact h
      | some e => exact ((C13_composite_is_checked_get cfg (acs 0) cas e).2.1 h).1
    obtain ⟨ar, _, hac, _⟩ := getAR_result hr
    refine ⟨ar, ?_⟩
    simp only [serve]
    simp only [serve] at h
    rw [h, hac]
  · intro m hm
    simp only [serve] at hm ⊢
    cases hac : acs 0 with
    | err c =>
      rw [hac] at hm
      split at hm <;> simp_all
    | ok ar =>
      rw [hac] at hm
      split at hm
      · rename_i ar' hout heq
        simp only [AcReply.ok.injEq] at heq
        subst heq
        simp only [Option.some.injEq] at hm
        subst hm
        cases composite with
        | none => exact ⟨rfl, hout, rfl⟩
        | some e =>
          obtain ⟨htr, hres, _, _⟩ := C13_composite_is_checked_get cfg (.ok ar) cas e
          exact ⟨rfl, (hres hout).1, htr⟩
      · simp at hm

/-- Consequently whatever is handed out - whatever later reads of the Action Cache would return -
satisfies the full conclusion of `C13_returned_implies_present` for *that* message. -/
theorem C13_received_message_complete (cfg : Cfg) (acs : Nat → AcReply) (cas : Cas) (composite : Option (Option Code))
    (m : AR) (hm : (serve cfg acs cas composite).message = some m) :
    (∀ d, some (PD.good d) ∈ topDigests m → ReportedPresent (serve cfg acs cas composite).calls d) ∧
    (∀ od, od ∈ m.dirs → ∃ t blob, od.tree = some (.good t) ∧ Call.get t blob ∈ (serve cfg acs cas composite).calls ∧
      Clean cfg blob ∧
      ∀ dir, Ev.dir dir ∈ blob.evs → ∀ d, InDir od dir d → ReportedPresent (serve cfg acs cas composite).calls d) := by
  obtain ⟨_, _, h⟩ := C13_returned_is_checked cfg acs cas composite
  obtain ⟨_, hres, hcalls⟩ := h m hm
  obtain ⟨ar, hac, _, htop, hdirs, _⟩ := C13_returned_implies_present cfg (.ok m) cas hres
  simp only [AcReply.ok.injEq] at hac
  subst hac
  rw [hcalls]
  exact ⟨htop, hdirs⟩

/-- Non-vacuity: the entry is overwritten (a further, missing output file) after the first read;
the caller still receives the first, checked message and the Action Cache was read once. -/
example :
    let ar : AR := ⟨100, [some (.good ⟨2, 10⟩)], [], none, none⟩
    let ar' : AR := ⟨140, [some (.good ⟨2, 10⟩), some (.good ⟨9, 1⟩)], [], none, none⟩
    let r := serve ⟨2, 1000, 500⟩ (fun i => if i = 0 then .ok ar else .ok ar') (scriptCas [⟨9, 1⟩] [] []) none
    r.outcome = .result ∧ r.acReads = 1 ∧ r.message = some ar := by
  decide

/-! ### The scripted CAS of the driver satisfies the hypotheses used above -/

theorem scriptCas_truthful (missing : List Dg) (blobs : List (Dg × Blob)) (faults : List (Nat × Code)) :
    Truthful (scriptCas missing blobs faults) (· ∈ missing) := by
  intro i b ans h d hd hm
  simp only [scriptCas] at h
  split at h
  · simp at h
  · simp only [Ans.ok.injEq] at h
    subst h
    simp [hd, hm]

/-- The directories of the Tree registered for digest `t` in the blob table. -/
def contentOf (blobs : List (Dg × Blob)) (t : Dg) : List Dir :=
  match blobs.lookup t with
  | some b => b.evs.filterMap fun e => match e with
    | .dir d => some d
    | _ => none
  | none => []

theorem scriptCas_honest (cfg : Cfg) (missing : List Dg) (blobs : List (Dg × Blob)) (faults : List (Nat × Code)) :
    Honest cfg (scriptCas missing blobs faults) (contentOf blobs) := by
  intro i t hclean dir hdir
  simp only [scriptCas] at hclean ⊢
  cases hf : faults.lookup i with
  | some c => rw [hf] at hclean; exact absurd hclean.1 (by simp)
  | none =>
    simp only [hf] at hclean ⊢
    unfold contentOf at hdir
    cases hb : blobs.lookup t with
    | none => rw [hb] at hclean; exact absurd hclean.1 (by simp)
    | some b =>
      simp only [hb] at hdir ⊢
      obtain ⟨e, he, hed⟩ := List.mem_filterMap.1 hdir
      cases e with
      | dir d' => simp only [Option.some.injEq] at hed; subst hed; exact he
      | skip => simp at hed
      | malformed => simp at hed

/-- Without faults, and with a blob table of intact Trees (a read error, if any, is NOT_FOUND), the
scripted CAS fails with NOT_FOUND only. -/
theorem scriptCas_onlyNF (cfg : Cfg) (missing : List Dg) (blobs : List (Dg × Blob))
    (hb : ∀ t b, (t, b) ∈ blobs → (b.readErr = none ∨ b.readErr = some notFound) ∧ Ev.malformed ∉ b.evs ∧
      ∀ d, Ev.dir d ∈ b.evs → d.size ≤ cfg.maxMsg) :
    OnlyNF cfg (scriptCas missing blobs []) := by
  have hget : ∀ i t, (scriptCas missing blobs []).get i t = ⟨[], some notFound⟩ ∨
      ∃ b, (t, b) ∈ blobs ∧ (scriptCas missing blobs []).get i t = b := by
    intro i t
    simp only [scriptCas, List.lookup_nil]
    cases hl : blobs.lookup t with
    | none => exact Or.inl rfl
    | some b =>
      refine Or.inr ⟨b, ?_, rfl⟩
      clear hb
      induction blobs with
      | nil => simp at hl
      | cons p ps ih =>
        obtain ⟨k, v⟩ := p
        simp only [List.lookup_cons] at hl
        split at hl
        · rename_i heq
          simp only [Option.some.injEq] at hl
          have : t = k := by simpa using heq
          subst this; subst hl
          exact List.mem_cons_self ..
        · exact List.mem_cons_of_mem _ (ih hl)
  refine ⟨?_, ?_, ?_, ?_⟩
  · intro i b c h
    simp [scriptCas] at h
  · intro i t c h
    rcases hget i t with he | ⟨b, hm, he⟩
    · rw [he] at h; simp only [Option.some.injEq] at h; exact h.symm
    · rw [he] at h
      rcases (hb t b hm).1 with h0 | h0
      · rw [h0] at h; simp at h
      · rw [h0] at h; simp only [Option.some.injEq] at h; exact h.symm
  · intro i t
    rcases hget i t with he | ⟨b, hm, he⟩
    · rw [he]; simp
    · rw [he]; exact (hb t b hm).2.1
  · intro i t d hd
    rcases hget i t with he | ⟨b, hm, he⟩
    · rw [he] at hd; simp at hd
    · rw [he] at hd; exact (hb t b hm).2.2 d hd

/-- `C13_missing_gives_not_found` for the CAS the driver executes: presence oracle, intact Trees,
no faults. -/
theorem C13_script_missing_gives_not_found (cfg : Cfg) (ar : AR) (missing : List Dg) (blobs : List (Dg × Blob))
    (hb : ∀ t b, (t, b) ∈ blobs → (b.readErr = none ∨ b.readErr = some notFound) ∧ Ev.malformed ∉ b.evs ∧
      ∀ d, Ev.dir d ∈ b.evs → d.size ≤ cfg.maxMsg)
    (hsz : ar.size ≤ cfg.maxMsg) (d : Dg) (hd : Referenced (contentOf blobs) ar d) (hm : d ∈ missing) :
    (getAR cfg (.ok ar) (scriptCas missing blobs [])).2 = .error notFound :=
  C13_missing_gives_not_found cfg ar _ (contentOf blobs) (· ∈ missing) (scriptCas_honest cfg missing blobs [])
    (scriptCas_truthful missing blobs []) (scriptCas_onlyNF cfg missing blobs hb) hsz d hd hm

/-- The hypotheses are satisfiable: a directory digest inside a Tree (root directory digest set) is
the missing one. -/
example :
    let t : Dg := ⟨7, 200⟩
    let blob : Blob := ⟨[.dir ⟨50, [some (.good ⟨4, 6⟩)], [some (.good ⟨5, 40⟩)]⟩], none⟩
    let ar : AR := ⟨100, [some (.good ⟨2, 10⟩), some .bad], [⟨some (.good t), some (.good ⟨8, 1⟩)⟩], none, none⟩
    (getAR ⟨2, 1000, 500⟩ (.ok ar) (scriptCas [⟨5, 40⟩] [(t, blob)] [])).2 = .error notFound := by
  intro t blob ar
  refine C13_script_missing_gives_not_found _ ar _ _ ?_ (by decide) ⟨5, 40⟩ ?_ (by decide)
  · intro t' b hm
    simp only [List.mem_singleton, Prod.mk.injEq] at hm
    obtain ⟨_, rfl⟩ := hm
    refine ⟨Or.inl rfl, by decide, ?_⟩
    intro d hd
    simp only [blob, List.mem_singleton, Ev.dir.injEq] at hd
    subst hd
    decide
  · exact Referenced.inTree ⟨some (.good t), some (.good ⟨8, 1⟩)⟩ t ⟨50, [some (.good ⟨4, 6⟩)], [some (.good ⟨5, 40⟩)]⟩
      (by decide) rfl (by decide) (Or.inr ⟨rfl, by decide⟩)

/-! ### The wire-level visitor (`util.VisitProtoBytesFields`) -/

open BB.Completeness.Wire in
/-- **C13_visit_fields**, well-formed direction: on the concatenation of well-formed
length-delimited fields (any field numbers from 1 to 2^31-1, canonical varints, total length
below 2^63) the visitor is called for exactly those fields, in order, with the right payload
offset and size, and the result is success. -/
theorem C13_visit_fields (fs : List (Nat × List Nat)) (hwf : ∀ f, f ∈ fs → 1 ≤ f.1 ∧ f.1 ≤ maxInt32)
    (hlen : (encode fs).length ≤ maxInt64) :
    visit (encode fs) = (layout 0 fs, true) := visit_encode fs hwf hlen

open BB.Completeness.Wire in
/-- Non-vacuity: two fields (numbers 1 and 300, the second with a two-byte tag and empty payload). -/
example : visit (encode [(1, [1, 2]), (300, [])]) = ([⟨1, 2, 2⟩, ⟨300, 7, 0⟩], true) := by
  have h := C13_visit_fields [(1, [1, 2]), (300, [])]
    (by intro f hf; simp at hf; rcases hf with rfl | rfl <;> decide)
    (by simp [encode, encodeField, encodeVarint, maxInt64])
  rw [h]
  simp [layout, hdrLen, encodeVarint]

open BB.Completeness.Wire in
/-- **C13_visit_fields**, converse: success means the input *is* a sequence of length-delimited
fields (header = tag varint with wire type 2 and a field number in range, then a length varint,
then exactly that many payload bytes) that tile it completely; anything else is an error. -/
theorem C13_visit_ok_tiles (bs : List Nat) (fields : List Field) (h : visit bs = (fields, true)) :
    Tiles 0 bs fields := visit_ok_tiles bs fields h

open BB.Completeness.Wire in
/-- The model on concrete bytes: a well-formed message, a payload shorter than announced (the
visitor is still called for the field), a field of wire type 0. -/
example : visit [0x0a, 0x02, 1, 2, 0x12, 0x00] = ([⟨1, 2, 2⟩, ⟨2, 6, 0⟩], true) ∧
    visit [0x0a, 0x02, 1] = ([⟨1, 2, 2⟩], false) ∧ visit [0x08, 0x01] = ([], false) := by decide

end BB.C13
