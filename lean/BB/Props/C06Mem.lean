import BB.Gen.MemRecord

/-! C06, in-memory record array: offsets and sizes survive the conversions that `inMemoryLocationRecordArray.Put`
and `Get` apply (regenerated from the source on every run as `BB.Gen.MemRecord`). The index model stores them as
unbounded integers; this is what licenses that for the in-memory backend. -/

namespace BB.C06
open BB.Gen.MemRecord

theorem conv_id_of_fits (bits : Nat) (signed : Bool) (v : Int) (h0 : 0 ≤ v)
    (h1 : v < 2 ^ (bits - 1)) (hb : 0 < bits) : conv bits signed v = v := by
  have hp : (2 : Int) ^ bits = 2 * 2 ^ (bits - 1) := by
    have : bits = (bits - 1) + 1 := by omega
    conv => lhs; rw [this]
    rw [Int.pow_succ]; omega
  unfold conv
  cases signed
  · simp only [Bool.false_eq_true, ↓reduceIte]
    apply Int.emod_eq_of_lt h0; omega
  · simp only [↓reduceIte]
    rw [Int.bmod_def]
    have hc : ((2 ^ bits : Nat) : Int) = (2 : Int) ^ bits := by simp
    rw [hc]
    have hm : v % (2 : Int) ^ bits = v := Int.emod_eq_of_lt h0 (by omega)
    rw [hm, hp]
    have : (2 * (2:Int) ^ (bits - 1) + 1) / 2 = 2 ^ (bits - 1) := by omega
    rw [this]; simp [h1]

/-- Every offset a location can carry (a non-negative `int64`) is returned unchanged by the in-memory record array. -/
theorem mem_record_offset_lossless (v : Int) (h0 : 0 ≤ v) (h1 : v < 2 ^ 63) :
    loadOffset (storeOffset v) = v := by
  unfold loadOffset storeOffset
  repeat (rw [conv_id_of_fits _ _ v h0 (by first | exact h1 | (apply Int.lt_of_lt_of_le h1; decide)) (by decide)])

/-- The same for sizes. -/
theorem mem_record_size_lossless (v : Int) (h0 : 0 ≤ v) (h1 : v < 2 ^ 63) :
    loadSize (storeSize v) = v := by
  unfold loadSize storeSize
  repeat (rw [conv_id_of_fits _ _ v h0 (by first | exact h1 | (apply Int.lt_of_lt_of_le h1; decide)) (by decide)])

/-- Non-vacuity: an offset beyond 32 bits. -/
example : loadOffset (storeOffset (2 ^ 32 + 5)) = 2 ^ 32 + 5 := by decide

end BB.C06
