/-
Hand-written meaning of the few Go built-ins the translator emits calls to
(trusted: these definitions are the Lean reading of the Go specification).

* `x << n`, `x >> n` on unsigned integers: the result is 0 once `n` reaches
  the width (Lean's `<<<` on `UIntN` reduces the count modulo the width, so it
  cannot be used directly).
* `bits.Len64 x`: the minimum number of bits required to represent `x`;
  0 for `x = 0`.
-/
namespace BB.Go

def shl64 (x : UInt64) (n : Nat) : UInt64 := if n < 64 then x <<< n.toUInt64 else 0
def shr64 (x : UInt64) (n : Nat) : UInt64 := if n < 64 then x >>> n.toUInt64 else 0
def shl32 (x : UInt32) (n : Nat) : UInt32 := if n < 32 then x <<< n.toUInt32 else 0
def shr32 (x : UInt32) (n : Nat) : UInt32 := if n < 32 then x >>> n.toUInt32 else 0
def shl16 (x : UInt16) (n : Nat) : UInt16 := if n < 16 then x <<< n.toUInt16 else 0
def shr16 (x : UInt16) (n : Nat) : UInt16 := if n < 16 then x >>> n.toUInt16 else 0

/-- `bits.Len64`. -/
def len64 (x : UInt64) : Int := if x = 0 then 0 else Int.ofNat (Nat.log2 x.toNat + 1)

end BB.Go
