#!/bin/sh
# Build the framework offline from files on disk only.
set -e
cd "$(dirname "$0")"
exec python3 ./check --setup
