// Package bmx drives the real OldCurrentNewLocationBlobMap (over the real
// volatile block list and both block allocators) with the line protocol of
// the Lean block-map model, and checks C05/C08 statements on what it observes.
package bmx

import (
	"crypto/sha256"
	"encoding/hex"
	"fmt"
	"strconv"
	"strings"
	"sync/atomic"

	remoteexecution "github.com/bazelbuild/remote-apis/build/bazel/remote/execution/v2"
	"github.com/buildbarn/bb-storage/pkg/blobstore"
	"github.com/buildbarn/bb-storage/pkg/blobstore/buffer"
	"github.com/buildbarn/bb-storage/pkg/blobstore/local"
	"github.com/buildbarn/bb-storage/pkg/digest"
	pb "github.com/buildbarn/bb-storage/pkg/proto/blobstore/local"
	"google.golang.org/grpc/status"

	"verifharness/hx"
)

// CountingAllocator wraps a BlockAllocator: counts NewBlock calls and
// releases by the block list, and can be told to fail.
type CountingAllocator struct {
	Base     local.BlockAllocator
	News     atomic.Int64
	Releases atomic.Int64
	// OnNew, when set, runs once at the start of the next NewBlock call: something that happens concurrently
	// with a reservation that holds the store lock (a reader detecting corruption does not need the lock).
	OnNew func()
	// SlotAbs maps the device offset of a block to the absolute index (0 = first block ever allocated) of the
	// block that was placed there most recently.
	SlotAbs map[int64]int64
}

type countingBlock struct {
	local.Block
	a *CountingAllocator
}

func (b countingBlock) Release() {
	b.a.Releases.Add(1)
	b.Block.Release()
}

func (a *CountingAllocator) NewBlock() (local.Block, *pb.BlockLocation, error) {
	if h := a.OnNew; h != nil {
		a.OnNew = nil
		h()
	}
	b, l, err := a.Base.NewBlock()
	if err != nil {
		return nil, nil, err
	}
	n := a.News.Add(1)
	if l != nil {
		if a.SlotAbs == nil {
			a.SlotAbs = map[int64]int64{}
		}
		a.SlotAbs[l.OffsetBytes] = n - 1
	}
	return countingBlock{b, a}, l, nil
}

func (a *CountingAllocator) NewBlockAtLocation(l *pb.BlockLocation, off int64) (local.Block, bool) {
	b, ok := a.Base.NewBlockAtLocation(l, off)
	if !ok {
		return nil, false
	}
	return countingBlock{b, a}, true
}

type errorLogger struct{ msgs []string }

func (l *errorLogger) Log(err error) { l.msgs = append(l.msgs, err.Error()) }

// Config of one map under test (first line of a script: "#cfg ...").
type Config struct {
	Policy               string // imm | mut
	Old, Cur, New        int
	Sector, SectorsPerBl int // block size = Sector*SectorsPerBl
	Spare                int
	Alloc                string // mem | dev
}

func (c Config) BlockSize() int { return c.Sector * c.SectorsPerBl }
func (c Config) Line() string {
	return fmt.Sprintf("#cfg %s %d %d %d %d %d %d %s", c.Policy, c.Old, c.Cur, c.New, c.Sector, c.SectorsPerBl, c.Spare, c.Alloc)
}

func ParseConfig(line string) (Config, bool) {
	w := strings.Fields(line)
	if len(w) != 9 || w[0] != "#cfg" {
		return Config{}, false
	}
	n := func(i int) int { v, _ := strconv.Atoi(w[i]); return v }
	return Config{w[1], n(2), n(3), n(4), n(5), n(6), n(7), w[8]}, true
}

type ticket struct {
	data      []byte
	dig       digest.Digest
	finalizer local.LocationBlobPutFinalizer
	abs       int64 // absolute block, known once finalized (-1 before)
	off       int64
	finalized bool
	held      buffer.Buffer
}

// Sut is one real block map.
type Sut struct {
	Cfg     Config
	Dev     *hx.MemDevice
	Alloc   *CountingAllocator
	BL      local.BlockList
	LBM     *local.OldCurrentNewLocationBlobMap
	Log     *errorLogger
	tickets []*ticket
}

func NewSut(cfg Config) *Sut {
	s := &Sut{Cfg: cfg, Log: &errorLogger{}}
	var base local.BlockAllocator
	blockCount := cfg.Old + cfg.Cur + cfg.New + cfg.Spare
	if cfg.Alloc == "dev" {
		s.Dev = hx.NewMemDevice(blockCount * cfg.BlockSize())
		base = local.NewBlockDeviceBackedBlockAllocator(s.Dev, blobstore.CASReadBufferFactory, cfg.Sector, int64(cfg.SectorsPerBl), blockCount, "verif_bmx")
	} else {
		base = local.NewInMemoryBlockAllocator(cfg.BlockSize())
	}
	s.Alloc = &CountingAllocator{Base: base}
	s.BL = local.NewVolatileBlockList(s.Alloc)
	var policy local.BlockListGrowthPolicy
	if cfg.Policy == "mut" {
		policy = local.NewMutableBlockListGrowthPolicy(cfg.Cur)
	} else {
		policy = local.NewImmutableBlockListGrowthPolicy(cfg.Cur, cfg.New)
	}
	s.LBM = local.NewOldCurrentNewLocationBlobMap(s.BL, policy, s.Log, "verif_bmx", int64(cfg.BlockSize()), cfg.Old, cfg.New, 0)
	return s
}

// ModelFree is the `free` parameter of the model's init line.
func (c Config) ModelFree() int {
	if c.Alloc == "dev" {
		return c.Old + c.Cur + c.New + c.Spare
	}
	return 1000000
}

func (s *Sut) Released() int64 { return s.Alloc.Releases.Load() }
func (s *Sut) Total() int      { return int(s.Alloc.News.Load() - s.Alloc.Releases.Load()) }

// Resolvable reports, for every relative block index, whether a reference taken now resolves.
func (s *Sut) Resolvable() []bool {
	n := s.Total()
	res := make([]bool, n)
	for i := 0; i < n; i++ {
		ref, _ := s.LBM.BlockIndexToBlockReference(i)
		_, _, found := s.LBM.BlockReferenceToBlockIndex(ref)
		res[i] = found
	}
	return res
}

func (s *Sut) OldCount() int {
	c := 0
	for i := 0; i < s.Total(); i++ {
		if _, needsRefresh := s.LBM.Get(local.Location{BlockIndex: i}); needsRefresh {
			c++
		}
	}
	return c
}

func (s *Sut) State() string {
	var b strings.Builder
	for _, r := range s.Resolvable() {
		if r {
			b.WriteByte('1')
		} else {
			b.WriteByte('0')
		}
	}
	return fmt.Sprintf("old=%d total=%d released=%d pushes=%d res=%s", s.OldCount(), s.Total(), s.Released(), s.Alloc.News.Load(), b.String())
}

func content(n, size int) []byte {
	b := make([]byte, size)
	for i := range b {
		b[i] = byte(n*31 + i*7 + 1)
	}
	return b
}

func code(err error) string {
	return strings.ToLower(strings.ReplaceAll(status.Code(err).String(), "InvalidArgument", "invalid-argument"))
}

// Exec runs one protocol line on the real map.
func (s *Sut) Exec(line string) string {
	w := strings.Fields(line)
	switch w[0] {
	case "init":
		return "ok"
	case "state":
		return s.State()
	case "put":
		size, _ := strconv.Atoi(w[1])
		pw, err := s.LBM.Put(int64(size))
		if err != nil {
			return "err " + code(err)
		}
		n := len(s.tickets)
		data := content(n, size)
		sum := sha256.Sum256(data)
		t := &ticket{data: data, abs: -1,
			dig: digest.MustNewDigest("", remoteexecution.DigestFunction_SHA256, hex.EncodeToString(sum[:]), int64(size))}
		t.finalizer = pw(buffer.NewValidatedBufferFromByteSlice(data))
		s.tickets = append(s.tickets, t)
		// Peek at where it went without finalizing: the finalizer is pure apart from the check, so call it
		// now for the location and keep it for a later `fin`.
		loc, err := t.finalizer()
		if err != nil {
			return "err finalize-" + code(err)
		}
		t.abs, t.off = int64(loc.BlockIndex)+s.Released(), loc.OffsetBytes
		return fmt.Sprintf("ok %d %d %d", n, loc.BlockIndex, loc.OffsetBytes)
	case "putb": // putb <size> <ticket>: a reservation during which a reader of <ticket> detects corruption
		n, _ := strconv.Atoi(w[2])
		if n >= len(s.tickets) || s.Dev == nil {
			return "bad-op"
		}
		t := s.tickets[n]
		rel := t.abs - s.Released()
		getter, _ := s.LBM.Get(local.Location{BlockIndex: int(rel), OffsetBytes: t.off, SizeBytes: int64(len(t.data))})
		b := getter(t.dig)
		readResult := ""
		fire := func() {
			s.Dev.CorruptReads = 1
			_, err := b.ToByteSlice(len(t.data) + 1)
			s.Dev.CorruptReads = 0
			if err == nil {
				readResult = " read-succeeded"
			} else if c := code(err); c != "internal" {
				readResult = " read-failed-" + c
			}
		}
		s.Alloc.OnNew = fire
		r := s.Exec("put " + w[1])
		if s.Alloc.OnNew != nil {
			// the reservation allocated no block: the detection simply comes right after it
			s.Alloc.OnNew = nil
			fire()
		}
		return r + readResult
	case "fin":
		n, _ := strconv.Atoi(w[1])
		if n >= len(s.tickets) {
			return "bad-op"
		}
		loc, err := s.tickets[n].finalizer()
		if err != nil {
			return "err " + code(err)
		}
		return fmt.Sprintf("ok %d %d", loc.BlockIndex, loc.OffsetBytes)
	case "hold":
		n, _ := strconv.Atoi(w[1])
		if n >= len(s.tickets) || s.Dev == nil || s.tickets[n].held != nil {
			return "bad-op"
		}
		t := s.tickets[n]
		rel := t.abs - s.Released()
		getter, _ := s.LBM.Get(local.Location{BlockIndex: int(rel), OffsetBytes: t.off, SizeBytes: int64(len(t.data))})
		t.held = getter(t.dig)
		return "ok"
	case "badread":
		n, _ := strconv.Atoi(w[1])
		if n >= len(s.tickets) || s.tickets[n].held == nil {
			return "bad-op"
		}
		t := s.tickets[n]
		s.Dev.CorruptReads = 1
		_, err := t.held.ToByteSlice(len(t.data) + 1)
		s.Dev.CorruptReads = 0
		t.held = nil
		if err == nil {
			return "read-succeeded"
		}
		if c := code(err); c != "internal" {
			return "read-failed-" + c
		}
		return "ok"
	case "corrupt":
		n, _ := strconv.Atoi(w[1])
		if n >= len(s.tickets) || s.Dev == nil {
			return "bad-op"
		}
		t := s.tickets[n]
		rel := t.abs - s.Released()
		if rel < 0 || int(rel) >= s.Total() || len(t.data) == 0 {
			return "bad-op"
		}
		// make the medium return a flipped byte for this read, then read the object through the map
		getter, _ := s.LBM.Get(local.Location{BlockIndex: int(rel), OffsetBytes: t.off, SizeBytes: int64(len(t.data))})
		s.Dev.CorruptReads = 1
		_, err := getter(t.dig).ToByteSlice(len(t.data) + 1)
		s.Dev.CorruptReads = 0
		if err == nil {
			return "read-succeeded"
		}
		if c := code(err); c != "internal" {
			return "read-failed-" + c
		}
		return "ok"
	}
	return "bad-op"
}

// Held reports whether a reader on the ticket is being held open.
func (s *Sut) Held(n int) bool { return n < len(s.tickets) && s.tickets[n].held != nil }

// TicketAbs returns the absolute block of a ticket (or -1).
func (s *Sut) TicketAbs(n int) int64 {
	if n < len(s.tickets) {
		return s.tickets[n].abs
	}
	return -1
}

func (s *Sut) TicketSize(n int) int { return len(s.tickets[n].data) }
func (s *Sut) Tickets() int         { return len(s.tickets) }

// ---------------------------------------------------------------- cases

// Result of running one script.
type Result struct {
	Lines, Impl, Model []string
	Agree              bool
	Findings           []hx.Finding
}

// RunCase executes a script ("#cfg ..." first, then put/fin/corrupt/touch lines) on the real map and on
// the model, with the C05 and C08 oracles evaluated on the real map's observable state.
func RunCase(run *hx.Run, model *hx.Model, name string, script []string) Result {
	var res Result
	res.Agree = true
	cfg, ok := ParseConfig(script[0])
	if !ok {
		return res
	}
	s := NewSut(cfg)
	oracle := func(prop, what, detail string) {
		for _, f := range res.Findings {
			if f.What == what {
				return
			}
		}
		res.Findings = append(res.Findings, hx.Finding{Kind: "oracle", What: what, Detail: prop + ": " + detail, Case: name, Script: script})
	}
	emit := func(line string) string {
		var r string
		func() {
			defer func() {
				if p := recover(); p != nil {
					r = fmt.Sprintf("panic: %v", p)
				}
			}()
			r = s.Exec(line)
		}()
		res.Lines = append(res.Lines, line)
		res.Impl = append(res.Impl, r)
		if strings.HasPrefix(r, "panic") {
			oracle("C05", "block map panicked", line+": "+r)
		}
		return r
	}
	emit(fmt.Sprintf("init %s %d %d %d %d %d", cfg.Policy, cfg.Old, cfg.Cur, cfg.New, cfg.BlockSize(), cfg.ModelFree()))

	objects := map[int]int{} // logical object -> current ticket
	type touched struct {
		abs    int64
		pushes int64
		epoch  int
	}
	touches := map[int]touched{}
	corruptEpoch := 0
	quarantined := int64(-1)
	afterCorruption := false

	checkState := func() {
		st := emit("state")
		_ = st
		resv := s.Resolvable()
		released := s.Released()
		for i, r := range resv {
			abs := released + int64(i)
			if abs <= quarantined && r {
				oracle("C08", "a block at or below a block with detected corruption is still resolvable",
					fmt.Sprintf("abs block %d (quarantined up to %d) resolves after %q", abs, quarantined, res.Lines[len(res.Lines)-2]))
			}
			if abs > quarantined && !r {
				oracle("C08", "a block newer than every corrupted block became unresolvable",
					fmt.Sprintf("abs block %d (quarantined up to %d)", abs, quarantined))
			}
		}
		for o, t := range touches {
			if t.epoch != corruptEpoch {
				continue
			}
			if s.Alloc.News.Load()-t.pushes <= int64(cfg.Old) {
				rel := t.abs - released
				if rel < 0 || int(rel) >= len(resv) || !resv[rel] {
					oracle("C05", "an object that was just touched was lost before old_blocks+1 further blocks were allocated",
						fmt.Sprintf("object %d in abs block %d touched at %d pushes, now %d pushes, released %d", o, t.abs, t.pushes, s.Alloc.News.Load(), released))
				}
			}
		}
	}

	for _, line := range script[1:] {
		w := strings.Fields(line)
		if len(w) == 0 {
			continue
		}
		arg := 0
		if len(w) > 1 {
			arg, _ = strconv.Atoi(w[1])
		}
		switch w[0] {
		case "put": // put <size> [object]
			r := emit("put " + w[1])
			if strings.HasPrefix(r, "ok ") {
				if len(w) > 2 {
					o, _ := strconv.Atoi(w[2])
					objects[o] = s.Tickets() - 1
					delete(touches, o)
				}
			} else if afterCorruption && arg <= cfg.BlockSize() {
				// UNAVAILABLE is legitimate while a reader pins a released block or no spare block exists
				anyHeld := false
				for i := 0; i < s.Tickets(); i++ {
					anyHeld = anyHeld || s.Held(i)
				}
				if r != "err unavailable" || (!anyHeld && cfg.Spare >= 1) {
					oracle("C08", "the store stopped accepting uploads after a corruption was detected", line+" -> "+r)
				}
			}
			afterCorruption = false
			checkState()
		case "putb": // putb <size> <ticket>
			if len(w) < 3 {
				continue
			}
			tn, _ := strconv.Atoi(w[2])
			if tn >= s.Tickets() || s.Dev == nil || s.TicketSize(tn) == 0 {
				continue
			}
			abs := s.TicketAbs(tn)
			rel := abs - s.Released()
			if abs < 0 || rel < 0 || int(rel) >= s.Total() || !s.Resolvable()[rel] {
				continue
			}
			r := emit(line)
			if strings.Contains(r, "read-") {
				oracle("C08", "a read of corrupted data did not fail with INTERNAL", line+" -> "+r)
			}
			if abs > quarantined {
				quarantined = abs
			}
			corruptEpoch++
			afterCorruption = true
			checkState()
		case "fin":
			if arg >= s.Tickets() {
				continue
			}
			r := emit(line)
			if abs := s.TicketAbs(arg); abs >= 0 && abs <= quarantined && strings.HasPrefix(r, "ok") {
				oracle("C08", "an upload into a quarantined block was acknowledged", fmt.Sprintf("%s -> %s (abs block %d, quarantined up to %d)", line, r, abs, quarantined))
			}
		case "corrupt":
			if arg >= s.Tickets() || s.Dev == nil || s.TicketSize(arg) == 0 {
				continue
			}
			abs := s.TicketAbs(arg)
			rel := abs - s.Released()
			if abs < 0 || rel < 0 || int(rel) >= s.Total() || !s.Resolvable()[rel] {
				continue
			}
			r := emit(line)
			if r != "ok" {
				oracle("C08", "a read of corrupted data did not fail with INTERNAL", line+" -> "+r)
			}
			if abs > quarantined {
				quarantined = abs
			}
			corruptEpoch++
			afterCorruption = true
			checkState()
		case "hold":
			if arg >= s.Tickets() || s.Dev == nil || s.TicketSize(arg) == 0 || s.Held(arg) {
				continue
			}
			abs := s.TicketAbs(arg)
			rel := abs - s.Released()
			if abs < 0 || rel < 0 || int(rel) >= s.Total() || !s.Resolvable()[rel] {
				continue
			}
			emit(line)
		case "badread":
			if !s.Held(arg) {
				continue
			}
			abs := s.TicketAbs(arg)
			r := emit(line)
			if r != "ok" {
				oracle("C08", "a read of corrupted data did not fail with INTERNAL", line+" -> "+r)
			}
			if abs > quarantined {
				quarantined = abs
			}
			corruptEpoch++
			afterCorruption = true
			checkState()
		case "touch": // touch <object>: what Get/FindMissing do - refresh if the location needs it
			t, ok := objects[arg]
			if !ok {
				continue
			}
			abs := s.TicketAbs(t)
			rel := abs - s.Released()
			if abs < 0 || rel < 0 || int(rel) >= s.Total() || !s.Resolvable()[rel] {
				delete(objects, arg)
				delete(touches, arg)
				continue
			}
			if _, needsRefresh := s.LBM.Get(local.Location{BlockIndex: int(rel)}); needsRefresh {
				r := emit(fmt.Sprintf("put %d", s.TicketSize(t)))
				if !strings.HasPrefix(r, "ok ") {
					checkState()
					continue
				}
				t = s.Tickets() - 1
				objects[arg] = t
				abs = s.TicketAbs(t)
				rel = abs - s.Released()
				if _, again := s.LBM.Get(local.Location{BlockIndex: int(rel)}); again {
					oracle("C05", "repeating a touch right after a refresh would write again", fmt.Sprintf("object %d refreshed into relative block %d which still needs a refresh", arg, rel))
				}
			}
			touches[arg] = touched{abs: abs, pushes: s.Alloc.News.Load(), epoch: corruptEpoch}
			checkState()
		}
	}
	if model != nil {
		res.Model = model.Batch(res.Lines)
		run.Compared(len(res.Model))
		for i := range res.Model {
			if res.Model[i] != res.Impl[i] {
				res.Agree = false
				res.Findings = append(res.Findings, hx.Finding{Kind: "disagreement", What: "model/implementation differ",
					Detail: fmt.Sprintf("step %d %q: impl=%q model=%q", i, res.Lines[i], res.Impl[i], res.Model[i]),
					Case:   name, Script: script, Impl: res.Impl, Model: res.Model})
				break
			}
		}
	}
	return res
}

// GenScript produces one random history. corruption selects how often corrupt ops appear.
func GenScript(r *hx.Rand, nops int, corruption int) []string {
	cfg := Config{Policy: "imm", Old: r.Range(0, 3), Cur: r.Range(0, 3), New: r.Range(1, 3), Sector: r.PickInt(1, 1, 2, 4, 16),
		SectorsPerBl: r.Range(1, 6), Spare: r.Range(0, 3), Alloc: "dev"}
	if r.Chance(1, 3) {
		cfg.Policy = "mut"
		cfg.New = 1
	}
	if corruption == 0 && r.Chance(1, 3) {
		cfg.Alloc = "mem"
	}
	bs := cfg.BlockSize()
	script := []string{cfg.Line()}
	sizes := []int{0, 1, 1, bs / 2, bs - 1, bs, bs, bs + 1, 2, 3}
	nobj := r.Range(1, 5)
	for i := 0; i < nops; i++ {
		switch x := r.Intn(100); {
		case x < 50:
			sz := sizes[r.Intn(len(sizes))]
			if sz < 0 {
				sz = 0
			}
			if r.Chance(2, 3) {
				script = append(script, fmt.Sprintf("put %d %d", sz, r.Intn(nobj)))
			} else {
				script = append(script, fmt.Sprintf("put %d", sz))
			}
		case x < 75:
			script = append(script, fmt.Sprintf("touch %d", r.Intn(nobj)))
		case x < 75+corruption:
			switch r.Intn(4) {
			case 3:
				script = append(script, fmt.Sprintf("putb %d %d", sizes[r.Intn(len(sizes))], r.Intn(i+1)))
			case 0:
				script = append(script, fmt.Sprintf("corrupt %d", r.Intn(i+1)))
			case 1:
				script = append(script, fmt.Sprintf("hold %d", r.Intn(i+1)))
			default:
				script = append(script, fmt.Sprintf("badread %d", r.Intn(i+1)))
			}
		default:
			script = append(script, fmt.Sprintf("fin %d", r.Intn(i+1)))
		}
	}
	return script
}

// Main is the body of TestC05 / TestC08.
func Main(run *hx.Run, model *hx.Model, prop string, corruption int, report func(hx.Finding)) {
	mine := func(f hx.Finding) bool {
		return f.Kind != "oracle" || strings.HasPrefix(f.Detail, prop+":")
	}
	handle := func(name string, script []string) {
		res := RunCase(run, model, name, script)
		var fs []hx.Finding
		for _, f := range res.Findings {
			if mine(f) {
				fs = append(fs, f)
			}
		}
		nontrivial := false
		for _, l := range res.Impl {
			if strings.Contains(l, "released=") && !strings.Contains(l, "released=0 ") {
				nontrivial = true
			}
		}
		run.Case(append([]string{script[0]}, res.Lines...), nontrivial, model != nil)
		for _, l := range res.Impl {
			w := strings.Fields(l)
			if len(w) > 0 && !strings.HasPrefix(w[0], "old=") {
				k := w[0]
				if len(w) > 1 && w[0] == "err" {
					k += ":" + w[1]
				}
				run.Count("reply:" + k)
			}
		}
		for _, l := range res.Lines {
			if w := strings.Fields(l); w[0] != "state" && w[0] != "init" {
				run.Count("op:" + w[0])
			}
		}
		run.Count("policy:" + strings.Fields(script[0])[1])
		run.Count("alloc:" + strings.Fields(script[0])[8])
		if len(fs) > 0 {
			first := fs[0]
			for _, f := range fs {
				if f.Kind == "oracle" {
					first = f
					break
				}
			}
			small := hx.Shrink(script, 1, func(sc []string) bool {
				r2 := RunCase(run, model, name, sc)
				for _, f := range r2.Findings {
					if f.What == first.What {
						return true
					}
				}
				return false
			})
			if len(small) < len(script) {
				r2 := RunCase(run, model, name+"/shrunk", small)
				var f2 []hx.Finding
				for _, f := range r2.Findings {
					if f.What == first.What {
						f2 = append(f2, f)
					}
				}
				if len(f2) > 0 {
					fs = f2
				}
			}
			for _, f := range fs {
				report(f)
			}
		}
	}
	if name, script := run.ReplayScript(); script != nil {
		res := RunCase(run, model, name, script)
		for _, f := range res.Findings {
			report(f)
		}
		for i := range res.Lines {
			m := ""
			if i < len(res.Model) {
				m = res.Model[i]
			}
			fmt.Printf("%-14s impl=%-60s model=%s\n", res.Lines[i], res.Impl[i], m)
		}
		return
	}
	for name, script := range run.CorpusScripts() {
		if strings.HasPrefix(script[0], "#cfg ") {
			handle("corpus/"+name, script)
		}
	}
	n := run.Scale(1500, 30000)
	for i := 0; i < n && run.Findings() < 10; i++ {
		r := hx.NewRand(run.Seed, prop, i)
		handle(fmt.Sprintf("seed%d/case%d", run.Seed, i), GenScript(r, r.Range(5, 80), corruption))
	}
}
