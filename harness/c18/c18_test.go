// Package c18 ties the Lean authorization model (BB.Auth) to the real
// authorizingBlobAccess / anyAuthorizer / staticAuthorizer of /repo and checks
// the statements of property C18 directly on the observed behaviour.
//
// Script lines (one case = one script, first line "reset"):
//
//	leaf <id> <default> [<name> <verdict>]...   scripted leaf authorizer (a | d.<tag> | e.<code>.<tag>)
//	auth get|put|fm <tree>                      L <id> | A <k> <tree>*k   (A = auth.NewAnyAuthorizer)
//	get n b | getc n b n' b' | put n b | fm k (n b)*k | authz get|put|fm n...
//
// The line sent to the model for "fm" additionally carries the order in which
// the decorator handed the distinct instance names to the authorizer (Go map
// iteration order, observed by a spy around the authorizer).
package c18

import (
	"context"
	"crypto/sha256"
	"encoding/hex"
	"errors"
	"fmt"
	"io"
	"sort"
	"strconv"
	"strings"
	"testing"

	remoteexecution "github.com/bazelbuild/remote-apis/build/bazel/remote/execution/v2"
	"github.com/buildbarn/bb-storage/pkg/auth"
	"github.com/buildbarn/bb-storage/pkg/blobstore"
	"github.com/buildbarn/bb-storage/pkg/blobstore/buffer"
	"github.com/buildbarn/bb-storage/pkg/blobstore/slicing"
	"github.com/buildbarn/bb-storage/pkg/digest"
	"google.golang.org/grpc/codes"
	"google.golang.org/grpc/status"

	"verifharness/hx"
)

// The stable sentence of the known defect D8.
const whatPutLeak = "Put denied by the authorizer does not release the upload buffer"

// ---------------------------------------------------------------- vocabulary

var nameStrings = []string{"", "acme", "acme/ci", "b", "b/c/d", "x-9", "acme/ci/nightly", "z"}

var nameValues = func() []digest.InstanceName {
	r := make([]digest.InstanceName, len(nameStrings))
	for i, s := range nameStrings {
		in, err := digest.NewInstanceName(s)
		if err != nil {
			panic(err)
		}
		r[i] = in
	}
	return r
}()

func nameIndex(in digest.InstanceName) int {
	s := in.String()
	for i, x := range nameStrings {
		if x == s {
			return i
		}
	}
	return -1
}

// blobContent: blob 0 is the empty blob (size 0, hash of the empty input), which parts of the
// storage stack treat specially (digest.Set.RemoveEmptyBlob, EmptyBlobInjectingBlobAccess).
func blobContent(b int) []byte {
	if b == 0 {
		return []byte{}
	}
	return []byte(fmt.Sprintf("blob-%d-content", b))
}

const maxBlob = 64

var blobHashes, blobOfHash = func() ([]string, map[string]int) {
	hs := make([]string, maxBlob)
	m := map[string]int{}
	for b := range hs {
		h := sha256.Sum256(blobContent(b))
		hs[b] = hex.EncodeToString(h[:])
		m[hs[b]] = b
	}
	return hs, m
}()

func mkDigest(n, b int) digest.Digest {
	return digest.MustNewDigest(nameStrings[n], remoteexecution.DigestFunction_SHA256, blobHashes[b], int64(len(blobContent(b))))
}

type dg struct{ n, b int }

func (d dg) String() string { return fmt.Sprintf("%d.%d", d.n, d.b) }

func canonSet(ds []dg) string {
	if len(ds) == 0 {
		return "-"
	}
	s := append([]dg{}, ds...)
	sort.Slice(s, func(i, j int) bool { return s[i].n < s[j].n || (s[i].n == s[j].n && s[i].b < s[j].b) })
	var out []string
	for i, d := range s {
		if i > 0 && d == s[i-1] {
			continue
		}
		out = append(out, d.String())
	}
	return strings.Join(out, ",")
}

// verdict of a scripted leaf for one name.
type verdict struct {
	allow     bool
	code, tag int
}

func parseVerdict(w string) (verdict, bool) {
	p := strings.Split(w, ".")
	switch {
	case len(p) == 1 && p[0] == "a":
		return verdict{allow: true}, true
	case len(p) == 2 && p[0] == "d":
		t, err := strconv.Atoi(p[1])
		return verdict{code: int(codes.PermissionDenied), tag: t}, err == nil && t >= 0
	case len(p) == 3 && p[0] == "e":
		c, err1 := strconv.Atoi(p[1])
		t, err2 := strconv.Atoi(p[2])
		return verdict{code: c, tag: t}, err1 == nil && err2 == nil && c >= 1 && c <= 16 && t >= 0
	}
	return verdict{}, false
}

func tagMessage(tag int) string {
	if tag == 0 {
		return "Permission denied" // the message of the static authorizer
	}
	return fmt.Sprintf("m%d", tag)
}

func (v verdict) err() error {
	if v.allow {
		return nil
	}
	if v.code == int(codes.Unknown) && v.tag%2 == 0 {
		return errors.New(tagMessage(v.tag)) // not a gRPC status at all: status.Code() = Unknown
	}
	return status.Error(codes.Code(v.code), tagMessage(v.tag))
}

func messageTag(msg string) string {
	if msg == "Permission denied" {
		return "0"
	}
	if strings.HasPrefix(msg, "m") {
		if t, err := strconv.Atoi(msg[1:]); err == nil && t > 0 {
			return strconv.Itoa(t)
		}
	}
	return "?" + strings.ReplaceAll(msg, " ", "_")
}

// showErr renders an error returned by an authorizer in the model's notation.
func showErr(err error) string {
	if err == nil {
		return "a"
	}
	s := status.Convert(err)
	if s.Code() == codes.PermissionDenied {
		return "d." + messageTag(s.Message())
	}
	return fmt.Sprintf("e.%d.%s", int(s.Code()), messageTag(s.Message()))
}

// showOpErr renders an error returned by the decorator: err.<code>.<tag>.<auth|name<n>>.
func showOpErr(err error) string {
	s := status.Convert(err)
	msg := s.Message()
	if strings.HasPrefix(msg, "Authorization: ") {
		return fmt.Sprintf("err.%d.%s.auth", int(s.Code()), messageTag(strings.TrimPrefix(msg, "Authorization: ")))
	}
	for i, n := range nameStrings {
		p := fmt.Sprintf("Authorization of instance name %#v: ", n)
		if strings.HasPrefix(msg, p) {
			return fmt.Sprintf("err.%d.%s.name%d", int(s.Code()), messageTag(strings.TrimPrefix(msg, p)), i)
		}
	}
	return fmt.Sprintf("err.%d.?%s", int(s.Code()), strings.ReplaceAll(msg, " ", "_"))
}

// ---------------------------------------------------------------- collaborators

type ctxKey struct{}

type leafCall struct {
	id    int
	names []int
}

// env is what one case observes.
type env struct {
	token     *int
	quiet     bool // oracle probes: do not log
	leafCalls []leafCall
	ctxBad    bool
	topCalls  map[string][]topCall // per kind, calls that reached the decorator's authorizer
	backend   *recBackend
}

type topCall struct {
	names []int
	errs  []error
}

func (e *env) checkCtx(ctx context.Context) {
	if p, ok := ctx.Value(ctxKey{}).(*int); !ok || p != e.token {
		e.ctxBad = true
	}
}

func indices(names []digest.InstanceName) []int {
	r := make([]int, len(names))
	for i, n := range names {
		r[i] = nameIndex(n)
	}
	return r
}

// leafAuth is a scripted leaf; when all its answers are allow / "Permission
// denied" it delegates to the real auth.NewStaticAuthorizer.
type leafAuth struct {
	e      *env
	id     int
	dflt   verdict
	table  map[int]verdict
	static auth.Authorizer
}

func (l *leafAuth) lookup(n int) verdict {
	if v, ok := l.table[n]; ok {
		return v
	}
	return l.dflt
}

func (l *leafAuth) Authorize(ctx context.Context, names []digest.InstanceName) []error {
	idx := indices(names)
	if !l.e.quiet {
		l.e.leafCalls = append(l.e.leafCalls, leafCall{l.id, idx})
		l.e.checkCtx(ctx)
	}
	if l.static != nil {
		return l.static.Authorize(ctx, names)
	}
	errs := make([]error, len(names))
	for i, n := range idx {
		errs[i] = l.lookup(n).err()
	}
	return errs
}

// topSpy wraps the authorizer handed to the decorator.
type topSpy struct {
	e     *env
	kind  string
	inner auth.Authorizer
}

func (s *topSpy) Authorize(ctx context.Context, names []digest.InstanceName) []error {
	errs := s.inner.Authorize(ctx, names)
	if !s.e.quiet {
		s.e.checkCtx(ctx)
		s.e.topCalls[s.kind] = append(s.e.topCalls[s.kind], topCall{indices(names), append([]error{}, errs...)})
	}
	return errs
}

// node is the harness's own view of an authorizer tree (for the oracle).
type node struct {
	leaf    *leafAuth
	members []*node
	real    auth.Authorizer
}

type countingReader struct {
	r      io.Reader
	closes *int
}

func (c *countingReader) Read(p []byte) (int, error) { return c.r.Read(p) }
func (c *countingReader) Close() error               { *c.closes++; return nil }

type countingReaderAt struct {
	data   []byte
	closes *int
}

func (c *countingReaderAt) ReadAt(p []byte, off int64) (int, error) {
	if off >= int64(len(c.data)) {
		return 0, io.EOF
	}
	n := copy(p, c.data[off:])
	if n < len(p) {
		return n, io.EOF
	}
	return n, nil
}
func (c *countingReaderAt) Close() error { *c.closes++; return nil }

// recBackend records every call and returns results the harness can recognise.
type recBackend struct {
	e         *env
	calls     []string
	getBuf    []byte // content returned by the last Get / GetFromComposite (nil: error buffer)
	getErr    error
	putErr    error
	putData   []byte
	fmMissing []dg
	fmErr     error
	// upload buffer accounting
	closes        *int
	backendCloses int
	handed        int
}

func fromDigest(d digest.Digest) dg {
	n := nameIndex(d.GetInstanceName())
	if b, ok := blobOfHash[d.GetHashString()]; ok {
		return dg{n, b}
	}
	return dg{n, -1}
}

func (r *recBackend) GetCapabilities(ctx context.Context, instanceName digest.InstanceName) (*remoteexecution.ServerCapabilities, error) {
	return nil, status.Error(codes.Unimplemented, "not part of C18")
}

func (r *recBackend) getResult(d dg) buffer.Buffer {
	if d.b%5 == 3 {
		r.getBuf, r.getErr = nil, status.Error(codes.NotFound, "backend-not-found")
		return buffer.NewBufferFromError(r.getErr)
	}
	r.getBuf, r.getErr = append([]byte("stored:"), blobContent(d.b)...), nil
	return buffer.NewValidatedBufferFromByteSlice(r.getBuf)
}

func (r *recBackend) Get(ctx context.Context, d digest.Digest) buffer.Buffer {
	r.e.checkCtx(ctx)
	x := fromDigest(d)
	r.calls = append(r.calls, "get:"+x.String())
	return r.getResult(x)
}

func (r *recBackend) GetFromComposite(ctx context.Context, parent, child digest.Digest, slicer slicing.BlobSlicer) buffer.Buffer {
	r.e.checkCtx(ctx)
	p, c := fromDigest(parent), fromDigest(child)
	if _, ok := slicer.(*nopSlicer); !ok {
		r.calls = append(r.calls, "getc-with-foreign-slicer")
	}
	r.calls = append(r.calls, "getc:"+p.String()+"/"+c.String())
	return r.getResult(c)
}

func (r *recBackend) Put(ctx context.Context, d digest.Digest, b buffer.Buffer) error {
	r.e.checkCtx(ctx)
	x := fromDigest(d)
	r.calls = append(r.calls, "put:"+x.String())
	r.handed++
	before := *r.closes
	if x.b%2 == 0 {
		r.putData, _ = b.ToByteSlice(1 << 16)
	} else {
		b.Discard()
	}
	r.backendCloses += *r.closes - before
	if x.b%7 == 5 {
		r.putErr = status.Error(codes.Internal, "backend-put-failed")
	}
	return r.putErr
}

func (r *recBackend) FindMissing(ctx context.Context, digests digest.Set) (digest.Set, error) {
	r.e.checkCtx(ctx)
	var ds []dg
	sb := digest.NewSetBuilder(0)
	fail := false
	for _, d := range digests.Items() {
		x := fromDigest(d)
		ds = append(ds, x)
		if x.b%2 == 1 {
			sb.Add(d)
			r.fmMissing = append(r.fmMissing, x)
		}
		if x.b%7 == 6 {
			fail = true
		}
	}
	r.calls = append(r.calls, "fm:"+canonSet(ds))
	if fail {
		r.fmErr = status.Error(codes.Unavailable, "backend-fm-failed")
		r.fmMissing = nil
		return digest.EmptySet, r.fmErr
	}
	return sb.Build(), nil
}

type nopSlicer struct{}

func (*nopSlicer) Slice(b buffer.Buffer, childDigest digest.Digest) (buffer.Buffer, []slicing.BlobSlice) {
	return b, nil
}

// ---------------------------------------------------------------- one case

type caseState struct {
	e      *env
	leaves map[int]*leafAuth
	trees  map[string]*node
	// (node, name) pairs the any-oracle has already been evaluated on in this case: trees and
	// leaf tables are immutable within a case, so the verdict cannot change
	anyDone map[anyKey]bool
}

type anyKey struct {
	nd *node
	n  int
}

func (cs *caseState) parseTree(w []string) (*node, []string, bool) {
	if len(w) < 2 {
		return nil, nil, false
	}
	switch w[0] {
	case "L":
		id, err := strconv.Atoi(w[1])
		l := cs.leaves[id]
		if err != nil || l == nil {
			return nil, nil, false
		}
		return &node{leaf: l, real: l}, w[2:], true
	case "A":
		k, err := strconv.Atoi(w[1])
		if err != nil || k < 0 || k > 8 {
			return nil, nil, false
		}
		rest := w[2:]
		n := &node{}
		var members []auth.Authorizer
		for i := 0; i < k; i++ {
			m, r, ok := cs.parseTree(rest)
			if !ok {
				return nil, nil, false
			}
			n.members = append(n.members, m)
			members = append(members, m.real)
			rest = r
		}
		n.real = auth.NewAnyAuthorizer(members)
		return n, rest, true
	}
	return nil, nil, false
}

func showLeafCalls(cs []leafCall) string {
	if len(cs) == 0 {
		return "-"
	}
	var out []string
	for _, c := range cs {
		var ns []string
		for _, n := range c.names {
			ns = append(ns, strconv.Itoa(n))
		}
		out = append(out, fmt.Sprintf("L%d[%s]", c.id, strings.Join(ns, ",")))
	}
	return strings.Join(out, ";")
}

type violation struct{ what, detail string }

type caseResult struct {
	lines      []string // lines sent to the model
	impl       []string
	model      []string
	violations []violation
	nOps       int
	denied     int
	forwarded  int
	kinds      map[string]int
}

func sameErr(a, b error) bool {
	if a == nil || b == nil {
		return a == nil && b == nil
	}
	sa, sb := status.Convert(a), status.Convert(b)
	return sa.Code() == sb.Code() && sa.Message() == sb.Message()
}

func isDenial(err error) bool { return err != nil && status.Code(err) == codes.PermissionDenied }

// probe asks a real authorizer about one name, without logging.
func (cs *caseState) probe(a auth.Authorizer, n int) (res error, ok bool) {
	cs.e.quiet = true
	defer func() {
		cs.e.quiet = false
		if r := recover(); r != nil {
			ok = false
		}
	}()
	errs := a.Authorize(context.Background(), []digest.InstanceName{nameValues[n]})
	if len(errs) != 1 {
		return nil, false
	}
	return errs[0], true
}

// checkAny states the `any` part of C18 on one node of the tree for one name,
// relative to what the node's real members answer for that name.
func (cs *caseState) checkAny(nd *node, n int, fail func(what, detail string)) {
	if nd.leaf != nil || cs.anyDone[anyKey{nd, n}] {
		return
	}
	cs.anyDone[anyKey{nd, n}] = true
	for _, m := range nd.members {
		cs.checkAny(m, n, fail)
	}
	top, ok := cs.probe(nd.real, n)
	if !ok {
		fail("an authorizer did not return exactly one answer for one instance name", fmt.Sprintf("name %d", n))
		return
	}
	var ms []error
	for _, m := range nd.members {
		v, ok := cs.probe(m.real, n)
		if !ok {
			fail("an authorizer did not return exactly one answer for one instance name", fmt.Sprintf("name %d", n))
			return
		}
		ms = append(ms, v)
	}
	where := fmt.Sprintf("name %d: any=%s members=%v", n, showErr(top), func() []string {
		var r []string
		for _, v := range ms {
			r = append(r, showErr(v))
		}
		return r
	}())
	someGrant, grantBeforeFailure, allDeny := false, false, true
	var firstFailure error
	noFailureYet, allDenySoFar := true, true
	for _, v := range ms {
		switch {
		case v == nil:
			someGrant = true
			if noFailureYet {
				grantBeforeFailure = true
			}
			allDeny, allDenySoFar = false, false
		case isDenial(v):
		default:
			if allDenySoFar && firstFailure == nil {
				firstFailure = v
			}
			noFailureYet, allDeny, allDenySoFar = false, false, false
		}
	}
	if top == nil && !someGrant {
		fail("any granted an instance name that none of its members grants", where)
	}
	if grantBeforeFailure && top != nil {
		fail("any did not grant an instance name although a member grants it and no earlier member failed", where)
	}
	if firstFailure != nil && !sameErr(top, firstFailure) {
		fail("any did not report a member's failure other than denial", where)
	}
	if top != nil && !isDenial(top) {
		found := false
		for _, v := range ms {
			if sameErr(v, top) {
				found = true
			}
		}
		if !found {
			fail("any returned an error that none of its members returned", where)
		}
	}
	if allDeny && !isDenial(top) {
		fail("any did not deny an instance name that all of its members deny", where)
	}
}

// runCase executes a script on the real code, checks the oracle, and (if a
// model is given) compares with the model's replies.
func runCase(model *hx.Model, script []string) (res caseResult) {
	res.kinds = map[string]int{}
	token := new(int)
	e := &env{token: token, topCalls: map[string][]topCall{}}
	cs := &caseState{e: e, leaves: map[int]*leafAuth{}, trees: map[string]*node{}, anyDone: map[anyKey]bool{}}
	ctx := context.WithValue(context.Background(), ctxKey{}, token)
	fail := func(what, detail string) {
		for _, v := range res.violations {
			if v.what == what {
				return
			}
		}
		res.violations = append(res.violations, violation{what, detail})
	}
	emit := func(line, reply string) {
		res.lines = append(res.lines, line)
		res.impl = append(res.impl, reply)
	}
	for _, line := range script {
		w := strings.Fields(line)
		if len(w) == 0 || strings.HasPrefix(w[0], "#") {
			continue
		}
		switch w[0] {
		case "reset":
			if len(res.lines) == 0 {
				emit("reset", "ok")
			}
		case "leaf":
			if len(w) < 3 || len(w)%2 != 1 {
				continue
			}
			id, err := strconv.Atoi(w[1])
			dflt, ok := parseVerdict(w[2])
			if err != nil || !ok || cs.leaves[id] != nil {
				continue
			}
			l := &leafAuth{e: e, id: id, dflt: dflt, table: map[int]verdict{}}
			static := dflt.allow || (dflt.code == int(codes.PermissionDenied) && dflt.tag == 0)
			good := true
			for i := 3; i+1 < len(w); i += 2 {
				n, err := strconv.Atoi(w[i])
				v, ok := parseVerdict(w[i+1])
				if err != nil || !ok || n < 0 || n >= len(nameStrings) {
					good = false
					break
				}
				if _, dup := l.table[n]; dup {
					good = false // the model takes the first entry, keep scripts unambiguous
					break
				}
				l.table[n] = v
				if !(v.allow || (v.code == int(codes.PermissionDenied) && v.tag == 0)) {
					static = false
				}
			}
			if !good {
				continue
			}
			if static {
				l.static = auth.NewStaticAuthorizer(func(in digest.InstanceName) bool { return l.lookup(nameIndex(in)).allow })
				res.kinds["leaf:static"]++
			} else {
				res.kinds["leaf:scripted"]++
			}
			cs.leaves[id] = l
			emit(line, "ok")
		case "auth":
			if len(w) < 4 || (w[1] != "get" && w[1] != "put" && w[1] != "fm") {
				continue
			}
			nd, rest, ok := cs.parseTree(w[2:])
			if !ok || len(rest) != 0 {
				continue
			}
			cs.trees[w[1]] = nd
			emit(line, "ok")
		case "authz":
			if len(w) < 2 {
				continue
			}
			nd := cs.trees[w[1]]
			if nd == nil {
				continue
			}
			var idx []int
			var names []digest.InstanceName
			good := true
			for _, x := range w[2:] {
				n, err := strconv.Atoi(x)
				if err != nil || n < 0 || n >= len(nameStrings) {
					good = false
					break
				}
				idx = append(idx, n)
				names = append(names, nameValues[n])
			}
			if !good {
				continue
			}
			e.leafCalls = nil
			res.nOps++
			res.kinds["op:authz"]++
			reply := func() (reply string) {
				defer func() {
					if r := recover(); r != nil {
						reply = fmt.Sprintf("panic:%v", r)
						fail("authorizer panicked", fmt.Sprintf("%q: %v", line, r))
					}
				}()
				errs := nd.real.Authorize(ctx, names)
				if len(errs) != len(names) {
					fail("Authorize did not return one answer per instance name", fmt.Sprintf("%q: %d answers", line, len(errs)))
				}
				var vs []string
				for _, err := range errs {
					vs = append(vs, showErr(err))
				}
				v := "-"
				if len(vs) > 0 {
					v = strings.Join(vs, ",")
				}
				// oracle: each position gets the answer of the name alone; any per literal definition
				seen := map[int]bool{}
				for i, n := range idx {
					if i < len(errs) {
						alone, ok := cs.probe(nd.real, n)
						if !ok || !sameErr(alone, errs[i]) {
							fail("answer for an instance name inside a batch differs from the answer for that name alone",
								fmt.Sprintf("%q: position %d name %d: batch %s alone %s", line, i, n, showErr(errs[i]), showErr(alone)))
						}
					}
					if !seen[n] {
						seen[n] = true
						cs.checkAny(nd, n, func(wh, d string) { fail(wh, fmt.Sprintf("%q: %s", line, d)) })
					}
				}
				return fmt.Sprintf("verdicts=%s calls=%s", v, showLeafCalls(e.leafCalls))
			}()
			emit(line, reply)
		case "get", "getc", "put", "fm":
			op, ok := parseOp(w)
			if !ok {
				continue
			}
			kind := op.authKind()
			nd := cs.trees[kind]
			if nd == nil {
				continue // the real decorator would dereference a nil authorizer; not part of the property
			}
			res.nOps++
			res.kinds["op:"+w[0]]++
			reply, order := cs.execOp(ctx, op, line, fail, &res)
			// any-oracle on every involved name for the authorizer in charge
			for _, n := range op.involved() {
				cs.checkAny(nd, n, func(wh, d string) { fail(wh, fmt.Sprintf("%q: %s", line, d)) })
			}
			mline := op.line()
			if w[0] == "fm" {
				for _, n := range order {
					mline += " " + strconv.Itoa(n)
				}
			}
			emit(mline, reply)
		}
	}
	if e.ctxBad {
		fail("an authorizer or the backend was not called with the caller's context", "context value missing")
	}
	if model != nil {
		res.model = model.Batch(res.lines)
	}
	return res
}

type op struct {
	kind   string // get getc put fm
	d, c   dg
	ds     []dg
	script string
}

func parseOp(w []string) (op, bool) {
	num := func(s string) (int, bool) { v, err := strconv.Atoi(s); return v, err == nil && v >= 0 }
	okName := func(n int) bool { return n < len(nameStrings) }
	o := op{kind: w[0]}
	switch w[0] {
	case "get", "put":
		if len(w) != 3 {
			return o, false
		}
		n, ok1 := num(w[1])
		b, ok2 := num(w[2])
		o.d = dg{n, b}
		return o, ok1 && ok2 && okName(n) && b < maxBlob
	case "getc":
		if len(w) != 5 {
			return o, false
		}
		n, ok1 := num(w[1])
		b, ok2 := num(w[2])
		n2, ok3 := num(w[3])
		b2, ok4 := num(w[4])
		o.d, o.c = dg{n, b}, dg{n2, b2}
		return o, ok1 && ok2 && ok3 && ok4 && okName(n) && okName(n2) && b < maxBlob && b2 < maxBlob
	case "fm":
		if len(w) < 2 {
			return o, false
		}
		k, ok := num(w[1])
		if !ok || len(w) < 2+2*k {
			return o, false
		}
		for i := 0; i < k; i++ {
			n, ok1 := num(w[2+2*i])
			b, ok2 := num(w[3+2*i])
			if !ok1 || !ok2 || !okName(n) || b >= maxBlob {
				return o, false
			}
			o.ds = append(o.ds, dg{n, b})
		}
		return o, true // trailing words (an order from an earlier run) are ignored
	}
	return o, false
}

func (o op) authKind() string {
	switch o.kind {
	case "put":
		return "put"
	case "fm":
		return "fm"
	}
	return "get"
}

func (o op) line() string {
	switch o.kind {
	case "get", "put":
		return fmt.Sprintf("%s %d %d", o.kind, o.d.n, o.d.b)
	case "getc":
		return fmt.Sprintf("getc %d %d %d %d", o.d.n, o.d.b, o.c.n, o.c.b)
	}
	s := fmt.Sprintf("fm %d", len(o.ds))
	for _, d := range o.ds {
		s += fmt.Sprintf(" %d %d", d.n, d.b)
	}
	return s
}

// involved: the instance names that have to be authorized (GetFromComposite: the parent's).
func (o op) involved() []int {
	if o.kind != "fm" {
		return []int{o.d.n}
	}
	seen := map[int]bool{}
	var r []int
	for _, d := range o.ds {
		if !seen[d.n] {
			seen[d.n] = true
			r = append(r, d.n)
		}
	}
	sort.Ints(r)
	return r
}

func (o op) expectedCall() string {
	switch o.kind {
	case "get", "put":
		return o.kind + ":" + o.d.String()
	case "getc":
		return "getc:" + o.d.String() + "/" + o.c.String()
	}
	return "fm:" + canonSet(o.ds)
}

// execOp runs one decorator call on the real code and states the decorator
// part of C18 on what was observed.
func (cs *caseState) execOp(ctx context.Context, o op, line string, fail func(string, string), res *caseResult) (reply string, order []int) {
	e := cs.e
	e.leafCalls = nil
	e.topCalls = map[string][]topCall{}
	closes := new(int)
	be := &recBackend{e: e, closes: closes}
	e.backend = be
	// the decorator embeds the backend it was built with: rebuild around the fresh recorder
	var g, p, f auth.Authorizer
	if t := cs.trees["get"]; t != nil {
		g = &topSpy{e: e, kind: "get", inner: t.real}
	}
	if t := cs.trees["put"]; t != nil {
		p = &topSpy{e: e, kind: "put", inner: t.real}
	}
	if t := cs.trees["fm"]; t != nil {
		f = &topSpy{e: e, kind: "fm", inner: t.real}
	}
	ba := blobstore.NewAuthorizingBlobAccess(be, g, p, f)

	var opErr error     // error the caller received (nil: success)
	var gotData []byte  // Get: data the caller received
	var gotMissing []dg // FindMissing: set the caller received
	var panicked interface{}
	func() {
		defer func() { panicked = recover() }()
		switch o.kind {
		case "get":
			gotData, opErr = ba.Get(ctx, mkDigest(o.d.n, o.d.b)).ToByteSlice(1 << 16)
		case "getc":
			gotData, opErr = ba.GetFromComposite(ctx, mkDigest(o.d.n, o.d.b), mkDigest(o.c.n, o.c.b), &nopSlicer{}).ToByteSlice(1 << 16)
		case "put":
			d := mkDigest(o.d.n, o.d.b)
			var b buffer.Buffer
			if o.d.b%3 == 0 {
				b = buffer.NewValidatedBufferFromReaderAt(&countingReaderAt{data: blobContent(o.d.b), closes: closes}, d.GetSizeBytes())
			} else {
				b = buffer.NewCASBufferFromReader(d, &countingReader{r: strings.NewReader(string(blobContent(o.d.b))), closes: closes}, buffer.UserProvided)
			}
			opErr = ba.Put(ctx, d, b)
		case "fm":
			sb := digest.NewSetBuilder(len(o.ds))
			for _, d := range o.ds {
				sb.Add(mkDigest(d.n, d.b))
			}
			var missing digest.Set
			missing, opErr = ba.FindMissing(ctx, sb.Build())
			for _, d := range missing.Items() {
				gotMissing = append(gotMissing, fromDigest(d))
			}
		}
	}()
	if panicked != nil {
		fail("the authorizing decorator panicked", fmt.Sprintf("%q: %v", line, panicked))
		return fmt.Sprintf("panic:%v", panicked), nil
	}

	kind := o.authKind()
	// ---- what the authorizer in charge said during this call
	granted := map[int]bool{}
	var authErrs []error
	asked := map[int]bool{}
	for _, c := range e.topCalls[kind] {
		for i, n := range c.names {
			asked[n] = true
			if i < len(c.errs) {
				if c.errs[i] == nil {
					granted[n] = true
				} else {
					authErrs = append(authErrs, c.errs[i])
					granted[n] = false
				}
			}
		}
	}
	if o.kind == "fm" && len(e.topCalls["fm"]) > 0 {
		order = e.topCalls["fm"][0].names
	}
	allGranted := true
	for _, n := range o.involved() {
		if !granted[n] {
			allGranted = false
		}
	}
	for k, cl := range e.topCalls {
		if k != kind && len(cl) > 0 {
			fail("the decorator consulted the authorizer of a different operation kind", fmt.Sprintf("%q: consulted %s authorizer", line, k))
		}
	}
	// ---- C18 on the observed call
	if len(be.calls) > 0 && !allGranted {
		fail("backend reached although the authorizer in charge did not allow every instance name involved",
			fmt.Sprintf("%q: backend calls %v, granted %v, involved %v", line, be.calls, granted, o.involved()))
	}
	if !allGranted && len(be.calls) == 0 {
		res.denied++
		ok := false
		for _, ae := range authErrs {
			if opErr != nil && status.Code(opErr) == status.Code(ae) && strings.HasSuffix(status.Convert(opErr).Message(), ": "+status.Convert(ae).Message()) {
				ok = true
			}
		}
		if !ok {
			fail("the caller of a rejected operation did not receive the authorizer's error",
				fmt.Sprintf("%q: caller got %v, authorizer returned %v", line, opErr, authErrs))
		}
		if len(gotMissing) != 0 || gotData != nil {
			fail("a rejected operation returned data", fmt.Sprintf("%q", line))
		}
	}
	passthrough := false
	if allGranted {
		res.forwarded++
		if len(be.calls) != 1 || be.calls[0] != o.expectedCall() {
			fail("an authorized operation was not forwarded to the backend exactly once with unchanged arguments",
				fmt.Sprintf("%q: backend calls %v, expected %s", line, be.calls, o.expectedCall()))
		} else {
			switch o.kind {
			case "get", "getc":
				passthrough = sameErr(opErr, be.getErr) && string(gotData) == string(be.getBuf)
			case "put":
				passthrough = sameErr(opErr, be.putErr)
				if o.d.b%2 == 0 && string(be.putData) != string(blobContent(o.d.b)) {
					passthrough = false
				}
			case "fm":
				passthrough = sameErr(opErr, be.fmErr) && canonSet(gotMissing) == canonSet(be.fmMissing)
			}
			if !passthrough {
				fail("the result of an authorized operation is not the backend's result", fmt.Sprintf("%q: caller got err=%v", line, opErr))
			}
		}
	}
	if o.kind == "put" {
		switch {
		case *closes == 0 && len(be.calls) == 0 && opErr != nil:
			fail(whatPutLeak, fmt.Sprintf("%q: Put returned %v, backend calls 0, the reader behind the buffer was closed 0 times", line, opErr))
		case *closes == 0:
			fail("the upload buffer of a Put was never released", fmt.Sprintf("%q: closes 0, backend calls %v", line, be.calls))
		case *closes > 1:
			fail("the upload buffer of a Put was released more than once", fmt.Sprintf("%q: closes %d, backend calls %v", line, *closes, be.calls))
		}
	}
	// ---- reply in the model's notation
	backend := "none"
	if len(be.calls) > 0 {
		backend = strings.Join(be.calls, "+")
	}
	var result string
	switch {
	case len(be.calls) > 0 && passthrough:
		result = "fwd"
	case len(be.calls) > 0:
		result = "altered"
	case opErr != nil:
		result = showOpErr(opErr)
	default:
		result = "ok-without-backend"
	}
	buf := "0.0"
	if o.kind == "put" {
		buf = fmt.Sprintf("%d.%d", *closes-be.backendCloses, be.handed)
	}
	return fmt.Sprintf("backend=%s result=%s buf=%s calls=%s", backend, result, buf, showLeafCalls(e.leafCalls)), order
}

// ---------------------------------------------------------------- generators

// shape is an authorizer tree with numbered leaf slots.
type shape struct {
	text   string // with %d-less placeholders: leaves are L 1, L 2, ... in order
	leaves int
	depth  int
}

// shapes enumerates all trees with at most maxUnits units (a unit is a leaf or
// an empty any), any-nesting at most maxDepth, at most 3 members per any.
func shapes(maxUnits, maxDepth int) []shape {
	type t struct {
		toks         []string // "L" marks a leaf slot
		units, depth int
	}
	var build func(units, depth int) []t
	memo := map[[2]int][]t{}
	build = func(units, depth int) []t {
		if r, ok := memo[[2]int{units, depth}]; ok {
			return r
		}
		var r []t
		if units >= 1 {
			r = append(r, t{[]string{"L"}, 1, 0})
			if depth >= 1 {
				r = append(r, t{[]string{"A", "0"}, 1, 1})
			}
		}
		if depth >= 1 {
			// any with 1..3 members
			var rec func(k int, left int, acc []t)
			rec = func(k int, left int, acc []t) {
				if len(acc) == k {
					toks := []string{"A", strconv.Itoa(k)}
					u, d := 0, 0
					for _, m := range acc {
						toks = append(toks, m.toks...)
						u += m.units
						if m.depth > d {
							d = m.depth
						}
					}
					r = append(r, t{toks, u, d + 1})
					return
				}
				for _, m := range build(left-(k-len(acc)-1), depth-1) {
					if m.units <= left-(k-len(acc)-1) {
						rec(k, left-m.units, append(append([]t{}, acc...), m))
					}
				}
			}
			for k := 1; k <= 3 && k <= units; k++ {
				rec(k, units, nil)
			}
		}
		memo[[2]int{units, depth}] = r
		return r
	}
	seen := map[string]bool{}
	var out []shape
	for _, x := range build(maxUnits, maxDepth) {
		n := 0
		var toks []string
		for _, tk := range x.toks {
			if tk == "L" {
				n++
				toks = append(toks, "L", strconv.Itoa(n))
			} else {
				toks = append(toks, tk)
			}
		}
		s := strings.Join(toks, " ")
		if !seen[s] {
			seen[s] = true
			out = append(out, shape{s, n, x.depth})
		}
	}
	sort.Slice(out, func(i, j int) bool { return out[i].text < out[j].text })
	return out
}

var leafCodes = []int{int(codes.Unavailable), int(codes.Internal), int(codes.Unknown), int(codes.Unauthenticated), int(codes.DeadlineExceeded), int(codes.Unknown)}

// symbol renders outcome s (0 allow, 1 deny, 2 error) for leaf id.
func symbol(s, id int) string {
	switch s {
	case 0:
		return "a"
	case 1:
		return fmt.Sprintf("d.%d", id)
	}
	return fmt.Sprintf("e.%d.%d", leafCodes[(id-1)%len(leafCodes)], id)
}

// exhaustiveScript: one assignment (digits base 3, leaf-major) of a shape over nNames names.
func exhaustiveScript(sh shape, nNames int, assignment int, full bool) []string {
	s := []string{"reset"}
	a := assignment
	for l := 1; l <= sh.leaves; l++ {
		line := fmt.Sprintf("leaf %d d.%d", l, l)
		for n := 0; n < nNames; n++ {
			line += fmt.Sprintf(" %d %s", n, symbol(a%3, l))
			a /= 3
		}
		s = append(s, line)
	}
	for _, k := range []string{"get", "put", "fm"} {
		s = append(s, fmt.Sprintf("auth %s %s", k, sh.text))
	}
	all := "authz get"
	fm := fmt.Sprintf("fm %d", nNames+1)
	for n := 0; n < nNames; n++ {
		all += fmt.Sprintf(" %d", n)
		fm += fmt.Sprintf(" %d %d", n, 2*n+1)
	}
	fm += " 0 8"
	s = append(s, all, fm)
	for n := 0; n < nNames; n++ {
		s = append(s, fmt.Sprintf("put %d %d", n, n+assignment%5))
	}
	g := assignment % nNames
	s = append(s, fmt.Sprintf("get %d %d", g, assignment%11), fmt.Sprintf("getc %d 2 %d 4", (g+1)%nNames, g))
	if nNames >= 2 {
		s = append(s, fmt.Sprintf("fm 2 %d 1 %d 2", g, (g+1)%nNames))
	}
	// the empty blob (blob 0): per instance name alone, and as the only digest of that name next to
	// non-empty digests of the other names; plus all names on the empty blob only
	// (quick tier: alone / mixed for one name each, rotating with the assignment; thorough: every name)
	only := fmt.Sprintf("fm %d", nNames)
	for n := 0; n < nNames; n++ {
		only += fmt.Sprintf(" %d 0", n)
		if full || n == (assignment/5)%nNames {
			s = append(s, fmt.Sprintf("fm 1 %d 0", n))
		}
		if nNames >= 2 && (full || n == (assignment/7)%nNames) {
			mixed := fmt.Sprintf("fm %d %d 0", nNames, n)
			for m := 0; m < nNames; m++ {
				if m != n {
					mixed += fmt.Sprintf(" %d %d", m, 2*m+2)
				}
			}
			s = append(s, mixed)
		}
	}
	s = append(s, only)
	return s
}

func pow3(k int) int {
	r := 1
	for i := 0; i < k; i++ {
		r *= 3
	}
	return r
}

func genTree(r *hx.Rand, depth int, nextLeaf *int, maxLeaves int) string {
	if depth == 0 || *nextLeaf > maxLeaves || r.Chance(2, 5) {
		if *nextLeaf > maxLeaves || r.Chance(1, 12) {
			return "A 0"
		}
		*nextLeaf++
		return fmt.Sprintf("L %d", *nextLeaf-1)
	}
	k := r.PickInt(0, 1, 2, 2, 2, 3, 3, 4)
	s := fmt.Sprintf("A %d", k)
	for i := 0; i < k; i++ {
		s += " " + genTree(r, depth-1, nextLeaf, maxLeaves)
	}
	return s
}

func genVerdict(r *hx.Rand, id int, static bool) string {
	if static {
		if r.Chance(1, 2) {
			return "a"
		}
		return "d.0"
	}
	switch x := r.Intn(10); {
	case x < 3:
		return "a"
	case x < 7:
		return fmt.Sprintf("d.%d", id)
	default:
		return fmt.Sprintf("e.%d.%d", r.PickInt(1, 2, 2, 4, 13, 14, 16, 3), r.PickInt(id, id, 2*id, 20+id))
	}
}

// genScript: random configuration (different trees per operation kind, leaves
// shared between trees) and a sequence of operations.
func genScript(r *hx.Rand, thorough bool) []string {
	s := []string{"reset"}
	nNames := r.Range(1, 6)
	maxDepth := 3
	if thorough {
		maxDepth = 4
	}
	next := 1
	var trees []string
	for i := 0; i < 3; i++ {
		if i > 0 && r.Chance(1, 4) {
			trees = append(trees, trees[i-1]) // same authorizer object for two kinds, as is common in configurations
			continue
		}
		trees = append(trees, genTree(r, r.Range(0, maxDepth), &next, next+r.Range(0, 4)))
	}
	for id := 1; id < next; id++ {
		static := r.Chance(1, 5)
		line := fmt.Sprintf("leaf %d %s", id, genVerdict(r, id, static))
		for n := 0; n < nNames; n++ {
			if r.Chance(4, 5) {
				line += fmt.Sprintf(" %d %s", n, genVerdict(r, id, static))
			}
		}
		s = append(s, line)
	}
	for i, k := range []string{"get", "put", "fm"} {
		s = append(s, fmt.Sprintf("auth %s %s", k, trees[i]))
	}
	name := func() int { return r.Intn(nNames) }
	nops := r.Range(4, 14)
	for i := 0; i < nops; i++ {
		switch x := r.Intn(100); {
		case x < 15:
			s = append(s, fmt.Sprintf("get %d %d", name(), r.Intn(12)))
		case x < 25:
			p := name()
			c := p
			if r.Chance(1, 3) {
				c = name()
			}
			s = append(s, fmt.Sprintf("getc %d %d %d %d", p, r.Intn(12), c, r.Intn(12)))
		case x < 45:
			s = append(s, fmt.Sprintf("put %d %d", name(), r.Intn(12)))
		case x < 75:
			k := r.PickInt(0, 1, 2, 3, 4, 5, 6, 8, 12)
			line := fmt.Sprintf("fm %d", k)
			// some names occur on the empty blob (blob 0) only, some on both, some never
			emptyOnly := r.Intn(1 << uint(nNames))
			if r.Chance(1, 2) {
				emptyOnly = 0
			}
			for j := 0; j < k; j++ {
				n := name()
				b := r.Intn(10)
				if emptyOnly&(1<<uint(n)) != 0 || r.Chance(1, 6) {
					b = 0
				}
				line += fmt.Sprintf(" %d %d", n, b)
			}
			s = append(s, line)
		default:
			k := r.PickInt(0, 1, 2, 3, 4, 5, 7)
			line := "authz " + []string{"get", "put", "fm"}[r.Intn(3)]
			for j := 0; j < k; j++ {
				line += fmt.Sprintf(" %d", name()) // duplicates on purpose
			}
			s = append(s, line)
		}
	}
	return s
}

// ---------------------------------------------------------------- test

func TestC18(t *testing.T) {
	run := hx.NewRun("C18")
	defer run.Finish(t)
	model, err := hx.StartModel()
	if err != nil {
		t.Fatalf("start model: %v", err)
	}
	defer model.Close()
	run.HasModel = model != nil
	run.SetRule("authorizer trees built with the real auth.NewAnyAuthorizer / NewStaticAuthorizer over scripted leaves (allow / PermissionDenied / other error per instance name), " +
		"separately for get, put and findMissing, around the real NewAuthorizingBlobAccess over a recording backend; exhaustive part: every assignment of allow/deny/error " +
		"to (leaf, name) for every tree shape in scope; random part: trees of depth <= 3 (thorough 4), <= 6 names, batches with duplicate names, mixed FindMissing sets. " +
		"A case is non-trivial when at least one operation was rejected and at least one was forwarded; distinct by script hash")

	perWhat := map[string]int{}
	check := func(name string, script []string, pre *caseResult) (failed bool, res caseResult) {
		if pre != nil {
			res = *pre
		} else {
			res = runCase(model, script)
		}
		type fd struct {
			kind, what, detail string
		}
		var fs []fd
		for _, v := range res.violations {
			fs = append(fs, fd{"oracle", v.what, v.detail})
		}
		if model != nil {
			run.Compared(len(res.model))
			for i := range res.impl {
				if i >= len(res.model) || res.impl[i] == res.model[i] {
					continue
				}
				what := "model/implementation differ"
				if strings.HasPrefix(res.lines[i], "put ") && strings.Replace(res.impl[i], " buf=0.0 ", " buf=1.0 ", 1) == res.model[i] {
					what += ": " + whatPutLeak
				}
				dup := false
				for _, f := range fs {
					if f.kind == "disagreement" && f.what == what {
						dup = true
					}
				}
				if !dup {
					fs = append(fs, fd{"disagreement", what, fmt.Sprintf("step %d %q: impl=%q model=%q", i, res.lines[i], res.impl[i], res.model[i])})
				}
			}
		}
		for _, f := range fs {
			key := f.kind + "|" + f.what
			perWhat[key]++
			if perWhat[key] > 2 {
				continue
			}
			// shrink to a minimal script with the same failure
			sh := script
			{
				sh = hx.Shrink(script, 1, func(s []string) bool {
					r2 := runCase(model, s)
					if f.kind == "oracle" {
						for _, v := range r2.violations {
							if v.what == f.what {
								return true
							}
						}
						return false
					}
					for i := range r2.impl {
						if i < len(r2.model) && r2.impl[i] != r2.model[i] {
							return true
						}
					}
					return false
				})
			}
			r3 := runCase(model, sh)
			detail := f.detail
			if f.kind == "oracle" {
				for _, v := range r3.violations {
					if v.what == f.what {
						detail = v.detail
					}
				}
			} else {
				for i := range r3.impl {
					if i < len(r3.model) && r3.impl[i] != r3.model[i] {
						detail = fmt.Sprintf("step %d %q: impl=%q model=%q", i, r3.lines[i], r3.impl[i], r3.model[i])
						break
					}
				}
			}
			run.Report(hx.Finding{Kind: f.kind, What: f.what, Detail: detail, Case: name, Script: sh, Impl: r3.impl, Model: r3.model})
		}
		return len(fs) > 0, res
	}
	record := func(res caseResult, script []string) {
		run.Case(script, res.denied > 0 && res.forwarded > 0, model != nil)
		for k, v := range res.kinds {
			run.CountN(k, v)
		}
		run.CountN("outcome:rejected", res.denied)
		run.CountN("outcome:forwarded", res.forwarded)
	}

	if name, script := run.ReplayScript(); script != nil {
		res := runCase(model, script)
		for i := range res.lines {
			m := ""
			if i < len(res.model) {
				m = res.model[i]
			}
			t.Logf("%-40s impl:  %s", res.lines[i], res.impl[i])
			t.Logf("%-40s model: %s", "", m)
		}
		for _, v := range res.violations {
			t.Logf("oracle: %s (%s)", v.what, v.detail)
		}
		check("replay/"+name, script, nil)
		return
	}
	for name, script := range run.CorpusScripts() {
		_, res := check("corpus/"+name, script, nil)
		record(res, script)
	}

	// Cases are run on the real code one by one; their model lines are sent in chunks (one pipe
	// round trip per chunk). A case with an oracle hit or a differing reply goes through check().
	type pending struct {
		name   string
		script []string
		res    caseResult
	}
	var queue []pending
	queued := 0
	flush := func() {
		if len(queue) == 0 {
			return
		}
		var replies []string
		if model != nil {
			lines := make([]string, 0, queued)
			for _, p := range queue {
				lines = append(lines, p.res.lines...)
			}
			replies = model.Batch(lines)
		}
		off := 0
		for _, p := range queue {
			bad := len(p.res.violations) > 0
			if model != nil {
				p.res.model = replies[off : off+len(p.res.lines)]
				for i, r := range p.res.impl {
					if p.res.model[i] != r {
						bad = true
					}
				}
				off += len(p.res.lines)
			}
			if bad {
				check(p.name, p.script, &p.res)
			} else if model != nil {
				run.Compared(len(p.res.lines))
			}
			record(p.res, p.script)
		}
		queue, queued = queue[:0], 0
	}
	submit := func(name string, script []string) {
		res := runCase(nil, script)
		queue = append(queue, pending{name, script, res})
		queued += len(res.lines)
		if queued >= 4000 {
			flush()
		}
	}

	// ---- exhaustive part
	maxDepth := run.Scale(2, 3)
	all := shapes(3, maxDepth)
	exhaustiveCases := 0
	complete := true
	for _, sh := range all {
		if sh.leaves == 0 {
			// no leaves: a single case
			script := exhaustiveScript(sh, 3, 0, true)
			submit("exh/"+sh.text, script)
			exhaustiveCases++
			run.Count("exhaustive:shape")
			continue
		}
		nNames := 3
		total := pow3(nNames * sh.leaves)
		for a := 0; a < total; a++ {
			script := exhaustiveScript(sh, nNames, a, run.Thorough())
			submit(fmt.Sprintf("exh/%s/n%d/%d", sh.text, nNames, a), script)
			exhaustiveCases++
		}
		run.Count("exhaustive:shape")
		run.Count(fmt.Sprintf("exhaustive:leaves=%d,names=%d", sh.leaves, nNames))
	}
	flush()
	run.SetExhaustive(complete)
	run.Extra("exhaustive_shapes", len(all))
	run.Extra("exhaustive_cases", exhaustiveCases)
	run.Extra("exhaustive_scope", fmt.Sprintf("all authorizer trees with <= 3 units (leaf or empty any), any-nesting <= %d, <= 3 members per any; every assignment of allow/deny/error per (leaf, instance name) over 3 names; per assignment: Authorize on the full batch, FindMissing over all names and over two names, FindMissing of the empty blob for a name alone / as the only digest of a name next to non-empty digests of the other names (thorough: for every name; quick: one name each, rotating with the assignment) / for all names, Put per name, Get, GetFromComposite", maxDepth))

	// ---- random part
	n := run.Scale(6000, 150000)
	for i := 0; i < n; i++ {
		r := hx.NewRand(run.Seed, "C18", i)
		script := genScript(r, run.Thorough())
		submit(fmt.Sprintf("seed%d/case%d", run.Seed, i), script)
	}
	flush()
}
