package c14

import (
	"fmt"
	"strconv"
	"strings"

	"google.golang.org/grpc/codes"
)

// result of running one script on the real code.
type runResult struct {
	steps      []*step
	modelLines []string // what to send to the model ...
	implLines  []string // ... and what the real code answered, line by line
	reqOf      []string // the script line a model line belongs to
	err        error
}

func (r *runResult) add(req, modelLine, impl string) {
	r.modelLines = append(r.modelLines, modelLine)
	r.implLines = append(r.implLines, canon(req, impl))
	r.reqOf = append(r.reqOf, req)
}

// decLines declares the decoder's behaviour on the data of a zstd upload cut at every message boundary.
func decLines(op *writeOp, seen map[string]bool) []string {
	var out []string
	var acc []byte
	emit := func() {
		k := hexs(acc)
		if seen[k] {
			return
		}
		seen[k] = true
		o, fin := zdecode(acc)
		out = append(out, fmt.Sprintf("dec %s %s %s", k, fin, hexs(o)))
	}
	emit()
	for _, m := range op.msgs {
		acc = append(acc, m.data...)
		emit()
	}
	return out
}

func runScript(script []string, fl flags) *runResult {
	res := &runResult{}
	if len(script) == 0 {
		res.err = fmt.Errorf("empty script")
		return res
	}
	cs, maxMsg, err := parseCfg(script[0])
	if err != nil {
		res.err = err
		return res
	}
	w := newWorld(cs, maxMsg)
	w.fl = fl
	res.add(script[0], "reset", "ok")
	res.add(script[0], fl.cfgLine(cs, maxMsg), "ok")
	decSeen := map[string]bool{}
	for _, line := range script[1:] {
		f := strings.Fields(line)
		if len(f) == 0 {
			continue
		}
		st := &step{line: line, casBefore: w.cas.copyMap(), acBefore: w.ac.copyMap(),
			faultPut: w.cas.putErr, faultPutEarly: w.cas.putEarly, faultGet: w.cas.getErr, faultFm: w.cas.fmErr,
			streamPiece: w.cas.streamPiece, streamFail: w.cas.streamFail}
		w.cas.fmAsked = nil
		casPuts0, acPuts0 := len(w.cas.putLog), len(w.ac.putLog)
		mutating := false
		switch f[0] {
		case "store", "acstore":
			want := 4
			if f[0] == "acstore" {
				want = 5
			}
			if len(f) != want {
				res.err = fmt.Errorf("bad line %q", line)
				return res
			}
			data, err := unhex(f[3])
			n, err2 := strconv.ParseInt(f[2], 10, 64)
			if err != nil || err2 != nil {
				res.err = fmt.Errorf("bad line %q", line)
				return res
			}
			if f[0] == "store" {
				w.cas.blobs[key(f[1], n)] = data
			} else {
				w.ac.blobs[key(f[1], n)] = data
			}
			st.reply = "ok"
		case "getmode":
			switch {
			case len(f) == 2 && f[1] == "slice":
				w.cas.streamPiece = 0
			case len(f) == 5 && f[1] == "stream":
				piece, err1 := strconv.Atoi(f[2])
				code, err2 := strconv.Atoi(f[4])
				k := -1
				var err3 error
				if f[3] != "-" {
					k, err3 = strconv.Atoi(f[3])
				}
				if err1 != nil || err2 != nil || err3 != nil || piece <= 0 {
					res.err = fmt.Errorf("bad line %q", line)
					return res
				}
				w.cas.streamPiece, w.cas.streamFail, w.cas.streamCode = piece, k, codes.Code(code)
			default:
				res.err = fmt.Errorf("bad line %q", line)
				return res
			}
			st.reply = "ok"
		case "fault":
			code := func(i int) codes.Code {
				if len(f) <= i {
					return codes.Unknown
				}
				c, _ := strconv.Atoi(f[i])
				return codes.Code(c)
			}
			switch {
			case len(f) == 2 && f[1] == "clear":
				for _, b := range []*memBackend{w.cas, w.ac} {
					b.putErr, b.putEarly, b.getErr, b.fmErr = 0, false, 0, 0
				}
			case len(f) == 4 && f[1] == "put":
				for _, b := range []*memBackend{w.cas, w.ac} {
					b.putErr, b.putEarly = code(2), f[3] == "1"
				}
			case len(f) == 3 && f[1] == "get":
				w.cas.getErr, w.ac.getErr = code(2), code(2)
			case len(f) == 3 && f[1] == "fm":
				w.cas.fmErr = code(2)
			default:
				res.err = fmt.Errorf("bad line %q", line)
				return res
			}
			st.reply = "ok"
		case "write":
			op, err := parseWrite(line)
			if err != nil {
				res.err = err
				return res
			}
			if strings.HasPrefix(op.kind, "zstd") {
				for _, d := range decLines(op, decSeen) {
					res.add(line, d, "ok")
				}
			}
			st.reply = w.execWrite(op)
			mutating = true
		case "read":
			op, err := parseRead(line)
			if err != nil {
				res.err = err
				return res
			}
			st.reply, st.read = w.execRead(op)
		case "bupd", "bread", "fmb":
			op, err := parseBatch(line)
			if err != nil {
				res.err = err
				return res
			}
			st.reply, st.batch = w.execBatch(op)
			mutating = f[0] == "bupd"
		case "acput", "acget":
			st.reply = w.execAC(line)
			mutating = f[0] == "acput"
		case "cput", "cget", "cfm", "cacput", "cacget":
			st.reply = w.execClient(line)
			mutating = f[0] == "cput" || f[0] == "cacput"
		case "bigget", "bigfront", "stallget", "bigput":
			// harness-only: judged by the oracle, not sent to the model
			if f[0] == "stallget" {
				pieces, err1 := strconv.Atoi(f[1])
				k, err2 := strconv.Atoi(f[len(f)-1])
				if len(f) != 3 || err1 != nil || err2 != nil || pieces < 1 || pieces > 16 || k < 0 || k > 3 {
					res.err = fmt.Errorf("bad line %q", line)
					return res
				}
				st.reply = w.execStall(pieces, k)
			} else {
				st.reply = w.execBig(line)
			}
			st.casAfter, st.acAfter = w.cas.copyMap(), w.ac.copyMap()
			res.steps = append(res.steps, st)
			continue
		case "dump":
			st.reply = dumpLine(w.cas, w.ac)
		default:
			res.err = fmt.Errorf("unknown script line %q", line)
			return res
		}
		st.casAfter, st.acAfter = w.cas.copyMap(), w.ac.copyMap()
		st.fmAsked = w.cas.fmAsked
		st.casPuts = append([]string{}, w.cas.putLog[casPuts0:]...)
		st.acPuts = append([]string{}, w.ac.putLog[acPuts0:]...)
		res.steps = append(res.steps, st)
		res.add(line, line, st.reply)
		if mutating {
			res.add(line, "dump", dumpLine(w.cas, w.ac))
		}
	}
	return res
}
