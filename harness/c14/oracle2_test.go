package c14

import (
	"bytes"
	"fmt"
	"sort"
	"strconv"
	"strings"
)

func sizeOf(s string) int64 {
	n, _ := strconv.ParseInt(s, 10, 64)
	return n
}

func callOK(call string) bool {
	base, _, _ := strings.Cut(call, ".")
	return base == "ok"
}

func sameSet(a, b []string) bool {
	x := append([]string{}, a...)
	y := append([]string{}, b...)
	sort.Strings(x)
	sort.Strings(y)
	return strings.Join(x, " ") == strings.Join(y, " ")
}

func oracleBatch(st *step, maxMsg int) *verdict {
	op, err := parseBatch(st.line)
	if err != nil || st.batch == nil {
		return nil
	}
	o := st.batch
	changed := diffMaps(st.casBefore, st.casAfter)
	switch op.verb {
	case "bupd":
		// expected backend: before + every well-formed entry whose data matches (no fault)
		want := map[string][]byte{}
		for k, v := range st.casBefore {
			want[k] = v
		}
		wholeFails := len(op.entries) > 0 && !callOK(op.call)
		if o.err != nil || wholeFails {
			if len(changed) != 0 || len(st.casPuts) != 0 {
				return &verdict{whatFailedStored, fmt.Sprintf("%s: changed %v", st.reply, changed)}
			}
			if o.err == nil && len(op.entries) > 0 {
				return &verdict{whatBatchUpd, "request with an invalid instance name / digest function was served: " + st.reply}
			}
			return nil
		}
		if len(o.statuses) != len(op.entries) {
			return &verdict{whatBatchUpd, fmt.Sprintf("%d statuses for %d entries", len(o.statuses), len(op.entries))}
		}
		for i, e := range op.entries {
			good := wellFormedDigest(e.hash, e.size) && matches(e.hash, sizeOf(e.size), e.data)
			if good && st.faultPut == 0 {
				want[key(e.hash, sizeOf(e.size))] = e.data
			}
			okStatus := o.statuses[i] == "0"
			if okStatus != (good && st.faultPut == 0) {
				return &verdict{whatBatchUpd, fmt.Sprintf("entry %d (matches=%v, backend fault=%d): status %s", i, good, st.faultPut, o.statuses[i])}
			}
		}
		if d := diffMaps(want, st.casAfter); len(d) != 0 {
			return &verdict{whatCollateral, fmt.Sprintf("backend differs from before + matching entries at %v", d)}
		}
	case "bread":
		if len(changed) != 0 {
			return &verdict{whatCollateral, "BatchReadBlobs changed the backend"}
		}
		if o.err != nil {
			return nil
		}
		if len(op.entries) > 0 && !callOK(op.call) {
			return &verdict{whatBatchRead, "request with an invalid instance name / digest function was served: " + st.reply}
		}
		if len(o.statuses) != len(op.entries) {
			return &verdict{whatBatchRead, fmt.Sprintf("%d responses for %d entries", len(o.statuses), len(op.entries))}
		}
		total := int64(0)
		for i, e := range op.entries {
			if !wellFormedDigest(e.hash, e.size) {
				return &verdict{whatBatchRead, fmt.Sprintf("entry %d has a malformed digest but the call succeeded", i)}
			}
			size := sizeOf(e.size)
			total += size
			stored, present := st.casBefore[key(e.hash, size)]
			good := present && matches(e.hash, size, stored) && st.faultGet == 0
			if o.statuses[i] == "0" {
				if !good || !bytes.Equal(o.datas[i], stored) {
					return &verdict{whatBatchRead, fmt.Sprintf("entry %d: delivered %x, stored %x (present=%v)", i, o.datas[i], stored, present)}
				}
			} else {
				if len(o.datas[i]) != 0 {
					return &verdict{whatBatchRead, fmt.Sprintf("entry %d: data with error status %s", i, o.statuses[i])}
				}
				if good {
					return &verdict{whatBatchRead, fmt.Sprintf("entry %d: stored matching object not delivered: %s", i, o.statuses[i])}
				}
				if !present && st.faultGet == 0 && !strings.HasPrefix(o.statuses[i], "5.") {
					return &verdict{whatBatchRead, fmt.Sprintf("entry %d: absent object reported as %s", i, o.statuses[i])}
				}
			}
		}
		if total > int64(maxMsg) {
			return &verdict{whatBatchLimit, fmt.Sprintf("%d bytes requested with a limit of %d, call succeeded", total, maxMsg)}
		}
	case "fmb":
		if len(changed) != 0 {
			return &verdict{whatCollateral, "FindMissingBlobs changed the backend"}
		}
		if o.err != nil {
			return nil
		}
		if len(op.entries) == 0 {
			if len(o.missing) != 0 {
				return &verdict{whatFindMissing, st.reply}
			}
			return nil
		}
		if !callOK(op.call) {
			return &verdict{whatFindMissing, "request with an invalid instance name / digest function was served: " + st.reply}
		}
		seen := map[string]bool{}
		var want, asked []string
		for i, e := range op.entries {
			if !wellFormedDigest(e.hash, e.size) {
				return &verdict{whatFindMissing, fmt.Sprintf("entry %d has a malformed digest but the call succeeded", i)}
			}
			k := key(e.hash, sizeOf(e.size))
			if seen[k] {
				continue
			}
			seen[k] = true
			asked = append(asked, k)
			if _, ok := st.casBefore[k]; !ok {
				want = append(want, k)
			}
		}
		if !sameSet(want, o.missing) {
			return &verdict{whatFindMissing, fmt.Sprintf("want %v got %v", want, o.missing)}
		}
		if len(st.fmAsked) != 1 || !sameSet(st.fmAsked[0], asked) {
			return &verdict{whatFindMissing, fmt.Sprintf("backend asked %v, request was %v", st.fmAsked, asked)}
		}
	}
	return nil
}

func oracleClient(st *step) *verdict {
	secs := splitSections(strings.Fields(st.line))
	h := secs[0]
	changed := diffMaps(st.casBefore, st.casAfter)
	switch h[0] {
	case "cput":
		data, _ := unhex(h[4])
		size := sizeOf(h[3])
		k := key(h[2], size)
		good := matches(h[2], size, data) && st.faultPut == 0
		want := map[string][]byte{}
		for kk, v := range st.casBefore {
			want[kk] = v
		}
		if good {
			want[k] = data
		}
		if d := diffMaps(want, st.casAfter); len(d) != 0 {
			return &verdict{whatClient, fmt.Sprintf("Put (data matches digest: %v): reply %q, backend differs from expectation at %v", good, st.reply, d)}
		}
		if (st.reply == "ok") != good {
			return &verdict{whatClient, fmt.Sprintf("Put (data matches digest: %v): reply %q", good, st.reply)}
		}
	case "cget":
		size := sizeOf(h[3])
		stored, present := st.casBefore[key(h[2], size)]
		good := present && matches(h[2], size, stored) && st.faultGet == 0
		if len(changed) != 0 {
			return &verdict{whatCollateral, "client Get changed the backend"}
		}
		if good && h[1] == "1" && st.reply == "err 13 size" {
			return &verdict{whatD10, fmt.Sprintf("Get of the intact %d byte object: reply %q", size, st.reply)}
		}
		if good != (st.reply == "ok "+hexs(stored)) || (!good && strings.HasPrefix(st.reply, "ok")) {
			return &verdict{whatClient, fmt.Sprintf("Get of %x (present=%v): reply %q", stored, present, st.reply)}
		}
		if !present && st.faultGet == 0 && !strings.HasPrefix(st.reply, "err 5 ") {
			return &verdict{whatClient, fmt.Sprintf("Get of an absent object: reply %q", st.reply)}
		}
	case "cfm":
		if len(changed) != 0 {
			return &verdict{whatCollateral, "client FindMissing changed the backend"}
		}
		if st.faultFm != 0 {
			if strings.HasPrefix(st.reply, "ok") && len(secs) > 1 {
				return &verdict{whatClient, "FindMissing succeeded although the backend failed"}
			}
			return nil
		}
		// the backend's answer for this set: every requested digest (told apart by digest
		// function and instance name) whose object it does not hold
		var want []string
		seen := map[string]bool{}
		for _, s := range secs[1:] {
			tag, hash, size, err := cfmEntry(s)
			if err != nil {
				return nil
			}
			k := refKey(tag, hash, sizeOf(size))
			if _, ok := st.casBefore[k]; !ok && !seen[tag+"/"+k] {
				want = append(want, tag+"/"+k)
			}
			seen[tag+"/"+k] = true
		}
		if !strings.HasPrefix(st.reply, "ok") || !sameSet(want, strings.Fields(st.reply)[1:]) {
			return &verdict{whatClientFM, fmt.Sprintf("want %v, reply %q", want, st.reply)}
		}
	}
	return nil
}

// oracleACClient: the AC client and server back to back behave like a map keyed by digest
// function, hash and size: Put stores the message under exactly the named key, Get returns
// what is stored under it.
func oracleACClient(st *step) *verdict {
	f := strings.Fields(st.line)
	k := refKey(f[1], f[2], sizeOf(f[3]))
	changed := diffMaps(st.acBefore, st.acAfter)
	switch f[0] {
	case "cacput":
		msg, _ := unhex(f[4])
		want := map[string][]byte{}
		for kk, v := range st.acBefore {
			want[kk] = v
		}
		if st.faultPut == 0 {
			want[k] = msg
		}
		if d := diffMaps(want, st.acAfter); len(d) != 0 {
			return &verdict{whatACClient, fmt.Sprintf("Put under %s: reply %q, backend differs from the reference at %v", k, st.reply, d)}
		}
		if (st.reply == "ok") != (st.faultPut == 0) {
			return &verdict{whatACClient, fmt.Sprintf("Put under %s: reply %q", k, st.reply)}
		}
	case "cacget":
		if len(changed) != 0 {
			return &verdict{whatCollateral, "AC client Get changed the backend"}
		}
		stored, present := st.acBefore[k]
		good := present && st.faultGet == 0
		if good != (st.reply == "ok "+hexs(stored)) || (!good && strings.HasPrefix(st.reply, "ok")) {
			return &verdict{whatACClient, fmt.Sprintf("Get of %s (stored %x, present=%v): reply %q", k, stored, present, st.reply)}
		}
		if !present && st.faultGet == 0 && !strings.HasPrefix(st.reply, "err 5 ") {
			return &verdict{whatACClient, fmt.Sprintf("Get of absent %s: reply %q", k, st.reply)}
		}
	}
	return nil
}

func oracleAC(st *step, maxMsg int) *verdict {
	f := strings.Fields(st.line)
	k := key(f[2], sizeOf(f[3]))
	changed := diffMaps(st.acBefore, st.acAfter)
	switch f[0] {
	case "acput":
		msg, _ := unhex(f[4])
		if callOK(f[1]) && st.faultPut == 0 {
			if st.reply != "ok" || !bytes.Equal(st.acAfter[k], msg) {
				return &verdict{whatAC, fmt.Sprintf("Update: reply %q, stored %x, message %x", st.reply, st.acAfter[k], msg)}
			}
			for _, c := range changed {
				if c != k {
					return &verdict{whatCollateral, fmt.Sprintf("UpdateActionResult changed %v", changed)}
				}
			}
			return nil
		}
		if st.reply == "ok" || len(changed) != 0 {
			return &verdict{whatAC, fmt.Sprintf("Update with an invalid request / failing backend: reply %q, changed %v", st.reply, changed)}
		}
	case "acget":
		if len(changed) != 0 {
			return &verdict{whatCollateral, "GetActionResult changed the backend"}
		}
		stored, present := st.acBefore[k]
		if strings.HasPrefix(st.reply, "ok") {
			if !callOK(f[1]) || !present || st.faultGet != 0 || st.reply != "ok "+hexs(stored) || len(stored) > maxMsg {
				return &verdict{whatAC, fmt.Sprintf("Get: reply %q, stored %x (present=%v)", st.reply, stored, present)}
			}
		} else if callOK(f[1]) && !present && st.faultGet == 0 && !strings.HasPrefix(st.reply, "err 5 ") {
			return &verdict{whatAC, fmt.Sprintf("Get of an absent result: reply %q", st.reply)}
		}
	}
	return nil
}

// oracle applies the property statement to every step of a run.
func oracle(res *runResult, cs, maxMsg int) *verdict {
	tornDown := false // an earlier stream of this case was aborted
	for _, st := range res.steps {
		if strings.HasPrefix(st.reply, "panic") {
			return &verdict{whatPanic, st.line + " -> " + st.reply}
		}
		if strings.HasPrefix(st.reply, "anomaly") {
			return &verdict{"the service response is inconsistent: " + strings.Join(strings.Fields(st.reply)[1:], " "), st.line}
		}
		var v *verdict
		switch strings.Fields(st.line)[0] {
		case "write":
			v = oracleWrite(st)
		case "read":
			v = oracleRead(st, cs)
			if v != nil && v.what == whatReadFailed && tornDown && strings.HasPrefix(strings.Fields(st.line)[1], "zstd") {
				v.what = whatReadAfterAbort
			}
		case "cacput", "cacget":
			v = oracleACClient(st)
		case "bigget", "bigfront", "stallget", "bigput":
			switch {
			case st.reply == "ok":
			case strings.HasPrefix(st.reply, "put-result"):
				v = &verdict{whatBigPut, st.reply}
			case st.reply == "hang close recv" || st.reply == "hang close decoder":
				// the decoder is closed before the pipe it reads from / Recv is called by Close
				// concurrently with the goroutine feeding the decoder
				v = &verdict{whatD11, st.reply}
			case strings.HasPrefix(st.reply, "hang close"):
				v = &verdict{whatBigClose, st.reply}
			case st.reply == "hang read":
				v = &verdict{whatBigFront, st.reply}
			default:
				v = &verdict{whatClient, st.reply}
			}
		case "bupd", "bread", "fmb":
			v = oracleBatch(st, maxMsg)
		case "cput", "cget", "cfm":
			v = oracleClient(st)
		case "acput", "acget":
			v = oracleAC(st, maxMsg)
		default:
			if d := diffMaps(st.casBefore, st.casAfter); len(d) != 0 && !strings.HasPrefix(st.line, "store") {
				v = &verdict{whatCollateral, st.line}
			}
		}
		if v != nil {
			v.detail = st.line + ": " + v.detail
			return v
		}
		if aborted(st) {
			tornDown = true
		}
	}
	return nil
}

// aborted: the step's stream was torn down (Recv/Send error, failing medium) or ended in an error.
func aborted(st *step) bool {
	f := strings.Fields(st.line)
	switch f[0] {
	case "write":
		return f[4] != "eof" || strings.HasPrefix(st.reply, "err")
	case "read":
		return f[6] != "0" || (st.streamPiece > 0 && st.streamFail >= 0) || strings.HasPrefix(st.reply, "err")
	}
	return false
}
