package c14

import (
	"bytes"
	"fmt"
	"strings"

	"github.com/klauspost/compress/zstd"

	"verifharness/hx"
)

type blob struct {
	data []byte
	hash string
	size int64
}

func mkBlob(data []byte) blob { return blob{data, sha(data), int64(len(data))} }

func genContent(r *hx.Rand) []byte {
	switch r.Intn(10) {
	case 0:
		return nil
	case 1:
		return r.Bytes(1)
	case 2, 3, 4, 5:
		return r.Bytes(r.Range(2, 12))
	case 6, 7:
		return bytes.Repeat(r.Bytes(r.Range(1, 4)), r.Range(2, 12))
	case 8:
		return r.Bytes(r.Range(13, 70))
	}
	return bytes.Repeat(r.Bytes(r.Range(3, 9)), r.Range(10, 40))
}

// genCompressed produces a real zstd stream for content: one frame, several frames,
// or one frame with flushed blocks; with or without content checksum.
func genCompressed(r *hx.Rand, content []byte) []byte {
	var opts []zstd.EOption
	if r.Chance(1, 3) {
		opts = append(opts, zstd.WithEncoderCRC(false))
	}
	switch r.Intn(4) {
	case 0:
		if len(content) >= 2 {
			k := r.Range(1, len(content)-1)
			return append(zcompress(content[:k], opts...), zcompress(content[k:], opts...)...)
		}
	case 1:
		if len(content) >= 2 {
			var buf bytes.Buffer
			w, _ := zstd.NewWriter(&buf, opts...)
			k := r.Range(1, len(content)-1)
			w.Write(content[:k])
			w.Flush()
			w.Write(content[k:])
			w.Close()
			return buf.Bytes()
		}
	}
	return zcompress(content, opts...)
}

// cut splits payload into n pieces (some possibly empty).
func cut(r *hx.Rand, payload []byte, n int) [][]byte {
	pts := make([]int, 0, n+1)
	pts = append(pts, 0)
	for i := 1; i < n; i++ {
		pts = append(pts, r.Range(0, len(payload)))
	}
	pts = append(pts, len(payload))
	for i := 1; i < len(pts); i++ { // insertion sort
		for j := i; j > 0 && pts[j-1] > pts[j]; j-- {
			pts[j-1], pts[j] = pts[j], pts[j-1]
		}
	}
	out := make([][]byte, 0, n)
	for i := 0; i < n; i++ {
		out = append(out, payload[pts[i]:pts[i+1]])
	}
	return out
}

func validMsgs(r *hx.Rand, payload []byte) []wmsg {
	n := r.PickInt(1, 1, 2, 2, 3, 4, 5)
	pieces := cut(r, payload, n)
	var msgs []wmsg
	off := int64(0)
	for _, p := range pieces {
		msgs = append(msgs, wmsg{off, p, false})
		off += int64(len(p))
	}
	if r.Chance(1, 2) {
		msgs = append(msgs, wmsg{off, nil, true}) // the shape this repository's client sends
	} else {
		msgs[len(msgs)-1].fin = true
	}
	return msgs
}

func writeLine(op *writeOp) string {
	var sb strings.Builder
	fmt.Fprintf(&sb, "write %s %s %s %s %d", op.kind, op.hash, op.size, op.end, op.sendErr)
	for _, m := range op.msgs {
		f := 0
		if m.fin {
			f = 1
		}
		fmt.Fprintf(&sb, " ; %d %s %d", m.off, hexs(m.data), f)
	}
	return sb.String()
}

var streamErrs = []string{"e1", "e4", "e14", "e13"}

func pickKind(r *hx.Rand, base string) string {
	return base + []string{"", "", ".i", ".t", ".it"}[r.Intn(5)]
}

// genWrite builds one Write: a valid upload of b, usually damaged in one or two ways.
func genWrite(r *hx.Rand, b blob, run *hx.Run) *writeOp {
	op := &writeOp{hash: b.hash, size: fmt.Sprint(b.size), end: "eof"}
	zst := r.Chance(2, 5)
	payload := b.data
	if zst {
		op.kind = pickKind(r, "zstd")
		payload = genCompressed(r, b.data)
	} else {
		op.kind = pickKind(r, "id")
	}
	op.msgs = validMsgs(r, payload)
	nmut := r.PickInt(0, 0, 0, 1, 1, 1, 1, 2, 2, 3)
	for i := 0; i < nmut; i++ {
		m := r.Intn(22)
		run.Count(fmt.Sprintf("mut:%02d", m))
		k := r.Intn(len(op.msgs) + 1)
		if k == len(op.msgs) && len(op.msgs) > 0 {
			k--
		}
		switch m {
		case 0: // gap / overlap at any message, also the first
			if len(op.msgs) > 0 {
				op.msgs[k].off += int64(r.PickInt(1, 1, 2, 7, -1, -1, -2, 100))
			}
		case 1: // first offset non-zero, rest shifted consistently
			d := int64(r.PickInt(1, 7, 100, -1))
			for j := range op.msgs {
				op.msgs[j].off += d
			}
		case 2: // first offset non-zero only
			if len(op.msgs) > 0 {
				op.msgs[0].off = int64(r.PickInt(1, 7, -1, 1<<40))
			}
		case 3: // finish_write missing
			for j := range op.msgs {
				op.msgs[j].fin = false
			}
		case 4: // request after finish_write
			off := int64(0)
			for _, x := range op.msgs {
				off += int64(len(x.data))
			}
			extra := wmsg{off, nil, r.Chance(1, 2)}
			if r.Chance(1, 2) {
				extra.data = r.Bytes(r.Range(1, 3))
			}
			if r.Chance(1, 4) {
				extra.off = int64(r.Intn(5))
			}
			op.msgs = append(op.msgs, extra)
		case 5: // finish_write early
			if len(op.msgs) > 0 {
				op.msgs[k].fin = true
			}
		case 6: // early close
			op.msgs = op.msgs[:k]
		case 7: // stream breaks at some message
			op.msgs = op.msgs[:k]
			op.end = streamErrs[r.Intn(len(streamErrs))]
		case 8: // stream breaks after everything was sent
			op.end = streamErrs[r.Intn(len(streamErrs))]
		case 9: // two messages swapped
			if len(op.msgs) >= 2 {
				j := r.Intn(len(op.msgs) - 1)
				op.msgs[j], op.msgs[j+1] = op.msgs[j+1], op.msgs[j]
			}
		case 10: // a byte flipped
			if len(op.msgs) > 0 && len(op.msgs[k].data) > 0 {
				d := append([]byte{}, op.msgs[k].data...)
				d[r.Intn(len(d))] ^= byte(1 << r.Intn(8))
				op.msgs[k].data = d
			}
		case 11: // digest claims another size
			op.size = fmt.Sprint(b.size + int64(r.PickInt(1, -1, 2, 10)))
			if strings.HasPrefix(op.size, "-") {
				op.size = "1"
			}
		case 12: // digest claims another hash
			op.hash = sha(append([]byte("x"), b.data...))
		case 13: // a message duplicated (same offset again)
			if len(op.msgs) > 0 {
				op.msgs = append(op.msgs[:k+1], op.msgs[k:]...)
			}
		case 14: // data appended to a message without moving the later offsets
			if len(op.msgs) > 0 {
				op.msgs[k].data = append(append([]byte{}, op.msgs[k].data...), r.Bytes(r.Range(1, 3))...)
			}
		case 15: // compressed stream cut short / data cut short, offsets kept consistent
			cutTail(r, op)
		case 16: // trailing garbage or a partial next frame, offsets consistent
			appendTail(r, op, payload)
		case 17:
			op.sendErr = r.PickInt(14, 1, 13)
		case 18: // other resource names
			op.kind = []string{"unsupported", "unsupported.b", "unknown", "bad.0", "bad.1", "bad.2", "bad.3", "bad.4", "bad.5", "bad.6", "bad.7", "bad.8"}[r.Intn(12)]
		case 19: // no request at all
			op.msgs = nil
			if r.Chance(1, 2) {
				op.end = streamErrs[r.Intn(len(streamErrs))]
			}
		case 20: // an empty request inserted (consistent offset)
			if len(op.msgs) > 0 {
				ins := wmsg{op.msgs[k].off, nil, false}
				op.msgs = append(op.msgs[:k], append([]wmsg{ins}, op.msgs[k:]...)...)
			}
		case 21: // all data in one message after empty ones
			if len(op.msgs) > 0 {
				op.msgs = append([]wmsg{{0, nil, false}, {0, nil, false}}, op.msgs...)
			}
		}
	}
	return op
}

// lastData is the index of the last message that carries data up to the first finish_write (-1 if none).
func lastData(op *writeOp) int {
	idx := -1
	for i, m := range op.msgs {
		if len(m.data) > 0 {
			idx = i
		}
		if m.fin {
			break
		}
	}
	return idx
}

func cutTail(r *hx.Rand, op *writeOp) {
	i := lastData(op)
	if i < 0 {
		return
	}
	n := r.PickInt(1, 1, 2, 3, 4, 5, 8)
	if n > len(op.msgs[i].data) {
		n = len(op.msgs[i].data)
	}
	op.msgs[i].data = op.msgs[i].data[:len(op.msgs[i].data)-n]
	for j := i + 1; j < len(op.msgs); j++ {
		op.msgs[j].off -= int64(n)
	}
}

func appendTail(r *hx.Rand, op *writeOp, payload []byte) {
	i := lastData(op)
	if i < 0 {
		return
	}
	var tail []byte
	switch r.Intn(3) {
	case 0:
		tail = r.Bytes(r.Range(1, 5))
	case 1: // the beginning of another frame
		n := r.Range(1, 6)
		if n > len(payload) {
			n = len(payload)
		}
		tail = payload[:n]
	case 2: // a whole second copy
		tail = payload
	}
	op.msgs[i].data = append(append([]byte{}, op.msgs[i].data...), tail...)
	for j := i + 1; j < len(op.msgs); j++ {
		op.msgs[j].off += int64(len(tail))
	}
}

func pickCS(r *hx.Rand) int { return r.PickInt(1, 2, 3, 4, 5, 8, 16, 16, 64) }

func storeLine(b blob) string { return fmt.Sprintf("store %s %d %s", b.hash, b.size, hexs(b.data)) }

// corruptStore stores bytes under a digest they do not match.
func corruptStore(r *hx.Rand, b blob) string {
	d := append([]byte{}, b.data...)
	switch {
	case len(d) == 0 || r.Chance(1, 3):
		d = append(d, 7)
	case r.Chance(1, 2):
		d = d[:len(d)-1]
	default:
		d[r.Intn(len(d))] ^= 0x20
	}
	return fmt.Sprintf("store %s %d %s", b.hash, b.size, hexs(d))
}

func genFault(r *hx.Rand) string {
	switch r.Intn(4) {
	case 0:
		return fmt.Sprintf("fault put %d %d", r.PickInt(14, 8, 13), r.Intn(2))
	case 1:
		return fmt.Sprintf("fault get %d", r.PickInt(14, 13, 4))
	case 2:
		return fmt.Sprintf("fault fm %d", r.PickInt(14, 13))
	}
	return "fault clear"
}

func genOffset(r *hx.Rand, size int64, cs int) int64 {
	switch r.Intn(9) {
	case 0:
		return 0
	case 1:
		return size
	case 2:
		return size + int64(r.PickInt(1, 1, 2, 1000))
	case 3:
		return -int64(r.PickInt(1, 1, 5))
	case 4:
		return int64(cs) * int64(r.Intn(3))
	case 5:
		return size - 1
	case 6:
		return 1
	}
	if size <= 0 {
		return 0
	}
	return int64(r.Intn(int(size) + 1))
}

func readLine(r *hx.Rand, b blob, cs int, zfail bool) string {
	kind := "id"
	switch r.Intn(12) {
	case 0, 1, 2, 3:
		kind = "zstd"
	case 4:
		kind = []string{"unsupported", "unknown", "bad.0", "bad.1", "bad.2", "bad.3", "bad.4", "bad.6", "bad.8"}[r.Intn(9)]
	}
	if (kind == "id" || kind == "zstd") && r.Chance(1, 3) {
		kind += ".i"
	}
	limit := 0
	if r.Chance(1, 12) {
		limit = r.PickInt(1, 5, -1)
	}
	failAt := 0
	if r.Chance(1, 8) {
		failAt = r.Range(1, 4)
		if strings.HasPrefix(kind, "zstd") {
			// how the encoder cuts its output into Sends is its own business: only "the first
			// Send fails" is scripted, and only on a tree whose compressed path reports it
			failAt = 1
			if !zfail {
				failAt = 0
			}
		}
	}
	return fmt.Sprintf("read %s %s %d %d %d %d", kind, b.hash, b.size, genOffset(r, b.size, cs), limit, failAt)
}

// genWriteCase: one or two uploads, each followed by reads showing what became visible.
func genWriteCase(r *hx.Rand, run *hx.Run) []string {
	cs := pickCS(r)
	script := []string{fmt.Sprintf("#cfg %d %d", cs, 200)}
	n := r.PickInt(1, 1, 1, 2)
	for i := 0; i < n; i++ {
		b := mkBlob(genContent(r))
		if r.Chance(1, 8) {
			script = append(script, genFault(r))
		}
		op := genWrite(r, b, run)
		script = append(script, writeLine(op))
		if r.Chance(1, 2) {
			script = append(script, fmt.Sprintf("read id %s %s 0 0 0", op.hash, op.size))
		}
		if r.Chance(1, 6) {
			script = append(script, fmt.Sprintf("fmb ok ; 0 %s %s", op.hash, op.size))
		}
	}
	return script
}

func genReadCase(r *hx.Rand, zfail bool) []string {
	cs := pickCS(r)
	script := []string{fmt.Sprintf("#cfg %d %d", cs, 200)}
	var blobs []blob
	for i, n := 0, r.Range(1, 3); i < n; i++ {
		b := mkBlob(genContent(r))
		blobs = append(blobs, b)
		switch r.Intn(8) {
		case 0:
			script = append(script, corruptStore(r, b))
		case 1: // absent
		default:
			script = append(script, storeLine(b))
		}
	}
	for i, n := 0, r.Range(1, 5); i < n; i++ {
		if r.Chance(1, 12) {
			script = append(script, genFault(r))
		}
		b := blobs[r.Intn(len(blobs))]
		if r.Chance(1, 3) {
			// serve the reads from a streaming CAS buffer, healthy or failing after k bytes
			k := "-"
			if r.Chance(1, 2) {
				k = fmt.Sprint(r.Range(0, len(b.data)+1))
			}
			script = append(script, fmt.Sprintf("getmode stream %d %s %d", r.PickInt(1, 2, 3, 5, 8, 64), k, r.PickInt(14, 13, 2, 5)))
		} else if r.Chance(1, 6) {
			script = append(script, "getmode slice")
		}
		script = append(script, readLine(r, b, cs, zfail))
	}
	return script
}

// genTeardownCase: more streams than the pools have slots are torn down (Send fails, the
// client's stream breaks, the medium fails, the data does not decode); afterwards ordinary
// compressed reads at several offsets and a compressed upload must still work.
func genTeardownCase(r *hx.Rand, zfail bool) []string {
	cs := pickCS(r)
	script := []string{fmt.Sprintf("#cfg %d 200", cs)}
	b := mkBlob(r.Bytes(r.Range(3, 40)))
	script = append(script, storeLine(b))
	for i, n := 0, poolSlots+r.Range(1, 3); i < n; i++ {
		switch r.Intn(5) {
		case 0:
			if zfail {
				script = append(script, fmt.Sprintf("read zstd %s %d %d 0 1", b.hash, b.size, r.Intn(int(b.size))))
				break
			}
			fallthrough
		case 1:
			script = append(script, fmt.Sprintf("getmode stream %d %d 14", r.PickInt(1, 3, 64), r.Range(0, int(b.size))),
				fmt.Sprintf("read zstd %s %d 0 0 0", b.hash, b.size), "getmode slice")
		case 2: // the client's upload stream breaks
			x := mkBlob(r.Bytes(r.Range(1, 30)))
			op := &writeOp{kind: "zstd", hash: x.hash, size: fmt.Sprint(x.size), end: streamErrs[r.Intn(len(streamErrs))]}
			op.msgs = validMsgs(r, genCompressed(r, x.data))
			op.msgs = op.msgs[:r.Range(1, len(op.msgs))]
			op.msgs[len(op.msgs)-1].fin = false
			script = append(script, writeLine(op))
		case 3: // the upload does not decode / does not match
			x := mkBlob(r.Bytes(r.Range(1, 30)))
			op := &writeOp{kind: "zstd", hash: x.hash, size: fmt.Sprint(x.size), end: "eof"}
			op.msgs = []wmsg{{0, r.Bytes(r.Range(1, 12)), true}}
			if r.Chance(1, 2) {
				op.msgs = validMsgs(r, genCompressed(r, append([]byte{1}, x.data...)))
			}
			script = append(script, writeLine(op))
		case 4:
			script = append(script, fmt.Sprintf("read id %s %d 0 0 1", b.hash, b.size))
		}
	}
	for _, off := range []int64{0, b.size / 2, b.size} {
		script = append(script, fmt.Sprintf("read zstd %s %d %d 0 0", b.hash, b.size, off))
	}
	y := mkBlob(r.Bytes(r.Range(1, 30)))
	op := &writeOp{kind: "zstd", hash: y.hash, size: fmt.Sprint(y.size), end: "eof", msgs: validMsgs(r, genCompressed(r, y.data))}
	return append(script, writeLine(op), fmt.Sprintf("read zstd %s %d 0 0 0", y.hash, y.size))
}
