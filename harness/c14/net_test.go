package c14

import (
	"context"
	"fmt"
	"net"
	"strconv"
	"strings"
	"sync"
	"time"

	remoteexecution "github.com/bazelbuild/remote-apis/build/bazel/remote/execution/v2"
	"github.com/bazelbuild/remote-apis/build/bazel/semver"
	"github.com/buildbarn/bb-storage/pkg/blobstore"
	"github.com/buildbarn/bb-storage/pkg/blobstore/buffer"
	"github.com/buildbarn/bb-storage/pkg/blobstore/grpcclients"
	"github.com/buildbarn/bb-storage/pkg/blobstore/grpcservers"
	"github.com/buildbarn/bb-storage/pkg/blobstore/slicing"
	"github.com/buildbarn/bb-storage/pkg/digest"
	"github.com/google/uuid"
	"google.golang.org/genproto/googleapis/bytestream"
	"google.golang.org/grpc"
	"google.golang.org/grpc/credentials/insecure"
	"google.golang.org/grpc/test/bufconn"
	"google.golang.org/protobuf/proto"
)

// switchBackend lets one long-lived gRPC server front the backend of the case that is running.
type switchBackend struct {
	mu  sync.Mutex
	cur blobstore.BlobAccess
}

func (s *switchBackend) get() blobstore.BlobAccess {
	s.mu.Lock()
	defer s.mu.Unlock()
	return s.cur
}

func (s *switchBackend) Get(ctx context.Context, d digest.Digest) buffer.Buffer {
	return s.get().Get(ctx, d)
}

func (s *switchBackend) GetFromComposite(ctx context.Context, p, c digest.Digest, sl slicing.BlobSlicer) buffer.Buffer {
	return s.get().GetFromComposite(ctx, p, c, sl)
}

func (s *switchBackend) Put(ctx context.Context, d digest.Digest, b buffer.Buffer) error {
	return s.get().Put(ctx, d, b)
}

func (s *switchBackend) FindMissing(ctx context.Context, ds digest.Set) (digest.Set, error) {
	return s.get().FindMissing(ctx, ds)
}

func (s *switchBackend) GetCapabilities(ctx context.Context, in digest.InstanceName) (*remoteexecution.ServerCapabilities, error) {
	return s.get().GetCapabilities(ctx, in)
}

type capsServer struct {
	remoteexecution.UnimplementedCapabilitiesServer
}

func (capsServer) GetCapabilities(ctx context.Context, in *remoteexecution.GetCapabilitiesRequest) (*remoteexecution.ServerCapabilities, error) {
	return &remoteexecution.ServerCapabilities{
		CacheCapabilities: &remoteexecution.CacheCapabilities{
			DigestFunctions:      []remoteexecution.DigestFunction_Value{remoteexecution.DigestFunction_SHA256},
			SupportedCompressors: []remoteexecution.Compressor_Value{remoteexecution.Compressor_ZSTD},
		},
		LowApiVersion:  &semver.SemVer{Major: 2},
		HighApiVersion: &semver.SemVer{Major: 2, Minor: 3},
	}, nil
}

// netEnv is the real client connected to the real servers through an in-memory gRPC connection.
type netEnv struct {
	backend *switchBackend
	acBack  *switchBackend
	ac      blobstore.BlobAccess // Action Cache client
	plain   blobstore.BlobAccess // client without compression
	zstd    blobstore.BlobAccess // client that negotiates zstd
}

var (
	netMu   sync.Mutex
	netEnvs = map[int]*netEnv{}
)

// getNet returns the client/server pair for a read chunk size (created on first use, kept for the run).
func getNet(cs int) *netEnv { return getNetOpt(cs, false) }

// getNetOpt: with buffered = true the connection gets flow-control windows larger than any
// object of the harness, so that a whole response is buffered on the client side and the
// goroutine feeding the decoder never waits for the network.
func getNetOpt(cs int, buffered bool) *netEnv {
	netMu.Lock()
	defer netMu.Unlock()
	mapKey := cs
	if buffered {
		mapKey = -cs
	}
	if e, ok := netEnvs[mapKey]; ok {
		return e
	}
	var sopts []grpc.ServerOption
	dopts := []grpc.DialOption{}
	if buffered {
		sopts = append(sopts, grpc.InitialWindowSize(16<<20), grpc.InitialConnWindowSize(16<<20))
		dopts = append(dopts, grpc.WithInitialWindowSize(16<<20), grpc.WithInitialConnWindowSize(16<<20))
	}
	sb := &switchBackend{}
	sbAC := &switchBackend{}
	lis := bufconn.Listen(1 << 20)
	srv := grpc.NewServer(sopts...)
	bytestream.RegisterByteStreamServer(srv, grpcservers.NewByteStreamServer(sb, cs, newPool()))
	remoteexecution.RegisterActionCacheServer(srv, grpcservers.NewActionCacheServer(sbAC, 1<<20))
	remoteexecution.RegisterContentAddressableStorageServer(srv, grpcservers.NewContentAddressableStorageServer(sb, 1<<20))
	remoteexecution.RegisterCapabilitiesServer(srv, capsServer{})
	go srv.Serve(lis)
	dopts = append(dopts,
		grpc.WithContextDialer(func(ctx context.Context, _ string) (net.Conn, error) { return lis.DialContext(ctx) }),
		grpc.WithTransportCredentials(insecure.NewCredentials()))
	conn, err := grpc.NewClient("passthrough:///bufnet", dopts...)
	if err != nil {
		panic(err)
	}
	e := &netEnv{
		backend: sb,
		plain:   grpcclients.NewCASBlobAccess(conn, uuid.NewRandom, cs, nil),
		zstd:    grpcclients.NewCASBlobAccess(conn, uuid.NewRandom, cs, newPool()),
		acBack:  sbAC,
		ac:      grpcclients.NewACBlobAccess(conn, 1<<20),
	}
	netEnvs[mapKey] = e
	return e
}

var clientGetDelay = 3 * time.Millisecond

var sha256Function = digest.MustNewFunction("", remoteexecution.DigestFunction_SHA256)

// execClient runs cput / cget / cfm through the real client against the real servers.
func (w *world) execClient(line string) string {
	secs := splitSections(strings.Fields(line))
	h := secs[0]
	env := getNet(w.cs)
	env.backend.mu.Lock()
	env.backend.cur = w.cas
	env.backend.mu.Unlock()
	env.acBack.mu.Lock()
	env.acBack.cur = w.ac
	env.acBack.mu.Unlock()
	ctx, cancel := context.WithTimeout(context.Background(), 4*opTimeout)
	defer cancel()
	client := func(z string) blobstore.BlobAccess {
		if z == "1" {
			return env.zstd
		}
		return env.plain
	}
	mk := func(hash, size string) (digest.Digest, error) {
		n, err := strconv.ParseInt(size, 10, 64)
		if err != nil {
			return digest.BadDigest, err
		}
		return sha256Function.NewDigest(hash, n)
	}
	return guard(func() string {
		switch h[0] {
		case "cput":
			d, err := mk(h[2], h[3])
			if err != nil {
				return "harness-error " + err.Error()
			}
			data, _ := unhex(h[4])
			if err := client(h[1]).Put(ctx, d, buffer.NewValidatedBufferFromByteSlice(data)); err != nil {
				return "err " + errTag(err)
			}
			return "ok"
		case "cget":
			d, err := mk(h[2], h[3])
			if err != nil {
				return "harness-error " + err.Error()
			}
			// D10 is a race between the consumer and the decoder; the consumer is made to start
			// reading a moment after the response arrived (what a consumer does that is not
			// scheduled immediately), and on a tree that has the defect the Get is repeated
			// until it shows (Get is idempotent), so that the outcome is deterministic.
			attempts := 1
			if h[1] == "1" && w.fl.clientEOF {
				attempts = 8
			}
			var data []byte
			for a := 0; a < attempts; a++ {
				buf := client(h[1]).Get(ctx, d)
				if h[1] == "1" {
					time.Sleep(clientGetDelay)
				}
				data, err = buf.ToByteSlice(1 << 20)
				if err != nil {
					break
				}
			}
			if err != nil {
				return "err " + errTag(err)
			}
			return "ok " + hexs(data)
		case "cacput", "cacget":
			fn, err := tagFunction(h[1])
			if err != nil {
				return "harness-error " + err.Error()
			}
			n, _ := strconv.ParseInt(h[3], 10, 64)
			d, err := fn.NewDigest(h[2], n)
			if err != nil {
				return "harness-error " + err.Error()
			}
			if h[0] == "cacput" {
				raw, _ := unhex(h[4])
				var ar remoteexecution.ActionResult
				if err := proto.Unmarshal(raw, &ar); err != nil {
					return "harness-error cacput message does not parse"
				}
				if err := env.ac.Put(ctx, d, buffer.NewProtoBufferFromProto(&ar, buffer.UserProvided)); err != nil {
					return "err " + errTag(err)
				}
				return "ok"
			}
			m, err := env.ac.Get(ctx, d).ToProto(&remoteexecution.ActionResult{}, 1<<20)
			if err != nil {
				return "err " + errTag(err)
			}
			b, err := proto.MarshalOptions{Deterministic: true}.Marshal(m)
			if err != nil {
				return "harness-error " + err.Error()
			}
			return "ok " + hexs(b)
		case "cfm":
			sb := digest.NewSetBuilder(0)
			for _, sec := range secs[1:] {
				tag, hash, size, err := cfmEntry(sec)
				if err != nil {
					return "harness-error " + err.Error()
				}
				fn, err := tagFunction(tag)
				if err != nil {
					return "harness-error " + err.Error()
				}
				n, _ := strconv.ParseInt(size, 10, 64)
				d, err := fn.NewDigest(hash, n)
				if err != nil {
					return "harness-error " + err.Error()
				}
				sb.Add(d)
			}
			missing, err := env.plain.FindMissing(ctx, sb.Build())
			if err != nil {
				return "err " + errTag(err)
			}
			var keys []string
			for _, d := range missing.Items() {
				keys = append(keys, digestTag(d)+"/"+keyOf(d))
			}
			return strings.TrimSpace("ok " + strings.Join(keys, " "))
		}
		return fmt.Sprintf("harness-error unknown client op %q", h[0])
	})
}

// cfm entries: "<hash> <size>" (SHA-256, empty instance name) or "<function>.<instance|-> <hash> <size>".
func cfmEntry(sec []string) (tag, hash, size string, err error) {
	switch len(sec) {
	case 2:
		return "sha256.-", sec[0], sec[1], nil
	case 3:
		return sec[0], sec[1], sec[2], nil
	}
	return "", "", "", fmt.Errorf("bad cfm entry %v", sec)
}

var functionEnums = map[string]remoteexecution.DigestFunction_Value{
	"sha256": remoteexecution.DigestFunction_SHA256,
	"md5":        remoteexecution.DigestFunction_MD5,
	"sha1":       remoteexecution.DigestFunction_SHA1,
	"sha384":     remoteexecution.DigestFunction_SHA384,
	"sha512":     remoteexecution.DigestFunction_SHA512,
	"sha256tree": remoteexecution.DigestFunction_SHA256TREE,
	"blake3":     remoteexecution.DigestFunction_BLAKE3,
	"gitsha1":    remoteexecution.DigestFunction_GITSHA1,
}

// functionHashLen is the number of hex characters of a hash of each digest function.
var functionHashLen = map[string]int{"sha256": 64, "md5": 32, "sha1": 40, "sha384": 96, "sha512": 128,
	"sha256tree": 64, "blake3": 64, "gitsha1": 40}

// refKey is the oracle's own notion of the backend key of <function>.<instance> hash size.
func refKey(tag, hash string, size int64) string {
	name, _, _ := strings.Cut(tag, ".")
	return key(qualHash(int(functionEnums[name]), hash), size)
}

func tagFunction(tag string) (digest.Function, error) {
	name, inst, _ := strings.Cut(tag, ".")
	enum, ok := functionEnums[name]
	if !ok {
		return digest.Function{}, fmt.Errorf("unknown digest function in %q", tag)
	}
	if inst == "-" {
		inst = ""
	}
	in, err := digest.NewInstanceName(strings.ReplaceAll(inst, "_", "/"))
	if err != nil {
		return digest.Function{}, err
	}
	return in.GetDigestFunction(enum, 0)
}

func digestTag(d digest.Digest) string {
	fn := d.GetDigestFunction()
	name := strings.ToLower(fn.GetEnumValue().String())
	inst := strings.ReplaceAll(fn.GetInstanceName().String(), "/", "_")
	if inst == "" {
		inst = "-"
	}
	return name + "." + inst
}
