package c14

import (
	"bytes"
	"context"
	"encoding/hex"
	"errors"
	"fmt"
	"io"
	"sort"
	"strconv"
	"strings"
	"time"

	remoteexecution "github.com/bazelbuild/remote-apis/build/bazel/remote/execution/v2"
	"github.com/buildbarn/bb-storage/pkg/blobstore/grpcservers"
	"github.com/buildbarn/bb-storage/pkg/digest"
	bb_zstd "github.com/buildbarn/bb-storage/pkg/zstd"
	"github.com/klauspost/compress/zstd"
	"google.golang.org/genproto/googleapis/bytestream"
	"google.golang.org/grpc/codes"
	"google.golang.org/grpc/status"
)

func hexs(b []byte) string {
	if len(b) == 0 {
		return "-"
	}
	return hex.EncodeToString(b)
}

func unhex(s string) ([]byte, error) {
	if s == "-" {
		return nil, nil
	}
	return hex.DecodeString(s)
}

// The servers and the client run with small bounded pools, so that an encoder or decoder
// that is not released shows (a later compressed transfer cannot get one any more).
const poolSlots = 2

func newPool() bb_zstd.Pool { return bb_zstd.NewBoundedPool(poolSlots, poolSlots, nil, nil) }

// opTimeout bounds every RPC of the harness: waiting for a pool slot ends with the deadline
// and surfaces as a failed operation, never as a hang of the run.
const opTimeout = 1500 * time.Millisecond

func opContext() (context.Context, context.CancelFunc) {
	return context.WithTimeout(context.Background(), opTimeout)
}

// zcompress produces real zstd data with the upstream library directly (not through the repo's pool).
func zcompress(data []byte, opts ...zstd.EOption) []byte {
	var buf bytes.Buffer
	w, err := zstd.NewWriter(&buf, opts...)
	if err != nil {
		panic(err)
	}
	w.Write(data)
	w.Close()
	return buf.Bytes()
}

// zdecode is the independent description of the decoder on a complete input:
// the output and how it ends (c = clean, t = io.ErrUnexpectedEOF, x = format error).
func zdecode(in []byte) ([]byte, string) {
	d, err := zstd.NewReader(bytes.NewReader(in))
	if err != nil {
		return nil, "x"
	}
	defer d.Close()
	out, err := io.ReadAll(d)
	switch err {
	case nil:
		return out, "c"
	case io.ErrUnexpectedEOF:
		// ending inside a frame: does the decoder pass an error of its reader on, or does it
		// report it as io.ErrUnexpectedEOF as well? (depends on where the input ends)
		d2, err2 := zstd.NewReader(io.MultiReader(bytes.NewReader(in), failingReader{}))
		if err2 != nil {
			return out, "t"
		}
		defer d2.Close()
		if _, err2 = io.ReadAll(d2); err2 == io.ErrUnexpectedEOF {
			return out, "u"
		}
		return out, "t"
	}
	return out, "x"
}

var errReaderBroke = errors.New("reader broke")

type failingReader struct{}

func (failingReader) Read([]byte) (int, error) { return 0, errReaderBroke }

// world is one case's universe: the backends and the real services in front of them.
type world struct {
	cas, ac *memBackend
	cs      int
	maxMsg  int
	fl      flags
	bs      bytestream.ByteStreamServer
	casSrv  remoteexecution.ContentAddressableStorageServer
	acSrv   remoteexecution.ActionCacheServer
}

func newWorld(cs, maxMsg int) *world {
	w := &world{cas: newMemBackend(false), ac: newMemBackend(true), cs: cs, maxMsg: maxMsg}
	w.bs = grpcservers.NewByteStreamServer(w.cas, cs, newPool())
	w.casSrv = grpcservers.NewContentAddressableStorageServer(w.cas, int64(maxMsg))
	w.acSrv = grpcservers.NewActionCacheServer(w.ac, maxMsg)
	return w
}

func key(hash string, size int64) string { return fmt.Sprintf("%s-%d", hash, size) }

// resourceName builds the resource name a kind token stands for.
func resourceName(kind, hash, size string, write bool) string {
	base, variant, _ := strings.Cut(kind, ".")
	prefix := ""
	if write {
		prefix = "uploads/0b7f2a51-3c0d-4e6f-9a1b-5d2e8c7f4a90/"
	}
	inst, trail := "", ""
	if strings.Contains(variant, "i") {
		inst = "inst/a/"
	}
	if write && strings.Contains(variant, "t") {
		trail = "/some/file.txt"
	}
	switch base {
	case "id":
		return inst + prefix + "blobs/" + hash + "/" + size + trail
	case "zstd":
		return inst + prefix + "compressed-blobs/zstd/" + hash + "/" + size + trail
	case "unsupported":
		c := "deflate"
		if strings.Contains(variant, "b") {
			c = "brotli"
		}
		return inst + prefix + "compressed-blobs/" + c + "/" + hash + "/" + size
	case "unknown":
		return inst + prefix + "compressed-blobs/lz4/" + hash + "/" + size
	}
	// bad.<n>
	switch variant {
	case "0":
		return ""
	case "1":
		return prefix + "blobs/" + hash
	case "2":
		return prefix + "blobs/" + "g" + hash[1:] + "/" + size
	case "3":
		return prefix + "blobs/" + hash + "/-1"
	case "4":
		return prefix + "blobs/" + hash + "/12x"
	case "5":
		return "blobs/" + prefix + "blobs/" + hash + "/" + size
	case "6":
		return prefix + "blobs/" + hash[:10] + "/" + size
	case "7":
		return "foo/bar/" + hash + "/" + size + "/baz/qux"
	case "8":
		return prefix + "blobs/" + strings.ToUpper(hash[:1]) + "A" + hash[2:] + "/" + size
	}
	return prefix + "compressed-blobs/zstd/" + hash
}

// canonNameErr folds the different messages of the resource name parser into one tag.
func canonNameErr(tag string) string {
	for _, t := range []string{"3 digest", "3 instance", "3 function"} {
		if tag == t {
			return "3 name"
		}
	}
	return tag
}

type wmsg struct {
	off  int64
	data []byte
	fin  bool
}

type writeOp struct {
	kind, hash, size string
	end              string
	sendErr          int
	msgs             []wmsg
}

func splitSections(fields []string) [][]string {
	var out [][]string
	var cur []string
	for _, f := range fields {
		if f == ";" {
			out = append(out, cur)
			cur = nil
		} else {
			cur = append(cur, f)
		}
	}
	return append(out, cur)
}

func parseWrite(line string) (*writeOp, error) {
	secs := splitSections(strings.Fields(line))
	h := secs[0]
	if len(h) != 6 || h[0] != "write" {
		return nil, fmt.Errorf("bad write header %q", line)
	}
	op := &writeOp{kind: h[1], hash: h[2], size: h[3], end: h[4]}
	var err error
	if op.sendErr, err = strconv.Atoi(h[5]); err != nil {
		return nil, err
	}
	for _, s := range secs[1:] {
		if len(s) != 3 {
			return nil, fmt.Errorf("bad message %v", s)
		}
		off, err := strconv.ParseInt(s[0], 10, 64)
		if err != nil {
			return nil, err
		}
		data, err := unhex(s[1])
		if err != nil {
			return nil, err
		}
		op.msgs = append(op.msgs, wmsg{off, data, s[2] == "1"})
	}
	return op, nil
}

func endErr(end string) error {
	if end == "eof" {
		return io.EOF
	}
	c, _ := strconv.Atoi(end[1:])
	return status.Error(codes.Code(c), "injected stream failure")
}

// guard runs f, turning a panic of the real code into an error reply.
func guard(f func() string) (reply string) {
	defer func() {
		if r := recover(); r != nil {
			reply = fmt.Sprintf("panic %v", r)
		}
	}()
	return f()
}

func (w *world) execWrite(op *writeOp) string {
	ctx, cancel := opContext()
	defer cancel()
	st := &fakeWriteStream{fakeStream: fakeStream{ctx}, end: endErr(op.end)}
	for i, m := range op.msgs {
		r := &bytestream.WriteRequest{WriteOffset: m.off, Data: m.data, FinishWrite: m.fin}
		if i == 0 {
			r.ResourceName = resourceName(op.kind, op.hash, op.size, true)
		}
		st.msgs = append(st.msgs, r)
	}
	if op.sendErr != 0 {
		st.sendErr = status.Error(codes.Code(op.sendErr), "injected send failure")
	}
	return guard(func() string {
		err := w.bs.Write(st)
		if err != nil {
			if st.response != nil {
				return "anomaly response-and-error " + errTag(err)
			}
			return "err " + canonNameErr(errTag(err))
		}
		if st.response == nil {
			return "anomaly ok-without-response"
		}
		return fmt.Sprintf("ok %d", st.response.CommittedSize)
	})
}

func sortedFields(s string) string {
	f := strings.Fields(s)
	sort.Strings(f)
	return strings.Join(f, " ")
}

var _ = digest.BadDigest
