package c14

import (
	"bytes"
	"context"
	"fmt"
	"strconv"
	"strings"
	"sync"
	"time"

	remoteexecution "github.com/bazelbuild/remote-apis/build/bazel/remote/execution/v2"
	"github.com/buildbarn/bb-storage/pkg/blobstore/buffer"
	"github.com/buildbarn/bb-storage/pkg/blobstore/grpcservers"
	"google.golang.org/genproto/googleapis/bytestream"
	"google.golang.org/grpc/codes"
	"google.golang.org/grpc/status"
)

// Operations on large objects (several zstd blocks, incompressible, so that the client's pipe
// between the gRPC stream and the decoder fills up). They are harness-only: the model is not
// told about them (a megabyte does not go through the line protocol), the oracle judges them.
//
//	bigget <KiB> <k>            the zstd client reads k chunks of 4096 bytes of the object and
//	                            closes the reader; afterwards a complete Get must still work
//	stallget <pieces> <k>       (stall_test.go) the zstd client reads k chunks from a server that
//	                            has sent a small object completely and then stays silent, and
//	                            closes the reader
//	bigfront <KiB> <failAt>     a frontend (ByteStream server of this repository over the zstd
//	                            client) serves an identity Read whose failAt-th Send fails
//	                            (0 = never; then the exact content must arrive)
//	bigput <KiB> <mode>         the plain client uploads the object in chunks of 1 KiB (hundreds
//	                            of messages) to a backend that finishes early: reject<code> =
//	                            its Put fails at once with that code, accept = it returns nil at
//	                            once (object already present), full = it consumes the upload
const bigChunk = 1 << 16

var (
	bigMu    sync.Mutex
	bigBlobs = map[int]blob{}
)

func bigBlob(kib int) blob {
	bigMu.Lock()
	defer bigMu.Unlock()
	if b, ok := bigBlobs[kib]; ok {
		return b
	}
	data := make([]byte, kib<<10)
	x := uint32(2463534242)
	for i := range data {
		x ^= x << 13
		x ^= x >> 17
		x ^= x << 5
		data[i] = byte(x >> 11)
	}
	b := mkBlob(data)
	bigBlobs[kib] = b
	return b
}

// watchdog runs f; if it does not return in time the operation is reported as hanging (the
// goroutine is abandoned) - a finding, never a hang of the run.
func watchdog(d time.Duration, f func() string) string {
	done := make(chan string, 1)
	go func() { done <- guard(f) }()
	select {
	case r := <-done:
		return r
	case <-time.After(d):
		return "hang"
	}
}

// dropNet forgets the client/server pair of a chunk size: after a hang its pools and
// connection may be stuck, later cases get a fresh one.
func dropNet(cs int) {
	netMu.Lock()
	delete(netEnvs, cs)
	delete(netEnvs, -cs)
	netMu.Unlock()
}

// slowFailStream fails its failAt-th Send after a short pause (the peer went away while the
// message was being written), recording what was sent before.
type slowFailStream struct {
	fakeStream
	sent   bytes.Buffer
	sends  int
	failAt int
}

func (s *slowFailStream) Send(r *bytestream.ReadResponse) error {
	s.sends++
	if s.failAt > 0 && s.sends >= s.failAt {
		time.Sleep(60 * time.Millisecond)
		return status.Error(codes.Unavailable, "injected send failure")
	}
	s.sent.Write(r.Data)
	return nil
}

// execBigPut: the client's Put result must be the backend's: same code and message tag, nil iff nil.
func (w *world) execBigPut(kib int, mode string) string {
	b := bigBlob(kib)
	env := getNet(1024)
	store := newMemBackend(false)
	store.maxSize = 8 << 20
	want := "ok"
	switch {
	case mode == "full":
	case mode == "accept":
		store.putSkip = true
	case strings.HasPrefix(mode, "reject"):
		c, err := strconv.Atoi(strings.TrimPrefix(mode, "reject"))
		if err != nil || c <= 0 || c > 16 {
			return "harness-error bad mode " + mode
		}
		store.putErr, store.putEarly = codes.Code(c), true
		want = fmt.Sprintf("err %d injected", c)
	default:
		return "harness-error bad mode " + mode
	}
	env.backend.mu.Lock()
	env.backend.cur = store
	env.backend.mu.Unlock()
	d, err := sha256Function.NewDigest(b.hash, b.size)
	if err != nil {
		return "harness-error " + err.Error()
	}
	ctx, cancel := context.WithTimeout(context.Background(), 20*time.Second)
	defer cancel()
	got := watchdog(10*time.Second, func() string {
		if err := env.plain.Put(ctx, d, buffer.NewValidatedBufferFromByteSlice(b.data)); err != nil {
			return "err " + errTag(err)
		}
		return "ok"
	})
	if got == "hang" {
		dropNet(1024)
		return "hang put"
	}
	if got != want {
		return fmt.Sprintf("put-result client=%q backend=%q", got, want)
	}
	if mode == "full" && !bytes.Equal(store.blobs[key(b.hash, b.size)], b.data) {
		return "wrong-data stored"
	}
	if mode != "full" && len(store.blobs) != 0 {
		return "wrong-data stored although the backend did not consume the upload"
	}
	return "ok"
}

func (w *world) execBig(line string) string {
	f := strings.Fields(line)
	if len(f) != 3 {
		return "harness-error bad " + line
	}
	if f[0] == "bigput" {
		kib, err := strconv.Atoi(f[1])
		if err != nil || kib <= 0 || kib > 4096 {
			return "harness-error bad " + line
		}
		return w.execBigPut(kib, f[2])
	}
	kib, err1 := strconv.Atoi(f[1])
	arg, err2 := strconv.Atoi(f[2])
	if err1 != nil || err2 != nil || kib <= 0 || kib > 4096 {
		return "harness-error bad " + line
	}
	b := bigBlob(kib)
	env := getNetOpt(bigChunk, true)
	store := newMemBackend(false)
	store.maxSize = 8 << 20
	store.blobs[key(b.hash, b.size)] = b.data
	env.backend.mu.Lock()
	env.backend.cur = store
	env.backend.mu.Unlock()
	d, err := sha256Function.NewDigest(b.hash, b.size)
	if err != nil {
		return "harness-error " + err.Error()
	}
	ctx, cancel := context.WithTimeout(context.Background(), 20*time.Second)
	defer cancel()
	fullGet := func() string {
		return watchdog(8*time.Second, func() string {
			data, err := env.zstd.Get(ctx, d).ToByteSlice(8 << 20)
			if err != nil {
				return "err " + errTag(err)
			}
			if !bytes.Equal(data, b.data) {
				return "wrong-data"
			}
			return "ok"
		})
	}
	reply := "ok"
	switch f[0] {
	case "bigget":
		r := env.zstd.Get(ctx, d).ToChunkReader(0, 4096)
		off := 0
		for i := 0; i < arg; i++ {
			chunk, err := r.Read()
			if err != nil {
				reply = "read-failed " + errTag(err)
				break
			}
			if !bytes.Equal(chunk, b.data[off:off+len(chunk)]) {
				reply = "wrong-data"
				break
			}
			off += len(chunk)
		}
		time.Sleep(40 * time.Millisecond) // the rest of the response piles up in front of the decoder
		if c := watchdog(4*time.Second, func() string { r.Close(); return "ok" }); c != "ok" {
			reply = "hang close " + hangCause()
		}
	case "bigfront":
		frontend := grpcservers.NewByteStreamServer(env.zstd, bigChunk, newPool())
		st := &slowFailStream{fakeStream: fakeStream{ctx}, failAt: arg}
		res := watchdog(6*time.Second, func() string {
			err := frontend.Read(&bytestream.ReadRequest{
				ResourceName: d.GetByteStreamReadPath(remoteexecution.Compressor_IDENTITY),
			}, st)
			return errTag(err)
		})
		switch {
		case res == "hang":
			reply = "hang read"
		case arg == 0 && (res != "ok" || !bytes.Equal(st.sent.Bytes(), b.data)):
			reply = fmt.Sprintf("wrong-result %s %d bytes", res, st.sent.Len())
		case arg != 0 && res != "14 injected":
			reply = "wrong-result " + res
		case !bytes.HasPrefix(b.data, st.sent.Bytes()):
			reply = "wrong-data"
		}
	default:
		return "harness-error bad " + line
	}
	if strings.HasPrefix(reply, "hang") {
		dropNet(bigChunk)
		return reply
	}
	if reply == "ok" {
		if g := fullGet(); g != "ok" {
			if g == "hang" {
				dropNet(bigChunk)
			}
			reply = "later-get " + g
		}
	}
	return reply
}
