package c14
import ("testing";"fmt";"bytes";"io";"github.com/klauspost/compress/zstd")
func TestDbg(t *testing.T) {
	for _, n := range []int{0, 1, 5, 17, 100, 1000} {
		content := bytes.Repeat([]byte("x"), n)
		b := mkBlob(content)
		for _, cs := range []int{4, 16, 2000} {
			fails := map[string]int{}
			for i := 0; i < 200; i++ {
				res := runScript([]string{fmt.Sprintf("#cfg %d 100", cs), storeLine(b), fmt.Sprintf("cget 1 %s %d", b.hash, b.size)}, flags{})
				r := res.steps[1].reply
				if len(r) > 20 { r = r[:20] }
				fails[r]++
			}
			t.Log(n, cs, fails)
		}
	}
	// the decoder itself
	z := zcompress([]byte("hello"))
	cnt := map[string]int{}
	for i := 0; i < 200; i++ {
		d, _ := zstd.NewReader(bytes.NewReader(z))
		buf := make([]byte, 16)
		n, err := d.Read(buf)
		cnt[fmt.Sprint(n, err)]++
		d.Close()
	}
	t.Log("first Read of decoder:", cnt)
	_ = io.EOF
}
