// Package c14 ties the Lean model of the ByteStream / CAS / AC services and of
// the CAS client (BB.ByteStream) to the real code of /repo and checks the
// statements of property C14 directly on the observed behaviour.
//
// A case is a script: "#cfg <readChunkSize> <maxBatchBytes>" followed by
// operations (see lean/BB/Driver/C14.lean for the grammar; the harness adds the
// `dec` declarations of the zstd decoder and a `dump` after every mutating
// operation by itself). The services are driven in-process through fake
// grpc.ServerStreams; cput/cget/cfm go through grpcclients.NewCASBlobAccess and
// an in-memory gRPC connection.
package c14

import (
	"fmt"
	"strings"

	"verifharness/hx"
)

type env struct {
	run   *hx.Run
	model *hx.Model
	fl    flags
	seen  map[string]int
	queue []queued
}

type queued struct {
	name   string
	script []string
	res    *runResult
}

func (e *env) stop() bool { return len(e.seen) >= 8 }

// canonModel applies to the model's replies the canonicalisation the real code's replies went through.
func canonModel(res *runResult, replies []string) []string {
	out := make([]string, len(replies))
	for i, r := range replies {
		out[i] = canon(res.reqOf[i], r)
	}
	return out
}

// evalCase runs a script on the real code and (unbatched) on the model.
func (e *env) evalCase(name string, script []string) (v *verdict, agree bool, found []hx.Finding) {
	res := runScript(script, e.fl)
	if res.err != nil {
		return nil, true, nil
	}
	cs, maxMsg, _ := parseCfg(script[0])
	v = oracle(res, cs, maxMsg)
	agree = true
	var mo []string
	detail := ""
	if e.model != nil {
		mo = canonModel(res, e.model.Batch(res.modelLines))
		for i := range mo {
			if mo[i] != res.implLines[i] {
				agree = false
				detail = fmt.Sprintf("%q: impl=%q model=%q", res.modelLines[i], res.implLines[i], mo[i])
				break
			}
		}
	}
	if v != nil {
		found = append(found, hx.Finding{Kind: "oracle", What: v.what, Detail: v.detail, Case: name, Script: script, Impl: res.implLines, Model: mo})
	}
	if !agree {
		w := "model/implementation differ"
		if v != nil {
			w += " (" + v.what + ")"
		}
		found = append(found, hx.Finding{Kind: "disagreement", What: w, Detail: detail, Case: name, Script: script, Impl: res.implLines, Model: mo})
	}
	return v, agree, found
}

func nontrivial(script []string) bool {
	for _, l := range script[1:] {
		if strings.HasPrefix(l, "write") && strings.Count(l, ";") >= 2 {
			return true
		}
	}
	return len(script) >= 4
}

// handle runs a case on the real code and queues it for the model.
func (e *env) handle(name string, script []string, bucket string) {
	res := runScript(script, e.fl)
	if res.err != nil {
		e.run.Report(hx.Finding{Kind: "disagreement", What: "harness generated an unparsable case", Detail: res.err.Error(), Case: name, Script: script})
		return
	}
	e.run.Case(script, nontrivial(script), e.model != nil)
	e.run.Count("gen:" + bucket)
	for _, st := range res.steps {
		f := strings.Fields(st.line)
		verb := f[0]
		if verb == "write" || verb == "read" {
			verb += ":" + strings.SplitN(f[1], ".", 2)[0]
		}
		e.run.Count("op:" + verb)
		switch {
		case strings.HasPrefix(st.reply, "ok"):
			e.run.Count("res:" + verb + ":ok")
		case strings.HasPrefix(st.reply, "err"):
			e.run.Count("res:" + verb + ":err:" + strings.Join(strings.Fields(st.reply)[1:3], "."))
		}
	}
	e.queue = append(e.queue, queued{name, script, res})
	if len(e.queue) >= 200 {
		e.flush()
	}
}

func (e *env) flush() {
	q := e.queue
	e.queue = nil
	var replies []string
	if e.model != nil {
		var lines []string
		for _, c := range q {
			lines = append(lines, c.res.modelLines...)
		}
		replies = e.model.Batch(lines)
	}
	pos := 0
	for _, c := range q {
		cs, maxMsg, _ := parseCfg(c.script[0])
		v := oracle(c.res, cs, maxMsg)
		agree := true
		if replies != nil {
			n := len(c.res.modelLines)
			mo := canonModel(c.res, replies[pos:pos+n])
			pos += n
			e.run.Compared(n)
			for i := range mo {
				if mo[i] != c.res.implLines[i] {
					agree = false
					break
				}
			}
		}
		if v == nil && agree {
			continue
		}
		k := "disagreement"
		if v != nil {
			k = v.what
		}
		e.run.Count("finding:" + k)
		if e.seen[k]++; e.seen[k] > 2 {
			continue
		}
		v0, a0, found := e.evalCase(c.name, c.script)
		if v0 == nil && a0 {
			if v != nil && (strings.Contains(v.what, "did not return") || strings.Contains(v.what, "did not complete") || strings.Contains(v.detail, "deadline") || strings.Contains(v.detail, "err 4") || strings.Contains(v.detail, "err 8")) {
				// a verdict that rests on elapsed time (watchdog, per-operation deadline, pool slot not obtained in time)
				// has to show again on an immediate re-run; otherwise the machine was merely slow
				e.run.Count("timing-dependent verdict not reproduced: " + v.what)
				continue
			}
			e.run.Report(hx.Finding{Kind: "disagreement", What: "case failed in a batch but not when re-run", Case: c.name, Script: c.script})
			continue
		}
		fails := func(s []string) bool {
			v, a, _ := e.evalCase(c.name, s)
			if v0 != nil {
				return v != nil && v.what == v0.what
			}
			return !a
		}
		small := shrinkMessages(hx.Shrink(c.script, 1, fails), fails)
		if strings.Join(small, "\n") != strings.Join(c.script, "\n") {
			if _, _, f2 := e.evalCase(c.name+"/shrunk", small); len(f2) > 0 {
				found = f2
			}
		}
		for _, f := range found {
			e.run.Report(f)
		}
	}
}

// shrinkMessages drops single requests of Write lines and entries of batch lines while the case keeps failing.
func shrinkMessages(script []string, fails func([]string) bool) []string {
	cur := append([]string{}, script...)
	for li := 1; li < len(cur); li++ {
		for again := true; again; {
			again = false
			secs := strings.Split(cur[li], " ; ")
			for si := 1; si < len(secs); si++ {
				cand := append([]string{}, cur...)
				cand[li] = strings.Join(append(append([]string{}, secs[:si]...), secs[si+1:]...), " ; ")
				if fails(cand) {
					cur = cand
					again = true
					break
				}
			}
		}
	}
	return cur
}
