package c14

import (
	"bytes"
	"crypto/sha256"
	"encoding/hex"
	"fmt"
	"strconv"
	"strings"
)

// Stable sentences of the oracle (matched against known_findings.json).
const (
	whatD5           = "compressed ByteStream Write accepts a first request with a non-zero write_offset"
	whatD6           = "compressed ByteStream Read ignores read_offset"
	whatD10          = "compressed client Get fails for an intact object (final chunk returned together with io.EOF is dropped)"
	whatStoredBad    = "ByteStream Write stored an object although no valid complete upload was sent"
	whatAckNoStore   = "ByteStream Write was acknowledged although nothing was stored"
	whatCollateral   = "an RPC changed backend contents other than the object it uploads"
	whatRejected     = "a valid complete upload was rejected"
	whatFailedStored = "an RPC reported failure for an object but stored it nevertheless"
	whatReadWrong    = "ByteStream Read delivered bytes that are not the requested suffix of the object"
	whatReadChunk    = "ByteStream Read sent a chunk that is empty or larger than the configured chunk size"
	whatReadNoErr    = "ByteStream Read at an invalid offset or of an unreadable object did not fail"
	whatReadOKBroken = "Read completed with OK although the object could not be read completely or does not match its digest"
	whatReadFailed   = "ByteStream Read of a stored object at a valid offset failed"
	whatBatchUpd     = "BatchUpdateBlobs per-object status does not reflect whether the data matches its digest"
	whatBatchRead    = "BatchReadBlobs delivered data that is not the stored object matching its digest"
	whatBatchLimit   = "BatchReadBlobs served a request exceeding the configured maximum total size"
	whatFindMissing  = "FindMissingBlobs did not return exactly the requested digests the backend lacks"
	whatClient       = "client and server back to back do not behave like the backend"
	whatClientFM     = "FindMissing through client and server does not return exactly the requested digests the backend lacks"
	whatACClient     = "Action Cache client and server back to back do not behave like the backend"
	whatReadAfterAbort = "a compressed read of a present object did not return its suffix after earlier streams were torn down"
	whatD11          = "closing a compressed client read while the server is silent did not return"
	whatBigPut       = "the client's Put result differs from the backend's when the backend finishes before the upload was sent completely"
	whatBigClose     = "closing a partially consumed compressed read did not return"
	whatBigFront     = "a read through the frontend did not complete after its stream failed"
	whatAC           = "ActionCache Get/Update do not round-trip the stored message"
	whatPanic        = "the service panicked"
)

func sha(b []byte) string {
	h := sha256.Sum256(b)
	return hex.EncodeToString(h[:])
}

func matches(hash string, size int64, data []byte) bool {
	return int64(len(data)) == size && sha(data) == hash
}

func wellFormedDigest(hash, size string) bool {
	if len(hash) != 64 {
		return false
	}
	for _, c := range hash {
		if (c < '0' || c > '9') && (c < 'a' || c > 'f') {
			return false
		}
	}
	n, err := strconv.ParseInt(size, 10, 64)
	return err == nil && n >= 0
}

// diffMaps lists the keys whose value differs between two backend snapshots.
func diffMaps(a, b map[string][]byte) []string {
	var d []string
	for k, v := range a {
		if w, ok := b[k]; !ok || !bytes.Equal(v, w) {
			d = append(d, k)
		}
	}
	for k := range b {
		if _, ok := a[k]; !ok {
			d = append(d, k)
		}
	}
	return d
}

type verdict struct{ what, detail string }

// uploadValidity classifies the message sequence of a Write by the property's own
// words: 1 = a valid complete upload of `content`, 0 = not one, 2 = the compressed
// stream ends inside a frame after having produced matching content (either outcome
// is tolerated, see the report).
func uploadValidity(op *writeOp) (valid int, content []byte, firstOffsetWrong bool) {
	base, _, _ := strings.Cut(op.kind, ".")
	if base != "id" && base != "zstd" {
		return 0, nil, false
	}
	size, err := strconv.ParseInt(op.size, 10, 64)
	if err != nil || !wellFormedDigest(op.hash, op.size) || len(op.msgs) == 0 {
		return 0, nil, false
	}
	j := -1
	for i, m := range op.msgs {
		if m.fin {
			j = i
			break
		}
	}
	if j < 0 {
		return 0, nil, false
	}
	if base == "id" && (j != len(op.msgs)-1 || op.end != "eof") {
		return 0, nil, false // requests after finish_write, or the stream broke
	}
	var acc []byte
	expect := int64(0)
	contiguous := true
	for i := 0; i <= j; i++ {
		if op.msgs[i].off != expect {
			if i == 0 {
				// judged as if it were 0, the way the compressed path treats it (D5)
				firstOffsetWrong = true
			} else {
				contiguous = false
			}
		}
		expect += int64(len(op.msgs[i].data))
		acc = append(acc, op.msgs[i].data...)
	}
	if !contiguous {
		return 0, nil, firstOffsetWrong
	}
	fin := "c"
	if base == "zstd" {
		acc, fin = zdecode(acc)
	}
	if fin == "x" || !matches(op.hash, size, acc) {
		return 0, nil, firstOffsetWrong
	}
	if firstOffsetWrong {
		// everything else is fine: only the first offset is off
		return 0, acc, true
	}
	if fin == "t" || fin == "u" {
		return 2, acc, false
	}
	return 1, acc, false
}

func oracleWrite(st *step) *verdict {
	op, err := parseWrite(st.line)
	if err != nil {
		return nil
	}
	valid, content, firstWrong := uploadValidity(op)
	size, _ := strconv.ParseInt(op.size, 10, 64)
	k := key(op.hash, size)
	changed := diffMaps(st.casBefore, st.casAfter)
	ok := strings.HasPrefix(st.reply, "ok")
	for _, c := range changed {
		if c != k {
			return &verdict{whatCollateral, fmt.Sprintf("%s: changed %v", st.reply, changed)}
		}
	}
	stored := len(st.casPuts) > 0
	if len(st.casPuts) > 1 || (stored && st.casPuts[0] != k) {
		return &verdict{whatCollateral, fmt.Sprintf("%s: puts %v", st.reply, st.casPuts)}
	}
	if strings.HasPrefix(op.kind, "zstd") && valid == 0 && firstWrong && content != nil && (stored || ok) {
		return &verdict{whatD5, fmt.Sprintf("first write_offset %d: reply %q, stored=%v", op.msgs[0].off, st.reply, stored)}
	}
	if stored && valid == 0 {
		return &verdict{whatStoredBad, fmt.Sprintf("reply %q, stored %s=%x", st.reply, k, st.casAfter[k])}
	}
	if stored && !bytes.Equal(st.casAfter[k], content) {
		return &verdict{whatStoredBad, fmt.Sprintf("stored %x, uploaded content %x", st.casAfter[k], content)}
	}
	if ok && valid == 0 {
		return &verdict{whatAckNoStore, fmt.Sprintf("reply %q for an invalid upload", st.reply)}
	}
	if ok && !stored {
		return &verdict{whatAckNoStore, fmt.Sprintf("reply %q, backend unchanged", st.reply)}
	}
	if valid == 1 && st.faultPut == 0 {
		if !stored {
			return &verdict{whatRejected, fmt.Sprintf("reply %q", st.reply)}
		}
		if !ok && op.sendErr == 0 {
			return &verdict{whatRejected, fmt.Sprintf("reply %q although stored", st.reply)}
		}
	}
	if st.faultPut != 0 && (stored || ok) {
		return &verdict{whatFailedStored, fmt.Sprintf("backend Put failed, reply %q stored=%v", st.reply, stored)}
	}
	return nil
}

func oracleRead(st *step, cs int) *verdict {
	op, err := parseRead(st.line)
	if err != nil || st.read == nil {
		return nil
	}
	o := st.read
	base, _, _ := strings.Cut(op.kind, ".")
	size, _ := strconv.ParseInt(op.size, 10, 64)
	content, present := st.casBefore[key(op.hash, size)]
	kindOK := base == "id" || base == "zstd"
	// what the storage medium can deliver of the object
	avail := content
	mediumFails := st.streamPiece > 0 && st.streamFail >= 0
	if mediumFails && st.streamFail < len(avail) {
		avail = avail[:st.streamFail]
	}
	// intact: the object can be read completely and matches its digest
	intact := present && wellFormedDigest(op.hash, op.size) && matches(op.hash, size, content) && !mediumFails
	servable := intact && kindOK && op.limit == 0 && st.faultGet == 0
	inRange := op.off >= 0 && op.off <= size
	var got []byte
	decodable := true
	if base == "zstd" {
		got = o.plain
		decodable = o.zfin == "c"
	} else {
		got = bytes.Join(o.sent, nil)
		for _, c := range o.sent {
			if len(c) == 0 || len(c) > cs {
				return &verdict{whatReadChunk, fmt.Sprintf("chunk of %d bytes, chunk size %d", len(c), cs)}
			}
		}
	}
	if o.err == nil {
		switch {
		case !servable:
			if present && kindOK && op.limit == 0 && st.faultGet == 0 && wellFormedDigest(op.hash, op.size) {
				return &verdict{whatReadOKBroken, fmt.Sprintf("%d of %d stored bytes readable, matches digest: %v: %s",
					len(avail), len(content), matches(op.hash, size, content), st.reply)}
			}
			if len(got) != 0 {
				return &verdict{whatReadWrong, fmt.Sprintf("%d bytes delivered for an unreadable object: %s", len(got), st.reply)}
			}
			return &verdict{whatReadNoErr, st.reply}
		case !inRange:
			if base == "zstd" && bytes.Equal(got, content) {
				return &verdict{whatD6, fmt.Sprintf("read_offset %d of a %d byte object: whole object delivered", op.off, size)}
			}
			if len(got) != 0 {
				return &verdict{whatReadWrong, fmt.Sprintf("%d bytes delivered for invalid offset %d: %s", len(got), op.off, st.reply)}
			}
			return &verdict{whatReadNoErr, st.reply}
		}
		want := content[op.off:]
		if base == "zstd" && op.off != 0 && bytes.Equal(got, content) {
			return &verdict{whatD6, fmt.Sprintf("read_offset %d of a %d byte object: whole object delivered", op.off, size)}
		}
		if !decodable {
			return &verdict{whatReadWrong, "compressed response does not decode: " + st.reply}
		}
		if !bytes.Equal(got, want) {
			return &verdict{whatReadWrong, fmt.Sprintf("offset %d: got %x want %x", op.off, got, want)}
		}
		return nil
	}
	// the RPC failed
	if servable && inRange && op.failAt == 0 {
		return &verdict{whatReadFailed, st.reply}
	}
	// whatever was sent before the failure is a prefix of the requested suffix of what is stored
	var allowed []byte
	if present && kindOK && op.off >= 0 && op.off <= int64(len(avail)) {
		allowed = avail[op.off:]
	}
	if decodable && !bytes.HasPrefix(allowed, got) {
		return &verdict{whatReadWrong, fmt.Sprintf("offset %d: %x sent before the failure, stored %x: %s", op.off, got, avail, st.reply)}
	}
	return nil
}
