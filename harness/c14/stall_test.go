package c14

import (
	"context"
	"net"
	"runtime"
	"strings"
	"sync"
	"time"

	remoteexecution "github.com/bazelbuild/remote-apis/build/bazel/remote/execution/v2"
	"github.com/buildbarn/bb-storage/pkg/blobstore"
	"github.com/buildbarn/bb-storage/pkg/blobstore/grpcclients"
	"github.com/google/uuid"
	"google.golang.org/genproto/googleapis/bytestream"
	"google.golang.org/grpc"
	"google.golang.org/grpc/credentials/insecure"
	"google.golang.org/grpc/test/bufconn"
)

// stallServer is a ByteStream server under the harness's control: Read sends the compressed
// object in the given number of messages and then stays silent without ending the RPC (a
// storage server waiting for its own backend), until the client goes away.
type stallServer struct {
	bytestream.UnimplementedByteStreamServer
	mu      sync.Mutex
	payload []byte
	pieces  int
}

func (s *stallServer) Read(in *bytestream.ReadRequest, out bytestream.ByteStream_ReadServer) error {
	s.mu.Lock()
	payload, pieces := s.payload, s.pieces
	s.mu.Unlock()
	for i := 0; i < pieces; i++ {
		lo, hi := len(payload)*i/pieces, len(payload)*(i+1)/pieces
		if err := out.Send(&bytestream.ReadResponse{Data: payload[lo:hi]}); err != nil {
			return err
		}
	}
	<-out.Context().Done()
	return out.Context().Err()
}

type stallEnv struct {
	srv    *stallServer
	client blobstore.BlobAccess
}

var (
	stallMu  sync.Mutex
	stallCur *stallEnv
)

func getStall() *stallEnv {
	stallMu.Lock()
	defer stallMu.Unlock()
	if stallCur != nil {
		return stallCur
	}
	lis := bufconn.Listen(1 << 20)
	srv := grpc.NewServer()
	ss := &stallServer{}
	bytestream.RegisterByteStreamServer(srv, ss)
	remoteexecution.RegisterCapabilitiesServer(srv, capsServer{})
	go srv.Serve(lis)
	conn, err := grpc.NewClient("passthrough:///bufnet",
		grpc.WithContextDialer(func(ctx context.Context, _ string) (net.Conn, error) { return lis.DialContext(ctx) }),
		grpc.WithTransportCredentials(insecure.NewCredentials()))
	if err != nil {
		panic(err)
	}
	stallCur = &stallEnv{srv: ss, client: grpcclients.NewCASBlobAccess(conn, uuid.NewRandom, 16, newPool())}
	return stallCur
}

func dropStall() {
	stallMu.Lock()
	stallCur = nil
	stallMu.Unlock()
}

// hangCause says where a Close of the zstd client's reader that does not return is stuck:
// "decoder" = in decoder.Close() (waiting for the decoder's reader goroutine), "pipe" = waiting
// for the goroutine that feeds the decoder while that is stuck writing into the pipe nobody
// reads any more, "recv" = waiting for it while it is stuck in Recv, "other".
func hangCause() string {
	buf := make([]byte, 4<<20)
	n := runtime.Stack(buf, true)
	closeIn, feeder := "", ""
	for _, g := range strings.Split(string(buf[:n]), "\n\n") {
		switch {
		case strings.Contains(g, "zstdByteStreamChunkReader).Close"):
			if strings.Contains(g, "drainOutput") || strings.Contains(g, "zstd.(*Decoder)") {
				closeIn = "decoder"
			}
		case strings.Contains(g, "grpcclients.(*casBlobAccess).Get.func1"):
			if strings.Contains(g, "io.(*pipe).write") {
				feeder = "pipe"
			} else if strings.Contains(g, "RecvMsg") && feeder == "" {
				feeder = "recv"
			}
		}
	}
	switch {
	case closeIn != "":
		return closeIn
	case feeder != "":
		return feeder
	}
	return "other"
}

// execStall: "stallget <pieces> <k>": the zstd client reads k chunks of a small object that a
// silent server has sent completely (in <pieces> messages) and closes the reader.
func (w *world) execStall(pieces, k int) string {
	env := getStall()
	b := mkBlob([]byte("hello hello hello hello hello world"))
	env.srv.mu.Lock()
	env.srv.payload, env.srv.pieces = zcompress(b.data), pieces
	env.srv.mu.Unlock()
	d, err := sha256Function.NewDigest(b.hash, b.size)
	if err != nil {
		return "harness-error " + err.Error()
	}
	ctx, cancel := context.WithTimeout(context.Background(), 10*time.Second)
	defer cancel()
	r := env.client.Get(ctx, d).ToChunkReader(0, 16)
	for i := 0; i < k; i++ {
		res := watchdog(2*time.Second, func() string {
			if _, err := r.Read(); err != nil {
				return "err " + errTag(err)
			}
			return "ok"
		})
		if res != "ok" {
			dropStall()
			return "read " + res
		}
	}
	time.Sleep(10 * time.Millisecond)
	if c := watchdog(2*time.Second, func() string { r.Close(); return "ok" }); c != "ok" {
		cause := hangCause()
		dropStall()
		return "hang close " + cause
	}
	return "ok"
}
