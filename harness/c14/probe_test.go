package c14

import (
	"bytes"
	"context"
	"crypto/sha256"
	"encoding/hex"
	"fmt"
	"io"
	"testing"

	"github.com/buildbarn/bb-storage/pkg/blobstore/grpcservers"
	bb_zstd "github.com/buildbarn/bb-storage/pkg/zstd"
	"github.com/klauspost/compress/zstd"
	"google.golang.org/genproto/googleapis/bytestream"
	"google.golang.org/grpc/codes"
	"google.golang.org/grpc/status"
)

func hexs(b []byte) string {
	if len(b) == 0 {
		return "-"
	}
	return hex.EncodeToString(b)
}

func zcompress(data []byte, opts ...zstd.EOption) []byte {
	var buf bytes.Buffer
	w, _ := zstd.NewWriter(&buf, opts...)
	w.Write(data)
	w.Close()
	return buf.Bytes()
}

func TestProbe(t *testing.T) {
	pool := bb_zstd.NewUnboundedPool(nil, nil)
	content := []byte("hello hello hello hello world, this is some content")
	h := sha256.Sum256(content)
	hs := hex.EncodeToString(h[:])
	z := zcompress(content)
	t.Logf("compressed %d -> %d: %x", len(content), len(z), z)
	name := fmt.Sprintf("uploads/u/compressed-blobs/zstd/%s/%d", hs, len(content))
	try := func(label string, end error, msgs ...*bytestream.WriteRequest) {
		be := newMemBackend(false)
		srv := grpcservers.NewByteStreamServer(be, 16, pool)
		msgs[0].ResourceName = name
		st := &fakeWriteStream{fakeStream: fakeStream{context.Background()}, msgs: msgs, end: end}
		err := srv.Write(st)
		t.Logf("%-40s -> %s raw=%v resp=%v recvs=%d stored=%v", label, errTag(err), err, st.response, st.recvs, be.snapshot())
	}
	try("whole", io.EOF, &bytestream.WriteRequest{Data: z, FinishWrite: true})
	try("first offset 7", io.EOF, &bytestream.WriteRequest{WriteOffset: 7, Data: z, FinishWrite: true})
	for cut := 1; cut <= 6; cut++ {
		try(fmt.Sprintf("truncated by %d", cut), io.EOF, &bytestream.WriteRequest{Data: z[:len(z)-cut], FinishWrite: true})
	}
	try("trunc4 then error", status.Error(codes.Canceled, "injected"), &bytestream.WriteRequest{Data: z[:len(z)-4]})
	try("whole then error no finish", status.Error(codes.Canceled, "injected"), &bytestream.WriteRequest{Data: z})
	try("whole no finish eof", io.EOF, &bytestream.WriteRequest{Data: z})
	try("half then error", status.Error(codes.Canceled, "injected"), &bytestream.WriteRequest{Data: z[:10]})
	try("garbage", io.EOF, &bytestream.WriteRequest{Data: []byte("garbage!garbage!"), FinishWrite: true})
	try("whole+trailing garbage", io.EOF, &bytestream.WriteRequest{Data: append(append([]byte{}, z...), 1, 2, 3, 4, 5), FinishWrite: true})
	try("two frames too big", io.EOF, &bytestream.WriteRequest{Data: append(append([]byte{}, z...), z...), FinishWrite: true})
	try("data after finish", io.EOF, &bytestream.WriteRequest{Data: z, FinishWrite: true}, &bytestream.WriteRequest{WriteOffset: 999, Data: []byte("x"), FinishWrite: true})
	try("empty", io.EOF, &bytestream.WriteRequest{FinishWrite: true})
	try("split with gap", io.EOF, &bytestream.WriteRequest{Data: z[:10]}, &bytestream.WriteRequest{WriteOffset: 11, Data: z[10:], FinishWrite: true})
	try("split ok empties", io.EOF, &bytestream.WriteRequest{}, &bytestream.WriteRequest{Data: z[:10]}, &bytestream.WriteRequest{WriteOffset: 10}, &bytestream.WriteRequest{WriteOffset: 10, Data: z[10:]}, &bytestream.WriteRequest{WriteOffset: int64(len(z)), FinishWrite: true})
	znocrc := zcompress(content, zstd.WithEncoderCRC(false))
	try("nocrc whole", io.EOF, &bytestream.WriteRequest{Data: znocrc, FinishWrite: true})
	try("nocrc trunc1", io.EOF, &bytestream.WriteRequest{Data: znocrc[:len(znocrc)-1], FinishWrite: true})

	for _, k := range []int{1, 2, 3, 4, 5, 8} {
		try(fmt.Sprintf("whole + %d bytes of next frame", k), io.EOF, &bytestream.WriteRequest{Data: append(append([]byte{}, z...), z[:k]...), FinishWrite: true})
	}
	try("whole + 4 bytes of next frame, then err", status.Error(codes.Canceled, "injected"), &bytestream.WriteRequest{Data: append(append([]byte{}, z...), z[:4]...)})
	{
		var buf bytes.Buffer
		w, _ := zstd.NewWriter(&buf)
		w.Write(content[:20])
		w.Flush()
		n1 := buf.Len()
		w.Write(content[20:])
		w.Flush()
		n2 := buf.Len()
		w.Close()
		zz := buf.Bytes()
		t.Logf("flushed frame: %d %d %d", n1, n2, len(zz))
		try("2blocks whole", io.EOF, &bytestream.WriteRequest{Data: zz, FinishWrite: true})
		try("2blocks cut after block 2", io.EOF, &bytestream.WriteRequest{Data: zz[:n2], FinishWrite: true})
		try("2blocks cut after block 1", io.EOF, &bytestream.WriteRequest{Data: zz[:n1], FinishWrite: true})
		try("2blocks cut after block 2 +1", io.EOF, &bytestream.WriteRequest{Data: zz[:n2+1], FinishWrite: true})
		try("2blocks cut after block 2, err", status.Error(codes.Canceled, "injected"), &bytestream.WriteRequest{Data: zz[:n2]})
		try("2blocks gap after block 2", io.EOF, &bytestream.WriteRequest{Data: zz[:n2]}, &bytestream.WriteRequest{WriteOffset: 3, Data: zz[n2:], FinishWrite: true})
	}
	// independent decoder behaviour
	for _, in := range [][]byte{z, z[:len(z)-1], z[:len(z)-4], z[:len(z)-5], z[:10], nil, []byte("garbage!garbage!"), append(append([]byte{}, z...), 1, 2, 3, 4, 5)} {
		d, _ := zstd.NewReader(bytes.NewReader(in))
		out, err := io.ReadAll(d)
		d.Close()
		t.Logf("decode %d bytes -> %d bytes err=%v", len(in), len(out), err)
	}
}
