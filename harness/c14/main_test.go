package c14

import (
	"fmt"
	"strings"
	"testing"
	"time"

	"verifharness/hx"
)

// detect finds out by probing which variant of the code the tree carries (the model
// has both; the oracle does not depend on this): D5/D6 repaired or not, whether the
// CAS validator's end-of-data probe tolerates io.ErrUnexpectedEOF, and what a
// truncated compressed stream surfaces as.
func detect() flags {
	content := []byte("hello hello hello hello world")
	b := mkBlob(content)
	z := zcompress(content)
	fl := flags{truncCode: 2, truncTag: "unexpected-eof"}
	run1 := func(lines ...string) []*step {
		return runScript(append([]string{"#cfg 16 100"}, lines...), fl).steps
	}
	wl := func(off int64, data []byte) string {
		return writeLine(&writeOp{kind: "zstd", hash: b.hash, size: fmt.Sprint(b.size), end: "eof", msgs: []wmsg{{off, data, true}}})
	}
	fl.strictW = !strings.HasPrefix(run1(wl(7, z))[0].reply, "ok")
	fl.lenient = strings.HasPrefix(run1(wl(0, append(append([]byte{}, z...), z[0])))[0].reply, "ok")
	if r := run1(wl(0, z[:len(z)-5]))[0].reply; strings.HasPrefix(r, "err ") {
		f := strings.Fields(r)
		fmt.Sscan(f[1], &fl.truncCode)
		fl.truncTag = f[2]
	}
	st := run1(storeLine(b), fmt.Sprintf("read zstd %s %d 6 0 0", b.hash, b.size))[1]
	fl.strictR = !(st.read.err == nil && string(st.read.plain) == string(content))
	one := mkBlob([]byte{7})
	for i := 0; i < 25 && !fl.clientEOF; i++ {
		r := run1(storeLine(one), fmt.Sprintf("cget 1 %s 1", one.hash))[1].reply
		fl.clientEOF = r == "err 13 size"
	}
	return fl
}

// exhaustive enumerates every Write of up to maxLen requests over a small alphabet
// (offsets 0 / middle / end, data none / first half / second half / all, finish_write
// or not), each ended by a half-close or a broken stream.
func exhaustive(e *env, maxLen int) int {
	content := []byte("ab")
	b := mkBlob(content)
	n := 0
	for _, kind := range []string{"id", "zstd"} {
		payload := content
		if kind == "zstd" {
			payload = zcompress(content)
		}
		h := len(payload) / 2
		var alphabet []wmsg
		for _, off := range []int64{0, int64(h), int64(len(payload))} {
			for _, d := range [][]byte{nil, payload[:h], payload[h:], payload} {
				alphabet = append(alphabet, wmsg{off, d, false}, wmsg{off, d, true})
			}
		}
		var rec func(msgs []wmsg)
		rec = func(msgs []wmsg) {
			for _, end := range []string{"eof", "e1"} {
				if e.stop() {
					return
				}
				op := &writeOp{kind: kind, hash: b.hash, size: "2", end: end, msgs: msgs}
				e.handle(fmt.Sprintf("exhaustive/%s/%d", kind, n), []string{"#cfg 16 100", writeLine(op)}, "exhaustive-"+kind)
				n++
			}
			if len(msgs) == maxLen {
				return
			}
			for _, m := range alphabet {
				rec(append(append([]wmsg{}, msgs...), m))
			}
		}
		rec(nil)
	}
	return n
}

func TestC14(t *testing.T) {
	run := hx.NewRun("C14")
	defer run.Finish(t)
	model, err := hx.StartModel()
	if err != nil {
		t.Fatalf("start model: %v", err)
	}
	defer model.Close()
	run.HasModel = model != nil
	e := &env{run: run, model: model, fl: detect(), seen: map[string]int{}}
	run.Extra("variant", fmt.Sprintf("D5 repaired=%v D6 repaired=%v D10 repaired=%v probe tolerates io.ErrUnexpectedEOF=%v truncated stream surfaces as %d/%s",
		e.fl.strictW, e.fl.strictR, !e.fl.clientEOF, e.fl.lenient, e.fl.truncCode, e.fl.truncTag))
	run.SetRule("a case is a script of RPCs against fresh backends: ByteStream.Write with an arbitrary request sequence (gaps, overlaps, " +
		"missing/repeated/early finish_write, early close, stream errors at any request, empty requests, identity and real zstd data, " +
		"malformed resource names, backend/send faults), ByteStream.Read (offsets around 0/size/chunk multiples, read_limit, send failures, " +
		"absent/corrupt objects), BatchUpdateBlobs/BatchReadBlobs/FindMissingBlobs (malformed digests, mismatching data, size limit, faults), " +
		"ActionCache Get/Update, and the real client against the real servers over an in-memory gRPC connection; " +
		"non-trivial = a Write with at least two requests or a script of at least three operations; distinct by script hash")

	if name, script := run.ReplayScript(); script != nil {
		v, agree, found := e.evalCase(name, script)
		for _, f := range found {
			run.Report(f)
			t.Logf("%s: %s: %s", f.Kind, f.What, f.Detail)
		}
		res := runScript(script, e.fl)
		for i, l := range res.modelLines {
			t.Logf("%-60.60s impl: %s", l, res.implLines[i])
		}
		if model != nil {
			t.Logf("model: %v", canonModel(res, model.Batch(res.modelLines)))
		}
		t.Logf("replay %s: oracle=%v agree=%v", name, v, agree)
		return
	}
	for name, script := range run.CorpusScripts() {
		e.handle("corpus/"+name, script, "corpus")
	}
	e.flush()
	canonical(e)
	maxLen := run.Scale(2, 3)
	t0 := time.Now()
	n := exhaustive(e, maxLen)
	e.flush()
	run.Extra("exhaustive_seconds", time.Since(t0).Seconds())
	run.Extra("exhaustive_cases", n)
	run.Extra("exhaustive_max_requests", maxLen)
	run.SetExhaustive(true)
	type genf struct {
		name   string
		weight int
		f      func(r *hx.Rand) []string
	}
	gens := []genf{
		{"write", 10, func(r *hx.Rand) []string { return genWriteCase(r, run) }},
		{"read", 4, func(r *hx.Rand) []string { return genReadCase(r, e.fl.strictR) }},
		{"teardown", 1, func(r *hx.Rand) []string { return genTeardownCase(r, e.fl.strictR) }},
		{"ac-client", 1, genACClientCase},
		{"batch", 4, genBatchCase},
		{"ac", 1, genACCase},
		{"client", 3, genClientCase},
	}
	total := 0
	for _, g := range gens {
		total += g.weight
	}
	nr := run.Scale(6000, 40000)
	for i := 0; i < nr && !e.stop(); i++ {
		r := hx.NewRand(run.Seed, "C14", i)
		pick := r.Intn(total)
		for _, g := range gens {
			if pick < g.weight {
				e.handle(fmt.Sprintf("seed%d/case%d/%s", run.Seed, i, g.name), g.f(r), g.name)
				break
			}
			pick -= g.weight
		}
	}
	e.flush()
}

// canonical runs a handful of fixed scripts, among them the minimal inputs of the known defects.
func canonical(e *env) {
	b := mkBlob([]byte("hello hello hello world"))
	z := zcompress(b.data)
	size := fmt.Sprint(b.size)
	w := func(kind string, msgs ...wmsg) string {
		return writeLine(&writeOp{kind: kind, hash: b.hash, size: size, end: "eof", msgs: msgs})
	}
	cases := [][]string{
		{"#cfg 16 100", w("id", wmsg{0, b.data, true}), fmt.Sprintf("read id %s %s 6 0 0", b.hash, size)},
		{"#cfg 16 100", w("id", wmsg{7, b.data, true})},
		{"#cfg 16 100", w("zstd", wmsg{0, z, true}), fmt.Sprintf("read zstd %s %s 0 0 0", b.hash, size)},
		{"#cfg 16 100", w("zstd", wmsg{7, z, true})},
		{"#cfg 16 100", storeLine(b), fmt.Sprintf("read zstd %s %s 6 0 0", b.hash, size)},
		{"#cfg 16 100", storeLine(b), fmt.Sprintf("read zstd %s %s %d 0 0", b.hash, size, b.size+1)},
		{"#cfg 4 100", fmt.Sprintf("cput 0 %s %s %s", b.hash, size, hexs(b.data)), fmt.Sprintf("cget 0 %s %s", b.hash, size)},
		{"#cfg 4 100", fmt.Sprintf("cput 1 %s %s %s", b.hash, size, hexs(b.data)), fmt.Sprintf("cget 1 %s %s", b.hash, size)},
		{"#cfg 16 100", "store " + sha([]byte{7}) + " 1 07", "cget 1 " + sha([]byte{7}) + " 1"},
	}
	// FindMissing through client and server for sets mixing digest functions and instance names
	m5, s1 := hashAs("md5", b.data), hashAs("sha1", b.data)
	cases = append(cases,
		[]string{"#cfg 16 100", fmt.Sprintf("cfm ; sha256.- %s %s ; md5.- %s %s", b.hash, size, m5, size)},
		[]string{"#cfg 16 100", storeLine(b), fmt.Sprintf("cfm ; sha256.a %s %s ; md5.a %s %s ; sha1.a %s %s ; sha256.b %s %s ; md5.- %s %s",
			b.hash, size, m5, size, s1, size, b.hash, size, m5, size)},
		[]string{"#cfg 16 100", fmt.Sprintf("store %s %s %s", m5, size, hexs(b.data)),
			fmt.Sprintf("cfm ; md5.a_b %s %s ; sha256.a_b %s %s ; md5.c %s %s", m5, size, b.hash, size, m5, size)})
	// large objects through the zstd client: reader closed early, frontend whose stream breaks
	cases = append(cases,
		[]string{"#cfg 16 100", "bigput 512 reject7", "bigput 512 accept", "bigput 256 full", "bigput 1024 reject8", "bigput 1024 accept"},
		[]string{"#cfg 16 100", "stallget 1 1"},
		[]string{"#cfg 16 100", "stallget 2 0"},
		[]string{"#cfg 16 100", "bigget 1024 1", "bigget 768 3", "bigget 1024 2"},
		[]string{"#cfg 16 100", "bigfront 1024 2", "bigfront 1024 0", "bigfront 768 1"})
	// the Action Cache client and server back to back, once per digest function
	for _, fn := range allFunctions {
		h := strings.Repeat("5a", functionHashLen[fn]/2)
		msg := hexs(genActionResult(hx.NewRand(1, "C14-ac", len(fn))))
		cases = append(cases, []string{"#cfg 16 1000", fmt.Sprintf("cacput %s.- %s 11 %s", fn, h, msg),
			fmt.Sprintf("cacget %s.- %s 11", fn, h), fmt.Sprintf("cacget %s.a %s 12", fn, h)})
	}
	// more torn-down compressed streams than the pools have slots, then ordinary compressed reads
	if e.fl.strictR {
		td := []string{"#cfg 4 100", storeLine(b)}
		for i := 0; i < poolSlots+1; i++ {
			td = append(td, fmt.Sprintf("read zstd %s %s 0 0 1", b.hash, size))
		}
		for _, off := range []int{0, 6, 23} {
			td = append(td, fmt.Sprintf("read zstd %s %s %d 0 0", b.hash, size, off))
		}
		cases = append(cases, td)
	}
	// a streaming backend whose medium fails after k bytes, for every k; and stored
	// objects that do not match their digest (too short, too long, same length)
	obj := mkBlob([]byte("0123456789"))
	reads := func() []string {
		var l []string
		for _, kind := range []string{"id", "zstd"} {
			for _, off := range []int{0, 4, 10} {
				l = append(l, fmt.Sprintf("read %s %s 10 %d 0 0", kind, obj.hash, off))
			}
		}
		return l
	}
	for k := 0; k <= 11; k++ {
		for _, piece := range []int{3, 64} {
			c := append([]string{"#cfg 4 100", storeLine(obj), fmt.Sprintf("getmode stream %d %d 14", piece, k)}, reads()...)
			cases = append(cases, c)
		}
	}
	for _, bad := range []string{"012345678", "01234567890", "012345678X", ""} {
		for _, mode := range []string{"getmode slice", "getmode stream 3 - 14", "getmode stream 64 - 14"} {
			c := append([]string{"#cfg 4 100", fmt.Sprintf("store %s 10 %s", obj.hash, hexs([]byte(bad))), mode}, reads()...)
			cases = append(cases, c)
		}
	}
	for i, c := range cases {
		e.handle(fmt.Sprintf("canonical/%d", i), c, "canonical")
	}
	e.flush()
}
