package c14

import (
	"crypto/md5"
	"crypto/sha1"
	"encoding/hex"
	"fmt"
	"strings"

	remoteexecution "github.com/bazelbuild/remote-apis/build/bazel/remote/execution/v2"
	"google.golang.org/protobuf/proto"

	"verifharness/hx"
)

func pickCall(r *hx.Rand) string {
	switch r.Intn(14) {
	case 0:
		return "instance"
	case 1:
		return "function"
	case 2, 3:
		return "ok.s"
	case 4, 5:
		return "ok.i"
	case 6:
		return "ok.is"
	}
	return "ok"
}

// badDigest malforms a digest; first = it is the first entry of a request whose
// digest function is inferred from the hash length (so the length must stay).
func badDigest(r *hx.Rand, b blob, keepLength bool) (string, string) {
	n := 5
	if keepLength {
		n = 3
	}
	switch r.Intn(n) {
	case 0:
		return "g" + b.hash[1:], fmt.Sprint(b.size)
	case 1:
		return b.hash, "-1"
	case 2:
		return strings.ToUpper(b.hash[:8]) + "AB" + b.hash[10:], fmt.Sprint(b.size)
	case 3:
		return b.hash[:40], fmt.Sprint(b.size)
	}
	return "nil", "0"
}

func genBatchCase(r *hx.Rand) []string {
	maxMsg := r.PickInt(0, 10, 30, 60, 100)
	script := []string{fmt.Sprintf("#cfg %d %d", pickCS(r), maxMsg)}
	var blobs []blob
	for i, n := 0, r.Range(1, 5); i < n; i++ {
		b := mkBlob(genContent(r))
		if r.Chance(1, 2) {
			b = mkBlob(r.Bytes(r.PickInt(0, 1, 5, 9, 10, 11, 29, 30, 31)))
		}
		blobs = append(blobs, b)
		switch r.Intn(6) {
		case 0:
			script = append(script, corruptStore(r, b))
		case 1, 2:
		default:
			script = append(script, storeLine(b))
		}
	}
	for i, n := 0, r.Range(1, 4); i < n; i++ {
		if r.Chance(1, 10) {
			script = append(script, genFault(r))
		}
		call := pickCall(r)
		explicit := strings.Contains(call, "s")
		k := r.PickInt(0, 1, 1, 2, 2, 3, 4, 6)
		switch r.Intn(3) {
		case 0:
			line := "bupd " + call
			for j := 0; j < k; j++ {
				b := blobs[r.Intn(len(blobs))]
				if r.Chance(1, 3) {
					b = mkBlob(genContent(r))
				}
				hash, size, bad, data := b.hash, fmt.Sprint(b.size), 0, b.data
				switch r.Intn(8) {
				case 0:
					hash, size = badDigest(r, b, j == 0 && !explicit)
					bad = 1
				case 1:
					data = append(append([]byte{}, data...), 1)
				case 2:
					if len(data) > 0 {
						data = data[:len(data)-1]
					}
				case 3:
					if len(data) > 0 {
						data = append([]byte{}, data...)
						data[r.Intn(len(data))] ^= 1
					}
				}
				line += fmt.Sprintf(" ; %d %s %s %s", bad, hash, size, hexs(data))
			}
			script = append(script, line)
		default:
			verb := "bread"
			if r.Chance(1, 2) {
				verb = "fmb"
			}
			line := verb + " " + call
			for j := 0; j < k; j++ {
				b := blobs[r.Intn(len(blobs))]
				hash, size, bad := b.hash, fmt.Sprint(b.size), 0
				if r.Chance(1, 9) {
					hash, size = badDigest(r, b, j == 0 && !explicit)
					bad = 1
				}
				line += fmt.Sprintf(" ; %d %s %s", bad, hash, size)
			}
			script = append(script, line)
		}
	}
	return script
}

func genActionResult(r *hx.Rand) []byte {
	ar := &remoteexecution.ActionResult{ExitCode: int32(r.Intn(4))}
	if r.Chance(1, 2) {
		ar.StdoutRaw = r.Bytes(r.PickInt(1, 5, 20, 60))
	}
	if r.Chance(1, 3) {
		d := mkBlob(r.Bytes(3))
		ar.StderrDigest = &remoteexecution.Digest{Hash: d.hash, SizeBytes: d.size}
	}
	b, err := proto.MarshalOptions{Deterministic: true}.Marshal(ar)
	if err != nil {
		panic(err)
	}
	return b
}

func genACCase(r *hx.Rand) []string {
	script := []string{fmt.Sprintf("#cfg 16 %d", r.PickInt(0, 8, 24, 70, 200))}
	var keys []blob
	for i, n := 0, r.Range(1, 3); i < n; i++ {
		keys = append(keys, mkBlob(r.Bytes(r.Range(1, 6))))
	}
	call := func() string {
		if r.Chance(1, 6) {
			return []string{"instance", "function", "digest.neg", "digest.hex", "digest.up", "function.nil"}[r.Intn(6)]
		}
		return []string{"ok", "ok.i", "ok.s"}[r.Intn(3)]
	}
	if r.Chance(1, 4) {
		k := keys[r.Intn(len(keys))]
		if r.Chance(1, 2) {
			script = append(script, fmt.Sprintf("acstore %s %d %s 1", k.hash, k.size, hexs(genActionResult(r))))
		} else {
			script = append(script, fmt.Sprintf("acstore %s %d ffffff07 0", k.hash, k.size)) // not a protobuf message
		}
	}
	for i, n := 0, r.Range(2, 6); i < n; i++ {
		if r.Chance(1, 10) {
			script = append(script, genFault(r))
		}
		k := keys[r.Intn(len(keys))]
		if r.Chance(1, 2) {
			script = append(script, fmt.Sprintf("acput %s %s %d %s", call(), k.hash, k.size, hexs(genActionResult(r))))
		} else {
			script = append(script, fmt.Sprintf("acget %s %s %d", call(), k.hash, k.size))
		}
	}
	return script
}

// genClientCase: the real client against the real servers over an in-memory connection.
func genClientCase(r *hx.Rand) []string {
	cs := pickCS(r)
	script := []string{fmt.Sprintf("#cfg %d 1000", cs)}
	var blobs []blob
	for i, n := 0, r.Range(1, 3); i < n; i++ {
		var b blob
		if r.Chance(1, 2) {
			b = mkBlob(r.Bytes(r.PickInt(0, 1, cs-1, cs, cs+1, 2*cs, 2*cs+1, 3*cs)))
		} else {
			b = mkBlob(genContent(r))
		}
		blobs = append(blobs, b)
		if r.Chance(1, 3) {
			if r.Chance(1, 4) {
				script = append(script, corruptStore(r, b))
			} else {
				script = append(script, storeLine(b))
			}
		}
	}
	if r.Chance(1, 60) {
		script = append(script, fmt.Sprintf("bigput %d %s", r.PickInt(256, 512, 1024),
			[]string{"reject7", "reject8", "reject14", "accept", "accept", "full"}[r.Intn(6)]))
	}
	if r.Chance(1, 40) {
		if r.Chance(1, 2) {
			script = append(script, fmt.Sprintf("bigget %d %d", r.PickInt(512, 768, 1024), r.Range(1, 6)))
		} else {
			script = append(script, fmt.Sprintf("bigfront %d %d", r.PickInt(512, 768, 1024), r.PickInt(0, 1, 2, 2, 3, 5)))
		}
	}
	for i, n := 0, r.Range(2, 6); i < n; i++ {
		b := blobs[r.Intn(len(blobs))]
		z := r.Intn(2)
		if r.Chance(1, 15) {
			script = append(script, genFault(r))
		}
		switch r.Intn(5) {
		case 0, 1:
			data := b.data
			if r.Chance(1, 4) { // the client is handed data that does not match the digest
				data = append(append([]byte{}, data...), 9)
				if r.Chance(1, 2) && len(b.data) > 0 {
					data = append([]byte{}, b.data...)
					data[r.Intn(len(data))] ^= 4
				} else if r.Chance(1, 2) && len(b.data) > 0 {
					data = b.data[:len(b.data)-1]
				}
			}
			script = append(script, fmt.Sprintf("cput %d %s %d %s", z, b.hash, b.size, hexs(data)))
		case 2, 3:
			script = append(script, fmt.Sprintf("cget %d %s %d", z, b.hash, b.size))
		case 4:
			if r.Chance(1, 2) {
				script = append(script, genMixedFM(r, blobs)...)
				break
			}
			line := "cfm"
			for j, k := 0, r.Range(0, 4); j < k; j++ {
				x := blobs[r.Intn(len(blobs))]
				line += fmt.Sprintf(" ; %s %d", x.hash, x.size)
			}
			script = append(script, line)
		}
	}
	return script
}

// hashAs is the digest of data under another digest function.
func hashAs(fn string, data []byte) string {
	switch fn {
	case "md5":
		h := md5.Sum(data)
		return hex.EncodeToString(h[:])
	case "sha1":
		h := sha1.Sum(data)
		return hex.EncodeToString(h[:])
	}
	return sha(data)
}

// genMixedFM: a FindMissing set that spans digest functions and instance names (the client has
// to split it into one FindMissingBlobs call per function and instance name); some of the
// objects are stored first.
func genMixedFM(r *hx.Rand, blobs []blob) []string {
	var script []string
	fns := []string{"sha256", "sha256", "md5", "sha1"}
	insts := []string{"-", "-", "a", "a_b", "c"}
	line := "cfm"
	for j, k := 0, r.Range(1, 6); j < k; j++ {
		x := blobs[r.Intn(len(blobs))]
		fn := fns[r.Intn(len(fns))]
		if r.Chance(1, 3) {
			insts = insts[:3] // few instance names: functions are more likely to share one
		}
		h := hashAs(fn, x.data)
		if fn != "sha256" && r.Chance(1, 3) {
			script = append(script, fmt.Sprintf("store %s %d %s", qualHash(int(functionEnums[fn]), h), x.size, hexs(x.data)))
		}
		line += fmt.Sprintf(" ; %s.%s %s %d", fn, insts[r.Intn(len(insts))], h, x.size)
	}
	return append(script, line)
}

var allFunctions = []string{"sha256", "md5", "sha1", "sha384", "sha512", "sha256tree", "blake3", "gitsha1"}

// genACClientCase: the real Action Cache client against the real server, over every digest
// function of the table - also those whose hash length alone does not identify them
// (SHA256TREE and BLAKE3 look like SHA-256, GITSHA1 like SHA-1). AC keys are opaque: any hash
// of the right length will do.
func genACClientCase(r *hx.Rand) []string {
	script := []string{"#cfg 16 1000"}
	type k struct {
		hash string
		size int64
	}
	var keys []k
	for i, n := 0, r.Range(1, 2); i < n; i++ {
		keys = append(keys, k{hex.EncodeToString(r.Bytes(64)), int64(r.Range(1, 200))})
	}
	insts := []string{"-", "-", "a", "a_b"}
	tag := func() (string, string) {
		fn := allFunctions[r.Intn(len(allFunctions))]
		x := keys[r.Intn(len(keys))]
		return fn + "." + insts[r.Intn(len(insts))], fmt.Sprintf("%s %d", x.hash[:functionHashLen[fn]], x.size)
	}
	for i, n := 0, r.Range(3, 8); i < n; i++ {
		if r.Chance(1, 15) {
			script = append(script, genFault(r))
		}
		t, d := tag()
		if r.Chance(1, 2) {
			script = append(script, fmt.Sprintf("cacput %s %s %s", t, d, hexs(genActionResult(r))))
			if r.Chance(1, 2) {
				script = append(script, fmt.Sprintf("cacget %s %s", t, d))
			}
		} else {
			script = append(script, fmt.Sprintf("cacget %s %s", t, d))
		}
	}
	return script
}
