package c14

import (
	"fmt"
	"strconv"
	"strings"

	remoteexecution "github.com/bazelbuild/remote-apis/build/bazel/remote/execution/v2"
	"google.golang.org/grpc/codes"
	"google.golang.org/protobuf/proto"
)

// ---------------------------------------------------------------- ActionCache

// acDigest builds the action digest of an AC request; call = digest.<variant> malforms it.
func acDigest(call, hash, size string) *remoteexecution.Digest {
	n, _ := strconv.ParseInt(size, 10, 64)
	base, variant, _ := strings.Cut(call, ".")
	if variant == "nil" {
		return nil // no digest at all: the digest function cannot be inferred either
	}
	if base == "digest" {
		switch variant {
		case "neg":
			return &remoteexecution.Digest{Hash: hash, SizeBytes: -n - 1}
		case "hex":
			return &remoteexecution.Digest{Hash: "g" + hash[1:], SizeBytes: n}
		case "up":
			return &remoteexecution.Digest{Hash: strings.ToUpper(hash), SizeBytes: n}
		}
		return nil
	}
	return &remoteexecution.Digest{Hash: hash, SizeBytes: n}
}

func (w *world) execAC(line string) string {
	f := strings.Fields(line)
	ctx, cancel := opContext()
	defer cancel()
	inst, fn := callParams(f[1])
	return guard(func() string {
		switch f[0] {
		case "acput":
			if len(f) != 5 {
				return "harness-error bad acput"
			}
			raw, _ := unhex(f[4])
			var ar remoteexecution.ActionResult
			if err := proto.Unmarshal(raw, &ar); err != nil {
				return "harness-error acput message does not parse"
			}
			resp, err := w.acSrv.UpdateActionResult(ctx, &remoteexecution.UpdateActionResultRequest{
				InstanceName: inst, DigestFunction: fn, ActionDigest: acDigest(f[1], f[2], f[3]), ActionResult: &ar,
			})
			if err != nil {
				return "err " + errTag(err)
			}
			if !proto.Equal(resp, &ar) {
				return "anomaly UpdateActionResult returned a different message"
			}
			return "ok"
		case "acget":
			if len(f) != 4 {
				return "harness-error bad acget"
			}
			resp, err := w.acSrv.GetActionResult(ctx, &remoteexecution.GetActionResultRequest{
				InstanceName: inst, DigestFunction: fn, ActionDigest: acDigest(f[1], f[2], f[3]),
			})
			if err != nil {
				return "err " + errTag(err)
			}
			b, err := proto.MarshalOptions{Deterministic: true}.Marshal(resp)
			if err != nil {
				return "harness-error " + err.Error()
			}
			return "ok " + hexs(b)
		}
		return "harness-error unknown ac op"
	})
}

// ---------------------------------------------------------------- running a script

// flags is what the start-up probes found out about the tree (see detect).
type flags struct {
	strictW, strictR, lenient bool
	truncCode                 int
	truncTag                  string
	clientEOF                 bool // D10 present
}

func (f flags) cfgLine(cs, maxMsg int) string {
	b := func(x bool) int {
		if x {
			return 1
		}
		return 0
	}
	return fmt.Sprintf("cfg %d %d %d %d %d %d %s %d", cs, maxMsg, b(f.strictW), b(f.strictR), b(f.lenient), f.truncCode, f.truncTag, b(f.clientEOF))
}

// step is one executed script line: what the real code replied and what it did to the backends.
type step struct {
	line          string
	reply         string
	casBefore     map[string][]byte
	casAfter      map[string][]byte
	acBefore      map[string][]byte
	acAfter       map[string][]byte
	read          *readObs
	batch         *batchObs
	fmAsked       [][]string
	casPuts       []string // keys of the successful backend Puts of this step
	acPuts        []string
	faultPut      codes.Code
	faultPutEarly bool
	faultGet      codes.Code
	faultFm       codes.Code
	streamPiece   int // > 0: ByteStream.Read was served from a streaming CAS buffer
	streamFail    int
}

func (b *memBackend) copyMap() map[string][]byte {
	b.mu.Lock()
	defer b.mu.Unlock()
	m := make(map[string][]byte, len(b.blobs))
	for k, v := range b.blobs {
		m[k] = v
	}
	return m
}

func dumpLine(cas, ac *memBackend) string {
	return "cas " + strings.Join(cas.snapshot(), " ") + " | ac " + strings.Join(ac.snapshot(), " ")
}

// canon makes a reply comparable: set-valued replies are sorted.
func canon(request, reply string) string {
	switch {
	case strings.HasPrefix(reply, "cas "):
		a, b, _ := strings.Cut(strings.TrimPrefix(reply, "cas "), "| ac")
		return "cas " + sortedFields(a) + " | ac " + sortedFields(b)
	case strings.HasPrefix(request, "cput 1") && strings.HasPrefix(reply, "err"):
		// the zstd client reports whichever of its own Send error and the server's status it sees first
		return "err"
	case (strings.HasPrefix(request, "fmb") || strings.HasPrefix(request, "cfm")) && strings.HasPrefix(reply, "ok"):
		return strings.TrimSpace("ok " + sortedFields(strings.TrimPrefix(reply, "ok")))
	}
	return strings.TrimSpace(reply)
}

func parseCfg(line string) (cs, maxMsg int, err error) {
	f := strings.Fields(line)
	if len(f) != 3 || f[0] != "#cfg" {
		return 0, 0, fmt.Errorf("bad #cfg line %q", line)
	}
	if cs, err = strconv.Atoi(f[1]); err != nil || cs <= 0 {
		return 0, 0, fmt.Errorf("bad chunk size in %q", line)
	}
	if maxMsg, err = strconv.Atoi(f[2]); err != nil {
		return 0, 0, err
	}
	return cs, maxMsg, nil
}
