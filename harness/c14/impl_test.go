package c14

import (
	"context"
	"errors"
	"fmt"
	"io"
	"sort"
	"strings"
	"sync"

	remoteexecution "github.com/bazelbuild/remote-apis/build/bazel/remote/execution/v2"
	"github.com/buildbarn/bb-storage/pkg/blobstore"
	"github.com/buildbarn/bb-storage/pkg/blobstore/buffer"
	"github.com/buildbarn/bb-storage/pkg/blobstore/slicing"
	"github.com/buildbarn/bb-storage/pkg/digest"
	"github.com/buildbarn/bb-storage/pkg/util"
	"google.golang.org/genproto/googleapis/bytestream"
	"google.golang.org/grpc/codes"
	"google.golang.org/grpc/metadata"
	"google.golang.org/grpc/status"
)

// ---------------------------------------------------------------- recording backend

// memBackend is a BlobAccess that validates nothing by itself: Put stores
// whatever the buffer handed to it yields (so what the servers let through is
// visible), Get wraps the stored bytes the way every real backend does (a CAS
// buffer that checks them against the digest; AC: a proto buffer).
type memBackend struct {
	mu       sync.Mutex
	ac       bool
	blobs    map[string][]byte // key: "<hash>-<size>"
	putLog   []string          // keys of successful Puts, in order
	putCalls int
	putErr   codes.Code // next Puts fail with this code after consuming the buffer (0 = none)
	putEarly bool       // ... before consuming it (buffer discarded)
	putSkip  bool       // Put discards the buffer and returns nil at once (object already present)
	getErr   codes.Code
	fmErr    codes.Code
	fmAsked  [][]string // every FindMissing argument, as keys
	maxSize  int
	// streaming mode (used while a ByteStream.Read runs): Get hands out a CAS buffer that
	// validates while streaming, backed by a scripted medium: pieces of streamPiece bytes,
	// cut short by an I/O error of code streamCode after streamFail bytes (-1 = healthy).
	streamPiece int
	streamFail  int
	streamCode  codes.Code
	streaming   bool
}

// scriptedMedium is the ChunkReader of the streaming mode.
type scriptedMedium struct {
	pieces [][]byte
	end    error
}

func (m *scriptedMedium) Read() ([]byte, error) {
	if len(m.pieces) == 0 {
		return nil, m.end
	}
	p := m.pieces[0]
	m.pieces = m.pieces[1:]
	return p, nil
}

func (m *scriptedMedium) Close() {}

func newMemBackend(ac bool) *memBackend {
	return &memBackend{ac: ac, blobs: map[string][]byte{}, maxSize: 1 << 20}
}

// keyOf is the backend's key of a digest: digest function, hash and size (SHA-256, the
// function of almost all cases, is left implicit; other functions are prefixed as ff<enum>).
func keyOf(d digest.Digest) string {
	return fmt.Sprintf("%s-%d", qualHash(int(d.GetDigestFunction().GetEnumValue()), d.GetHashString()), d.GetSizeBytes())
}

func qualHash(enum int, hash string) string {
	if enum == int(remoteexecution.DigestFunction_SHA256) {
		return hash
	}
	return fmt.Sprintf("ff%02x%s", enum, hash)
}

func (b *memBackend) Get(ctx context.Context, d digest.Digest) buffer.Buffer {
	b.mu.Lock()
	defer b.mu.Unlock()
	if b.getErr != 0 {
		return buffer.NewBufferFromError(status.Error(b.getErr, "injected get failure"))
	}
	data, ok := b.blobs[keyOf(d)]
	if !ok {
		return buffer.NewBufferFromError(status.Error(codes.NotFound, "Object not found"))
	}
	if b.streaming && b.streamPiece > 0 && !b.ac {
		m := &scriptedMedium{end: io.EOF}
		src := append([]byte{}, data...)
		if b.streamFail >= 0 {
			if b.streamFail < len(src) {
				src = src[:b.streamFail]
			}
			m.end = status.Error(b.streamCode, "injected medium failure")
		}
		for len(src) > 0 {
			n := b.streamPiece
			if n > len(src) {
				n = len(src)
			}
			m.pieces = append(m.pieces, src[:n])
			src = src[n:]
		}
		return buffer.NewCASBufferFromChunkReader(d, m, buffer.BackendProvided(buffer.Irreparable(d)))
	}
	if b.ac {
		return buffer.NewProtoBufferFromByteSlice(&remoteexecution.ActionResult{}, append([]byte{}, data...), buffer.BackendProvided(buffer.Irreparable(d)))
	}
	return buffer.NewCASBufferFromByteSlice(d, append([]byte{}, data...), buffer.BackendProvided(buffer.Irreparable(d)))
}

func (b *memBackend) GetFromComposite(ctx context.Context, parent, child digest.Digest, slicer slicing.BlobSlicer) buffer.Buffer {
	return buffer.NewBufferFromError(status.Error(codes.Unimplemented, "not used"))
}

func (b *memBackend) Put(ctx context.Context, d digest.Digest, buf buffer.Buffer) error {
	b.mu.Lock()
	b.putCalls++
	pe, early, skip := b.putErr, b.putEarly, b.putSkip
	b.mu.Unlock()
	if skip {
		buf.Discard()
		return nil
	}
	if pe != 0 && early {
		buf.Discard()
		return status.Error(pe, "injected put failure")
	}
	data, err := buf.ToByteSlice(b.maxSize)
	if err != nil {
		return err
	}
	if pe != 0 {
		return status.Error(pe, "injected put failure")
	}
	b.mu.Lock()
	defer b.mu.Unlock()
	b.blobs[keyOf(d)] = append([]byte{}, data...)
	b.putLog = append(b.putLog, keyOf(d))
	return nil
}

func (b *memBackend) FindMissing(ctx context.Context, digests digest.Set) (digest.Set, error) {
	b.mu.Lock()
	defer b.mu.Unlock()
	var asked []string
	missing := digest.NewSetBuilder(0)
	for _, d := range digests.Items() {
		asked = append(asked, keyOf(d))
		if _, ok := b.blobs[keyOf(d)]; !ok {
			missing.Add(d)
		}
	}
	b.fmAsked = append(b.fmAsked, asked)
	if b.fmErr != 0 {
		return digest.EmptySet, status.Error(b.fmErr, "injected findmissing failure")
	}
	return missing.Build(), nil
}

func (b *memBackend) GetCapabilities(ctx context.Context, instanceName digest.InstanceName) (*remoteexecution.ServerCapabilities, error) {
	return nil, status.Error(codes.Unimplemented, "not used")
}

var _ blobstore.BlobAccess = (*memBackend)(nil)

// snapshot renders the contents canonically: sorted "key=hexdata".
func (b *memBackend) snapshot() []string {
	b.mu.Lock()
	defer b.mu.Unlock()
	out := make([]string, 0, len(b.blobs))
	for k, v := range b.blobs {
		out = append(out, k+"="+hexs(v))
	}
	sort.Strings(out)
	return out
}

// ---------------------------------------------------------------- fake server streams

type fakeStream struct {
	ctx context.Context
}

func (s *fakeStream) SetHeader(metadata.MD) error  { return nil }
func (s *fakeStream) SendHeader(metadata.MD) error { return nil }
func (s *fakeStream) SetTrailer(metadata.MD)       {}
func (s *fakeStream) Context() context.Context     { return s.ctx }
func (s *fakeStream) SendMsg(m interface{}) error  { return errors.New("SendMsg not expected") }
func (s *fakeStream) RecvMsg(m interface{}) error  { return errors.New("RecvMsg not expected") }

// fakeWriteStream feeds a scripted list of WriteRequests, then end (io.EOF or
// a status error), and records the response.
type fakeWriteStream struct {
	fakeStream
	msgs     []*bytestream.WriteRequest
	end      error
	pos      int
	recvs    int
	sendErr  error
	response *bytestream.WriteResponse
	closed   int
}

func (s *fakeWriteStream) Recv() (*bytestream.WriteRequest, error) {
	s.recvs++
	if s.pos < len(s.msgs) {
		m := s.msgs[s.pos]
		s.pos++
		return m, nil
	}
	return nil, s.end
}

func (s *fakeWriteStream) SendAndClose(r *bytestream.WriteResponse) error {
	s.closed++
	if s.sendErr != nil {
		return s.sendErr
	}
	s.response = r
	return nil
}

// fakeReadStream records sent responses; the failAt-th Send (1-based) and all
// later ones fail.
type fakeReadStream struct {
	fakeStream
	sent   [][]byte
	failAt int
	sends  int
}

func (s *fakeReadStream) Send(r *bytestream.ReadResponse) error {
	s.sends++
	if s.failAt > 0 && s.sends >= s.failAt {
		return status.Error(codes.Unavailable, "injected send failure")
	}
	s.sent = append(s.sent, append([]byte{}, r.Data...))
	return nil
}

// ---------------------------------------------------------------- canonical errors

// errTag maps an error of the real code to "<code> <tag>": the gRPC code and a
// short stable tag derived from the message.
func errTag(err error) string {
	if err == nil {
		return "ok"
	}
	if err == io.EOF {
		return "2 io-eof"
	}
	if err == io.ErrUnexpectedEOF {
		return "2 unexpected-eof"
	}
	st := status.Convert(err)
	msg := st.Message()
	tag := "other"
	for _, p := range [][2]string{
		{"injected", "injected"},
		{"Client closed stream twice", "twice"},
		{"Attempted to write at offset", "offset"},
		{"without finishing write", "nofinish"},
		{"without sending an initial request", "noinit"},
		{"does not support downloading partial", "limit"},
		{"does not support uploading compression", "compressor"},
		{"does not support downloading compression", "compressor"},
		{"Unsupported compression scheme", "compressor"},
		{"Attempted to read a total of at least", "batch-size"},
		{"Invalid instance name", "instance"},
		{"Invalid resource naming scheme", "name"},
		{"Unsupported digest function", "name"},
		{"Invalid blob size", "name"},
		{"Unknown digest function", "function"},
		{"Hash has length", "digest"},
		{"Non-hexadecimal character", "digest"},
		{"Invalid digest size", "digest"},
		{"No digest provided", "digest"},
		{"Buffer is at least", "toobig"},
		{"while a read at offset", "offset"},
		{"while a maximum of", "toolarge"},
		{"bytes were expected", "size"},
		{"Negative read offset", "offset"},
		{"Buffer has checksum", "hash"},
		{"Source ended unexpectedly", "truncated"},
		{"Object not found", "notfound"},
		{"Failed to unmarshal", "unmarshal"},
	} {
		if strings.Contains(msg, p[0]) {
			tag = p[1]
			break
		}
	}
	if tag == "other" && st.Code() == codes.Unknown {
		tag = "decoder"
	}
	return fmt.Sprintf("%d %s", st.Code(), tag)
}

var _ = util.StatusWrap
