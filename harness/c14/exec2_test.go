package c14

import (
	"bytes"
	"fmt"
	"strconv"
	"strings"

	remoteexecution "github.com/bazelbuild/remote-apis/build/bazel/remote/execution/v2"
	"google.golang.org/genproto/googleapis/bytestream"
	"google.golang.org/grpc/codes"
	"google.golang.org/grpc/status"
	"google.golang.org/protobuf/proto"
)

// ---------------------------------------------------------------- Read

type readOp struct {
	kind, hash, size string
	off, limit       int64
	failAt           int
}

func parseRead(line string) (*readOp, error) {
	f := strings.Fields(line)
	if len(f) != 7 || f[0] != "read" {
		return nil, fmt.Errorf("bad read %q", line)
	}
	op := &readOp{kind: f[1], hash: f[2], size: f[3]}
	var err error
	if op.off, err = strconv.ParseInt(f[4], 10, 64); err != nil {
		return nil, err
	}
	if op.limit, err = strconv.ParseInt(f[5], 10, 64); err != nil {
		return nil, err
	}
	if op.failAt, err = strconv.Atoi(f[6]); err != nil {
		return nil, err
	}
	return op, nil
}

// readObs is what a Read RPC did, for the oracle.
type readObs struct {
	sent  [][]byte
	err   error
	zstd  bool
	plain []byte // zstd: what the concatenation of the sent bytes decodes to
	zfin  string
}

func chunkList(cs [][]byte) string {
	if len(cs) == 0 {
		return "-"
	}
	p := make([]string, len(cs))
	for i, c := range cs {
		p[i] = hexs(c)
	}
	return strings.Join(p, ",")
}

func (w *world) execRead(op *readOp) (string, *readObs) {
	ctx, cancel := opContext()
	defer cancel()
	st := &fakeReadStream{fakeStream: fakeStream{ctx}, failAt: op.failAt}
	o := &readObs{zstd: strings.HasPrefix(op.kind, "zstd")}
	w.cas.streaming = true
	defer func() { w.cas.streaming = false }()
	reply := guard(func() string {
		o.err = w.bs.Read(&bytestream.ReadRequest{
			ResourceName: resourceName(op.kind, op.hash, op.size, false),
			ReadOffset:   op.off,
			ReadLimit:    op.limit,
		}, st)
		o.sent = st.sent
		if o.zstd {
			o.plain, o.zfin = zdecode(bytes.Join(st.sent, nil))
			if o.err != nil {
				plain := hexs(o.plain)
				if o.zfin != "c" {
					plain = "undecodable-" + o.zfin
				}
				return "err " + canonNameErr(errTag(o.err)) + " " + plain
			}
			if o.zfin != "c" {
				return "okz undecodable-" + o.zfin
			}
			return "okz " + hexs(o.plain)
		}
		if o.err != nil {
			return "err " + canonNameErr(errTag(o.err)) + " " + chunkList(st.sent)
		}
		return "ok " + chunkList(st.sent)
	})
	return reply, o
}

// ---------------------------------------------------------------- batch calls

type entry struct {
	bad        bool
	hash, size string // literal tokens ("nil" as hash = no digest at all)
	data       []byte
}

func (e entry) proto() *remoteexecution.Digest {
	if e.hash == "nil" {
		return nil
	}
	n, _ := strconv.ParseInt(e.size, 10, 64)
	return &remoteexecution.Digest{Hash: e.hash, SizeBytes: n}
}

type batchOp struct {
	verb    string // bupd, bread, fmb, cfm
	call    string
	entries []entry
}

func parseBatch(line string) (*batchOp, error) {
	secs := splitSections(strings.Fields(line))
	h := secs[0]
	op := &batchOp{verb: h[0], call: "ok"}
	if op.verb != "cfm" {
		if len(h) != 2 {
			return nil, fmt.Errorf("bad batch header %q", line)
		}
		op.call = h[1]
	}
	for _, s := range secs[1:] {
		var e entry
		switch {
		case op.verb == "cfm" && len(s) == 2:
			e = entry{hash: s[0], size: s[1]}
		case op.verb == "bupd" && len(s) == 4:
			d, err := unhex(s[3])
			if err != nil {
				return nil, err
			}
			e = entry{bad: s[0] == "1", hash: s[1], size: s[2], data: d}
		case (op.verb == "bread" || op.verb == "fmb") && len(s) == 3:
			e = entry{bad: s[0] == "1", hash: s[1], size: s[2]}
		default:
			return nil, fmt.Errorf("bad entry %v in %q", s, line)
		}
		op.entries = append(op.entries, e)
	}
	return op, nil
}

// callParams turns a call token into instance name and digest function of the request.
func callParams(call string) (string, remoteexecution.DigestFunction_Value) {
	base, variant, _ := strings.Cut(call, ".")
	inst := ""
	fn := remoteexecution.DigestFunction_UNKNOWN
	if strings.Contains(variant, "i") {
		inst = "inst/a"
	}
	if strings.Contains(variant, "s") {
		fn = remoteexecution.DigestFunction_SHA256
	}
	switch base {
	case "instance":
		inst = "a/uploads"
	case "function":
		fn = remoteexecution.DigestFunction_Value(9999)
	}
	return inst, fn
}

func statusTok(code int32, msg string) string {
	if code == 0 {
		return "0"
	}
	return strings.Replace(errTag(status.Error(codes.Code(code), msg)), " ", ".", 1)
}

type batchObs struct {
	err      error
	statuses []string // per entry: "0" or "<code>.<tag>"
	datas    [][]byte // bread: per entry
	missing  []string // fmb/cfm: keys
}

func (w *world) execBatch(op *batchOp) (string, *batchObs) {
	inst, fn := callParams(op.call)
	ctx, cancel := opContext()
	defer cancel()
	o := &batchObs{}
	reply := guard(func() string {
		switch op.verb {
		case "bupd":
			req := &remoteexecution.BatchUpdateBlobsRequest{InstanceName: inst, DigestFunction: fn}
			for _, e := range op.entries {
				req.Requests = append(req.Requests, &remoteexecution.BatchUpdateBlobsRequest_Request{Digest: e.proto(), Data: e.data})
			}
			resp, err := w.casSrv.BatchUpdateBlobs(ctx, req)
			if err != nil {
				o.err = err
				return "err " + errTag(err)
			}
			out := []string{"ok"}
			for i, r := range resp.Responses {
				if i < len(op.entries) && !proto.Equal(r.Digest, op.entries[i].proto()) {
					return "anomaly response digest differs from request digest"
				}
				o.statuses = append(o.statuses, statusTok(r.Status.GetCode(), r.Status.GetMessage()))
			}
			return strings.Join(append(out, o.statuses...), " ")
		case "bread":
			req := &remoteexecution.BatchReadBlobsRequest{InstanceName: inst, DigestFunction: fn}
			for _, e := range op.entries {
				req.Digests = append(req.Digests, e.proto())
			}
			resp, err := w.casSrv.BatchReadBlobs(ctx, req)
			if err != nil {
				o.err = err
				return "err " + errTag(err)
			}
			out := []string{"ok"}
			for i, r := range resp.Responses {
				if i < len(op.entries) && !proto.Equal(r.Digest, op.entries[i].proto()) {
					return "anomaly response digest differs from request digest"
				}
				s := statusTok(r.Status.GetCode(), r.Status.GetMessage())
				o.statuses = append(o.statuses, s)
				o.datas = append(o.datas, r.Data)
				if s == "0" {
					out = append(out, "d:"+hexs(r.Data))
				} else if len(r.Data) != 0 {
					return "anomaly data delivered together with an error status"
				} else {
					out = append(out, "e:"+s)
				}
			}
			return strings.Join(out, " ")
		case "fmb":
			req := &remoteexecution.FindMissingBlobsRequest{InstanceName: inst, DigestFunction: fn}
			for _, e := range op.entries {
				req.BlobDigests = append(req.BlobDigests, e.proto())
			}
			resp, err := w.casSrv.FindMissingBlobs(ctx, req)
			if err != nil {
				o.err = err
				return "err " + errTag(err)
			}
			for _, d := range resp.MissingBlobDigests {
				o.missing = append(o.missing, key(d.Hash, d.SizeBytes))
			}
			return "ok " + strings.Join(o.missing, " ")
		}
		return "harness-error unknown verb"
	})
	return reply, o
}
