package c11

import (
	"fmt"
	"sort"
	"strings"
	"sync"

	"verifharness/hx"
)

var (
	seenMu  sync.Mutex
	seen    = map[string]int{}
	failing int // failing cases so far, reported or repeated
)

// enough reports that the run has established its findings: further cases would
// only repeat them (and, when the composite wedges, cost a deadline each).
func enough(run *hx.Run) bool {
	seenMu.Lock()
	defer seenMu.Unlock()
	return run.Findings() >= 20 || failing >= 40
}

type caseRunner func(run *hx.Run, model *hx.Model, u *universe, name string, script []string, report bool) caseOut

// handle runs a case, shrinks it when it fails and reports the findings.
func handle(run *hx.Run, model *hx.Model, u *universe, rc caseRunner, name string, script []string) caseOut {
	o := rc(run, model, u, name, script, true)
	if o.what == whatBlocked {
		// a verdict that rests on elapsed time: it has to show again on an immediate re-run of the same script,
		// otherwise the machine was merely slow (a real leak or deadlock reproduces every time)
		if o2 := rc(run, model, u, name+"/again", script, false); o2.what != whatBlocked {
			run.Count("timing-dependent verdict not reproduced: " + whatBlocked)
			o = o2
		}
	}
	found := o.findings
	key := o.what
	if key == "" && !o.agree {
		key = "disagreement"
	}
	if key != "" {
		seenMu.Lock()
		failing++
		seen[key]++
		n := seen[key]
		seenMu.Unlock()
		if n > 2 {
			// reported (shrunk) twice already: count it, do not spend time on it again
			run.Count("repeated finding: " + key)
			return o
		}
	}
	if o.what != "" || !o.agree {
		small := hx.Shrink(script, 1, func(s []string) bool {
			o2 := rc(run, model, u, name, s, false)
			if o.what != "" {
				return o2.what == o.what
			}
			return !o2.agree
		})
		if len(small) < len(script) {
			if o2 := rc(run, model, u, name+"/shrunk", small, false); len(o2.findings) > 0 {
				found = o2.findings
			}
		}
	}
	for _, f := range found {
		run.Report(f)
	}
	return o
}

// faultCodes are the injected failures; NOT_FOUND only on reads (a replica
// that wrongly denies holding an object).
func faultChoices(meth string) []int {
	if meth == "get" || meth == "getc" {
		return []int{14, 13, 5}
	}
	return []int{14, 13, 4, 1}
}

// positions lists every call the fault-free run made, as "side meth idx".
func positions(counts map[string]int) []string {
	var keys []string
	for k := range counts {
		keys = append(keys, k)
	}
	sort.Strings(keys)
	var pos []string
	for _, k := range keys {
		for i := 0; i < counts[k]; i++ {
			pos = append(pos, fmt.Sprintf("%s %d", k, i))
		}
	}
	return pos
}

func driveA(run *hx.Run, model *hx.Model, u *universe) {
	bases := run.Scale(1200, 8000)
	for i := 0; i < bases && !enough(run); i++ {
		r := hx.NewRand(run.Seed, "C11", i)
		base := genBaseA(r)
		name := fmt.Sprintf("seed%d/a%d", run.Seed, i)
		o := handle(run, model, u, runCaseA, name, base)
		pos := positions(o.counts)
		// every single call made to fail
		for j, p := range pos {
			if enough(run) {
				break
			}
			meth := strings.Fields(p)[1]
			ch := faultChoices(meth)
			codes := []int{ch[r.Intn(len(ch))]}
			if run.Thorough() {
				codes = ch
			}
			for _, c := range codes {
				handle(run, model, u, runCaseA, fmt.Sprintf("%s/f%d.%d", name, j, c), withFaults(base, fmt.Sprintf("fault %s %d", p, c)))
			}
		}
		// pairs of failing calls
		npairs := run.Scale(3, 40)
		for j := 0; j < npairs && len(pos) >= 2; j++ {
			p1, p2 := pos[r.Intn(len(pos))], pos[r.Intn(len(pos))]
			if p1 == p2 {
				continue
			}
			c1 := faultChoices(strings.Fields(p1)[1])
			c2 := faultChoices(strings.Fields(p2)[1])
			handle(run, model, u, runCaseA, fmt.Sprintf("%s/p%d", name, j),
				withFaults(base, fmt.Sprintf("fault %s %d", p1, c1[r.Intn(len(c1))]), fmt.Sprintf("fault %s %d", p2, c2[r.Intn(len(c2))])))
		}
	}
	exhaustiveA(run, model, u)
}

// exhaustiveA: all placements of two keys x all sequences of two operations x
// the modelled strategies, fault-free and with every single call failing.
func exhaustiveA(run *hx.Run, model *hx.Model, u *universe) {
	ops := []string{"get 0", "get 1", "getc 0", "put 0 0", "cput 0 0 B", "fm 0 1", "fm 1", "caps"}
	wheres := []string{"A", "B", "AB", "-"}
	strats := [][2]string{{"local", "local"}, {"noop", "noop"}, {"climit", "climit"}}
	if run.Thorough() {
		strats = append(strats, [2]string{"local", "noop"}, [2]string{"dedup", "dedup"}, [2]string{"queued", "queued"})
	}
	// harness-only settings: plain; streaming replicas read chunk by chunk with Puts failing at commit time
	modes := []string{"0", "0 1 1 chunks"}
	if run.Thorough() {
		modes = append(modes, "1 1 0 reader", "1 1 1 slice")
	}
	count := 0
	for _, st := range strats {
		for _, md := range modes {
			for _, w0 := range wheres {
				for _, w1 := range wheres {
					for _, o1 := range ops {
						for _, o2 := range ops {
							if enough(run) {
								return
							}
							base := []string{fmt.Sprintf("#cfg a %s %s %s", st[0], st[1], md),
								"place 0 " + w0 + " 0 0", "place 1 " + w1 + " 0 0", o1, o2, "get 0"}
							name := fmt.Sprintf("exh/%s-%s/%d", st[0], st[1], count)
							count++
							o := handle(run, model, u, runCaseA, name, base)
							for j, p := range positions(o.counts) {
								if enough(run) {
									return
								}
								handle(run, model, u, runCaseA, fmt.Sprintf("%s/f%d", name, j), withFaults(base, fmt.Sprintf("fault %s 14", p)))
							}
						}
					}
				}
			}
		}
	}
	run.Extra("exhaustive_base_cases", count)
}
