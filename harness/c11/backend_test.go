// Package c11 ties the Lean model BB.Mirrored to the real mirroredBlobAccess
// (with every BlobReplicator) and checks the statements of property C11
// directly on what recording replicas observed.
package c11

import (
	"context"
	"fmt"
	"io"
	"sort"
	"strconv"
	"strings"
	"sync"
	"time"

	remoteexecution "github.com/bazelbuild/remote-apis/build/bazel/remote/execution/v2"
	"github.com/buildbarn/bb-storage/pkg/blobstore/buffer"
	"github.com/buildbarn/bb-storage/pkg/blobstore/slicing"
	"github.com/buildbarn/bb-storage/pkg/digest"
	"github.com/buildbarn/bb-storage/pkg/util"
	"google.golang.org/grpc/codes"
	"google.golang.org/grpc/status"

	"verifharness/stx"
)

// ---- keys: a fixed universe of CAS digests, numbered in the order of their
// string form (the order digest.Set and GetDifferenceAndIntersection use).

const maxKeys = 8

type universe struct {
	digests []digest.Digest
	content [][]byte
	byStr   map[string]int
}

// newUniverse makes 8 digests. With aliases, two of the blobs appear under two
// instance names ("" and "beta"): same hash and size, different digest. They
// are neighbours in the order (ids 0,1 and 3,4), and a replica may hold one
// without the other.
func newUniverse(aliases bool) *universe {
	type kv struct {
		d digest.Digest
		c []byte
	}
	nblobs := maxKeys
	if aliases {
		nblobs = maxKeys - 2
	}
	var blobs [][]byte
	for i := 0; i < nblobs; i++ {
		blobs = append(blobs, []byte(fmt.Sprintf("c11-object-%02d-%s", i, strings.Repeat("x", 17+i%3))))
	}
	sort.Slice(blobs, func(i, j int) bool { return digestOf(blobs[i]).String() < digestOf(blobs[j]).String() })
	var all []kv
	for i, c := range blobs {
		all = append(all, kv{stx.CASDigest("", c), c})
		if aliases && (i == 0 || i == 2) {
			all = append(all, kv{stx.CASDigest("beta", c), c})
		}
	}
	sort.Slice(all, func(i, j int) bool { return all[i].d.String() < all[j].d.String() })
	u := &universe{byStr: map[string]int{}}
	for i, e := range all {
		u.digests = append(u.digests, e.d)
		u.content = append(u.content, e.c)
		u.byStr[e.d.String()] = i
	}
	return u
}

func digestOf(c []byte) digest.Digest { return stx.CASDigest("", c) }

func (u *universe) id(d digest.Digest) int {
	if i, ok := u.byStr[d.String()]; ok {
		return i
	}
	return -1
}

func (u *universe) set(ids []int) digest.Set {
	b := digest.NewSetBuilder(0)
	for _, i := range ids {
		b.Add(u.digests[i])
	}
	return b.Build()
}

func (u *universe) ids(s digest.Set) []int {
	var r []int
	for _, d := range s.Items() {
		r = append(r, u.id(d))
	}
	sort.Ints(r)
	return r
}

// values of mode (a) are small numbers; the recording replicas do not validate
// contents. Value 0 of key k is the blob the digest of k really names (so that
// it can be served as a validating stream), any other value v is "v<v>".
func (u *universe) valBytes(k, v int) []byte {
	if v == 0 {
		return u.content[k]
	}
	return []byte("v" + strconv.Itoa(v))
}

func bytesVal(b []byte) string {
	s := string(b)
	s = strings.TrimSuffix(s, "/c")
	if strings.HasPrefix(s, "c11-object-") {
		return "0"
	}
	if strings.HasPrefix(s, "v") {
		if _, err := strconv.Atoi(s[1:]); err == nil {
			return s[1:]
		}
	}
	return "?" + fmt.Sprintf("%x", b)
}

// ---- a recording replica with a fault script per (method, call index)

type call struct {
	side     string
	meth     string
	idx      int
	via      string // direct (called by the composite) | repl (called by a replicator)
	keys     []int
	fault    codes.Code // codes.OK: none
	inputErr bool       // put: the buffer handed in could not be read
	saidNF   bool       // get/getc: answered NOT_FOUND (absent, or an injected NOT_FOUND)
}

// streams is shared by the two replicas of a composite: the stream handed out
// last, so that a Put failing late can wait until its source was released.
type streams struct {
	mu   sync.Mutex
	last *streamReader
}

// streamReader serves a blob in chunks of 5 bytes and notes when every consumer released it.
type streamReader struct {
	data   []byte
	closed chan struct{}
	once   sync.Once
}

func (r *streamReader) Read() ([]byte, error) {
	if len(r.data) == 0 {
		return nil, io.EOF
	}
	n := 5
	if n > len(r.data) {
		n = len(r.data)
	}
	chunk := r.data[:n]
	r.data = r.data[n:]
	return chunk, nil
}

func (r *streamReader) Close() { r.once.Do(func() { close(r.closed) }) }

type recBackend struct {
	name    string
	u       *universe
	late    bool     // errors of Get surface when the buffer is read (as with a remote replica)
	stream  bool     // Get serves genuine blobs as validating streams (as a remote or block device backed replica)
	putLate bool     // a failing Put consumes all data and fails at commit time, after the source was released
	sh      *streams // shared with the other replica
	waits   int      // late Put failures that gave up waiting for the release of the source (should stay 0)

	hangPut  map[int]bool // Put calls (by index) that block until their context is done and return its status
	blocked  int          // hanging Puts that have consumed their data and are waiting
	putsDone int          // Put calls that returned
	mu       sync.Mutex
	store    map[int][]byte
	cnt      map[string]int
	faults   map[string]codes.Code
	log      []call
}

func newRecBackend(name string, u *universe, late, stream, putLate bool, sh *streams) *recBackend {
	return &recBackend{name: name, u: u, late: late, stream: stream, putLate: putLate, sh: sh,
		store: map[int][]byte{}, cnt: map[string]int{}, faults: map[string]codes.Code{}, hangPut: map[int]bool{}}
}

// okBuffer is what Get returns for data it holds.
func (b *recBackend) okBuffer(d digest.Digest, k int, data []byte) buffer.Buffer {
	if b.stream && string(data) == string(b.u.content[k]) {
		r := &streamReader{data: data, closed: make(chan struct{})}
		b.sh.mu.Lock()
		b.sh.last = r
		b.sh.mu.Unlock()
		return buffer.NewCASBufferFromChunkReader(d, r, buffer.BackendProvided(buffer.Irreparable(d)))
	}
	return buffer.NewValidatedBufferFromByteSlice(data)
}

// begin registers a call and returns its injected error, if any.
func (b *recBackend) begin(meth, via string, keys []int) (int, error) {
	idx := b.cnt[meth]
	b.cnt[meth]++
	c := call{side: b.name, meth: meth, idx: idx, via: via, keys: keys}
	var err error
	if code, ok := b.faults[fmt.Sprintf("%s#%d", meth, idx)]; ok {
		c.fault = code
		err = status.Errorf(code, "fault %s %s %d", b.name, meth, idx)
	}
	b.log = append(b.log, c)
	return len(b.log) - 1, err
}

type view struct {
	b   *recBackend
	via string
}

type failingChunkReader struct{ err error }

func (r failingChunkReader) Read() ([]byte, error) { return nil, r.err }
func (failingChunkReader) Close()                  {}

func (b *recBackend) errBuffer(d digest.Digest, err error) buffer.Buffer {
	if b.late {
		return buffer.NewCASBufferFromChunkReader(d, failingChunkReader{err}, buffer.BackendProvided(buffer.Irreparable(d)))
	}
	return buffer.NewBufferFromError(err)
}

// read looks up d; errors are rendered as buffers for digest bd (the digest the caller will read).
func (v view) read(meth string, d, bd digest.Digest) ([]byte, buffer.Buffer) {
	b := v.b
	b.mu.Lock()
	defer b.mu.Unlock()
	k := b.u.id(d)
	li, err := b.begin(meth, v.via, []int{k})
	if err != nil {
		b.log[li].saidNF = status.Code(err) == codes.NotFound
		return nil, b.errBuffer(bd, err)
	}
	data, ok := b.store[k]
	if !ok {
		b.log[li].saidNF = true
		return nil, b.errBuffer(bd, status.Errorf(codes.NotFound, "absent %s %d", b.name, k))
	}
	return data, nil
}

func (v view) Get(ctx context.Context, d digest.Digest) buffer.Buffer {
	data, eb := v.read("get", d, d)
	if eb != nil {
		return eb
	}
	return v.b.okBuffer(d, v.b.u.id(d), data)
}

func (v view) GetFromComposite(ctx context.Context, parent, child digest.Digest, slicer slicing.BlobSlicer) buffer.Buffer {
	data, eb := v.read("getc", parent, child)
	if eb != nil {
		return eb
	}
	out, _ := slicer.Slice(buffer.NewValidatedBufferFromByteSlice(data), child)
	return out
}

func (v view) Put(ctx context.Context, d digest.Digest, in buffer.Buffer) (result error) {
	b := v.b
	k := b.u.id(d)
	b.mu.Lock()
	li, ferr := b.begin("put", v.via, []int{k})
	hang := ferr == nil && b.hangPut[b.log[li].idx]
	b.mu.Unlock()
	defer func() {
		b.mu.Lock()
		b.putsDone++
		b.mu.Unlock()
	}()
	if hang {
		// a slow replica: it has received the data and is still writing when
		// its context is cancelled (by the caller, or by the errgroup because
		// the other replica failed); it gives up with the context's status
		_, rerr := in.ToByteSlice(1 << 20)
		b.mu.Lock()
		b.blocked++
		b.mu.Unlock()
		<-ctx.Done()
		code := status.Code(util.StatusFromContext(ctx))
		b.mu.Lock()
		b.log[li].inputErr = rerr != nil
		b.log[li].fault = code
		b.mu.Unlock()
		return status.Errorf(code, "fault %s put %d", b.name, b.log[li].idx)
	}
	if ferr != nil && !b.putLate {
		// early failure: the data is not even looked at. (Whether the buffer
		// was readable is still noted for the oracle: error buffers say so
		// without being consumed.)
		_, perr := in.GetSizeBytes()
		in.Discard()
		b.mu.Lock()
		b.log[li].inputErr = perr != nil
		b.mu.Unlock()
		return ferr
	}
	// the buffer is read outside the lock: it may be one half of a cloned stream
	data, rerr := in.ToByteSlice(1 << 20)
	if ferr != nil {
		// late failure: all data was accepted, the commit fails once the
		// sender has finished and released its stream
		b.sh.mu.Lock()
		last := b.sh.last
		b.sh.mu.Unlock()
		if last != nil && rerr == nil {
			select {
			case <-last.closed:
			case <-time.After(2 * time.Second):
				b.mu.Lock()
				b.waits++
				b.mu.Unlock()
			}
		}
	}
	b.mu.Lock()
	defer b.mu.Unlock()
	b.log[li].inputErr = rerr != nil
	if ferr != nil {
		return ferr
	}
	if rerr != nil {
		return rerr
	}
	b.store[k] = append([]byte{}, data...)
	return nil
}

func (v view) FindMissing(ctx context.Context, s digest.Set) (digest.Set, error) {
	b := v.b
	b.mu.Lock()
	defer b.mu.Unlock()
	if _, err := b.begin("fm", v.via, b.u.ids(s)); err != nil {
		return digest.EmptySet, err
	}
	sb := digest.NewSetBuilder(0)
	for _, d := range s.Items() {
		if _, ok := b.store[b.u.id(d)]; !ok {
			sb.Add(d)
		}
	}
	return sb.Build(), nil
}

func (v view) GetCapabilities(ctx context.Context, in digest.InstanceName) (*remoteexecution.ServerCapabilities, error) {
	b := v.b
	b.mu.Lock()
	defer b.mu.Unlock()
	if _, err := b.begin("caps", v.via, nil); err != nil {
		return nil, err
	}
	return &remoteexecution.ServerCapabilities{}, nil
}

// childSlicer: the child of a genuine parent blob is the genuine blob of the
// child digest (so that validating buffers accept it); the child of any other
// parent value is that value marked "/c", so that the reply shows that the
// child came out of the slicer.
type childSlicer struct{ u *universe }

func (c childSlicer) Slice(b buffer.Buffer, child digest.Digest) (buffer.Buffer, []slicing.BlobSlice) {
	data, err := b.ToByteSlice(1 << 20)
	if err != nil {
		return buffer.NewBufferFromError(err), nil
	}
	if strings.HasPrefix(string(data), "c11-object-") {
		return buffer.NewValidatedBufferFromByteSlice(c.u.content[c.u.id(child)]), nil
	}
	return buffer.NewValidatedBufferFromByteSlice(append(append([]byte{}, data...), "/c"...)), nil
}
