package c11

import (
	"fmt"
	"sort"
	"strings"

	"google.golang.org/grpc/codes"

	"verifharness/hx"
)

const whatD1 = "mirrored read-repair over a refreshing local replica panics"
const whatQ = "queued read-repair over a refreshing local replica answers NOT_FOUND"

// runCaseB runs one mode (b) script: "#cfg b <ab> <ba> <old> <cur> <new> <spare> <sectors>",
// then place <k> <A|B|AB> / fill <A|B> <n> / get <k> / put <k> / fm <k>*.
// Before every composite operation the model is told where the objects really
// are (probed without side effects), so that it follows evictions.
func runCaseB(run *hx.Run, model *hx.Model, u *universe, name string, script []string, report bool) caseOut {
	out := caseOut{agree: true, counts: map[string]int{}}
	cfg := strings.Fields(script[0])
	if len(cfg) != 9 || cfg[1] != "b" {
		out.what, out.detail = "harness: bad configuration line", script[0]
		return out
	}
	s := newSutB(u, cfg[2], cfg[3], atoi(cfg[4]), atoi(cfg[5]), atoi(cfg[6]), atoi(cfg[7]), atoi(cfg[8]))
	lines := []string{fmt.Sprintf("init %s %s", modelStrat(s.ab), modelStrat(s.ba))}
	impl := []string{"ok"}
	compare := map[int]bool{}
	fail := func(what, detail string) {
		if out.what == "" {
			out.what, out.detail = what, detail
		}
	}
	other := map[string]string{"A": "B", "B": "A"}
	strat := map[string]string{"A": s.ba, "B": s.ab}
loop:
	for _, line := range script[1:] {
		w := strings.Fields(line)
		if len(w) < 2 {
			continue
		}
		d := func(f string, a ...interface{}) string { return line + ": " + fmt.Sprintf(f, a...) }
		switch w[0] {
		case "place":
			for _, side := range []string{"A", "B"} {
				if strings.Contains(w[len(w)-1], side) {
					if err := s.direct(side, u.digests[atoi(w[1])], u.content[atoi(w[1])]); err != nil {
						fail("harness: direct upload failed", d("%v", err))
					}
				}
			}
		case "fill":
			for i := 0; i < atoi(w[2]); i++ {
				s.filler++
				c := []byte(fmt.Sprintf("c11-filler-%05d-%s", s.filler, strings.Repeat("y", 14)))
				if err := s.direct(w[1], digestOf(c), c); err != nil {
					fail("harness: direct upload failed", d("%v", err))
				}
			}
		case "get", "put", "fm":
			before := s.snapshot()
			for k := 0; k < maxKeys; k++ {
				lines, impl = append(lines, fmt.Sprintf("place %d %s %d %d", k, before.where(k), k, k)), append(impl, "ok")
			}
			first := "A"
			if s.rounds%2 == 1 {
				first = "B"
			}
			second := other[first]
			reply, isErr, cerr, missing, panicked, hung := s.runB(w)
			if w[0] == "get" {
				s.rounds++
			}
			if report {
				run.Count("b-op:" + w[0])
				run.Count("b-reply:" + strings.Fields(reply)[0])
			}
			if hung || (isErr && cerr.code == codes.DeadlineExceeded) {
				fail(whatBlocked, d("-> %s", reply))
				break loop
			}
			if panicked != "" {
				if w[0] == "get" && before[second][atoi(w[1])][1] && !before[first][atoi(w[1])][0] {
					fail(whatD1, d("replica %s lacks the object, replica %s holds it in an old block: %s", first, second, panicked))
				} else {
					fail("operation on the mirrored pair panicked", d("%s", panicked))
				}
				break loop
			}
			after := s.snapshot()
			ml := line
			// A tiny local store may evict an object while it refreshes others
			// (one rotation releases the oldest block). That is the local
			// store's business (C01/C05); such an operation is not judged here.
			evicted := false
			for _, side := range []string{"A", "B"} {
				for k := 0; k < maxKeys; k++ {
					if before[side][k][0] && !after[side][k][0] {
						evicted = true
					}
				}
			}
			if evicted {
				if report {
					run.Count("b-skipped:object-evicted-during-operation")
				}
				continue
			}
			switch w[0] {
			case "get":
				k := atoi(w[1])
				hf, hs := before[first][k][0], before[second][k][0]
				if report && !hf && hs {
					run.Count(fmt.Sprintf("b-repair:second-needs-refresh=%v", before[second][k][1]))
				}
				switch {
				case !hf && hs && before[second][k][1] && strat[first] == "queued" && isErr && cerr.code == codes.NotFound:
					// the queued replicator reads the source twice; the first read's
					// refresh may release the block before the copy is registered
					fail(whatQ, d("-> %s (replica %s lacks the object, replica %s holds it in an old block)", reply, first, second))
					break loop
				case hf || hs:
					if reply != fmt.Sprintf("val %d", k) {
						fail("read did not return the object although one replica holds it", d("-> %s (first %s: %v, second: %v)", reply, first, hf, hs))
					} else if !hf && strat[first] != "noop" && !after[first][k][0] {
						fail("read did not repair the replica consulted first", d("replica %s", first))
					}
				default:
					if !isErr || cerr.code != codes.NotFound {
						fail("read of an object held by no replica did not answer NOT_FOUND", d("-> %s", reply))
					}
				}
			case "put":
				ml = fmt.Sprintf("put %s %s A", w[1], w[1])
				if isErr {
					fail("error without a replica failure", d("-> %s", reply))
				} else if !after["A"][atoi(w[1])][0] || !after["B"][atoi(w[1])][0] {
					fail("successful upload is not present in both replicas", d(""))
				}
			case "fm":
				ml = "fm A A " + strings.Join(w[1:], " ")
				if isErr {
					fail("error without a replica failure", d("-> %s", reply))
					break
				}
				var want []int
				for _, x := range w[1:] {
					k := atoi(x)
					a, b := before["A"][k][0], before["B"][k][0]
					if !a && !b {
						want = append(want, k)
					}
					for _, side := range []string{"A", "B"} {
						if before[other[side]][k][0] && !before[side][k][0] && strat[side] != "noop" && !after[side][k][0] {
							fail("existence check succeeded without copying an object held by one replica to the other", d("key %d missing from %s", k, side))
						}
					}
				}
				sort.Ints(want)
				if fmt.Sprint(want) != fmt.Sprint(missing) {
					fail("existence check result is not exactly the objects missing from both replicas", d("-> %s, expected %v", reply, want))
				}
			}
			if isErr && !(w[0] == "get" && cerr.code == codes.NotFound) {
				fail("error without a replica failure", d("-> %s", reply))
			}
			compare[len(lines)] = true
			lines, impl = append(lines, ml), append(impl, relax(reply))
		}
	}
	validated := false
	if model != nil {
		mo := model.Batch(lines)
		validated = true
		for i := range mo {
			if !compare[i] {
				continue
			}
			run.Compared(1)
			if relax(mo[i]) != impl[i] {
				out.agree = false
				out.findings = append(out.findings, hx.Finding{Kind: "disagreement", What: "model/implementation differ",
					Detail: fmt.Sprintf("step %d %q: impl=%q model=%q", i, lines[i], impl[i], mo[i]),
					Case:   name, Script: script, Impl: impl, Model: mo})
				break
			}
		}
	}
	if report {
		run.Case(script, len(script) >= 5, validated)
		run.Count("b-repl:" + s.ab + "/" + s.ba)
	}
	if out.what != "" {
		out.findings = append(out.findings, hx.Finding{Kind: "oracle", What: out.what, Detail: out.detail, Case: name, Script: script, Impl: impl})
	}
	return out
}

func genB(r *hx.Rand) []string {
	ab := replKinds[r.Intn(len(replKinds))]
	ba := ab
	if r.Chance(1, 4) {
		ba = replKinds[r.Intn(len(replKinds))]
	}
	script := []string{fmt.Sprintf("#cfg b %s %s %d %d %d %d %d", ab, ba, r.Range(1, 2), r.Range(1, 2), r.Range(1, 3), r.Range(1, 2), r.PickInt(6, 9, 12))}
	nkeys := r.Range(2, 4)
	if r.Chance(1, 2) {
		// directed: an object on one replica only, pushed towards the old blocks
		// of that replica by filler uploads, then read (twice: either replica
		// is consulted first once) and checked for existence
		side := []string{"A", "B"}[r.Intn(2)]
		k := r.Intn(nkeys)
		script = append(script, fmt.Sprintf("place %d %s", k, side))
		if r.Chance(1, 2) {
			script = append(script, fmt.Sprintf("place %d %s", (k+1)%nkeys, []string{"A", "B", "AB"}[r.Intn(3)]))
		}
		for i := r.Range(1, 3); i > 0; i-- {
			script = append(script, fmt.Sprintf("fill %s %d", side, r.Range(1, 5)))
		}
		tail := [][]string{{"get %d", "get %d"}, {"get %d", "get %d", "fm %d"}, {"fm %d", "get %d"}, {"get 7", "get %d"}}[r.Intn(4)]
		for _, t := range tail {
			if strings.Contains(t, "%d") {
				t = fmt.Sprintf(t, k)
			}
			script = append(script, t)
		}
		return script
	}
	for k := 0; k < nkeys; k++ {
		script = append(script, fmt.Sprintf("place %d %s", k, []string{"A", "B", "AB"}[r.Intn(3)]))
	}
	nops := r.Range(4, 10)
	for i := 0; i < nops; i++ {
		switch x := r.Intn(100); {
		case x < 35:
			script = append(script, fmt.Sprintf("fill %s %d", []string{"A", "B"}[r.Intn(2)], r.Range(1, 6)))
		case x < 70:
			script = append(script, fmt.Sprintf("get %d", r.Intn(nkeys+1)))
		case x < 80:
			script = append(script, fmt.Sprintf("put %d", r.Intn(nkeys+1)))
		default:
			var ks []string
			for k := 0; k <= nkeys; k++ {
				if r.Chance(3, 5) {
					ks = append(ks, fmt.Sprint(k))
				}
			}
			if len(ks) == 0 {
				ks = []string{"0"}
			}
			script = append(script, "fm "+strings.Join(ks, " "))
		}
	}
	return script
}

func driveB(run *hx.Run, model *hx.Model, u *universe) {
	n := run.Scale(1500, 12000)
	known := map[string]int{}
	for i := 0; i < n && !enough(run); i++ {
		r := hx.NewRand(run.Seed, "C11b", i)
		o := handleB(run, model, u, fmt.Sprintf("seed%d/b%d", run.Seed, i), genB(r), known)
		if o.what == whatD1 || o.what == whatQ {
			known[o.what]++
		}
	}
	// systematic sweep: an object on one replica only, 1..12 filler uploads on
	// that replica (every position of the object relative to the block
	// boundaries and to the old region), read with either replica first
	count := 0
	for _, kind := range replKinds {
		for _, old := range []int{1, 2} {
			for _, nw := range []int{1, 3} {
				for _, sectors := range []int{6, 9} {
					for fill := 1; fill <= 12; fill++ {
						for _, side := range []string{"A", "B"} {
							if enough(run) {
								break
							}
							script := []string{fmt.Sprintf("#cfg b %s %s %d 1 %d 1 %d", kind, kind, old, nw, sectors),
								"place 1 " + side, fmt.Sprintf("fill %s %d", side, fill), "get 1", "get 1", "fm 1 2"}
							o := handleB(run, model, u, fmt.Sprintf("sweep/%d", count), script, known)
							count++
							if o.what == whatD1 || o.what == whatQ {
								known[o.what]++
							}
						}
					}
				}
			}
		}
	}
	run.Extra("mode_b_sweep_cases", count)
	run.Extra("mode_b_cases_hitting_D1", known[whatD1])
	run.Extra("mode_b_cases_hitting_queued_not_found", known[whatQ])
}

// handleB is handle for mode (b); the two findings that many cases run into are
// reported once each (shrunk) and counted afterwards.
func handleB(run *hx.Run, model *hx.Model, u *universe, name string, script []string, known map[string]int) caseOut {
	o := runCaseB(run, model, u, name, script, true)
	if o.what == whatBlocked {
		// a verdict that rests on elapsed time has to show again on an immediate re-run (see drive)
		if o2 := runCaseB(run, model, u, name+"/again", script, false); o2.what != whatBlocked {
			run.Count("timing-dependent verdict not reproduced: " + whatBlocked)
			o = o2
		}
	}
	if o.what == "" && o.agree {
		return o
	}
	if o.what != whatD1 && o.what != whatQ {
		seenMu.Lock()
		failing++
		seenMu.Unlock()
	}
	if known[o.what] > 0 {
		return o
	}
	found := o.findings
	small := hx.Shrink(script, 1, func(s []string) bool {
		o2 := runCaseB(run, model, u, name, s, false)
		if o.what != "" {
			return o2.what == o.what
		}
		return !o2.agree
	})
	if len(small) < len(script) {
		if o2 := runCaseB(run, model, u, name+"/shrunk", small, false); len(o2.findings) > 0 {
			found = o2.findings
		}
	}
	for _, f := range found {
		run.Report(f)
	}
	return o
}
