package c11

import (
	"bytes"
	"fmt"
	"sort"

	"google.golang.org/grpc/codes"
)

const whatBlocked = "a read or existence check blocked although a healthy replica holds the object"

// oracle states property C11 on what the recording replicas saw during one
// operation: contents before and after, the calls made and which of them were
// made to fail. It does not use the model.
func (s *sutA) oracle(w []string, res opResult, roundsBefore int) (string, string) {
	if res.panicked != "" {
		return "operation on the mirrored pair panicked", res.panicked
	}
	if res.stuck {
		return whatBlocked, fmt.Sprintf("%v did not return within %v", w, hardLimit)
	}
	if res.isErr && res.err.code == codes.DeadlineExceeded {
		scripted := false
		for _, c := range res.calls {
			if c.fault == codes.DeadlineExceeded {
				scripted = true
			}
		}
		if !scripted {
			return whatBlocked, fmt.Sprintf("%v -> %s after %v: no replica call failed with that code, the operation waited for something that is never released; calls %+v",
				w, res.reply, opDeadline, res.calls)
		}
	}
	if s.A.waits+s.B.waits > 0 {
		return "a stream handed out by a replica was never released", fmt.Sprintf("%v", w)
	}
	afterA, afterB := s.A.store, s.B.store
	before := map[string]map[int][]byte{"A": res.beforeA, "B": res.beforeB}
	after := map[string]map[int][]byte{"A": afterA, "B": afterB}
	strat := map[string]string{"A": s.ba, "B": s.ab} // replicator filling that side
	other := map[string]string{"A": "B", "B": "A"}
	d := func(f string, a ...interface{}) string {
		return fmt.Sprintf("%v -> %s: ", w, res.reply) + fmt.Sprintf(f, a...)
	}

	var fired, mattering, nonNF []call
	for _, c := range res.calls {
		if c.fault == codes.OK {
			continue
		}
		fired = append(fired, c)
		if c.meth == "put" && c.inputErr {
			continue // a Put of an unreadable buffer: nothing could have been stored anyway
		}
		mattering = append(mattering, c)
		if c.fault != codes.NotFound {
			nonNF = append(nonNF, c)
		}
	}
	firedOn := func(side string) bool {
		for _, c := range fired {
			if c.side == side {
				return true
			}
		}
		return false
	}
	firedVia := func(via string) bool {
		for _, c := range fired {
			if c.via == via {
				return true
			}
		}
		return false
	}
	involved := map[int]bool{}
	switch w[0] {
	case "get", "getc", "put":
		involved[atoi(w[1])] = true
	case "fm":
		for _, x := range w[1:] {
			involved[atoi(x)] = true
		}
	}

	// --- failures are surfaced, with a name, never as NOT_FOUND, never as success
	if len(nonNF) > 0 {
		if !res.isErr {
			return "a replica failure was answered with success", d("failed call %+v", nonNF[0])
		}
		// (whether NOT_FOUND is an acceptable answer is decided below: only when no replica holds the object)
		if len(fired) == 1 && res.err.code != codes.NotFound && res.err.code != nonNF[0].fault {
			return "error code of the failing replica was not preserved", d("failed call %+v", nonNF[0])
		}
	}
	if res.isErr && res.err.code != codes.NotFound {
		switch f := res.err.first(); f {
		case "A", "B":
			// a failure inside the replication stage is reported under the name of
			// the replica the replicator reads from, whichever of the two failed
			if !(firedOn(f) || firedVia("repl") || contains(res.err.tags, "sinkabsent")) {
				return "error names a replica that did not fail", d("calls %+v", res.calls)
			}
		case "syncA", "syncB":
			if !firedVia("repl") {
				return "error names a replica that did not fail", d("calls %+v", res.calls)
			}
		case "inconsA", "inconsB":
			ok := false
			for _, c := range res.calls {
				if c.side == f[len(f)-1:] && c.meth == "get" && c.via == "repl" && c.saidNF {
					ok = true
				}
			}
			if !ok {
				return "error names a replica that did not fail", d("calls %+v", res.calls)
			}
		default:
			// An error reported by Close of the io.Reader (the failed repair
			// write of a read) reaches the client without passing the
			// composite's error handler: it is surfaced with its code and says
			// "Replication failed", but cannot carry the replica's name.
			if !(res.fromClose && f == "repl" && firedVia("repl")) {
				return "error does not name a replica", d("message %q", res.err.raw)
			}
		}
		if len(fired) == 0 && !contains(res.err.tags, "sinkabsent") {
			return "error without a replica failure", d("calls %+v", res.calls)
		}
	}
	if res.isErr && res.err.code == codes.NotFound {
		if w[0] != "get" && w[0] != "getc" {
			return "NOT_FOUND from an operation other than a read", d("")
		}
		k := atoi(w[1])
		for _, side := range []string{"A", "B"} {
			if _, held := before[side][k]; !held {
				continue
			}
			lied := false
			for _, c := range res.calls {
				if c.side == side && (c.meth == "get" || c.meth == "getc") && c.fault == codes.NotFound {
					lied = true
				}
			}
			if !lied {
				return "a read answered NOT_FOUND although a replica holds the object", d("replica %s holds %d", side, k)
			}
		}
	}

	// --- which replica is consulted first
	first := "A"
	if roundsBefore%2 == 1 {
		first = "B"
	}
	second := other[first]
	if w[0] == "get" || w[0] == "getc" || w[0] == "caps" {
		nFirst := 0
		for _, c := range res.calls {
			if c.via == "direct" && c.side == first {
				nFirst++
			}
			if c.via == "direct" && c.side != first {
				return "replica consulted first does not alternate", d("expected %s first, direct call %+v", first, c)
			}
		}
		if nFirst != 1 {
			return "replica consulted first does not alternate", d("expected one direct call to %s, calls %+v", first, res.calls)
		}
	}

	// --- per operation
	switch w[0] {
	case "get", "getc":
		k := atoi(w[1])
		hf, heldF := before[first][k]
		hs, heldS := before[second][k]
		strip := func(b []byte) []byte { return bytes.TrimSuffix(b, []byte("/c")) }
		if !res.isErr {
			v := strip(res.val)
			if !(heldF && bytes.Equal(v, hf)) && !(heldS && bytes.Equal(v, hs)) {
				return "read returned a value no replica held", d("first %q second %q", hf, hs)
			}
		}
		if len(fired) == 0 {
			switch {
			case heldF:
				if res.isErr || !bytes.Equal(strip(res.val), hf) {
					return "read did not return the object held by the replica consulted first", d("held %q", hf)
				}
			case heldS:
				if res.isErr || !bytes.Equal(strip(res.val), hs) {
					return "read did not return the object although one replica holds it", d("replica %s holds %q", second, hs)
				}
				if strat[first] != "noop" && !bytes.Equal(after[first][k], hs) {
					return "read did not repair the replica consulted first", d("replica %s now holds %q", first, after[first][k])
				}
			default:
				if !res.isErr || res.err.code != codes.NotFound {
					return "read of an object held by no replica did not answer NOT_FOUND", d("")
				}
			}
		}
	case "put":
		if !res.isErr {
			want := s.u.valBytes(atoi(w[1]), atoi(w[2]))
			if !bytes.Equal(afterA[atoi(w[1])], want) || !bytes.Equal(afterB[atoi(w[1])], want) {
				return "successful upload is not present in both replicas", d("A %q B %q", afterA[atoi(w[1])], afterB[atoi(w[1])])
			}
		}
	case "fm":
		if !res.isErr {
			var want []int
			for k := range involved {
				_, a := res.beforeA[k]
				_, b := res.beforeB[k]
				if !a && !b {
					want = append(want, k)
				}
			}
			sort.Ints(want)
			if fmt.Sprint(want) != fmt.Sprint(res.missing) {
				return "existence check result is not exactly the objects missing from both replicas", d("expected %v", want)
			}
			for k := range involved {
				for _, side := range []string{"A", "B"} {
					src, held := before[other[side]][k]
					if _, here := before[side][k]; held && !here && strat[side] != "noop" && !bytes.Equal(after[side][k], src) {
						return "existence check succeeded without copying an object held by one replica to the other", d("key %d missing from %s", k, side)
					}
				}
			}
		}
	}

	// --- frame
	for _, side := range []string{"A", "B"} {
		for k, v := range before[side] {
			nv, ok := after[side][k]
			if !ok {
				return "object vanished from a replica", d("key %d on %s", k, side)
			}
			if !involved[k] && !bytes.Equal(v, nv) {
				return "operation changed an object it was not asked about", d("key %d on %s", k, side)
			}
		}
		for k := range after[side] {
			if _, ok := before[side][k]; !ok && !involved[k] {
				return "operation changed an object it was not asked about", d("key %d on %s", k, side)
			}
		}
	}
	return "", ""
}

func contains(l []string, x string) bool {
	for _, y := range l {
		if y == x {
			return true
		}
	}
	return false
}
