package c11

import (
	"fmt"
	"strings"

	"google.golang.org/grpc/codes"
	"google.golang.org/grpc/status"
)

// An error is canonicalised to "err <code> <tag>/.../<origin>", the tags being
// the StatusWrap prefixes from the outside in.
type canonErr struct {
	code codes.Code
	tags []string // without the origin
	orig string
	raw  string
}

func (u *universe) canon(err error) canonErr {
	msg := status.Convert(err).Message()
	c := canonErr{code: status.Code(err), raw: msg}
	segs := strings.Split(msg, ": ")
	for i, s := range segs {
		last := i == len(segs)-1
		tok := ""
		switch {
		case s == "Backend A":
			tok = "A"
		case s == "Backend B":
			tok = "B"
		case s == "Replication failed":
			tok = "repl"
		case s == "Failed to synchronize from backend A to backend B":
			tok = "syncA"
		case s == "Failed to synchronize from backend B to backend A":
			tok = "syncB"
		case s == "Backend A returned inconsistent results while synchronizing":
			tok = "inconsA"
		case s == "Backend B returned inconsistent results while synchronizing":
			tok = "inconsB"
		case s == "Blob absent from sink after replication":
			tok = "sinkabsent"
		case strings.HasPrefix(s, "Failed to replicate blob "):
			tok = "dedup-replicate"
		case strings.HasPrefix(s, "Failed to check for the existence of blob "):
			tok = "dedup-check"
		case strings.HasPrefix(s, "fault ") || strings.HasPrefix(s, "absent "):
			tok = strings.ReplaceAll(s, " ", ".")
		case strings.HasPrefix(s, "panic "):
			tok = "panic"
		default:
			if k, ok := u.byStr[s]; ok {
				tok = fmt.Sprintf("k%d", k)
			} else {
				tok = "?" + strings.ReplaceAll(s, " ", "_")
			}
		}
		if last {
			c.orig = tok
		} else {
			c.tags = append(c.tags, tok)
		}
	}
	return c
}

func (c canonErr) String() string {
	return fmt.Sprintf("err %d %s", int(c.code), strings.Join(append(append([]string{}, c.tags...), c.orig), "/"))
}

func (c canonErr) first() string {
	if len(c.tags) == 0 {
		return ""
	}
	return c.tags[0]
}

// stage reports whether the error passed through a replicator.
func (c canonErr) stage() bool {
	for _, t := range c.tags {
		switch t {
		case "repl", "sinkabsent", "dedup-replicate", "dedup-check":
			return true
		}
		if strings.HasPrefix(t, "k") {
			return true
		}
	}
	return false
}

var codeByName = map[string]codes.Code{"UNAVAILABLE": codes.Unavailable, "INTERNAL": codes.Internal, "NOT_FOUND": codes.NotFound,
	"DEADLINE_EXCEEDED": codes.DeadlineExceeded, "PERMISSION_DENIED": codes.PermissionDenied}
