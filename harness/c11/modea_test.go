package c11

import (
	"context"
	"fmt"
	"io"
	"sort"
	"strconv"
	"strings"
	"time"

	"github.com/buildbarn/bb-storage/pkg/blobstore"
	"github.com/buildbarn/bb-storage/pkg/blobstore/buffer"
	"github.com/buildbarn/bb-storage/pkg/blobstore/mirrored"
	"github.com/buildbarn/bb-storage/pkg/blobstore/replication"
	"github.com/buildbarn/bb-storage/pkg/clock"
	"github.com/buildbarn/bb-storage/pkg/digest"
	"github.com/buildbarn/bb-storage/pkg/eviction"
	"golang.org/x/sync/semaphore"
)

// replicator kinds: local | noop are modelled; metrics wraps local without
// changing any call; dedup | climit | queued wrap local with a different call
// pattern (they are compared with the model of local on fault-free runs only,
// on replies and contents).
var replKinds = []string{"local", "noop", "metrics", "dedup", "climit", "queued"}

func modelStrat(kind string) string {
	if kind == "noop" {
		return "noop"
	}
	return "local"
}

func exactKind(kind string) bool { return kind == "local" || kind == "noop" || kind == "metrics" }

// existenceCacheDuration of the queued replicator. Mode (a) replicas never lose
// objects, so a real cache is transparent there; mode (b) replicas evict, and a
// cache that remembers would (by design, for its duration) suppress a repair -
// that staleness is the subject of C17, so mode (b) uses a cache that forgets.
var existenceCacheDuration = time.Minute

// replicaKeyFormat is the digest key format of the sinks: the recording replicas
// of mode (a) tell instance names apart, the flat local stores of mode (b) do not.
var replicaKeyFormat = digest.KeyWithInstance

func mkReplicator(kind string, src, snk blobstore.BlobAccess) replication.BlobReplicator {
	base := replication.NewLocalBlobReplicator(src, snk)
	switch kind {
	case "noop":
		return replication.NewNoopBlobReplicator(src)
	case "metrics":
		return replication.NewMetricsBlobReplicator(base, clock.SystemClock, "verif_c11")
	case "dedup":
		return replication.NewDeduplicatingBlobReplicator(base, snk, replicaKeyFormat)
	case "climit":
		return replication.NewConcurrencyLimitingBlobReplicator(base, snk, semaphore.NewWeighted(1))
	case "queued":
		return replication.NewQueuedBlobReplicator(src, base,
			digest.NewExistenceCache(clock.SystemClock, replicaKeyFormat, 16, existenceCacheDuration, eviction.NewLRUSet[string]()))
	}
	return base
}

// sutA is the real composite over two recording replicas.
type sutA struct {
	u      *universe
	ab, ba string
	A, B   *recBackend
	ba11   blobstore.BlobAccess
	rounds int // round-consuming calls made so far (the oracle's own count)

	consume string
}

// consume reads a buffer to the end the way a client would: in one piece, chunk
// by chunk (the ByteStream server), or through an io.Reader whose Close reports
// the final status.
//
// fromClose reports that the error was returned by Close of the io.Reader: that
// is where a reader-backed buffer reports the error of its background task (a
// failed repair write), and such an error does not pass through the error
// handlers attached to the buffer, so the composite cannot prefix it.
func consume(b buffer.Buffer, how string) (data []byte, err error, fromClose bool) {
	data, err, fromClose = consume1(b, how)
	return
}

func consume1(b buffer.Buffer, how string) ([]byte, error, bool) {
	switch how {
	case "chunks":
		r := b.ToChunkReader(0, 7)
		defer r.Close()
		var data []byte
		for {
			chunk, err := r.Read()
			if err == io.EOF {
				return data, nil, false
			}
			if err != nil {
				return nil, err, false
			}
			data = append(data, chunk...)
		}
	case "reader":
		r := b.ToReader()
		data, err := io.ReadAll(r)
		cerr := r.Close()
		if err != nil {
			return nil, err, false
		}
		if cerr != nil {
			return nil, cerr, true
		}
		return data, nil, false
	}
	data, err := b.ToByteSlice(1 << 20)
	return data, err, false
}

// modeA are the harness-only settings of a mode (a) case.
type modeA struct {
	late    bool   // Get errors surface on read
	stream  bool   // genuine blobs are served as validating streams
	putLate bool   // failing Puts fail at commit time instead of up front
	consume string // how the client consumes a read: slice | chunks | reader
}

func newSutA(u *universe, ab, ba string, m modeA) *sutA {
	sh := &streams{}
	s := &sutA{u: u, ab: ab, ba: ba, consume: m.consume,
		A: newRecBackend("A", u, m.late, m.stream, m.putLate, sh), B: newRecBackend("B", u, m.late, m.stream, m.putLate, sh)}
	s.ba11 = mirrored.NewMirroredBlobAccess(view{s.A, "direct"}, view{s.B, "direct"},
		mkReplicator(ab, view{s.A, "repl"}, view{s.B, "repl"}),
		mkReplicator(ba, view{s.B, "repl"}, view{s.A, "repl"}))
	return s
}

func (s *sutA) side(n string) *recBackend {
	if n == "A" {
		return s.A
	}
	return s.B
}

func copyStore(m map[int][]byte) map[int][]byte {
	r := map[int][]byte{}
	for k, v := range m {
		r[k] = v
	}
	return r
}

func showStore(b *recBackend, counters bool) string {
	var ks []int
	for k := range b.store {
		ks = append(ks, k)
	}
	sort.Ints(ks)
	var items []string
	for _, k := range ks {
		items = append(items, fmt.Sprintf("%d=%s", k, bytesVal(b.store[k])))
	}
	out := "-"
	if len(items) > 0 {
		out = strings.Join(items, ",")
	}
	if counters {
		for _, m := range []string{"get", "getc", "put", "fm", "caps"} {
			out += fmt.Sprintf(" %s=%d", m, b.cnt[m])
		}
	}
	return out
}

func (s *sutA) state(counters bool) string {
	return fmt.Sprintf("A %s | B %s", showStore(s.A, counters), showStore(s.B, counters))
}

// opResult is what one operation of the composite did, as seen from outside.
type opResult struct {
	reply     string // canonical reply
	isErr     bool
	err       canonErr
	val       []byte
	missing   []int
	calls     []call
	beforeA   map[int][]byte
	beforeB   map[int][]byte
	panicked  string
	stuck     bool     // the operation did not return within hardLimit
	hung      []string // cput: "<side> <put index>" of the Puts that were made to wait for cancellation
	fromClose bool     // the error came out of io.ReadCloser.Close (background task error, not prefixable)
}

func atoi(s string) int { v, _ := strconv.Atoi(s); return v }

// opDeadline bounds every operation of the composite. Nothing in the unchanged
// code waits on the context when operations are issued one at a time (the
// recording replicas ignore it, semaphores and queues are uncontended), so an
// operation that ends with DEADLINE_EXCEEDED was blocked on something that is
// never released. hardLimit is the safety net for an operation that does not
// even honour its context: the case is abandoned.
const (
	opDeadline = 2 * time.Second
	hardLimit  = 20 * time.Second
)

// run executes one operation line on the real code under a watchdog.
func (s *sutA) run(w []string) opResult {
	done := make(chan opResult, 1)
	go func() { done <- s.run1(w) }()
	select {
	case res := <-done:
		return res
	case <-time.After(hardLimit):
		return opResult{reply: "no-return", stuck: true, beforeA: map[int][]byte{}, beforeB: map[int][]byte{}}
	}
}

func (s *sutA) run1(w []string) (res opResult) {
	ctx0 := context.Background()
	ctx, cancelDeadline := context.WithTimeout(ctx0, opDeadline)
	defer cancelDeadline()
	res.beforeA, res.beforeB = copyStore(s.A.store), copyStore(s.B.store)
	la, lb := len(s.A.log), len(s.B.log)
	defer func() {
		if r := recover(); r != nil {
			res.panicked = fmt.Sprint(r)
			res.reply = "panic"
		}
		res.calls = append(append([]call{}, s.A.log[la:]...), s.B.log[lb:]...)
	}()
	fail := func(err error) {
		res.isErr, res.err = true, s.u.canon(err)
		res.reply = res.err.String()
	}
	switch w[0] {
	case "get", "getc":
		k := atoi(w[1])
		var data []byte
		var err error
		if w[0] == "get" {
			data, err, res.fromClose = consume(s.ba11.Get(ctx, s.u.digests[k]), s.consume)
		} else {
			data, err, res.fromClose = consume(s.ba11.GetFromComposite(ctx, s.u.digests[k], s.u.digests[(k+2)%maxKeys], childSlicer{s.u}), s.consume)
		}
		if err != nil {
			fail(err)
		} else {
			if w[0] == "getc" {
				if child := s.u.content[(k+2)%maxKeys]; string(data) == string(child) && string(child) != string(s.u.content[k]) {
					// the genuine child: stands for "genuine parent, sliced"
					data = append(append([]byte{}, s.u.content[k]...), "/c"...)
				}
			}
			res.val = data
			res.reply = "val " + bytesVal(data)
			if w[0] == "getc" && !strings.HasSuffix(string(data), "/c") {
				res.reply = "val-unsliced " + bytesVal(data)
			}
		}
	case "put":
		if err := s.ba11.Put(ctx, s.u.digests[atoi(w[1])], bufferOf(s.u.valBytes(atoi(w[1]), atoi(w[2])))); err != nil {
			fail(err)
		} else {
			res.reply = "ok"
		}
	case "cput":
		// "cput <k> <v> <A|B|AB>": an upload whose caller gives up (cancels its
		// context) while the named replicas are still writing; a replica not
		// named has finished by then.
		k := atoi(w[1])
		cctx, cancel := context.WithCancel(ctx0) // no deadline: the cancellation below is the event
		for _, side := range []string{"A", "B"} {
			if strings.Contains(w[3], side) {
				rb := s.side(side)
				if _, scripted := rb.faults[fmt.Sprintf("put#%d", rb.cnt["put"])]; !scripted {
					rb.hangPut[rb.cnt["put"]] = true
					res.hung = append(res.hung, fmt.Sprintf("%s %d", side, rb.cnt["put"]))
				}
			}
		}
		doneA, doneB := s.A.putsDone, s.B.putsDone
		errc := make(chan error, 1)
		go func() {
			errc <- s.ba11.Put(cctx, s.u.digests[k], bufferOf(s.u.valBytes(k, atoi(w[2]))))
		}()
		// cancel once every replica has either finished or is blocked
		deadline := time.Now().Add(2 * time.Second)
		for time.Now().Before(deadline) {
			s.A.mu.Lock()
			a := s.A.putsDone > doneA || s.A.blocked > 0
			s.A.mu.Unlock()
			s.B.mu.Lock()
			b := s.B.putsDone > doneB || s.B.blocked > 0
			s.B.mu.Unlock()
			if a && b {
				break
			}
			time.Sleep(20 * time.Microsecond)
		}
		cancel()
		err := <-errc
		s.A.blocked, s.B.blocked = 0, 0
		if err != nil {
			fail(err)
		} else {
			res.reply = "ok"
		}
	case "fm":
		var ids []int
		for _, x := range w[1:] {
			ids = append(ids, atoi(x))
		}
		m, err := s.ba11.FindMissing(ctx, s.u.set(ids))
		if err != nil {
			fail(err)
		} else {
			res.missing = s.u.ids(m)
			res.reply = "missing -"
			if len(res.missing) > 0 {
				res.reply = "missing " + strings.Trim(fmt.Sprint(res.missing), "[]")
			}
		}
	case "caps":
		if _, err := s.ba11.GetCapabilities(ctx, digest.EmptyInstanceName); err != nil {
			fail(err)
		} else {
			res.reply = "ok"
		}
	}
	return res
}

// prefs derives the scheduling preferences the model is told from the error the
// real errgroup reported (whose goroutine's error won).
func prefOf(res opResult) string {
	if res.isErr {
		switch res.err.first() {
		case "B", "syncB", "inconsB":
			return "B"
		}
	}
	return "A"
}
