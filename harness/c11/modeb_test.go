package c11

import (
	"context"
	"fmt"
	"strings"
	"sync"
	"time"

	"github.com/buildbarn/bb-storage/pkg/blobstore"
	"github.com/buildbarn/bb-storage/pkg/blobstore/buffer"
	"github.com/buildbarn/bb-storage/pkg/blobstore/local"
	"github.com/buildbarn/bb-storage/pkg/blobstore/mirrored"
	"github.com/buildbarn/bb-storage/pkg/digest"
	"google.golang.org/grpc/codes"
	"google.golang.org/grpc/status"

	"verifharness/bmx"
	"verifharness/stx"
)

// Mode (b): the replicas are real flat local stores on a block device (their
// Get returns stream-backed buffers; a Get of an object in an "old" block
// returns a refresh-in-progress buffer: a buffer with a background task).

// guard is a transparent wrapper of a replica: it contains panics of Put
// (which replicators run on a background goroutine, where a panic would end
// the process) and notes them.
type guard struct {
	blobstore.BlobAccess
	s    *sutB
	side string
}

func (g guard) Put(ctx context.Context, d digest.Digest, b buffer.Buffer) (err error) {
	defer func() {
		if r := recover(); r != nil {
			g.s.notePanic(fmt.Sprintf("Put on replica %s: %v", g.side, r))
			func() {
				defer func() { recover() }()
				b.Discard()
			}()
			err = status.Errorf(codes.Internal, "panic %v", r)
		}
	}()
	return g.BlobAccess.Put(ctx, d, b)
}

type sutB struct {
	u      *universe
	ab, ba string
	st     map[string]*stx.Store
	ba11   blobstore.BlobAccess
	rounds int
	filler int
	mu     sync.Mutex
	panics []string
}

func (s *sutB) notePanic(p string) {
	s.mu.Lock()
	s.panics = append(s.panics, p)
	s.mu.Unlock()
}

func newSutB(u *universe, ab, ba string, old, cur, nw, spare, sectors int) *sutB {
	cfg := stx.Config{Kind: "flat", BM: bmx.Config{Policy: "imm", Old: old, Cur: cur, New: nw, Sector: 16, SectorsPerBl: sectors, Spare: spare, Alloc: "dev"},
		Records: 61, MaxGet: 8, MaxPut: 16, HashInit: 0xc11, Index: "mem"}
	s := &sutB{u: u, ab: ab, ba: ba, st: map[string]*stx.Store{"A": stx.NewStore(cfg), "B": stx.NewStore(cfg)}}
	a, b := guard{s.st["A"].BA, s, "A"}, guard{s.st["B"].BA, s, "B"}
	existenceCacheDuration, replicaKeyFormat = -time.Second, digest.KeyWithoutInstance
	defer func() { existenceCacheDuration, replicaKeyFormat = time.Minute, digest.KeyWithInstance }()
	s.ba11 = mirrored.NewMirroredBlobAccess(a, b, mkReplicator(ab, a, b), mkReplicator(ba, b, a))
	return s
}

// probe looks an object up without side effects (no refresh).
func (s *sutB) probe(side string, k int) (present, needsRefresh bool) {
	st := s.st[side]
	st.Lock.RLock()
	defer st.Lock.RUnlock()
	loc, err := st.KLM.Get(local.NewKeyFromString(s.u.digests[k].GetKey(digest.KeyWithoutInstance)))
	if err != nil {
		return false, false
	}
	_, needsRefresh = st.LBM.Get(loc)
	return true, needsRefresh
}

type presence map[string]map[int][2]bool // side -> key -> (present, needsRefresh)

func (s *sutB) snapshot() presence {
	p := presence{"A": {}, "B": {}}
	for _, side := range []string{"A", "B"} {
		for k := 0; k < maxKeys; k++ {
			a, b := s.probe(side, k)
			p[side][k] = [2]bool{a, b}
		}
	}
	return p
}

func (p presence) where(k int) string {
	w := ""
	if p["A"][k][0] {
		w += "A"
	}
	if p["B"][k][0] {
		w += "B"
	}
	if w == "" {
		w = "-"
	}
	return w
}

func (s *sutB) direct(side string, d digest.Digest, data []byte) error {
	return s.st[side].BA.Put(context.Background(), d, buffer.NewValidatedBufferFromByteSlice(data))
}

// runB executes one composite operation with a watchdog.
func (s *sutB) runB(w []string) (reply string, isErr bool, cerr canonErr, missing []int, panicked string, hung bool) {
	ctx, cancelDeadline := context.WithTimeout(context.Background(), 3*opDeadline)
	defer cancelDeadline()
	done := make(chan struct{})
	go func() {
		defer close(done)
		defer func() {
			if r := recover(); r != nil {
				panicked = fmt.Sprint(r)
				reply = "panic"
			}
		}()
		fail := func(err error) {
			isErr, cerr = true, s.u.canon(err)
			reply = cerr.String()
		}
		switch w[0] {
		case "get":
			data, err := s.ba11.Get(ctx, s.u.digests[atoi(w[1])]).ToByteSlice(1 << 20)
			if err != nil {
				fail(err)
				return
			}
			reply = "val ?"
			for k, c := range s.u.content {
				if string(c) == string(data) {
					reply = fmt.Sprintf("val %d", k)
				}
			}
		case "put":
			k := atoi(w[1])
			if err := s.ba11.Put(ctx, s.u.digests[k], buffer.NewValidatedBufferFromByteSlice(s.u.content[k])); err != nil {
				fail(err)
				return
			}
			reply = "ok"
		case "fm":
			var ids []int
			for _, x := range w[1:] {
				ids = append(ids, atoi(x))
			}
			m, err := s.ba11.FindMissing(ctx, s.u.set(ids))
			if err != nil {
				fail(err)
				return
			}
			missing = s.u.ids(m)
			reply = "missing -"
			if len(missing) > 0 {
				reply = "missing " + strings.Trim(fmt.Sprint(missing), "[]")
			}
		}
	}()
	select {
	case <-done:
	case <-time.After(hardLimit):
		return "hung", false, canonErr{}, nil, "", true
	}
	s.mu.Lock()
	if len(s.panics) > 0 && panicked == "" {
		panicked = strings.Join(s.panics, "; ")
	}
	s.panics = nil
	s.mu.Unlock()
	return
}
