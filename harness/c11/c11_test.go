package c11

import (
	"fmt"
	"regexp"
	"strings"
	"testing"

	"github.com/buildbarn/bb-storage/pkg/blobstore/buffer"
	"google.golang.org/grpc/codes"

	"verifharness/hx"
)

func bufferOf(b []byte) buffer.Buffer { return buffer.NewValidatedBufferFromByteSlice(b) }

type caseOut struct {
	what, detail string
	agree        bool
	findings     []hx.Finding
	counts       map[string]int // "A get" -> calls made
	fired        int
}

var counterRe = regexp.MustCompile(` (get|getc|put|fm|caps)=\d+`)
var roundRe = regexp.MustCompile(` \| round \d+$`)

// relax drops what a decorated replicator legitimately changes: call counters and the inner error chain.
func relax(s string) string {
	s = roundRe.ReplaceAllString(counterRe.ReplaceAllString(s, ""), "")
	if w := strings.Fields(s); len(w) >= 2 && w[0] == "err" {
		return w[0] + " " + w[1]
	}
	return s
}

// runCaseA runs one mode (a) script: "#cfg a <ab> <ba> <late> [<stream> <putlate> <slice|chunks|reader>]", then
// place / fault lines, then operations.
func runCaseA(run *hx.Run, model *hx.Model, u *universe, name string, script []string, report bool) caseOut {
	out := caseOut{agree: true, counts: map[string]int{}}
	cfg := strings.Fields(script[0])
	if (len(cfg) != 5 && len(cfg) != 8) || cfg[0] != "#cfg" || cfg[1] != "a" {
		out.what, out.detail = "harness: bad configuration line", script[0]
		return out
	}
	ab, ba := cfg[2], cfg[3]
	m := modeA{late: cfg[4] == "1", consume: "slice"}
	if len(cfg) == 8 {
		m.stream, m.putLate, m.consume = cfg[5] == "1", cfg[6] == "1", cfg[7]
	}
	s := newSutA(u, ab, ba, m)
	exact := exactKind(ab) && exactKind(ba)
	lines := []string{fmt.Sprintf("init %s %s", modelStrat(ab), modelStrat(ba))}
	impl := []string{"ok"}
	relaxed := map[int]bool{} // reply lines compared up to the error code
	fail := func(what, detail string) {
		if out.what == "" {
			out.what, out.detail = what, detail
		}
	}
	blocked := false
ops:
	for _, line := range script[1:] {
		w := strings.Fields(line)
		if len(w) == 0 {
			continue
		}
		switch w[0] {
		case "place":
			if len(w) != 5 {
				continue
			}
			k := atoi(w[1])
			delete(s.A.store, k)
			delete(s.B.store, k)
			if strings.Contains(w[2], "A") {
				s.A.store[k] = u.valBytes(k, atoi(w[3]))
			}
			if strings.Contains(w[2], "B") {
				s.B.store[k] = u.valBytes(k, atoi(w[4]))
			}
			lines, impl = append(lines, line), append(impl, "ok")
		case "fault":
			if len(w) != 5 {
				continue
			}
			s.side(w[1]).faults[w[2]+"#"+w[3]] = codes.Code(atoi(w[4]))
			lines, impl = append(lines, line), append(impl, "ok")
		case "get", "getc", "put", "cput", "fm", "caps":
			if w[0] == "cput" && (len(w) != 4 || strings.Trim(w[3], "AB") != "") {
				continue
			}
			if (w[0] == "put" && len(w) != 3) || ((w[0] == "get" || w[0] == "getc") && len(w) != 2) || (w[0] == "fm" && len(w) < 2) {
				continue
			}
			roundsBefore := s.rounds
			res := s.run(w)
			if w[0] == "get" || w[0] == "getc" || w[0] == "caps" {
				s.rounds++
			}
			for _, c := range res.calls {
				out.counts[c.side+" "+c.meth]++
				if c.fault != codes.OK {
					out.fired++
				}
			}
			if w[0] == "cput" {
				// for the oracle and the model this is an upload during which the
				// Puts that waited for the cancellation failed with its code
				for _, h := range res.hung {
					lines, impl = append(lines, fmt.Sprintf("fault %s put %s 1", strings.Fields(h)[0], strings.Fields(h)[1])), append(impl, "ok")
				}
				w = []string{"put", w[1], w[2]}
				line = strings.Join(w, " ")
				if report {
					run.Count("op:put-cancelled")
				}
			}
			if what, detail := s.oracle(w, res, roundsBefore); what != "" {
				fail(what, detail)
				if what == whatBlocked {
					// the composite is wedged (and, if stuck, still running): give the case up
					impl = append(impl, res.reply)
					lines = append(lines, line)
					blocked = true
					break ops
				}
			}
			ml := line
			switch w[0] {
			case "put":
				ml = line + " " + prefOf(res)
			case "fm":
				p1, p2 := "A", "A"
				if res.isErr && res.err.first() == "B" {
					p1 = "B"
				}
				if res.isErr && (res.err.first() == "syncB" || res.err.first() == "inconsB") {
					p2 = "B"
				}
				ml = fmt.Sprintf("fm %s %s %s", p1, p2, strings.Join(w[1:], " "))
			}
			if res.fromClose {
				relaxed[len(lines)] = true
				if report {
					run.Count("read error reported by Close (not prefixed)")
				}
			}
			lines, impl = append(lines, ml, "state"), append(impl, res.reply, s.state(true)+fmt.Sprintf(" | round %d", s.rounds))
			if report {
				run.Count("op:" + w[0])
				run.Count("reply:" + strings.Fields(res.reply)[0])
			}
			if res.panicked != "" {
				break
			}
		}
	}
	validated := false
	if model != nil && !blocked && (exact || out.fired == 0) {
		mo := model.Batch(lines)
		validated = true
		run.Compared(len(mo))
		for i := range mo {
			a, b := impl[i], mo[i]
			if !exact || relaxed[i] {
				a, b = relax(a), relax(b)
			}
			if a != b {
				out.agree = false
				out.findings = append(out.findings, hx.Finding{Kind: "disagreement", What: "model/implementation differ",
					Detail: fmt.Sprintf("step %d %q: impl=%q model=%q", i, lines[i], impl[i], mo[i]),
					Case:   name, Script: script, Impl: impl, Model: mo})
				break
			}
		}
	}
	if report {
		run.Case(script, len(lines) >= 6, validated)
		run.Count("repl:" + ab + "/" + ba)
		run.Count(fmt.Sprintf("mode:late=%v,stream=%v,putlate=%v,%s", m.late, m.stream, m.putLate, m.consume))
		if out.fired > 0 {
			run.Count("faults-fired")
		}
	}
	if out.what != "" {
		out.findings = append(out.findings, hx.Finding{Kind: "oracle", What: out.what, Detail: out.detail, Case: name, Script: script, Impl: impl})
	}
	return out
}

// genBaseA makes a fault-free mode (a) script.
func genBaseA(r *hx.Rand) []string {
	ab := replKinds[r.Intn(len(replKinds))]
	ba := ab
	if r.Chance(2, 5) {
		ba = replKinds[r.Intn(len(replKinds))]
	}
	late := 0
	if r.Chance(1, 3) {
		late = 1
	}
	stream, putLate := r.Intn(2), r.Intn(2)
	consume := []string{"slice", "chunks", "reader"}[r.Intn(3)]
	script := []string{fmt.Sprintf("#cfg a %s %s %d %d %d %s", ab, ba, late, stream, putLate, consume)}
	nkeys := r.Range(2, 5)
	for k := 0; k < nkeys; k++ {
		// value 0 is the genuine blob (the only one a streaming replica serves as a stream)
		// (buffers of streaming / late-failing replicas validate what is read
		// against the digest, so only plain replicas can hold other values)
		plain := late == 0 && stream == 0
		va := 0
		if plain && r.Chance(1, 2) {
			va = r.Range(1, 9)
		}
		vb := va
		if plain && r.Chance(1, 4) {
			vb = r.Range(1, 9)
		}
		script = append(script, fmt.Sprintf("place %d %s %d %d", k, []string{"A", "B", "AB", "-"}[r.Intn(4)], va, vb))
	}
	nops := r.Range(3, 9)
	for i := 0; i < nops; i++ {
		switch x := r.Intn(100); {
		case x < 35:
			script = append(script, fmt.Sprintf("get %d", r.Intn(nkeys+1)))
		case x < 45:
			script = append(script, fmt.Sprintf("getc %d", r.Intn(nkeys+1)))
		case x < 50:
			script = append(script, fmt.Sprintf("cput %d 0 %s", r.Intn(nkeys+1), []string{"A", "B", "B", "AB"}[r.Intn(4)]))
		case x < 60:
			pv := 0
			if late == 0 && stream == 0 {
				pv = r.PickInt(0, r.Range(1, 9), r.Range(1, 9))
			}
			script = append(script, fmt.Sprintf("put %d %d", r.Intn(nkeys+1), pv))
		case x < 90:
			var ks []string
			for k := 0; k <= nkeys; k++ {
				if r.Chance(3, 5) {
					ks = append(ks, fmt.Sprint(k))
				}
			}
			if len(ks) == 0 {
				ks = []string{fmt.Sprint(r.Intn(nkeys))}
			}
			script = append(script, "fm "+strings.Join(ks, " "))
		default:
			script = append(script, "caps")
		}
	}
	return script
}

// withFaults inserts fault lines after the configuration line.
func withFaults(base []string, faults ...string) []string {
	s := append([]string{base[0]}, faults...)
	return append(s, base[1:]...)
}

func TestC11(t *testing.T) {
	run := hx.NewRun("C11")
	defer run.Finish(t)
	model, err := hx.StartModel()
	if err != nil {
		t.Fatalf("start model: %v", err)
	}
	defer model.Close()
	run.HasModel = model != nil
	u := newUniverse(true)   // mode (a): with blobs known under two instance names
	ub := newUniverse(false) // mode (b): flat local stores ignore instance names
	run.SetRule("mode a: random placements (A only, B only, both, neither; equal or differing values) of 2..5 keys and 3..9 operations " +
		"(get, getc, put, fm, caps; keys 0/1 and 3/4 are one blob under two instance names) over the real mirrored composite with every replicator, " +
		"byte-slice or streaming replicas, early or late errors of Get and Put, reads consumed as slice, chunk reader or io.Reader, fault-free and with every single call made to fail " +
		"(thorough: pairs); mode b: replicas are real block-device backed local stores with rotation; non-trivial = at least 5 protocol lines; distinct by script hash")

	if name, script := run.ReplayScript(); script != nil {
		var o caseOut
		if strings.HasPrefix(script[0], "#cfg b") {
			o = runCaseB(run, model, ub, name, script, true)
		} else {
			o = runCaseA(run, model, u, name, script, true)
		}
		for _, f := range o.findings {
			run.Report(f)
			t.Logf("impl:  %v", f.Impl)
			t.Logf("model: %v", f.Model)
		}
		t.Logf("replay %s: oracle=%q %s agree=%v", name, o.what, o.detail, o.agree)
		return
	}
	driveA(run, model, u)
	driveB(run, model, ub)
}
