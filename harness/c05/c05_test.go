package c05

import (
	"testing"

	"verifharness/bmx"
	"verifharness/hx"
	"verifharness/stx"
)

func TestC05(t *testing.T) {
	run := hx.NewRun("C05")
	defer run.Finish(t)
	model, err := hx.StartModel()
	if err != nil {
		t.Fatalf("start model: %v", err)
	}
	defer model.Close()
	run.HasModel = model != nil
	run.SetRule("random histories of put/touch(refresh-if-old)/finalize on the real OldCurrentNewLocationBlobMap over the real volatile block list " +
		"and both allocators; old 0..3, current 0..3, new 1..3, spare 0..3, blocks of 1..6 sectors of 1..16 bytes, sizes biased to 0,1,block,block+1; " +
		"non-trivial = at least one block was released (a rotation happened); distinct by script hash")
	bmx.Main(run, model, "C05", 0, run.Report)
	// the same property at the level of the blob access: real flat / hierarchical / AC stores; a successful Get or a
	// FindMissing "present" is the touch, survival is checked against the number of NewBlock calls since
	stx.Main(run, model, "C05store", []string{"C05"}, []string{"flat", "flati", "hier", "hier", "ac"}, 3000, 24000)
}
