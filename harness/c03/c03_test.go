// Package c03 checks property C03 (acknowledged uploads survive graceful
// shutdown and committed epochs) on the real persistent local store: a
// shutdown is requested at a random position relative to in-flight uploads and
// syncer steps and run to completion; everything the store could look up when
// ProcessBlockPut returned must be readable from a store rebuilt from the
// medium; uploads after the final sync began must be refused with UNAVAILABLE;
// after every completed commit without intervening writes a process crash
// must lose nothing. Every step is mirrored on the Lean persistence model.
package c03

import (
	"fmt"
	"os"
	"testing"
	"time"

	"verifharness/hx"
	"verifharness/psx"
)

func handle(run *hx.Run, model *hx.Model, name string, r *psx.Runner) {
	if r == nil {
		return
	}
	run.Case(r.Script, len(r.Acked) >= 2 && len(r.Script) >= 12, model != nil)
	if !r.Failed {
		return
	}
	what := r.FailWhat
	psx.GateTimeout = 500 * time.Millisecond
	small := hx.Shrink(r.Script, 1, func(s []string) bool {
		rr := psx.Replay(hx.NewRun("C03"), model, name+"/shrink", s)
		return rr != nil && rr.FailWhat == what
	})
	psx.GateTimeout = 10 * time.Second
	// the shrunk script is reported first (./check saves the first finding of a kind as the replay)
	var shrunk *psx.Runner
	if len(small) < len(r.Script) {
		shrunk = psx.Replay(run, model, name+"/shrunk", small)
	}
	r.ReportHeld(shrunk)
}

func TestC03(t *testing.T) {
	run := hx.NewRun("C03")
	defer run.Finish(t)
	model, err := hx.StartModel()
	if err != nil {
		t.Fatalf("start model: %v", err)
	}
	defer model.Close()
	run.HasModel = model != nil
	if os.Getenv("VERIF_SEARCH") != "" {
		// a proof obligation or the tie broke: look for a concrete failing input with the oracle alone
		model = nil
	}
	run.SetRule("random workloads as for C02 with a graceful shutdown requested at a random step (idle syncer, waiting on its timer, " +
		"inside a data sync, inside a state write, with uploads allocated / copied / not yet finalized) and driven to completion; " +
		"the final data sync fails up to 3 times in a quarter of the cases; read-back from the medium after ProcessBlockPut returned false " +
		"(process exit, and power loss dropping every unsynchronised data sector) and after every completed commit without intervening writes; " +
		"NotifySyncCompleted must be preceded by a successful device Sync since NotifySyncStarting; " +
		"a case is non-trivial when >= 2 uploads were acknowledged and it has >= 12 steps")

	if name, script := run.ReplayScript(); script != nil && psx.ReplayRoundTrip(run, name, script) {
		return
	}
	if name, script := run.ReplayScript(); script != nil {
		r := psx.Replay(run, model, name, script)
		if r != nil {
			for i := range r.Impl {
				t.Logf("impl:  %s", r.Impl[i])
				t.Logf("model: %s", r.Mdl[i])
			}
			if r.Failed && r.FailKind != "oracle" && model != nil {
				// the run stopped where model and code part ways: let the oracle alone judge the same script
				psx.Replay(run, nil, name+"/oracle-only", script)
			}
		}
		return
	}
	for name, script := range run.CorpusScripts() {
		if psx.ReplayRoundTrip(run, "corpus/"+name, script) {
			continue
		}
		psx.Replay(run, model, "corpus/"+name, script)
	}
	// what was committed is what a restart reads: the real state store, states of a few bytes up to
	// several hundred KiB (long histories without rotation, many blocks), process exit and power loss
	for i, k := 0, run.Scale(60, 600); i < k && run.Findings() < 10; i++ {
		line, _ := psx.RandomRoundTrip(run, fmt.Sprintf("seed%d/roundtrip%d", run.Seed, i), hx.NewRand(run.Seed, "C03-roundtrip", i))
		run.Case([]string{line}, true, false)
	}
	n := run.Scale(800, 8000)
	for i := 0; i < n && run.Findings() < 10; i++ {
		rnd := hx.NewRand(run.Seed, "C03", i)
		o := psx.Opts{Steps: rnd.Range(20, 60), Forks: 0, Shutdown: i%5 != 4, CommitForks: true, Crashes: i%5 == 4, Faults: i%4 == 0}
		name := fmt.Sprintf("seed%d/case%d", run.Seed, i)
		handle(run, model, name, psx.RunCase(run, model, name, rnd, o))
	}
}
