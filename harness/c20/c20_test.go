// Package c20 ties the Lean model of pkg/digest (BB.Digest) to the real
// package and checks the statements of property C20 directly on the observed
// behaviour: codecs round-trip, keys are injective, ancestors are the chain of
// component prefixes, malformed input is rejected (and never panics), and the
// set operations compute the mathematical sets, sorted and duplicate free.
//
// Every protocol line is self-contained (strings travel as hex), so a case is
// just a list of lines, a failing case shrinks to the failing line(s), and a
// replay re-executes the lines on the real code and on the model.
package c20

import (
	"bytes"
	"encoding/binary"
	"encoding/hex"
	"fmt"
	"io"
	"path"
	"sort"
	"strconv"
	"strings"
	"testing"

	remoteexecution "github.com/bazelbuild/remote-apis/build/bazel/remote/execution/v2"
	"github.com/buildbarn/bb-storage/pkg/digest"
	"github.com/google/uuid"
	"google.golang.org/grpc/status"

	"verifharness/hx"
)

const dotDefect = "ByteStream resource name does not round-trip for instance names with dot components"

// ---------------------------------------------------------------- encoding helpers

func hs(s string) string { return hx.Hex([]byte(s)) }

func unhex(w string) (string, bool) {
	if w == "-" {
		return "", true
	}
	b, err := hex.DecodeString(w)
	if err != nil {
		return "", false
	}
	return string(b), true
}

func mustUnhex(w string) string {
	s, ok := unhex(w)
	if !ok {
		panic("harness: bad hex word " + w)
	}
	return s
}

func showList(ds []string) string {
	if len(ds) == 0 {
		return "empty"
	}
	out := make([]string, len(ds))
	for i, d := range ds {
		out[i] = hs(d)
	}
	return strings.Join(out, " ")
}

// errLabel canonicalises an error: gRPC code + which message.
func errLabel(err error) string {
	if err == io.EOF {
		return "err other eof"
	}
	if err == io.ErrUnexpectedEOF {
		return "err other unexpected-eof"
	}
	st, ok := status.FromError(err)
	if !ok {
		if strings.Contains(err.Error(), "varint overflows") {
			return "err other varint-overflow"
		}
		return "err other " + strings.ReplaceAll(err.Error(), " ", "_")
	}
	m := st.Message()
	tag := "unrecognised:" + strings.ReplaceAll(m, " ", "_")
	for _, t := range [][2]string{
		{"Invalid resource naming scheme", "scheme"},
		{"reserved keyword", "reserved"},
		{"redundant slashes", "slashes"},
		{"Unsupported compression scheme", "compressor"},
		{"Unsupported digest function", "function"},
		{"Invalid blob size", "blob-size"},
		{"Hash has length", "hash-length"},
		{"Non-hexadecimal character", "hash-char"},
		{"Invalid digest size", "digest-size"},
		{"Unknown digest function", "unknown-function"},
		{"No digest provided", "nil-digest"},
	} {
		if strings.Contains(m, t[0]) {
			tag = t[1]
			break
		}
	}
	return "err " + st.Code().String() + " " + tag
}

// ---------------------------------------------------------------- the real code behind one protocol line

type dwords struct {
	inst string
	enum int
	hash string
	size int64
}

func parseD(w []string) (dwords, bool) {
	var d dwords
	var ok bool
	if len(w) < 4 {
		return d, false
	}
	if d.inst, ok = unhex(w[0]); !ok {
		return d, false
	}
	e, err := strconv.Atoi(w[1])
	if err != nil || e < 0 {
		return d, false
	}
	d.enum = e
	if d.hash, ok = unhex(w[2]); !ok {
		return d, false
	}
	z, err := strconv.ParseInt(w[3], 10, 64)
	if err != nil {
		return d, false
	}
	d.size = z
	return d, true
}

func (d dwords) build() (digest.Digest, error) {
	in, err := digest.NewInstanceName(d.inst)
	if err != nil {
		return digest.BadDigest, err
	}
	f, err := in.GetDigestFunction(remoteexecution.DigestFunction_Value(d.enum), 0)
	if err != nil {
		return digest.BadDigest, err
	}
	return f.NewDigest(d.hash, d.size)
}

// fromPacked rebuilds a Digest from its packed string through the exported constructors.
func fromPacked(p string) (digest.Digest, bool) {
	parts := strings.SplitN(p, "-", 4)
	if len(parts) != 4 {
		return digest.BadDigest, false
	}
	e, err := strconv.Atoi(parts[0])
	if err != nil {
		return digest.BadDigest, false
	}
	z, err := strconv.ParseInt(parts[2], 10, 64)
	if err != nil {
		return digest.BadDigest, false
	}
	d, err := dwords{parts[3], e, parts[1], z}.build()
	if err != nil || d.String() != p {
		return digest.BadDigest, false
	}
	return d, true
}

func parseSets(ws []string) ([]digest.Set, [][]string, bool) {
	var sets []digest.Set
	var raw [][]string
	cur := digest.NewSetBuilder(0)
	var curRaw []string
	flush := func() bool {
		if !sort.StringsAreSorted(curRaw) {
			return false
		}
		for i := 1; i < len(curRaw); i++ {
			if curRaw[i] == curRaw[i-1] {
				return false
			}
		}
		sets = append(sets, cur.Build())
		raw = append(raw, curRaw)
		cur = digest.NewSetBuilder(0)
		curRaw = nil
		return true
	}
	for _, w := range ws {
		if w == "|" {
			if !flush() {
				return nil, nil, false
			}
			continue
		}
		p, ok := unhex(w)
		if !ok {
			return nil, nil, false
		}
		d, ok := fromPacked(p)
		if !ok {
			return nil, nil, false
		}
		cur.Add(d)
		curRaw = append(curRaw, p)
	}
	if !flush() {
		return nil, nil, false
	}
	return sets, raw, true
}

func items(s digest.Set) []string {
	var out []string
	for _, d := range s.Items() {
		out = append(out, d.String())
	}
	return out
}

// exec runs one protocol line against the real code. A panic of the code
// under test is the reply "panic" (the message is kept in *panicMsg).
func exec(line string, panicMsg *string) (reply string) {
	defer func() {
		if r := recover(); r != nil {
			if panicMsg != nil {
				*panicMsg = fmt.Sprint(r)
			}
			reply = "panic"
		}
	}()
	w := strings.Fields(line)
	if len(w) == 0 {
		return "bad-op"
	}
	args := w[1:]
	withD := func(n int, f func(d digest.Digest, dw dwords) string) string {
		if len(args) != 4+n {
			return "bad-op"
		}
		dw, ok := parseD(args)
		if !ok {
			return "bad-op"
		}
		d, err := dw.build()
		if err != nil {
			return errLabel(err)
		}
		return f(d, dw)
	}
	resC := func(d digest.Digest, c remoteexecution.Compressor_Value, err error) string {
		if err != nil {
			return errLabel(err)
		}
		return fmt.Sprintf("ok %s %d", hs(d.String()), int(c))
	}
	res := func(d digest.Digest, err error) string {
		if err != nil {
			return errLabel(err)
		}
		return "ok " + hs(d.String())
	}
	switch w[0] {
	case "inst":
		if len(args) != 1 {
			return "bad-op"
		}
		s, ok := unhex(args[0])
		if !ok {
			return "bad-op"
		}
		in, err := digest.NewInstanceName(s)
		if err != nil {
			return errLabel(err)
		}
		return "ok " + hs(in.String())
	case "instc":
		var cs []string
		for _, a := range args {
			s, ok := unhex(a)
			if !ok {
				return "bad-op"
			}
			cs = append(cs, s)
		}
		in, err := digest.NewInstanceNameFromComponents(cs)
		if err != nil {
			return errLabel(err)
		}
		return "ok " + hs(in.String())
	case "comps":
		if len(args) != 1 {
			return "bad-op"
		}
		s, ok := unhex(args[0])
		if !ok {
			return "bad-op"
		}
		// GetComponents is strings.FieldsFunc on the value; use the real method when the name is valid.
		if in, err := digest.NewInstanceName(s); err == nil {
			return showList(in.GetComponents())
		}
		return showList(strings.FieldsFunc(s, func(r rune) bool { return r == '/' }))
	case "pjoin":
		var es []string
		for _, a := range args {
			s, ok := unhex(a)
			if !ok {
				return "bad-op"
			}
			es = append(es, s)
		}
		return hs(path.Join(es...))
	case "mk":
		return withD(0, func(d digest.Digest, _ dwords) string { return "ok " + hs(d.String()) })
	case "acc":
		return withD(0, func(d digest.Digest, _ dwords) string {
			if hex.EncodeToString(d.GetHashBytes()) != d.GetHashString() {
				return "hash-bytes-differ"
			}
			return fmt.Sprintf("ok %d %s %d %s", int(d.GetDigestFunction().GetEnumValue()), hs(d.GetHashString()), d.GetSizeBytes(), hs(d.GetInstanceName().String()))
		})
	case "read", "write":
		if len(args) != 1 {
			return "bad-op"
		}
		p, ok := unhex(args[0])
		if !ok {
			return "bad-op"
		}
		if w[0] == "read" {
			return resC(digest.NewDigestFromByteStreamReadPath(p))
		}
		return resC(digest.NewDigestFromByteStreamWritePath(p))
	case "rtread":
		return withD(1, func(d digest.Digest, _ dwords) string {
			c, err := strconv.Atoi(args[4])
			if err != nil || c < 0 {
				return "bad-op"
			}
			p := d.GetByteStreamReadPath(remoteexecution.Compressor_Value(c))
			return hs(d.String()) + " " + hs(p) + " => " + resC(digest.NewDigestFromByteStreamReadPath(p))
		})
	case "rtwrite":
		return withD(2, func(d digest.Digest, _ dwords) string {
			us, ok := unhex(args[4])
			c, err := strconv.Atoi(args[5])
			if !ok || err != nil || c < 0 {
				return "bad-op"
			}
			u, err := uuid.Parse(us)
			if err != nil || u.String() != us {
				return "bad-op"
			}
			p := d.GetByteStreamWritePath(u, remoteexecution.Compressor_Value(c))
			return hs(d.String()) + " " + hs(p) + " => " + resC(digest.NewDigestFromByteStreamWritePath(p))
		})
	case "rtproto":
		return withD(0, func(d digest.Digest, _ dwords) string {
			p := d.GetProto()
			return fmt.Sprintf("%s %s %d => %s", hs(d.String()), hs(p.Hash), p.SizeBytes, res(d.GetDigestFunction().NewDigestFromProto(p)))
		})
	case "fromproto", "fromproto-nil":
		if (w[0] == "fromproto" && len(args) != 4) || (w[0] == "fromproto-nil" && len(args) != 2) {
			return "bad-op"
		}
		i, ok := unhex(args[0])
		e, err := strconv.Atoi(args[1])
		if !ok || err != nil || e < 0 {
			return "bad-op"
		}
		var msg *remoteexecution.Digest
		if w[0] == "fromproto" {
			h, ok := unhex(args[2])
			z, err := strconv.ParseInt(args[3], 10, 64)
			if !ok || err != nil {
				return "bad-op"
			}
			msg = &remoteexecution.Digest{Hash: h, SizeBytes: z}
		}
		in, err := digest.NewInstanceName(i)
		if err != nil {
			return errLabel(err)
		}
		f, err := in.GetDigestFunction(remoteexecution.DigestFunction_Value(e), 0)
		if err != nil {
			return errLabel(err)
		}
		return res(f.NewDigestFromProto(msg))
	case "key":
		return withD(1, func(d digest.Digest, _ dwords) string {
			switch args[4] {
			case "0":
				return hs(d.GetKey(digest.KeyWithoutInstance))
			case "1":
				return hs(d.GetKey(digest.KeyWithInstance))
			}
			return "bad-op"
		})
	case "anc":
		return withD(0, func(d digest.Digest, _ dwords) string {
			var out []string
			for _, a := range d.GetDigestsWithParentInstanceNames() {
				out = append(out, a.String())
			}
			return showList(out)
		})
	case "rtcbin":
		return withD(0, func(d digest.Digest, _ dwords) string {
			b := d.GetCompactBinary()
			return hs(d.String()) + " " + hx.Hex(b) + " => " + res(d.GetInstanceName().NewDigestFromCompactBinary(bytes.NewReader(b)))
		})
	case "fromcbin":
		if len(args) != 2 {
			return "bad-op"
		}
		i, ok1 := unhex(args[0])
		b, ok2 := unhex(args[1])
		if !ok1 || !ok2 {
			return "bad-op"
		}
		in, err := digest.NewInstanceName(i)
		if err != nil {
			return errLabel(err)
		}
		return res(in.NewDigestFromCompactBinary(bytes.NewReader([]byte(b))))
	case "build":
		sb := digest.NewSetBuilder(0)
		seen := map[string]bool{}
		for _, a := range args {
			p, ok := unhex(a)
			if !ok {
				return "bad-op"
			}
			d, ok := fromPacked(p)
			if !ok {
				return "bad-op"
			}
			sb.Add(d)
			seen[p] = true
		}
		if sb.Length() != len(seen) {
			return "length-differs"
		}
		return showList(items(sb.Build()))
	case "union":
		sets, _, ok := parseSets(args)
		if !ok {
			return "bad-op"
		}
		return showList(items(digest.GetUnion(sets)))
	case "dai":
		sets, _, ok := parseSets(args)
		if !ok || len(sets) != 2 {
			return "bad-op"
		}
		a, both, b := digest.GetDifferenceAndIntersection(sets[0], sets[1])
		return showList(items(a)) + " | " + showList(items(both)) + " | " + showList(items(b))
	case "rmempty":
		sets, _, ok := parseSets(args)
		if !ok || len(sets) != 1 {
			return "bad-op"
		}
		return showList(items(sets[0].RemoveEmptyBlob()))
	case "gdf":
		if len(args) != 3 {
			return "bad-op"
		}
		i, ok := unhex(args[0])
		e, err1 := strconv.ParseInt(args[1], 10, 32)
		n, err2 := strconv.Atoi(args[2])
		if !ok || err1 != nil || err2 != nil || n < 0 {
			return "bad-op"
		}
		in, err := digest.NewInstanceName(i)
		if err != nil {
			return errLabel(err)
		}
		f, err := in.GetDigestFunction(remoteexecution.DigestFunction_Value(e), n)
		if err != nil {
			return errLabel(err)
		}
		return fmt.Sprintf("ok %d", int(f.GetEnumValue()))
	case "mkf":
		// what the CAS / AC servers do: the length of the hash is the fallback
		if len(args) != 4 {
			return "bad-op"
		}
		i, ok1 := unhex(args[0])
		e, err1 := strconv.ParseInt(args[1], 10, 32)
		h, ok2 := unhex(args[2])
		z, err2 := strconv.ParseInt(args[3], 10, 64)
		if !ok1 || !ok2 || err1 != nil || err2 != nil {
			return "bad-op"
		}
		in, err := digest.NewInstanceName(i)
		if err != nil {
			return errLabel(err)
		}
		f, err := in.GetDigestFunction(remoteexecution.DigestFunction_Value(e), len(h))
		if err != nil {
			return errLabel(err)
		}
		return res(f.NewDigestFromProto(&remoteexecution.Digest{Hash: h, SizeBytes: z}))
	case "combine":
		if len(args) != 2 {
			return "bad-op"
		}
		a, err1 := strconv.Atoi(args[0])
		b, err2 := strconv.Atoi(args[1])
		if err1 != nil || err2 != nil || a < 0 || b < 0 {
			return "bad-op"
		}
		return strconv.Itoa(int(digest.KeyFormat(a).Combine(digest.KeyFormat(b))))
	case "sx":
		// a program over a register file of sets; later instructions run on sets *derived* by the
		// real code (sub-slices, aliases, whatever its fast paths return), not on rebuilt copies
		sep := -1
		for i, a := range args {
			if a == "::" {
				sep = i
			}
		}
		if sep < 0 {
			return "bad-op"
		}
		regs, _, ok := parseSets(args[:sep])
		if !ok {
			return "bad-op"
		}
		for _, ins := range splitOn(args[sep+1:], ";") {
			if len(ins) == 0 {
				continue
			}
			idx := make([]int, 0, len(ins)-1)
			for _, w := range ins[1:] {
				i, err := strconv.Atoi(w)
				if err != nil || i < 0 || i >= len(regs) {
					return "bad-op"
				}
				idx = append(idx, i)
			}
			switch {
			case ins[0] == "same" && len(idx) == 1:
				regs = append(regs, regs[idx[0]])
			case ins[0] == "part" && len(idx) == 1:
				regs = append(regs, regs[idx[0]].PartitionByInstanceName()...)
			case ins[0] == "rme" && len(idx) == 1:
				regs = append(regs, regs[idx[0]].RemoveEmptyBlob())
			case ins[0] == "dai" && len(idx) == 2:
				a, both, b := digest.GetDifferenceAndIntersection(regs[idx[0]], regs[idx[1]])
				regs = append(regs, a, both, b)
			case ins[0] == "uni":
				var in []digest.Set
				for _, i := range idx {
					in = append(in, regs[i])
				}
				regs = append(regs, digest.GetUnion(in))
			default:
				return "bad-op"
			}
		}
		out := make([]string, len(regs))
		for i, r := range regs {
			out[i] = showList(items(r))
		}
		return strings.Join(out, " | ")
	case "part":
		sets, _, ok := parseSets(args)
		if !ok || len(sets) != 1 {
			return "bad-op"
		}
		parts := sets[0].PartitionByInstanceName()
		if len(parts) == 0 {
			return "empty"
		}
		var out []string
		for _, p := range parts {
			out = append(out, showList(items(p)))
		}
		return strings.Join(out, " | ")
	}
	return "bad-op"
}

// ---------------------------------------------------------------- independent reference facts for the oracle

var fnInfo = map[int]struct {
	name    string
	hashLen int
}{1: {"sha256", 64}, 2: {"sha1", 40}, 3: {"md5", 32}, 5: {"sha384", 96}, 6: {"sha512", 128},
	8: {"sha256tree", 64}, 9: {"blake3", 64}, 10: {"gitsha1", 40}}

var allFns = []int{1, 2, 3, 5, 6, 8, 9, 10}

var compressorName = map[int]string{1: "zstd", 2: "deflate", 3: "brotli"}

var reserved = map[string]bool{"blobs": true, "uploads": true, "actions": true, "actionResults": true,
	"operations": true, "capabilities": true, "compressed-blobs": true}

func validInstance(s string) bool {
	if s == "" {
		return true
	}
	for _, c := range strings.Split(s, "/") {
		if c == "" || reserved[c] {
			return false
		}
	}
	return true
}

func hasDotComponent(inst string) bool {
	for _, c := range strings.Split(inst, "/") {
		if c == "." || c == ".." {
			return true
		}
	}
	return false
}

func lowerHex(s string) bool {
	for i := 0; i < len(s); i++ {
		c := s[i]
		if !((c >= '0' && c <= '9') || (c >= 'a' && c <= 'f')) {
			return false
		}
	}
	return true
}

func validD(d dwords) bool {
	fi, ok := fnInfo[d.enum]
	return ok && validInstance(d.inst) && len(d.hash) == fi.hashLen && lowerHex(d.hash) && d.size >= 0
}

func (d dwords) packed() string {
	return fmt.Sprintf("%d-%s-%d-%s", d.enum, d.hash, d.size, d.inst)
}

// wellFormed decides whether p is the packed string of a valid digest.
func wellFormed(p string) (dwords, bool) {
	parts := strings.SplitN(p, "-", 4)
	if len(parts) != 4 {
		return dwords{}, false
	}
	e, err := strconv.Atoi(parts[0])
	if err != nil || strconv.Itoa(e) != parts[0] {
		return dwords{}, false
	}
	z, err := strconv.ParseInt(parts[2], 10, 64)
	if err != nil || strconv.FormatInt(z, 10) != parts[2] {
		return dwords{}, false
	}
	d := dwords{parts[3], e, parts[1], z}
	return d, validD(d)
}

// spells checks that an accepted resource name really names digest d with
// compressor c: its non-empty fields are the instance name components, then
// (write) "uploads" and one field, then the compression marker, the optional
// function name, the hash and a size field that denotes d's size.
func spells(p string, write bool, d dwords, c int) string {
	var f []string
	for _, x := range strings.Split(p, "/") {
		if x != "" {
			f = append(f, x)
		}
	}
	var comps []string
	if d.inst != "" {
		comps = strings.Split(d.inst, "/")
	}
	if len(f) < len(comps) {
		return "instance name is not a prefix of the path"
	}
	for i, cmp := range comps {
		if f[i] != cmp {
			return "instance name is not a prefix of the path"
		}
	}
	f = f[len(comps):]
	if write {
		if len(f) < 2 || f[0] != "uploads" {
			return "no uploads marker after the instance name"
		}
		f = f[2:]
	}
	switch {
	case len(f) > 0 && f[0] == "blobs":
		if c != 0 {
			return "compressor differs"
		}
		f = f[1:]
	case len(f) > 1 && f[0] == "compressed-blobs":
		if c == 0 || compressorName[c] != f[1] {
			return "compressor differs"
		}
		f = f[2:]
	default:
		if !write {
			return "no blobs marker"
		}
		// the write parser has no default case: a path without marker is read as uncompressed
		if c != 0 {
			return "compressor differs"
		}
	}
	if len(f) > 0 && d.enum > 7 && f[0] == fnInfo[d.enum].name {
		f = f[1:]
	} else if d.enum > 7 {
		return "digest function differs"
	}
	if len(f) < 2 || f[0] != d.hash {
		return "hash differs"
	}
	z, err := strconv.ParseInt(f[1], 10, 64)
	if err != nil || z != d.size {
		return "size differs"
	}
	return ""
}

func sortedUnique(xs []string) []string {
	m := map[string]bool{}
	for _, x := range xs {
		m[x] = true
	}
	out := make([]string, 0, len(m))
	for x := range m {
		out = append(out, x)
	}
	sort.Strings(out)
	return out
}

func listOf(words []string) []string {
	var out []string
	for _, w := range words {
		if w == "empty" {
			continue
		}
		out = append(out, mustUnhex(w))
	}
	return out
}

func splitBars(ws []string) [][]string {
	res := [][]string{nil}
	for _, w := range ws {
		if w == "|" {
			res = append(res, nil)
		} else {
			res[len(res)-1] = append(res[len(res)-1], w)
		}
	}
	return res
}

func splitOn(ws []string, sep string) [][]string {
	res := [][]string{nil}
	for _, w := range ws {
		if w == sep {
			res = append(res, nil)
		} else {
			res[len(res)-1] = append(res[len(res)-1], w)
		}
	}
	return res
}

// refSetProgram is the reference meaning of an sx line: the same program on
// plain sorted string lists, every operation defined by set membership.
func refSetProgram(args []string) ([][]string, bool) {
	sep := -1
	for i, a := range args {
		if a == "::" {
			sep = i
		}
	}
	if sep < 0 {
		return nil, false
	}
	var regs [][]string
	for _, b := range splitBars(args[:sep]) {
		regs = append(regs, listOf(b))
	}
	member := func(l []string) map[string]bool {
		m := map[string]bool{}
		for _, x := range l {
			m[x] = true
		}
		return m
	}
	for _, ins := range splitOn(args[sep+1:], ";") {
		if len(ins) == 0 {
			continue
		}
		var idx []int
		for _, w := range ins[1:] {
			i, err := strconv.Atoi(w)
			if err != nil || i < 0 || i >= len(regs) {
				return nil, false
			}
			idx = append(idx, i)
		}
		switch {
		case ins[0] == "same" && len(idx) == 1:
			regs = append(regs, regs[idx[0]])
		case ins[0] == "part" && len(idx) == 1:
			var order []string
			groups := map[string][]string{}
			for _, x := range regs[idx[0]] {
				d, _ := wellFormed(x)
				if _, ok := groups[d.inst]; !ok {
					order = append(order, d.inst)
				}
				groups[d.inst] = append(groups[d.inst], x)
			}
			for _, in := range order {
				regs = append(regs, groups[in])
			}
		case ins[0] == "rme" && len(idx) == 1:
			var out []string
			for _, x := range regs[idx[0]] {
				if d, ok := wellFormed(x); ok && d.size != 0 {
					out = append(out, x)
				}
			}
			regs = append(regs, out)
		case ins[0] == "dai" && len(idx) == 2:
			a, b := regs[idx[0]], regs[idx[1]]
			inA, inB := member(a), member(b)
			var onlyA, both, onlyB []string
			for _, x := range a {
				if inB[x] {
					both = append(both, x)
				} else {
					onlyA = append(onlyA, x)
				}
			}
			for _, x := range b {
				if !inA[x] {
					onlyB = append(onlyB, x)
				}
			}
			regs = append(regs, onlyA, both, onlyB)
		case ins[0] == "uni":
			var all []string
			for _, i := range idx {
				all = append(all, regs[i]...)
			}
			regs = append(regs, sortedUnique(all))
		default:
			return nil, false
		}
	}
	return regs, true
}

func eqList(a, b []string) bool {
	if len(a) != len(b) {
		return false
	}
	for i := range a {
		if a[i] != b[i] {
			return false
		}
	}
	return true
}

type violation struct{ what, detail string }

// oracleLine states C20 for one executed line of the real code.
func oracleLine(line, reply, panicMsg string) *violation {
	w := strings.Fields(line)
	if len(w) == 0 {
		return nil
	}
	args := w[1:]
	if reply == "panic" {
		if w[0] == "instc" {
			// documented: NewInstanceNameFromComponents panics on an empty component (programming error)
			for _, a := range args {
				if a == "-" {
					return nil
				}
			}
		}
		return &violation{"pkg/digest panicked", fmt.Sprintf("%q: %s", line, panicMsg)}
	}
	if reply == "bad-op" {
		return nil
	}
	r := strings.Fields(reply)
	isD := map[string]bool{"mk": true, "acc": true, "rtread": true, "rtwrite": true, "rtproto": true, "key": true, "anc": true, "rtcbin": true}
	var dw dwords
	if isD[w[0]] {
		var ok bool
		if dw, ok = parseD(args); !ok {
			return nil
		}
		if r[0] == "err" {
			if validD(dw) {
				return &violation{"valid digest rejected by the constructors", fmt.Sprintf("%q -> %q", line, reply)}
			}
			return nil
		}
		if !validD(dw) {
			return &violation{"malformed digest accepted by the constructors", fmt.Sprintf("%q -> %q", line, reply)}
		}
	}
	switch w[0] {
	case "inst":
		s := mustUnhex(args[0])
		okRef := validInstance(s)
		if (r[0] == "ok") != okRef {
			return &violation{"NewInstanceName accepts/rejects contrary to the naming rules", fmt.Sprintf("%q -> %q, expected valid=%v", s, reply, okRef)}
		}
		if r[0] == "ok" && mustUnhex(r[1]) != s {
			return &violation{"NewInstanceName changed the name", fmt.Sprintf("%q -> %q", s, mustUnhex(r[1]))}
		}
	case "instc":
		var cs []string
		for _, a := range args {
			cs = append(cs, mustUnhex(a))
		}
		okRef := true
		for _, c := range cs {
			if reserved[c] {
				okRef = false
			}
		}
		if (r[0] == "ok") != okRef {
			return &violation{"NewInstanceNameFromComponents accepts/rejects contrary to the naming rules", fmt.Sprintf("%q -> %q", cs, reply)}
		}
		if r[0] == "ok" && mustUnhex(r[1]) != strings.Join(cs, "/") {
			return &violation{"NewInstanceNameFromComponents built a different name", fmt.Sprintf("%q -> %q", cs, mustUnhex(r[1]))}
		}
	case "mk":
		if got := mustUnhex(r[1]); got != dw.packed() {
			return &violation{"constructed digest differs from its arguments", fmt.Sprintf("%q -> %q, expected %q", line, got, dw.packed())}
		}
	case "acc":
		if r[0] != "ok" || len(r) != 5 || r[1] != strconv.Itoa(dw.enum) || mustUnhex(r[2]) != dw.hash || r[3] != strconv.FormatInt(dw.size, 10) || mustUnhex(r[4]) != dw.inst {
			return &violation{"accessors do not return the constructor arguments", fmt.Sprintf("%q -> %q", line, reply)}
		}
	case "rtread", "rtwrite":
		c, _ := strconv.Atoi(args[len(args)-1])
		if c > 3 {
			return nil // unsupported compressor: no claim
		}
		d := mustUnhex(r[0])
		want := fmt.Sprintf("ok %s %d", r[0], c)
		got := strings.Join(r[3:], " ")
		if d != dw.packed() {
			return &violation{"constructed digest differs from its arguments", fmt.Sprintf("%q -> %q", line, d)}
		}
		if got != want {
			p := mustUnhex(r[1])
			back := got
			if len(r) >= 5 && r[3] == "ok" {
				back = fmt.Sprintf("ok %q %s", mustUnhex(r[4]), strings.Join(r[5:], " "))
			}
			if hasDotComponent(dw.inst) {
				return &violation{dotDefect, fmt.Sprintf("%s: digest %q compressor %d formats to %q which parses back as %s", w[0], d, c, p, back)}
			}
			return &violation{"ByteStream " + strings.TrimPrefix(w[0], "rt") + " resource name does not round-trip", fmt.Sprintf("digest %q compressor %d formats to %q which parses back as %s", d, c, p, back)}
		}
	case "read", "write":
		if r[0] != "ok" {
			return nil
		}
		p := mustUnhex(args[0])
		d, ok := wellFormed(mustUnhex(r[1]))
		if !ok {
			return &violation{"parser returned a degenerate digest", fmt.Sprintf("%s %q -> %q", w[0], p, mustUnhex(r[1]))}
		}
		c, _ := strconv.Atoi(r[2])
		if why := spells(p, w[0] == "write", d, c); why != "" {
			return &violation{"parser accepted a resource name that does not spell the returned digest", fmt.Sprintf("%s %q -> %q compressor %d: %s", w[0], p, mustUnhex(r[1]), c, why)}
		}
	case "rtproto":
		if mustUnhex(r[1]) != dw.hash || r[2] != strconv.FormatInt(dw.size, 10) {
			return &violation{"GetProto does not return hash and size", fmt.Sprintf("%q -> %q", line, reply)}
		}
		if strings.Join(r[4:], " ") != "ok "+r[0] || mustUnhex(r[0]) != dw.packed() {
			return &violation{"REv2 Digest message does not round-trip", fmt.Sprintf("%q -> %q", line, reply)}
		}
	case "fromproto", "fromproto-nil":
		if r[0] == "ok" {
			d, ok := wellFormed(mustUnhex(r[1]))
			if w[0] == "fromproto-nil" || !ok {
				return &violation{"NewDigestFromProto accepted a malformed message", fmt.Sprintf("%q -> %q", line, reply)}
			}
			if d.inst != mustUnhex(args[0]) || strconv.Itoa(d.enum) != args[1] || d.hash != mustUnhex(args[2]) || strconv.FormatInt(d.size, 10) != args[3] {
				return &violation{"NewDigestFromProto returned a digest that differs from the message", fmt.Sprintf("%q -> %q", line, reply)}
			}
		} else if w[0] == "fromproto" {
			z, _ := strconv.ParseInt(args[3], 10, 64)
			e, _ := strconv.Atoi(args[1])
			if validD(dwords{mustUnhex(args[0]), e, mustUnhex(args[2]), z}) {
				return &violation{"valid digest rejected by the constructors", fmt.Sprintf("%q -> %q", line, reply)}
			}
		}
	case "anc":
		var comps []string
		if dw.inst != "" {
			comps = strings.Split(dw.inst, "/")
		}
		var want []string
		for k := 0; k <= len(comps); k++ {
			want = append(want, dwords{strings.Join(comps[:k], "/"), dw.enum, dw.hash, dw.size}.packed())
		}
		if got := listOf(r); !eqList(got, want) {
			return &violation{"ancestor digests are not the chain of component prefixes", fmt.Sprintf("%q: got %q want %q", dw.packed(), got, want)}
		}
	case "key":
		want := fmt.Sprintf("%d-%s-%d", dw.enum, dw.hash, dw.size)
		if args[4] == "1" {
			want = dw.packed()
		}
		if mustUnhex(r[0]) != want {
			return &violation{"key is not function-hash-size(-instance)", fmt.Sprintf("%q -> %q", line, mustUnhex(r[0]))}
		}
	case "rtcbin":
		hb, _ := hex.DecodeString(dw.hash)
		var buf [binary.MaxVarintLen64]byte
		n := binary.PutVarint(buf[:], dw.size)
		wantB := append(append([]byte{byte(dw.enum)}, hb...), buf[:n]...)
		if r[1] != hx.Hex(wantB) {
			return &violation{"compact binary is not function byte, hash, varint size", fmt.Sprintf("%q -> %q", line, reply)}
		}
		if strings.Join(r[3:], " ") != "ok "+r[0] || mustUnhex(r[0]) != dw.packed() {
			return &violation{"compact binary does not round-trip", fmt.Sprintf("%q -> %q", line, reply)}
		}
	case "fromcbin":
		if r[0] != "ok" {
			return nil
		}
		d, ok := wellFormed(mustUnhex(r[1]))
		if !ok || d.inst != mustUnhex(args[0]) {
			return &violation{"NewDigestFromCompactBinary returned a degenerate digest", fmt.Sprintf("%q -> %q", line, reply)}
		}
		// function byte, hash bytes, then a varint denoting the size (binary.ReadVarint also
		// accepts non-minimal encodings such as 80 00; that is the library's documented behaviour)
		hb, _ := hex.DecodeString(d.hash)
		in := []byte(mustUnhex(args[1]))
		wantB := append([]byte{byte(d.enum)}, hb...)
		spelt := bytes.HasPrefix(in, wantB)
		if spelt {
			z, n := binary.Varint(in[len(wantB):])
			spelt = n > 0 && z == d.size
		}
		if !spelt {
			return &violation{"NewDigestFromCompactBinary accepted bytes that do not spell the returned digest", fmt.Sprintf("%q -> %q", line, reply)}
		}
	case "build":
		if want := sortedUnique(listOf(args)); !eqList(listOf(r), want) {
			return &violation{"built set is not the sorted duplicate-free list of the added digests", fmt.Sprintf("%q -> %q", line, reply)}
		}
	case "union":
		var all []string
		for _, s := range splitBars(args) {
			all = append(all, listOf(s)...)
		}
		if want := sortedUnique(all); !eqList(listOf(r), want) {
			return &violation{"union is not the sorted duplicate-free union", fmt.Sprintf("%q -> %q", line, reply)}
		}
	case "dai":
		in := splitBars(args)
		out := splitBars(r)
		if len(in) != 2 || len(out) != 3 {
			return &violation{"difference/intersection: malformed result", reply}
		}
		a, b := listOf(in[0]), listOf(in[1])
		inB := map[string]bool{}
		for _, x := range b {
			inB[x] = true
		}
		inA := map[string]bool{}
		for _, x := range a {
			inA[x] = true
		}
		var onlyA, both, onlyB []string
		for _, x := range a {
			if inB[x] {
				both = append(both, x)
			} else {
				onlyA = append(onlyA, x)
			}
		}
		for _, x := range b {
			if !inA[x] {
				onlyB = append(onlyB, x)
			}
		}
		if !eqList(listOf(out[0]), onlyA) || !eqList(listOf(out[1]), both) || !eqList(listOf(out[2]), onlyB) {
			return &violation{"difference/intersection are not the mathematical sets in sorted order", fmt.Sprintf("%q -> %q", line, reply)}
		}
	case "rmempty":
		var want []string
		for _, x := range listOf(args) {
			if d, ok := wellFormed(x); ok && d.size != 0 {
				want = append(want, x)
			}
		}
		if !eqList(listOf(r), want) {
			return &violation{"RemoveEmptyBlob is not the subset of non-empty blobs in sorted order", fmt.Sprintf("%q -> %q", line, reply)}
		}
	case "gdf", "mkf":
		// independent of the model: which (enum, hash length) pairs name a digest function
		if !validInstance(mustUnhex(args[0])) {
			if r[0] == "ok" {
				return &violation{"malformed digest accepted by the constructors", fmt.Sprintf("%q -> %q", line, reply)}
			}
			return nil
		}
		e, _ := strconv.ParseInt(args[1], 10, 32)
		length := 0
		if w[0] == "gdf" {
			length, _ = strconv.Atoi(args[2])
		} else {
			length = len(mustUnhex(args[2]))
		}
		want := -1 // the function that must be selected; -1: must be rejected
		if _, ok := fnInfo[int(e)]; ok && e > 0 {
			want = int(e)
		} else if e == 0 {
			for _, f := range []int{3, 2, 1, 5, 6} { // the REv2 compatibility rule: MD5, SHA1, SHA256, SHA384, SHA512 by length
				if fnInfo[f].hashLen == length {
					want = f
				}
			}
		}
		if w[0] == "gdf" {
			if r[0] == "ok" && want < 0 {
				return &violation{"an unsupported digest function value was accepted", fmt.Sprintf("GetDigestFunction(%d, %d) -> function %s", e, length, r[1])}
			}
			if r[0] == "ok" && r[1] != strconv.Itoa(want) {
				return &violation{"GetDigestFunction returned a different digest function than requested", fmt.Sprintf("GetDigestFunction(%d, %d) -> function %s, want %d", e, length, r[1], want)}
			}
			if r[0] != "ok" && want >= 0 {
				return &violation{"a supported digest function value was rejected", fmt.Sprintf("GetDigestFunction(%d, %d) -> %q", e, length, reply)}
			}
			return nil
		}
		z, _ := strconv.ParseInt(args[3], 10, 64)
		if r[0] == "ok" {
			if want < 0 {
				return &violation{"an unsupported digest function value was accepted", fmt.Sprintf("GetDigestFunction(%d, len(hash)=%d).NewDigestFromProto -> %q", e, length, mustUnhex(r[1]))}
			}
			d, ok := wellFormed(mustUnhex(r[1]))
			if !ok || d.enum != want || d.hash != mustUnhex(args[2]) || d.size != z || d.inst != mustUnhex(args[0]) {
				return &violation{"NewDigestFromProto returned a digest that differs from the message", fmt.Sprintf("%q -> %q", line, mustUnhex(r[1]))}
			}
		} else if want >= 0 && validD(dwords{mustUnhex(args[0]), want, mustUnhex(args[2]), z}) {
			return &violation{"valid digest rejected by the constructors", fmt.Sprintf("%q -> %q", line, reply)}
		}
	case "combine":
		a, _ := strconv.Atoi(args[0])
		b, _ := strconv.Atoi(args[1])
		with, without := int(digest.KeyWithInstance), int(digest.KeyWithoutInstance)
		if (a != with && a != without) || (b != with && b != without) {
			return nil
		}
		want := without
		if a == with || b == with {
			want = with
		}
		if reply != strconv.Itoa(want) {
			name := map[int]string{with: "KeyWithInstance", without: "KeyWithoutInstance"}
			return &violation{"Combine does not return the format with the most information",
				fmt.Sprintf("%s.Combine(%s) = %s, want %s", name[a], name[b], reply, name[want])}
		}
	case "sx":
		want, ok := refSetProgram(args)
		if !ok {
			return nil
		}
		got := splitBars(r)
		if len(got) != len(want) {
			return &violation{"set operations on derived sets: wrong number of results", fmt.Sprintf("%q -> %q (want %d sets)", line, reply, len(want))}
		}
		for i := range want {
			if !eqList(listOf(got[i]), want[i]) {
				return &violation{"set operations on derived sets (sub-slices, aliases, earlier results) do not compute the mathematical sets",
					fmt.Sprintf("%q: register %d is %q, want %q", line, i, listOf(got[i]), want[i])}
			}
		}
	case "part":
		var order []string
		groups := map[string][]string{}
		for _, x := range listOf(args) {
			d, _ := wellFormed(x)
			if _, ok := groups[d.inst]; !ok {
				order = append(order, d.inst)
			}
			groups[d.inst] = append(groups[d.inst], x)
		}
		out := splitBars(r)
		if len(order) == 0 {
			if reply != "empty" {
				return &violation{"partition of the empty set is not empty", reply}
			}
			return nil
		}
		if len(out) != len(order) {
			return &violation{"partition by instance name has the wrong number of classes", fmt.Sprintf("%q -> %q", line, reply)}
		}
		for i, in := range order {
			if !eqList(listOf(out[i]), groups[in]) {
				return &violation{"partition by instance name: class is not the sorted subset of that instance name", fmt.Sprintf("%q -> %q (class %d, instance %q)", line, reply, i, in)}
			}
		}
	}
	return nil
}

// oracleCase adds the statement that relates several lines: keys are equal
// exactly when function, hash, size and (with instance) instance name agree.
func oracleCase(lines, replies []string) *violation {
	type k struct {
		d    dwords
		with string
		key  string
	}
	var ks []k
	for i, l := range lines {
		w := strings.Fields(l)
		if len(w) == 6 && w[0] == "key" && i < len(replies) {
			r := strings.Fields(replies[i])
			if len(r) != 1 || r[0] == "panic" || r[0] == "bad-op" {
				continue
			}
			if d, ok := parseD(w[1:]); ok {
				ks = append(ks, k{d, w[5], r[0]})
			}
		}
	}
	for i := range ks {
		for j := i + 1; j < len(ks); j++ {
			a, b := ks[i], ks[j]
			if a.with != b.with {
				continue
			}
			same := a.d.enum == b.d.enum && a.d.hash == b.d.hash && a.d.size == b.d.size
			if a.with == "1" {
				same = same && a.d.inst == b.d.inst
			}
			if same != (a.key == b.key) {
				return &violation{"key equality does not coincide with equality of function, hash, size and instance name",
					fmt.Sprintf("%+v / %+v (withInstance=%s): keys %q / %q", a.d, b.d, a.with, mustUnhex(a.key), mustUnhex(b.key))}
			}
		}
	}
	return nil
}

// ---------------------------------------------------------------- running a case

type outcome struct {
	impl, model []string
	viol        []*violation // oracle
	violLine    []int
	agree       bool
	disagreeAt  int
}

func runCase(model *hx.Model, script []string) outcome {
	var o outcome
	o.agree = true
	var lines []string
	for _, l := range script {
		if strings.HasPrefix(l, "#") || strings.TrimSpace(l) == "" {
			continue
		}
		lines = append(lines, l)
	}
	for i, l := range lines {
		var pm string
		r := exec(l, &pm)
		o.impl = append(o.impl, r)
		if v := oracleLine(l, r, pm); v != nil {
			o.viol = append(o.viol, v)
			o.violLine = append(o.violLine, i)
		}
	}
	if v := oracleCase(lines, o.impl); v != nil {
		o.viol = append(o.viol, v)
		o.violLine = append(o.violLine, -1)
	}
	if model != nil {
		o.model = model.Batch(lines)
		for i := range lines {
			if i >= len(o.model) || o.model[i] != o.impl[i] {
				o.agree = false
				o.disagreeAt = i
				break
			}
		}
	}
	return o
}

// ---------------------------------------------------------------- generators

const hexdigits = "0123456789abcdef"

func genHash(r *hx.Rand, n int) string {
	b := make([]byte, n)
	switch r.Intn(10) {
	case 0:
		for i := range b {
			b[i] = '0'
		}
	case 1:
		for i := range b {
			b[i] = 'f'
		}
	case 2: // few distinct hashes, so that sets and keys collide
		c := hexdigits[r.Intn(3)]
		for i := range b {
			b[i] = c
		}
	default:
		for i := range b {
			b[i] = hexdigits[r.Intn(16)]
		}
	}
	return string(b)
}

var sizePool = []int64{0, 0, 1, 5, 9, 10, 99, 100, 127, 128, 255, 256, 16383, 16384, 1<<31 - 1, 1 << 31, 1 << 32, 1<<56 - 1, 1 << 56, 1<<62 + 12345, 1<<63 - 2, 1<<63 - 1}

func genSize(r *hx.Rand) int64 {
	if r.Chance(2, 3) {
		return sizePool[r.Intn(len(sizePool))]
	}
	return int64(r.Uint64() >> uint(1+r.Intn(63)))
}

var plainComps = []string{"a", "b", "ab", "hello", "world", "x-y", "-", "0", "12", "1-2-3", "blob", "Blobs", "uploads2", "a.b", ".a", "a.", "...", "..a", "action", "é", "A", "_", "sha256", "blake3", "zstd", "3", "8-aa", "\x01", "\xff\xfe", " ", "a b", "%2F", "~"}
var dotComps = []string{".", ".."}
var reservedList = []string{"blobs", "uploads", "actions", "actionResults", "operations", "capabilities", "compressed-blobs"}

// genInstance returns a valid instance name; with probability dotNum/dotDen it contains a "." or ".." component.
func genInstance(r *hx.Rand, dotNum, dotDen int) string {
	n := r.PickInt(0, 0, 1, 1, 1, 2, 2, 3, 4, 6)
	comps := make([]string, n)
	for i := range comps {
		comps[i] = plainComps[r.Intn(len(plainComps))]
	}
	if r.Chance(dotNum, dotDen) {
		k := r.Range(1, 2)
		for j := 0; j < k; j++ {
			pos := r.Intn(len(comps) + 1)
			comps = append(comps[:pos], append([]string{dotComps[r.Intn(2)]}, comps[pos:]...)...)
		}
	}
	return strings.Join(comps, "/")
}

func genD(r *hx.Rand, dotNum, dotDen int) dwords {
	e := allFns[r.Intn(len(allFns))]
	return dwords{genInstance(r, dotNum, dotDen), e, genHash(r, fnInfo[e].hashLen), genSize(r)}
}

func (d dwords) words() string {
	return fmt.Sprintf("%s %d %s %d", hs(d.inst), d.enum, hs(d.hash), d.size)
}

func genUUID(r *hx.Rand) string {
	var u uuid.UUID
	copy(u[:], r.Bytes(16))
	if r.Chance(1, 10) {
		u = uuid.UUID{}
	}
	return u.String()
}

// sameLengthFn returns another function with the same hash length (for key collisions across functions).
func sameLengthFn(r *hx.Rand, e int) int {
	var c []int
	for _, f := range allFns {
		if fnInfo[f].hashLen == fnInfo[e].hashLen {
			c = append(c, f)
		}
	}
	return c[r.Intn(len(c))]
}

func genValidCase(r *hx.Rand) []string {
	d := genD(r, 1, 5)
	var s []string
	dw := d.words()
	s = append(s, "mk "+dw, "acc "+dw)
	comp := func() int {
		if r.Chance(1, 25) {
			return r.PickInt(4, 5, 7, 100)
		}
		return r.Intn(4)
	}
	s = append(s, fmt.Sprintf("rtread %s %d", dw, comp()))
	if r.Chance(1, 2) {
		s = append(s, fmt.Sprintf("rtread %s %d", dw, comp()))
	}
	s = append(s, fmt.Sprintf("rtwrite %s %s %d", dw, hs(genUUID(r)), comp()))
	s = append(s, "rtproto "+dw, "rtcbin "+dw, "anc "+dw, "key "+dw+" 0", "key "+dw+" 1")
	s = append(s, fmt.Sprintf("mkf %s %d %s %d", hs(d.inst), r.PickInt(d.enum, d.enum, 0), hs(d.hash), d.size))
	// variants that share some but not all of function, hash, size, instance name
	for i, n := 0, r.Range(1, 3); i < n; i++ {
		v := d
		switch r.Intn(5) {
		case 0:
			v.inst = genInstance(r, 1, 8)
		case 1:
			v.size = genSize(r)
		case 2:
			v.enum = sameLengthFn(r, d.enum)
		case 3:
			v.hash = genHash(r, len(d.hash))
		case 4: // instance name that extends / truncates
			if v.inst == "" {
				v.inst = "a"
			} else if r.Chance(1, 2) {
				v.inst += "/a"
			} else if i := strings.LastIndex(v.inst, "/"); i >= 0 {
				v.inst = v.inst[:i]
			} else {
				v.inst = ""
			}
		}
		vw := v.words()
		s = append(s, "key "+vw+" 0", "key "+vw+" 1")
		if r.Chance(1, 3) {
			s = append(s, fmt.Sprintf("rtread %s %d", vw, r.Intn(4)), "anc "+vw)
		}
	}
	return s
}

var junkBytes = []byte{'/', '/', '.', '-', '+', '0', '9', 'a', 'f', 'g', 'A', 'F', ' ', 0, 0xff, 0x80, '_', '\t', 'x'}

func mutate(r *hx.Rand, s string) string {
	b := []byte(s)
	for k, n := 0, r.PickInt(1, 1, 1, 2, 3); k < n; k++ {
		switch r.Intn(10) {
		case 9: // keep only the first k fields
			f := strings.Split(string(b), "/")
			b = []byte(strings.Join(f[:r.Intn(len(f)+1)], "/"))
		case 0: // delete a byte
			if len(b) > 0 {
				i := r.Intn(len(b))
				b = append(b[:i], b[i+1:]...)
			}
		case 1: // insert a byte
			i := r.Intn(len(b) + 1)
			c := junkBytes[r.Intn(len(junkBytes))]
			if r.Chance(1, 4) {
				c = byte(r.Uint64())
			}
			b = append(b[:i], append([]byte{c}, b[i:]...)...)
		case 2: // replace a byte
			if len(b) > 0 {
				i := r.Intn(len(b))
				b[i] = junkBytes[r.Intn(len(junkBytes))]
				if r.Chance(1, 4) {
					b[i] = byte(r.Uint64())
				}
			}
		case 3: // truncate
			if len(b) > 0 {
				b = b[:r.Intn(len(b))]
			}
		case 4: // upper-case one letter
			for t := 0; t < 8 && len(b) > 0; t++ {
				i := r.Intn(len(b))
				if b[i] >= 'a' && b[i] <= 'z' {
					b[i] -= 32
					break
				}
			}
		case 5: // field-level: drop, duplicate, swap or replace a field
			f := strings.Split(string(b), "/")
			i := r.Intn(len(f))
			switch r.Intn(5) {
			case 0:
				f = append(f[:i], f[i+1:]...)
			case 1:
				f = append(f[:i], append([]string{f[i]}, f[i:]...)...)
			case 2:
				j := r.Intn(len(f))
				f[i], f[j] = f[j], f[i]
			case 3:
				f[i] = reservedList[r.Intn(len(reservedList))]
			case 4:
				f[i] = []string{"", ".", "..", "-1", "+7", "007", "1e3", "0x10", " 5", "5 ", "9223372036854775807", "9223372036854775808", "-9223372036854775808", "-9223372036854775809", "18446744073709551616", "99999999999999999999999", "gzip", "ZSTD", "identity", "zstd", "sha3", "SHA256", "md5", "sha256", "blake3", "gitsha1", "sha256tree", "vso", "murmur3", "-", "+", "−1"}[r.Intn(32)]
			}
			b = []byte(strings.Join(f, "/"))
		case 6: // lengthen or shorten the longest hex run (the hash)
			f := strings.Split(string(b), "/")
			best := -1
			for i, x := range f {
				if len(x) >= 32 && lowerHex(x) && (best < 0 || len(x) > len(f[best])) {
					best = i
				}
			}
			if best >= 0 {
				switch r.Intn(4) {
				case 0:
					f[best] = f[best][1:]
				case 1:
					f[best] += string(hexdigits[r.Intn(16)])
				case 2:
					f[best] = genHash(r, []int{30, 32, 40, 64, 96, 128, 130, 56}[r.Intn(8)])
				case 3:
					f[best] = f[best][:len(f[best])-2] + "zz"
				}
				b = []byte(strings.Join(f, "/"))
			}
		case 7: // extra slashes
			i := r.Intn(len(b) + 1)
			b = append(b[:i], append([]byte("//"), b[i:]...)...)
		case 8: // trailing garbage field(s)
			b = append(b, []byte("/"+plainComps[r.Intn(len(plainComps))])...)
		}
	}
	return string(b)
}

func validResourceName(r *hx.Rand) (string, bool) {
	d := genD(r, 0, 1)
	dg, err := d.build()
	if err != nil {
		panic("harness: generated an invalid digest: " + err.Error())
	}
	c := remoteexecution.Compressor_Value(r.Intn(4))
	if r.Chance(1, 2) {
		return dg.GetByteStreamReadPath(c), false
	}
	u, _ := uuid.Parse(genUUID(r))
	p := dg.GetByteStreamWritePath(u, c)
	if r.Chance(1, 3) {
		p += "/" + plainComps[r.Intn(len(plainComps))]
	}
	return p, true
}

func genMalformedCase(r *hx.Rand) []string {
	var s []string
	for i, n := 0, r.Range(2, 3); i < n; i++ {
		var p string
		switch x := r.Intn(10); {
		case x < 7:
			base, _ := validResourceName(r)
			p = mutate(r, base)
		case x < 8: // arbitrary bytes
			p = string(r.Bytes(r.Intn(48)))
		case x < 9: // arbitrary text over the alphabet of resource names
			var parts []string
			for j, m := 0, r.Intn(8); j < m; j++ {
				parts = append(parts, append(append([]string{"", ".", "..", "5", "-5", genHash(r, 32), genHash(r, 64), genHash(r, 40), "zstd", "blake3", "sha256tree", "gitsha1", "3e2b5b4e-0e39-4ec2-a9a8-7e1f1a0c6d1b"}, reservedList...), plainComps...)[r.Intn(13+len(reservedList)+len(plainComps))])
			}
			p = strings.Join(parts, "/")
		default: // unmutated (valid) name through the *other* parser as well
			p, _ = validResourceName(r)
		}
		s = append(s, "read "+hs(p), "write "+hs(p))
	}
	// malformed constructor arguments
	d := genD(r, 0, 1)
	switch r.Intn(8) {
	case 0:
		d.hash = d.hash[1:]
	case 1:
		d.hash += "0"
	case 2:
		i := r.Intn(len(d.hash))
		d.hash = d.hash[:i] + string([]byte{"gGAF -\x00\xffz/"[r.Intn(10)]}) + d.hash[i+1:]
	case 3:
		d.size = -1 - int64(r.Uint64()>>uint(1+r.Intn(63)))
	case 4:
		d.enum = r.PickInt(0, 4, 7, 11, 12, 99, 255, 256, 1000)
	case 5:
		d.inst = mutate(r, strings.Join([]string{"a", reservedList[r.Intn(len(reservedList))], "b"}[r.Intn(2):r.Range(2, 3)], "/"))
	case 6:
		d.inst = []string{"/", "/a", "a/", "a//b", "//", "a/b/", "/a/b", "a///b"}[r.Intn(8)]
	case 7:
		d.hash = genHash(r, []int{0, 31, 32, 40, 64, 96, 128, 129}[r.Intn(8)])
	}
	s = append(s, "mk "+d.words())
	if r.Chance(1, 2) {
		s = append(s, "fromproto "+d.words())
	}
	// any int32 as digest function, with the hash length as fallback
	{
		e := r.PickInt(-1, 0, 0, 4, 7, 11, 12, 255, d.enum, d.enum, int(int32(r.Uint64())))
		s = append(s, fmt.Sprintf("mkf %s %d %s %d", hs(d.inst), e, hs(d.hash), d.size),
			fmt.Sprintf("gdf %s %d %d", hs(d.inst), e, r.PickInt(0, 32, 40, 64, 96, 128, len(d.hash), r.Intn(200))))
	}
	if r.Chance(1, 6) {
		s = append(s, fmt.Sprintf("fromproto-nil %s %d", hs(d.inst), d.enum))
	}
	// instance names
	in := genInstance(r, 1, 6)
	if r.Chance(2, 3) {
		in = mutate(r, in+"/"+reservedList[r.Intn(len(reservedList))])
	}
	s = append(s, "inst "+hs(in), "comps "+hs(in))
	if r.Chance(1, 3) {
		var cs []string
		for _, c := range strings.Split(in, "/") {
			if c != "" || r.Chance(1, 4) {
				cs = append(cs, hs(c))
			}
		}
		s = append(s, strings.TrimSpace("instc "+strings.Join(cs, " ")))
	}
	// compact binary
	good, err := genD(r, 0, 1).build()
	if err != nil {
		panic(err)
	}
	b := good.GetCompactBinary()
	switch r.Intn(7) {
	case 0:
		b = b[:r.Intn(len(b))]
	case 1:
		b[0] = byte(r.PickInt(0, 4, 7, 11, 200, 255))
	case 2:
		b = []byte(mutate(r, string(b)))
	case 3: // varint edge cases after a valid function byte and hash
		hl := fnInfo[int(b[0])].hashLen / 2
		tail := [][]byte{
			{0xff, 0xff, 0xff, 0xff, 0xff, 0xff, 0xff, 0xff, 0xff, 0x01},
			{0xff, 0xff, 0xff, 0xff, 0xff, 0xff, 0xff, 0xff, 0xff, 0x02},
			{0xff, 0xff, 0xff, 0xff, 0xff, 0xff, 0xff, 0xff, 0xff, 0xff, 0x01},
			{0xfe, 0xff, 0xff, 0xff, 0xff, 0xff, 0xff, 0xff, 0xff, 0x01},
			{0x80}, {0x80, 0x80}, {0x01}, {0x03}, {0x80, 0x00}, {0x00, 0x00}, {},
		}[r.Intn(11)]
		b = append(append([]byte{}, b[:1+hl]...), tail...)
	case 4:
		b = r.Bytes(r.Intn(70))
	case 5:
		b = append(b, r.Bytes(r.Range(1, 3))...)
	}
	s = append(s, fmt.Sprintf("fromcbin %s %s", hs(genInstance(r, 0, 1)), hx.Hex(b)))
	return s
}

func genSetCase(r *hx.Rand) []string {
	// a small universe so that sets overlap
	nU := r.Range(1, 14)
	var uni []string
	insts := []string{"", "a", "a/b", "b", "a-b", "a/b/c", "0"}
	hashes := map[int][]string{}
	// in half of the families the hash decides the instance name: digests of one instance name are
	// then contiguous in set order and partitions stay sub-slices of the partitioned set
	contiguous := r.Chance(1, 2)
	for i := 0; i < nU; i++ {
		e := allFns[r.Intn(len(allFns))]
		if r.Chance(1, 2) {
			e = r.PickInt(1, 8, 9)
		}
		hl := fnInfo[e].hashLen
		if len(hashes[hl]) == 0 || r.Chance(1, 3) {
			hashes[hl] = append(hashes[hl], genHash(r, hl))
		}
		hi := r.Intn(len(hashes[hl]))
		h := hashes[hl][hi]
		in := insts[r.Intn(r.Range(1, len(insts)))]
		if contiguous {
			in = insts[(hi+hl)%len(insts)]
		}
		uni = append(uni, dwords{in, e, h, int64(r.PickInt(0, 0, 1, 5, 10, 123))}.packed())
	}
	pick := func() []string {
		var l []string
		for i, n := 0, r.PickInt(0, 1, 2, 3, 5, 8, 12); i < n; i++ {
			l = append(l, uni[r.Intn(len(uni))])
		}
		return l
	}
	hexl := func(l []string) string {
		w := make([]string, len(l))
		for i, x := range l {
			w[i] = hs(x)
		}
		return strings.Join(w, " ")
	}
	k := r.PickInt(0, 1, 2, 2, 3, 3, 4, 6)
	var s []string
	var sets [][]string
	for i := 0; i < k; i++ {
		l := pick()
		s = append(s, strings.TrimSpace("build "+hexl(l)))
		sets = append(sets, sortedUnique(l))
	}
	var ws []string
	for _, set := range sets {
		ws = append(ws, hexl(set))
	}
	s = append(s, strings.Join(strings.Fields("union "+strings.Join(ws, " | ")), " "))
	if k >= 2 {
		i, j := r.Intn(k), r.Intn(k)
		s = append(s, strings.Join(strings.Fields("dai "+ws[i]+" | "+ws[j]), " "))
	}
	for _, w := range ws {
		if r.Chance(2, 3) {
			s = append(s, strings.TrimSpace("rmempty "+w), strings.TrimSpace("part "+w))
		}
	}
	if k == 0 {
		s = append(s, "rmempty", "part", "build", "dai |")
	}
	// programs over derived sets: the arguments of later operations are what the real code returned
	// earlier (partitions are sub-slices of their argument, RemoveEmptyBlob / GetUnion may return
	// their argument, ...), never rebuilt copies
	for n, m := 0, r.Range(1, 3); n < m; n++ {
		s = append(s, genSetProgram(r, ws))
	}
	return s
}

func genSetProgram(r *hx.Rand, baseWords []string) string {
	base := strings.Join(baseWords, " | ")
	if len(baseWords) == 0 {
		base = ""
	}
	var prog []string
	line := func() []string {
		return strings.Fields("sx " + base + " :: " + strings.Join(prog, " ; "))
	}
	nregs := func() int {
		regs, ok := refSetProgram(line()[1:])
		if !ok {
			panic("harness: generated a malformed set program")
		}
		return len(regs)
	}
	for i, n := 0, r.Range(2, 7); i < n; i++ {
		before := nregs()
		src := r.Intn(before)
		if r.Chance(1, 2) && before > 0 {
			src = r.Intn(min(before, max(1, len(baseWords)))) // prefer a base set
		}
		switch r.Intn(8) {
		case 0, 1, 2: // derive, then combine the original with what was derived from it
			kind := []string{"part", "rme", "same"}[r.Intn(3)]
			prog = append(prog, fmt.Sprintf("%s %d", kind, src))
			after := nregs()
			for j := before; j < after; j++ {
				switch r.Intn(4) {
				case 0:
					prog = append(prog, fmt.Sprintf("dai %d %d", src, j))
				case 1:
					prog = append(prog, fmt.Sprintf("dai %d %d", j, src))
				case 2:
					prog = append(prog, fmt.Sprintf("uni %d %d", src, j))
				}
			}
			if after-before >= 2 && r.Chance(1, 2) {
				prog = append(prog, fmt.Sprintf("dai %d %d", before, before+1), fmt.Sprintf("uni %d %d %d", before+1, before, src))
			}
		case 3:
			prog = append(prog, fmt.Sprintf("dai %d %d", src, r.Intn(before)))
		case 4:
			prog = append(prog, fmt.Sprintf("dai %d %d", src, src))
		case 5:
			var is []string
			for j, m := 0, r.Intn(4); j < m; j++ {
				is = append(is, strconv.Itoa(r.Intn(before)))
			}
			prog = append(prog, strings.TrimSpace("uni "+strings.Join(is, " ")))
		case 6:
			prog = append(prog, fmt.Sprintf("part %d", src))
		case 7:
			prog = append(prog, fmt.Sprintf("rme %d", src))
		}
	}
	return strings.Join(line(), " ")
}

func genPathJoinCase(r *hx.Rand) []string {
	var s []string
	alpha := []string{"", "a", "b", ".", "..", "/", "a/b", "a//b", "/a", "a/", "./a", "../a", "a/..", "a/./b", "a/../..", "...", "..a", "/..", "//"}
	for i := 0; i < 4; i++ {
		var es []string
		for j, n := 0, r.Intn(6); j < n; j++ {
			es = append(es, hs(alpha[r.Intn(len(alpha))]))
		}
		s = append(s, strings.TrimSpace("pjoin "+strings.Join(es, " ")))
	}
	return s
}

// ---------------------------------------------------------------- the test

func TestC20(t *testing.T) {
	run := hx.NewRun("C20")
	defer run.Finish(t)
	model, err := hx.StartModel()
	if err != nil {
		t.Fatalf("start model: %v", err)
	}
	defer model.Close()
	run.HasModel = model != nil
	run.SetRule("valid stream: digests over all eight functions, boundary sizes, instance names of 0..6 components (1 in 5 with a '.'/'..' component), " +
		"compressors 0..3 (+ unsupported), each taken through constructor, accessors, ByteStream read/write path, REv2 message, compact binary, keys, ancestors, plus variants sharing part of the tuple; " +
		"malformed stream (differential fuzzing under recover, the model predicting the error class): byte- and field-level mutations of valid resource names, arbitrary bytes, " +
		"bad constructor arguments, bad instance names, truncated/overflowing compact binary; set families over small overlapping universes with duplicates and mixed instance names, "+
		"plus programs of set operations whose arguments are sets derived by the real code (partitions = sub-slices, a set and itself, RemoveEmptyBlob/GetUnion results, earlier differences); " +
		"GetDigestFunction / NewDigestFromProto over every digest function value of interest (negative, UNKNOWN, supported, gaps, past the end) x every fallback hash length of interest; KeyFormat.Combine on all four pairs; "+
		"path.Join differential; exhaustive small scopes of instance names. A case is non-trivial when the real code executed >= 2 lines and at least one was accepted and one rejected or it has >= 5 lines; distinct by script hash")

	otherFindings := 0
	dotFindings := 0
	report := func(name string, script []string, o outcome) {
		// oracle findings, each shrunk to the lines needed
		seen := map[string]bool{}
		for _, v := range o.viol {
			if seen[v.what] {
				continue
			}
			seen[v.what] = true
			if v.what == dotDefect {
				dotFindings++
				if dotFindings > 3 {
					continue
				}
			} else {
				otherFindings++
			}
			small := hx.Shrink(script, 0, func(s []string) bool {
				for _, v2 := range runCase(nil, s).viol {
					if v2.what == v.what {
						return true
					}
				}
				return false
			})
			o2 := runCase(model, small)
			detail := v.detail
			for _, v2 := range o2.viol {
				if v2.what == v.what {
					detail = v2.detail
				}
			}
			run.Report(hx.Finding{Kind: "oracle", What: v.what, Detail: detail, Case: name, Script: small, Impl: o2.impl, Model: o2.model})
		}
		if !o.agree {
			otherFindings++
			small := hx.Shrink(script, 0, func(s []string) bool { return !runCase(model, s).agree })
			o2 := runCase(model, small)
			d := "?"
			if !o2.agree && o2.disagreeAt < len(o2.impl) && o2.disagreeAt < len(o2.model) {
				d = fmt.Sprintf("%q: impl=%q model=%q", small[o2.disagreeAt], o2.impl[o2.disagreeAt], o2.model[o2.disagreeAt])
			}
			run.Report(hx.Finding{Kind: "disagreement", What: "model/implementation differ", Detail: d, Case: name, Script: small, Impl: o2.impl, Model: o2.model})
		}
	}
	handle := func(name, stream string, script []string) {
		o := runCase(model, script)
		acc, rej := 0, 0
		for i, r := range o.impl {
			op := strings.Fields(script[i])[0]
			run.Count("op:" + op)
			f := strings.Fields(r)
			cls := "value"
			switch {
			case len(f) == 0:
			case f[0] == "err" && len(f) >= 3:
				cls = "err:" + f[2]
				rej++
			case f[0] == "panic", f[0] == "bad-op":
				cls = f[0]
			default:
				acc++
				if strings.Contains(r, "=> err") {
					cls = "roundtrip-lost"
				}
			}
			run.Count("reply:" + cls)
		}
		run.Count("stream:" + stream)
		run.Compared(len(o.model))
		run.Case(script, (acc > 0 && rej > 0) || len(script) >= 5, model != nil)
		if len(o.viol) > 0 || !o.agree {
			report(name, script, o)
		}
	}

	if name, script := run.ReplayScript(); script != nil {
		o := runCase(model, script)
		j := 0
		for i, l := range script {
			if strings.HasPrefix(l, "#") || strings.TrimSpace(l) == "" {
				continue
			}
			m := "-"
			if j < len(o.model) {
				m = o.model[j]
			}
			t.Logf("line %d: %s\n   impl:  %s\n   model: %s", i, l, o.impl[j], m)
			j++
		}
		for _, v := range o.viol {
			t.Logf("oracle: %s: %s", v.what, v.detail)
			run.Report(hx.Finding{Kind: "oracle", What: v.what, Detail: v.detail, Case: name, Script: script, Impl: o.impl, Model: o.model})
		}
		if !o.agree {
			run.Report(hx.Finding{Kind: "disagreement", What: "model/implementation differ", Detail: fmt.Sprintf("line %d", o.disagreeAt), Case: name, Script: script, Impl: o.impl, Model: o.model})
		}
		t.Logf("replay %s: %d oracle violation(s), agree=%v", name, len(o.viol), o.agree)
		return
	}
	for name, script := range run.CorpusScripts() {
		handle("corpus/"+name, "corpus", script)
	}

	const maxOther = 20
	// exhaustive small scopes (cheap, both tiers)
	exhaustive(run, handle)

	nValid := run.Scale(2600, 52000)
	nMal := run.Scale(2000, 40000)
	nSets := run.Scale(500, 10000)
	nJoin := run.Scale(300, 5000)
	for i := 0; i < nValid && otherFindings < maxOther; i++ {
		r := hx.NewRand(run.Seed, "C20/valid", i)
		handle(fmt.Sprintf("seed%d/valid%d", run.Seed, i), "valid", genValidCase(r))
	}
	for i := 0; i < nMal && otherFindings < maxOther; i++ {
		r := hx.NewRand(run.Seed, "C20/malformed", i)
		handle(fmt.Sprintf("seed%d/malformed%d", run.Seed, i), "malformed", genMalformedCase(r))
	}
	for i := 0; i < nSets && otherFindings < maxOther; i++ {
		r := hx.NewRand(run.Seed, "C20/sets", i)
		handle(fmt.Sprintf("seed%d/sets%d", run.Seed, i), "sets", genSetCase(r))
	}
	for i := 0; i < nJoin && otherFindings < maxOther; i++ {
		r := hx.NewRand(run.Seed, "C20/pathjoin", i)
		handle(fmt.Sprintf("seed%d/pathjoin%d", run.Seed, i), "pathjoin", genPathJoinCase(r))
	}
	run.Extra("dot_component_roundtrip_failures", dotFindings)
}

// exhaustive: every instance name of <= 3 components over a pool with dot
// components and reserved keywords, through constructor, both resource names
// and ancestors; every string of length <= 6 over {a, /, .} through
// NewInstanceName / GetComponents.
func exhaustive(run *hx.Run, handle func(name, stream string, script []string)) {
	pool := []string{"a", "b", ".", "..", "blobs", "uploads", "compressed-blobs", "operations", "x.y"}
	hash := strings.Repeat("0123456789abcdef", 4)
	count := 0
	var rec func(comps []string, depth int)
	rec = func(comps []string, depth int) {
		in := strings.Join(comps, "/")
		for _, e := range []int{1, 9} {
			dw := dwords{in, e, hash, 42}.words()
			handle(fmt.Sprintf("exh/inst/%d", count), "exhaustive",
				[]string{"mk " + dw, fmt.Sprintf("rtread %s %d", dw, count%4), fmt.Sprintf("rtwrite %s %s %d", dw, hs("da2f1135-326b-4956-b920-1646cdd6cb53"), (count+1)%4), "anc " + dw,
					"read " + hs(in+"/blobs/"+hash+"/42"), "write " + hs(in+"/uploads/x/blobs/blake3/"+hash+"/42"),
					strings.TrimSpace("instc " + strings.Join(func() []string {
						var w []string
						for _, c := range comps {
							w = append(w, hs(c))
						}
						return w
					}(), " "))})
			count++
		}
	}
	// shortest names first, so that the first reported failing input is a minimal one
	level := [][]string{nil}
	for depth := 0; depth <= 3; depth++ {
		var next [][]string
		for _, comps := range level {
			rec(comps, 0)
			for _, c := range pool {
				next = append(next, append(append([]string{}, comps...), c))
			}
		}
		level = next
	}
	// every field-prefix and every single-field deletion of valid resource names, through both parsers
	for _, in := range []string{"", "a", "a/b", "a/b/c"} {
		for _, e := range []int{3, 9} {
			for c := 0; c < 2; c++ {
				h := hash[:fnInfo[e].hashLen]
				d, err := dwords{in, e, h, 7}.build()
				if err != nil {
					panic(err)
				}
				u, _ := uuid.Parse("da2f1135-326b-4956-b920-1646cdd6cb53")
				for _, p := range []string{d.GetByteStreamReadPath(remoteexecution.Compressor_Value(c)),
					d.GetByteStreamWritePath(u, remoteexecution.Compressor_Value(c)) + "/file"} {
					f := strings.Split(p, "/")
					var script []string
					for k := 0; k <= len(f); k++ {
						q := strings.Join(f[:k], "/")
						script = append(script, "read "+hs(q), "write "+hs(q))
					}
					for k := 0; k < len(f); k++ {
						q := strings.Join(append(append([]string{}, f[:k]...), f[k+1:]...), "/")
						script = append(script, "read "+hs(q), "write "+hs(q))
					}
					handle(fmt.Sprintf("exh/trunc/%d", count), "exhaustive", script)
					count++
				}
			}
		}
	}
	// KeyFormat.Combine: all four pairs
	{
		fs := []int{int(digest.KeyWithoutInstance), int(digest.KeyWithInstance)}
		var script []string
		for _, a := range fs {
			for _, b := range fs {
				script = append(script, fmt.Sprintf("combine %d %d", a, b))
			}
		}
		handle(fmt.Sprintf("exh/combine/%d", count), "exhaustive", script)
		count++
	}
	// GetDigestFunction(enum, fallbackHashLength): every enum value of interest (negative, UNKNOWN, the
	// supported ones, the gaps VSO = 4 and MURMUR3 = 7, values past the end) x every fallback length of
	// interest; and the same through NewDigestFromProto with the hash length as fallback (CAS / AC servers)
	{
		enums := []int{4, 7, 11, 12, -1, 0, 1, 2, 3, 5, 6, 8, 9, 10, 42, 100, 255, 256, 65536, 2147483647, -7, -2147483648}
		lens := []int{0, 1, 7, 16, 20, 31, 32, 33, 40, 48, 56, 64, 96, 128, 129, 256}
		for _, in := range []string{"", "hello/world"} {
			for _, e := range enums {
				var script []string
				for _, n := range lens {
					script = append(script, fmt.Sprintf("gdf %s %d %d", hs(in), e, n))
					if n > 0 {
						script = append(script, fmt.Sprintf("mkf %s %d %s %d", hs(in), e, hs(strings.Repeat("0123456789abcdef", 16)[:n]), n))
					}
				}
				handle(fmt.Sprintf("exh/function/%d", count), "exhaustive", script)
				count++
			}
		}
	}
	// set operations on derived sets: a set with its own partitions, itself, its non-empty part
	{
		// instance names are contiguous in set order here (the hash decides), so that the partitions
		// are sub-slices of the set itself and never get re-allocated by an append
		mkp := func(in string, hc byte, z int64) string {
			return dwords{in, 3, strings.Repeat(string([]byte{hc}), 32), z}.packed()
		}
		mk := func(in string, z int64) string { return hs(mkp(in, map[string]byte{"a": '0', "b": '1', "c": '2'}[in], z)) }
		var members []string
		for _, p := range sortedUnique([]string{mkp("a", '0', 0), mkp("a", '0', 1), mkp("a", '0', 2), mkp("b", '1', 0), mkp("b", '1', 3), mkp("c", '2', 4)}) {
			members = append(members, hs(p))
		}
		all := strings.Join(members, " ")
		for _, prog := range []string{
			"part 0 ; dai 0 1 ; dai 1 0 ; dai 0 2 ; dai 2 0 ; dai 0 3 ; dai 1 2 ; uni 1 2 3 ; uni 3 2 1 0",
			"same 0 ; dai 0 1 ; dai 0 0 ; uni 0 1 ; uni 0",
			"rme 0 ; dai 0 1 ; dai 1 0 ; part 1 ; dai 1 2 ; dai 0 2 ; rme 1 ; dai 1 5",
			"part 0 ; rme 1 ; dai 1 4 ; dai 0 4 ; uni 4 1 ; part 1 ; dai 5 1 ; dai 0 5",
			"dai 0 0 ; dai 0 2 ; dai 2 0 ; uni 1 2 3 ; part 2 ; dai 2 5",
			"uni 0 ; dai 0 1 ; uni ; uni 1 1 ; dai 0 3",
		} {
			handle(fmt.Sprintf("exh/derived/%d", count), "exhaustive", []string{"sx " + all + " :: " + prog,
				"sx " + all + " | " + mk("a", 0) + " " + mk("a", 1) + " :: dai 0 1 ; dai 1 0 ; " + prog})
			count++
		}
	}
	alpha := []byte{'a', '/', '.'}
	var strs func(prefix []byte, depth int)
	var batch []string
	strs = func(prefix []byte, depth int) {
		batch = append(batch, "inst "+hs(string(prefix)), "comps "+hs(string(prefix)))
		if len(batch) >= 40 {
			handle(fmt.Sprintf("exh/names/%d", count), "exhaustive", batch)
			batch = nil
			count++
		}
		if depth == 0 {
			return
		}
		for _, c := range alpha {
			strs(append(append([]byte{}, prefix...), c), depth-1)
		}
	}
	strs(nil, 6)
	if len(batch) > 0 {
		handle(fmt.Sprintf("exh/names/%d", count), "exhaustive", batch)
	}
	run.Extra("exhaustive_cases", count)
}
