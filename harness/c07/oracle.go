package c07

import (
	"fmt"
	"strconv"
	"strings"
	"testing/synctest"
	"time"
)

type violation struct{ what, detail string }

// finish runs the case to quiescence without further faults and checks the
// liveness part of C07 on the implementation: nothing acknowledged or popped
// may be left uncommitted once one epoch interval (plus a pending retry
// sleep) has passed.
func (s *sut) finish(v *view) []violation {
	var out []violation
	s.setAuto()
	synctest.Wait()
	now := s.nowMs()
	retryPending := false
	s.mu.Lock()
	for _, e := range s.log {
		if strings.HasPrefix(e.text, "log ") && e.at+int64(s.cfg.retryInt) > now {
			retryPending = true
		}
	}
	s.mu.Unlock()
	if !retryPending {
		if f := s.count("free "); f != v.pops {
			out = append(out, violation{"a released block was not handed back to the allocator although no state write was failing",
				fmt.Sprintf("%d blocks popped, %d handed back, without advancing the clock", v.pops, f)})
		}
	}
	time.Sleep(time.Duration(s.cfg.minInt+s.cfg.retryInt) * time.Millisecond)
	synctest.Wait()
	if f := s.count("free "); f != v.pops {
		out = append(out, violation{"a released block was never handed back to the allocator",
			fmt.Sprintf("%d blocks popped, %d handed back after quiescence plus one interval", v.pops, f)})
	}
	// Every acknowledged upload must be followed by a data synchronisation that STARTED after the
	// acknowledgement and completed, and then by a successful state write taken after that
	// completion which lists the upload's epoch (or shows that the epoch was rotated out).
	s.mu.Lock()
	for i, e := range v.acked {
		at := v.ackedAt[i]
		covered, why := false, "no data synchronisation started after the acknowledgement"
		for si := at; si < len(s.log) && !covered; si++ {
			if s.log[si].who != "p" || !strings.HasPrefix(s.log[si].text, "start ") {
				continue
			}
			why = "the data synchronisation started after the acknowledgement never completed"
			for ci := si + 1; ci < len(s.log) && !covered; ci++ {
				if s.log[ci].who != "p" || s.log[ci].text != "completed" {
					continue
				}
				why = "no state file listing the epoch was written after that synchronisation completed"
				for _, st := range s.okStates {
					if st.callSeq > ci && e < st.bound {
						covered = true
					}
				}
				break
			}
		}
		if !covered && len(s.okStates) > 0 && e < s.okStates[len(s.okStates)-1].oldest {
			covered = true // the block holding it was released; nothing left to persist
		}
		if !covered {
			d := "no state was written"
			if n := len(s.okStates); n > 0 {
				d = "last state written: " + s.okStates[n-1].snap
			}
			out = append(out, violation{"an acknowledged upload was not covered by a state write within one epoch interval",
				fmt.Sprintf("epoch %d acknowledged at log position %d: %s; %s", e, at, why, d)})
			break
		}
	}
	s.mu.Unlock()
	return out
}

func (s *sut) count(prefix string) int {
	s.mu.Lock()
	defer s.mu.Unlock()
	n := 0
	for _, e := range s.log {
		if strings.HasPrefix(e.text, prefix) {
			n++
		}
	}
	return n
}

// checkLog states the safety part of C07 on the recorded calls.
func (s *sut) checkLog(v *view, cancelSeq int, finished bool) []violation {
	var out []violation
	s.mu.Lock()
	defer s.mu.Unlock()
	// interval between non-final syncs while running
	lastStart := int64(0) // creation time counts as a synchronisation
	for i, e := range s.log {
		if e.who == "p" && e.text == "start 0" && (cancelSeq < 0 || i < cancelSeq) {
			if e.at-lastStart < int64(s.cfg.minInt) {
				out = append(out, violation{"two data synchronisations started closer together than the minimum epoch interval",
					fmt.Sprintf("at %d ms and %d ms, interval %d ms", lastStart, e.at, s.cfg.minInt)})
				break
			}
			lastStart = e.at
		}
	}
	// blocks are handed back only after a state file without them was written after their pop
	for i, e := range s.log {
		if !strings.HasPrefix(e.text, "free ") {
			continue
		}
		id, _ := strconv.Atoi(strings.TrimPrefix(e.text, "free "))
		var last *okState
		for k := range s.okStates {
			if s.okStates[k].seq <= i {
				last = &s.okStates[k]
			}
		}
		popAt, popped := 0, len(v.popSeq[id]) > 0
		if popped {
			popAt = v.popSeq[id][0]
			v.popSeq[id] = v.popSeq[id][1:]
			popped = popAt < i
		}
		switch {
		case !popped:
			out = append(out, violation{"a block was handed back to the allocator that was never popped", e.text})
		case last == nil || last.seq <= popAt:
			out = append(out, violation{"a released block was handed back before a state file written after its release returned",
				fmt.Sprintf("%s at log position %d, pop at %d", e.text, i, popAt)})
		case last.ids[id]:
			out = append(out, violation{"a released block was handed back while the last state file still lists it",
				fmt.Sprintf("%s, state %s", e.text, last.snap)})
		}
	}
	// retries
	for i, e := range s.log {
		if !strings.HasPrefix(e.text, "log ") {
			continue
		}
		want := "datasync"
		if e.text == "log write" {
			want = "getstate"
		}
		found := false
		for _, f := range s.log[i+1:] {
			if f.who != e.who || strings.HasPrefix(f.text, "timer ") {
				continue
			}
			found = true
			if !strings.HasPrefix(f.text, want) {
				out = append(out, violation{"a failed call was not retried before the loop went on",
					fmt.Sprintf("%s:%s at %d ms followed by %s", e.who, e.text, e.at, f.text)})
			} else if f.at != e.at+int64(s.cfg.retryInt) {
				out = append(out, violation{"a failed call was not retried after the error retry interval",
					fmt.Sprintf("%s:%s at %d ms, retried at %d ms", e.who, e.text, e.at, f.at)})
			}
			break
		}
		if !found && finished {
			out = append(out, violation{"a failed call was never retried", fmt.Sprintf("%s:%s at %d ms", e.who, e.text, e.at)})
		}
	}
	return out
}
