package c07

import (
	"fmt"
	"strings"
	"testing"
	"time"

	"verifharness/hx"
)

func genCfg(r *hx.Rand) config {
	c := config{minInt: r.PickInt(100, 100, 60, 30), blocks: r.Range(2, 5), sector: 16, perBlock: r.PickInt(4, 8)}
	c.retryInt = r.PickInt(30, 30, 10, c.minInt, c.minInt+20)
	return c
}

// generator picks the next operation from what is applicable now.
type generator struct {
	r         *hx.Rand
	steps     int
	maxFaults int
	faults    int
	mayCancel bool
	slowIO    bool // prefer letting the clock run and uploads arrive while a collaborator call is in progress
	calm      bool // hardly let the clock run (used to explore what follows a divergence at the same instant)
}

func (g *generator) next(s *sut, v *view, summary string) (string, bool) {
	if g.steps <= 0 {
		return "", false
	}
	g.steps--
	r := g.r
	type cand struct {
		op string
		w  int
	}
	var cs []cand
	add := func(w int, op string) { cs = append(cs, cand{op, w}) }
	s.mu.Lock()
	parkSync := s.parkSync != nil
	parkP, parkR := s.parkWrite["p"] != nil, s.parkWrite["r"] != nil
	s.mu.Unlock()
	canFail := g.faults < g.maxFaults
	if parkSync {
		add(8, "sync ok")
		if canFail {
			add(3, "sync fail")
		}
	}
	for _, x := range []struct {
		tag string
		on  bool
	}{{"p", parkP}, {"r", parkR}} {
		if x.on {
			add(7, "write "+x.tag+" ok")
			if canFail {
				add(3, "write "+x.tag+" fail")
			}
		}
	}
	if v.blocks < s.cfg.blocks {
		add(4, "push")
	}
	if v.blocks > 0 {
		add(3, "pop")
		add(6, fmt.Sprintf("alloc %d %d", pickIdx(r, v.blocks), r.PickInt(1, 5, 16, 17, 30, 40)))
	}
	var open []int
	for i, t := range v.tickets {
		if !t.done {
			open = append(open, i)
		}
	}
	if len(open) > 0 {
		add(8, fmt.Sprintf("fin %d", open[r.Intn(len(open))]))
	}
	// time: jump to a pending deadline of the model state when known, else typical amounts
	amounts := []int{1, s.cfg.retryInt, s.cfg.minInt, s.cfg.minInt - 1, s.cfg.retryInt + 1, 2*s.cfg.minInt + 3}
	now := 0
	fmt.Sscanf(field(summary, "now"), "%d", &now)
	for _, k := range []string{"p", "r"} {
		f := field(summary, k)
		if i := strings.Index(f, "@"); i >= 0 {
			d := 0
			fmt.Sscanf(f[i+1:], "%d", &d)
			if d > now {
				amounts = append(amounts, d-now, d-now, d-now)
				if d-now > 1 {
					amounts = append(amounts, d-now-1)
				}
			}
		}
	}
	if g.calm {
		add(1, fmt.Sprintf("tick %d", r.PickInt(1, s.cfg.retryInt)))
	} else {
		add(7, fmt.Sprintf("tick %d", amounts[r.Intn(len(amounts))]))
	}
	if g.slowIO && (parkSync || parkP || parkR) {
		// a data sync / state write that takes longer than the minimum epoch interval, with uploads during it
		add(10, fmt.Sprintf("tick %d", s.cfg.minInt+r.PickInt(0, 1, 7, s.cfg.minInt)))
		if v.blocks > 0 {
			add(8, fmt.Sprintf("alloc %d %d", v.blocks-1, r.PickInt(1, 5, 16)))
		}
		if len(open) > 0 {
			add(10, fmt.Sprintf("fin %d", open[len(open)-1]))
		}
	}
	if g.mayCancel && !v.cancelled {
		add(1, "cancel")
	}
	total := 0
	for _, c := range cs {
		total += c.w
	}
	x := r.Intn(total)
	for _, c := range cs {
		if x < c.w {
			if strings.HasSuffix(c.op, "fail") {
				g.faults++
			}
			return c.op, true
		}
		x -= c.w
	}
	return "", false
}

func pickIdx(r *hx.Rand, n int) int {
	if r.Chance(2, 3) {
		return n - 1
	}
	return r.Intn(n)
}

func scripted(ops []string) func(*sut, *view, string) (string, bool) {
	i := 0
	return func(*sut, *view, string) (string, bool) {
		if i >= len(ops) {
			return "", false
		}
		i++
		return ops[i-1], true
	}
}

// then plays a fixed prefix and continues with a generator.
func then(prefix []string, g *generator) func(*sut, *view, string) (string, bool) {
	i := 0
	return func(s *sut, v *view, summary string) (string, bool) {
		if i < len(prefix) {
			i++
			return prefix[i-1], true
		}
		return g.next(s, v, summary)
	}
}

// signature of a disagreement without the concrete values (used to report each kind of divergence once).
func signature(detail string) string {
	var b strings.Builder
	for _, c := range detail {
		if c < '0' || c > '9' {
			b.WriteRune(c)
		}
	}
	return b.String()
}

func report(run *hx.Run, name string, res caseResult) {
	nontrivial := res.ops["fin"] >= 1 && res.ops["tick"] >= 1 && len(res.script) >= 8
	run.Case(res.script, nontrivial, res.validated)
	for k, n := range res.ops {
		run.CountN("op:"+k, n)
	}
	run.Count(fmt.Sprintf("faults:%d", res.faults))
	run.CountN("slow-call(tick>=interval while a call is parked)", res.slowCalls)
	run.CountN("storeLock-contended", res.contended)
	run.CountN("storeLock-wait", res.lockWaits)
	if res.abandoned != "" {
		run.Count("abandoned:" + res.abandoned)
	}
	run.Compared(len(res.model))
	if res.disagree != "" {
		run.Report(hx.Finding{Kind: "disagreement", What: "model/implementation differ", Detail: res.disagree,
			Case: name, Script: res.script, Impl: res.impl, Model: res.model})
	}
	seen := map[string]bool{}
	for _, v := range res.viol {
		if seen[v.what] {
			continue
		}
		seen[v.what] = true
		run.Report(hx.Finding{Kind: "oracle", What: v.what, Detail: v.detail, Case: name, Script: res.script, Impl: res.impl})
	}
}

func failing(res caseResult) string {
	if len(res.viol) > 0 {
		return "o:" + res.viol[0].what
	}
	if res.disagree != "" {
		return "d"
	}
	return ""
}

func TestC07(t *testing.T) {
	run := hx.NewRun("C07")
	defer run.Finish(t)
	model, err := hx.StartModel()
	if err != nil {
		t.Fatalf("start model: %v", err)
	}
	defer model.Close()
	run.HasModel = model != nil
	run.SetRule("schedules of push/pop/alloc/fin/tick/cancel and releases (ok/fail) of the parked data sync and state writes, " +
		"chosen step by step among the applicable operations; non-trivial = at least one acknowledged-or-refused finalizer, one clock advance and 7 operations; distinct by script hash")

	seenDivergence := map[string]bool{}
	seenOracle := map[string]bool{}
	baseSpin := spinTimeout
	afterOracle := 0 // cases run since the first failing input was found
	var divergenceSpent time.Duration // wall time spent searching from / shrinking divergences (bounded)
	const divergenceBudget = 60 * time.Second
	handle := func(name string, cfg config, res caseResult) {
		if len(seenOracle) > 0 {
			afterOracle++
		}
		if f := failing(res); strings.HasPrefix(f, "o:") && seenOracle[f] {
			run.Count("oracle-repeat")
			run.Case(res.script, false, res.validated)
			return
		}
		defer func() {
			if run.Findings() > 0 {
				// something is wrong already: do not spend seconds per case waiting for calls that
				// a diverged implementation will never make
				baseSpin = 250 * time.Millisecond
				spinTimeout = baseSpin
			}
		}()
		if failing(res) == "d" {
			// The implementation left the model. That alone is not a failing input for the property:
			// search the schedules that continue from the point of divergence for one the oracle rejects
			// (once per kind of divergence; repeats are only counted).
			sig := signature(res.disagree)
			if seenDivergence[sig] {
				run.Count("divergence-repeat")
				run.Case(res.script, false, res.validated)
				return
			}
			seenDivergence[sig] = true
			if divergenceSpent > divergenceBudget {
				run.Count("divergence-budget-exhausted")
				report(run, name, res)
				return
			}
			began := realNow()
			defer func() { divergenceSpent += realNow() - began }()
			prefix := res.script[1:]
			if res.diverged > 0 && res.diverged <= len(res.script) {
				prefix = res.script[1:res.diverged]
			}
			for k := 0; k < 60 && realNow()-began < divergenceBudget/3; k++ {
				r := hx.NewRand(run.Seed, "C07/continue/"+name, k)
				g := &generator{r: r, steps: r.Range(4, 30), maxFaults: r.PickInt(0, 0, 1), calm: k%3 != 0, slowIO: k%3 == 0}
				ext := runCase(t, model, cfg, then(prefix, g))
				run.Count("continuation-searched")
				if len(ext.viol) > 0 {
					res = ext
					name += "/continued"
					break
				}
			}
		}
		if f := failing(res); strings.HasPrefix(f, "o:") {
			seenOracle[f] = true
		}
		if f := failing(res); f != "" && len(res.script) > 2 {
			spinTimeout = 300 * time.Millisecond // candidates that stall are re-checked with the full timeout below
			small := hx.Shrink(res.script, 1, func(sc []string) bool {
				return failing(runCase(t, model, cfg, scripted(sc[1:]))) == f
			})
			spinTimeout = baseSpin
			if len(small) < len(res.script) {
				if r2 := runCase(t, model, cfg, scripted(small[1:])); failing(r2) == f {
					report(run, name+"/shrunk", r2)
					return
				}
			}
		}
		report(run, name, res)
	}

	if name, script := run.ReplayScript(); script != nil {
		cfg, ok := parseCfg(script[0])
		if !ok {
			t.Fatalf("replay script has no #cfg line")
		}
		res := runCase(t, model, cfg, scripted(script[1:]))
		report(run, name, res)
		for i := range res.impl {
			t.Logf("impl:  %s", res.impl[i])
			if i < len(res.model) {
				t.Logf("model: %s", res.model[i])
			}
		}
		t.Logf("replay %s: violations=%v disagree=%q abandoned=%q", name, res.viol, res.disagree, res.abandoned)
		return
	}
	for name, script := range run.CorpusScripts() {
		if cfg, ok := parseCfg(script[0]); ok {
			handle("corpus/"+name, cfg, runCase(t, model, cfg, scripted(script[1:])))
		}
	}
	// directed family: an upload finalized at each point of an iteration (inside [NotifySyncStarting,
	// NotifySyncCompleted], during a retry sleep, during the state write, during the two syncs of a
	// shutdown), after which nothing but the clock moves - the upload must still get committed.
	for ci, cfg := range []config{{100, 30, 3, 16, 4}, {60, 60, 2, 16, 8}, {30, 50, 4, 16, 4}} {
		start := []string{"push", "alloc 0 5", "finnext", "tickd"} // first data sync is in flight
		quiet := []string{"tickmin", "tickmin", "tickretry", "tickmin"}
		for di, mid := range [][]string{
			{"alloc 0 5", "finnext", "sync ok", "write p ok"},
			{"alloc 0 5", "finnext", "tickmin", "sync ok", "write p ok"},
			{"sync fail", "alloc 0 5", "finnext", "tickretry", "sync ok", "write p ok"},
			{"alloc 0 5", "sync fail", "finnext", "tickretry", "sync ok", "write p fail", "tickretry", "write p ok"},
			{"sync ok", "alloc 0 5", "finnext", "write p ok"},
			{"alloc 0 5", "finnext", "sync ok", "alloc 0 5", "finnext", "write p ok"},
			{"push", "alloc 0 5", "alloc 1 5", "finnext", "sync ok", "finnext", "write p ok"},
			{"alloc 0 5", "finnext", "sync ok", "pop", "write p ok", "write r ok"},
			{"alloc 0 5", "alloc 0 5", "finnext", "sync ok", "write p ok", "tickmin", "finnext", "sync ok", "write p ok"},
			{"cancel", "alloc 0 5", "finnext", "sync ok", "write p ok"},
			{"sync ok", "write p ok", "alloc 0 5", "finnext", "cancel", "alloc 0 5", "finnext", "sync ok", "sync ok", "write p ok"},
		} {
			ops := append(append(append([]string{}, start...), mid...), quiet...)
			handle(fmt.Sprintf("directed/%d-%d", ci, di), cfg, runCase(t, model, cfg, scripted(ops)))
			run.Count("directed")
		}
	}
	// exhaustive small scope: every sequence of k symbolic operations after a prefix that parks the first data sync
	if model != nil && run.Findings() == 0 {
		alphabet := []string{"push", "pop", "alloc 0 5", "finnext", "tickd", "sync ok", "sync fail", "write p ok", "write p fail",
			"write r ok", "write r fail", "cancel"}
		depth := run.Scale(3, 4)
		cfg := config{minInt: 100, retryInt: 30, blocks: 3, sector: 16, perBlock: 4}
		prefix := []string{"push", "alloc 0 5", "finnext", "tickd"}
		count := 0
		var rec func(seq []string, d int)
		rec = func(seq []string, d int) {
			if run.Findings() >= 10 || afterOracle >= 40 {
				return
			}
			if d == 0 {
				ops := append(append([]string{}, prefix...), seq...)
				handle(fmt.Sprintf("exh/%d", count), cfg, runCase(t, model, cfg, scripted(ops)))
				count++
				return
			}
			for _, o := range alphabet {
				rec(append(seq, o), d-1)
			}
		}
		rec(nil, depth)
		run.Extra("exhaustive_sequences", count)
	}
	n := run.Scale(6000, 90000)
	for i := 0; i < n && run.Findings() < 10 && afterOracle < 40; i++ {
		r := hx.NewRand(run.Seed, "C07", i)
		cfg := genCfg(r)
		g := &generator{r: r, steps: r.Range(15, 70), maxFaults: r.PickInt(0, 1, 2, 3, 3), mayCancel: r.Chance(1, 3), slowIO: r.Chance(1, 3)}
		handle(fmt.Sprintf("seed%d/case%d", run.Seed, i), cfg, runCase(t, model, cfg, g.next))
	}
}
