// Package c07 runs the real PeriodicSyncer against the real
// PersistentBlockList under testing/synctest, with collaborators that record
// every call, park until the harness releases them and fail on command; it
// compares the calls with the Lean model (bbmodel_c07) and checks the
// statements of property C07 directly on what it observes.
package c07

import (
	"context"
	"fmt"
	"runtime"
	"strings"
	"sync"
	"sync/atomic"
	"syscall"
	"time"

	"github.com/buildbarn/bb-storage/pkg/blobstore"
	"github.com/buildbarn/bb-storage/pkg/blobstore/local"
	"github.com/buildbarn/bb-storage/pkg/clock"
	pb "github.com/buildbarn/bb-storage/pkg/proto/blobstore/local"
	"google.golang.org/grpc/codes"
	"google.golang.org/grpc/status"

	"verifharness/hx"
)

// realNow is the wall clock; time.Now is virtual inside a synctest bubble.
func realNow() time.Duration {
	var tv syscall.Timeval
	syscall.Gettimeofday(&tv)
	return time.Duration(tv.Sec)*time.Second + time.Duration(tv.Usec)*time.Microsecond
}

// who tells which syncer loop the current goroutine is running ("p", "r") or "h" for the harness.
func who() string {
	var pcs [48]uintptr
	n := runtime.Callers(2, pcs[:])
	frames := runtime.CallersFrames(pcs[:n])
	for {
		f, more := frames.Next()
		if strings.HasSuffix(f.Function, ".ProcessBlockRelease") {
			return "r"
		}
		if strings.HasSuffix(f.Function, ".ProcessBlockPut") {
			return "p"
		}
		if !more {
			return "h"
		}
	}
}

type event struct {
	who, text string
	at        int64 // virtual ms since the syncer was created
}

type config struct {
	minInt, retryInt int // ms
	blocks           int // allocator size
	sector, perBlock int
}

func (c config) line() string {
	return fmt.Sprintf("#cfg %d %d %d %d %d", c.minInt, c.retryInt, c.blocks, c.sector, c.perBlock)
}
func (c config) blockSize() int { return c.sector * c.perBlock }

type parked struct{ ch chan error }

type sut struct {
	cfg   config
	start time.Time

	mu        sync.Mutex
	log       []event
	panics    []string
	parkSync  *parked
	parkWrite map[string]*parked
	okStates  []okState // successfully written states, in order
	auto      bool      // collaborators return nil at once
	autoWrite bool      // state writes never park (used when there is no model to predict storeLock waits)

	newFailed bool // the last PushBack reached the allocator and it was empty
	lastNewID int

	teardown chan struct{}
	lock     sync.RWMutex
	bl       *local.PersistentBlockList
	ps       *local.PeriodicSyncer
	cancel   context.CancelFunc
	wg       sync.WaitGroup
	stop     atomic.Bool
}

type okState struct {
	snap  string
	ids   map[int]bool
	bound   int64 // oldest epoch id + number of epochs listed
	seq     int   // position in the event log when the write returned
	oldest  int64
	callSeq int // position in the event log of the WritePersistentState call
}

func (s *sut) nowMs() int64 { return time.Since(s.start).Milliseconds() }

func (s *sut) record(w, text string) {
	s.mu.Lock()
	s.log = append(s.log, event{w, text, s.nowMs()})
	s.mu.Unlock()
}

// ---- block allocator wrapper: sees which block is handed out / handed back

type recAlloc struct {
	base local.BlockAllocator
	s    *sut
}

type recBlock struct {
	local.Block
	id int
	s  *sut
}

func (b recBlock) Release() {
	b.s.record(who(), fmt.Sprintf("free %d", b.id))
	b.Block.Release()
}

func (a *recAlloc) NewBlock() (local.Block, *pb.BlockLocation, error) {
	b, l, err := a.base.NewBlock()
	if err != nil {
		a.s.newFailed = true
		return nil, nil, err
	}
	id := int(l.OffsetBytes) / a.s.cfg.blockSize()
	a.s.lastNewID = id
	return recBlock{b, id, a.s}, l, nil
}

func (a *recAlloc) NewBlockAtLocation(l *pb.BlockLocation, off int64) (local.Block, bool) {
	b, ok := a.base.NewBlockAtLocation(l, off)
	if !ok {
		return nil, false
	}
	return recBlock{b, int(l.OffsetBytes) / a.s.cfg.blockSize(), a.s}, true
}

// ---- PersistentStateSource wrapper: records the lock regions of the loops

type recSource struct {
	s *sut
}

func (r recSource) GetBlockReleaseWakeup() <-chan struct{} {
	r.s.record(who(), "getrel")
	real := r.s.bl.GetBlockReleaseWakeup()
	// ProcessBlockRelease has no way to be shut down; forward the channel so
	// that the goroutine can be collected when the case is over.
	out := make(chan struct{})
	go func() {
		select {
		case <-real:
		case <-r.s.teardown:
		}
		close(out)
	}()
	return out
}

func (r recSource) GetBlockPutWakeup() <-chan struct{} {
	r.s.record(who(), "getput")
	return r.s.bl.GetBlockPutWakeup()
}

func (r recSource) NotifySyncStarting(isFinalSync bool) {
	f := 0
	if isFinalSync {
		f = 1
	}
	r.s.record(who(), fmt.Sprintf("start %d", f))
	r.s.bl.NotifySyncStarting(isFinalSync)
}

func (r recSource) NotifySyncCompleted() {
	r.s.record(who(), "completed")
	r.s.bl.NotifySyncCompleted()
}

func (s *sut) showState(oldest uint32, blocks []*pb.BlockState) (string, map[int]bool, int64) {
	var parts []string
	ids := map[int]bool{}
	bound := int64(oldest)
	for _, b := range blocks {
		id := int(b.BlockLocation.OffsetBytes) / s.cfg.blockSize()
		ids[id] = true
		bound += int64(len(b.EpochHashSeeds))
		parts = append(parts, fmt.Sprintf("%d:%d:%d", id, b.WriteOffsetBytes, len(b.EpochHashSeeds)))
	}
	return fmt.Sprintf("%d[%s]", oldest, strings.Join(parts, ",")), ids, bound
}

func (r recSource) GetPersistentState() (uint32, []*pb.BlockState) {
	oldest, blocks := r.s.bl.GetPersistentState()
	snap, _, _ := r.s.showState(oldest, blocks)
	r.s.record(who(), "getstate "+snap)
	return oldest, blocks
}

func (r recSource) NotifyPersistentStateWritten() {
	r.s.record(who(), "notify")
	r.s.bl.NotifyPersistentStateWritten()
}

// ---- clock, logger, data syncer, state store

type recClock struct{ s *sut }

func (c recClock) Now() time.Time { return time.Now() }
func (c recClock) NewContextWithTimeout(p context.Context, d time.Duration) (context.Context, context.CancelFunc) {
	return clock.SystemClock.NewContextWithTimeout(p, d)
}
func (c recClock) NewTimer(d time.Duration) (clock.Timer, <-chan time.Time) {
	c.s.record(who(), fmt.Sprintf("timer %d", d.Milliseconds()))
	return clock.SystemClock.NewTimer(d)
}
func (c recClock) NewTicker(d time.Duration) (clock.Ticker, <-chan time.Time) {
	return clock.SystemClock.NewTicker(d)
}

type recLogger struct{ s *sut }

func (l recLogger) Log(err error) {
	kind := "other"
	if strings.Contains(err.Error(), "Failed to synchronize data") {
		kind = "sync"
	} else if strings.Contains(err.Error(), "Failed to write persistent state") {
		kind = "write"
	}
	l.s.record(who(), "log "+kind)
}

func (s *sut) dataSyncer() error {
	s.mu.Lock()
	s.log = append(s.log, event{"p", "datasync", s.nowMs()})
	if s.auto {
		s.mu.Unlock()
		return nil
	}
	p := &parked{make(chan error)}
	s.parkSync = p
	s.mu.Unlock()
	return <-p.ch
}

type recStore struct{ s *sut }

func (st recStore) ReadPersistentState() (*pb.PersistentState, error) {
	return nil, status.Error(codes.Unimplemented, "not used")
}

func (st recStore) WritePersistentState(ps *pb.PersistentState) error {
	s := st.s
	w := who()
	snap, ids, bound := s.showState(ps.OldestEpochId, ps.Blocks)
	s.mu.Lock()
	s.log = append(s.log, event{w, "write " + snap, s.nowMs()})
	callSeq := len(s.log) - 1
	var err error
	if !s.auto && !s.autoWrite {
		p := &parked{make(chan error)}
		s.parkWrite[w] = p
		s.mu.Unlock()
		err = <-p.ch
		s.mu.Lock()
	}
	if err == nil {
		s.okStates = append(s.okStates, okState{snap, ids, bound, len(s.log), int64(ps.OldestEpochId), callSeq})
	}
	s.mu.Unlock()
	return err
}

var _ = hx.Hex
var _ = blobstore.CASReadBufferFactory
