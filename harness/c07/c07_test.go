package c07

import (
	"fmt"
	"os"
	"strconv"
	"strings"
	"testing"
	"testing/synctest"

	"verifharness/hx"
)

var debug = os.Getenv("VERIF_DEBUG") != ""

type caseResult struct {
	script    []string // cfg line + the operations that applied
	impl      []string
	model     []string
	viol      []violation
	disagree  string
	diverged  int // len(script) when model and implementation diverged
	validated bool
	abandoned string
	faults    int
	slowCalls int // clock advances of at least one interval while a data sync / state write was in progress
	contended int // stimuli after which both loops reached for storeLock
	lockWaits int // stimuli that left a loop waiting for storeLock
	ops       map[string]int
}

func parseCfg(line string) (config, bool) {
	w := strings.Fields(line)
	if len(w) != 6 || w[0] != "#cfg" {
		return config{}, false
	}
	n := func(i int) int { v, _ := strconv.Atoi(w[i]); return v }
	c := config{n(1), n(2), n(3), n(4), n(5)}
	if c.minInt <= 0 || c.retryInt <= 0 || c.blocks <= 0 || c.sector <= 0 || c.perBlock <= 0 {
		return config{}, false
	}
	return c, true
}

func field(summary, key string) string {
	for _, f := range strings.Fields(summary) {
		if strings.HasPrefix(f, key+"=") {
			return strings.TrimPrefix(f, key+"=")
		}
	}
	return ""
}

func splitEvents(evs string) (p, r []string) {
	for _, e := range strings.Split(evs, ";") {
		e = strings.TrimSpace(e)
		switch {
		case strings.HasPrefix(e, "p:"):
			p = append(p, e)
		case strings.HasPrefix(e, "r:"):
			r = append(r, e)
		}
	}
	return
}

// runCase executes operations on the real code inside a synctest bubble. next
// yields the operations (it sees the harness state so that a generator can
// pick applicable ones); the model, when present, is stepped alongside.
func runCase(t *testing.T, model *hx.Model, cfg config, next func(s *sut, v *view, summary string) (string, bool)) (res caseResult) {
	res.script = []string{cfg.line()}
	res.ops = map[string]int{}
	synctest.Test(t, func(t *testing.T) {
		s := newSut(cfg)
		s.autoWrite = model == nil
		v := &view{popSeq: map[int][]int{}}
		cancelSeq := -1
		summary := ""
		synctest.Wait()
		if model != nil {
			line := fmt.Sprintf("init %d %d %d %d 0", cfg.minInt, cfg.retryInt, cfg.blocks, oldestEpoch)
			rep := model.Step(line)
			parts := strings.Split(rep, " | ")
			res.model = append(res.model, line+" => "+rep)
			if len(parts) == 3 {
				summary = parts[2]
				ep, er := splitEvents(parts[1])
				gp, gr := s.eventsOf(0, "p"), s.eventsOf(0, "r")
				res.impl = append(res.impl, line+" => ok | "+strings.Join(append(gp, gr...), ";"))
				if strings.Join(ep, ";") != strings.Join(gp, ";") || strings.Join(er, ";") != strings.Join(gr, ";") {
					res.disagree = fmt.Sprintf("init: impl p=%v r=%v model p=%v r=%v", gp, gr, ep, er)
				}
			} else {
				res.disagree = "init: model replied " + rep
			}
			res.validated = true
		}
		live := model != nil // the model is stepped alongside
		for res.abandoned == "" && s.panicCount() == 0 {
			if live && res.disagree != "" {
				// Model and implementation have diverged. Keep running the schedule on the
				// implementation alone so that the oracle can still judge it: state writes no longer
				// park (nothing predicts storeLock waits any more), data syncs still do.
				live = false
				res.diverged = len(res.script)
				summary = ""
				s.oracleOnly()
			}
			op, more := next(s, v, summary)
			if !more {
				break
			}
			w := strings.Fields(op)
			if len(w) == 0 {
				continue
			}
			switch op { // symbolic operations used by the exhaustive enumeration
			case "finnext":
				op = ""
				for i, tk := range v.tickets {
					if !tk.done {
						op = fmt.Sprintf("fin %d", i)
						break
					}
				}
			case "tickmin":
				op = fmt.Sprintf("tick %d", cfg.minInt)
			case "tickretry":
				op = fmt.Sprintf("tick %d", cfg.retryInt)
			case "tickd":
				op = fmt.Sprintf("tick %d", nextDeadline(summary, cfg.minInt))
			}
			w = strings.Fields(op)
			if len(w) == 0 {
				continue
			}
			if w[0] == "tick" && field(summary, "mutexwait") == "1" {
				continue // the clock cannot advance while a goroutine waits for storeLock
			}
			pos := s.logLen()
			var popID int
			if w[0] == "pop" && len(v.ids) > 0 {
				popID = v.ids[0]
			}
			if debug {
				fmt.Fprintf(os.Stderr, "op %q summary %s\n", op, summary)
			}
			preRep := ""
			if w[0] == "tick" && live && len(w) == 2 {
				// ask the model first: the clock must not be asked to go beyond the point
				// where a loop ends up in storeLock.Lock() (virtual time would stop there)
				preRep = model.Step(op)
				adv := strings.Fields(preRep)
				if len(adv) < 2 || adv[0] != "ok" {
					continue
				}
				op = "tick " + adv[1]
				if adv[1] == "0" {
					model.Step("undo")
					continue
				}
			}
			callParked := s.anyParked()
			line, want, ok := s.apply(v, op)
			if ok && callParked && strings.HasPrefix(op, "tick ") {
				if n, _ := strconv.Atoi(strings.Fields(op)[1]); n >= cfg.minInt {
					res.slowCalls++
				}
			}
			if s.panicCount() > 0 {
				res.script = append(res.script, op)
				break
			}
			if !ok {
				continue
			}
			if preRep != "" {
				want = "ok " + strings.Fields(op)[1]
			}
			res.script = append(res.script, op)
			res.ops[w[0]]++
			switch w[0] {
			case "pop":
				v.popSeq[popID] = append(v.popSeq[popID], pos)
				v.ids = v.ids[1:]
			case "push":
				if strings.HasPrefix(want, "ok ") {
					id, _ := strconv.Atoi(strings.TrimPrefix(want, "ok "))
					v.ids = append(v.ids, id)
				}
			case "cancel":
				cancelSeq = pos
			}
			if len(w) >= 2 && w[len(w)-1] == "fail" {
				res.faults++
			}
			if line == "" {
				continue
			}
			if !live {
				synctest.Wait()
				continue
			}
			rep := preRep
			if rep == "" {
				rep = model.Step(line)
			}
			if strings.Contains(strings.SplitN(rep, " | ", 2)[0], "contended") {
				// both loops reached for storeLock: see who got it
				res.contended++
				winner := ""
				spinUntil(func() bool {
					for _, tag := range []string{"p", "r"} {
						for _, e := range s.eventsOf(pos, tag) {
							if strings.HasPrefix(e, tag+":getstate") {
								winner = tag
								return true
							}
						}
					}
					return false
				})
				if winner == "r" {
					model.Step("undo")
					rep = model.Step(line + " prefer:r")
				}
			}
			res.model = append(res.model, line+" => "+rep)
			parts := strings.Split(rep, " | ")
			if len(parts) != 3 {
				res.impl = append(res.impl, line+" => "+want)
				res.disagree = fmt.Sprintf("%q: model replied %q, implementation %q", line, rep, want)
				continue
			}
			head := strings.Fields(parts[0])
			race := false
			var resWords []string
			for _, h := range head {
				switch h {
				case "contended":
				case "race":
					race = true
				default:
					resWords = append(resWords, h)
				}
			}
			if race {
				res.abandoned = "select-race"
				break
			}
			summary = parts[2]
			if field(summary, "mutexwait") == "1" {
				res.lockWaits++
			}
			ep, er := splitEvents(parts[1])
			reached := spinUntil(func() bool {
				return len(s.eventsOf(pos, "p")) >= len(ep) && len(s.eventsOf(pos, "r")) >= len(er)
			})
			if reached && field(summary, "mutexwait") != "1" {
				synctest.Wait()
			}
			gp, gr := s.eventsOf(pos, "p"), s.eventsOf(pos, "r")
			res.impl = append(res.impl, line+" => "+want+" | "+strings.Join(append(gp, gr...), ";"))
			if strings.Join(resWords, " ") != want {
				res.disagree = fmt.Sprintf("%q: result impl=%q model=%q", line, want, strings.Join(resWords, " "))
			} else if strings.Join(ep, ";") != strings.Join(gp, ";") {
				res.disagree = fmt.Sprintf("%q: put loop calls impl=%v model=%v", line, gp, ep)
			} else if strings.Join(er, ";") != strings.Join(gr, ";") {
				res.disagree = fmt.Sprintf("%q: release loop calls impl=%v model=%v", line, gr, er)
			}
		}
		if res.abandoned == "" && s.panicCount() == 0 {
			res.viol = append(res.viol, s.finish(v)...)
		}
		res.viol = append(res.viol, s.checkLog(v, cancelSeq, res.abandoned == "" && s.panicCount() == 0)...)
		s.shutdown()
		s.mu.Lock()
		for _, p := range s.panics {
			res.viol = append(res.viol, violation{"the syncer or the block list panicked", p})
		}
		s.mu.Unlock()
	})
	return res
}

// nextDeadline is the distance to the nearest pending timer of the model state (def when none).
func nextDeadline(summary string, def int) int {
	now, _ := strconv.Atoi(field(summary, "now"))
	best := 0
	for _, k := range []string{"p", "r"} {
		if f := field(summary, k); strings.Contains(f, "@") {
			d, _ := strconv.Atoi(f[strings.Index(f, "@")+1:])
			if d > now && (best == 0 || d-now < best) {
				best = d - now
			}
		}
	}
	if best == 0 {
		return def
	}
	return best
}

func (s *sut) panicCount() int {
	s.mu.Lock()
	defer s.mu.Unlock()
	return len(s.panics)
}

func (s *sut) anyParked() bool {
	s.mu.Lock()
	defer s.mu.Unlock()
	return s.parkSync != nil || len(s.parkWrite) > 0
}
