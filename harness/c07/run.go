package c07

import (
	"context"
	"fmt"
	"runtime"
	"strings"
	"testing/synctest"
	"time"

	"github.com/buildbarn/bb-storage/pkg/blobstore"
	"github.com/buildbarn/bb-storage/pkg/blobstore/buffer"
	"github.com/buildbarn/bb-storage/pkg/blobstore/local"
	"google.golang.org/grpc/codes"
	"google.golang.org/grpc/status"

	"verifharness/hx"
)

const oldestEpoch = 7

// newSut must be called inside a synctest bubble.
func newSut(cfg config) *sut {
	s := &sut{cfg: cfg, parkWrite: map[string]*parked{}, teardown: make(chan struct{})}
	dev := hx.NewMemDevice(cfg.blocks * cfg.blockSize())
	base := local.NewBlockDeviceBackedBlockAllocator(dev, blobstore.CASReadBufferFactory, cfg.sector, int64(cfg.perBlock), cfg.blocks, "verif_c07")
	s.bl, _ = local.NewPersistentBlockList(&recAlloc{base, s}, oldestEpoch, nil)
	s.start = time.Now()
	s.ps = local.NewPeriodicSyncer(recSource{s}, &s.lock, recStore{s}, recClock{s}, recLogger{s},
		time.Duration(cfg.retryInt)*time.Millisecond, time.Duration(cfg.minInt)*time.Millisecond, 42, s.dataSyncer)
	ctx, cancel := context.WithCancel(context.Background())
	s.cancel = cancel
	guard := func(name string, f func()) {
		defer s.wg.Done()
		defer func() {
			if r := recover(); r != nil {
				s.mu.Lock()
				s.panics = append(s.panics, fmt.Sprintf("%s: %v", name, r))
				s.mu.Unlock()
			}
		}()
		f()
	}
	s.wg.Add(2)
	go guard("ProcessBlockRelease", func() {
		for !s.stop.Load() {
			s.ps.ProcessBlockRelease()
		}
	})
	go guard("ProcessBlockPut", func() {
		for s.ps.ProcessBlockPut(ctx) {
		}
	})
	return s
}

// shutdown lets every goroutine of the case finish.
func (s *sut) shutdown() {
	s.setAuto()
	s.stop.Store(true)
	s.cancel()
	close(s.teardown)
	time.Sleep(time.Duration(10*(s.cfg.minInt+s.cfg.retryInt)) * time.Millisecond)
	s.wg.Wait()
	synctest.Wait()
}

// setAuto makes all collaborator calls succeed at once from now on and releases the parked ones.
func (s *sut) setAuto() {
	s.mu.Lock()
	s.auto = true
	ps, pw := s.parkSync, s.parkWrite
	s.parkSync, s.parkWrite = nil, map[string]*parked{}
	s.mu.Unlock()
	if ps != nil {
		ps.ch <- nil
	}
	for _, p := range pw {
		p.ch <- nil
	}
}

// oracleOnly stops parking state writes (and lets the parked ones succeed), then waits for quiescence.
func (s *sut) oracleOnly() {
	s.mu.Lock()
	s.autoWrite = true
	pw := s.parkWrite
	s.parkWrite = map[string]*parked{}
	s.mu.Unlock()
	for _, p := range pw {
		p.ch <- nil
	}
	synctest.Wait()
}

type ticket struct {
	abs       int
	size      int64
	finalizer local.BlockListPutFinalizer
	done      bool
}

// harness-side view of the block list (what the harness itself did to it)
type view struct {
	blocks    int
	ids       []int // block ids in the list, oldest first
	pops      int
	cancelled bool
	tickets   []*ticket
	acked     []int64 // epoch ids of acknowledged writes
	ackedAt   []int   // position in the event log when each was acknowledged
	popSeq    map[int][]int // per block id: log positions of its pops not yet matched by a hand-back
}

// locked runs f on the block list under the store lock, the way the location blob map calls it;
// a panic of the real code is recorded (C07: the wake-up machinery never panics).
func (s *sut) locked(what string, f func()) (panicked bool) {
	s.lock.Lock()
	defer s.lock.Unlock()
	defer func() {
		if r := recover(); r != nil {
			s.mu.Lock()
			s.panics = append(s.panics, fmt.Sprintf("%s: %v", what, r))
			s.mu.Unlock()
			panicked = true
		}
	}()
	f()
	return false
}

func errTag(err error) string {
	switch status.Code(err) {
	case codes.Unavailable:
		return "closed"
	case codes.Internal:
		return "released"
	}
	return "error:" + status.Code(err).String()
}

// apply performs one harness operation on the real code. It returns the model
// line ("" = nothing for the model), the reply the model must give, and
// whether the operation applied in the current state.
func (s *sut) apply(v *view, op string) (line, reply string, ok bool) {
	w := strings.Fields(op)
	if len(w) == 0 {
		return "", "", false
	}
	n := func(i int) int {
		x := 0
		if i < len(w) {
			fmt.Sscanf(w[i], "%d", &x)
		}
		return x
	}
	switch w[0] {
	case "push":
		s.newFailed = false
		var err error
		if s.locked("PushBack", func() { err = s.bl.PushBack() }) {
			return "", "", false
		}
		if err == nil {
			v.blocks++
			return "push", fmt.Sprintf("ok %d", s.lastNewID), true
		}
		if s.newFailed {
			return "push", "err full", true
		}
		return "push", "err closed", true
	case "pop":
		if v.blocks == 0 {
			return "", "", false
		}
		if s.locked("PopFront", func() { s.bl.PopFront() }) {
			return "", "", false
		}
		v.blocks--
		v.pops++
		return "pop", "ok", true
	case "alloc": // alloc <relIdx> <size>: Put + copy the data; the finalizer is kept as a ticket
		idx, size := n(1), int64(n(2))
		if idx >= v.blocks || size <= 0 {
			return "", "", false
		}
		var pw local.BlockListPutWriter
		if s.locked("Put", func() {
			if s.bl.HasSpace(idx, size) {
				pw = s.bl.Put(idx, size)
			}
		}) || pw == nil {
			return "", "", false
		}
		data := make([]byte, size)
		for i := range data {
			data[i] = byte(len(v.tickets)*13 + i)
		}
		fin := pw(buffer.NewValidatedBufferFromByteSlice(data))
		v.tickets = append(v.tickets, &ticket{abs: v.pops + idx, size: size, finalizer: fin})
		return "", "", true
	case "fin": // fin <ticket>
		k := n(1)
		if k >= len(v.tickets) || v.tickets[k].done {
			return "", "", false
		}
		t := v.tickets[k]
		t.done = true
		var off int64
		var err error
		var epoch uint32
		if s.locked("put finalizer", func() {
			off, err = t.finalizer()
			if err == nil {
				ref, _ := s.bl.BlockIndexToBlockReference(0)
				epoch = ref.EpochID
			}
		}) {
			return "", "", false
		}
		if err != nil {
			return fmt.Sprintf("fin %d 0", t.abs), errTag(err), true
		}
		v.acked = append(v.acked, int64(epoch))
		v.ackedAt = append(v.ackedAt, s.logLen())
		return fmt.Sprintf("fin %d %d", t.abs, off+t.size), fmt.Sprintf("ok %d", epoch), true
	case "tick":
		if n(1) <= 0 {
			return "", "", false
		}
		time.Sleep(time.Duration(n(1)) * time.Millisecond)
		return op, "ok", true
	case "cancel":
		if v.cancelled {
			return "", "", false
		}
		v.cancelled = true
		s.cancel()
		return "cancel", "ok", true
	case "sync": // sync ok|fail
		s.mu.Lock()
		p := s.parkSync
		s.parkSync = nil
		s.mu.Unlock()
		if p == nil || len(w) < 2 {
			return "", "", false
		}
		if w[1] == "ok" {
			p.ch <- nil
		} else {
			p.ch <- status.Error(codes.Internal, "injected sync failure")
		}
		return op, "ok", true
	case "write": // write p|r ok|fail
		if len(w) < 3 {
			return "", "", false
		}
		s.mu.Lock()
		p := s.parkWrite[w[1]]
		delete(s.parkWrite, w[1])
		s.mu.Unlock()
		if p == nil {
			return "", "", false
		}
		if w[2] == "ok" {
			p.ch <- nil
		} else {
			p.ch <- status.Error(codes.Internal, "injected write failure")
		}
		return op, "ok", true
	}
	return "", "", false
}

// eventsOf returns the events of loop w recorded from position from on.
func (s *sut) eventsOf(from int, w string) []string {
	s.mu.Lock()
	defer s.mu.Unlock()
	var r []string
	for _, e := range s.log[from:] {
		if e.who == w {
			r = append(r, w+":"+e.text)
		}
	}
	return r
}

func (s *sut) logLen() int {
	s.mu.Lock()
	defer s.mu.Unlock()
	return len(s.log)
}

// spinTimeout bounds the wall time spent waiting for calls the model predicts.
var spinTimeout = 3 * time.Second

// spinUntil yields until cond holds (at most spinTimeout of wall time).
func spinUntil(cond func() bool) bool {
	deadline := realNow() + spinTimeout
	for i := 0; ; i++ {
		if cond() {
			return true
		}
		runtime.Gosched()
		if i%256 == 255 && realNow() > deadline {
			return false
		}
	}
}
