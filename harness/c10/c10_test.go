package c10

import (
	"testing"

	"verifharness/hx"
	"verifharness/stx"
)

func TestC10(t *testing.T) {
	run := hx.NewRun("C10")
	defer run.Finish(t)
	model, err := hx.StartModel()
	if err != nil {
		t.Fatalf("start model: %v", err)
	}
	defer model.Close()
	run.HasModel = model != nil
	run.SetRule("schedules of Put/Get/FindMissing on real hierarchical CAS stores over instance names {'', a, ab, a/b, a/b/c, b} (string- but not " +
		"component-prefixes included), the same content uploaded under several names (aliases), uploads interleaved chunk by chunk, rotations; " +
		"oracle: an object is returned / reported present under J only if a successful upload under a component-wise prefix of J exists; " +
		"non-trivial = at least one block rotation; distinct by script hash")
	stx.Main(run, model, "C10", []string{"C10", "C01"}, []string{"hier"}, 2500, 16000)
}
