package c10

import (
	"strings"
	"testing"

	"verifharness/hx"
	"verifharness/stx"
)

func TestC10(t *testing.T) {
	run := hx.NewRun("C10")
	defer run.Finish(t)
	model, err := hx.StartModel()
	if err != nil {
		t.Fatalf("start model: %v", err)
	}
	defer model.Close()
	run.HasModel = model != nil
	run.SetRule("schedules of Put/Get/FindMissing on real hierarchical CAS stores over instance names {'', a, ab, a/b, a/b/c, b} (string- but not " +
		"component-prefixes included), the same content uploaded under several names (aliases), uploads interleaved chunk by chunk, rotations; " +
		"oracle: an object is returned / reported present under J only if a successful upload under a component-wise prefix of J exists; " +
		"non-trivial = at least one block rotation; distinct by script hash. In addition (no model, oracle only): histories of valid and invalid uploads, reads and " +
		"existence checks on stores built by NewBlobAccessFromConfiguration (hierarchical local backend alone and behind existence_caching), incl. the announced digest key format")
	// stores built from configuration messages (hierarchical local backend alone and behind existence caching)
	if name, script := run.ReplayScript(); script != nil && strings.HasPrefix(script[0], "#cs") {
		cfgCase(run, name, script)
		return
	}
	if run.Replay == "" {
		for name, script := range run.CorpusScripts() {
			if strings.HasPrefix(script[0], "#cs") {
				cfgCase(run, "corpus/"+name, script)
			}
		}
		cfgCases(run, run.Scale(300, 5000))
	}
	stx.Main(run, model, "C10", []string{"C10", "C01"}, []string{"hier"}, 2500, 16000)
}
