package c10

// Stores built from a configuration message, the way bb_storage does it: the hierarchical local backend on its own and
// behind an existence_caching decorator. The decorators key their own state by the digest key format the backend
// announces (BlobAccessInfo.DigestKeyFormat), so the tenant separation of the hierarchical store depends on that
// announcement as well. There is no Lean model behind this part: the oracle is the statement of C10 itself, evaluated
// on a map from content to the instance names it was uploaded under (the stores are far too large to evict anything
// during a case).

import (
	"context"
	"fmt"
	"sort"
	"strconv"
	"strings"

	"github.com/buildbarn/bb-storage/pkg/blobstore/buffer"
	blobstore_configuration "github.com/buildbarn/bb-storage/pkg/blobstore/configuration"
	"github.com/buildbarn/bb-storage/pkg/digest"
	"github.com/buildbarn/bb-storage/pkg/program"
	pb "github.com/buildbarn/bb-storage/pkg/proto/configuration/blobstore"
	digest_pb "github.com/buildbarn/bb-storage/pkg/proto/configuration/digest"
	eviction_pb "github.com/buildbarn/bb-storage/pkg/proto/configuration/eviction"
	"google.golang.org/grpc/codes"
	"google.golang.org/grpc/status"
	"google.golang.org/protobuf/types/known/durationpb"
	"google.golang.org/protobuf/types/known/emptypb"

	"verifharness/hx"
	"verifharness/stx"
)

var cfgInstances = []string{"", "a", "ab", "a/b", "a/b/c", "b", "a-", "a-/b",
	strings.Repeat("z", 220) + "/a", strings.Repeat("z", 220) + "/b", strings.Repeat("z", 220)}

func localConfiguration(hierarchical bool) *pb.BlobAccessConfiguration {
	return &pb.BlobAccessConfiguration{
		Backend: &pb.BlobAccessConfiguration_Local{
			Local: &pb.LocalBlobAccessConfiguration{
				KeyLocationMapBackend: &pb.LocalBlobAccessConfiguration_KeyLocationMapInMemory_{
					KeyLocationMapInMemory: &pb.LocalBlobAccessConfiguration_KeyLocationMapInMemory{Entries: 1021},
				},
				KeyLocationMapMaximumGetAttempts: 16,
				KeyLocationMapMaximumPutAttempts: 64,
				OldBlocks:                        2,
				CurrentBlocks:                    2,
				NewBlocks:                        1,
				BlocksBackend: &pb.LocalBlobAccessConfiguration_BlocksInMemory_{
					BlocksInMemory: &pb.LocalBlobAccessConfiguration_BlocksInMemory{BlockSizeBytes: 4096},
				},
				HierarchicalInstanceNames: hierarchical,
			},
		},
	}
}

// stackConfiguration builds the configuration named by the #cs line: local | existence | fallback.
func stackConfiguration(wrap string, hierarchical bool) *pb.BlobAccessConfiguration {
	c := localConfiguration(hierarchical)
	if wrap == "fallback" {
		// the hierarchical store in front of an (empty, never written) flat store, behind an existence cache: what the
		// cache is keyed by is KeyFormat.Combine of the two backends' formats
		c = &pb.BlobAccessConfiguration{
			Backend: &pb.BlobAccessConfiguration_ReadFallback{
				ReadFallback: &pb.ReadFallbackBlobAccessConfiguration{
					Primary:    c,
					Secondary:  localConfiguration(false),
					Replicator: &pb.BlobReplicatorConfiguration{Mode: &pb.BlobReplicatorConfiguration_Noop{Noop: &emptypb.Empty{}}},
				},
			},
		}
	}
	if wrap == "existence" || wrap == "fallback" {
		c = &pb.BlobAccessConfiguration{
			Backend: &pb.BlobAccessConfiguration_ExistenceCaching{
				ExistenceCaching: &pb.ExistenceCachingBlobAccessConfiguration{
					ExistenceCache: &digest_pb.ExistenceCacheConfiguration{
						CacheSize:              1000,
						CacheDuration:          durationpb.New(3600 * 1e9),
						CacheReplacementPolicy: eviction_pb.CacheReplacementPolicy_LEAST_RECENTLY_USED,
					},
					Backend: c,
				},
			},
		}
	}
	return c
}

func newStack(wrap string, hierarchical bool) (blobstore_configuration.BlobAccessInfo, error) {
	var info blobstore_configuration.BlobAccessInfo
	err := program.RunLocal(context.Background(), func(ctx context.Context, siblingsGroup, dependenciesGroup program.Group) error {
		var err error
		info, err = blobstore_configuration.NewBlobAccessFromConfiguration(dependenciesGroup, stackConfiguration(wrap, hierarchical),
			blobstore_configuration.NewCASBlobAccessCreator(nil, 1<<20, nil))
		return err
	})
	return info, err
}

func cfgDigest(inst string, content int) (digest.Digest, []byte) {
	data := []byte(fmt.Sprintf("content-%d", content))
	return stx.CASDigest(inst, data), data
}

func compPrefix(u, j string) bool {
	return u == "" || u == j || strings.HasPrefix(j, u+"/")
}

// cfgRun executes one script: "#cs <local|existence> <hier 0|1>", then "put <inst#> <content>", "bad <inst#> <content>"
// (an upload with wrong data), "get <inst#> <content>", "fm <inst#> <content>...".
func cfgRun(name string, script []string) []hx.Finding {
	var found []hx.Finding
	oracle := func(what, detail string) {
		for _, f := range found {
			if f.What == what {
				return
			}
		}
		found = append(found, hx.Finding{Kind: "oracle", What: what, Detail: "C10: " + detail, Case: name, Script: script})
	}
	w := strings.Fields(script[0])
	if len(w) != 3 {
		return nil
	}
	hier := w[2] == "1"
	info, err := newStack(w[1], hier)
	if err != nil {
		oracle("a store could not be built from its configuration", err.Error())
		return found
	}
	if hier && w[1] != "fallback" && info.DigestKeyFormat != digest.KeyWithInstance {
		oracle("a hierarchical local store announces a digest key format without the instance name (decorators in front of it share state between instance names)",
			fmt.Sprintf("%s: DigestKeyFormat %v", script[0], info.DigestKeyFormat))
	}
	ba := info.BlobAccess
	uploads := map[int]map[string]bool{}
	allowed := func(inst string, c int) bool {
		for u := range uploads[c] {
			if (hier && compPrefix(u, inst)) || (!hier && (info.DigestKeyFormat == digest.KeyWithoutInstance || u == inst)) {
				return true
			}
		}
		return false
	}
	ctx := context.Background()
	for _, l := range script[1:] {
		f := strings.Fields(l)
		if len(f) < 3 {
			continue
		}
		n := func(i int) int { v, _ := strconv.Atoi(f[i]); return v }
		if n(1) < 0 || n(1) >= len(cfgInstances) {
			continue
		}
		inst := cfgInstances[n(1)]
		switch f[0] {
		case "put", "bad":
			d, data := cfgDigest(inst, n(2))
			if f[0] == "bad" {
				data = append([]byte{}, data...)
				data[0] ^= 1
			}
			err := ba.Put(ctx, d, buffer.NewCASBufferFromByteSlice(d, data, buffer.UserProvided))
			if f[0] == "put" && err != nil {
				oracle("a valid upload into a configured store failed", fmt.Sprintf("%s: %v", l, err))
			}
			if f[0] == "bad" && err == nil {
				oracle("an upload whose data does not match its digest was acknowledged", l)
			}
			if f[0] == "put" && err == nil {
				if uploads[n(2)] == nil {
					uploads[n(2)] = map[string]bool{}
				}
				uploads[n(2)][inst] = true
			}
		case "get":
			d, data := cfgDigest(inst, n(2))
			got, err := ba.Get(ctx, d).ToByteSlice(1 << 20)
			switch {
			case err == nil && string(got) != string(data):
				oracle("a read returned bytes that differ from the uploaded object", fmt.Sprintf("%s: %q", l, got))
			case err == nil && !allowed(inst, n(2)):
				oracle("an object is readable under an instance name although no successful upload under a component-wise prefix of it exists",
					fmt.Sprintf("%s (instance %q); uploaded under %v", l, inst, names(uploads[n(2)])))
			case err != nil && status.Code(err) != codes.NotFound:
				oracle("a read of a configured store failed with something else than NOT_FOUND", fmt.Sprintf("%s: %v", l, err))
			case err != nil && allowed(inst, n(2)):
				oracle("an object stored under a component-wise prefix of the reader's instance name was not found",
					fmt.Sprintf("%s (instance %q); uploaded under %v", l, inst, names(uploads[n(2)])))
			}
		case "fm":
			sb := digest.NewSetBuilder(0)
			byDigest := map[digest.Digest]int{}
			for i := 2; i < len(f); i++ {
				d, _ := cfgDigest(inst, n(i))
				sb.Add(d)
				byDigest[d] = n(i)
			}
			missing, err := ba.FindMissing(ctx, sb.Build())
			if err != nil {
				oracle("an existence check of a configured store failed", fmt.Sprintf("%s: %v", l, err))
				continue
			}
			miss := map[digest.Digest]bool{}
			for _, d := range missing.Items() {
				miss[d] = true
			}
			for d, c := range byDigest {
				if !miss[d] && !allowed(inst, c) {
					oracle("an object is reported present under an instance name although no successful upload under a component-wise prefix of it exists",
						fmt.Sprintf("%s: content %d (instance %q); uploaded under %v", l, c, inst, names(uploads[c])))
				}
				if miss[d] && allowed(inst, c) {
					oracle("an object stored under a component-wise prefix of the caller's instance name was reported missing",
						fmt.Sprintf("%s: content %d (instance %q); uploaded under %v", l, c, inst, names(uploads[c])))
				}
			}
		}
	}
	return found
}

func names(m map[string]bool) []string {
	var r []string
	for k := range m {
		r = append(r, strconv.Quote(k))
	}
	sort.Strings(r)
	return r
}

func cfgGen(r *hx.Rand) []string {
	wrap := []string{"local", "existence", "existence", "fallback"}[r.Intn(4)]
	hier := 1
	if r.Chance(1, 5) {
		hier = 0
	}
	script := []string{fmt.Sprintf("#cs %s %d", wrap, hier)}
	contents := r.Range(1, 3)
	for i, n := 0, r.Range(2, 14); i < n; i++ {
		inst, c := r.Intn(len(cfgInstances)), r.Intn(contents)
		switch x := r.Intn(10); {
		case x < 3:
			script = append(script, fmt.Sprintf("put %d %d", inst, c))
		case x < 4:
			script = append(script, fmt.Sprintf("bad %d %d", inst, c))
		case x < 6:
			script = append(script, fmt.Sprintf("get %d %d", inst, c))
		default:
			l := fmt.Sprintf("fm %d %d", inst, c)
			if r.Chance(1, 2) {
				l += fmt.Sprintf(" %d", r.Intn(contents))
			}
			script = append(script, l)
		}
	}
	return script
}

func cfgCase(run *hx.Run, name string, script []string) {
	found := cfgRun(name, script)
	run.Case(script, len(script) > 3, false)
	run.Count("kind:configured-" + strings.Fields(script[0])[1])
	for _, f := range found {
		f := f
		f.Script = hx.Shrink(script, 1, func(s []string) bool {
			for _, g := range cfgRun(name, s) {
				if g.What == f.What {
					return true
				}
			}
			return false
		})
		for _, g := range cfgRun(name, f.Script) {
			if g.What == f.What {
				f.Detail = g.Detail
			}
		}
		f.Case = name + "/shrunk"
		run.Report(f)
	}
}

func cfgCases(run *hx.Run, n int) {
	for i := 0; i < n && run.Findings() < 6; i++ {
		cfgCase(run, fmt.Sprintf("seed%d/cs%d", run.Seed, i), cfgGen(hx.NewRand(run.Seed, "C10cs", i)))
	}
}
