package c04

import (
	"testing"

	"verifharness/hx"
	"verifharness/stx"
)

func TestC04(t *testing.T) {
	run := hx.NewRun("C04")
	defer run.Finish(t)
	model, err := hx.StartModel()
	if err != nil {
		t.Fatalf("start model: %v", err)
	}
	defer model.Close()
	run.HasModel = model != nil
	run.SetRule("schedules as for C01 on real local stores, biased to few spare blocks so that reservations fail and released blocks stay pinned: " +
		"uploads parked at their source (in-flight writers) and composite reads parked in their slicer (open readers) are held across rotations; " +
		"the model tracks pins/zombies/free and must predict every UNAVAILABLE; oracle: every block reader opened is closed exactly once at quiescence; " +
		"non-trivial = at least one block rotation; distinct by script hash")
	stx.Main(run, model, "C04", []string{"C04"}, []string{"flat", "flati", "hier", "hier", "ac"}, 2500, 16000)
}
