package c06

import (
	"encoding/hex"
	"fmt"
	"strings"

	"github.com/buildbarn/bb-storage/pkg/blobstore/local"

	"verifharness/hx"
)

// scriptedResolver is the BlockReferenceResolver of the codec cases: it knows exactly one block
// reference (for one block index) with one seed.
type scriptedResolver struct {
	ref  local.BlockReference
	idx  int
	seed uint64
	on   bool
}

func (r *scriptedResolver) BlockReferenceToBlockIndex(ref local.BlockReference) (int, uint64, bool) {
	if r.on && ref == r.ref {
		return r.idx, r.seed, true
	}
	return 0, 0, false
}

func (r *scriptedResolver) BlockIndexToBlockReference(idx int) (local.BlockReference, uint64) {
	return r.ref, r.seed
}

// codecCases ties BB.RecordCodec to blockDeviceBackedLocationRecordArray: the bytes Put writes, what Get
// makes of them, of every single-byte corruption of them, and of the same bytes under another seed /
// an unknown reference.
func codecCases(run *hx.Run, model *hx.Model, n int) {
	for i := 0; i < n && run.Findings() < 20; i++ {
		r := hx.NewRand(run.Seed, "C06codec", i)
		slots := r.Range(1, 4)
		slot := r.Intn(slots)
		dev := hx.NewMemDevice(slots * local.BlockDeviceBackedLocationRecordSize)
		res := &scriptedResolver{ref: local.BlockReference{EpochID: uint32(r.Uint64() >> uint(r.PickInt(0, 32, 56))), BlocksFromLast: uint16(r.Uint64() >> uint(r.PickInt(48, 56, 60)))},
			idx: r.Intn(100), seed: r.Uint64(), on: true}
		arr := local.NewBlockDeviceBackedLocationRecordArray(dev, res)
		var key local.Key
		copy(key[:], r.Bytes(32))
		rec := local.LocationRecord{RecordKey: local.LocationRecordKey{Key: key, Attempt: uint32(r.Uint64() >> uint(r.PickInt(32, 56, 61)))},
			Location: local.Location{BlockIndex: res.idx, OffsetBytes: int64(r.Uint64() >> uint(r.PickInt(1, 32, 56))), SizeBytes: int64(r.Uint64() >> uint(r.PickInt(1, 40, 60)))}}
		var lines, impl []string
		fail := func(what, detail string) {
			run.Report(hx.Finding{Kind: "oracle", What: what, Detail: detail, Case: fmt.Sprintf("codec/seed%d/case%d", run.Seed, i), Script: lines, Impl: impl})
		}
		get := func() string {
			got, err := arr.Get(slot)
			if err == local.ErrLocationRecordInvalid {
				return "invalid"
			} else if err != nil {
				return "error"
			}
			return fmt.Sprintf("%d %d %s %d %d %d %d", res.ref.EpochID, res.ref.BlocksFromLast, hx.Hex(got.RecordKey.Key[:]), got.RecordKey.Attempt,
				got.Location.OffsetBytes, got.Location.SizeBytes, got.Location.BlockIndex)
		}
		if err := arr.Put(slot, rec); err != nil {
			fail("record array Put failed", err.Error())
			continue
		}
		raw := append([]byte(nil), dev.Data[slot*local.BlockDeviceBackedLocationRecordSize:(slot+1)*local.BlockDeviceBackedLocationRecordSize]...)
		lines = append(lines, fmt.Sprintf("enc %d %d %d %s %d %d %d", res.seed, res.ref.EpochID, res.ref.BlocksFromLast, hx.Hex(key[:]), rec.RecordKey.Attempt, rec.Location.OffsetBytes, rec.Location.SizeBytes))
		impl = append(impl, hex.EncodeToString(raw))
		dec := func(b []byte, known bool, seed uint64) string {
			if known {
				return fmt.Sprintf("dec %s %d %d %d %d", hex.EncodeToString(b), res.ref.EpochID, res.ref.BlocksFromLast, res.idx, seed)
			}
			return "dec " + hex.EncodeToString(b)
		}
		// plain round trip
		lines = append(lines, dec(raw, true, res.seed))
		back := get()
		impl = append(impl, back)
		want := fmt.Sprintf("%d %d %s %d %d %d %d", res.ref.EpochID, res.ref.BlocksFromLast, hx.Hex(key[:]), rec.RecordKey.Attempt, rec.Location.OffsetBytes, rec.Location.SizeBytes, res.idx)
		if back != want {
			fail("a stored location record does not read back as stored", fmt.Sprintf("got %q want %q", back, want))
		}
		// every single-byte corruption (quick: 6 positions) must invalidate the record
		positions := []int{r.Intn(4), 4 + r.Intn(2), 6 + r.Intn(32), 38 + r.Intn(4), 42 + r.Intn(16), 58 + r.Intn(8)}
		if run.Thorough() {
			positions = nil
			for p := 0; p < local.BlockDeviceBackedLocationRecordSize; p++ {
				positions = append(positions, p)
			}
		}
		for _, p := range positions {
			mut := append([]byte(nil), raw...)
			mut[p] ^= byte(1 << uint(r.Intn(8)))
			copy(dev.Data[slot*local.BlockDeviceBackedLocationRecordSize:], mut)
			lines = append(lines, dec(mut, true, res.seed))
			g := get()
			impl = append(impl, g)
			if g != "invalid" {
				fail("a corrupted location record was accepted as valid", fmt.Sprintf("byte %d flipped: %s", p, g))
			}
		}
		copy(dev.Data[slot*local.BlockDeviceBackedLocationRecordSize:], raw)
		// another seed (epoch seed after an unclean restart): invalid
		old := res.seed
		res.seed ^= 1 << uint(r.Intn(64))
		lines = append(lines, dec(raw, true, res.seed))
		g := get()
		impl = append(impl, g)
		if g != "invalid" {
			fail("a location record checksummed under another epoch seed was accepted", g)
		}
		res.seed = old
		// reference no longer known (block released): invalid
		res.on = false
		lines = append(lines, dec(raw, false, 0))
		g = get()
		impl = append(impl, g)
		if g != "invalid" {
			fail("a location record pointing into an unknown block was accepted", g)
		}
		validated := false
		if model != nil {
			validated = true
			mo := model.Batch(lines)
			run.Compared(len(mo))
			for j := range mo {
				if mo[j] != impl[j] {
					run.Report(hx.Finding{Kind: "disagreement", What: "model/implementation differ",
						Detail: fmt.Sprintf("codec step %d %q: impl=%q model=%q", j, lines[j][:min(60, len(lines[j]))], impl[j], mo[j]),
						Case:   fmt.Sprintf("codec/seed%d/case%d", run.Seed, i), Script: lines, Impl: impl, Model: mo})
					break
				}
			}
		}
		run.Case(lines, true, validated)
		run.Count("codec:" + strings.Fields(lines[len(lines)-1])[0])
	}
}
