// Package c06 ties the Lean index model (BB.Index) to the real
// hashingKeyLocationMap over both record array backends and checks the
// statements of property C06 directly on the observed behaviour.
package c06

import (
	"fmt"
	"strconv"
	"strings"
	"testing"

	"github.com/buildbarn/bb-storage/pkg/blobstore/local"
	"github.com/prometheus/client_golang/prometheus"
	dto "github.com/prometheus/client_model/go"
	"google.golang.org/grpc/codes"
	"google.golang.org/grpc/status"

	"verifharness/hx"
)

const storageType = "verif_c06"

// ---- observing the outcome metric of Put

type outcomeReader struct {
	obs   map[string]prometheus.Observer
	tooIt prometheus.Counter
}

func existing(c prometheus.Collector) prometheus.Collector {
	err := prometheus.DefaultRegisterer.Register(c)
	if are, ok := err.(prometheus.AlreadyRegisteredError); ok {
		return are.ExistingCollector
	}
	panic("metric was not registered by the package under test")
}

func newOutcomeReader() *outcomeReader {
	hv := existing(prometheus.NewHistogramVec(prometheus.HistogramOpts{
		Namespace: "buildbarn", Subsystem: "blobstore", Name: "hashing_key_location_map_put_iterations",
		Help:    "Number of iterations it took for Put()",
		Buckets: prometheus.ExponentialBuckets(1.0, 2.0, 8),
	}, []string{"storage_type", "outcome"})).(*prometheus.HistogramVec)
	cv := existing(prometheus.NewCounterVec(prometheus.CounterOpts{
		Namespace: "buildbarn", Subsystem: "blobstore", Name: "hashing_key_location_map_put_too_many_iterations_total",
		Help: "Number of times Put() discarded an entry, because it took the maximum number of iterations, which may indicate the hash table is too small",
	}, []string{"storage_type"})).(*prometheus.CounterVec)
	r := &outcomeReader{obs: map[string]prometheus.Observer{}, tooIt: cv.WithLabelValues(storageType)}
	for _, o := range []string{"Inserted", "Updated", "IgnoredOlder", "TooManyAttempts"} {
		r.obs[o] = hv.WithLabelValues(storageType, o)
	}
	return r
}

func (r *outcomeReader) snapshot() map[string]uint64 {
	res := map[string]uint64{}
	for k, o := range r.obs {
		var m dto.Metric
		o.(prometheus.Metric).Write(&m)
		res[k] = m.GetHistogram().GetSampleCount()
	}
	var m dto.Metric
	r.tooIt.Write(&m)
	res["TooManyIterations"] = uint64(m.GetCounter().GetValue())
	return res
}

var labelOf = map[string]string{"Inserted": "inserted", "Updated": "updated", "IgnoredOlder": "ignored",
	"TooManyAttempts": "too-many-attempts", "TooManyIterations": "too-many-iterations"}

func (r *outcomeReader) delta(before map[string]uint64) string {
	after := r.snapshot()
	var got []string
	for k, v := range after {
		for i := before[k]; i < v; i++ {
			got = append(got, labelOf[k])
		}
	}
	if len(got) == 1 {
		return got[0]
	}
	return fmt.Sprintf("outcomes%v", got)
}

// ---- one table under test

type config struct {
	records, maxGet, maxPut int
	hashInit                uint64
	backend                 string // mem | dev
}

type sut struct {
	cfg      config
	bl       local.BlockList
	dev      *hx.MemDevice // record array device ("dev" backend)
	klm      local.KeyLocationMap
	blocks   int
	released int
}

func keyOf(id int) local.Key {
	var k local.Key
	k[0] = byte(id)
	k[7] = byte(id * 37)
	k[31] = 0xc6
	return k
}

func newSut(cfg config) *sut {
	bl := local.NewVolatileBlockList(local.NewInMemoryBlockAllocator(16))
	var arr local.LocationRecordArray
	var dev *hx.MemDevice
	if cfg.backend == "dev" {
		dev = hx.NewMemDevice(cfg.records * local.BlockDeviceBackedLocationRecordSize)
		arr = local.NewBlockDeviceBackedLocationRecordArray(dev, bl)
	} else {
		arr = local.NewInMemoryLocationRecordArray(cfg.records, bl)
	}
	return &sut{cfg: cfg, bl: bl, dev: dev,
		klm: local.NewHashingKeyLocationMap(arr, cfg.records, cfg.hashInit, uint32(cfg.maxGet), cfg.maxPut, storageType)}
}

type loc struct{ blk, off, size int64 } // blk absolute

func (l loc) olderThan(o loc) bool { return l.blk < o.blk || (l.blk == o.blk && l.off < o.off) }
func (l loc) samePos(o loc) bool   { return l.blk == o.blk && l.off == o.off }

func (s *sut) get(key int) (string, *loc) {
	l, err := s.klm.Get(keyOf(key))
	if err != nil {
		if status.Code(err) == codes.NotFound {
			return "none", nil
		}
		return "error:" + status.Code(err).String(), nil
	}
	return fmt.Sprintf("%d %d %d", l.BlockIndex, l.OffsetBytes, l.SizeBytes),
		&loc{int64(l.BlockIndex) + int64(s.released), l.OffsetBytes, l.SizeBytes}
}

// exec runs one protocol line against the real code and returns the reply.
func (s *sut) exec(or *outcomeReader, line string) string {
	w := strings.Fields(line)
	n := func(i int) int { v, _ := strconv.Atoi(w[i]); return v }
	switch w[0] {
	case "init", "slot":
		return "ok"
	case "push":
		if err := s.bl.PushBack(); err != nil {
			return "error"
		}
		s.blocks++
		return "ok"
	case "pop":
		if s.blocks == 0 {
			return "bad-op"
		}
		s.bl.PopFront()
		s.blocks--
		s.released++
		return "ok"
	case "put":
		if n(2) >= s.blocks {
			return "bad-op"
		}
		before := or.snapshot()
		if err := s.klm.Put(keyOf(n(1)), local.Location{BlockIndex: n(2), OffsetBytes: int64(n(3)), SizeBytes: int64(n(4))}); err != nil {
			return "error:" + status.Code(err).String()
		}
		return or.delta(before)
	case "putf": // a store whose first record read fails with an I/O error (block device backend)
		if n(2) >= s.blocks || s.dev == nil {
			return "bad-op"
		}
		s.dev.FailRead = func(int64, int) error { return status.Error(codes.Internal, "record device read failed") }
		err := s.klm.Put(keyOf(n(1)), local.Location{BlockIndex: n(2), OffsetBytes: int64(n(3)), SizeBytes: int64(n(4))})
		s.dev.FailRead = nil
		if err != nil {
			return "error:" + status.Code(err).String()
		}
		return "stored-despite-read-error"
	case "get":
		r, _ := s.get(n(1))
		return r
	}
	return "bad-op"
}

// ---- the oracle: C06 stated over observed behaviour

type oracle struct {
	stored map[int][]loc // every location ever stored per key
}

func optEq(a, b *loc) bool {
	if a == nil || b == nil {
		return a == b
	}
	return *a == *b
}

func showOpt(a *loc) string {
	if a == nil {
		return "none"
	}
	return fmt.Sprintf("(abs %d,%d,%d)", a.blk, a.off, a.size)
}

// runCase executes a script on the implementation (and the model), checks the oracle.
// It returns the oracle violation (what, detail) if any.
func runCase(run *hx.Run, or *outcomeReader, model *hx.Model, name string, script []string, report bool) (what, detail string, agree bool, found []hx.Finding) {
	var cfg config
	cfg.backend = "mem"
	keys := map[int]bool{}
	// the init line carries the configuration of the real table as extra words the model ignores? No:
	// the first line is "init g p"; the harness-only configuration is in a "#cfg" comment line before it.
	if len(script) == 0 || !strings.HasPrefix(script[0], "#cfg ") {
		return "bad-script", "missing #cfg line", true, nil
	}
	c := strings.Fields(script[0])
	cfg.records, _ = strconv.Atoi(c[1])
	cfg.maxGet, _ = strconv.Atoi(c[2])
	cfg.maxPut, _ = strconv.Atoi(c[3])
	cfg.hashInit, _ = strconv.ParseUint(c[4], 10, 64)
	cfg.backend = c[5]
	s := newSut(cfg)
	o := &oracle{stored: map[int][]loc{}}
	var lines, impl []string
	emit := func(line string) string {
		r := s.exec(or, line)
		lines = append(lines, line)
		impl = append(impl, r)
		return r
	}
	emit(fmt.Sprintf("init %d %d", cfg.maxGet, cfg.maxPut))
	declare := func(k int) {
		if keys[k] {
			return
		}
		keys[k] = true
		for a := 0; a < cfg.maxGet; a++ {
			rk := local.LocationRecordKey{Key: keyOf(k), Attempt: uint32(a)}
			emit(fmt.Sprintf("slot %d %d %d", k, a, rk.Hash(cfg.hashInit)%uint64(cfg.records)))
		}
	}
	snapshot := func() map[int]*loc {
		m := map[int]*loc{}
		for k := range keys {
			_, l := s.get(k)
			m[k] = l
		}
		return m
	}
	fail := func(w, d string) {
		if what == "" {
			what, detail = w, d
		}
	}
	for _, line := range script[1:] {
		w := strings.Fields(line)
		if len(w) == 0 || w[0] == "init" || w[0] == "slot" {
			continue
		}
		n := func(i int) int { v, _ := strconv.Atoi(w[i]); return v }
		switch w[0] {
		case "put":
			declare(n(1))
			if n(2) >= s.blocks {
				continue
			}
			before := snapshot()
			l := loc{int64(n(2)) + int64(s.released), int64(n(3)), int64(n(4))}
			out := emit(line)
			o.stored[n(1)] = append(o.stored[n(1)], l)
			after := snapshot()
			discard := out == "too-many-attempts" || out == "too-many-iterations"
			changed := 0
			for k := range keys {
				if k == n(1) {
					continue
				}
				b, a := before[k], after[k]
				if optEq(a, b) {
					continue
				}
				changed++
				if !discard {
					fail("store changed the lookup result of another key without reporting a discard",
						fmt.Sprintf("%q (outcome %s): key %d: %s -> %s", line, out, k, showOpt(b), showOpt(a)))
				} else if a != nil && (b == nil || b.olderThan(*a)) {
					fail("discard made another key resolve to a newer or previously absent location",
						fmt.Sprintf("%q: key %d: %s -> %s", line, k, showOpt(b), showOpt(a)))
				}
			}
			if changed > 1 {
				fail("one store changed the lookup result of more than one other key", fmt.Sprintf("%q: %d keys changed", line, changed))
			}
			// self
			b, a := before[n(1)], after[n(1)]
			want := &l
			if b != nil && !b.olderThan(l) {
				want = b
			}
			okSelf := a != nil && a.samePos(*want)
			if discard && !okSelf {
				okSelf = optEq(a, b) // the stored entry itself was the one discarded
			}
			if !okSelf {
				fail("after storing an entry its key does not resolve to the newer of old and new location",
					fmt.Sprintf("%q (outcome %s): before %s after %s", line, out, showOpt(b), showOpt(a)))
			}
		case "putf":
			declare(n(1))
			if n(2) >= s.blocks || s.dev == nil {
				continue
			}
			before := snapshot()
			out := emit(line)
			after := snapshot()
			if !strings.HasPrefix(out, "error:") {
				fail("a store whose record read failed with an I/O error reported success", fmt.Sprintf("%q -> %s", line, out))
			}
			for k := range keys {
				if !optEq(before[k], after[k]) {
					fail("a store that could not read the record slot changed the lookup result of a key", fmt.Sprintf("%q: key %d: %s -> %s", line, k, showOpt(before[k]), showOpt(after[k])))
				}
			}
		case "get":
			declare(n(1))
			emit(line)
			_, l := s.get(n(1))
			if l != nil {
				found := false
				for _, x := range o.stored[n(1)] {
					if x == *l {
						found = true
					}
				}
				if !found {
					fail("lookup returned a location that was never stored for that key", fmt.Sprintf("%q: %s", line, showOpt(l)))
				}
				if l.blk < int64(s.released) {
					fail("lookup returned a location in a released block", fmt.Sprintf("%q: %s", line, showOpt(l)))
				}
			}
		case "getn":
			// getn <k1> <k2>: a lookup of k1 that is overtaken by a lookup of k2 between its read of a record and its
			// use of what it read (lookups run under the read side of the store's lock, i.e. concurrently). The model
			// sees a plain "get k1".
			declare(n(1))
			declare(n(2))
			alone, _ := s.get(n(1))
			other, _ := s.get(n(2))
			if s.dev != nil {
				nested := false
				s.dev.OnReadDone = func(int64, int) {
					if nested {
						return
					}
					nested = true
					if got, _ := s.get(n(2)); got != other {
						fail("a lookup running inside another lookup returned something else than on its own", fmt.Sprintf("%q: key %d: %s, alone %s", line, n(2), got, other))
					}
					nested = false
				}
			}
			got := emit(fmt.Sprintf("get %d", n(1)))
			if s.dev != nil {
				s.dev.OnReadDone = nil
			}
			if got != alone {
				fail("a lookup overtaken by another lookup returned something else than on its own", fmt.Sprintf("%q: key %d: %s, alone %s", line, n(1), got, alone))
			}
		case "push":
			if s.blocks < 8 {
				emit(line)
			}
		case "pop":
			if s.blocks == 0 {
				continue
			}
			before := snapshot()
			emit(line)
			after := snapshot()
			for k := range keys {
				b, a := before[k], after[k]
				want := b
				if b != nil && b.blk < int64(s.released) {
					want = nil
				}
				if !optEq(a, want) {
					fail("releasing a block did not remove exactly the entries pointing into it",
						fmt.Sprintf("pop #%d: key %d: before %s after %s", s.released, k, showOpt(b), showOpt(a)))
				}
			}
		}
	}
	agree = true
	validated := false
	if model != nil {
		mo := model.Batch(lines)
		validated = true
		run.Compared(len(mo))
		for i := range mo {
			if i < len(impl) && mo[i] != impl[i] {
				agree = false
				found = append(found, hx.Finding{Kind: "disagreement", What: "model/implementation differ",
					Detail: fmt.Sprintf("step %d %q: impl=%q model=%q", i, lines[i], impl[i], mo[i]),
					Case:   name, Script: script, Impl: impl, Model: mo})
				break
			}
		}
	}
	if report {
		nontrivial := len(keys) >= 2 && len(lines) >= 6
		run.Case(append([]string{script[0]}, lines...), nontrivial, validated)
		for _, r := range impl {
			w := strings.SplitN(r, " ", 2)[0]
			if _, err := strconv.Atoi(w); err == nil {
				w = "found"
			}
			run.Count("reply:" + w)
		}
	}
	if what != "" {
		found = append(found, hx.Finding{Kind: "oracle", What: what, Detail: detail, Case: name, Script: script, Impl: impl})
	}
	return what, detail, agree, found
}

func genScript(r *hx.Rand, nops int) []string {
	records := r.PickInt(1, 2, 2, 3, 3, 4, 5, 7, 11)
	maxGet := r.Range(1, 4)
	maxPut := r.Range(1, 6)
	backend := "mem"
	if r.Chance(1, 2) {
		backend = "dev"
	}
	nkeys := r.Range(2, 7)
	script := []string{fmt.Sprintf("#cfg %d %d %d %d %s", records, maxGet, maxPut, r.Uint64(), backend)}
	blocks := r.Range(1, 3)
	for i := 0; i < blocks; i++ {
		script = append(script, "push")
	}
	offs := []int{0, 0, 1, 5, 8, 15}
	size := func() int { return r.Intn(4) }
	if r.Chance(1, 5) {
		// wide locations: offsets and sizes are 64 bit quantities in both record array backends; values that
		// agree in their low 32 bits must stay distinct
		offs = []int{0, 1, 5, 1 << 32, 1<<32 + 1, 1<<32 + 5, 1<<40 + 1, 1<<62 + 5, 1<<32 - 1}
		size = func() int { return r.PickInt(0, 1, 2, 3, 1<<32, 1<<32+1, 1<<32+2, 1<<33+3, 1<<62+1) }
	}
	for i := 0; i < nops; i++ {
		switch x := r.Intn(100); {
		case x < 55 && blocks > 0:
			// bias towards the newest block (that is what the store does), but allow any
			b := blocks - 1
			if r.Chance(1, 3) {
				b = r.Intn(blocks)
			}
			script = append(script, fmt.Sprintf("put %d %d %d %d", r.Intn(nkeys), b, offs[r.Intn(len(offs))], size()))
		case x < 59 && blocks > 0 && backend == "dev":
			script = append(script, fmt.Sprintf("putf %d %d %d %d", r.Intn(nkeys), blocks-1, offs[r.Intn(len(offs))], size()))
		case x < 76:
			script = append(script, fmt.Sprintf("get %d", r.Intn(nkeys)))
		case x < 80:
			script = append(script, fmt.Sprintf("getn %d %d", r.Intn(nkeys), r.Intn(nkeys)))
		case x < 90:
			if blocks < 8 {
				script = append(script, "push")
				blocks++
			}
		default:
			if blocks > 0 {
				script = append(script, "pop")
				blocks--
			}
		}
	}
	return script
}

func TestC06(t *testing.T) {
	run := hx.NewRun("C06")
	defer run.Finish(t)
	// make sure the package registered its metrics
	local.NewHashingKeyLocationMap(local.NewInMemoryLocationRecordArray(1, local.NewVolatileBlockList(local.NewInMemoryBlockAllocator(1))), 1, 0, 1, 1, storageType)
	or := newOutcomeReader()
	model, err := hx.StartModel()
	if err != nil {
		t.Fatalf("start model: %v", err)
	}
	defer model.Close()
	run.HasModel = model != nil
	run.SetRule("random histories of put/get/push/pop on tables of 1..11 records, 2..7 keys, both record array backends; " +
		"a case is non-trivial when it touches >= 2 keys and has >= 6 effective operations; distinct by script hash")

	handle := func(name string, script []string) {
		what, _, agree, found := runCase(run, or, model, name, script, true)
		if what != "" || !agree {
			// shrink for the replay
			small := hx.Shrink(script, 1, func(s []string) bool {
				w, _, a, _ := runCase(run, or, model, name, s, false)
				if what != "" {
					return w == what
				}
				return !a
			})
			if len(small) < len(script) {
				if _, _, _, f2 := runCase(run, or, model, name+"/shrunk", small, false); len(f2) > 0 {
					found = f2
				}
			}
		}
		for _, f := range found {
			run.Report(f)
		}
	}

	if name, script := run.ReplayScript(); script != nil {
		what, detail, agree, found := runCase(run, or, model, name, script, true)
		for _, f := range found {
			run.Report(f)
			t.Logf("impl:  %v", f.Impl)
			t.Logf("model: %v", f.Model)
		}
		t.Logf("replay %s: oracle=%q %s agree=%v", name, what, detail, agree)
		return
	}
	for name, script := range run.CorpusScripts() {
		handle("corpus/"+name, script)
	}
	n := run.Scale(6000, 120000)
	for i := 0; i < n && run.Findings() < 20; i++ {
		r := hx.NewRand(run.Seed, "C06", i)
		handle(fmt.Sprintf("seed%d/case%d", run.Seed, i), genScript(r, r.Range(10, 60)))
	}
	codecCases(run, model, run.Scale(1500, 6000))
	if run.Thorough() && run.Findings() == 0 {
		exhaustive(run, or, model, handle)
	}
}

// exhaustive enumerates all sequences of <= 5 operations over 3 keys x 3 locations on tables of <= 3 records.
func exhaustive(run *hx.Run, or *outcomeReader, model *hx.Model, handle func(string, []string)) {
	var ops []string
	for k := 0; k < 3; k++ {
		for _, l := range []string{"0 0 1", "0 4 1", "1 0 1"} {
			ops = append(ops, fmt.Sprintf("put %d %s", k, l))
		}
	}
	ops = append(ops, "pop")
	count := 0
	for records := 1; records <= 3; records++ {
		for _, lim := range [][2]int{{1, 1}, {2, 2}, {2, 3}, {3, 4}} {
			hdr := []string{fmt.Sprintf("#cfg %d %d %d %d mem", records, lim[0], lim[1], uint64(14695981039346656037)), "push", "push"}
			var rec func(prefix []string, depth int)
			rec = func(prefix []string, depth int) {
				if depth == 0 {
					s := append(append([]string{}, hdr...), prefix...)
					s = append(s, "get 0", "get 1", "get 2")
					handle(fmt.Sprintf("exh/%d-%d-%d/%d", records, lim[0], lim[1], count), s)
					count++
					return
				}
				for _, o := range ops {
					rec(append(prefix, o), depth-1)
				}
			}
			rec(nil, 4)
		}
	}
	run.Extra("exhaustive_sequences", count)
}
