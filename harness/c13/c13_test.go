// Package c13 ties the Lean completeness-checking model (BB.Completeness) to the
// real completenessCheckingBlobAccess of /repo and checks the statements of
// property C13 directly on the observed behaviour.
//
// One case = one script in the harness's own compact syntax (everything that is
// derived - hashes, marshaled sizes, which top-level fields of a Tree are
// delivered before a reader fails - is recomputed from it, so that a shrunk
// script is still consistent):
//
//	cfg <batch> <maxMsg> <budget> <md5|sha256> <consistent 0|1> <arVariant>
//	ac err <code>                       the Action Cache fails (default: returns the ActionResult)
//	file D | stdout D | stderr D | dir <tree D> <root D>
//	tree <k> <mode> [args]              start Tree k (referenced as t<k>)
//	d <fieldNumber> <variant> <nfiles> D...   a Directory in a length-delimited top-level field
//	raw <hex>                           raw bytes the parser must reject (last field of the Tree)
//	missing D...                        digests the CAS reports missing
//	fault <callIndex> <code>            the CAS call with that index (FindMissing and Get counted together) fails
//	acswap <D> read|fm                  the Action Cache entry is overwritten while the request is in flight: every read
//	                                    after the first one (read) / every read after the first FindMissing on the CAS (fm)
//	                                    returns the message with one more output file <D>
//	composite whole | slice <off> <len> | fail <code>
//	                                    read through GetFromComposite with a slicer that returns the parent, a byte
//	                                    range of it, or (after reading the parent) an error of its own
//
//	D ::= - | bad:<kind> | f<id>.<size> | t<k> | u:<f..|t..> | U:<f..|t..>
//	      (u: / U: = that digest with one / every hexadecimal letter of its hash in upper case: malformed)
//
// Tree modes: cas (NewCASBufferFromByteSlice), proto (NewProtoBufferFromProto),
// raw <declaredSize|-1> (unvalidated bytes), stream <chunk> (NewCASBufferFromReader),
// geterr <code> <size>, trunc <P> <chunk> <together>, corrupt <chunk>,
// ioerr <P> <code> <chunk>, cut <P> <chunk|0> (the first P bytes stored under their own digest).
//
// A script consisting of the single line "visit <hex>" (optionally followed by
// "#expect ...") compares util.VisitProtoBytesFields with the wire-level model.
package c13

import (
	"bytes"
	"context"
	"crypto/md5"
	"crypto/sha256"
	"encoding/hex"
	"fmt"
	"io"
	"os"
	"sort"
	"strconv"
	"strings"
	"testing"
	"time"

	remoteexecution "github.com/bazelbuild/remote-apis/build/bazel/remote/execution/v2"
	"github.com/buildbarn/bb-storage/pkg/blobstore"
	"github.com/buildbarn/bb-storage/pkg/blobstore/buffer"
	"github.com/buildbarn/bb-storage/pkg/blobstore/completenesschecking"
	"github.com/buildbarn/bb-storage/pkg/blobstore/slicing"
	"github.com/buildbarn/bb-storage/pkg/digest"
	"github.com/buildbarn/bb-storage/pkg/util"
	"google.golang.org/grpc/codes"
	"google.golang.org/grpc/status"
	"google.golang.org/protobuf/encoding/protowire"
	"google.golang.org/protobuf/proto"
	"google.golang.org/protobuf/reflect/protoreflect"

	"verifharness/hx"
)

const instanceName = "verif/c13"

// ---------------------------------------------------------------- tokens

type dtok struct {
	kind  byte // '-', 'b', 'f', 't', 'u' (one letter upper case), 'U' (all letters upper case)
	n     int
	size  int64
	inner byte // for 'u'/'U': 'f' or 't'
}

func parseD(s string) (dtok, bool) {
	switch {
	case s == "-":
		return dtok{kind: '-'}, true
	case strings.HasPrefix(s, "bad:"):
		k, err := strconv.Atoi(s[4:])
		return dtok{kind: 'b', n: k}, err == nil && k >= 0
	case strings.HasPrefix(s, "u:"), strings.HasPrefix(s, "U:"):
		in, ok := parseD(s[2:])
		if !ok || (in.kind != 'f' && in.kind != 't') {
			return dtok{}, false
		}
		return dtok{kind: s[0], n: in.n, size: in.size, inner: in.kind}, true
	case strings.HasPrefix(s, "t"):
		k, err := strconv.Atoi(s[1:])
		return dtok{kind: 't', n: k}, err == nil && k >= 0
	case strings.HasPrefix(s, "f"):
		p := strings.SplitN(s[1:], ".", 2)
		if len(p) != 2 {
			return dtok{}, false
		}
		id, err1 := strconv.Atoi(p[0])
		sz, err2 := strconv.ParseInt(p[1], 10, 64)
		return dtok{kind: 'f', n: id, size: sz}, err1 == nil && err2 == nil && id >= 0 && sz >= 0
	}
	return dtok{}, false
}

func (d dtok) String() string {
	switch d.kind {
	case '-':
		return "-"
	case 'b':
		return fmt.Sprintf("bad:%d", d.n)
	case 't':
		return fmt.Sprintf("t%d", d.n)
	case 'u', 'U':
		return string(d.kind) + ":" + dtok{kind: d.inner, n: d.n, size: d.size}.String()
	}
	return fmt.Sprintf("f%d.%d", d.n, d.size)
}

func parseDs(ws []string) ([]dtok, bool) {
	r := make([]dtok, 0, len(ws))
	for _, w := range ws {
		d, ok := parseD(w)
		if !ok {
			return nil, false
		}
		r = append(r, d)
	}
	return r, true
}

// ---------------------------------------------------------------- case description

type fieldSpec struct {
	raw     []byte
	isRaw   bool
	num     int
	variant int
	files   []dtok
	dirs    []dtok
}

type treeSpec struct {
	k      int
	mode   string
	args   []int64
	fields []fieldSpec
}

type caseSpec struct {
	batch, maxMsg int
	budget        int64
	fn            string
	consistent    bool
	arVariant     int
	acErr         int // -1: none
	files         []dtok
	dirs          [][2]dtok
	stdout        dtok
	stderr        dtok
	trees         []*treeSpec
	missing       []dtok
	faults        map[int]int
	swap          *dtok // non-nil: later reads of the AC return the message plus this output file
	swapOnFM      bool
	composite     string // "" (Get), whole, slice, fail
	cargs         []int
}

var modeArity = map[string]int{"cas": 0, "proto": 0, "raw": 1, "stream": 1, "geterr": 2, "trunc": 3, "corrupt": 1, "ioerr": 3, "cut": 2}

func parseSpec(script []string) (*caseSpec, error) {
	c := &caseSpec{acErr: -1, stdout: dtok{kind: '-'}, stderr: dtok{kind: '-'}, faults: map[int]int{}}
	if len(script) == 0 {
		return nil, fmt.Errorf("empty script")
	}
	var cur *treeSpec
	for i, line := range script {
		w := strings.Fields(line)
		if len(w) == 0 || strings.HasPrefix(w[0], "#") {
			continue
		}
		bad := fmt.Errorf("line %d unparsable: %q", i, line)
		atoi := func(s string) (int, bool) { v, err := strconv.Atoi(s); return v, err == nil }
		if i == 0 {
			if w[0] != "cfg" || len(w) != 7 {
				return nil, bad
			}
			var ok1, ok2, ok4, ok5 bool
			c.batch, ok1 = atoi(w[1])
			c.maxMsg, ok2 = atoi(w[2])
			b, err := strconv.ParseInt(w[3], 10, 64)
			c.budget = b
			c.fn = w[4]
			var cons int
			cons, ok4 = atoi(w[5])
			c.arVariant, ok5 = atoi(w[6])
			c.consistent = cons != 0
			if !ok1 || !ok2 || err != nil || !ok4 || !ok5 || (c.fn != "md5" && c.fn != "sha256") || c.batch < 0 || c.maxMsg < 0 || c.budget < 0 {
				return nil, bad
			}
			continue
		}
		switch w[0] {
		case "ac":
			if len(w) != 3 || w[1] != "err" {
				return nil, bad
			}
			v, ok := atoi(w[2])
			if !ok || v <= 0 || v > 16 {
				return nil, bad
			}
			c.acErr = v
		case "file", "stdout", "stderr":
			if len(w) != 2 {
				return nil, bad
			}
			d, ok := parseD(w[1])
			if !ok {
				return nil, bad
			}
			switch w[0] {
			case "file":
				c.files = append(c.files, d)
			case "stdout":
				c.stdout = d
			default:
				c.stderr = d
			}
		case "dir":
			if len(w) != 3 {
				return nil, bad
			}
			t, ok1 := parseD(w[1])
			r, ok2 := parseD(w[2])
			if !ok1 || !ok2 {
				return nil, bad
			}
			c.dirs = append(c.dirs, [2]dtok{t, r})
		case "tree":
			if len(w) < 3 {
				return nil, bad
			}
			k, ok := atoi(w[1])
			ar, known := modeArity[w[2]]
			if !ok || !known || len(w) != 3+ar {
				return nil, bad
			}
			for _, t := range c.trees {
				if t.k == k {
					return nil, bad
				}
			}
			cur = &treeSpec{k: k, mode: w[2]}
			for _, a := range w[3:] {
				v, err := strconv.ParseInt(a, 10, 64)
				if err != nil {
					return nil, bad
				}
				cur.args = append(cur.args, v)
			}
			c.trees = append(c.trees, cur)
		case "d":
			if cur == nil || len(w) < 4 {
				return nil, bad
			}
			num, ok1 := atoi(w[1])
			variant, ok2 := atoi(w[2])
			nf, ok3 := atoi(w[3])
			ds, ok4 := parseDs(w[4:])
			if !ok1 || !ok2 || !ok3 || !ok4 || nf < 0 || nf > len(ds) || num < 1 || num > 1<<31-1 {
				return nil, bad
			}
			for _, d := range ds {
				if d.kind == 't' || d.inner == 't' {
					return nil, bad
				}
			}
			cur.fields = append(cur.fields, fieldSpec{num: num, variant: variant, files: ds[:nf], dirs: ds[nf:]})
		case "raw":
			if cur == nil || len(w) != 2 {
				return nil, bad
			}
			b, err := hex.DecodeString(w[1])
			if err != nil || len(b) == 0 {
				return nil, bad
			}
			cur.fields = append(cur.fields, fieldSpec{isRaw: true, raw: b})
		case "missing":
			ds, ok := parseDs(w[1:])
			if !ok {
				return nil, bad
			}
			c.missing = append(c.missing, ds...)
		case "acswap":
			if len(w) != 3 || (w[2] != "read" && w[2] != "fm") {
				return nil, bad
			}
			d, ok := parseD(w[1])
			if !ok || d.kind == '-' {
				return nil, bad
			}
			c.swap = &d
			c.swapOnFM = w[2] == "fm"
		case "composite":
			want := map[string]int{"whole": 2, "slice": 4, "fail": 3}
			if len(w) < 2 || want[w[1]] != len(w) {
				return nil, bad
			}
			c.composite = w[1]
			c.cargs = nil
			for _, a := range w[2:] {
				v, ok := atoi(a)
				if !ok || v < 0 || (w[1] == "fail" && (v == 0 || v > 16)) {
					return nil, bad
				}
				c.cargs = append(c.cargs, v)
			}
		case "fault":
			if len(w) != 3 {
				return nil, bad
			}
			i, ok1 := atoi(w[1])
			v, ok2 := atoi(w[2])
			if !ok1 || !ok2 || i < 0 || v <= 0 || v > 16 {
				return nil, bad
			}
			if _, dup := c.faults[i]; !dup {
				c.faults[i] = v
			}
		default:
			return nil, bad
		}
	}
	return c, nil
}

// ---------------------------------------------------------------- building the real inputs

type fieldInfo struct {
	start, end int
	kind       byte // 'd' Directory in field 1/2, 's' other length-delimited field, 'm' rejected
	dir        *remoteexecution.Directory
	dirSize    int
	spec       *fieldSpec
}

type builtTree struct {
	spec      *treeSpec
	full      []byte
	fields    []fieldInfo
	stored    []byte // what the reader hands out at most
	digest    *remoteexecution.Digest
	key       string
	mode      string // effective mode
	chunk     int
	together  bool
	ioCode    int
	visible   []fieldInfo // events the visitor experiences, in order
	readErr   int         // -1: the reader ends cleanly
	bad       bool        // cannot be read completely and cleanly as a Tree (generator knowledge)
	delivered int         // bytes the decorator can have seen before the reader failed
	treeMsg   *remoteexecution.Tree
}

type builtCase struct {
	spec       *caseSpec
	fn         digest.Function
	ar         *remoteexecution.ActionResult
	arSize     int
	swapped    *remoteexecution.ActionResult
	trees      map[int]*builtTree
	byKey      map[string]*builtTree
	order      []*builtTree // distinct digests, in definition order
	missing    map[string]bool
	ids        map[string]int
	modelLines []string
}

func hashOf(fn string, b []byte) string {
	if fn == "md5" {
		s := md5.Sum(b)
		return hex.EncodeToString(s[:])
	}
	s := sha256.Sum256(b)
	return hex.EncodeToString(s[:])
}

func keyOf(hash string, size int64) string { return hash + "." + strconv.FormatInt(size, 10) }

// wellFormed is the harness's own notion of a well-formed digest under the case's digest function
// (deliberately not the repository's validation): the hash has exactly the length of the function's
// lower case hexadecimal checksum, every character is in [0-9a-f] (upper case is malformed), and
// the size is not negative. It returns the key (hash.size) of a well-formed digest.
func wellFormed(fn string, dg *remoteexecution.Digest) (string, bool) {
	want := 32
	if fn == "sha256" {
		want = 64
	}
	if len(dg.GetHash()) != want || dg.GetSizeBytes() < 0 {
		return "", false
	}
	for i := 0; i < len(dg.Hash); i++ {
		c := dg.Hash[i]
		if !(c >= '0' && c <= '9') && !(c >= 'a' && c <= 'f') {
			return "", false
		}
	}
	return keyOf(dg.Hash, dg.SizeBytes), true
}

// casKey identifies an object the way a CAS keyed by checksum bytes does: decoded hash + size.
func casKey(d digest.Digest) string {
	return keyOf(hex.EncodeToString(d.GetHashBytes()), d.GetSizeBytes())
}

func upperHash(h string, all bool) string {
	if all {
		return strings.ToUpper(h)
	}
	for i := 0; i < len(h); i++ {
		if h[i] >= 'a' && h[i] <= 'f' {
			return h[:i] + strings.ToUpper(h[i:i+1]) + h[i+1:]
		}
	}
	return h[:len(h)-1] + "A"
}

// badDigest returns one of the malformed digest messages.
func badDigest(fn string, kind int) *remoteexecution.Digest {
	good := hashOf(fn, []byte("bad"))
	switch kind % 9 {
	case 7: // a present object's digest, every letter in upper case
		return &remoteexecution.Digest{Hash: upperHash(hashOf(fn, []byte("f1")), true), SizeBytes: 5}
	case 8: // ... one letter in upper case
		return &remoteexecution.Digest{Hash: upperHash(hashOf(fn, []byte("f2")), false), SizeBytes: 1}
	case 0:
		return &remoteexecution.Digest{Hash: "abc", SizeBytes: 3}
	case 1:
		return &remoteexecution.Digest{Hash: good[:len(good)-1] + "g", SizeBytes: 3}
	case 2:
		return &remoteexecution.Digest{Hash: strings.ToUpper(good[:len(good)-1]) + "A", SizeBytes: 3}
	case 3:
		return &remoteexecution.Digest{Hash: good, SizeBytes: -1}
	case 4:
		return &remoteexecution.Digest{}
	case 5:
		if fn == "md5" {
			return &remoteexecution.Digest{Hash: hashOf("sha256", []byte("x")), SizeBytes: 1}
		}
		return &remoteexecution.Digest{Hash: hashOf("md5", []byte("x")), SizeBytes: 1}
	}
	return &remoteexecution.Digest{Hash: good + "00", SizeBytes: 7}
}

func (bc *builtCase) resolve(d dtok) *remoteexecution.Digest {
	switch d.kind {
	case 'b':
		return badDigest(bc.spec.fn, d.n)
	case 'u', 'U':
		dg := bc.resolve(dtok{kind: d.inner, n: d.n, size: d.size})
		dg.Hash = upperHash(dg.Hash, d.kind == 'U')
		return dg
	case 'f':
		return &remoteexecution.Digest{Hash: hashOf(bc.spec.fn, []byte(fmt.Sprintf("f%d", d.n))), SizeBytes: d.size}
	case 't':
		if t, ok := bc.trees[d.n]; ok {
			return proto.Clone(t.digest).(*remoteexecution.Digest)
		}
		// a Tree that was never defined: a digest the CAS knows nothing about
		return &remoteexecution.Digest{Hash: hashOf(bc.spec.fn, []byte(fmt.Sprintf("t%d", d.n))), SizeBytes: 77}
	}
	return nil
}

func buildDirectory(bc *builtCase, fs *fieldSpec) *remoteexecution.Directory {
	d := &remoteexecution.Directory{}
	for i, t := range fs.files {
		n := &remoteexecution.FileNode{Name: fmt.Sprintf("f%d", i), Digest: bc.resolve(t)}
		if fs.variant&8 != 0 && i%2 == 0 {
			n.IsExecutable = true
		}
		if fs.variant&16 != 0 && i == 0 {
			n.Name = strings.Repeat("n", 150)
		}
		if fs.variant&32 != 0 {
			n.Name = ""
		}
		d.Files = append(d.Files, n)
	}
	for i, t := range fs.dirs {
		n := &remoteexecution.DirectoryNode{Name: fmt.Sprintf("d%d", i), Digest: bc.resolve(t)}
		if fs.variant&32 != 0 {
			n.Name = ""
		}
		d.Directories = append(d.Directories, n)
	}
	if fs.variant&1 != 0 {
		d.Symlinks = append(d.Symlinks, &remoteexecution.SymlinkNode{Name: "l", Target: "../x"})
	}
	if fs.variant&2 != 0 {
		d.NodeProperties = &remoteexecution.NodeProperties{Properties: []*remoteexecution.NodeProperty{{Name: "p", Value: "v"}}}
	}
	if fs.variant&4 != 0 {
		d.ProtoReflect().SetUnknown(protowire.AppendVarint(protowire.AppendTag(nil, 99, protowire.VarintType), 7))
	}
	return d
}

func lastChunk(n, chunk int) int {
	if n <= 0 {
		return 0
	}
	if n%chunk == 0 {
		return chunk
	}
	return n % chunk
}

func clampInt(v int64, lo, hi int) int {
	if v < int64(lo) {
		return lo
	}
	if v > int64(hi) {
		return hi
	}
	return int(v)
}

func (bc *builtCase) buildTree(ts *treeSpec) (*builtTree, error) {
	t := &builtTree{spec: ts, readErr: -1, mode: ts.mode, chunk: 1 << 20}
	canonical := true
	for i := range ts.fields {
		fs := &ts.fields[i]
		start := len(t.full)
		if fs.isRaw {
			t.full = append(t.full, fs.raw...)
			t.fields = append(t.fields, fieldInfo{start: start, end: len(t.full), kind: 'm', spec: fs})
			canonical = false
			break // everything after a rejected field is never looked at
		}
		dir := buildDirectory(bc, fs)
		body, err := proto.MarshalOptions{Deterministic: true}.Marshal(dir)
		if err != nil {
			return nil, err
		}
		t.full = protowire.AppendTag(t.full, protowire.Number(fs.num), protowire.BytesType)
		t.full = protowire.AppendBytes(t.full, body)
		kind := byte('s')
		if fs.num == 1 || fs.num == 2 {
			kind = 'd'
		}
		if (i == 0) != (fs.num == 1) || kind != 'd' {
			canonical = false
		}
		t.fields = append(t.fields, fieldInfo{start: start, end: len(t.full), kind: kind, dir: dir, dirSize: len(body), spec: fs})
	}
	if len(ts.fields) == 0 {
		canonical = false
	}
	n := len(t.full)
	arg := func(i int) int64 { return ts.args[i] }
	chunkArg := func(i int) int { return clampInt(arg(i), 1, 64) }
	if t.mode == "proto" && !canonical {
		t.mode = "cas"
	}
	if (t.mode == "trunc" && n == 0) || n > 3500 {
		t.mode = "cas" // nothing to truncate / chunk bookkeeping only exact for small objects
	}
	t.stored = t.full
	realDigest := func(b []byte) *remoteexecution.Digest {
		return &remoteexecution.Digest{Hash: hashOf(bc.spec.fn, b), SizeBytes: int64(len(b))}
	}
	t.digest = realDigest(t.full)
	t.delivered = n
	cutAt := -1
	switch t.mode {
	case "cas":
	case "proto":
		t.treeMsg = &remoteexecution.Tree{}
		for i, f := range t.fields {
			if i == 0 {
				t.treeMsg.Root = f.dir
			} else {
				t.treeMsg.Children = append(t.treeMsg.Children, f.dir)
			}
		}
	case "raw":
		if arg(0) >= 0 {
			t.digest.SizeBytes = arg(0)
		}
	case "stream":
		t.chunk = chunkArg(0)
	case "geterr":
		t.digest = &remoteexecution.Digest{Hash: hashOf(bc.spec.fn, []byte(fmt.Sprintf("t%d", ts.k))), SizeBytes: int64(clampInt(arg(1), 0, 1<<30))}
		t.readErr = clampInt(arg(0), 1, 16)
		t.delivered = 0
	case "trunc":
		p := clampInt(arg(0), 0, n-1)
		t.chunk = chunkArg(1)
		t.together = arg(2) != 0
		t.stored = t.full[:p]
		t.delivered = p
		if t.together {
			t.delivered = p - lastChunk(p, t.chunk)
		}
		t.readErr = int(codes.Internal)
	case "corrupt":
		t.chunk = chunkArg(0)
		h := []byte(t.digest.Hash)
		if h[len(h)-1] == '0' {
			h[len(h)-1] = '1'
		} else {
			h[len(h)-1] = '0'
		}
		t.digest.Hash = string(h)
		t.delivered = n - lastChunk(n, t.chunk)
		t.readErr = int(codes.Internal)
	case "ioerr":
		p := clampInt(arg(0), 0, n)
		t.ioCode = clampInt(arg(1), 1, 16)
		t.chunk = chunkArg(2)
		t.stored = t.full[:p]
		t.delivered = p
		if p == n {
			t.delivered = n - lastChunk(n, t.chunk)
		}
		t.readErr = t.ioCode
	case "cut":
		cutAt = clampInt(arg(0), 0, n)
		t.stored = t.full[:cutAt]
		t.digest = realDigest(t.stored)
		t.delivered = cutAt
		if arg(1) > 0 {
			t.chunk = chunkArg(1)
		}
	}
	t.key = keyOf(t.digest.Hash, t.digest.SizeBytes)
	// what the visitor experiences
	if t.mode != "geterr" {
		for _, f := range t.fields {
			if f.end <= t.delivered {
				t.visible = append(t.visible, f)
				if f.kind == 'm' {
					break
				}
				continue
			}
			if f.start < t.delivered && cutAt >= 0 {
				// a strict, non-empty prefix of a field followed by a clean end of file
				t.visible = append(t.visible, fieldInfo{start: f.start, end: t.delivered, kind: 'm'})
			}
			break
		}
		if t.readErr >= 0 {
			// the read error wins over whatever the parser says about a rejected field
			for len(t.visible) > 0 && t.visible[len(t.visible)-1].kind == 'm' {
				t.visible = t.visible[:len(t.visible)-1]
			}
		}
	}
	t.bad = t.readErr >= 0
	for _, f := range t.visible {
		if f.kind == 'm' || (f.kind == 'd' && f.dirSize > bc.spec.maxMsg) {
			t.bad = true
		}
	}
	return t, nil
}

func build(spec *caseSpec) (*builtCase, error) {
	enum := remoteexecution.DigestFunction_MD5
	if spec.fn == "sha256" {
		enum = remoteexecution.DigestFunction_SHA256
	}
	bc := &builtCase{spec: spec, fn: digest.MustNewFunction(instanceName, enum), trees: map[int]*builtTree{},
		byKey: map[string]*builtTree{}, missing: map[string]bool{}, ids: map[string]int{}}
	for _, ts := range spec.trees {
		t, err := bc.buildTree(ts)
		if err != nil {
			return nil, err
		}
		bc.trees[ts.k] = t
		if _, dup := bc.byKey[t.key]; !dup {
			bc.byKey[t.key] = t
			bc.order = append(bc.order, t)
		}
	}
	ar := &remoteexecution.ActionResult{}
	for i, f := range spec.files {
		of := &remoteexecution.OutputFile{Path: fmt.Sprintf("out/f%d.o", i), Digest: bc.resolve(f)}
		if spec.arVariant&1 != 0 && i%2 == 1 {
			of.Contents = []byte("inlined contents")
			of.IsExecutable = true
		}
		ar.OutputFiles = append(ar.OutputFiles, of)
	}
	for i, d := range spec.dirs {
		od := &remoteexecution.OutputDirectory{Path: fmt.Sprintf("out/d%d", i), TreeDigest: bc.resolve(d[0]), RootDirectoryDigest: bc.resolve(d[1])}
		if spec.arVariant&2 != 0 {
			od.IsTopologicallySorted = true
		}
		ar.OutputDirectories = append(ar.OutputDirectories, od)
	}
	ar.StdoutDigest = bc.resolve(spec.stdout)
	ar.StderrDigest = bc.resolve(spec.stderr)
	if spec.arVariant&4 != 0 {
		ar.StdoutRaw = []byte("hello stdout")
		ar.StderrRaw = bytes.Repeat([]byte("e"), 40)
	}
	if spec.arVariant&8 != 0 {
		ar.ExitCode = 3
		ar.OutputSymlinks = append(ar.OutputSymlinks, &remoteexecution.OutputSymlink{Path: "out/l", Target: "f0.o"})
		ar.ExecutionMetadata = &remoteexecution.ExecutedActionMetadata{Worker: "w1"}
	}
	bc.ar = ar
	bc.arSize = proto.Size(ar)
	if spec.swap != nil {
		bc.swapped = proto.Clone(ar).(*remoteexecution.ActionResult)
		bc.swapped.OutputFiles = append(bc.swapped.OutputFiles, &remoteexecution.OutputFile{Path: "out/overwritten", Digest: bc.resolve(*spec.swap)})
	}
	for _, m := range spec.missing {
		if dg := bc.resolve(m); dg != nil && m.kind != 'b' {
			bc.missing[keyOf(dg.Hash, dg.SizeBytes)] = true
		}
	}
	bc.render()
	return bc, nil
}

// ---------------------------------------------------------------- rendering for the model

func (bc *builtCase) idOf(hash string) int {
	if id, ok := bc.ids[hash]; ok {
		return id
	}
	id := len(bc.ids) + 1
	bc.ids[hash] = id
	return id
}

func (bc *builtCase) modelD(d dtok) string {
	switch d.kind {
	case '-':
		return "-"
	case 'b':
		return fmt.Sprintf("bad:%d", d.n)
	case 'u':
		return "bad:8"
	case 'U':
		return "bad:7"
	}
	dg := bc.resolve(d)
	return fmt.Sprintf("%d.%d", bc.idOf(dg.Hash), dg.SizeBytes)
}

func (bc *builtCase) render() {
	s := bc.spec
	l := []string{fmt.Sprintf("reset %d %d %d", s.batch, s.maxMsg, s.budget)}
	if s.acErr >= 0 {
		l = append(l, fmt.Sprintf("ac err %d", s.acErr))
	} else {
		l = append(l, fmt.Sprintf("ac ok %d %s %s", bc.arSize, bc.modelD(s.stdout), bc.modelD(s.stderr)))
	}
	for _, f := range s.files {
		l = append(l, "file "+bc.modelD(f))
	}
	for _, d := range s.dirs {
		l = append(l, fmt.Sprintf("dir %s %s", bc.modelD(d[0]), bc.modelD(d[1])))
	}
	for _, t := range bc.order {
		if s.consistent && bc.missing[t.key] {
			continue // the CAS answers NOT_FOUND for an object it reports missing
		}
		re := "-"
		if t.readErr >= 0 {
			re = strconv.Itoa(t.readErr)
		}
		l = append(l, fmt.Sprintf("blob %d.%d %s", bc.idOf(t.digest.Hash), t.digest.SizeBytes, re))
		for _, f := range t.visible {
			switch f.kind {
			case 'm':
				l = append(l, "ev malformed")
			case 's':
				l = append(l, "ev skip")
			default:
				w := []string{"ev", "dir", strconv.Itoa(f.dirSize), strconv.Itoa(len(f.spec.files))}
				for _, d := range f.spec.files {
					w = append(w, bc.modelD(d))
				}
				for _, d := range f.spec.dirs {
					w = append(w, bc.modelD(d))
				}
				l = append(l, strings.Join(w, " "))
			}
		}
	}
	if bc.swapped != nil && s.acErr < 0 {
		l = append(l, fmt.Sprintf("acswap %d %s", proto.Size(bc.swapped), bc.modelD(*s.swap)))
	}
	if len(bc.missing) > 0 {
		w := []string{"missing"}
		var ms []string
		for _, m := range s.missing {
			if m.kind == 'f' || m.kind == 't' {
				ms = append(ms, bc.modelD(m))
			}
		}
		l = append(l, strings.Join(append(w, ms...), " "))
	}
	var fk []int
	for k := range s.faults {
		fk = append(fk, k)
	}
	sort.Ints(fk)
	for _, k := range fk {
		l = append(l, fmt.Sprintf("fault %d %d", k, s.faults[k]))
	}
	switch s.composite {
	case "":
		l = append(l, "run")
	case "fail":
		l = append(l, fmt.Sprintf("runc %d", s.cargs[0]))
	default:
		l = append(l, "runc -")
	}
	bc.modelLines = l
}

// ---------------------------------------------------------------- recording backends

type scriptedReader struct {
	t        *builtTree
	data     []byte
	pos      int
	chunk    int
	together bool
	endErr   error
	handed   int
	lastN    int
	closed   bool
}

func (r *scriptedReader) Read(p []byte) (int, error) {
	if r.pos >= len(r.data) {
		return 0, r.endErr
	}
	n := r.chunk
	if n > len(p) {
		n = len(p)
	}
	if n > len(r.data)-r.pos {
		n = len(r.data) - r.pos
	}
	copy(p, r.data[r.pos:r.pos+n])
	r.pos += n
	r.handed += n
	r.lastN = n
	if r.pos >= len(r.data) && r.together {
		return n, r.endErr
	}
	return n, nil
}

func (r *scriptedReader) Close() error { r.closed = true; return nil }

type recCAS struct {
	bc         *builtCase
	idx        int
	calls      []string
	faultHit   bool
	maxBatch   int
	checked    map[string]bool
	readers    []*scriptedReader
	unexpected string
	fmSeen     bool
}

func (r *recCAS) GetCapabilities(ctx context.Context, instanceName digest.InstanceName) (*remoteexecution.ServerCapabilities, error) {
	return nil, status.Error(codes.Unimplemented, "not used")
}

func (r *recCAS) showDigest(d digest.Digest) (int, int64, string) {
	h := hex.EncodeToString(d.GetHashBytes())
	id, ok := r.bc.ids[h]
	if !ok || d.GetDigestFunction() != r.bc.fn {
		return 1 << 30, d.GetSizeBytes(), "?" + d.String()
	}
	return id, d.GetSizeBytes(), fmt.Sprintf("%d.%d", id, d.GetSizeBytes())
}

func (r *recCAS) FindMissing(ctx context.Context, digests digest.Set) (digest.Set, error) {
	i := r.idx
	r.idx++
	r.fmSeen = true
	type ent struct {
		id   int
		size int64
		s    string
	}
	var es []ent
	for _, d := range digests.Items() {
		id, sz, s := r.showDigest(d)
		es = append(es, ent{id, sz, s})
	}
	sort.Slice(es, func(a, b int) bool {
		if es[a].id != es[b].id {
			return es[a].id < es[b].id
		}
		return es[a].size < es[b].size
	})
	ss := make([]string, len(es))
	for k, e := range es {
		ss[k] = e.s
	}
	r.calls = append(r.calls, "fm["+strings.Join(ss, ",")+"]")
	if len(es) > r.maxBatch {
		r.maxBatch = len(es)
	}
	if c, ok := r.bc.spec.faults[i]; ok {
		r.faultHit = true
		return digest.EmptySet, status.Error(codes.Code(c), "injected CAS fault")
	}
	sb := digest.NewSetBuilder(0)
	for _, d := range digests.Items() {
		k := casKey(d)
		if r.bc.missing[k] {
			sb.Add(d)
		} else {
			r.checked[k] = true
		}
	}
	return sb.Build(), nil
}

func (r *recCAS) Get(ctx context.Context, d digest.Digest) buffer.Buffer {
	i := r.idx
	r.idx++
	_, _, s := r.showDigest(d)
	r.calls = append(r.calls, "get["+s+"]")
	if c, ok := r.bc.spec.faults[i]; ok {
		r.faultHit = true
		return buffer.NewBufferFromError(status.Error(codes.Code(c), "injected CAS fault"))
	}
	k := casKey(d)
	t, ok := r.bc.byKey[k]
	if !ok || (r.bc.spec.consistent && r.bc.missing[k]) {
		return buffer.NewBufferFromError(status.Error(codes.NotFound, "Object not found"))
	}
	src := buffer.BackendProvided(func(dataIsValid bool) {})
	reader := func(endErr error) buffer.Buffer {
		sr := &scriptedReader{t: t, data: t.stored, chunk: t.chunk, together: t.together, endErr: endErr}
		r.readers = append(r.readers, sr)
		return buffer.NewCASBufferFromReader(d, sr, src)
	}
	switch t.mode {
	case "proto":
		return buffer.NewProtoBufferFromProto(t.treeMsg, src)
	case "raw":
		return buffer.NewValidatedBufferFromByteSlice(t.stored)
	case "geterr":
		return buffer.NewBufferFromError(status.Error(codes.Code(t.readErr), "scripted Get failure"))
	case "stream", "trunc", "corrupt":
		return reader(io.EOF)
	case "ioerr":
		return reader(status.Error(codes.Code(t.ioCode), "scripted read failure"))
	case "cut":
		if t.chunk <= 64 {
			return reader(io.EOF)
		}
	}
	return buffer.NewCASBufferFromByteSlice(d, t.stored, src)
}

func (r *recCAS) GetFromComposite(ctx context.Context, parent, child digest.Digest, slicer slicing.BlobSlicer) buffer.Buffer {
	r.unexpected = "GetFromComposite on the CAS"
	return buffer.NewBufferFromError(status.Error(codes.Unimplemented, "unexpected"))
}

func (r *recCAS) Put(ctx context.Context, d digest.Digest, b buffer.Buffer) error {
	r.unexpected = "Put on the CAS"
	b.Discard()
	return status.Error(codes.Unimplemented, "unexpected")
}

type recAC struct {
	bc         *builtCase
	gets       int
	composites int
	unexpected string
	cas        *recCAS
	firstBytes []byte // the message of the first read of this request, as marshaled for the buffer
}

func (a *recAC) GetCapabilities(ctx context.Context, instanceName digest.InstanceName) (*remoteexecution.ServerCapabilities, error) {
	return nil, status.Error(codes.Unimplemented, "not used")
}

func (a *recAC) Get(ctx context.Context, d digest.Digest) buffer.Buffer {
	a.gets++
	if a.bc.spec.acErr >= 0 {
		return buffer.NewBufferFromError(status.Error(codes.Code(a.bc.spec.acErr), "scripted Action Cache failure"))
	}
	msg := a.bc.ar
	if a.bc.swapped != nil && ((!a.bc.spec.swapOnFM && a.gets > 1) || (a.bc.spec.swapOnFM && a.cas.fmSeen)) {
		msg = a.bc.swapped
	}
	if a.gets == 1 {
		a.firstBytes, _ = proto.Marshal(msg)
	}
	return buffer.NewProtoBufferFromProto(proto.Clone(msg), buffer.BackendProvided(func(bool) {}))
}

// GetFromComposite behaves like every plain backend: slice what Get returns. The decorator must
// not delegate to it (it would bypass the check); whether it does shows in the property oracles.
func (a *recAC) GetFromComposite(ctx context.Context, parent, child digest.Digest, slicer slicing.BlobSlicer) buffer.Buffer {
	a.composites++
	b, _ := slicer.Slice(a.Get(ctx, parent), child)
	return b
}

func (a *recAC) Put(ctx context.Context, d digest.Digest, b buffer.Buffer) error {
	a.unexpected = "Put on the AC"
	b.Discard()
	return status.Error(codes.Unimplemented, "unexpected")
}

func (a *recAC) FindMissing(ctx context.Context, digests digest.Set) (digest.Set, error) {
	a.unexpected = "FindMissing on the AC"
	return digest.EmptySet, status.Error(codes.Unimplemented, "unexpected")
}

var (
	_ blobstore.BlobAccess = (*recCAS)(nil)
	_ blobstore.BlobAccess = (*recAC)(nil)
)

// ---------------------------------------------------------------- slicers

// scriptedSlicer is a slicing.BlobSlicer that only has the buffer it is given: it reads the
// parent (an error of the parent is what it returns) and hands out the parent, a byte range of
// it, or an error of its own.
type scriptedSlicer struct {
	mode  string
	args  []int
	calls int
}

func (sl *scriptedSlicer) Slice(b buffer.Buffer, childDigest digest.Digest) (buffer.Buffer, []slicing.BlobSlice) {
	sl.calls++
	if sl.mode == "whole" {
		return b, nil
	}
	data, err := b.ToByteSlice(1 << 30)
	if err != nil {
		return buffer.NewBufferFromError(err), nil
	}
	if sl.mode == "fail" {
		return buffer.NewBufferFromError(status.Error(codes.Code(sl.args[0]), "scripted slicing failure")), nil
	}
	lo, hi := sliceRange(len(data), sl.args)
	return buffer.NewValidatedBufferFromByteSlice(data[lo:hi]), nil
}

func sliceRange(n int, args []int) (int, int) {
	lo := args[0]
	if lo > n {
		lo = n
	}
	hi := lo + args[1]
	if hi > n {
		hi = n
	}
	return lo, hi
}

// ---------------------------------------------------------------- running the real code

type observed struct {
	outcome  string // result | error <code> | panic
	code     codes.Code
	returned proto.Message
	bytes    []byte
	cas      *recCAS
	ac       *recAC
	panicMsg string
}

func runReal(bc *builtCase) (o observed) {
	o.cas = &recCAS{bc: bc, checked: map[string]bool{}}
	o.ac = &recAC{bc: bc, cas: o.cas}
	defer func() {
		if p := recover(); p != nil {
			o.outcome = "panic"
			o.panicMsg = fmt.Sprint(p)
		}
	}()
	ba := completenesschecking.NewCompletenessCheckingBlobAccess(o.ac, o.cas, bc.spec.batch, bc.spec.maxMsg, bc.spec.budget)
	actionDigest := digest.MustNewDigest(instanceName, bc.fn.GetEnumValue(), hashOf(bc.spec.fn, []byte("action")), 123)
	if bc.spec.composite != "" {
		childDigest := digest.MustNewDigest(instanceName, bc.fn.GetEnumValue(), hashOf(bc.spec.fn, []byte("child")), 5)
		sl := &scriptedSlicer{mode: bc.spec.composite, args: bc.spec.cargs}
		data, err := ba.GetFromComposite(context.Background(), actionDigest, childDigest, sl).ToByteSlice(1 << 30)
		if sl.calls != 1 {
			o.cas.unexpected = fmt.Sprintf("slicer called %d times", sl.calls)
		}
		if err != nil {
			o.code = status.Code(err)
			o.outcome = fmt.Sprintf("error %d", int(o.code))
			return
		}
		o.outcome = "result"
		o.bytes = data
		return
	}
	data, err := ba.Get(context.Background(), actionDigest).ToByteSlice(1 << 30)
	if err != nil {
		o.code = status.Code(err)
		o.outcome = fmt.Sprintf("error %d", int(o.code))
		return
	}
	o.outcome = "result"
	o.bytes = data
	return
}

// ---------------------------------------------------------------- the oracle: C13 stated over what was observed

// digestsIn collects every Digest message reachable from m (any field, any depth).
func digestsIn(m protoreflect.Message, out *[]*remoteexecution.Digest) {
	if dg, ok := m.Interface().(*remoteexecution.Digest); ok {
		*out = append(*out, dg)
		return
	}
	m.Range(func(fd protoreflect.FieldDescriptor, v protoreflect.Value) bool {
		if fd.Message() == nil || fd.IsMap() {
			return true
		}
		if fd.IsList() {
			l := v.List()
			for i := 0; i < l.Len(); i++ {
				digestsIn(l.Get(i).Message(), out)
			}
			return true
		}
		digestsIn(v.Message(), out)
		return true
	})
}

type expectation struct {
	refs        map[string]bool // well-formed digests the action result references (transitively through its Trees)
	malformed   bool
	noTree      bool // an output directory without tree digest
	treeBad     bool // a referenced Tree cannot be read completely and cleanly (other than being absent)
	treeAbsent  bool // the CAS has no such object
	treeInvalid bool // a referenced Tree is rejected with INVALID_ARGUMENT or a non-NOT_FOUND read error
	overBudget  bool
	arTooLarge  bool
}

func expect(bc *builtCase) expectation { return expectFor(bc, bc.ar, bc.arSize) }

// expectFor evaluates what message ar references and what is wrong with it.
func expectFor(bc *builtCase, ar *remoteexecution.ActionResult, arSize int) expectation {
	e := expectation{refs: map[string]bool{}}
	note := func(dg *remoteexecution.Digest) {
		if dg == nil {
			return
		}
		k, ok := wellFormed(bc.spec.fn, dg)
		if !ok {
			e.malformed = true
			return
		}
		e.refs[k] = true
	}
	var top []*remoteexecution.Digest
	digestsIn(ar.ProtoReflect(), &top)
	for _, dg := range top {
		note(dg)
	}
	var total int64
	for _, od := range ar.OutputDirectories {
		if od.TreeDigest == nil {
			e.noTree = true
			continue
		}
		k, ok := wellFormed(bc.spec.fn, od.TreeDigest)
		if !ok {
			continue
		}
		total += od.TreeDigest.SizeBytes
		if total > bc.spec.budget {
			e.overBudget = true
		}
		t, ok := bc.byKey[k]
		if !ok || (bc.spec.consistent && bc.missing[k]) {
			e.treeAbsent = true
			continue
		}
		if t.bad {
			e.treeBad = true
			if !(t.mode == "geterr" && t.readErr == int(codes.NotFound)) {
				e.treeInvalid = true
			}
			continue
		}
		for _, f := range t.visible {
			if f.kind != 'd' {
				continue
			}
			for _, n := range f.dir.Files {
				note(n.Digest)
			}
			if od.RootDirectoryDigest != nil {
				for _, n := range f.dir.Directories {
					note(n.Digest)
				}
			}
		}
	}
	e.arTooLarge = arSize > bc.spec.maxMsg
	return e
}

const (
	whatMissing     = "result returned although a referenced object is missing from the CAS"
	whatUnchecked   = "result returned although a referenced object was never reported present by FindMissing during the call"
	whatMalformed   = "result returned although the action result or one of its Trees contains a malformed digest"
	whatTree        = "result returned although a Tree is absent, unreadable, corrupted or malformed"
	whatBudget      = "result returned although the combined Tree size exceeds the configured maximum"
	whatFault       = "result returned although a CAS call of this request failed"
	whatACFail      = "result returned although the Action Cache failed or the message exceeds the maximum size"
	whatDiffers     = "returned message differs from the stored action result"
	whatNotChecked  = "the message handed to the caller is not byte-identical to the message that was checked (the first Action Cache read of the request)"
	whatACReads     = "the action cache was read more than once during one Get: the result returned is not the one checked"
	whatBatch       = "FindMissing batch larger than the configured batch size"
	whatNotFound    = "incomplete action result did not yield NOT_FOUND"
	whatPanic       = "completeness checking panicked"
	whatUnexpected  = "decorator called a backend method it has no business calling"
	whatWireTiling  = "VisitProtoBytesFields reported success but the fields do not tile the input"
	whatWireExpect  = "VisitProtoBytesFields did not report exactly the fields of a well-formed message"
	whatWireVisitor = "VisitProtoBytesFields result depends on how much of a field the visitor reads"
)

func oracle(bc *builtCase, o observed) (what, detail string) {
	fail := func(w, d string) {
		if what == "" {
			what, detail = w, d
		}
	}
	if o.outcome == "panic" {
		fail(whatPanic, o.panicMsg)
		return
	}
	if o.cas.unexpected != "" || o.ac.unexpected != "" {
		fail(whatUnexpected, o.cas.unexpected+o.ac.unexpected)
	}
	e := expect(bc)
	// the property is about what the caller RECEIVED: parse it and evaluate the references of that message
	var received *remoteexecution.ActionResult
	if o.outcome == "result" && (bc.spec.composite == "" || bc.spec.composite == "whole") {
		received = &remoteexecution.ActionResult{}
		if err := proto.Unmarshal(o.bytes, received); err != nil {
			fail(whatDiffers, "the returned bytes are not an ActionResult: "+err.Error())
			received = nil
		} else {
			e = expectFor(bc, received, len(o.bytes))
		}
	}
	lim := bc.spec.batch
	if lim < 1 {
		lim = 1
	}
	if o.cas.maxBatch > lim {
		fail(whatBatch, fmt.Sprintf("batch of %d digests with batch size %d: %v", o.cas.maxBatch, bc.spec.batch, o.cas.calls))
	}
	var missingRefs []string
	for k := range e.refs {
		if bc.missing[k] {
			missingRefs = append(missingRefs, k)
		}
	}
	sort.Strings(missingRefs)
	if o.outcome == "result" {
		if bc.spec.acErr >= 0 || e.arTooLarge {
			fail(whatACFail, fmt.Sprintf("ac error %d, message size %d, maximum %d", bc.spec.acErr, bc.arSize, bc.spec.maxMsg))
		}
		if e.malformed {
			fail(whatMalformed, "")
		}
		if e.noTree || e.treeBad || e.treeAbsent {
			fail(whatTree, fmt.Sprintf("noTreeDigest=%v bad=%v absent=%v", e.noTree, e.treeBad, e.treeAbsent))
		}
		if e.overBudget {
			fail(whatBudget, fmt.Sprintf("budget %d", bc.spec.budget))
		}
		if o.cas.faultHit {
			fail(whatFault, fmt.Sprintf("calls %v faults %v", o.cas.calls, bc.spec.faults))
		}
		if len(missingRefs) > 0 {
			fail(whatMissing, fmt.Sprintf("missing %v; calls %v", missingRefs, o.cas.calls))
		}
		var un []string
		for k := range e.refs {
			if !o.cas.checked[k] {
				un = append(un, k)
			}
		}
		sort.Strings(un)
		if len(un) > 0 {
			fail(whatUnchecked, fmt.Sprintf("never checked %v; calls %v", un, o.cas.calls))
		}
		switch bc.spec.composite {
		case "", "whole":
			if received != nil && !proto.Equal(received, bc.ar) {
				fail(whatDiffers, "")
			}
		case "slice":
			if full, err := proto.Marshal(bc.ar); err == nil {
				lo, hi := sliceRange(len(full), bc.spec.cargs)
				if !bytes.Equal(o.bytes, full[lo:hi]) {
					fail(whatDiffers, "slice through GetFromComposite")
				}
			}
		case "fail":
			fail(whatDiffers, "a failing slicer yielded data")
		}
	}
	// incomplete, nothing else wrong => exactly NOT_FOUND
	if received != nil {
		e = expect(bc)
	}
	if bc.spec.acErr < 0 && !e.arTooLarge && !o.cas.faultHit && !e.treeInvalid {
		incomplete := len(missingRefs) > 0 || e.malformed || e.noTree || e.treeAbsent || e.treeBad || e.overBudget
		if incomplete && o.outcome != fmt.Sprintf("error %d", int(codes.NotFound)) {
			fail(whatNotFound, fmt.Sprintf("outcome %q; missing %v malformed=%v noTree=%v absent=%v overBudget=%v", o.outcome, missingRefs, e.malformed, e.noTree, e.treeAbsent, e.overBudget))
		}
	}
	// weaker statements last, so that they do not hide what an extra read led to
	if received != nil && !bytes.Equal(o.bytes, o.ac.firstBytes) {
		fail(whatNotChecked, fmt.Sprintf("first read had %d output files, the caller received %d", len(bc.ar.OutputFiles), len(received.OutputFiles)))
	}
	if o.ac.gets != 1 {
		fail(whatACReads, fmt.Sprintf("%d reads of the Action Cache", o.ac.gets))
	}
	return
}

// ---------------------------------------------------------------- one case

type caseResult struct {
	impl, model  string
	what, detail string
	agree        bool
	found        []hx.Finding
	ncalls       int
	valid        bool
	outcome      string
	universe     []dtok
}

func universeOf(spec *caseSpec) []dtok {
	seen := map[dtok]bool{}
	var u []dtok
	add := func(d dtok) {
		if (d.kind == 'f' || d.kind == 't') && !seen[d] {
			seen[d] = true
			u = append(u, d)
		}
	}
	for _, f := range spec.files {
		add(f)
	}
	for _, d := range spec.dirs {
		add(d[0])
		add(d[1])
	}
	add(spec.stdout)
	add(spec.stderr)
	for _, t := range spec.trees {
		for _, f := range t.fields {
			for _, d := range f.files {
				add(d)
			}
			for _, d := range f.dirs {
				add(d)
			}
		}
	}
	return u
}

func runCase(run *hx.Run, model *hx.Model, name string, script []string, report bool) (res caseResult) {
	res.agree = true
	if len(script) > 0 && strings.HasPrefix(script[0], "visit ") {
		return runWireCase(run, model, name, script, report)
	}
	if len(script) > 0 && strings.HasPrefix(script[0], "configured ") {
		return runConfiguredCase(run, model, name, script, report)
	}
	spec, err := parseSpec(script)
	if err != nil {
		return
	}
	bc, err := build(spec)
	if err != nil {
		return
	}
	res.valid = true
	res.universe = universeOf(spec)
	o := runReal(bc)
	res.outcome = o.outcome
	res.ncalls = o.cas.idx
	impl := o.outcome
	if o.outcome != "panic" {
		impl += fmt.Sprintf(" ac:%d", o.ac.gets)
	}
	if len(o.cas.calls) > 0 {
		impl += " " + strings.Join(o.cas.calls, " ")
	}
	res.impl = impl
	// the chunking the model input rests on must be the chunking that happened
	for _, sr := range o.cas.readers {
		if sr.pos >= len(sr.data) && len(sr.data) > 0 && sr.lastN != lastChunk(len(sr.data), sr.chunk) {
			run.Count("harness:chunk-bookkeeping-mismatch")
			res.valid = false
			return
		}
	}
	res.what, res.detail = oracle(bc, o)
	validated := false
	var mo string
	if model != nil {
		replies := model.Batch(bc.modelLines)
		validated = true
		run.Compared(1)
		mo = replies[len(replies)-1]
		defer func() { res.model = mo }()
		for i, r := range replies[:len(replies)-1] {
			if r != "ok" {
				mo = fmt.Sprintf("model rejected line %d %q: %s", i, bc.modelLines[i], r)
				break
			}
		}
		if mo != impl {
			res.agree = false
			res.found = append(res.found, hx.Finding{Kind: "disagreement", What: "model/implementation differ",
				Detail: fmt.Sprintf("impl=%q model=%q; model input: %s", impl, mo, strings.Join(bc.modelLines, " | ")),
				Case:   name, Script: script, Impl: []string{impl}, Model: []string{mo}})
		}
	}
	if report {
		e := expect(bc)
		nontrivial := len(e.refs) >= 2 && o.cas.idx >= 1
		run.Case(script, nontrivial, validated)
		run.Count("outcome:" + strings.SplitN(o.outcome, " ", 2)[0] + func() string {
			if o.code == codes.NotFound && o.outcome != "result" {
				return ":NOT_FOUND"
			} else if o.outcome != "result" {
				return ":other"
			}
			return ""
		}())
		run.Count(fmt.Sprintf("refs:%s", bucket(len(e.refs))))
		run.Count(fmt.Sprintf("batch:%d", min(spec.batch, 5)))
		run.Count(fmt.Sprintf("cas-calls:%s", bucket(o.cas.idx)))
		run.Count(fmt.Sprintf("output-directories:%d", min(len(spec.dirs), 4)))
		for _, t := range bc.order {
			run.Count("tree-mode:" + t.mode)
		}
		if len(spec.faults) > 0 {
			run.Count("with-fault")
		}
		if spec.swap != nil {
			run.Count("with-ac-overwrite")
		}
		if spec.composite != "" {
			run.Count("entry:GetFromComposite/" + spec.composite)
		} else {
			run.Count("entry:Get")
		}
		if len(bc.missing) > 0 {
			run.Count("with-missing")
		}
		if e.malformed {
			run.Count("with-malformed-digest")
		}
	}
	if res.what != "" {
		res.found = append(res.found, hx.Finding{Kind: "oracle", What: res.what, Detail: res.detail + "; observed: " + impl, Case: name, Script: script, Impl: []string{impl}, Model: []string{mo}})
	}
	return
}

func bucket(n int) string {
	switch {
	case n <= 3:
		return strconv.Itoa(n)
	case n <= 6:
		return "4-6"
	case n <= 10:
		return "7-10"
	}
	return "11+"
}

// ---------------------------------------------------------------- wire-level cases

func visitReal(b []byte, readMode int) string {
	var fields []string
	err := util.VisitProtoBytesFields(bytes.NewReader(b), func(num protowire.Number, off, size int64, fr io.Reader) error {
		fields = append(fields, fmt.Sprintf("%d:%d:%d", num, off, size))
		switch readMode {
		case 1:
			_, err := io.Copy(io.Discard, fr)
			return err
		case 2:
			var one [1]byte
			fr.Read(one[:])
		}
		return nil
	})
	r := "ok"
	if err != nil {
		r = "error"
	}
	return strings.Join(append([]string{r}, fields...), " ")
}

func runWireCase(run *hx.Run, model *hx.Model, name string, script []string, report bool) (res caseResult) {
	res.agree = true
	w := strings.Fields(script[0])
	if len(w) != 2 {
		return
	}
	var b []byte
	if w[1] != "-" {
		var err error
		if b, err = hex.DecodeString(w[1]); err != nil {
			return
		}
	}
	res.valid = true
	impl := func() (s string) {
		defer func() {
			if p := recover(); p != nil {
				s = fmt.Sprintf("panic: %v", p)
			}
		}()
		return visitReal(b, 0)
	}()
	fail := func(wh, d string) {
		if res.what == "" {
			res.what, res.detail = wh, d
		}
	}
	if strings.HasPrefix(impl, "panic") {
		fail(whatPanic, impl)
	} else {
		for m := 1; m <= 2; m++ {
			if other := visitReal(b, m); other != impl {
				fail(whatWireVisitor, fmt.Sprintf("read nothing: %q, read mode %d: %q", impl, m, other))
			}
		}
		f := strings.Fields(impl)
		if f[0] == "ok" {
			end := 0
			okTiling := true
			for _, x := range f[1:] {
				var num, off, size int
				fmt.Sscanf(x, "%d:%d:%d", &num, &off, &size)
				if off <= end || off+size > len(b) || num < 1 {
					okTiling = false
				}
				end = off + size
			}
			if end != len(b) || !okTiling {
				fail(whatWireTiling, impl)
			}
		}
		for _, l := range script[1:] {
			if strings.HasPrefix(l, "#expect ") && strings.TrimPrefix(l, "#expect ") != impl {
				fail(whatWireExpect, fmt.Sprintf("expected %q got %q", strings.TrimPrefix(l, "#expect "), impl))
			}
		}
	}
	validated := false
	var mo string
	if model != nil {
		mo = model.Batch([]string{script[0]})[0]
		validated = true
		run.Compared(1)
		if mo != impl {
			res.agree = false
			res.found = append(res.found, hx.Finding{Kind: "disagreement", What: "model/implementation differ",
				Detail: fmt.Sprintf("%s: impl=%q model=%q", script[0], impl, mo), Case: name, Script: script, Impl: []string{impl}, Model: []string{mo}})
		}
	}
	if report {
		run.Case(script, len(b) >= 4, validated)
		run.Count("wire:" + strings.Fields(impl)[0])
	}
	if res.what != "" {
		res.found = append(res.found, hx.Finding{Kind: "oracle", What: res.what, Detail: res.detail, Case: name, Script: script, Impl: []string{impl}, Model: []string{mo}})
	}
	return
}

func genWire(r *hx.Rand) []string {
	var b []byte
	var exp []string
	nums := []int{1, 2, 3, 15, 16, 2047, 2048, 1<<29 - 1, 1 << 29, 1<<31 - 1}
	n := r.Range(0, 4)
	for i := 0; i < n; i++ {
		num := nums[r.Intn(len(nums))]
		size := r.PickInt(0, 0, 1, 2, 5, 127, 128, 129, 300)
		b = protowire.AppendTag(b, protowire.Number(num), protowire.BytesType)
		b = protowire.AppendVarint(b, uint64(size))
		exp = append(exp, fmt.Sprintf("%d:%d:%d", num, len(b), size))
		b = append(b, r.Bytes(size)...)
	}
	wellFormed := true
	switch r.Intn(10) {
	case 0, 1: // truncate
		if len(b) > 0 {
			b = b[:r.Intn(len(b))]
			wellFormed = false
		}
	case 2: // flip one byte
		if len(b) > 0 {
			b[r.Intn(len(b))] ^= byte(1 << r.Intn(8))
			wellFormed = false
		}
	case 3: // append a header with an edge-case varint
		wellFormed = false
		tags := [][]byte{{0x0a}, {0x08}, {0x0d}, {0x02}, {0x00}, {0x8a, 0x00}, {0xfa, 0xff, 0xff, 0xff, 0x3f}, {0x82, 0x80, 0x80, 0x80, 0x40},
			{0x82, 0x80, 0x80, 0x80, 0x80, 0x01}, bytes.Repeat([]byte{0xff}, 10), append(bytes.Repeat([]byte{0x82}, 9), 0x01), append(bytes.Repeat([]byte{0x82}, 9), 0x02), bytes.Repeat([]byte{0x80}, 11)}
		lens := [][]byte{{0x00}, {0x01}, {0x80, 0x00}, {0xff, 0xff, 0xff, 0xff, 0xff, 0xff, 0xff, 0xff, 0x7f}, {0xff, 0xff, 0xff, 0xff, 0xff, 0xff, 0xff, 0xff, 0xff, 0x01},
			{0xff, 0xff, 0xff, 0xff, 0xff, 0xff, 0xff, 0xff, 0xff, 0x02}, {0x80}, {}, {0xfe, 0xff, 0xff, 0xff, 0xff, 0xff, 0xff, 0xff, 0x7f}}
		b = append(b, tags[r.Intn(len(tags))]...)
		b = append(b, lens[r.Intn(len(lens))]...)
		b = append(b, r.Bytes(r.Intn(3))...)
	case 4: // random bytes
		b = r.Bytes(r.Range(1, 12))
		wellFormed = false
	}
	s := []string{"visit " + hx.Hex(b)}
	if wellFormed {
		s = append(s, "#expect "+strings.Join(append([]string{"ok"}, exp...), " "))
	}
	return s
}

// ---------------------------------------------------------------- generators

func genD(r *hx.Rand, pool []dtok, nilPct, badPct int) dtok {
	x := r.Intn(100)
	switch {
	case x < nilPct:
		return dtok{kind: '-'}
	case x < nilPct+badPct:
		if r.Chance(1, 4) {
			in := pool[r.Intn(len(pool))]
			return dtok{kind: "uU"[r.Intn(2)], n: in.n, size: in.size, inner: in.kind}
		}
		return dtok{kind: 'b', n: r.Intn(9)}
	}
	return pool[r.Intn(len(pool))]
}

var rawFamily = []string{
	"0801",                   // varint field
	"0d01020304",             // fixed32 field
	"0b0c",                   // group
	"0200",                   // field number 0
	"ffffffffffffffffffff01", // tag varint overflow
	"0a01ff",                 // Directory body is not a message
	"12020a05",               // Directory.files announces more bytes than there are
	"0a060a04c3280a00",       // invalid UTF-8 in FileNode.name
	"0affffffffffffffffffff", // length varint overflow
	"0a05",                   // length without payload
	"0a0500",                 // payload shorter than announced
	"80",                     // truncated tag
	"0a",                     // tag without length
	"120a0a08120612026162ff", // Digest nested wrongly terminated
}

// genBase produces a script without missing/fault lines.
func genBase(r *hx.Rand, maxTreeFields int) []string {
	fn := "md5"
	if r.Chance(3, 10) {
		fn = "sha256"
	}
	var pool []dtok
	np := r.Range(2, 6)
	sizes := []int64{0, 1, 5, 100, 4096}
	for i := 0; i < np; i++ {
		pool = append(pool, dtok{kind: 'f', n: r.Range(1, 5), size: sizes[r.Intn(len(sizes))]})
	}
	if r.Chance(1, 4) { // force duplicates / same hash with another size
		pool = append(pool, dtok{kind: 'f', n: pool[0].n, size: pool[0].size + 1})
	}
	var body []string
	for i, n := 0, r.PickInt(0, 0, 1, 1, 2, 2, 3, 4); i < n; i++ {
		body = append(body, "file "+genD(r, pool, 8, 2).String())
	}
	if r.Chance(6, 10) {
		body = append(body, "stdout "+genD(r, pool, 0, 2).String())
	}
	if r.Chance(4, 10) {
		body = append(body, "stderr "+genD(r, pool, 0, 2).String())
	}
	ntrees := r.PickInt(0, 0, 1, 1, 1, 1, 2, 2, 3)
	var treeLines []string
	for k := 0; k < ntrees; k++ {
		mode := "cas"
		switch x := r.Intn(100); {
		case x < 45:
		case x < 60:
			mode = "proto"
		case x < 75:
			mode = fmt.Sprintf("stream %d", r.PickInt(1, 3, 7, 16, 32, 64))
		case x < 82:
			mode = fmt.Sprintf("raw %d", r.PickInt(-1, 0, 1, 1000, 1<<20))
		case x < 85:
			mode = fmt.Sprintf("geterr %d %d", r.PickInt(5, 13, 14, 2, 3), r.PickInt(0, 10, 100))
		case x < 89:
			mode = fmt.Sprintf("trunc %d %d %d", r.Intn(200), r.PickInt(1, 3, 7, 16, 32, 64), r.Intn(2))
		case x < 92:
			mode = fmt.Sprintf("corrupt %d", r.PickInt(1, 3, 7, 16, 32, 64))
		case x < 96:
			mode = fmt.Sprintf("ioerr %d %d %d", r.Intn(200), r.PickInt(13, 14, 5, 4), r.PickInt(1, 3, 7, 16, 32, 64))
		default:
			mode = fmt.Sprintf("cut %d %d", r.Intn(200), r.PickInt(0, 0, 1, 7, 32))
		}
		treeLines = append(treeLines, fmt.Sprintf("tree %d %s", k, mode))
		nf := r.Range(0, maxTreeFields)
		for i := 0; i < nf; i++ {
			if r.Chance(1, 25) {
				treeLines = append(treeLines, "raw "+rawFamily[r.Intn(len(rawFamily))])
				break
			}
			num := 2
			if i == 0 {
				num = 1
			}
			if r.Chance(1, 8) {
				num = r.PickInt(1, 2, 3, 4, 15, 16, 2047, 1<<29-1, 1<<29, 1<<31-1)
			}
			variant := 0
			if r.Chance(1, 2) {
				variant = r.Intn(64)
			}
			nfiles := r.PickInt(0, 1, 1, 2, 2, 3)
			ndirs := r.PickInt(0, 0, 1, 1, 2)
			w := []string{"d", strconv.Itoa(num), strconv.Itoa(variant), strconv.Itoa(nfiles)}
			for j := 0; j < nfiles; j++ {
				w = append(w, genD(r, pool, 5, 2).String())
			}
			for j := 0; j < ndirs; j++ {
				w = append(w, genD(r, pool, 5, 2).String())
			}
			treeLines = append(treeLines, strings.Join(w, " "))
		}
		root := genD(r, pool, 50, 2)
		tree := dtok{kind: 't', n: k}
		if r.Chance(1, 30) {
			tree = dtok{kind: '-'}
		} else if r.Chance(1, 30) {
			tree = genD(r, pool, 0, 30)
		}
		body = append(body, fmt.Sprintf("dir %s %s", tree, root))
		if r.Chance(1, 5) { // the same Tree once or twice more, in the other mode / a random mode, before or after
			other := dtok{kind: '-'}
			if root.kind == '-' {
				other = genD(r, pool, 0, 0)
			}
			extra := []string{fmt.Sprintf("dir t%d %s", k, other)}
			if r.Chance(1, 3) {
				extra = append(extra, fmt.Sprintf("dir t%d %s", k, genD(r, pool, 50, 0)))
			}
			if r.Chance(1, 2) {
				body = append(body, extra...)
			} else {
				last := body[len(body)-1]
				body = append(append(body[:len(body)-1:len(body)-1], extra...), last)
			}
		}
	}
	if r.Chance(1, 25) {
		body = append(body, fmt.Sprintf("ac err %d", r.PickInt(5, 13, 14, 7)))
	}
	batch := r.PickInt(1, 1, 2, 2, 3, 3, 4, 4, 4, 5, 8, 100, 0)
	consistent := r.Intn(2)
	arVariant := r.Intn(16)
	// learn the sizes to place the limits at their boundaries
	probe := append([]string{fmt.Sprintf("cfg %d %d %d %s %d %d", batch, 1<<20, int64(1)<<40, fn, consistent, arVariant)}, append(body, treeLines...)...)
	maxMsg := 1 << 20
	budget := int64(1) << 40
	if spec, err := parseSpec(probe); err == nil {
		if bc, err := build(spec); err == nil {
			var total int64
			var first int64 = -1
			maxDir := 0
			for _, od := range bc.ar.OutputDirectories {
				if od.TreeDigest != nil && od.TreeDigest.SizeBytes >= 0 {
					total += od.TreeDigest.SizeBytes
					if first < 0 {
						first = od.TreeDigest.SizeBytes
					}
				}
			}
			for _, t := range bc.order {
				for _, f := range t.fields {
					if f.dirSize > maxDir {
						maxDir = f.dirSize
					}
				}
			}
			switch r.Intn(20) {
			case 0:
				budget = total
			case 1:
				budget = max(total-1, 0)
			case 2:
				budget = max(first-1, 0)
			case 3:
				budget = 0
			}
			switch r.Intn(25) {
			case 0:
				maxMsg = bc.arSize
			case 1:
				maxMsg = max(bc.arSize-1, 0)
			case 2:
				maxMsg = maxDir
			case 3:
				maxMsg = max(maxDir-1, 0)
			}
		}
	}
	return append([]string{fmt.Sprintf("cfg %d %d %d %s %d %d", batch, maxMsg, budget, fn, consistent, arVariant)}, append(body, treeLines...)...)
}

func withCfgBatch(script []string, batch int) []string {
	w := strings.Fields(script[0])
	w[1] = strconv.Itoa(batch)
	return append([]string{strings.Join(w, " ")}, script[1:]...)
}

// retree replaces the mode of tree k.
func retree(script []string, k int, mode string) []string {
	out := append([]string{}, script...)
	prefix := fmt.Sprintf("tree %d ", k)
	for i, l := range out {
		if strings.HasPrefix(l, prefix) {
			out[i] = prefix + mode
		}
	}
	return out
}

func missingLine(ds []dtok) string {
	w := []string{"missing"}
	for _, d := range ds {
		w = append(w, d.String())
	}
	return strings.Join(w, " ")
}

func TestC13(t *testing.T) {
	run := hx.NewRun("C13")
	defer run.Finish(t)
	model, err := hx.StartModel()
	if err != nil {
		t.Fatalf("start model: %v", err)
	}
	defer model.Close()
	run.HasModel = model != nil
	run.SetRule("generated ActionResult/Tree messages (0-4 output files, 0-3 output directories with and without root digest, nested/empty/malformed Trees, " +
		"nil and malformed digests, inlined contents) through the real decorator over recording AC/CAS backends; per message: every subset of the referenced " +
		"digests missing (<= 6 quick / <= 8 thorough, else singletons + random subsets), batch sizes 1..4, a CAS fault at every call index, every Tree shared by " +
		"a second output directory of the other root-digest mode (listed before and after) with each child directory object absent, Trees cut/truncated/failing " +
		"at boundary bytes (quick) or every byte (thorough); each message also through GetFromComposite (slicer returning the parent, a byte range, or failing), " +
		"complete, with every single object missing and with a fault; each message with the Action Cache entry overwritten during the request " +
		"(later reads return one more output file: absent, present, malformed); the decorator built by blobstore/configuration (completeness_checking over in-memory local stores) with " +
		"maximum_total_tree_size_bytes in {unset, 0, 1, first-1, first, total-1, total, total+1, large}; plus raw byte strings through util.VisitProtoBytesFields. " +
		"A case is non-trivial when the action result references >= 2 distinct well-formed digests and the CAS is called; distinct by script hash")

	// Oracle hits and disagreements have separate budgets: a change that makes model and
	// implementation differ on many cases must not end the search for a concrete failing input.
	// Each distinct oracle statement is shrunk and reported up to three times, so that one kind of
	// failure does not hide another one.
	oracleHits, disagreements := 0, 0
	perWhat := map[string]int{}
	// the oracle-only search the check script starts after a disagreement is bounded in time
	var deadline time.Time
	if os.Getenv("VERIF_SEARCH") == "1" {
		deadline = time.Now().Add(60 * time.Second)
	}
	searching := func() bool {
		if !deadline.IsZero() && time.Now().After(deadline) {
			return false
		}
		return oracleHits < 300 && run.Findings() < 40
	}
	handle := func(name string, script []string) caseResult {
		res := runCase(run, model, name, script, true)
		found := res.found
		if res.what != "" {
			oracleHits++
			perWhat[res.what]++
			if perWhat[res.what] > 3 {
				return res
			}
		} else if !res.agree {
			disagreements++
			if disagreements > 3 {
				return res // counted, not shrunk or reported again
			}
		}
		if res.what != "" || !res.agree {
			small := hx.Shrink(script, 1, func(s []string) bool {
				r2 := runCase(run, model, name, s, false)
				if !r2.valid {
					return false
				}
				if res.what != "" {
					return r2.what == res.what
				}
				return !r2.agree
			})
			if len(small) < len(script) {
				if r2 := runCase(run, model, name+"/shrunk", small, false); len(r2.found) > 0 {
					found = r2.found
				}
			}
		}
		for _, f := range found {
			run.Report(f)
		}
		return res
	}

	if name, script := run.ReplayScript(); script != nil {
		res := runCase(run, model, name, script, true)
		for _, f := range res.found {
			run.Report(f)
			t.Logf("impl:  %v", f.Impl)
			t.Logf("model: %v", f.Model)
		}
		if spec, err := parseSpec(script); err == nil {
			if bc, err := build(spec); err == nil {
				t.Logf("model input: %s", strings.Join(bc.modelLines, " | "))
			}
		}
		t.Logf("impl reply:  %s", res.impl)
		t.Logf("model reply: %s", res.model)
		t.Logf("replay %s: outcome=%q oracle=%q %s agree=%v", name, res.outcome, res.what, res.detail, res.agree)
		return
	}
	for name, script := range run.CorpusScripts() {
		handle("corpus/"+name, script)
	}

	maxSubsetRefs := run.Scale(6, 8)
	nbase := run.Scale(900, 4000)
	faultCodes := []int{14, 13, 5, 3, 2, 4}
	for i := 0; i < nbase && searching(); i++ {
		r := hx.NewRand(run.Seed, "C13", i)
		base := genBase(r, run.Scale(3, 4))
		v := 0
		do := func(script []string) caseResult {
			v++
			return handle(fmt.Sprintf("seed%d/base%d/v%d", run.Seed, i, v), script)
		}
		res := do(base)
		if !res.valid {
			continue
		}
		// batch sizes 1..4 on the complete message and with one object missing
		for b := 1; b <= 4; b++ {
			do(withCfgBatch(base, b))
		}
		u := res.universe
		// the second read entry point: the same message through GetFromComposite, complete, with
		// every single object missing, and with a fault
		comps := []string{"composite whole", fmt.Sprintf("composite slice %d %d", r.PickInt(0, 0, 1, 7, 1000), r.PickInt(0, 1, 16, 1<<20)),
			fmt.Sprintf("composite fail %d", r.PickInt(3, 5, 13))}
		for _, c := range comps {
			do(append(append([]string{}, base...), c))
		}
		for j := range u {
			do(withCfgBatch(append(append([]string{}, base...), missingLine([]dtok{u[j]}), comps[r.Intn(len(comps))]), r.Range(1, 4)))
		}
		if res.ncalls > 0 {
			do(append(append([]string{}, base...), fmt.Sprintf("fault %d %d", r.Intn(res.ncalls), faultCodes[r.Intn(len(faultCodes))]), comps[r.Intn(2)]))
		}
		// a digest whose hash has upper case letters (it decodes to the checksum of a present object) at
		// every position: output file, stdout, stderr, tree digest, file and child directory inside a Tree
		{
			x := "f1.5"
			for _, d := range u {
				if d.kind == 'f' {
					x = d.String()
					break
				}
			}
			with := func(lines ...string) []string { return append(append([]string{}, base...), lines...) }
			do(with("file U:" + x))
			do(with("file u:" + x))
			do(with("stdout u:" + x))
			do(with("stderr U:" + x))
			do(with("dir t0 U:" + x))
			if spec, err := parseSpec(base); err == nil && len(spec.trees) > 0 {
				k := spec.trees[0].k
				do(with(fmt.Sprintf("dir U:t%d -", k)))
				do(with(fmt.Sprintf("dir u:t%d f9.7", k)))
				prefix := fmt.Sprintf("tree %d ", k)
				for j, l := range base {
					if strings.HasPrefix(l, prefix) {
						for _, ins := range []string{"d 1 0 1 u:" + x, "d 2 0 1 U:" + x, "d 2 0 0 u:" + x} {
							s2 := append(append(append([]string{}, base[:j+1]...), ins), base[j+1:]...)
							do(append(s2, fmt.Sprintf("dir t%d f9.7", k)))
						}
						break
					}
				}
			}
		}
		// the Action Cache entry is overwritten while the request is in flight: later reads return the
		// message with one more output file, which is absent from the CAS / present / malformed
		for _, when := range []string{"read", "fm"} {
			do(append(append([]string{}, base...), "acswap f8.3 "+when, "missing f8.3"))
			do(append(append([]string{}, base...), "acswap f8.3 "+when))
			do(append(append([]string{}, base...), "acswap f8.3 "+when, "missing f8.3", comps[r.Intn(2)]))
		}
		do(append(append([]string{}, base...), "acswap bad:1 read"))
		if len(u) > 0 {
			do(append(append([]string{}, base...), "acswap f8.3 fm", missingLine([]dtok{u[r.Intn(len(u))]})))
		}
		// missing subsets
		if len(u) <= maxSubsetRefs {
			for m := 1; m < 1<<len(u); m++ {
				var ds []dtok
				for j := range u {
					if m&(1<<j) != 0 {
						ds = append(ds, u[j])
					}
				}
				s := append(append([]string{}, base...), missingLine(ds))
				if r.Chance(1, 3) {
					s = withCfgBatch(s, r.Range(1, 4))
				}
				if r.Chance(1, 6) {
					s = append(s, comps[r.Intn(len(comps))])
				}
				do(s)
			}
		} else {
			for j := range u {
				do(withCfgBatch(append(append([]string{}, base...), missingLine([]dtok{u[j]})), r.Range(1, 4)))
			}
			for k := 0; k < 12; k++ {
				var ds []dtok
				for j := range u {
					if r.Chance(1, 3) {
						ds = append(ds, u[j])
					}
				}
				do(append(append([]string{}, base...), missingLine(ds)))
			}
		}
		// a CAS fault at every call index (of the complete run), alone and together with a missing object
		for k := 0; k < res.ncalls; k++ {
			code := faultCodes[r.Intn(len(faultCodes))]
			s := append(append([]string{}, base...), fmt.Sprintf("fault %d %d", k, code))
			do(s)
			if len(u) > 0 && r.Chance(1, 2) {
				do(append(s, missingLine([]dtok{u[r.Intn(len(u))]})))
			}
		}
		// every Tree shared with a further output directory of the other root-digest mode, listed
		// before and after the original one, complete and with each child directory object absent
		if spec, err := parseSpec(base); err == nil {
			for _, ts := range spec.trees {
				first := -1
				prefix := fmt.Sprintf("dir t%d ", ts.k)
				for j, l := range base {
					if strings.HasPrefix(l, prefix) {
						first = j
						break
					}
				}
				if first < 0 {
					continue
				}
				otherRoot := "-"
				if strings.TrimPrefix(base[first], prefix) == "-" {
					otherRoot = "f9.7"
				}
				extra := prefix + otherRoot
				var children []dtok
				seen := map[dtok]bool{}
				for _, f := range ts.fields {
					if f.isRaw || (f.num != 1 && f.num != 2) {
						continue
					}
					for _, d := range f.dirs {
						if d.kind == 'f' && !seen[d] && len(children) < 3 {
							seen[d] = true
							children = append(children, d)
						}
					}
				}
				after := append(append([]string{}, base...), extra)
				before := append(append(append([]string{}, base[:first]...), extra), base[first:]...)
				for _, s := range [][]string{after, before} {
					do(s)
					for _, c := range children {
						do(withCfgBatch(append(append([]string{}, s...), missingLine([]dtok{c})), r.Range(1, 4)))
					}
				}
			}
		}
		// Trees cut / truncated / failing: every byte (thorough) or around the field boundaries (quick)
		if spec, err := parseSpec(base); err == nil {
			if bc, err := build(spec); err == nil {
				for _, ts := range spec.trees {
					bt := bc.trees[ts.k]
					n := len(bt.full)
					if n == 0 || n > 3500 {
						continue
					}
					var ps []int
					if run.Thorough() && i%4 == 0 {
						for p := 0; p <= n; p++ {
							ps = append(ps, p)
						}
					} else {
						seen := map[int]bool{}
						for _, f := range bt.fields {
							for _, p := range []int{f.start - 1, f.start, f.start + 1, f.start + 2, f.end - 1} {
								if p >= 0 && p <= n && !seen[p] {
									seen[p] = true
									ps = append(ps, p)
								}
							}
						}
						for k := 0; k < 3; k++ {
							ps = append(ps, r.Intn(n+1))
						}
						if !run.Thorough() && len(ps) > 8 {
							perm := r.Perm(len(ps))
							var sel []int
							for _, j := range perm[:8] {
								sel = append(sel, ps[j])
							}
							ps = sel
						}
					}
					for _, p := range ps {
						chunk := r.PickInt(1, 3, 7, 16, 32, 64)
						do(retree(base, ts.k, fmt.Sprintf("cut %d %d", p, r.PickInt(0, chunk))))
						do(retree(base, ts.k, fmt.Sprintf("trunc %d %d %d", p, chunk, r.Intn(2))))
						do(retree(base, ts.k, fmt.Sprintf("ioerr %d %d %d", p, faultCodes[r.Intn(len(faultCodes))], chunk)))
						if len(u) > 0 && r.Chance(1, 2) {
							// a missing object discovered while a damaged Tree is being walked
							do(append(retree(base, ts.k, fmt.Sprintf("trunc %d %d %d", p, chunk, r.Intn(2))), missingLine([]dtok{u[r.Intn(len(u))]})))
						}
					}
					do(retree(base, ts.k, fmt.Sprintf("corrupt %d", r.PickInt(1, 3, 7, 16, 32, 64))))
				}
			}
		}
	}
	// the decorator as the configuration code assembles it: the configured tree size limit is the budget
	ncfg := run.Scale(250, 2500)
	for i := 0; i < ncfg && searching(); i++ {
		r := hx.NewRand(run.Seed, "C13-configured", i)
		handle(fmt.Sprintf("seed%d/configured%d", run.Seed, i), genConfigured(r))
	}
	nwire := run.Scale(4000, 60000)
	for i := 0; i < nwire && searching(); i++ {
		r := hx.NewRand(run.Seed, "C13-wire", i)
		handle(fmt.Sprintf("seed%d/wire%d", run.Seed, i), genWire(r))
	}
}
