package c13

// The completeness-checking Action Cache as bb_storage assembles it: built by
// blobstore/configuration from a BlobstoreConfiguration message (completeness_checking over
// in-memory `local` stores) instead of by hand. What is under test here is that the CONFIGURED
// maximum_total_tree_size_bytes is the budget the decorator enforces (unset = 0: every non-empty
// Tree exceeds it), together with the general property on a real CAS.
//
// Script (one line):
//
//	configured <limit> <md5|sha256> <root 0|1> <missing -1|index> <files in tree 0> [<files in tree 1> ...]
//
//	limit ::= unset | 0 | 1 | first-1 | first | total-1 | total | total+1 | large
//
// Every Tree has a root directory with the given number of files and one child directory holding one
// file; with root = 1 the output directories carry a root directory digest and the Directory objects
// are uploaded as CAS objects of their own. `missing` is an index into the referenced non-Tree
// objects (files, then Directory objects) that is not uploaded.
//
// The backends are real stores, so CAS calls cannot be recorded: the model comparison is on the
// outcome (batch size 10000 = blobstore.RecommendedFindMissingDigestsCount, budget = configured value).

import (
	"context"
	"fmt"
	"strconv"
	"strings"

	remoteexecution "github.com/bazelbuild/remote-apis/build/bazel/remote/execution/v2"
	"github.com/buildbarn/bb-storage/pkg/blobstore"
	"github.com/buildbarn/bb-storage/pkg/blobstore/buffer"
	blobstore_configuration "github.com/buildbarn/bb-storage/pkg/blobstore/configuration"
	"github.com/buildbarn/bb-storage/pkg/digest"
	"github.com/buildbarn/bb-storage/pkg/program"
	pb "github.com/buildbarn/bb-storage/pkg/proto/configuration/blobstore"
	"google.golang.org/grpc/codes"
	"google.golang.org/grpc/status"
	"google.golang.org/protobuf/encoding/prototext"
	"google.golang.org/protobuf/proto"

	"verifharness/hx"
)

const cfgLocalInMemory = `
local: {
  key_location_map_in_memory: { entries: 1024 }
  key_location_map_maximum_get_attempts: 8
  key_location_map_maximum_put_attempts: 32
  old_blocks: 1
  current_blocks: 1
  new_blocks: 1
  blocks_in_memory: { block_size_bytes: 65536 }
}
`

const cfgMaxMsg = 1 << 20

type cfgObject struct {
	data   []byte
	digest *remoteexecution.Digest
	model  string // id.size
}

type cfgCase struct {
	limitSpec string
	fn        string
	root      bool
	missing   int
	nfiles    []int

	f         digest.Function
	objects   []*cfgObject // referenced non-Tree objects: files, then (root mode) Directory objects
	trees     []*cfgObject
	treeLines [][]string // model lines per tree
	ar        *remoteexecution.ActionResult
	budget    int64
	unset     bool
	ids       int
}

func (c *cfgCase) object(data []byte) *cfgObject {
	c.ids++
	dg := &remoteexecution.Digest{Hash: hashOf(c.fn, data), SizeBytes: int64(len(data))}
	return &cfgObject{data: data, digest: dg, model: fmt.Sprintf("%d.%d", c.ids, len(data))}
}

func parseConfigured(line string) (*cfgCase, bool) {
	w := strings.Fields(line)
	if len(w) < 6 || w[0] != "configured" || (w[2] != "md5" && w[2] != "sha256") {
		return nil, false
	}
	c := &cfgCase{limitSpec: w[1], fn: w[2], root: w[3] == "1"}
	if w[3] != "0" && w[3] != "1" {
		return nil, false
	}
	m, err := strconv.Atoi(w[4])
	if err != nil || m < -1 {
		return nil, false
	}
	c.missing = m
	for _, x := range w[5:] {
		n, err := strconv.Atoi(x)
		if err != nil || n < 0 || n > 20 {
			return nil, false
		}
		c.nfiles = append(c.nfiles, n)
	}
	if len(c.nfiles) > 6 {
		return nil, false
	}
	enum := remoteexecution.DigestFunction_MD5
	if c.fn == "sha256" {
		enum = remoteexecution.DigestFunction_SHA256
	}
	c.f = digest.MustNewFunction(instanceName, enum)
	// build the messages
	var dirObjects []*cfgObject
	c.ar = &remoteexecution.ActionResult{}
	var total, first int64 = 0, -1
	for i, n := range c.nfiles {
		childFile := c.object([]byte(fmt.Sprintf("c13-configured-%d-child", i)))
		c.objects = append(c.objects, childFile)
		child := &remoteexecution.Directory{Files: []*remoteexecution.FileNode{{Name: "leaf", Digest: childFile.digest}}}
		childBytes, _ := proto.Marshal(child)
		childObj := c.object(childBytes)
		rootDir := &remoteexecution.Directory{Directories: []*remoteexecution.DirectoryNode{{Name: "sub", Digest: childObj.digest}}}
		rootLine := []string{}
		for j := 0; j < n; j++ {
			fo := c.object([]byte(fmt.Sprintf("c13-configured-%d-%d", i, j)))
			c.objects = append(c.objects, fo)
			rootDir.Files = append(rootDir.Files, &remoteexecution.FileNode{Name: fmt.Sprintf("f%d", j), Digest: fo.digest})
			rootLine = append(rootLine, fo.model)
		}
		rootBytes, _ := proto.Marshal(rootDir)
		rootObj := c.object(rootBytes)
		treeBytes, _ := proto.Marshal(&remoteexecution.Tree{Root: rootDir, Children: []*remoteexecution.Directory{child}})
		treeObj := c.object(treeBytes)
		c.trees = append(c.trees, treeObj)
		od := &remoteexecution.OutputDirectory{Path: fmt.Sprintf("out/d%d", i), TreeDigest: treeObj.digest}
		rootTok := "-"
		if c.root {
			od.RootDirectoryDigest = rootObj.digest
			rootTok = rootObj.model
			dirObjects = append(dirObjects, rootObj, childObj)
		}
		c.ar.OutputDirectories = append(c.ar.OutputDirectories, od)
		c.treeLines = append(c.treeLines, []string{
			fmt.Sprintf("dir %s %s", treeObj.model, rootTok),
			fmt.Sprintf("blob %s -", treeObj.model),
			fmt.Sprintf("ev dir %d %d %s", len(rootBytes), n, strings.Join(append(rootLine, childObj.model), " ")),
			fmt.Sprintf("ev dir %d 1 %s", len(childBytes), childFile.model),
		})
		total += int64(len(treeBytes))
		if first < 0 {
			first = int64(len(treeBytes))
		}
	}
	c.objects = append(c.objects, dirObjects...)
	if first < 0 {
		first = 0
	}
	switch c.limitSpec {
	case "unset":
		c.unset = true
	case "0":
	case "1":
		c.budget = 1
	case "first-1":
		c.budget = max(first-1, 0)
	case "first":
		c.budget = first
	case "total-1":
		c.budget = max(total-1, 0)
	case "total":
		c.budget = total
	case "total+1":
		c.budget = total + 1
	case "large":
		c.budget = 1 << 40
	default:
		return nil, false
	}
	if c.missing >= len(c.objects) {
		c.missing = -1
	}
	return c, true
}

func (c *cfgCase) modelLines() []string {
	l := []string{fmt.Sprintf("reset %d %d %d", blobstore.RecommendedFindMissingDigestsCount, cfgMaxMsg, c.budget),
		fmt.Sprintf("ac ok %d - -", proto.Size(c.ar))}
	for _, t := range c.treeLines {
		l = append(l, t[0])
	}
	for _, t := range c.treeLines {
		l = append(l, t[1:]...)
	}
	if c.missing >= 0 {
		l = append(l, "missing "+c.objects[c.missing].model)
	}
	return append(l, "run")
}

// runConfigured builds the stack from configuration, uploads, reads through the configured Action Cache.
func (c *cfgCase) runConfigured() (outcome string, err error) {
	opts := ""
	if !c.unset {
		opts = fmt.Sprintf("maximum_total_tree_size_bytes: %d", c.budget)
	}
	var configuration pb.BlobstoreConfiguration
	if err := prototext.Unmarshal([]byte(fmt.Sprintf("content_addressable_storage: { %s }\naction_cache: { completeness_checking: { backend: { %s }\n %s } }",
		cfgLocalInMemory, cfgLocalInMemory, opts)), &configuration); err != nil {
		return "", err
	}
	err = program.RunLocal(context.Background(), func(ctx context.Context, siblingsGroup, dependenciesGroup program.Group) error {
		cas, ac, err := blobstore_configuration.NewCASAndACBlobAccessFromConfiguration(dependenciesGroup, &configuration, nil, cfgMaxMsg, nil)
		if err != nil {
			return err
		}
		put := func(o *cfgObject) error {
			d, err := c.f.NewDigestFromProto(o.digest)
			if err != nil {
				return err
			}
			return cas.Put(ctx, d, buffer.NewValidatedBufferFromByteSlice(o.data))
		}
		for i, o := range c.objects {
			if i != c.missing {
				if err := put(o); err != nil {
					return err
				}
			}
		}
		for _, t := range c.trees {
			if err := put(t); err != nil {
				return err
			}
		}
		actionDigest := digest.MustNewDigest(instanceName, c.f.GetEnumValue(), hashOf(c.fn, []byte("configured action")), 123)
		if err := ac.Put(ctx, actionDigest, buffer.NewProtoBufferFromProto(c.ar, buffer.UserProvided)); err != nil {
			return err
		}
		defer func() {
			if p := recover(); p != nil {
				outcome = "panic"
			}
		}()
		msg, err := ac.Get(ctx, actionDigest).ToProto(&remoteexecution.ActionResult{}, cfgMaxMsg)
		if err != nil {
			outcome = fmt.Sprintf("error %d", int(status.Code(err)))
			return nil
		}
		outcome = "result"
		// the configured Action Cache stamps execution_metadata.worker_completed_timestamp on Put
		got := proto.Clone(msg).(*remoteexecution.ActionResult)
		got.ExecutionMetadata = nil
		if !proto.Equal(got, c.ar) {
			outcome = "result-differs"
		}
		return nil
	})
	return outcome, err
}

func runConfiguredCase(run *hx.Run, model *hx.Model, name string, script []string, report bool) (res caseResult) {
	res.agree = true
	c, ok := parseConfigured(script[0])
	if !ok {
		return
	}
	outcome, err := c.runConfigured()
	if err != nil {
		run.Count("configured:setup-failed")
		return
	}
	res.valid = true
	res.outcome = outcome
	res.impl = outcome
	fail := func(w, d string) {
		if res.what == "" {
			res.what, res.detail = w, d
		}
	}
	// the oracle, with the CONFIGURED value as the budget
	var sum int64
	over := false
	for _, t := range c.trees {
		sum += t.digest.SizeBytes
		if sum > c.budget {
			over = true
		}
	}
	switch {
	case outcome == "panic":
		fail(whatPanic, "configured stack")
	case outcome == "result-differs":
		fail(whatDiffers, "configured stack")
	case outcome == "result" && over:
		fail(whatBudget, fmt.Sprintf("configured maximum_total_tree_size_bytes %s (= %d), Trees total %d bytes", c.limitSpec, c.budget, sum))
	case outcome == "result" && c.missing >= 0:
		fail(whatMissing, fmt.Sprintf("configured stack: object %s was never uploaded", c.objects[c.missing].model))
	case (over || c.missing >= 0) && outcome != fmt.Sprintf("error %d", int(codes.NotFound)):
		fail(whatNotFound, fmt.Sprintf("configured stack: outcome %q, over budget=%v missing=%d", outcome, over, c.missing))
	}
	validated := false
	if model != nil {
		lines := c.modelLines()
		replies := model.Batch(lines)
		validated = true
		run.Compared(1)
		mo := replies[len(replies)-1]
		for i, r := range replies[:len(replies)-1] {
			if r != "ok" {
				mo = fmt.Sprintf("model rejected line %d %q: %s", i, lines[i], r)
			}
		}
		res.model = mo
		if i := strings.Index(mo, " ac:"); i >= 0 {
			mo = mo[:i]
		}
		if mo != outcome {
			res.agree = false
			res.found = append(res.found, hx.Finding{Kind: "disagreement", What: "model/implementation differ",
				Detail: fmt.Sprintf("configured stack: impl=%q model=%q; model input: %s", outcome, res.model, strings.Join(lines, " | ")),
				Case:   name, Script: script, Impl: []string{outcome}, Model: []string{res.model}})
		}
	}
	if report {
		run.Case(script, len(c.objects) >= 2, validated)
		run.Count("configured-stack:limit=" + c.limitSpec)
		run.Count("configured-stack:" + strings.SplitN(outcome, " ", 2)[0])
	}
	if res.what != "" {
		res.found = append(res.found, hx.Finding{Kind: "oracle", What: res.what, Detail: res.detail + "; observed: " + outcome, Case: name, Script: script,
			Impl: []string{outcome}, Model: []string{res.model}})
	}
	return
}

func genConfigured(r *hx.Rand) []string {
	limits := []string{"unset", "0", "1", "first-1", "first", "total-1", "total", "total+1", "large"}
	w := []string{"configured", limits[r.Intn(len(limits))], []string{"md5", "sha256"}[r.Intn(2)], strconv.Itoa(r.Intn(2))}
	ntrees := r.PickInt(1, 1, 1, 2, 2, 3)
	nobj := 0
	var ns []string
	for i := 0; i < ntrees; i++ {
		n := r.PickInt(0, 1, 1, 2, 3)
		ns = append(ns, strconv.Itoa(n))
		nobj += n + 1
	}
	missing := -1
	if r.Chance(1, 4) {
		missing = r.Intn(nobj + 2*ntrees)
	}
	w = append(w, strconv.Itoa(missing))
	return []string{strings.Join(append(w, ns...), " ")}
}
