// Package c19 ties the Lean routing model (BB.Routing) to the real
// InstanceNameTrie, InstanceNamePatcher, demultiplexingBlobAccess (built by the
// real configuration code of pkg/blobstore/configuration) and
// hierarchicalInstanceNamesBlobAccess of /repo, and checks the statements of
// property C19 directly on the observed behaviour.
//
// Script lines (names "a/b", empty name "-"; digests "<name>:<hash>"; digest
// lists comma-separated, "_" = empty):
//
//	t.set <name> <v> | t.remove <name> | t.exact <name> | t.longest <name> | t.hasprefix <name>
//	p.patch <old> <new> <name> | p.unpatch <old> <new> <name>
//	d.cfg <match>=<add>... | d.store <b> <digest> <payload> | d.fault <b> fm|get|put|getc <code>
//	d.get <digest> | d.getc <parent> <child> | d.put <digest> <payload> | d.fm <digests>
//	h.store <digest> <payload> | h.fault get <digest> <code> | h.fault fm <k> <code>
//	h.get <digest> | h.getc <parent> <child> | h.fm <digests>
//
// A component may be anything without '/', ',', ':', '=', blanks ("-" as a
// component is fine, only the one-component name "-" is not expressible).
//
// The line sent to the model for "d.fm" additionally carries the order in which
// the composite called its backends (Go map iteration order, observed).
package c19

import (
	"context"
	"fmt"
	"sort"
	"strconv"
	"strings"
	"sync"
	"testing"

	remoteexecution "github.com/bazelbuild/remote-apis/build/bazel/remote/execution/v2"
	"github.com/buildbarn/bb-storage/pkg/blobstore"
	"github.com/buildbarn/bb-storage/pkg/blobstore/buffer"
	bbcfg "github.com/buildbarn/bb-storage/pkg/blobstore/configuration"
	"github.com/buildbarn/bb-storage/pkg/blobstore/local"
	"github.com/buildbarn/bb-storage/pkg/blobstore/replication"
	"github.com/buildbarn/bb-storage/pkg/blobstore/slicing"
	"github.com/buildbarn/bb-storage/pkg/capabilities"
	"github.com/buildbarn/bb-storage/pkg/digest"
	"github.com/buildbarn/bb-storage/pkg/program"
	pb "github.com/buildbarn/bb-storage/pkg/proto/configuration/blobstore"
	"google.golang.org/grpc/codes"
	"google.golang.org/grpc/status"

	"verifharness/hx"
)

// ---------------------------------------------------------------- stable oracle sentences

const (
	whatLongest      = "GetLongestPrefix does not return the value registered for the longest registered component-wise prefix"
	whatExact        = "GetExact does not return the value registered for exactly that name"
	whatHasPrefix    = "ContainsPrefix disagrees with the existence of a registered component-wise prefix"
	whatRemovePanic  = "Remove of a registered instance name panicked"
	whatRemoveEmpty  = "Remove reports the trie empty although names remain registered (or the reverse)"
	whatPatch        = "patching does not map the old-prefix name to the new-prefix name"
	whatUnpatch      = "unpatch(patch(d)) differs from d for a name under the prefix"
	whatRoute        = "demultiplexing did not send the operation to the backend of the longest component-wise prefix with the rewritten name"
	whatUnknown      = "unknown instance name was not rejected with INVALID_ARGUMENT"
	whatForeign      = "a backend was asked about digests that are not its own (or not with the rewritten names)"
	whatUnion        = "demultiplexed FindMissing is not the union of the backends' answers in the caller's names"
	whatDemuxErr     = "demultiplexing did not return the failing backend's error code"
	whatHierGet      = "hierarchical Get did not return the object of the most specific ancestor name that has it"
	whatHierGetErr   = "hierarchical Get did not return a non-NOT_FOUND backend error as is"
	whatHierGetOrder = "hierarchical Get did not try the names from most specific to least specific"
	whatHierFM       = "hierarchical FindMissing does not report exactly the digests missing under the name and all its ancestors"
	whatHierFMErr    = "hierarchical FindMissing did not return the backend's error"
)

// ---------------------------------------------------------------- tokens

func nameTok(n string) string {
	if n == "" {
		return "-"
	}
	return n
}

func tokName(t string) string {
	if t == "-" {
		return ""
	}
	return t
}

func comps(n string) []string {
	if n == "" {
		return nil
	}
	return strings.Split(n, "/")
}

func isCompPrefix(p, n []string) bool {
	if len(p) > len(n) {
		return false
	}
	for i := range p {
		if p[i] != n[i] {
			return false
		}
	}
	return true
}

type dg struct {
	name string
	hash int
}

func (d dg) String() string { return nameTok(d.name) + ":" + strconv.Itoa(d.hash) }

func parseDg(t string) (dg, bool) {
	i := strings.LastIndexByte(t, ':')
	if i < 0 {
		return dg{}, false
	}
	h, err := strconv.Atoi(t[i+1:])
	if err != nil || h < 0 {
		return dg{}, false
	}
	return dg{tokName(t[:i]), h}, true
}

func parseDgs(t string) ([]dg, bool) {
	if t == "_" {
		return nil, true
	}
	var r []dg
	for _, w := range strings.Split(t, ",") {
		d, ok := parseDg(w)
		if !ok {
			return nil, false
		}
		r = append(r, d)
	}
	return r, true
}

func sortDgs(ds []dg) []dg {
	s := append([]dg{}, ds...)
	sort.Slice(s, func(i, j int) bool {
		a, b := nameTok(s[i].name), nameTok(s[j].name)
		return a < b || (a == b && s[i].hash < s[j].hash)
	})
	var out []dg
	for i, d := range s {
		if i > 0 && d == s[i-1] {
			continue
		}
		out = append(out, d)
	}
	return out
}

func listStr(ds []dg) string {
	if len(ds) == 0 {
		return "_"
	}
	w := make([]string, len(ds))
	for i, d := range ds {
		w[i] = d.String()
	}
	return strings.Join(w, ",")
}

func setStr(ds []dg) string { return listStr(sortDgs(ds)) }

func sizeOf(hash int) int64 { return int64(10 + hash) }

func mkDigest(d dg) digest.Digest {
	return digest.MustNewDigest(d.name, remoteexecution.DigestFunction_MD5, fmt.Sprintf("%032x", d.hash), sizeOf(d.hash))
}

// ofDigest reads a digest produced by the code under test back; a digest whose
// hash or size was damaged becomes a token that equals nothing.
func ofDigest(x digest.Digest) dg {
	h, err := strconv.ParseInt(x.GetHashString(), 16, 32)
	if err != nil || x.GetSizeBytes() != sizeOf(int(h)) || len(x.GetHashString()) != 32 {
		return dg{"corrupt<" + x.String() + ">", -1}
	}
	return dg{x.GetInstanceName().String(), int(h)}
}

func ofSet(s digest.Set) []dg {
	var r []dg
	for _, x := range s.Items() {
		r = append(r, ofDigest(x))
	}
	return r
}

func mkSet(ds []dg) digest.Set {
	b := digest.NewSetBuilder(len(ds))
	for _, d := range ds {
		b.Add(mkDigest(d))
	}
	return b.Build()
}

func errStr(err error) string {
	return fmt.Sprintf("err:%d:%s", int(status.Code(err)), strings.ReplaceAll(status.Convert(err).Message(), " ", "_"))
}

// ---------------------------------------------------------------- recording backend

type call struct {
	backend int
	op      string
	ds      []dg // digests handed to the backend (get: 1, getc: parent+child, fm: the set)
}

type recBackend struct {
	id       int
	mu       sync.Mutex
	contents map[dg]int
	faults   map[string]int    // op -> code (demultiplexing backends)
	getFault map[dg]int        // digest -> code (hierarchical base)
	fmFault  [2]int            // (call index, code) of the hierarchical base, code 0 = none
	fmCalls  int               // FindMissing calls seen during the current operation
	log      *[]call
}

func newRecBackend(id int, log *[]call) *recBackend {
	return &recBackend{id: id, contents: map[dg]int{}, faults: map[string]int{}, getFault: map[dg]int{}, log: log}
}

func (b *recBackend) tag() string {
	if b.id < 0 {
		return ""
	}
	return fmt.Sprintf(" b%d", b.id)
}

func (b *recBackend) record(op string, ds ...dg) {
	*b.log = append(*b.log, call{b.id, op, ds})
}

func notFound() error { return status.Error(codes.NotFound, "not found") }

func (b *recBackend) Get(ctx context.Context, x digest.Digest) buffer.Buffer {
	b.mu.Lock()
	defer b.mu.Unlock()
	d := ofDigest(x)
	b.record("get", d)
	if c := b.faults["get"]; c != 0 {
		return buffer.NewBufferFromError(status.Errorf(codes.Code(c), "injected get%s", b.tag()))
	}
	if c := b.getFault[d]; c != 0 {
		return buffer.NewBufferFromError(status.Errorf(codes.Code(c), "injected get %s", d))
	}
	if p, ok := b.contents[d]; ok {
		return buffer.NewValidatedBufferFromByteSlice([]byte(strconv.Itoa(p)))
	}
	return buffer.NewBufferFromError(notFound())
}

func (b *recBackend) GetFromComposite(ctx context.Context, px, cx digest.Digest, slicer slicing.BlobSlicer) buffer.Buffer {
	b.mu.Lock()
	defer b.mu.Unlock()
	p, c := ofDigest(px), ofDigest(cx)
	b.record("getc", p, c)
	if code := b.faults["getc"]; code != 0 {
		return buffer.NewBufferFromError(status.Errorf(codes.Code(code), "injected getc%s", b.tag()))
	}
	if code := b.getFault[p]; code != 0 {
		return buffer.NewBufferFromError(status.Errorf(codes.Code(code), "injected get %s", p))
	}
	if v, ok := b.contents[c]; ok {
		return buffer.NewValidatedBufferFromByteSlice([]byte(strconv.Itoa(v)))
	}
	return buffer.NewBufferFromError(notFound())
}

func (b *recBackend) Put(ctx context.Context, x digest.Digest, buf buffer.Buffer) error {
	b.mu.Lock()
	defer b.mu.Unlock()
	d := ofDigest(x)
	b.record("put", d)
	if c := b.faults["put"]; c != 0 {
		buf.Discard()
		return status.Errorf(codes.Code(c), "injected put%s", b.tag())
	}
	data, err := buf.ToByteSlice(1000)
	if err != nil {
		return err
	}
	p, err := strconv.Atoi(string(data))
	if err != nil {
		return status.Error(codes.Internal, "harness: bad payload")
	}
	b.contents[d] = p
	return nil
}

func (b *recBackend) FindMissing(ctx context.Context, s digest.Set) (digest.Set, error) {
	b.mu.Lock()
	defer b.mu.Unlock()
	asked := ofSet(s)
	b.record("fm", asked...)
	k := b.fmCalls
	b.fmCalls++
	if c := b.faults["fm"]; c != 0 {
		return digest.EmptySet, status.Errorf(codes.Code(c), "injected fm%s", b.tag())
	}
	if b.fmFault[1] != 0 && b.fmFault[0] == k {
		return digest.EmptySet, status.Errorf(codes.Code(b.fmFault[1]), "injected fm call %d", k)
	}
	out := digest.NewSetBuilder(0)
	for _, x := range s.Items() {
		if _, ok := b.contents[ofDigest(x)]; !ok {
			out.Add(x)
		}
	}
	return out.Build(), nil
}

func (b *recBackend) GetCapabilities(ctx context.Context, in digest.InstanceName) (*remoteexecution.ServerCapabilities, error) {
	return &remoteexecution.ServerCapabilities{}, nil
}

// ---------------------------------------------------------------- building the composite with the real configuration code

// creator hands the recording backends to NewBlobAccessFromConfiguration: a
// "completeness_checking" leaf (which the generic code does not know and passes
// to NewCustomBlobAccess) stands for recording backend number
// maximum_total_tree_size_bytes.
type creator struct{ backends []*recBackend }

func (c *creator) NewCustomBlobReplicator(program.Group, *pb.BlobReplicatorConfiguration, blobstore.BlobAccess, bbcfg.BlobAccessInfo) (replication.BlobReplicator, error) {
	return nil, status.Error(codes.Unimplemented, "harness")
}
func (c *creator) GetStorageTypeName() string                   { return "verif_c19" }
func (c *creator) GetBaseDigestKeyFormat() digest.KeyFormat     { return digest.KeyWithInstance }
func (c *creator) GetReadBufferFactory() blobstore.ReadBufferFactory { return nil }
func (c *creator) GetDefaultCapabilitiesProvider() capabilities.Provider {
	return nil
}
func (c *creator) NewBlockListGrowthPolicy(int, int) (local.BlockListGrowthPolicy, error) {
	return nil, status.Error(codes.Unimplemented, "harness")
}
func (c *creator) NewHierarchicalInstanceNamesLocalBlobAccess(local.KeyLocationMap, local.LocationBlobMap, *sync.RWMutex) (blobstore.BlobAccess, error) {
	return nil, status.Error(codes.Unimplemented, "harness")
}
func (c *creator) NewCustomBlobAccess(g program.Group, cfg *pb.BlobAccessConfiguration, nc bbcfg.NestedBlobAccessCreator) (bbcfg.BlobAccessInfo, string, error) {
	if cc, ok := cfg.Backend.(*pb.BlobAccessConfiguration_CompletenessChecking); ok {
		i := int(cc.CompletenessChecking.MaximumTotalTreeSizeBytes)
		if i >= 0 && i < len(c.backends) {
			return bbcfg.BlobAccessInfo{BlobAccess: c.backends[i], DigestKeyFormat: digest.KeyWithInstance}, "verif_recording", nil
		}
	}
	return bbcfg.BlobAccessInfo{}, "", status.Error(codes.InvalidArgument, "harness: unknown backend")
}
func (c *creator) WrapTopLevelBlobAccess(ba blobstore.BlobAccess) blobstore.BlobAccess { return ba }

type cfgEntry struct{ match, add string }

func buildDemux(entries []cfgEntry, backends []*recBackend) (blobstore.BlobAccess, error) {
	m := map[string]*pb.DemultiplexedBlobAccessConfiguration{}
	for i, e := range entries {
		m[e.match] = &pb.DemultiplexedBlobAccessConfiguration{
			AddInstanceNamePrefix: e.add,
			Backend: &pb.BlobAccessConfiguration{Backend: &pb.BlobAccessConfiguration_CompletenessChecking{
				CompletenessChecking: &pb.CompletenessCheckingBlobAccessConfiguration{MaximumTotalTreeSizeBytes: int64(i)}}},
		}
	}
	info, err := bbcfg.NewBlobAccessFromConfiguration(nil, &pb.BlobAccessConfiguration{
		Backend: &pb.BlobAccessConfiguration_Demultiplexing{Demultiplexing: &pb.DemultiplexingBlobAccessConfiguration{InstanceNamePrefixes: m}},
	}, &creator{backends: backends})
	if err != nil {
		return nil, err
	}
	return info.BlobAccess, nil
}

// ---------------------------------------------------------------- system under test + oracle

type sut struct {
	trie       *digest.InstanceNameTrie
	registered map[string]int // oracle: the list specification of the trie

	entries  []cfgEntry
	backends []*recBackend
	demux    blobstore.BlobAccess

	hbase *recBackend
	hier  blobstore.BlobAccess

	log []call

	what, detail string // first oracle violation
}

func newSut() *sut {
	s := &sut{trie: digest.NewInstanceNameTrie(), registered: map[string]int{}}
	s.hbase = newRecBackend(-1, &s.log)
	s.hier = blobstore.NewHierarchicalInstanceNamesBlobAccess(s.hbase)
	s.demux, _ = buildDemux(nil, nil)
	return s
}

func (s *sut) fail(what, format string, args ...interface{}) {
	if s.what == "" {
		s.what, s.detail = what, fmt.Sprintf(format, args...)
	}
}

func inst(n string) digest.InstanceName {
	in, err := digest.NewInstanceName(n)
	if err != nil {
		panic(err)
	}
	return in
}

// naiveLongest: value of the registered name that is the longest component-wise prefix of n, -1 if none.
func naiveLongest(reg map[string]int, n string) int {
	best, bestLen := -1, -1
	nc := comps(n)
	for p, v := range reg {
		pc := comps(p)
		if isCompPrefix(pc, nc) && len(pc) > bestLen {
			best, bestLen = v, len(pc)
		}
	}
	return best
}

// naiveRoute: index of the configuration entry with the longest component-wise matching prefix.
func (s *sut) naiveRoute(n string) int {
	reg := map[string]int{}
	for i, e := range s.entries {
		reg[e.match] = i
	}
	return naiveLongest(reg, n)
}

// rewrite: the name the backend of entry e must see for caller name n.
func rewrite(e cfgEntry, n string) string {
	rest := comps(n)[len(comps(e.match)):]
	return strings.Join(append(append([]string{}, comps(e.add)...), rest...), "/")
}

// probes are the (function, hash, size) parts the patcher oracle puts in front of every name.
var probes = []struct {
	fn   remoteexecution.DigestFunction_Value
	hash string
	size int64
}{
	{remoteexecution.DigestFunction_MD5, "8b1a9953c4611296a827abf8c47804d7", 5},
	{remoteexecution.DigestFunction_SHA1, "0000000000000000000000000000000000000000", 0},
	{remoteexecution.DigestFunction_SHA256, "1234567890123456789012345678901234567890123456789012345678901234", 9223372036854775807},
}

func readBuf(b buffer.Buffer) string {
	data, err := b.ToByteSlice(1000)
	if err != nil {
		return errStr(err)
	}
	return "ok:" + string(data)
}

func boolStr(b bool) string {
	if b {
		return "true"
	}
	return "false"
}

// exec runs one script line on the real code; it returns the line for the model and the reply.
func (s *sut) exec(line string) (string, string) {
	w := strings.Fields(line)
	if len(w) == 0 {
		return line, "bad-op"
	}
	ctx := context.Background()
	s.log = s.log[:0]
	switch {
	case w[0] == "t.reset" && len(w) == 1:
		s.trie = digest.NewInstanceNameTrie()
		s.registered = map[string]int{}
		return line, "ok"
	case w[0] == "t.set" && len(w) == 3:
		v, err := strconv.Atoi(w[2])
		if err != nil || v < 0 {
			return line, "bad-op"
		}
		s.trie.Set(inst(tokName(w[1])), v)
		s.registered[tokName(w[1])] = v
		return line, "ok"
	case w[0] == "t.remove" && len(w) == 2:
		n := tokName(w[1])
		_, was := s.registered[n]
		delete(s.registered, n)
		reply := func() (r string) {
			defer func() {
				if recover() != nil {
					r = "panic"
				}
			}()
			return "empty=" + boolStr(s.trie.Remove(inst(n)))
		}()
		if reply == "panic" {
			if was {
				s.fail(whatRemovePanic, "%q", line)
			}
		} else if (reply == "empty=true") != (len(s.registered) == 0) {
			s.fail(whatRemoveEmpty, "%q: %s, %d names registered", line, reply, len(s.registered))
		}
		return line, reply
	case w[0] == "t.exact" && len(w) == 2:
		n := tokName(w[1])
		got := s.trie.GetExact(inst(n))
		want := -1
		if v, ok := s.registered[n]; ok {
			want = v
		}
		if got != want || s.trie.ContainsExact(inst(n)) != (want >= 0) {
			s.fail(whatExact, "%q: got %d want %d", line, got, want)
		}
		return line, strconv.Itoa(got)
	case w[0] == "t.longest" && len(w) == 2:
		n := tokName(w[1])
		got := s.trie.GetLongestPrefix(inst(n))
		want := naiveLongest(s.registered, n)
		if got != want {
			s.fail(whatLongest, "%q: got %d want %d (registered %v)", line, got, want, s.registered)
		}
		return line, fmt.Sprintf("%d %d", got, want)
	case w[0] == "t.hasprefix" && len(w) == 2:
		n := tokName(w[1])
		got := s.trie.ContainsPrefix(inst(n))
		if got != (naiveLongest(s.registered, n) >= 0) {
			s.fail(whatHasPrefix, "%q: got %v (registered %v)", line, got, s.registered)
		}
		return line, boolStr(got)
	case (w[0] == "p.patch" || w[0] == "p.unpatch") && len(w) == 4:
		o, n, i := tokName(w[1]), tokName(w[2]), tokName(w[3])
		p := digest.NewInstanceNamePatcher(inst(o), inst(n))
		d := dg{i, 3}
		if w[0] == "p.patch" {
			a := p.PatchInstanceName(inst(i)).String()
			b := ofDigest(p.PatchDigest(mkDigest(d)))
			if oc := comps(o); isCompPrefix(oc, comps(i)) {
				want := strings.Join(append(append([]string{}, comps(n)...), comps(i)[len(oc):]...), "/")
				if a != want || b != (dg{want, 3}) {
					s.fail(whatPatch, "%q: PatchInstanceName=%q PatchDigest=%s want %q", line, a, b, want)
				}
				if back := ofDigest(p.UnpatchDigest(p.PatchDigest(mkDigest(d)))); back != d {
					s.fail(whatUnpatch, "%q: unpatch(patch(%s)) = %s", line, d, back)
				}
				// every digest function, hash and size: only the instance name changes
				for _, pr := range probes {
					x := digest.MustNewDigest(i, pr.fn, pr.hash, pr.size)
					y := p.PatchDigest(x)
					if y != digest.MustNewDigest(want, pr.fn, pr.hash, pr.size) {
						s.fail(whatPatch, "%q: PatchDigest(%s) = %s, want instance name %q and the rest unchanged", line, x, y, want)
					}
					if z := p.UnpatchDigest(y); z != x {
						s.fail(whatUnpatch, "%q: unpatch(patch(%s)) = %s", line, x, z)
					}
				}
			}
			return line, nameTok(a) + " " + nameTok(b.name)
		}
		b := ofDigest(p.UnpatchDigest(mkDigest(d)))
		if nc := comps(n); isCompPrefix(nc, comps(i)) {
			want := strings.Join(append(append([]string{}, comps(o)...), comps(i)[len(nc):]...), "/")
			if b != (dg{want, 3}) {
				s.fail(whatUnpatch, "%q: UnpatchDigest=%s want %q", line, b, want)
			}
			for _, pr := range probes {
				x := digest.MustNewDigest(i, pr.fn, pr.hash, pr.size)
				if y := p.UnpatchDigest(x); y != digest.MustNewDigest(want, pr.fn, pr.hash, pr.size) {
					s.fail(whatUnpatch, "%q: UnpatchDigest(%s) = %s, want instance name %q and the rest unchanged", line, x, y, want)
				}
			}
		}
		return line, nameTok(b.name) + " " + nameTok(b.name)
	case w[0] == "d.cfg":
		var es []cfgEntry
		seen := map[string]bool{}
		for _, x := range w[1:] {
			p := strings.Split(x, "=")
			if len(p) != 2 || seen[p[0]] {
				return line, "bad-op"
			}
			seen[p[0]] = true
			es = append(es, cfgEntry{tokName(p[0]), tokName(p[1])})
		}
		s.entries = es
		s.backends = nil
		for i := range es {
			s.backends = append(s.backends, newRecBackend(i, &s.log))
		}
		var err error
		if s.demux, err = buildDemux(es, s.backends); err != nil {
			return line, "cfg-" + errStr(err)
		}
		return line, "ok"
	case w[0] == "d.store" && len(w) == 4:
		b, err1 := strconv.Atoi(w[1])
		d, ok := parseDg(w[2])
		p, err2 := strconv.Atoi(w[3])
		if err1 != nil || err2 != nil || !ok || b < 0 || b >= len(s.backends) {
			return line, "bad-op"
		}
		s.backends[b].contents[d] = p
		return line, "ok"
	case w[0] == "d.fault" && len(w) == 4:
		b, err1 := strconv.Atoi(w[1])
		c, err2 := strconv.Atoi(w[3])
		if err1 != nil || err2 != nil || b < 0 || b >= len(s.backends) || c < 0 ||
			(w[2] != "fm" && w[2] != "get" && w[2] != "put" && w[2] != "getc") {
			return line, "bad-op"
		}
		s.backends[b].faults[w[2]] = c
		return line, "ok"
	case w[0] == "d.get" && len(w) == 2, w[0] == "d.getc" && len(w) == 3, w[0] == "d.put" && len(w) == 3:
		d, ok := parseDg(w[1])
		if !ok {
			return line, "bad-op"
		}
		var res string
		var sent []dg
		op := w[0][2:]
		switch op {
		case "get":
			res = readBuf(s.demux.Get(ctx, mkDigest(d)))
			sent = []dg{d}
		case "getc":
			c, ok := parseDg(w[2])
			if !ok {
				return line, "bad-op"
			}
			res = readBuf(s.demux.GetFromComposite(ctx, mkDigest(d), mkDigest(c), nil))
			sent = []dg{d, c}
		case "put":
			p, err := strconv.Atoi(w[2])
			if err != nil || p < 0 {
				return line, "bad-op"
			}
			if err := s.demux.Put(ctx, mkDigest(d), buffer.NewValidatedBufferFromByteSlice([]byte(strconv.Itoa(p)))); err != nil {
				res = errStr(err)
			} else {
				res = "ok"
			}
			sent = []dg{d}
		}
		// oracle
		r := s.naiveRoute(d.name)
		if r < 0 {
			if len(s.log) != 0 || !strings.HasPrefix(res, fmt.Sprintf("err:%d:", int(codes.InvalidArgument))) {
				s.fail(whatUnknown, "%q: %s, %d backend calls", line, res, len(s.log))
			}
		} else {
			var want []dg
			for _, x := range sent {
				want = append(want, dg{rewrite(s.entries[r], x.name), x.hash})
			}
			if len(s.log) != 1 || s.log[0].backend != r || s.log[0].op != op || listStr(s.log[0].ds) != listStr(want) {
				s.fail(whatRoute, "%q: calls %v, want backend %d with %s", line, s.log, r, listStr(want))
			} else if c := s.backends[r].faults[op]; c != 0 {
				if !strings.HasPrefix(res, fmt.Sprintf("err:%d:", c)) {
					s.fail(whatDemuxErr, "%q: %s, backend %d failed with code %d", line, res, r, c)
				}
			} else if op != "put" {
				wantRes := fmt.Sprintf("err:%d:", int(codes.NotFound))
				if p, ok := s.backends[r].contents[want[len(want)-1]]; ok {
					wantRes = "ok:" + strconv.Itoa(p)
				}
				if !strings.HasPrefix(res, wantRes) {
					s.fail(whatRoute, "%q: %s, want %s", line, res, wantRes)
				}
			} else if res != "ok" {
				s.fail(whatRoute, "%q: %s, want ok", line, res)
			}
		}
		c := "none"
		if len(s.log) > 0 {
			var parts []string
			for _, x := range s.log[0].ds {
				parts = append(parts, x.String())
			}
			c = fmt.Sprintf("%d:%s", s.log[0].backend, strings.Join(parts, "|"))
			if len(s.log) > 1 {
				c += fmt.Sprintf("+%d-more-calls", len(s.log)-1)
			}
		}
		return line, "call=" + c + " res=" + res
	case w[0] == "d.fm" && len(w) == 2:
		ds, ok := parseDgs(w[1])
		if !ok {
			return line, "bad-op"
		}
		missing, err := s.demux.FindMissing(ctx, mkSet(ds))
		var res string
		if err != nil {
			res = errStr(err)
		} else {
			res = "ok:" + setStr(ofSet(missing))
		}
		var order, cs []string
		for _, c := range s.log {
			order = append(order, strconv.Itoa(c.backend))
			cs = append(cs, fmt.Sprintf("%d:%s", c.backend, setStr(c.ds)))
		}
		s.checkDemuxFindMissing(line, ds, missing, err)
		o, c := "_", "none"
		if len(order) > 0 {
			o, c = strings.Join(order, ","), strings.Join(cs, ";")
		}
		// the model walks the digests in the order of Set.Items()
		return "d.fm " + o + " " + listStr(ofSet(mkSet(ds))), "calls=" + c + " res=" + res
	case w[0] == "h.reset" && len(w) == 1:
		s.hbase.contents = map[dg]int{}
		s.hbase.getFault = map[dg]int{}
		s.hbase.fmFault = [2]int{}
		return line, "ok"
	case w[0] == "h.store" && len(w) == 3:
		d, ok := parseDg(w[1])
		p, err := strconv.Atoi(w[2])
		if !ok || err != nil || p < 0 {
			return line, "bad-op"
		}
		s.hbase.contents[d] = p
		return line, "ok"
	case w[0] == "h.fault" && len(w) == 4 && w[1] == "get":
		d, ok := parseDg(w[2])
		c, err := strconv.Atoi(w[3])
		if !ok || err != nil || c < 0 {
			return line, "bad-op"
		}
		if c == 0 {
			delete(s.hbase.getFault, d)
		} else {
			s.hbase.getFault[d] = c
		}
		return line, "ok"
	case w[0] == "h.fault" && len(w) == 4 && w[1] == "fm":
		k, err1 := strconv.Atoi(w[2])
		c, err2 := strconv.Atoi(w[3])
		if err1 != nil || err2 != nil || k < 0 || c < 0 {
			return line, "bad-op"
		}
		s.hbase.fmFault = [2]int{k, c}
		return line, "ok"
	case w[0] == "h.get" && len(w) == 2, w[0] == "h.getc" && len(w) == 3:
		d, ok := parseDg(w[1])
		if !ok {
			return line, "bad-op"
		}
		c := d
		var res string
		if w[0] == "h.getc" {
			if c, ok = parseDg(w[2]); !ok || c.name != d.name {
				return line, "bad-op"
			}
			res = readBuf(s.hier.GetFromComposite(ctx, mkDigest(d), mkDigest(c), nil))
		} else {
			res = readBuf(s.hier.Get(ctx, mkDigest(d)))
		}
		s.checkHierGet(line, d, c, res)
		var cs []string
		for _, x := range s.log {
			if w[0] == "h.getc" && len(x.ds) == 2 {
				cs = append(cs, x.ds[0].String()+"|"+x.ds[1].String())
			} else {
				cs = append(cs, listStr(x.ds))
			}
		}
		return line, "calls=" + strings.Join(cs, ",") + " res=" + res
	case w[0] == "h.fm" && len(w) == 2:
		ds, ok := parseDgs(w[1])
		if !ok {
			return line, "bad-op"
		}
		s.hbase.fmCalls = 0
		missing, err := s.hier.FindMissing(ctx, mkSet(ds))
		var res string
		if err != nil {
			res = errStr(err)
		} else {
			res = "ok:" + setStr(ofSet(missing))
		}
		var cs []string
		for _, c := range s.log {
			cs = append(cs, setStr(c.ds))
		}
		s.checkHierFindMissing(line, ds, missing, err)
		return "h.fm " + listStr(ofSet(mkSet(ds))), "calls=" + strings.Join(cs, ";") + " res=" + res
	}
	return line, "bad-op"
}

// C19 for the demultiplexing FindMissing, stated on the recorded calls and the backends' contents.
func (s *sut) checkDemuxFindMissing(line string, ds []dg, missing digest.Set, err error) {
	own := map[int][]dg{} // backend -> rewritten digests it must be asked
	back := map[int]map[dg]dg{}
	unknown := false
	for _, d := range ds {
		r := s.naiveRoute(d.name)
		if r < 0 {
			unknown = true
			continue
		}
		x := dg{rewrite(s.entries[r], d.name), d.hash}
		own[r] = append(own[r], x)
		if back[r] == nil {
			back[r] = map[dg]dg{}
		}
		back[r][x] = d
	}
	if unknown {
		if err == nil || status.Code(err) != codes.InvalidArgument || len(s.log) != 0 {
			s.fail(whatUnknown, "%q: err=%v, %d backend calls", line, err, len(s.log))
		}
		return
	}
	called := map[int]bool{}
	for _, c := range s.log {
		if c.op != "fm" || called[c.backend] || setStr(c.ds) != setStr(own[c.backend]) || len(c.ds) == 0 {
			s.fail(whatForeign, "%q: backend %d asked %s, its own digests are %s", line, c.backend, setStr(c.ds), setStr(own[c.backend]))
			return
		}
		called[c.backend] = true
	}
	var faulty []int
	for b := range own {
		if s.backends[b].faults["fm"] != 0 {
			faulty = append(faulty, b)
		}
	}
	if len(faulty) > 0 {
		ok := false
		for _, b := range faulty {
			if err != nil && int(status.Code(err)) == s.backends[b].faults["fm"] && called[b] &&
				strings.Contains(status.Convert(err).Message(), fmt.Sprintf("Backend %q", s.entries[b].match)) {
				ok = true
			}
		}
		if !ok {
			s.fail(whatDemuxErr, "%q: err=%v, failing backends %v", line, err, faulty)
		}
		return
	}
	if err != nil {
		s.fail(whatUnion, "%q: unexpected error %v", line, err)
		return
	}
	var want []dg
	for b, xs := range own {
		if !called[b] {
			s.fail(whatUnion, "%q: backend %d was not asked about its digests %s", line, b, setStr(xs))
			return
		}
		for _, x := range xs {
			if _, ok := s.backends[b].contents[x]; !ok {
				want = append(want, back[b][x])
			}
		}
	}
	if got := setStr(ofSet(missing)); got != setStr(want) {
		s.fail(whatUnion, "%q: got %s want %s", line, got, setStr(want))
	}
}

// ancestors of a name, most specific first (the name itself included).
func ancestors(n string) []string {
	c := comps(n)
	var r []string
	for k := len(c); k >= 0; k-- {
		r = append(r, strings.Join(c[:k], "/"))
	}
	return r
}

func (s *sut) checkHierGet(line string, p, c dg, res string) {
	anc := ancestors(p.name)
	for i, x := range s.log {
		ok := i < len(anc) && x.ds[0] == (dg{anc[i], p.hash})
		if len(x.ds) == 2 {
			ok = ok && x.ds[1] == (dg{anc[i], c.hash})
		}
		if !ok {
			s.fail(whatHierGetOrder, "%q: call %d was %s", line, i, listStr(x.ds))
			return
		}
	}
	for i, a := range anc {
		if code := s.hbase.getFault[dg{a, p.hash}]; code != 0 && code != int(codes.NotFound) {
			if !strings.HasPrefix(res, fmt.Sprintf("err:%d:", code)) || len(s.log) != i+1 {
				s.fail(whatHierGetErr, "%q: %s after %d calls; name %q fails with code %d", line, res, len(s.log), a, code)
			}
			return
		}
		if s.hbase.getFault[dg{a, p.hash}] != 0 {
			continue // injected NOT_FOUND: as if absent
		}
		if v, ok := s.hbase.contents[dg{a, c.hash}]; ok {
			if res != "ok:"+strconv.Itoa(v) || len(s.log) != i+1 {
				s.fail(whatHierGet, "%q: %s after %d calls; most specific holder is %q with payload %d", line, res, len(s.log), a, v)
			}
			return
		}
	}
	if !strings.HasPrefix(res, fmt.Sprintf("err:%d:", int(codes.NotFound))) || len(s.log) != len(anc) {
		s.fail(whatHierGet, "%q: %s after %d calls; no ancestor has the object", line, res, len(s.log))
	}
}

func (s *sut) checkHierFindMissing(line string, ds []dg, missing digest.Set, err error) {
	if f := s.hbase.fmFault; f[1] != 0 && len(s.log) > f[0] {
		if err == nil || int(status.Code(err)) != f[1] || len(s.log) != f[0]+1 {
			s.fail(whatHierFMErr, "%q: err=%v after %d calls; call %d fails with code %d", line, err, len(s.log), f[0], f[1])
		}
		return
	}
	if err != nil {
		s.fail(whatHierFMErr, "%q: unexpected error %v", line, err)
		return
	}
	var want []dg
	for _, d := range ds {
		absent := true
		for _, a := range ancestors(d.name) {
			if _, ok := s.hbase.contents[dg{a, d.hash}]; ok {
				absent = false
			}
		}
		if absent {
			want = append(want, d)
		}
	}
	if got := setStr(ofSet(missing)); got != setStr(want) {
		s.fail(whatHierFM, "%q: got %s want %s", line, got, setStr(want))
	}
}

// ---------------------------------------------------------------- running a case

type outcome struct {
	what, detail string
	agree        bool
	found        []hx.Finding
}

var resetLines = []string{"t.reset", "h.reset", "d.cfg"}

func runCase(run *hx.Run, model *hx.Model, name string, script []string, report bool) outcome {
	s := newSut()
	var lines, impl []string
	for _, l := range append(append([]string{}, resetLines...), script...) {
		if strings.HasPrefix(l, "#") || strings.TrimSpace(l) == "" {
			continue
		}
		emit, reply := func() (e, r string) {
			defer func() {
				if p := recover(); p != nil {
					e, r = l, fmt.Sprintf("panic:%v", p)
					s.fail("the code under test panicked", "%q: %v", l, p)
				}
			}()
			return s.exec(l)
		}()
		lines = append(lines, emit)
		impl = append(impl, reply)
	}
	out := outcome{what: s.what, detail: s.detail, agree: true}
	validated := false
	if model != nil {
		mo := model.Batch(lines)
		validated = true
		run.Compared(len(mo))
		for i := range mo {
			if i < len(impl) && mo[i] != impl[i] {
				out.agree = false
				out.found = append(out.found, hx.Finding{Kind: "disagreement", What: "model/implementation differ",
					Detail: fmt.Sprintf("step %d %q: impl=%q model=%q", i, lines[i], impl[i], mo[i]),
					Case:   name, Script: script, Impl: impl, Model: mo})
				break
			}
		}
	}
	if report {
		kinds := map[string]int{}
		for i, l := range lines {
			op := strings.Fields(l)[0]
			kinds[op]++
			run.Count("op:" + op)
			if strings.Contains(impl[i], "res=err:") {
				run.Count("reply:" + op + ":" + strings.SplitN(strings.SplitN(impl[i], "res=err:", 2)[1], ":", 2)[0])
			}
			if impl[i] == "panic" {
				run.Count("reply:remove-panic")
			}
		}
		queries := kinds["t.longest"] + kinds["d.fm"] + kinds["d.get"] + kinds["d.getc"] + kinds["d.put"] + kinds["h.get"] + kinds["h.getc"] + kinds["h.fm"] + kinds["p.patch"]
		run.Case(script, queries >= 3 && len(lines) >= 8, validated)
	}
	if s.what != "" {
		out.found = append(out.found, hx.Finding{Kind: "oracle", What: s.what, Detail: s.detail, Case: name, Script: script, Impl: impl})
	}
	return out
}

// ---------------------------------------------------------------- generators

// A vocabulary is the name material of one case. The classic one has string- but not
// component-prefixes; the dashed one has components containing '-', digits, hex letters, '_', '.'
// (characters that also occur in the packed string form "<function>-<hash>-<size>-<instance name>"
// of a Digest), a component that is just "-", and names that look like packed digests.
type vocab struct {
	prefixes []string   // six prefixes: exhaustive subsets
	names    []string   // names looked up / carried by digests
	adds     []string   // add_instance_name_prefix values
	rests    [][]string // continuations below a prefix
	deep     []string   // focus names of the hierarchical cases
}

var classic = vocab{
	prefixes: []string{"", "a", "ab", "a/b", "a/b/c", "b"},
	names:    []string{"", "a", "ab", "a/b", "a/b/c", "b", "a/b/c/d", "ab/c", "a/bc", "b/a", "c", "a/ab", "abc", "a/b/cd", "b/a/b"},
	adds:     []string{"", "x", "x/y", "a", "b", "a/b", "ab"},
	rests:    [][]string{nil, nil, {"q"}, {"q", "r"}, {"a"}, {"b", "a"}, {"ab"}, {"qq", "r", "s"}},
	deep:     []string{"a/b/c/d", "a/b/c", "b/a/b", "ab/c", "a/b/cd"},
}

var dashed = vocab{
	prefixes: []string{"", "team", "team-a", "team-a/ci", "a-", "1-2"},
	names: []string{"", "team", "team-a", "team-ab", "team-a/ci", "team-a/ci/linux-x86_64", "team-a/c", "team/a", "a-", "a-/b", "a-/-",
		"-/a", "1-2", "1-2/3", "1", "qa/linux-qa/64", "3-00000000000000000000000000000003-13-a", "team-a/3-0f-1", "a_b.c/d-e"},
	adds:  []string{"", "team-shared", "x-1/y", "-/z", "9-f", "team-a", "a-"},
	rests: [][]string{nil, nil, {"q-"}, {"linux-x86_64"}, {"-"}, {"q", "r-s"}, {"3-00-1"}, {"a-", "b"}},
	deep:  []string{"team-a/ci/linux-x86_64", "a-/-", "qa/linux-qa/64", "team-a/3-0f-1", "1-2/3"},
}

var vocabs = []vocab{classic, dashed}

func pickVocab(r *hx.Rand) vocab { return vocabs[r.Intn(len(vocabs))] }

func pick(r *hx.Rand, pool []string) string { return pool[r.Intn(len(pool))] }

func genTrie(r *hx.Rand, v vocab) []string {
	var s []string
	reg := map[string]bool{}
	prefixPool, namePool := v.prefixes, v.names
	pool := prefixPool
	if r.Chance(1, 3) {
		pool = namePool
	}
	n := r.Range(4, 30)
	for i := 0; i < n; i++ {
		switch x := r.Intn(100); {
		case x < 45:
			p := pick(r, pool)
			s = append(s, fmt.Sprintf("t.set %s %d", nameTok(p), r.Intn(10)))
			reg[p] = true
		case x < 75:
			var p string
			if len(reg) > 0 && r.Chance(3, 4) {
				var ks []string
				for k := range reg {
					ks = append(ks, k)
				}
				sort.Strings(ks)
				p = ks[r.Intn(len(ks))]
			} else {
				p = pick(r, namePool)
			}
			s = append(s, "t.remove "+nameTok(p))
			delete(reg, p)
		default:
			s = append(s, "t.longest "+nameTok(pick(r, namePool)))
		}
		if r.Chance(1, 3) {
			for _, q := range namePool {
				s = append(s, "t.longest "+nameTok(q))
			}
			s = append(s, "t.exact "+nameTok(pick(r, namePool)), "t.hasprefix "+nameTok(pick(r, namePool)))
		}
	}
	for _, q := range namePool {
		s = append(s, "t.longest "+nameTok(q), "t.exact "+nameTok(q), "t.hasprefix "+nameTok(q))
	}
	return s
}

func join(p string, rest []string) string {
	return strings.Join(append(append([]string{}, comps(p)...), rest...), "/")
}

func genPatch(r *hx.Rand, v vocab) []string {
	var s []string
	namePool, addPool, restPool := v.names, v.adds, v.rests
	for i := r.Range(3, 12); i > 0; i-- {
		o, n := pick(r, namePool), pick(r, namePool)
		if r.Chance(1, 4) {
			n = pick(r, addPool)
		}
		if r.Chance(1, 8) {
			n = o
		}
		rest := restPool[r.Intn(len(restPool))]
		s = append(s, fmt.Sprintf("p.patch %s %s %s", nameTok(o), nameTok(n), nameTok(join(o, rest))),
			fmt.Sprintf("p.unpatch %s %s %s", nameTok(o), nameTok(n), nameTok(join(n, rest))))
	}
	return s
}

func genCfg(r *hx.Rand, v vocab) []cfgEntry {
	prefixPool, namePool, addPool := v.prefixes, v.names, v.adds
	pool := prefixPool
	if r.Chance(1, 5) {
		pool = namePool
	}
	k := r.Range(1, 5)
	seen := map[string]bool{}
	var es []cfgEntry
	for i := 0; i < k; i++ {
		m := pick(r, pool)
		if seen[m] {
			continue
		}
		seen[m] = true
		a := pick(r, addPool)
		switch r.Intn(6) {
		case 0:
			a = m
		case 1:
			a = ""
		}
		es = append(es, cfgEntry{m, a})
	}
	return es
}

func cfgLine(es []cfgEntry) string {
	w := []string{"d.cfg"}
	for _, e := range es {
		w = append(w, nameTok(e.match)+"="+nameTok(e.add))
	}
	return strings.Join(w, " ")
}

var faultCodes = []int{int(codes.Unavailable), int(codes.Internal), int(codes.NotFound), int(codes.InvalidArgument), int(codes.ResourceExhausted)}

func genDigests(r *hx.Rand, namePool []string, k, hashes int) []dg {
	var ds []dg
	base := pick(r, namePool)
	for i := 0; i < k; i++ {
		n := pick(r, namePool)
		if r.Chance(1, 3) {
			n = base
		}
		ds = append(ds, dg{n, r.Intn(hashes)})
	}
	return sortDgs(ds)
}

func genDemux(r *hx.Rand, v vocab) []string {
	namePool := v.names
	es := genCfg(r, v)
	s := []string{cfgLine(es)}
	sim := &sut{entries: es}
	hashes := r.Range(2, 6)
	payload := 100
	place := func() {
		// an object some caller name resolves to, or a stray one
		d := dg{pick(r, namePool), r.Intn(hashes)}
		if b := sim.naiveRoute(d.name); b >= 0 && r.Chance(5, 6) {
			s = append(s, fmt.Sprintf("d.store %d %s %d", b, dg{rewrite(es[b], d.name), d.hash}, payload))
		} else {
			s = append(s, fmt.Sprintf("d.store %d %s %d", r.Intn(len(es)), d, payload))
		}
		payload++
	}
	for i := r.Range(0, 10); i > 0; i-- {
		place()
	}
	faults := r.Chance(1, 4)
	for i := r.Range(3, 12); i > 0; i-- {
		if faults && r.Chance(1, 3) {
			code := faultCodes[r.Intn(len(faultCodes))]
			if r.Chance(1, 3) {
				code = 0
			}
			s = append(s, fmt.Sprintf("d.fault %d %s %d", r.Intn(len(es)), []string{"fm", "fm", "get", "put", "getc"}[r.Intn(5)], code))
		}
		switch x := r.Intn(100); {
		case x < 50:
			ds := genDigests(r, namePool, r.PickInt(0, 1, 2, 3, 4, 6, 8, 12), hashes)
			if r.Chance(3, 4) { // mostly sets in which every name resolves
				var known []dg
				for _, d := range ds {
					if sim.naiveRoute(d.name) >= 0 {
						known = append(known, d)
					}
				}
				ds = known
			}
			s = append(s, "d.fm "+listStr(ds))
		case x < 70:
			s = append(s, "d.get "+dg{pick(r, namePool), r.Intn(hashes)}.String())
		case x < 80:
			n := pick(r, namePool)
			s = append(s, fmt.Sprintf("d.getc %s %s", dg{n, r.Intn(hashes)}, dg{n, r.Intn(hashes)}))
		case x < 92:
			s = append(s, fmt.Sprintf("d.put %s %d", dg{pick(r, namePool), r.Intn(hashes)}, payload))
			payload++
		default:
			place()
		}
	}
	return s
}

func genHier(r *hx.Rand, v vocab) []string {
	var s []string
	hashes := r.Range(1, 4)
	payload := 500
	namePool, deep := v.names, v.deep
	focus := pick(r, deep)
	for i := r.Range(0, 8); i > 0; i-- {
		n := pick(r, namePool)
		if r.Chance(2, 3) {
			a := ancestors(focus)
			n = a[r.Intn(len(a))]
		}
		s = append(s, fmt.Sprintf("h.store %s %d", dg{n, r.Intn(hashes)}, payload))
		payload++
	}
	faults := r.Chance(1, 4)
	for i := r.Range(3, 10); i > 0; i-- {
		if faults && r.Chance(1, 2) {
			if r.Chance(1, 2) {
				a := ancestors(focus)
				code := faultCodes[r.Intn(len(faultCodes))]
				if r.Chance(1, 4) {
					code = 0
				}
				s = append(s, fmt.Sprintf("h.fault get %s %d", dg{a[r.Intn(len(a))], r.Intn(hashes)}, code))
			} else {
				code := faultCodes[r.Intn(len(faultCodes))]
				if r.Chance(1, 4) {
					code = 0
				}
				s = append(s, fmt.Sprintf("h.fault fm %d %d", r.Intn(5), code))
			}
		}
		n := pick(r, namePool)
		if r.Chance(1, 2) {
			n = focus
		}
		switch x := r.Intn(100); {
		case x < 35:
			s = append(s, "h.get "+dg{n, r.Intn(hashes)}.String())
		case x < 45:
			s = append(s, fmt.Sprintf("h.getc %s %s", dg{n, r.Intn(hashes)}, dg{n, r.Intn(hashes)}))
		case x < 90:
			ds := genDigests(r, namePool, r.PickInt(0, 1, 2, 3, 5, 8, 12), hashes)
			if r.Chance(1, 2) {
				for _, a := range ancestors(focus) {
					if r.Chance(1, 2) {
						ds = append(ds, dg{a, r.Intn(hashes)})
					}
				}
			}
			s = append(s, "h.fm "+listStr(sortDgs(ds)))
		default:
			s = append(s, fmt.Sprintf("h.store %s %d", dg{n, r.Intn(hashes)}, payload))
			payload++
		}
	}
	return s
}

func genScript(r *hx.Rand) (string, []string) {
	v := pickVocab(r)
	tag := "classic-"
	if len(v.names) == len(dashed.names) {
		tag = "dashed-"
	}
	switch x := r.Intn(100); {
	case x < 30:
		return tag + "trie", genTrie(r, v)
	case x < 42:
		return tag + "patch", genPatch(r, v)
	case x < 73:
		return tag + "demux", genDemux(r, v)
	case x < 95:
		return tag + "hier", genHier(r, v)
	default:
		return tag + "mixed", append(append(append(genTrie(r, v), genDemux(r, pickVocab(r))...), genHier(r, v)...), genPatch(r, pickVocab(r))...)
	}
}

// ---------------------------------------------------------------- exhaustive small scopes

func exhaustive(handle0 func(string, []string), run *hx.Run) {
	count := 0
	for vi, v := range vocabs {
		handle := func(name string, script []string) {
			if vi > 0 {
				name = strings.Replace(name, "exh/", fmt.Sprintf("exh/v%d/", vi), 1)
			}
			handle0(name, script)
		}
		prefixPool, namePool, addPool, restPool := v.prefixes, v.names, v.adds, v.rests
		leaves := []string{v.deep[0], v.deep[1]}
		if vi == 0 {
			leaves = []string{"a/b/c", "ab/c"}
		}
		exhaustiveVocab(handle, &count, prefixPool, namePool, addPool, restPool, leaves)
	}
	run.Extra("exhaustive_cases", count)
}

func exhaustiveVocab(handle func(string, []string), countp *int, prefixPool, namePool, addPool []string, restPool [][]string, leaves []string) {
	count := 0
	// every subset of the six prefixes, every name queried; then every single removal.
	for mask := 0; mask < 1<<len(prefixPool); mask++ {
		var sets []string
		for i, p := range prefixPool {
			if mask&(1<<i) != 0 {
				sets = append(sets, fmt.Sprintf("t.set %s %d", nameTok(p), i))
			}
		}
		var queries []string
		for _, q := range namePool {
			queries = append(queries, "t.longest "+nameTok(q), "t.hasprefix "+nameTok(q))
		}
		handle(fmt.Sprintf("exh/trie/%d", mask), append(append([]string{}, sets...), queries...))
		count++
		for i, p := range prefixPool {
			if mask&(1<<i) != 0 {
				s := append(append([]string{}, sets...), "t.remove "+nameTok(p))
				s = append(s, queries...)
				// the removed nodes are really gone: removing names below/above shows the structure
				for _, q := range prefixPool {
					s = append(s, "t.remove "+nameTok(q))
				}
				handle(fmt.Sprintf("exh/trie/%d-%d", mask, i), s)
				count++
			}
		}
	}
	// every pair of prefixes as (old, new), every continuation.
	for _, o := range namePool {
		var s []string
		for _, n := range namePool {
			for _, rest := range restPool[1:] {
				s = append(s, fmt.Sprintf("p.patch %s %s %s", nameTok(o), nameTok(n), nameTok(join(o, rest))),
					fmt.Sprintf("p.unpatch %s %s %s", nameTok(o), nameTok(n), nameTok(join(n, rest))))
			}
		}
		handle("exh/patch/"+nameTok(o), s)
		count++
	}
	// every non-empty subset of the six prefixes as demultiplexing configuration; all names in one FindMissing.
	for mask := 1; mask < 1<<len(prefixPool); mask++ {
		for variant := 0; variant < 3; variant++ {
			var es []cfgEntry
			for i, p := range prefixPool {
				if mask&(1<<i) != 0 {
					es = append(es, cfgEntry{p, []string{"", p, addPool[(i+mask)%len(addPool)]}[variant]})
				}
			}
			s := []string{cfgLine(es)}
			sim := &sut{entries: es}
			var all []dg
			for j, q := range namePool {
				all = append(all, dg{q, j % 2})
				if b := sim.naiveRoute(q); b >= 0 && (j+mask+variant)%3 == 0 {
					s = append(s, fmt.Sprintf("d.store %d %s %d", b, dg{rewrite(es[b], q), j % 2}, j))
				}
			}
			if mask&1 != 0 { // with the empty prefix registered every name resolves
				s = append(s, "d.fm "+listStr(sortDgs(all)))
			}
			for _, q := range namePool {
				s = append(s, "d.fm "+dg{q, 0}.String()+","+dg{q, 1}.String(), "d.get "+dg{q, 0}.String())
			}
			var known []dg
			for _, d := range all {
				if sim.naiveRoute(d.name) >= 0 {
					known = append(known, d)
				}
			}
			s = append(s, "d.fm "+listStr(sortDgs(known)))
			handle(fmt.Sprintf("exh/demux/%d-%d", mask, variant), s)
			count++
		}
	}
	// every placement of one object across the ancestors of a/b/c (and one fault position).
	for _, leaf := range leaves {
		anc := ancestors(leaf)
		for mask := 0; mask < 1<<len(anc); mask++ {
			for fault := -1; fault < len(anc); fault++ {
				var s []string
				for i, a := range anc {
					if mask&(1<<i) != 0 {
						s = append(s, fmt.Sprintf("h.store %s %d", dg{a, 1}, 10+i))
					}
				}
				if fault >= 0 {
					s = append(s, fmt.Sprintf("h.fault get %s 14", dg{anc[fault], 1}), fmt.Sprintf("h.fault fm %d 13", fault))
				}
				var all []dg
				for _, a := range anc {
					s = append(s, "h.get "+dg{a, 1}.String(), "h.fm "+dg{a, 1}.String())
					all = append(all, dg{a, 1}, dg{a, 2})
				}
				s = append(s, "h.fm "+listStr(sortDgs(append(all, dg{namePool[5], 1}, dg{namePool[8], 1}))), fmt.Sprintf("h.getc %s %s", dg{leaf, 1}, dg{leaf, 1}))
				handle(fmt.Sprintf("exh/hier/%s/%d/%d", leaf, mask, fault), s)
				count++
			}
		}
	}
	*countp += count
}

// ---------------------------------------------------------------- the test

func TestC19(t *testing.T) {
	run := hx.NewRun("C19")
	defer run.Finish(t)
	model, err := hx.StartModel()
	if err != nil {
		t.Fatalf("start model: %v", err)
	}
	defer model.Close()
	run.HasModel = model != nil
	run.SetRule("scripts over the instance-name trie (Set/Remove histories with lookups of 15 names), the patcher, " +
		"demultiplexing composites built by the real configuration code over 1..5 prefixes from {\"\",a,ab,a/b,a/b/c,b} " +
		"(and others) with rewrites, and the hierarchical decorator over placements across ancestors, with fault injection; " +
		"every generator and exhaustive scope also over a second vocabulary whose components contain '-', digits, hex letters, '_', '.' " +
		"(team-a, linux-x86_64, a-, a component \"-\", names shaped like packed digests); " +
		"a case is non-trivial when it has >= 3 routed operations/lookups and >= 8 lines; distinct by script hash; " +
		"plus exhaustive small scopes (all prefix subsets, all single removals, all prefix pairs, all placements)")

	handle := func(name string, script []string) {
		out := runCase(run, model, name, script, true)
		found := out.found
		if out.what != "" || !out.agree {
			small := hx.Shrink(script, 0, func(s []string) bool {
				o := runCase(run, model, name, s, false)
				if out.what != "" {
					return o.what == out.what
				}
				return !o.agree
			})
			if len(small) < len(script) {
				if o2 := runCase(run, model, name+"/shrunk", small, false); len(o2.found) > 0 {
					found = o2.found
				}
			}
		}
		for _, f := range found {
			run.Report(f)
		}
	}

	if name, script := run.ReplayScript(); script != nil {
		out := runCase(run, model, name, script, true)
		for _, f := range out.found {
			run.Report(f)
			t.Logf("impl:  %v", f.Impl)
			t.Logf("model: %v", f.Model)
		}
		t.Logf("replay %s: oracle=%q %s agree=%v", name, out.what, out.detail, out.agree)
		return
	}
	for name, script := range run.CorpusScripts() {
		handle("corpus/"+name, script)
	}
	exhaustive(handle, run)
	n := run.Scale(20000, 400000)
	for i := 0; i < n && run.Findings() < 20; i++ {
		r := hx.NewRand(run.Seed, "C19", i)
		kind, script := genScript(r)
		run.Count("kind:" + kind)
		handle(fmt.Sprintf("seed%d/case%d", run.Seed, i), script)
	}
}
