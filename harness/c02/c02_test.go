// Package c02 checks property C02 (after a crash and restart no object is
// served with wrong bytes) on the real persistent local store: workloads of
// uploads, refreshes, rotations and syncer steps in harness-chosen
// interleavings; after every step the harness materialises post-crash media
// (subsets of unsynced sector writes, subsets of index record writes, old or new
// state file), rebuilds a store from each with the real constructors, reads
// every object back and compares with the Lean model's post-crash store and
// with the content that was uploaded.
package c02

import (
	"fmt"
	"os"
	"testing"
	"time"

	"verifharness/hx"
	"verifharness/psx"
)

func handle(run *hx.Run, model *hx.Model, name string, r *psx.Runner) {
	if r == nil {
		return
	}
	run.Case(r.Script, len(r.Acked) >= 2 && len(r.Script) >= 12, model != nil)
	if !r.Failed {
		return
	}
	// shrink: drop lines of the recorded script as long as some finding remains
	// (the failing script is replayable as it stands; shrinking re-runs it on fresh stores)
	script, what := r.Script, r.FailWhat
	psx.GateTimeout = 500 * time.Millisecond
	small := hx.Shrink(script, 1, func(s []string) bool {
		rr := psx.Replay(hx.NewRun("C02"), model, name+"/shrink", s)
		return rr != nil && rr.FailWhat == what
	})
	psx.GateTimeout = 10 * time.Second
	// the shrunk script is reported first (./check saves the first finding of a kind as the replay)
	var shrunk *psx.Runner
	if len(small) < len(script) {
		shrunk = psx.Replay(run, model, name+"/shrunk", small)
	}
	r.ReportHeld(shrunk)
}

func TestC02(t *testing.T) {
	run := hx.NewRun("C02")
	defer run.Finish(t)
	model, err := hx.StartModel()
	if err != nil {
		t.Fatalf("start model: %v", err)
	}
	defer model.Close()
	run.HasModel = model != nil
	if os.Getenv("VERIF_SEARCH") != "" {
		// a proof obligation or the tie broke: look for a concrete failing input with the oracle alone
		model = nil
	}
	run.SetRule("random workloads (uploads incl. split and repeated ones, Get/FindMissing with refreshes, rotations, both syncer goroutines " +
		"stepped at every lock region and I/O operation, failing syncs and directory operations, crash+restart of the running store) on " +
		"geometries of 4..16 byte sectors, 2..5 sectors per block, 4..9 blocks, 5..13 index records; after every step the post-crash media " +
		"all-lost, all-kept and random subsets (thorough: every subset up to 8 pending writes) are rebuilt and read back; every fourth " +
		"case ends with a graceful shutdown (an upload inside its first data sync, its final data sync failing up to 3 times) followed by " +
		"a process exit and by a power loss; NotifySyncCompleted must be preceded by a successful device Sync since NotifySyncStarting; a case is " +
		"non-trivial when >= 2 uploads were acknowledged and it has >= 12 steps")

	if name, script := run.ReplayScript(); script != nil && psx.ReplayRoundTrip(run, name, script) {
		return
	}
	if name, script := run.ReplayScript(); script != nil {
		r := psx.Replay(run, model, name, script)
		if r != nil {
			for i := range r.Impl {
				t.Logf("impl:  %s", r.Impl[i])
				t.Logf("model: %s", r.Mdl[i])
			}
			if r.Failed && r.FailKind != "oracle" && model != nil {
				// the run stopped where model and code part ways: let the oracle alone judge the same script
				psx.Replay(run, nil, name+"/oracle-only", script)
			}
		}
		return
	}
	for name, script := range run.CorpusScripts() {
		if psx.ReplayRoundTrip(run, "corpus/"+name, script) {
			continue
		}
		psx.Replay(run, model, "corpus/"+name, script)
	}
	// the state a restart reads is the state that was written, whatever its size (see psx.StateRoundTrip)
	for i, k := 0, run.Scale(30, 300); i < k && run.Findings() < 10; i++ {
		psx.RandomRoundTrip(run, fmt.Sprintf("seed%d/roundtrip%d", run.Seed, i), hx.NewRand(run.Seed, "C02-roundtrip", i))
	}
	n := run.Scale(60, 600)
	for i := 0; i < n && run.Findings() < 10; i++ {
		rnd := hx.NewRand(run.Seed, "C02", i)
		// every fourth case ends with a graceful shutdown (with failing final data syncs) followed by power loss
		o := psx.Opts{Steps: rnd.Range(50, 90), Forks: 6, Crashes: true, Faults: i%3 == 0 || i%4 == 1, Shutdown: i%4 == 1}
		if run.Thorough() {
			o.Forks = 10
			if i%6 == 0 {
				o.Exhaustive = 8
			}
		}
		handle(run, model, fmt.Sprintf("seed%d/case%d", run.Seed, i), psx.RunCase(run, model, fmt.Sprintf("seed%d/case%d", run.Seed, i), rnd, o))
	}
}
