package c08

import (
	"strings"
	"testing"

	"verifharness/bmx"
	"verifharness/hx"
	"verifharness/stx"
)

func TestC08(t *testing.T) {
	run := hx.NewRun("C08")
	defer run.Finish(t)
	model, err := hx.StartModel()
	if err != nil {
		t.Fatalf("start model: %v", err)
	}
	defer model.Close()
	run.HasModel = model != nil
	run.SetRule("random histories of put/touch/finalize/corrupt(read with a flipped byte) on the real OldCurrentNewLocationBlobMap over the real " +
		"volatile block list and the block-device allocator with the CAS read buffer factory; non-trivial = at least one block released; distinct by script hash. " +
		"Store level: the same corruption injected under real flat / hierarchical CAS stores (with and without a data integrity validation cache; the corrupting read " +
		"consumed in every way a client can, incl. ReadAt of a range) and under AC stores (an entry that no longer parses: the read returns 0xff bytes), " +
		"followed by a full turn-over of uploads that must all be accepted. In addition (no model, oracle only): stores built by NewBlobAccessFromConfiguration " +
		"with blocks on a file backed block device and the key-location map in memory or on a block device, a byte flipped in the backing file")
	// stores built from configuration (oracle only): the wiring of new_blob_access.go
	if name, script := run.ReplayScript(); script != nil && strings.HasPrefix(script[0], "#cq") {
		cqCase(t, run, name, script)
		return
	}
	if run.Replay == "" {
		for name, script := range run.CorpusScripts() {
			if strings.HasPrefix(script[0], "#cq") {
				cqCase(t, run, "corpus/"+name, script)
			}
		}
		cqCases(t, run, run.Scale(30, 400))
	}
	bmx.Main(run, model, "C08", 12, run.Report)
	// the same property at the level of the blob access: a flipped byte on the medium is read through the real
	// stores; objects at or below the quarantined block must no longer be served or reported present
	stx.Corruption = 8
	stx.Main(run, model, "C08store", []string{"C08"}, []string{"flat", "flati", "hier", "ac"}, 3000, 28000)
}
