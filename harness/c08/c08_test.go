package c08

import (
	"testing"

	"verifharness/bmx"
	"verifharness/hx"
)

func TestC08(t *testing.T) {
	run := hx.NewRun("C08")
	defer run.Finish(t)
	model, err := hx.StartModel()
	if err != nil {
		t.Fatalf("start model: %v", err)
	}
	defer model.Close()
	run.HasModel = model != nil
	run.SetRule("random histories of put/touch/finalize/corrupt(read with a flipped byte) on the real OldCurrentNewLocationBlobMap over the real " +
		"volatile block list and the block-device allocator with the CAS read buffer factory; non-trivial = at least one block released; distinct by script hash")
	bmx.Main(run, model, "C08", 12, run.Report)
}
