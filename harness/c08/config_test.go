package c08

// The quarantine on stores built from a configuration message, the way bb_storage does it: blocks on a (file backed)
// block device, the key-location map in memory or on a block device of its own. A byte of one object is flipped in the
// backing file, the object is read, and - before any further upload - everything in the same and in older blocks must
// be gone while newer blocks are served; afterwards the store must accept uploads. Which object lies in which block is
// read off the medium. There is no Lean model behind this part (oracle only): what it adds over the hand-assembled
// stores is the wiring of new_blob_access.go (which resolver the record array gets, read buffer factory, ...).

import (
	"bytes"
	"context"
	"fmt"
	"os"
	"path/filepath"
	"strconv"
	"strings"
	"testing"

	"github.com/buildbarn/bb-storage/pkg/blobstore"
	"github.com/buildbarn/bb-storage/pkg/blobstore/buffer"
	blobstore_configuration "github.com/buildbarn/bb-storage/pkg/blobstore/configuration"
	"github.com/buildbarn/bb-storage/pkg/digest"
	pb "github.com/buildbarn/bb-storage/pkg/proto/configuration/blobstore"
	blockdevice_pb "github.com/buildbarn/bb-storage/pkg/proto/configuration/blockdevice"
	"google.golang.org/grpc/codes"
	"google.golang.org/grpc/status"

	"verifharness/hx"
	"verifharness/stx"
)

const (
	cqBlockCount = 8
	cqBlockSize  = 64 * 1024
)

func cqStore(dir, klm string) (blobstore.BlobAccess, string, error) {
	local := &pb.LocalBlobAccessConfiguration{
		KeyLocationMapMaximumGetAttempts: 16,
		KeyLocationMapMaximumPutAttempts: 64,
		OldBlocks:                        2,
		CurrentBlocks:                    2,
		NewBlocks:                        1,
	}
	if klm == "dev" {
		local.KeyLocationMapBackend = &pb.LocalBlobAccessConfiguration_KeyLocationMapOnBlockDevice{
			KeyLocationMapOnBlockDevice: &blockdevice_pb.Configuration{
				Source: &blockdevice_pb.Configuration_File{
					File: &blockdevice_pb.FileConfiguration{Path: filepath.Join(dir, "key_location_map"), SizeBytes: 1000 * 66},
				},
			},
		}
	} else {
		local.KeyLocationMapBackend = &pb.LocalBlobAccessConfiguration_KeyLocationMapInMemory_{
			KeyLocationMapInMemory: &pb.LocalBlobAccessConfiguration_KeyLocationMapInMemory{Entries: 1000},
		}
	}
	blocksPath := filepath.Join(dir, "blocks")
	local.BlocksBackend = &pb.LocalBlobAccessConfiguration_BlocksOnBlockDevice_{
		BlocksOnBlockDevice: &pb.LocalBlobAccessConfiguration_BlocksOnBlockDevice{
			Source: &blockdevice_pb.Configuration{
				Source: &blockdevice_pb.Configuration_File{
					File: &blockdevice_pb.FileConfiguration{Path: blocksPath, SizeBytes: cqBlockCount * cqBlockSize},
				},
			},
			SpareBlocks: 3,
		},
	}
	info, err := blobstore_configuration.NewBlobAccessFromConfiguration(nil,
		&pb.BlobAccessConfiguration{Backend: &pb.BlobAccessConfiguration_Local{Local: local}},
		blobstore_configuration.NewCASBlobAccessCreator(nil, 1<<20, nil))
	if err != nil {
		return nil, "", err
	}
	return info.BlobAccess, blocksPath, nil
}

type cqObj struct {
	d    digest.Digest
	data []byte
}

// cqRun executes "#cq <mem|dev> <seed> <objects> <victim> <mode>": objects of pseudo-random sizes are uploaded, object
// <victim> gets one byte flipped on the medium and is read in the given way (s ToByteSlice, r ToReader, a ReadAt).
func cqRun(t *testing.T, name string, script []string) (found []hx.Finding) {
	detected := false
	oracle := func(what, detail string) {
		for _, f := range found {
			if f.What == what {
				return
			}
		}
		found = append(found, hx.Finding{Kind: "oracle", What: what, Detail: "C08: " + detail, Case: name, Script: script})
	}
	defer func() {
		if p := recover(); p != nil {
			if detected {
				oracle("the store stopped accepting uploads after a corruption was detected", fmt.Sprintf("%s: a storage operation panicked: %v", script[0], p))
			} else {
				oracle("a configured store panicked", fmt.Sprintf("%s: %v", script[0], p))
			}
		}
	}()
	w := strings.Fields(script[0])
	if len(w) != 6 {
		return nil
	}
	seed, _ := strconv.ParseUint(w[2], 10, 64)
	n, _ := strconv.Atoi(w[3])
	victim, _ := strconv.Atoi(w[4])
	mode := w[5]
	if n < 2 || n > 14 || victim < 0 || victim >= n {
		return nil
	}
	dir := t.TempDir()
	ba, blocksPath, err := cqStore(dir, w[1])
	if err != nil {
		oracle("a store could not be built from its configuration", err.Error())
		return found
	}
	ctx := context.Background()
	r := hx.NewRand(seed, "cq", 0)
	objs := make([]cqObj, n)
	for i := range objs {
		data := make([]byte, r.Range(2000, 16000))
		for j := range data {
			data[j] = byte(r.Intn(256))
		}
		d := stx.CASDigest("cq", data)
		objs[i] = cqObj{d, data}
		if err := ba.Put(ctx, d, buffer.NewValidatedBufferFromByteSlice(data)); err != nil {
			oracle("a valid upload into a configured store failed", fmt.Sprintf("object %d: %v", i, err))
			return found
		}
	}
	// No read or existence check before the corruption (they would refresh objects in old blocks and leave two copies
	// on the medium); the history is short enough that nothing has been rotated out.
	medium, err := os.ReadFile(blocksPath)
	if err != nil || len(medium) != cqBlockCount*cqBlockSize {
		return nil // unexpected geometry: nothing to judge
	}
	// blocks in order of creation = order of the first object found in them
	rank := map[int]int{}
	blockOf := make([]int, n)
	offOf := make([]int, n)
	for i, o := range objs {
		off := bytes.Index(medium, o.data)
		if off >= 0 && bytes.Count(medium, o.data) != 1 {
			return nil // more than one copy on the medium: the layout cannot be read off it
		}
		if off < 0 {
			blockOf[i] = -1 // rotated out already
			continue
		}
		offOf[i] = off
		b := off / cqBlockSize
		if _, ok := rank[b]; !ok {
			rank[b] = len(rank)
		}
		blockOf[i] = rank[b]
	}
	if blockOf[victim] < 0 {
		return nil
	}
	f, err := os.OpenFile(blocksPath, os.O_RDWR, 0)
	if err != nil {
		return nil
	}
	at := offOf[victim] + len(objs[victim].data)/3
	f.WriteAt([]byte{medium[at] ^ 0xff}, int64(at))
	f.Close()

	b := ba.Get(ctx, objs[victim].d)
	switch mode {
	case "r":
		rd := b.ToReader()
		_, err = bytes.NewBuffer(nil).ReadFrom(rd)
		if cerr := rd.Close(); err == nil {
			err = cerr
		}
	case "a":
		p := make([]byte, len(objs[victim].data)/4)
		_, err = b.ReadAt(p, 0)
	default:
		_, err = b.ToByteSlice(1 << 20)
	}
	if status.Code(err) != codes.Internal {
		oracle("a read of corrupted data did not fail with INTERNAL", fmt.Sprintf("%s: Get of object %d -> %v", script[0], victim, err))
		return found
	}
	detected = true
	check := func(when string) {
		set := digest.NewSetBuilder(0)
		for _, o := range objs {
			set.Add(o.d)
		}
		missing, err := ba.FindMissing(ctx, set.Build())
		if err != nil {
			oracle("an existence check failed after a detected corruption", fmt.Sprintf("%s: %v", when, err))
			return
		}
		miss := map[digest.Digest]bool{}
		for _, d := range missing.Items() {
			miss[d] = true
		}
		for i, o := range objs {
			_, gerr := ba.Get(ctx, o.d).ToByteSlice(1 << 20)
			gone := blockOf[i] < 0 || blockOf[i] <= blockOf[victim]
			switch {
			case gone && !miss[o.d]:
				oracle("an object stored in or below a block with detected corruption was reported present",
					fmt.Sprintf("%s, %s: object %d (block %d, victim %d in block %d)", script[0], when, i, blockOf[i], victim, blockOf[victim]))
			case gone && status.Code(gerr) != codes.NotFound:
				oracle("an object stored in or below a block with detected corruption was served",
					fmt.Sprintf("%s, %s: object %d (block %d, victim %d in block %d): %v", script[0], when, i, blockOf[i], victim, blockOf[victim], gerr))
			case !gone && (miss[o.d] || gerr != nil):
				oracle("an object in a block newer than the detected corruption is no longer served",
					fmt.Sprintf("%s, %s: object %d (block %d, victim %d in block %d): missing=%v, Get: %v", script[0], when, i, blockOf[i], victim, blockOf[victim], miss[o.d], gerr))
			}
		}
	}
	check("right after the detection")
	fresh := make([]byte, 5000)
	for j := range fresh {
		fresh[j] = byte(r.Intn(256))
	}
	fd := stx.CASDigest("cq", fresh)
	if err := ba.Put(ctx, fd, buffer.NewValidatedBufferFromByteSlice(fresh)); err != nil {
		oracle("the store stopped accepting uploads after a corruption was detected", fmt.Sprintf("%s: %v", script[0], err))
		return found
	}
	if got, err := ba.Get(ctx, fd).ToByteSlice(1 << 20); err != nil || !bytes.Equal(got, fresh) {
		oracle("an upload made after a detected corruption cannot be read back", fmt.Sprintf("%s: %v", script[0], err))
	}
	check("after a subsequent upload")
	return found
}

func cqCase(t *testing.T, run *hx.Run, name string, script []string) {
	found := cqRun(t, name, script)
	run.Case(script, true, false)
	run.Count("kind:configured-" + strings.Fields(script[0])[1])
	for _, f := range found {
		run.Report(f)
	}
}

func cqCases(t *testing.T, run *hx.Run, n int) {
	for i := 0; i < n && run.Findings() < 6; i++ {
		r := hx.NewRand(run.Seed, "C08cq", i)
		objects := r.Range(5, 14)
		klm := "mem"
		if r.Chance(2, 3) {
			klm = "dev"
		}
		script := []string{fmt.Sprintf("#cq %s %d %d %d %s", klm, r.Uint64(), objects, r.Intn(objects), []string{"s", "r", "a"}[r.Intn(3)])}
		cqCase(t, run, fmt.Sprintf("seed%d/cq%d", run.Seed, i), script)
	}
}
