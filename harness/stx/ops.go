package stx

import (
	"sync/atomic"
	"time"
	"bytes"
	"context"
	"fmt"
	"io"
	"strings"

	remoteexecution "github.com/bazelbuild/remote-apis/build/bazel/remote/execution/v2"
	"github.com/buildbarn/bb-storage/pkg/blobstore/buffer"
	"github.com/buildbarn/bb-storage/pkg/blobstore/slicing"
	"github.com/buildbarn/bb-storage/pkg/digest"
	"google.golang.org/grpc/codes"
	"google.golang.org/grpc/status"
	"google.golang.org/protobuf/proto"
)

// Object is one logical object of a case.
type Object struct {
	Instance string
	Size     int
	Children []int // composite parent: indices of child objects (content = concatenation)
	Alias    int   // >= 0: same content as that object (another instance name)
}

// event is what a running operation reports to the scheduler: it parked at a gate, or it finished.
type event struct {
	op   int
	done bool
	// result of a finished operation
	reply string
	data  []byte
}

// pendingOp is an operation that is parked at a gate.
type pendingOp struct {
	id     int
	kind   string // put | comp
	obj    int
	ver    int
	resume chan struct{}
	// put
	chunks   [][]byte
	next     int  // next chunk to deliver
	written  int  // bytes delivered so far
	copied   bool // whether the upload is valid as a whole
	dedup    bool
	hasTick  bool
	failErr  error
	ioFailed bool // the device refused a write during this upload's copy
	closed     atomic.Int32 // how often the store closed the upload's source
	sawVisible string // a read or existence check that only this (then unfinished) upload can have made succeed
	// what had happened when the upload started
	corruptionsAtStart int
	discardsAtStart    float64
	newsAtStart        int64
	compRefreshed      bool // comp: the model says this composite read refreshes the parent
	// comp
	child  int
	slices []slicing.BlobSlice
}

// gatedChunkReader delivers the chunks of an upload one gate release at a time.
type gatedChunkReader struct {
	r  *Runner
	op *pendingOp
}

func (g *gatedChunkReader) Read() ([]byte, error) {
	g.r.ev <- event{op: g.op.id}
	<-g.op.resume
	if g.op.next >= len(g.op.chunks) {
		if g.op.failErr != nil {
			return nil, g.op.failErr
		}
		return nil, io.EOF
	}
	c := g.op.chunks[g.op.next]
	g.op.next++
	return c, nil
}

func (g *gatedChunkReader) Close() { g.op.closed.Add(1) }

// gatedReader is the io.Reader form of the same source (uploads arriving through ByteStream.Write are
// reader-backed buffers, which reach the block writers through io.Copy instead of one Write per chunk).
type gatedReader struct {
	g       gatedChunkReader
	rest    []byte
	eofLast bool // deliver io.EOF together with the last bytes (as many readers do)
}

func (g *gatedReader) Read(p []byte) (int, error) {
	if len(g.rest) == 0 {
		c, err := g.g.Read()
		if err != nil {
			return 0, err
		}
		g.rest = c
	}
	n := copy(p, g.rest)
	g.rest = g.rest[n:]
	if g.eofLast && len(g.rest) == 0 && g.g.op.next >= len(g.g.op.chunks) && g.g.op.failErr == nil {
		return n, io.EOF
	}
	return n, nil
}

func (g *gatedReader) Close() error { g.g.op.closed.Add(1); return nil }

// gatedSlicer parks before touching the parent, then slices it as the case designates.
type gatedSlicer struct {
	r  *Runner
	op *pendingOp
}

func (g *gatedSlicer) Slice(b buffer.Buffer, childDigest digest.Digest) (buffer.Buffer, []slicing.BlobSlice) {
	g.r.ev <- event{op: g.op.id}
	<-g.op.resume
	parent := g.r.objs[g.op.obj]
	data, err := b.ToByteSlice(1 << 20)
	if err != nil {
		return buffer.NewBufferFromError(err), nil
	}
	var slices []slicing.BlobSlice
	var child buffer.Buffer = buffer.NewBufferFromError(status.Error(codes.InvalidArgument, "no such child"))
	off := 0
	for i, c := range parent.Children {
		sz := g.r.objs[c].Size
		d := CASDigest(parent.Instance, data[off:off+sz])
		slices = append(slices, slicing.BlobSlice{Digest: d, OffsetBytes: int64(off), SizeBytes: int64(sz)})
		if i == g.op.child {
			child = buffer.NewCASBufferFromByteSlice(childDigest, data[off:off+sz], buffer.BackendProvided(func(bool) {}))
		}
		off += sz
	}
	g.op.slices = slices
	return child, slices
}

// Content of an object (CAS kinds): deterministic, distinct per object.
func (r *Runner) Content(obj int) []byte {
	o := r.objs[obj]
	if o.Alias >= 0 && o.Alias < obj {
		return r.Content(o.Alias)
	}
	if len(o.Children) > 0 {
		var b []byte
		for _, c := range o.Children {
			b = append(b, r.Content(c)...)
		}
		return b
	}
	b := make([]byte, o.Size)
	for i := range b {
		b[i] = byte(obj*53 + i*11 + 7)
	}
	return b
}

// ACValue is the marshalled ActionResult stored for (object, version).
func (r *Runner) ACValue(obj, ver int) []byte {
	raw := make([]byte, r.objs[obj].Size)
	for i := range raw {
		raw[i] = byte(obj*53 + ver*17 + i*11 + 3)
	}
	b, _ := proto.Marshal(&remoteexecution.ActionResult{StdoutRaw: raw})
	return b
}

func (r *Runner) acMessage(obj, ver int) *remoteexecution.ActionResult {
	var m remoteexecution.ActionResult
	proto.Unmarshal(r.ACValue(obj, ver), &m)
	return &m
}

// Digest under which an object is addressed.
func (r *Runner) Digest(obj int) digest.Digest {
	o := r.objs[obj]
	if r.st.Cfg.Kind == "ac" {
		// action digest: any digest works as a key; the size in it is irrelevant to the AC
		return digest.MustNewDigest(o.Instance, remoteexecution.DigestFunction_SHA256, sha([]byte(fmt.Sprintf("action-%d", obj))), int64(obj+1))
	}
	return CASDigest(o.Instance, r.Content(obj))
}

func splitChunks(data []byte, spec string) [][]byte {
	// spec: "w" whole, "1" byte-wise, "e" whole with empty chunks around, "h" two halves
	switch spec {
	case "1":
		var cs [][]byte
		for i := range data {
			cs = append(cs, data[i:i+1])
		}
		return cs
	case "e":
		return [][]byte{{}, data, {}}
	case "h":
		return [][]byte{data[:len(data)/2], data[len(data)/2:]}
	case "3":
		a, b := len(data)/3, 2*len(data)/3
		return [][]byte{data[:a], data[a:b], data[b:]}
	}
	if len(data) == 0 {
		return nil
	}
	return [][]byte{data}
}

// startPut launches an upload; it returns once the operation parked at its first gate or finished.
func (r *Runner) startPut(id, obj, ver int, chunking, fault string) {
	op, size := r.launchPut(id, obj, ver, chunking, fault)
	e := r.wait()
	r.afterPutStart(op, size, e)
}

// launchPut starts an upload in its own goroutine and returns without waiting for its first event.
func (r *Runner) launchPut(id, obj, ver int, chunking, fault string) (*pendingOp, int) {
	d := r.Digest(obj)
	op := &pendingOp{id: id, kind: "put", obj: obj, ver: ver, resume: make(chan struct{}), copied: true,
		corruptionsAtStart: r.corruptions, discardsAtStart: r.discards.total()}
	var b buffer.Buffer
	size := 0
	if r.st.Cfg.Kind == "ac" {
		b = buffer.NewProtoBufferFromProto(r.acMessage(obj, ver), buffer.UserProvided)
		size = len(r.ACValue(obj, ver))
	} else {
		data := append([]byte(nil), r.Content(obj)...)
		size = len(data)
		switch {
		case fault == "short" && len(data) > 0:
			data = data[:len(data)-1]
			op.copied = false
		case fault == "long":
			data = append(data, 0x5a)
			op.copied = false
		case fault == "badhash" && len(data) > 0:
			data[len(data)/2] ^= 0x01
			op.copied = false
		}
		asReader := strings.HasPrefix(chunking, "r") || strings.HasPrefix(chunking, "R")
		op.chunks = splitChunks(data, strings.TrimPrefix(strings.TrimPrefix(chunking, "r"), "R"))
		if asReader {
			// an io.Reader must not return (0, nil): no empty chunks
			var cs [][]byte
			for _, c := range op.chunks {
				if len(c) > 0 {
					cs = append(cs, c)
				}
			}
			op.chunks = cs
		}
		if strings.HasPrefix(fault, "err") {
			// fail after delivering k chunks
			k := 0
			fmt.Sscanf(fault, "err%d", &k)
			if k < len(op.chunks) {
				op.chunks = op.chunks[:k]
			}
			op.failErr = status.Error(codes.Aborted, "injected source failure")
			op.copied = false
		}
		if asReader {
			b = buffer.NewCASBufferFromReader(d, &gatedReader{g: gatedChunkReader{r: r, op: op}, eofLast: strings.HasPrefix(chunking, "R")}, buffer.UserProvided)
		} else {
			b = buffer.NewCASBufferFromChunkReader(d, &gatedChunkReader{r: r, op: op}, buffer.UserProvided)
		}
	}
	r.pending[id] = op
	r.ioFired = false
	go func() {
		defer func() {
			if p := recover(); p != nil {
				r.ev <- event{op: id, done: true, reply: fmt.Sprintf("panic: %v", p)}
			}
		}()
		ctx := context.Background()
		if fault == "cancel" {
			// the caller has gone away already: the upload may fail or go through, but it must release what it took
			c, cancel := context.WithCancel(ctx)
			cancel()
			ctx = c
		}
		err := r.st.BA.Put(ctx, d, b)
		reply := "ok"
		if err != nil {
			reply = Code(err)
		}
		r.ev <- event{op: id, done: true, reply: reply}
	}()
	return op, size
}

// consumeMode consumes a buffer returned by the store in one of the ways clients do: "s" ToByteSlice, "r" ToReader
// read to the end, "c" ToChunkReader in small chunks, "w" IntoWriter, "a" ReadAt of the whole object, "q" ReadAt of a middle range; "o" ToChunkReader at an offset beyond the end, "p" ToReader closed after
// one byte, "d" Discard and "x" ToByteSlice with a limit below the size abandon the data (kind "abandoned": the outcome of the read is not observed).
func consumeMode(b buffer.Buffer, mode string, size int) (string, []byte) {
	var data []byte
	var err error
	switch mode {
	case "r":
		rd := b.ToReader()
		data, err = io.ReadAll(rd)
		if cerr := rd.Close(); err == nil {
			err = cerr
		}
	case "c":
		cr := b.ToChunkReader(0, 3)
		for {
			var c []byte
			c, err = cr.Read()
			if err != nil {
				break
			}
			data = append(data, c...)
		}
		cr.Close()
		if err == io.EOF {
			err = nil
		}
	case "w":
		var w bytes.Buffer
		err = b.IntoWriter(&w)
		data = w.Bytes()
	case "a":
		// one ReadAt of the whole object (the size is what the digest says); like every other method of Buffer
		// it consumes the buffer
		data = make([]byte, size)
		var n int
		n, err = b.ReadAt(data, 0)
		data = data[:n]
		if err == io.EOF && n == size {
			err = nil
		}
	case "q":
		// one ReadAt of a range in the middle of the object: the reply carries the range, the caller compares it with
		// that part of the content
		if size < 3 {
			return consumeMode(b, "a", size)
		}
		off, ln := size/3, size/3
		data = make([]byte, ln)
		var n int
		n, err = b.ReadAt(data, int64(off))
		if err == nil || (err == io.EOF && n == ln) {
			return fmt.Sprintf("partial %d", off), data[:n]
		}
	case "k":
		// a chunk reader opened at an offset inside the object (a resumed ByteStream read)
		if size < 3 {
			return consumeMode(b, "c", size)
		}
		off := size / 3
		cr := b.ToChunkReader(int64(off), 3)
		for {
			var c []byte
			c, err = cr.Read()
			if err != nil {
				break
			}
			data = append(data, c...)
		}
		cr.Close()
		if err == io.EOF {
			return fmt.Sprintf("partial %d", off), data
		}
	case "o":
		// a chunk reader opened at an offset beyond the end of the object (a client's read_offset is passed on as is):
		// the call fails, the buffer must still be released
		cr := b.ToChunkReader(int64(size)+1, 3)
		cr.Read()
		cr.Close()
		return "abandoned", nil
	case "p":
		rd := b.ToReader()
		var one [1]byte
		rd.Read(one[:])
		rd.Close()
		return "abandoned", nil
	case "d":
		b.Discard()
		return "abandoned", nil
	case "D":
		// a discard that arrives late: the other consumer of the stream (the copy of a refresh) has registered first
		time.Sleep(3 * time.Millisecond)
		b.Discard()
		return "abandoned", nil
	case "x":
		// a client-side size limit below the object's size: the call fails, the buffer must still be released
		if size == 0 {
			return consume(b)
		}
		b.ToByteSlice(size - 1)
		return "abandoned", nil
	default:
		return consume(b)
	}
	if err != nil {
		return Code(err), nil
	}
	return "data", data
}

// consume reads a buffer returned by the store completely.
func consume(b buffer.Buffer) (string, []byte) {
	data, err := b.ToByteSlice(1 << 20)
	if err != nil {
		return Code(err), nil
	}
	return "data", data
}
